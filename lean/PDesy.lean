import PDesy.Model.Basic
import PDesy.Model.Types
import PDesy.Model.Priority
import PDesy.Model.Phases
import PDesy.Model.Sim
import PDesy.Model.Ser
