/-
  PDesy.Model.Phases — the phases of `BaseProject.simulate` / `__update`, one function each.
  Written to mirror the Python statement by statement (see DESIGN.md Appendix A).
-/
import PDesy.Model.Priority

namespace PDesy

/-! ### gates -/

/-- start gate of `__check_ready`: FS needs FINISHED, SS needs started; FF/SF ignored. -/
def readyGate (m : Model) (ts : Nat → TS) (t : Nat) : Bool :=
  (m.task t).inputs.all fun (p, d) =>
    match d with
    | .fs => ts p == .finished
    | .ss => (ts p).started
    | _ => true

/-- finish gate of `__check_finished`: FF needs FINISHED, SF needs started; FS/SS ignored. -/
def finishGate (m : Model) (ts : Nat → TS) (t : Nat) : Bool :=
  (m.task t).inputs.all fun (p, d) =>
    match d with
    | .ff => ts p == .finished
    | .sf => (ts p).started
    | _ => true

/-! ### check_state(FINISHED) -/

/-- release one worker of a task that has just been set FINISHED -/
def releaseW (t : Nat) (l : Live) (w : Nat) : Live :=
  if (l.wasg w).length > 0 && (l.wasg w).all (fun t' => l.tstate t' == .finished) then
    { l with wstate := upd l.wstate w .free, wasg := upd l.wasg w ((l.wasg w).erase t) }
  else l

def releaseF (t : Nat) (l : Live) (f : Nat) : Live :=
  if (l.fasg f).length > 0 && (l.fasg f).all (fun t' => l.tstate t' == .finished) then
    { l with fstate := upd l.fstate f .free, fasg := upd l.fasg f ((l.fasg f).erase t) }
  else l

/-- body of `if finished:` for one task -/
def finishOne (m : Model) (l : Live) (t : Nat) : Live :=
  let l1 := { l with tstate := upd l.tstate t .finished, rem := upd l.rem t 0 }
  let l2 := (l1.allocW t).foldl (releaseW t) l1
  let l3 := { l2 with allocW := upd l2.allocW t [] }
  if (m.task t).needFac then
    let l4 := (l3.allocF t).foldl (releaseF t) l3
    { l4 with allocF := upd l4.allocF t [] }
  else l3

/-- WORKING with remaining work ≤ 0 (`< 0 + 1e-10`, exact on the grid) -/
def finishCand (l : Live) (t : Nat) : Bool :=
  l.tstate t == .working && decide (l.rem t ≤ 0)

/-- one pass over the task list, in order, in place -/
def finishPass (m : Model) (order : List Nat) (l : Live) : Live :=
  order.foldl (fun acc t =>
    if finishCand acc t && finishGate m acc.tstate t then finishOne m acc t else acc) l

/-- number of FINISHED tasks below `n` -/
def finishedCount (n : Nat) (l : Live) : Nat :=
  ((List.range n).filter (fun t => l.tstate t == .finished)).length

/-- repeat passes until one finishes nothing (fuel: at most `n` productive passes) -/
def finishClosure (m : Model) (order : List Nat) : Nat → Live → Live
  | 0, l => l
  | fuel + 1, l =>
    let l' := finishPass m order l
    if finishedCount m.nT l' = finishedCount m.nT l then l' else finishClosure m order fuel l'

def chkFinishedOrd (m : Model) (order : List Nat) (l : Live) : Live :=
  let r := finishClosure m order (m.nT + 1) l
  { r with tstate := tabN m.nT r.tstate, rem := tabN m.nT r.rem,
           allocW := tabN m.nT r.allocW, allocF := tabN m.nT r.allocF,
           wstate := tabN m.nW r.wstate, wasg := tabN m.nW r.wasg,
           fstate := tabN m.nF r.fstate, fasg := tabN m.nF r.fasg }

/-- `workflow.check_state(time, FINISHED)` -/
def chkFinished (m : Model) (l : Live) : Live := chkFinishedOrd m (List.range m.nT) l

/-! ### product.check_state -/

def compNext (m : Model) (l : Live) (c : Nat) : CS :=
  let ts := (m.comp c).tasks.map l.tstate
  let s0 := l.cstate c
  let s1 := if !(ts.all (· == .working)) && !(ts.all (· == .finished)) && ts.any (· == .ready)
            then CS.ready else s0
  let s2 := if ts.any (· == .working) then CS.working else s1
  if ts.all (· == .finished) then CS.finished else s2

def compCheck (m : Model) (l : Live) : Live :=
  { l with cstate := tabN m.nC fun c => if c < m.nC then compNext m l c else l.cstate c }

/-! ### product.check_removing_placed_workplace (flat products) -/

def removeCand (m : Model) (l : Live) (c : Nat) : Bool :=
  (m.comp c).parents.isEmpty && (m.comp c).tasks.all (fun t => l.tstate t == .finished)
    && (l.placed c).isSome

def removeOne (l : Live) (c : Nat) : Live :=
  match l.placed c with
  | Option.none => l
  | some p => { l with wpComps := upd l.wpComps p ((l.wpComps p).erase c),
                       placed := upd l.placed c Option.none }

def chkRemoveOrd (m : Model) (order : List Nat) (l : Live) : Live :=
  let r := (order.filter (removeCand m l)).foldl removeOne l
  { r with wpComps := tabN m.nWp r.wpComps, placed := tabN m.nC r.placed }

def chkRemove (m : Model) (l : Live) : Live := chkRemoveOrd m (List.range m.nC) l

/-! ### check_state(READY) -/

def chkReady (m : Model) (l : Live) : Live :=
  { l with tstate := tabN m.nT fun t =>
      if t < m.nT && l.tstate t == .none && readyGate m l.tstate t then .ready else l.tstate t }

/-! ### update_PERT_data -/

structure Pert where
  est : Nat → Rat
  eft : Nat → Rat
  lst : Nat → Rat
  lft : Nat → Rat
  /-- tasks whose lst/lft have been set in the current backward pass (`calculated_task_set`) -/
  done : Nat → Bool := fun _ => false

/-- one relaxation `input_task → next_task` of the forward pass -/
def fwdRelax (l : Live) (p : Pert) (i : Nat) (e : Nat × Dep) : Pert :=
  let nx := e.1
  let pre := p.est nx
  let (est, eft) : Rat × Rat :=
    match e.2 with
    | .fs => let est := p.est i + l.rem i; (est, est + l.rem nx)
    | .ss => let est := p.est i; (est, est + l.rem nx)
    | .ff => let est := p.est i
             let eft := est + l.rem nx
             (est, if p.eft i > eft then p.eft i else eft)
    | .sf => let est := p.est i
             let eft := est + l.rem nx
             (est, if p.est i > eft then p.est i else eft)
  if est ≥ pre then { p with est := upd p.est nx est, eft := upd p.eft nx eft } else p

def fwdWave (m : Model) (l : Live) (wave : List Nat) (p : Pert) : Pert :=
  wave.foldl (fun acc i => (m.task i).outputs.foldl (fun a e => fwdRelax l a i e) acc) p

def nextOf (m : Model) (wave : List Nat) : List Nat :=
  canonSet m.nT (wave.flatMap fun i => (m.task i).outputs.map (·.1))

def fwdLoop (m : Model) (l : Live) : Nat → List Nat → Pert → Pert
  | 0, _, p => p
  | fuel + 1, wave, p =>
    if wave.isEmpty then p
    else fwdLoop m l fuel (nextOf m wave) (fwdWave m l wave p)

def bwdRelax (l : Live) (p : Pert) (o : Nat) (e : Nat × Dep) : Pert :=
  let pv := e.1
  let pre := p.lft pv
  let (lst, lft) : Rat × Rat :=
    match e.2 with
    | .fs => let lft := p.lst o; (lft - l.rem pv, lft)
    | .ss => let lst := p.lst o; (lst, lst + l.rem pv)
    | .ff => let lst := p.lst o
             let lft := lst + l.rem pv
             (lst, if p.lft o < lft then p.lft o else lft)
    | .sf => let lst := p.lst o
             let lft := lst + l.rem pv
             (if p.lft o < lst then p.lft o else lst, lft)
  if p.done pv = false ∨ pre ≥ lft then
    { p with lst := upd p.lst pv lst, lft := upd p.lft pv lft, done := upd p.done pv true } else p

def bwdWave (m : Model) (l : Live) (wave : List Nat) (p : Pert) : Pert :=
  wave.foldl (fun acc o => (m.task o).inputs.foldl (fun a e => bwdRelax l a o e) acc) p

def prevOf (m : Model) (wave : List Nat) : List Nat :=
  canonSet m.nT (wave.flatMap fun o => (m.task o).inputs.map (·.1))

def bwdLoop (m : Model) (l : Live) : Nat → List Nat → Pert → Pert
  | 0, _, p => p
  | fuel + 1, wave, p =>
    if wave.isEmpty then p
    else bwdLoop m l fuel (prevOf m wave) (bwdWave m l wave p)

/-- maximum of a list of rationals (first maximal element's value), `dflt` when empty -/
def maxList (dflt : Rat) : List Rat → Rat
  | [] => dflt
  | x :: xs => xs.foldl (fun a b => if b > a then b else a) x

def heads (m : Model) : List Nat := (List.range m.nT).filter fun t => (m.task t).inputs.isEmpty
def tails (m : Model) : List Nat := (List.range m.nT).filter fun t => (m.task t).outputs.isEmpty

/-- `__set_est_eft_data(time)` -/
def pertFwd (m : Model) (time : Rat) (l : Live) : Pert :=
  let p0 : Pert :=
    { est := fun t => if t < m.nT then time else l.est t
      eft := fun t => if t < m.nT && (m.task t).inputs.isEmpty then time + l.rem t else l.eft t
      lst := l.lst, lft := l.lft }
  fwdLoop m l (m.nT + 1) (heads m) p0

/-- `__set_lst_lft_criticalpath_data(time)`; `reset` = the F4 repair (fresh lst/lft). -/
def pertBwd (m : Model) (l : Live) (reset : Bool) (p : Pert) : Pert × Rat :=
  let tl := tails m
  let cpl := maxList l.cpl (tl.map p.eft)
  let base : Pert := if reset then
      { p with lst := fun t => if t < m.nT then -1 else p.lst t,
               lft := fun t => if t < m.nT then -1 else p.lft t } else p
  let p1 : Pert :=
    { base with lft := fun t => if tl.contains t then cpl else base.lft t
                lst := fun t => if tl.contains t then cpl - l.rem t else base.lst t
                done := fun _ => false }
  (bwdLoop m l (m.nT + 1) tl p1, cpl)

def pertReset : Bool := true

def pert (m : Model) (time : Nat) (l : Live) : Live :=
  let pf := pertFwd m (time : Rat) l
  let (pb, cpl) := pertBwd m l pertReset pf
  { l with est := tabN m.nT pb.est, eft := tabN m.nT pb.eft,
           lst := tabN m.nT pb.lst, lft := tabN m.nT pb.lft, cpl := cpl }

/-! ### absence states -/

def resState (absent : Bool) (asg : List Nat) : RS :=
  if absent then .absence else if asg.isEmpty then .free else .working

/-- `check_update_state_from_absence_time_list(time)` on a working step, everyone ABSENCE otherwise -/
def absenceSet (m : Model) (time : Nat) (working : Bool) (l : Live) : Live :=
  { l with
    wstate := tabN m.nW fun w =>
      if w < m.nW then
        (if working then resState ((m.worker w).absence.contains time) (l.wasg w) else .absence)
      else l.wstate w
    fstate := tabN m.nF fun f =>
      if f < m.nF then
        (if working then resState ((m.fac f).absence.contains time) (l.fasg f) else .absence)
      else l.fstate f }

/-! ### allocate -/

/-- `BaseComponent.is_ready` -/
def isReady (m : Model) (l : Live) (c : Nat) : Bool :=
  let ts := (m.comp c).tasks.map l.tstate
  -- a task that already holds workers counts as working (it turns WORKING right after the pass)
  let anyWorking := (m.comp c).tasks.any fun t => l.tstate t == .working || decide ((l.allocW t).length > 0)
  if ts.all (· == .finished) then false
  else !(ts.all (· == .none)) && !anyWorking && ts.any (· == .ready)

/-- `BaseTask.can_add_resources(worker, facility)` -/
def canAdd (m : Model) (l : Live) (t : Nat) (w : Option Nat) (f : Option Nat) : Bool :=
  if l.tstate t == .none || l.tstate t == .finished then false
  else if (l.allocW t).any (fun w' => (m.worker w').solo) then false
  else if (l.allocF t).any (fun f' => (m.fac f').solo) then false
  else if (match w with | some w => (m.worker w).solo && decide ((l.allocW t).length > 0) | _ => false) then false
  else if (match f with | some f => (m.fac f).solo && decide ((l.allocF t).length > 0) | _ => false) then false
  else if (match w, (m.task t).fixW with | some w, some ids => !(ids.contains w) | _, _ => false) then false
  else if (match f, (m.task t).fixF with | some f, some ids => !(ids.contains f) | _, _ => false) then false
  else if (match f with | some f => decide ((l.fasg f).length > 0) | _ => false) then false
  else
    match f, w with
    | some f, some w =>
      hasSkill (m.fac f).skills (m.task t).name &&
        hasSkill (m.worker w).facSkills (m.fac f).name && hasSkill (m.worker w).skills (m.task t).name
    | some _, Option.none => false   -- Python would raise on `None.has_facility_skill`; never called so
    | Option.none, some w => hasSkill (m.worker w).skills (m.task t).name
    | Option.none, Option.none => false

/-- `__is_allocated_worker(worker, task)` -/
def teamTargets (m : Model) (w t : Nat) : Bool := (m.team (m.worker w).team).targets.contains t

/-- `__is_allocated_facility(facility, task)` -/
def wpTargets (m : Model) (f t : Nat) : Bool := (m.wp (m.fac f).wp).targets.contains t

/-- accumulator of the allocation loop: live state and the free-worker list (order matters) -/
structure Alloc where
  l : Live
  free : List Nat
  moved : List Nat := []   -- components moved in this pass (each moves at most once per step)

/-- the conveyor / space / skill test of step 3-1 for one candidate workplace -/
def placeOk (m : Model) (l : Live) (t c p : Nat) : Bool :=
  decide (p < m.nWp) &&
  ((m.wp p).inputs.isEmpty ||
    (match l.placed c with
     | Option.none => true
     | some q => (m.wp p).inputs.contains q)) &&
  decide (availSpace m l p ≥ (m.comp c).size) &&
  decide (wpSkillSum m p (m.task t).name > 0)

/-- 3-1-1: move component `c` to workplace `p` (flat products) -/
def moveComp (l : Live) (c p : Nat) : Live :=
  let l1 : Live := match l.placed c with
    | Option.none => l
    | some q => { l with wpComps := upd l.wpComps q ((l.wpComps q).erase c) }
  let l2 := { l1 with placed := upd l1.placed c (some p) }
  if (l2.wpComps p).contains c then l2
  else { l2 with wpComps := upd l2.wpComps p (l2.wpComps p ++ [c]) }

/-- step 3-1 for one task -/
def placeStep (m : Model) (t : Nat) (l : Live) : Live :=
  match (m.task t).comp with
  | Option.none => l
  | some c =>
    if isReady m l c then
      let cands := sortWps m l (m.task t).wpRule (m.task t).name (m.task t).wps
      match cands.find? (placeOk m l t c) with
      | Option.none => l
      | some p => moveComp l c p
    else l

/-- give worker `w` to task `t` (both sides) -/
def giveW (l : Live) (t w : Nat) : Live :=
  { l with allocW := upd l.allocW t (l.allocW t ++ [w]), wasg := upd l.wasg w (l.wasg w ++ [t]) }

def giveF (l : Live) (t f : Nat) : Live :=
  { l with allocF := upd l.allocF t (l.allocF t ++ [f]), fasg := upd l.fasg f (l.fasg f ++ [t]) }

/-- step 3-2, task without facility -/
def allocWorkers (m : Model) (t : Nat) (a : Alloc) : Alloc :=
  let name := (m.task t).name
  let free := sortWorkers m (m.task t).wRule name Option.none a.free
  let cands := free.filter fun w => hasSkill (m.worker w).skills name && teamTargets m w t
  cands.foldl (fun acc w =>
    if canAdd m acc.l t (some w) Option.none then
      { acc with l := giveW acc.l t w, free := acc.free.filter (· != w) }
    else acc) { a with free := free }

/-- step 3-2, task that needs a facility -/
def allocPairs (m : Model) (t : Nat) (a : Alloc) : Alloc :=
  match (m.task t).comp with
  | Option.none => a
  | some c =>
    match a.l.placed c with
    | Option.none => a
    | some p =>
      let name := (m.task t).name
      let freeF := (m.wp p).facs.filter fun f => a.l.fstate f == .free
      let sortedF := sortFacs m (m.task t).fRule name freeF
      let candsF := sortedF.filter fun f => hasSkill (m.fac f).skills name && wpTargets m f t
      candsF.foldl (fun acc f =>
        let ws := acc.free.filter fun w =>
          hasSkill (m.worker w).skills name && teamTargets m w t && canAdd m acc.l t (some w) (some f)
        match sortWorkers m (m.task t).wRule name (some p) ws with
        | [] => acc
        | w :: _ => { acc with l := giveF (giveW acc.l t w) t f, free := acc.free.filter (· != w) }) a

/-- the component that `placeStep m t l` moves, if it moves one -/
def placeMoves (m : Model) (t : Nat) (l : Live) : Option Nat :=
  match (m.task t).comp with
  | Option.none => Option.none
  | some c =>
    if isReady m l c then
      match (sortWps m l (m.task t).wpRule (m.task t).name (m.task t).wps).find? (placeOk m l t c) with
      | Option.none => Option.none
      | some _ => some c
    else Option.none

def allocTask (m : Model) (acc : Alloc) (t : Nat) : Alloc :=
  let skip : Bool := match (m.task t).comp with
    | some c => acc.moved.contains c
    | Option.none => false
  let a1 : Alloc :=
    if skip then acc
    else { acc with l := placeStep m t acc.l,
                    moved := match placeMoves m t acc.l with
                      | some c => acc.moved ++ [c]
                      | Option.none => acc.moved }
  if (m.task t).isAuto then a1
  else if (m.task t).needFac then allocPairs m t a1
  else allocWorkers m t a1

/-- `__allocate(task_priority_rule)` -/
def allocate (m : Model) (lg : Logs) (rule : TaskRule) (l : Live) : Live :=
  let cands := (List.range m.nT).filter fun t => l.tstate t == .ready || l.tstate t == .working
  let sorted := sortTasks m l lg rule cands
  let free := (List.range m.nW).filter fun w => l.wstate w == .free
  let r := (sorted.foldl (allocTask m) { l := l, free := free }).l
  { r with allocW := tabN m.nT r.allocW, allocF := tabN m.nT r.allocF,
           wasg := tabN m.nW r.wasg, fasg := tabN m.nF r.fasg,
           placed := tabN m.nC r.placed, wpComps := tabN m.nWp r.wpComps }

/-! ### check_state(WORKING) -/

def workingTarget (m : Model) (l : Live) (t : Nat) : Bool :=
  (l.tstate t == .ready && (l.allocW t).length > 0) ||
  (l.tstate t == .ready && (m.task t).isAuto && (m.task t).comp.isNone) ||
  (l.tstate t == .ready && (m.task t).isAuto &&
    (match (m.task t).comp with
     | some c => (match l.placed c with
                  | some p => (m.task t).wps.contains p
                  | Option.none => false)
     | Option.none => false)) ||
  (l.tstate t == .working && (l.allocW t).length > 0)

def startOne (m : Model) (l : Live) (t : Nat) : Live :=
  if l.tstate t == .ready then
    let l1 := { l with tstate := upd l.tstate t .working }
    let l2 := (l1.allocW t).foldl (fun a w => { a with wstate := upd a.wstate w .working }) l1
    if (m.task t).needFac then
      (l2.allocF t).foldl (fun a f => { a with fstate := upd a.fstate f .working }) l2
    else l2
  else if l.tstate t == .working then
    (l.allocW t).foldl (fun a w =>
      let a1 := if a.wstate w == .free then { a with wstate := upd a.wstate w .working } else a
      if (m.task t).needFac then
        (a1.allocF t).foldl (fun b f =>
          if b.fstate f == .free then { b with fstate := upd b.fstate f .working } else b) a1
      else a1) l
  else l

def chkWorkingOrd (m : Model) (order : List Nat) (l : Live) : Live :=
  let r := (order.filter (workingTarget m l)).foldl (startOne m) l
  { r with tstate := tabN m.nT r.tstate, wstate := tabN m.nW r.wstate, fstate := tabN m.nF r.fstate }

def chkWorking (m : Model) (l : Live) : Live := chkWorkingOrd m (List.range m.nT) l

/-! ### add_labor_cost -/

def wCostNow (m : Model) (l : Live) (working : Bool) (w : Nat) : Rat :=
  if working && l.wstate w == .working then (m.worker w).cost else 0

def fCostNow (m : Model) (l : Live) (working : Bool) (f : Nat) : Rat :=
  if working && l.fstate f == .working then (m.fac f).cost else 0

def teamCostNow (m : Model) (l : Live) (working : Bool) (tm : Nat) : Rat :=
  sumList ((m.team tm).workers.map (wCostNow m l working))

def wpCostNow (m : Model) (l : Live) (working : Bool) (p : Nat) : Rat :=
  sumList ((m.wp p).facs.map (fCostNow m l working))

def orgCostNow (m : Model) (l : Live) (working : Bool) : Rat :=
  sumList ((List.range m.nTeam).map (teamCostNow m l working)) +
  sumList ((List.range m.nWp).map (wpCostNow m l working))

/-- step 3 of the loop: `organization.add_labor_cost(...)` and `cost_list.append` -/
def cost (m : Model) (working : Bool) (l : Live) (lg : Logs) : Logs :=
  { lg with
    wCost := tabN m.nW fun w => if w < m.nW then lg.wCost w ++ [wCostNow m l working w] else lg.wCost w
    fCost := tabN m.nF fun f => if f < m.nF then lg.fCost f ++ [fCostNow m l working f] else lg.fCost f
    teamCost := tabN m.nTeam fun tm =>
      if tm < m.nTeam then lg.teamCost tm ++ [teamCostNow m l working tm] else lg.teamCost tm
    wpCost := tabN m.nWp fun p =>
      if p < m.nWp then lg.wpCost p ++ [wpCostNow m l working p] else lg.wpCost p
    orgCost := lg.orgCost ++ [orgCostNow m l working]
    projCost := lg.projCost ++ [orgCostNow m l working] }

/-! ### perform -/

def workingCount (l : Live) (asg : List Nat) : Nat := (asg.filter fun t => l.tstate t == .working).length

/-- `worker.get_work_amount_skill_progress(name)` with sd = 0 -/
def wProgress (m : Model) (l : Live) (name w : Nat) : Rat :=
  if !(hasSkill (m.worker w).skills name) then 0
  else if l.wstate w == .absence then 0
  else skillVal (m.worker w).skills name / (workingCount l (l.wasg w) : Rat)

def fProgress (m : Model) (l : Live) (name f : Nat) : Rat :=
  if !(hasSkill (m.fac f).skills name) then 0
  else if l.fstate f == .absence then 0
  else skillVal (m.fac f).skills name / (workingCount l (l.fasg f) : Rat)

/-- work done on a WORKING task in one step -/
def contrib (m : Model) (l : Live) (t : Nat) : Rat :=
  let name := (m.task t).name
  if (m.task t).isAuto then (m.task t).autoRate
  else if (m.task t).needFac then
    sumList (((l.allocW t).zip (l.allocF t)).map fun (w, f) => wProgress m l name w * fProgress m l name f)
  else sumList ((l.allocW t).map (wProgress m l name))

/-- step 4 of the loop -/
def perform (m : Model) (working autoFlag : Bool) (l : Live) : Live :=
  { l with rem := tabN m.nT fun t =>
      if t < m.nT && l.tstate t == .working && (working || (autoFlag && (m.task t).isAuto))
      then l.rem t - contrib m l t else l.rem t }

/-! ### record -/

def showT (working : Bool) (s : TS) : TS := if !working && s == .working then .ready else s
def showC (working : Bool) (s : CS) : CS := if !working && s == .working then .ready else s
def showR (working : Bool) (s : RS) : RS := if working then s else .absence

def record (m : Model) (working : Bool) (l : Live) (lg : Logs) : Logs :=
  { lg with
    tState := tabN m.nT fun t => if t < m.nT then lg.tState t ++ [showT working (l.tstate t)] else lg.tState t
    tRem := tabN m.nT fun t => if t < m.nT then lg.tRem t ++ [l.rem t] else lg.tRem t
    tAllocW := tabN m.nT fun t => if t < m.nT then lg.tAllocW t ++ [l.allocW t] else lg.tAllocW t
    tAllocF := tabN m.nT fun t => if t < m.nT then lg.tAllocF t ++ [l.allocF t] else lg.tAllocF t
    wState := tabN m.nW fun w => if w < m.nW then lg.wState w ++ [showR working (l.wstate w)] else lg.wState w
    wAsg := tabN m.nW fun w => if w < m.nW then lg.wAsg w ++ [l.wasg w] else lg.wAsg w
    fState := tabN m.nF fun f => if f < m.nF then lg.fState f ++ [showR working (l.fstate f)] else lg.fState f
    fAsg := tabN m.nF fun f => if f < m.nF then lg.fAsg f ++ [l.fasg f] else lg.fAsg f
    wpPlaced := tabN m.nWp fun p => if p < m.nWp then lg.wpPlaced p ++ [l.wpComps p] else lg.wpPlaced p
    cState := tabN m.nC fun c => if c < m.nC then lg.cState c ++ [showC working (l.cstate c)] else lg.cState c
    cPlaced := tabN m.nC fun c => if c < m.nC then lg.cPlaced c ++ [l.placed c] else lg.cPlaced c }

end PDesy
