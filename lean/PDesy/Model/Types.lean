/-
  PDesy.Model.Types — static model, live state, logs, whole state, parameters.
  Objects are positions in lists; references are indices.  Dynamic state is a record of
  total functions `Nat → α`; phases act below the sizes only.
-/
import PDesy.Model.Basic

namespace PDesy

/-- Static data of a task (constructor parameters of `BaseTask`). -/
structure TaskS where
  name : Nat := 0                       -- skill maps are keyed by task *name*
  work : Rat := 0                       -- default_work_amount
  prog : Rat := 0                       -- default_progress
  autoRate : Rat := 1                   -- work_amount_progress_of_unit_step_time
  isAuto : Bool := false
  needFac : Bool := false
  inputs : List (Nat × Dep) := []       -- input_task_list, in order
  outputs : List (Nat × Dep) := []      -- output_task_list, in order
  wps : List Nat := []                  -- allocated_workplace_list, in order
  comp : Option Nat := Option.none      -- target_component
  fixW : Option (List Nat) := Option.none  -- fixing_allocating_worker_id_list (as worker indices)
  fixF : Option (List Nat) := Option.none
  wRule : ResRule := .mw
  fRule : ResRule := .ssp
  wpRule : WpRule := .fss
  due : Int := -1
  deriving Inhabited

structure WorkerS where
  team : Nat := 0
  skills : List (Nat × Rat) := []       -- workamount_skill_mean_map, keyed by task name
  facSkills : List (Nat × Rat) := []    -- facility_skill_map, keyed by facility name
  solo : Bool := false
  cost : Rat := 0
  absence : List Nat := []
  mainWp : Option Nat := Option.none
  deriving Inhabited

structure FacS where
  wp : Nat := 0
  name : Nat := 0
  skills : List (Nat × Rat) := []
  solo : Bool := false
  cost : Rat := 0
  absence : List Nat := []
  deriving Inhabited

structure TeamS where
  workers : List Nat := []
  targets : List Nat := []              -- targeted_task_list
  deriving Inhabited

structure WpS where
  facs : List Nat := []
  targets : List Nat := []
  cap : Rat := 1
  inputs : List Nat := []
  outputs : List Nat := []
  deriving Inhabited

structure CompS where
  tasks : List Nat := []
  size : Rat := 1
  parents : List Nat := []
  children : List Nat := []
  deriving Inhabited

/-- The static model.  Workers are numbered along `chain(team.worker_list for team in team_list)`,
facilities along the workplaces' facility lists. -/
structure Model where
  nT : Nat
  nW : Nat
  nF : Nat
  nTeam : Nat
  nWp : Nat
  nC : Nat
  task : Nat → TaskS
  worker : Nat → WorkerS
  fac : Nat → FacS
  team : Nat → TeamS
  wp : Nat → WpS
  comp : Nat → CompS

/-- Live (non-log) dynamic state. -/
structure Live where
  tstate : Nat → TS
  rem : Nat → Rat
  est : Nat → Rat
  eft : Nat → Rat
  lst : Nat → Rat
  lft : Nat → Rat
  cpl : Rat
  allocW : Nat → List Nat     -- task ↦ allocated_worker_list (order matters: paired by position)
  allocF : Nat → List Nat
  wstate : Nat → RS
  wasg : Nat → List Nat       -- worker ↦ assigned_task_list
  fstate : Nat → RS
  fasg : Nat → List Nat
  cstate : Nat → CS
  placed : Nat → Option Nat   -- component ↦ placed_workplace
  wpComps : Nat → List Nat    -- workplace ↦ placed_component_list

/-- Per-step logs. -/
structure Logs where
  tState : Nat → List TS
  tRem : Nat → List Rat
  tAllocW : Nat → List (List Nat)
  tAllocF : Nat → List (List Nat)
  wState : Nat → List RS
  wCost : Nat → List Rat
  wAsg : Nat → List (List Nat)
  fState : Nat → List RS
  fCost : Nat → List Rat
  fAsg : Nat → List (List Nat)
  teamCost : Nat → List Rat
  wpCost : Nat → List Rat
  wpPlaced : Nat → List (List Nat)
  orgCost : List Rat
  projCost : List Rat
  cState : Nat → List CS
  cPlaced : Nat → List (Option Nat)

/-- The whole mutable state of a project. -/
structure St where
  live : Live
  logs : Logs
  time : Nat
  status : Status
  mode : Mode
  absence : List Nat          -- project.absence_time_list as stored by the last run / edit
  autoFlag : Bool             -- project.perform_auto_task_while_absence_time

/-- Arguments of `simulate`. -/
structure Params where
  rule : TaskRule := .tslack
  absence : List Nat := []
  autoFlag : Bool := false
  initState : Bool := true
  initLog : Bool := true
  maxTime : Nat := 10000

def Live.empty : Live where
  tstate := fun _ => .none
  rem := fun _ => 0
  est := fun _ => 0
  eft := fun _ => 0
  lst := fun _ => -1
  lft := fun _ => -1
  cpl := 0
  allocW := fun _ => []
  allocF := fun _ => []
  wstate := fun _ => .free
  wasg := fun _ => []
  fstate := fun _ => .free
  fasg := fun _ => []
  cstate := fun _ => .none
  placed := fun _ => Option.none
  wpComps := fun _ => []

def Logs.empty : Logs where
  tState := fun _ => []
  tRem := fun _ => []
  tAllocW := fun _ => []
  tAllocF := fun _ => []
  wState := fun _ => []
  wCost := fun _ => []
  wAsg := fun _ => []
  fState := fun _ => []
  fCost := fun _ => []
  fAsg := fun _ => []
  teamCost := fun _ => []
  wpCost := fun _ => []
  wpPlaced := fun _ => []
  orgCost := []
  projCost := []
  cState := fun _ => []
  cPlaced := fun _ => []

/-- A project object straight after construction (before any `initialize`). -/
def St.fresh : St where
  live := Live.empty
  logs := Logs.empty
  time := 0
  status := .none
  mode := .none
  absence := []
  autoFlag := false

end PDesy
