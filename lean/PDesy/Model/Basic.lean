/-
  PDesy.Model.Basic — enums, point updates, tabulation, stable insertion sort.
  No imports outside Lean core: the driver must stay Mathlib-free.
-/
namespace PDesy

/-- BaseTaskState (WORKING_ADDITIONALLY is never produced by the base classes; DESIGN F21). -/
inductive TS | none | ready | working | finished
  deriving DecidableEq, Repr, Inhabited

/-- BaseWorkerState / BaseFacilityState. -/
inductive RS | free | working | absence
  deriving DecidableEq, Repr, Inhabited

/-- BaseComponentState. -/
inductive CS | none | ready | working | finished
  deriving DecidableEq, Repr, Inhabited

/-- BaseTaskDependency. -/
inductive Dep | fs | ss | ff | sf
  deriving DecidableEq, Repr, Inhabited

/-- TaskPriorityRuleMode. -/
inductive TaskRule | tslack | est | spt | lpt | fifo | lrpt | srpt | lwrpt | swrpt
  deriving DecidableEq, Repr, Inhabited

/-- ResourcePriorityRuleMode. -/
inductive ResRule | mw | ssp | vc | hsv
  deriving DecidableEq, Repr, Inhabited

/-- WorkplacePriorityRuleMode. -/
inductive WpRule | fss | ssp
  deriving DecidableEq, Repr, Inhabited

/-- BaseProjectStatus. -/
inductive Status | none | success | failure
  deriving DecidableEq, Repr, Inhabited

/-- SimulationMode. -/
inductive Mode | none | forward | backward
  deriving DecidableEq, Repr, Inhabited

/-- Rank of a task state along NONE < READY < WORKING < FINISHED. -/
def TS.rank : TS → Nat
  | .none => 0 | .ready => 1 | .working => 2 | .finished => 3

/-- "has started": WORKING or FINISHED. -/
def TS.started : TS → Bool
  | .working => true | .finished => true | _ => false

/-- Point update of a total function. -/
def upd {α : Type} (f : Nat → α) (i : Nat) (v : α) : Nat → α :=
  fun j => if j = i then v else f j

@[simp] theorem upd_same {α : Type} (f : Nat → α) (i : Nat) (v : α) : upd f i v i = v := by
  simp [upd]

@[simp] theorem upd_other {α : Type} (f : Nat → α) (i j : Nat) (v : α) (h : j ≠ i) :
    upd f i v j = f j := by
  simp [upd, h]

theorem upd_apply {α : Type} (f : Nat → α) (i j : Nat) (v : α) :
    upd f i v j = if j = i then v else f j := rfl

/-- read from an array, falling back to `f` outside its range -/
@[noinline] def readArr {α : Type} (a : Array α) (f : Nat → α) (i : Nat) : α :=
  if h : i < a.size then a[i] else f i

@[noinline] def mkArr {α : Type} (n : Nat) (g : Nat → α) : Array α :=
  Array.ofFn (n := n) (fun i => g i.val)

/-- Tabulate the first `n` values of `f` into an array and read from it.  Extensionally the
identity (`tabN_eq`); it only keeps execution linear.  `macro_inline` matters: Lean compiles
a definition returning a function with the extra argument added, so an ordinary `def` would
rebuild the array on every read; expanded at the use site (always inside a function that
returns a structure) the array is built once. -/
@[macro_inline] def tabN {α : Type} (n : Nat) (f : Nat → α) : Nat → α :=
  readArr (mkArr n f) f

@[simp] theorem tabN_eq {α : Type} (n : Nat) (f : Nat → α) : tabN n f = f := by
  funext i
  unfold tabN readArr mkArr
  by_cases h : i < (Array.ofFn fun i : Fin n => f i.val).size
  · rw [dif_pos h]; simp
  · rw [dif_neg h]

/-- Association-list lookup (first match), the model of a Python `dict` read. -/
def lookup {β : Type} : List (Nat × β) → Nat → Option β
  | [], _ => Option.none
  | (k, v) :: rest, x => if k = x then some v else lookup rest x

/-- Sum of the values of an association list (`sum(d.values())`). -/
def sumVals : List (Nat × Rat) → Rat
  | [] => 0
  | (_, v) :: rest => v + sumVals rest

/-- Sum of a list of rationals, left to right from 0 (Python `sum` / `+=` loops). -/
def sumList : List Rat → Rat
  | [] => 0
  | x :: xs => x + sumList xs

/-- Stable insertion: put `x` in front of the first `y` with `le x y`. -/
def insertBy {α : Type} (le : α → α → Bool) (x : α) : List α → List α
  | [] => [x]
  | y :: ys => if le x y then x :: y :: ys else y :: insertBy le x ys

/-- Stable insertion sort (models Python's `sorted(key=…)`, also with `reverse=True`, which
keeps the original order of equal keys). -/
def sortBy {α : Type} (le : α → α → Bool) : List α → List α
  | [] => []
  | x :: xs => insertBy le x (sortBy le xs)

/-- A rational or +∞ (for `dict.get(name, -inf)` keys, negated). -/
inductive ExtRat | fin (r : Rat) | inf
  deriving DecidableEq, Repr, Inhabited

def ExtRat.le : ExtRat → ExtRat → Bool
  | .fin a, .fin b => decide (a ≤ b)
  | .fin _, .inf => true
  | .inf, .inf => true
  | .inf, .fin _ => false

def ExtRat.lt (a b : ExtRat) : Bool := a.le b && !(b.le a)

/-- Lexicographic ≤ on triples of extended rationals (Python tuple comparison). -/
def lex3Le (a b : ExtRat × ExtRat × ExtRat) : Bool :=
  if a.1.lt b.1 then true
  else if b.1.lt a.1 then false
  else if a.2.1.lt b.2.1 then true
  else if b.2.1.lt a.2.1 then false
  else a.2.2.le b.2.2

def boolKey (b : Bool) : ExtRat := .fin (if b then 1 else 0)

/-- ascending-by-index, duplicate-free list of the members of `xs` below `n`
(the iteration order of a small Python `set` of objects whose hash is their index). -/
def canonSet (n : Nat) (xs : List Nat) : List Nat :=
  (List.range n).filter (fun i => xs.contains i)

end PDesy
