/-
  PDesy.Model.Priority — the four sorting functions of base_priority_rule.py.
  Every sort is the stable insertion sort `sortBy` with a comparator built from the
  documented key.
-/
import PDesy.Model.Types

namespace PDesy

/-- `has_workamount_skill(name)`: key present and value > 0 (+1e-10, exact on the grid). -/
def hasSkill (skills : List (Nat × Rat)) (name : Nat) : Bool :=
  match lookup skills name with
  | some v => decide (0 < v)
  | Option.none => false

/-- skill value, 0 when missing -/
def skillVal (skills : List (Nat × Rat)) (name : Nat) : Rat :=
  (lookup skills name).getD 0

/-- number of READY entries in a task's state log (FIFO key). -/
def readyCount (log : List TS) : Nat := (log.filter (· == TS.ready)).length

/-- The sort key of `sort_task_list`, as (key, descending?). -/
def taskKey (m : Model) (l : Live) (lg : Logs) (rule : TaskRule) (t : Nat) : Rat :=
  match rule with
  | .tslack => l.lst t - l.est t
  | .est => l.est t
  | .spt => (m.task t).work
  | .lpt => (m.task t).work
  | .fifo => ((readyCount (lg.tState t) : Nat) : Rat)
  | .lrpt => l.rem t
  | .srpt => l.rem t
  | .lwrpt => l.cpl
  | .swrpt => l.cpl

def taskRuleDesc : TaskRule → Bool
  | .lpt => true | .fifo => true | .lrpt => true | .lwrpt => true | _ => false

/-- comparator of `sort_task_list` -/
def taskLe (m : Model) (l : Live) (lg : Logs) (rule : TaskRule) (a b : Nat) : Bool :=
  if taskRuleDesc rule then decide (taskKey m l lg rule b ≤ taskKey m l lg rule a)
  else decide (taskKey m l lg rule a ≤ taskKey m l lg rule b)

def sortTasks (m : Model) (l : Live) (lg : Logs) (rule : TaskRule) (ts : List Nat) : List Nat :=
  sortBy (taskLe m l lg rule) ts

/-- The key tuple of `sort_worker_list` (after the `is not` → `!=` repair, F10). -/
def workerKey (m : Model) (rule : ResRule) (name : Nat) (target : Option Nat) (w : Nat) :
    ExtRat × ExtRat × ExtRat :=
  let ws := m.worker w
  let mw1 := boolKey (decide (ws.mainWp ≠ target))
  let mw2 := boolKey (decide (ws.mainWp ≠ Option.none))
  match rule with
  | .mw => (mw1, mw2, .fin (sumVals ws.skills))
  | .ssp => (.fin (sumVals ws.skills), mw1, mw2)
  | .vc => (.fin ws.cost, mw1, mw2)
  | .hsv =>
    (match lookup ws.skills name with
     | some v => .fin (-v)
     | Option.none => .inf, mw1, mw2)

def workerLe (m : Model) (rule : ResRule) (name : Nat) (target : Option Nat) (a b : Nat) : Bool :=
  lex3Le (workerKey m rule name target a) (workerKey m rule name target b)

def sortWorkers (m : Model) (rule : ResRule) (name : Nat) (target : Option Nat)
    (ws : List Nat) : List Nat :=
  sortBy (workerLe m rule name target) ws

/-- comparator of `sort_facility_list`; MW is accepted and leaves the order alone. -/
def facLe (m : Model) (rule : ResRule) (name : Nat) (a b : Nat) : Bool :=
  match rule with
  | .mw => true
  | .ssp => decide (sumVals (m.fac a).skills ≤ sumVals (m.fac b).skills)
  | .vc => decide ((m.fac a).cost ≤ (m.fac b).cost)
  | .hsv =>
    -- key = skill or -inf, descending
    let ka : ExtRat := match lookup (m.fac a).skills name with
      | some v => .fin (-v) | Option.none => .inf
    let kb : ExtRat := match lookup (m.fac b).skills name with
      | some v => .fin (-v) | Option.none => .inf
    ka.le kb

def sortFacs (m : Model) (rule : ResRule) (name : Nat) (fs : List Nat) : List Nat :=
  sortBy (facLe m rule name) fs

/-- `get_available_space_size`: capacity minus the sizes of every listed component. -/
def availSpace (m : Model) (l : Live) (p : Nat) : Rat :=
  (m.wp p).cap - sumList ((l.wpComps p).map (fun c => (m.comp c).size))

/-- `get_total_workamount_skill(name)` / `count_sum_skill_point`. -/
def wpSkillSum (m : Model) (p : Nat) (name : Nat) : Rat :=
  sumList (((m.wp p).facs.filter (fun f => hasSkill (m.fac f).skills name)).map
    (fun f => skillVal (m.fac f).skills name))

def wpKey (m : Model) (l : Live) (rule : WpRule) (name : Nat) (p : Nat) : Rat :=
  match rule with
  | .fss => availSpace m l p
  | .ssp => wpSkillSum m p name

/-- comparator of `sort_workplace_list` (both modes are descending). -/
def wpLe (m : Model) (l : Live) (rule : WpRule) (name : Nat) (a b : Nat) : Bool :=
  decide (wpKey m l rule name b ≤ wpKey m l rule name a)

def sortWps (m : Model) (l : Live) (rule : WpRule) (name : Nat) (ps : List Nat) : List Nat :=
  sortBy (wpLe m l rule name) ps

end PDesy
