/-
  PDesy.Model.Ser — whitespace-token (de)serialisation of models, states and parameters
  for the line protocol.  Nothing here is used by any theorem; it is part of the trusted
  harness (an error shows up as a disagreement).
-/
import PDesy.Model.Sim

namespace PDesy

/-- token parser: position into an array of tokens; `none` = malformed input (never defaulted) -/
abbrev P := StateT Nat (ExceptT String (ReaderM (Array String)))

def P.run' {α} (p : P α) (toks : Array String) : Except String α :=
  match (p.run 0).run.run toks with
  | .ok (a, pos) => if pos = toks.size then .ok a else .error s!"trailing tokens at {pos}/{toks.size}"
  | .error e => .error e

def tok : P String := do
  let i ← get
  let a ← read
  if h : i < a.size then
    set (i + 1); pure a[i]
  else throw s!"unexpected end of input at token {i}"

class Wire (α : Type) where
  put : α → List String
  get : P α

def pNat : P Nat := do
  let s ← tok
  match s.toNat? with
  | some n => pure n
  | none => throw s!"bad nat '{s}'"

def pInt : P Int := do
  let s ← tok
  match s.toInt? with
  | some n => pure n
  | none => throw s!"bad int '{s}'"

def pRat : P Rat := do
  let s ← tok
  match s.splitOn "/" with
  | [n] => match n.toInt? with
    | some n => pure (n : Rat)
    | none => throw s!"bad rat '{s}'"
  | [n, d] => match n.toInt?, d.toNat? with
    | some n, some d => if d = 0 then throw s!"zero denominator '{s}'" else pure (mkRat n d)
    | _, _ => throw s!"bad rat '{s}'"
  | _ => throw s!"bad rat '{s}'"

def ratStr (r : Rat) : String := if r.den = 1 then toString r.num else s!"{r.num}/{r.den}"

instance : Wire Nat := ⟨fun n => [toString n], pNat⟩
instance : Wire Int := ⟨fun n => [toString n], pInt⟩
instance : Wire Rat := ⟨fun r => [ratStr r], pRat⟩
instance : Wire Bool := ⟨fun b => [if b then "1" else "0"], do
  let s ← tok
  if s = "1" then pure true else if s = "0" then pure false else throw s!"bad bool '{s}'"⟩

partial def pList {α} (p : P α) : P (List α) := do
  let n ← pNat
  let rec go (k : Nat) (acc : Array α) : P (List α) :=
    if k = 0 then pure acc.toList else do
      let x ← p
      go (k - 1) (acc.push x)
  go n #[]

instance {α} [Wire α] : Wire (List α) :=
  ⟨fun xs => toString xs.length :: xs.flatMap Wire.put, pList Wire.get⟩

instance {α} [Wire α] : Wire (Option α) :=
  ⟨fun o => match o with | some x => "S" :: Wire.put x | none => ["N"], do
    let s ← tok
    if s = "N" then pure none
    else if s = "S" then (some <$> Wire.get)
    else throw s!"bad option tag '{s}'"⟩

instance {α β} [Wire α] [Wire β] : Wire (α × β) :=
  ⟨fun (a, b) => Wire.put a ++ Wire.put b, do let a ← Wire.get; let b ← Wire.get; pure (a, b)⟩

def enumWire {α} (name : String) (toN : α → Nat) (ofN : Nat → Option α) : Wire α :=
  ⟨fun a => [toString (toN a)], do
    let n ← pNat
    match ofN n with
    | some a => pure a
    | none => throw s!"bad {name} {n}"⟩

instance : Wire TS := enumWire "TS" (fun | .none => 0 | .ready => 1 | .working => 2 | .finished => 3)
  (fun | 0 => some .none | 1 => some .ready | 2 => some .working | 3 => some .finished | _ => none)
instance : Wire RS := enumWire "RS" (fun | .free => 0 | .working => 1 | .absence => 2)
  (fun | 0 => some .free | 1 => some .working | 2 => some .absence | _ => none)
instance : Wire CS := enumWire "CS" (fun | .none => 0 | .ready => 1 | .working => 2 | .finished => 3)
  (fun | 0 => some .none | 1 => some .ready | 2 => some .working | 3 => some .finished | _ => none)
instance : Wire Dep := enumWire "Dep" (fun | .fs => 0 | .ss => 1 | .ff => 2 | .sf => 3)
  (fun | 0 => some .fs | 1 => some .ss | 2 => some .ff | 3 => some .sf | _ => none)
instance : Wire TaskRule := enumWire "TaskRule"
  (fun | .tslack => 0 | .est => 1 | .spt => 2 | .lpt => 3 | .fifo => 4 | .lrpt => 5 | .srpt => 6
       | .lwrpt => 7 | .swrpt => 8)
  (fun | 0 => some .tslack | 1 => some .est | 2 => some .spt | 3 => some .lpt | 4 => some .fifo
       | 5 => some .lrpt | 6 => some .srpt | 7 => some .lwrpt | 8 => some .swrpt | _ => none)
instance : Wire ResRule := enumWire "ResRule" (fun | .mw => 0 | .ssp => 1 | .vc => 2 | .hsv => 3)
  (fun | 0 => some .mw | 1 => some .ssp | 2 => some .vc | 3 => some .hsv | _ => none)
instance : Wire WpRule := enumWire "WpRule" (fun | .fss => 0 | .ssp => 1)
  (fun | 0 => some .fss | 1 => some .ssp | _ => none)
instance : Wire Status := enumWire "Status" (fun | .none => 0 | .success => 1 | .failure => 2)
  (fun | 0 => some .none | 1 => some .success | 2 => some .failure | _ => none)
instance : Wire Mode := enumWire "Mode" (fun | .none => 0 | .forward => 1 | .backward => 2)
  (fun | 0 => some .none | 1 => some .forward | 2 => some .backward | _ => none)

/-- a total function given by its first `n` values and a default -/
def tabOf {α} (dflt : α) (xs : List α) : Nat → α :=
  let a := xs.toArray
  fun i => if h : i < a.size then a[i] else dflt

def putTab {α} [Wire α] (n : Nat) (f : Nat → α) : List String :=
  (List.range n).flatMap fun i => Wire.put (f i)

def getTab {α} [Wire α] (n : Nat) (dflt : α) : P (Nat → α) := do
  let rec go (k : Nat) (acc : Array α) : P (Array α) :=
    match k with
    | 0 => pure acc
    | k + 1 => do let x ← Wire.get; go k (acc.push x)
  let a ← go n #[]
  pure (fun i => if h : i < a.size then a[i] else dflt)

instance : Wire TaskS :=
  ⟨fun t => Wire.put t.name ++ Wire.put t.work ++ Wire.put t.prog ++ Wire.put t.autoRate ++
      Wire.put t.isAuto ++ Wire.put t.needFac ++ Wire.put t.inputs ++ Wire.put t.outputs ++
      Wire.put t.wps ++ Wire.put t.comp ++ Wire.put t.fixW ++ Wire.put t.fixF ++
      Wire.put t.wRule ++ Wire.put t.fRule ++ Wire.put t.wpRule ++ Wire.put t.due,
   do
    let name ← Wire.get; let work ← Wire.get; let prog ← Wire.get; let autoRate ← Wire.get
    let isAuto ← Wire.get; let needFac ← Wire.get; let inputs ← Wire.get; let outputs ← Wire.get
    let wps ← Wire.get; let comp ← Wire.get; let fixW ← Wire.get; let fixF ← Wire.get
    let wRule ← Wire.get; let fRule ← Wire.get; let wpRule ← Wire.get; let due ← Wire.get
    pure { name, work, prog, autoRate, isAuto, needFac, inputs, outputs, wps, comp, fixW, fixF,
           wRule, fRule, wpRule, due }⟩

instance : Wire WorkerS :=
  ⟨fun w => Wire.put w.team ++ Wire.put w.skills ++ Wire.put w.facSkills ++ Wire.put w.solo ++
      Wire.put w.cost ++ Wire.put w.absence ++ Wire.put w.mainWp,
   do
    let team ← Wire.get; let skills ← Wire.get; let facSkills ← Wire.get; let solo ← Wire.get
    let cost ← Wire.get; let absence ← Wire.get; let mainWp ← Wire.get
    pure { team, skills, facSkills, solo, cost, absence, mainWp }⟩

instance : Wire FacS :=
  ⟨fun f => Wire.put f.wp ++ Wire.put f.name ++ Wire.put f.skills ++ Wire.put f.solo ++
      Wire.put f.cost ++ Wire.put f.absence,
   do
    let wp ← Wire.get; let name ← Wire.get; let skills ← Wire.get; let solo ← Wire.get
    let cost ← Wire.get; let absence ← Wire.get
    pure { wp, name, skills, solo, cost, absence }⟩

instance : Wire TeamS :=
  ⟨fun t => Wire.put t.workers ++ Wire.put t.targets,
   do let workers ← Wire.get; let targets ← Wire.get; pure { workers, targets }⟩

instance : Wire WpS :=
  ⟨fun p => Wire.put p.facs ++ Wire.put p.targets ++ Wire.put p.cap ++ Wire.put p.inputs ++
      Wire.put p.outputs,
   do
    let facs ← Wire.get; let targets ← Wire.get; let cap ← Wire.get; let inputs ← Wire.get
    let outputs ← Wire.get
    pure { facs, targets, cap, inputs, outputs }⟩

instance : Wire CompS :=
  ⟨fun c => Wire.put c.tasks ++ Wire.put c.size ++ Wire.put c.parents ++ Wire.put c.children,
   do
    let tasks ← Wire.get; let size ← Wire.get; let parents ← Wire.get; let children ← Wire.get
    pure { tasks, size, parents, children }⟩

def putModel (m : Model) : List String :=
  Wire.put m.nT ++ Wire.put m.nW ++ Wire.put m.nF ++ Wire.put m.nTeam ++ Wire.put m.nWp ++
  Wire.put m.nC ++ putTab m.nT m.task ++ putTab m.nW m.worker ++ putTab m.nF m.fac ++
  putTab m.nTeam m.team ++ putTab m.nWp m.wp ++ putTab m.nC m.comp

def getModel : P Model := do
  let nT ← pNat; let nW ← pNat; let nF ← pNat; let nTeam ← pNat; let nWp ← pNat; let nC ← pNat
  let task ← getTab nT (default : TaskS)
  let worker ← getTab nW (default : WorkerS)
  let fac ← getTab nF (default : FacS)
  let team ← getTab nTeam (default : TeamS)
  let wp ← getTab nWp (default : WpS)
  let comp ← getTab nC (default : CompS)
  pure { nT, nW, nF, nTeam, nWp, nC, task, worker, fac, team, wp, comp }

def putLive (m : Model) (l : Live) : List String :=
  putTab m.nT l.tstate ++ putTab m.nT l.rem ++ putTab m.nT l.est ++ putTab m.nT l.eft ++
  putTab m.nT l.lst ++ putTab m.nT l.lft ++ Wire.put l.cpl ++ putTab m.nT l.allocW ++
  putTab m.nT l.allocF ++ putTab m.nW l.wstate ++ putTab m.nW l.wasg ++ putTab m.nF l.fstate ++
  putTab m.nF l.fasg ++ putTab m.nC l.cstate ++ putTab m.nC l.placed ++ putTab m.nWp l.wpComps

def getLive (m : Model) : P Live := do
  let tstate ← getTab m.nT TS.none; let rem ← getTab m.nT (0 : Rat)
  let est ← getTab m.nT (0 : Rat); let eft ← getTab m.nT (0 : Rat)
  let lst ← getTab m.nT (-1 : Rat); let lft ← getTab m.nT (-1 : Rat)
  let cpl ← pRat
  let allocW ← getTab m.nT ([] : List Nat); let allocF ← getTab m.nT ([] : List Nat)
  let wstate ← getTab m.nW RS.free; let wasg ← getTab m.nW ([] : List Nat)
  let fstate ← getTab m.nF RS.free; let fasg ← getTab m.nF ([] : List Nat)
  let cstate ← getTab m.nC CS.none; let placed ← getTab m.nC (none : Option Nat)
  let wpComps ← getTab m.nWp ([] : List Nat)
  pure { tstate, rem, est, eft, lst, lft, cpl, allocW, allocF, wstate, wasg, fstate, fasg,
         cstate, placed, wpComps }

def putLogs (m : Model) (g : Logs) : List String :=
  putTab m.nT g.tState ++ putTab m.nT g.tRem ++ putTab m.nT g.tAllocW ++ putTab m.nT g.tAllocF ++
  putTab m.nW g.wState ++ putTab m.nW g.wCost ++ putTab m.nW g.wAsg ++
  putTab m.nF g.fState ++ putTab m.nF g.fCost ++ putTab m.nF g.fAsg ++
  putTab m.nTeam g.teamCost ++ putTab m.nWp g.wpCost ++ putTab m.nWp g.wpPlaced ++
  Wire.put g.orgCost ++ Wire.put g.projCost ++ putTab m.nC g.cState ++ putTab m.nC g.cPlaced

def getLogs (m : Model) : P Logs := do
  let tState ← getTab m.nT ([] : List TS); let tRem ← getTab m.nT ([] : List Rat)
  let tAllocW ← getTab m.nT ([] : List (List Nat)); let tAllocF ← getTab m.nT ([] : List (List Nat))
  let wState ← getTab m.nW ([] : List RS); let wCost ← getTab m.nW ([] : List Rat)
  let wAsg ← getTab m.nW ([] : List (List Nat))
  let fState ← getTab m.nF ([] : List RS); let fCost ← getTab m.nF ([] : List Rat)
  let fAsg ← getTab m.nF ([] : List (List Nat))
  let teamCost ← getTab m.nTeam ([] : List Rat); let wpCost ← getTab m.nWp ([] : List Rat)
  let wpPlaced ← getTab m.nWp ([] : List (List Nat))
  let orgCost ← Wire.get; let projCost ← Wire.get
  let cState ← getTab m.nC ([] : List CS); let cPlaced ← getTab m.nC ([] : List (Option Nat))
  pure { tState, tRem, tAllocW, tAllocF, wState, wCost, wAsg, fState, fCost, fAsg, teamCost,
         wpCost, wpPlaced, orgCost, projCost, cState, cPlaced }

def putSt (m : Model) (s : St) : List String :=
  putLive m s.live ++ putLogs m s.logs ++ Wire.put s.time ++ Wire.put s.status ++ Wire.put s.mode ++
  Wire.put s.absence ++ Wire.put s.autoFlag

def getSt (m : Model) : P St := do
  let live ← getLive m; let logs ← getLogs m
  let time ← pNat; let status ← Wire.get; let mode ← Wire.get
  let absence ← Wire.get; let autoFlag ← Wire.get
  pure { live, logs, time, status, mode, absence, autoFlag }

def getParams : P Params := do
  let rule ← Wire.get; let absence ← Wire.get; let autoFlag ← Wire.get
  let initState ← Wire.get; let initLog ← Wire.get; let maxTime ← pNat
  pure { rule, absence, autoFlag, initState, initLog, maxTime }

end PDesy
