/-
  PDesy.Model.Sim — initialize, the `__update` block, one loop iteration, `simulate`.
-/
import PDesy.Model.Phases

namespace PDesy

/-! ### initialize -/

def initLive (m : Model) (both : Bool) (l : Live) : Live :=
  -- organization.initialize, task.initialize for every task, (PERT + ready gate follow)
  { l with
    tstate := tabN m.nT fun t =>
      if t < m.nT then (if both && decide ((m.task t).prog ≥ 1) then TS.finished else TS.none) else l.tstate t
    rem := tabN m.nT fun t => if t < m.nT then (m.task t).work * (1 - (m.task t).prog) else l.rem t
    est := tabN m.nT fun t => if t < m.nT then 0 else l.est t
    eft := tabN m.nT fun t => if t < m.nT then 0 else l.eft t
    lst := tabN m.nT fun t => if t < m.nT then -1 else l.lst t
    lft := tabN m.nT fun t => if t < m.nT then -1 else l.lft t
    allocW := tabN m.nT fun t => if t < m.nT then [] else l.allocW t
    allocF := tabN m.nT fun t => if t < m.nT then [] else l.allocF t
    wstate := tabN m.nW fun w => if w < m.nW then RS.free else l.wstate w
    wasg := tabN m.nW fun w => if w < m.nW then [] else l.wasg w
    fstate := tabN m.nF fun f => if f < m.nF then RS.free else l.fstate f
    fasg := tabN m.nF fun f => if f < m.nF then [] else l.fasg f
    wpComps := tabN m.nWp fun p => if p < m.nWp then [] else l.wpComps p }

def initComps (m : Model) (l : Live) : Live :=
  let l1 := { l with
    cstate := fun c => if c < m.nC then CS.none else l.cstate c
    placed := fun c => if c < m.nC then Option.none else l.placed c }
  compCheck m l1

def clearLogs (m : Model) (lg : Logs) : Logs :=
  { tState := fun t => if t < m.nT then [] else lg.tState t
    tRem := fun t => if t < m.nT then [] else lg.tRem t
    tAllocW := fun t => if t < m.nT then [] else lg.tAllocW t
    tAllocF := fun t => if t < m.nT then [] else lg.tAllocF t
    wState := fun w => if w < m.nW then [] else lg.wState w
    wCost := fun w => if w < m.nW then [] else lg.wCost w
    wAsg := fun w => if w < m.nW then [] else lg.wAsg w
    fState := fun f => if f < m.nF then [] else lg.fState f
    fCost := fun f => if f < m.nF then [] else lg.fCost f
    fAsg := fun f => if f < m.nF then [] else lg.fAsg f
    teamCost := fun tm => if tm < m.nTeam then [] else lg.teamCost tm
    wpCost := fun p => if p < m.nWp then [] else lg.wpCost p
    wpPlaced := fun p => if p < m.nWp then [] else lg.wpPlaced p
    orgCost := []
    projCost := []
    cState := fun c => if c < m.nC then [] else lg.cState c
    cPlaced := fun c => if c < m.nC then [] else lg.cPlaced c }

/-- `BaseProject.initialize(state_info, log_info)` -/
def initProject (m : Model) (stateInfo logInfo : Bool) (s : St) : St :=
  let s1 : St := if logInfo then
      { s with time := 0, status := .none, mode := .none, logs := clearLogs m s.logs } else s
  if stateInfo then
    let l1 := initLive m logInfo s1.live
    let l2 := { l1 with cpl := 0 }
    let l3 := pert m 0 l2
    let l4 := chkReady m l3
    { s1 with live := initComps m l4 }
  else s1

/-! ### the loop -/

/-- `__update` -/
def update (m : Model) (time : Nat) (l : Live) : Live :=
  pert m time (compCheck m (chkReady m (chkRemove m (compCheck m (chkFinished m l)))))

def allFinished (m : Model) (l : Live) : Bool :=
  (List.range m.nT).all fun t => l.tstate t == .finished

/-- steps 1'–6 of one loop iteration (everything after the two exit tests) -/
def stepBody (m : Model) (p : Params) (s : St) : St :=
  let working := !(p.absence.contains s.time)
  let l1 := absenceSet m s.time working s.live
  let l2 := if working then allocate m s.logs p.rule l1 else l1
  let l3 := chkWorking m l2
  let l4 := compCheck m l3
  let lg1 := cost m working l4 s.logs
  let l5 := perform m working p.autoFlag l4
  let lg2 := record m working l5 lg1
  { s with live := l5, logs := lg2, time := s.time + 1 }

/-- the `while True` loop, by structural recursion on fuel -/
def loop (m : Model) (p : Params) : Nat → St → St
  | 0, s => s
  | fuel + 1, s =>
    let s1 := { s with live := update m s.time s.live }
    if allFinished m s1.live then { s1 with status := .success }
    else if s1.time ≥ p.maxTime then { s1 with status := .failure }
    else loop m p fuel (stepBody m p s1)

/-- `BaseProject.simulate(...)` -/
def simulate (m : Model) (p : Params) (s : St) : St :=
  let s0 := initProject m p.initState p.initLog s
  let s1 := { s0 with mode := .forward, absence := p.absence, autoFlag := p.autoFlag }
  loop m p (p.maxTime - s1.time + 1) s1

end PDesy
