/-
  PDesy.Model.Sim — initialize, the `__update` block, one loop iteration, `simulate`.
-/
import PDesy.Model.Phases

namespace PDesy

/-! ### initialize -/

def initLive (m : Model) (both : Bool) (l : Live) : Live :=
  -- organization.initialize, task.initialize for every task, (PERT + ready gate follow).
  -- Every index is reset, not only those below the sizes: indices outside the ranges stand
  -- for no object, and resetting them makes the initialised state independent of the old one.
  { l with
    tstate := tabN m.nT fun t => if both && decide ((m.task t).prog ≥ 1) then TS.finished else TS.none
    rem := tabN m.nT fun t => (m.task t).work * (1 - (m.task t).prog)
    est := fun _ => 0
    eft := fun _ => 0
    lst := fun _ => -1
    lft := fun _ => -1
    allocW := fun _ => []
    allocF := fun _ => []
    wstate := fun _ => RS.free
    wasg := fun _ => []
    fstate := fun _ => RS.free
    fasg := fun _ => []
    wpComps := fun _ => [] }

def initComps (m : Model) (l : Live) : Live :=
  let l1 := { l with
    cstate := fun _ => CS.none
    placed := fun _ => Option.none }
  compCheck m l1

def clearLogs (_m : Model) (_lg : Logs) : Logs := Logs.empty

/-- `BaseProject.initialize(state_info, log_info)` -/
def initProject (m : Model) (stateInfo logInfo : Bool) (s : St) : St :=
  let s1 : St := if logInfo then
      { s with time := 0, status := .none, mode := .none, logs := clearLogs m s.logs } else s
  if stateInfo then
    let l1 := initLive m logInfo s1.live
    let l2 := { l1 with cpl := 0 }
    let l3 := pert m 0 l2
    let l4 := chkReady m l3
    { s1 with live := initComps m l4 }
  else s1

/-! ### the loop -/

/-- `__update` -/
def update (m : Model) (time : Nat) (l : Live) : Live :=
  pert m time (compCheck m (chkReady m (chkRemove m (compCheck m (chkFinished m l)))))

def allFinished (m : Model) (l : Live) : Bool :=
  (List.range m.nT).all fun t => l.tstate t == .finished

/-- steps 1'–6 of one loop iteration (everything after the two exit tests) -/
def stepBody (m : Model) (p : Params) (s : St) : St :=
  let working := !(p.absence.contains s.time)
  let l1 := absenceSet m s.time working s.live
  let l2 := if working then allocate m s.logs p.rule l1 else l1
  -- nothing starts at a project absence step unless automatic tasks are performed there
  let l3 := if working || p.autoFlag then chkWorking m l2 else l2
  let l4 := compCheck m l3
  let lg1 := cost m working l4 s.logs
  let l5 := perform m working p.autoFlag l4
  let lg2 := record m working l5 lg1
  { s with live := l5, logs := lg2, time := s.time + 1 }

/-- the `while True` loop, by structural recursion on fuel -/
def loop (m : Model) (p : Params) : Nat → St → St
  | 0, s => s
  | fuel + 1, s =>
    let s1 := { s with live := update m s.time s.live }
    if allFinished m s1.live then { s1 with status := .success }
    else if s1.time ≥ p.maxTime then { s1 with status := .failure }
    else loop m p fuel (stepBody m p s1)

/-- `BaseProject.simulate(...)` -/
def simulate (m : Model) (p : Params) (s : St) : St :=
  let s0 := initProject m p.initState p.initLog s
  let s1 := { s0 with mode := .forward, absence := p.absence, autoFlag := p.autoFlag }
  loop m p (p.maxTime - s1.time + 1) s1

end PDesy
