/-
  PDesy.Model.Backward — `backward_simulate`: reverse the dependencies, optionally put an
  automatic helper task in front of every (reversed) head whose due time is earlier than the
  latest one, run `simulate`, and undo everything in the `finally` block.
-/
import PDesy.Model.LogEdit

namespace PDesy

/-- `workflow.reverse_dependencies()` + `organization.reverse_dependencies()` -/
def revDeps (m : Model) : Model :=
  { m with
    task := fun t => { m.task t with inputs := (m.task t).outputs, outputs := (m.task t).inputs }
    wp := fun q => { m.wp q with inputs := (m.wp q).outputs, outputs := (m.wp q).inputs } }

/-- maximum of a non-empty list of integers (`max([...])`), `0` on the empty list -/
def maxInt : List Int → Int
  | [] => 0
  | x :: xs => xs.foldl (fun a b => if b > a then b else a) x

/-- the (reversed) tail tasks that get a helper: those without inputs whose due time is below the maximum -/
def helperTargets (m : Model) : List Nat :=
  let tl := (List.range m.nT).filter fun t => (m.task t).inputs.isEmpty
  let mx := maxInt (tl.map fun t => (m.task t).due)
  tl.filter fun t => (m.task t).due < mx

/-- name index used for helper tasks (never looked up: helpers are automatic and have no component) -/
def helperName : Nat := 1000000

/-- append one helper task in front of `tail` -/
def addHelper (mx : Int) (m : Model) (tail : Nat) : Model :=
  let h := m.nT
  let helper : TaskS :=
    { name := helperName, work := (((mx - (m.task tail).due : Int)) : Rat), prog := 0, autoRate := 1,
      isAuto := true, needFac := false, inputs := [], outputs := [(tail, .fs)], wps := [],
      comp := Option.none, fixW := Option.none, fixF := Option.none, wRule := .mw, fRule := .ssp,
      wpRule := .fss, due := -1 }
  { m with
    nT := m.nT + 1
    task := fun t =>
      if t = h then helper
      else if t = tail then { m.task t with inputs := (m.task t).inputs ++ [(h, .fs)] }
      else m.task t }

/-- the model the inner `simulate` runs on when `considering_due_time_of_tail_tasks` -/
def withHelpers (m : Model) : Model :=
  let tl := (List.range m.nT).filter fun t => (m.task t).inputs.isEmpty
  let mx := maxInt (tl.map fun t => (m.task t).due)
  (helperTargets m).foldl (addHelper mx) m

/-- remove the helper tasks again (the `finally` block): drop tasks `≥ n0` and their edges -/
def dropHelpers (n0 : Nat) (m : Model) : Model :=
  { m with
    nT := n0
    task := fun t =>
      if t < n0 then { m.task t with inputs := (m.task t).inputs.filter fun e => e.1 < n0 }
      else default }

/-- the model on which the inner run of `backward_simulate` is executed -/
def backwardModel (m : Model) (considerDue : Bool) : Model :=
  if considerDue then withHelpers (revDeps m) else revDeps m

/-- the helper tasks are NEW objects: whatever the state says at task indices `≥ m.nT` (they stand for no
object of `m`), the inner run starts with constructor values there — `BaseTask(...)`: state NONE, remaining work
= work amount, est = eft = 0, lst = lft = -1, nothing allocated, empty logs.  (With `init_state`/`init_log`
set this is what `initialize` produces anyway; it matters for `initialize_*_info=False`.) -/
def freshHelpers (m mb : Model) (s : St) : St :=
  { s with
    live := { s.live with
      tstate := fun t => if m.nT ≤ t then .none else s.live.tstate t
      rem := fun t => if m.nT ≤ t then (mb.task t).work * (1 - (mb.task t).prog) else s.live.rem t
      est := fun t => if m.nT ≤ t then 0 else s.live.est t
      eft := fun t => if m.nT ≤ t then 0 else s.live.eft t
      lst := fun t => if m.nT ≤ t then -1 else s.live.lst t
      lft := fun t => if m.nT ≤ t then -1 else s.live.lft t
      allocW := fun t => if m.nT ≤ t then [] else s.live.allocW t
      allocF := fun t => if m.nT ≤ t then [] else s.live.allocF t }
    logs := { s.logs with
      tState := fun t => if m.nT ≤ t then [] else s.logs.tState t
      tRem := fun t => if m.nT ≤ t then [] else s.logs.tRem t
      tAllocW := fun t => if m.nT ≤ t then [] else s.logs.tAllocW t
      tAllocF := fun t => if m.nT ≤ t then [] else s.logs.tAllocF t } }

/-- the state the inner run of `backward_simulate` starts from -/
def bwdStart (m : Model) (considerDue : Bool) (s : St) : St :=
  freshHelpers m (backwardModel m considerDue) s

/-- `BaseProject.backward_simulate(...)`: the state it leaves (the static model is `m` again) -/
def backwardSimulate (m : Model) (p : Params) (considerDue reverse : Bool) (s : St) : St :=
  let s1 := simulate (backwardModel m considerDue) p (bwdStart m considerDue s)
  let s2 := { s1 with mode := .backward }
  if reverse then reverseLogs m s2 else s2

/-- the structure after the `finally` block -/
def restored (m : Model) (considerDue : Bool) : Model :=
  revDeps (dropHelpers m.nT (backwardModel m considerDue))

end PDesy
