/-
  PDesy.Model.LogEdit — `remove_absence_time_list`, `insert_absence_time_list`,
  `reverse_log_information` of the project and of every class below it.
  Mirrors the Python after the repairs F5–F8 (see DESIGN.md section 5).
-/
import PDesy.Model.Sim

namespace PDesy

/-- `list.pop(i)` for `i < len` -/
def delAt {α : Type} : List α → Nat → List α
  | [], _ => []
  | _ :: xs, 0 => xs
  | x :: xs, i + 1 => x :: delAt xs i

/-- `list.insert(i, v)` (appends when `i ≥ len`) -/
def insAt {α : Type} : List α → Nat → α → List α
  | xs, 0, v => v :: xs
  | [], _ + 1, v => [v]
  | x :: xs, i + 1, v => x :: insAt xs i v

/-- ascending, duplicate-free list of the members of `xs` below `n` (`sorted(set(…))`) -/
def stepsBelow (n : Nat) (xs : List Nat) : List Nat := canonSet n xs

/-! ### remove -/

/-- pop the given (ascending) steps from one log, highest first, each guarded by `guard` lists' length -/
def popSteps {α : Type} (steps : List Nat) (guardLen : Nat) (log : List α) : List α × Nat :=
  steps.reverse.foldl (fun (acc : List α × Nat) st =>
    if st < acc.2 then (delAt acc.1 st, acc.2 - 1) else acc) (log, guardLen)

/-- pop steps from a log whose guard is another log of the same object (both shrink together) -/
def popBy {α : Type} (steps : List Nat) (guardLen : Nat) (log : List α) : List α :=
  (popSteps steps guardLen log).1

def removeLogs (m : Model) (steps : List Nat) (g : Logs) : Logs :=
  { tState := fun t => if t < m.nT then popBy steps (g.tState t).length (g.tState t) else g.tState t
    tRem := fun t => if t < m.nT then popBy steps (g.tState t).length (g.tRem t) else g.tRem t
    tAllocW := fun t => if t < m.nT then popBy steps (g.tState t).length (g.tAllocW t) else g.tAllocW t
    tAllocF := fun t => if t < m.nT then popBy steps (g.tState t).length (g.tAllocF t) else g.tAllocF t
    wState := fun w => if w < m.nW then popBy steps (g.wState w).length (g.wState w) else g.wState w
    wCost := fun w => if w < m.nW then popBy steps (g.wState w).length (g.wCost w) else g.wCost w
    wAsg := fun w => if w < m.nW then popBy steps (g.wState w).length (g.wAsg w) else g.wAsg w
    fState := fun f => if f < m.nF then popBy steps (g.fState f).length (g.fState f) else g.fState f
    fCost := fun f => if f < m.nF then popBy steps (g.fState f).length (g.fCost f) else g.fCost f
    fAsg := fun f => if f < m.nF then popBy steps (g.fState f).length (g.fAsg f) else g.fAsg f
    teamCost := fun a => if a < m.nTeam then popBy steps (g.teamCost a).length (g.teamCost a) else g.teamCost a
    wpCost := fun q => if q < m.nWp then popBy steps (g.wpCost q).length (g.wpCost q) else g.wpCost q
    wpPlaced := fun q => if q < m.nWp then popBy steps (g.wpPlaced q).length (g.wpPlaced q) else g.wpPlaced q
    orgCost := popBy steps g.orgCost.length g.orgCost
    projCost := popBy steps g.projCost.length g.projCost
    cState := fun c => if c < m.nC then popBy steps (g.cState c).length (g.cState c) else g.cState c
    cPlaced := fun c => if c < m.nC then popBy steps (g.cState c).length (g.cPlaced c) else g.cPlaced c }

/-- `BaseProject.remove_absence_time_list()` -/
def removeAbs (m : Model) (s : St) : St :=
  let steps := stepsBelow s.logs.projCost.length s.absence
  { s with logs := removeLogs m steps s.logs, time := s.time - steps.length, absence := [] }

/-! ### insert -/

/-- the state inserted between `before` and `after` (tasks) -/
def insStateT (before after : TS) : TS :=
  if before = .working then (if after = .finished then .finished else .ready)
  else if before = .none ∧ after = .working then .ready
  else before

def insStateC (before after : CS) : CS :=
  if before = .working then (if after = .finished then .finished else .ready)
  else if before = .none ∧ after = .working then .ready
  else before

/-- insert the (ascending) steps into a log; `guard` is the current length of the object's
guard log (grows with every insertion); `mk step log` computes the inserted value -/
def insSteps {α : Type} (steps : List Nat) (guardLen : Nat) (mk : Nat → List α → α) (log : List α) : List α :=
  (steps.foldl (fun (acc : List α × Nat) st =>
    if st < acc.2 then (insAt acc.1 st (mk st acc.1), acc.2 + 1) else acc) (log, guardLen)).1

/-- copy of the previous entry, `zero` at step 0 -/
def copyPrev {α : Type} (zero : α) (st : Nat) (log : List α) : α :=
  if st = 0 then zero else (log[st - 1]?).getD zero

/-- the task state log needs both neighbours; computed on the state log itself -/
def mkStateT (st : Nat) (log : List TS) : TS :=
  if st = 0 then .none else insStateT ((log[st - 1]?).getD .none) ((log[st]?).getD .none)

def mkStateC (st : Nat) (log : List CS) : CS :=
  if st = 0 then .none else insStateC ((log[st - 1]?).getD .none) ((log[st]?).getD .none)

def insertLogs (m : Model) (steps : List Nat) (g : Logs) : Logs :=
  { tState := fun t => if t < m.nT then insSteps steps (g.tState t).length mkStateT (g.tState t) else g.tState t
    tRem := fun t => if t < m.nT then
        insSteps steps (g.tState t).length (copyPrev ((m.task t).work * (1 - (m.task t).prog))) (g.tRem t)
      else g.tRem t
    tAllocW := fun t => if t < m.nT then insSteps steps (g.tState t).length (copyPrev []) (g.tAllocW t) else g.tAllocW t
    tAllocF := fun t => if t < m.nT then insSteps steps (g.tState t).length (copyPrev []) (g.tAllocF t) else g.tAllocF t
    wState := fun w => if w < m.nW then insSteps steps (g.wState w).length (fun _ _ => RS.free) (g.wState w) else g.wState w
    wCost := fun w => if w < m.nW then insSteps steps (g.wState w).length (fun _ _ => (0 : Rat)) (g.wCost w) else g.wCost w
    wAsg := fun w => if w < m.nW then insSteps steps (g.wState w).length (copyPrev []) (g.wAsg w) else g.wAsg w
    fState := fun f => if f < m.nF then insSteps steps (g.fState f).length (fun _ _ => RS.free) (g.fState f) else g.fState f
    fCost := fun f => if f < m.nF then insSteps steps (g.fState f).length (fun _ _ => (0 : Rat)) (g.fCost f) else g.fCost f
    fAsg := fun f => if f < m.nF then insSteps steps (g.fState f).length (copyPrev []) (g.fAsg f) else g.fAsg f
    teamCost := fun a => if a < m.nTeam then insSteps steps (g.teamCost a).length (fun _ _ => (0 : Rat)) (g.teamCost a) else g.teamCost a
    wpCost := fun q => if q < m.nWp then insSteps steps (g.wpCost q).length (fun _ _ => (0 : Rat)) (g.wpCost q) else g.wpCost q
    wpPlaced := fun q => if q < m.nWp then insSteps steps (g.wpPlaced q).length (copyPrev []) (g.wpPlaced q) else g.wpPlaced q
    orgCost := insSteps steps g.orgCost.length (fun _ _ => (0 : Rat)) g.orgCost
    projCost := insSteps steps g.projCost.length (fun _ _ => (0 : Rat)) g.projCost
    cState := fun c => if c < m.nC then insSteps steps (g.cState c).length mkStateC (g.cState c) else g.cState c
    cPlaced := fun c => if c < m.nC then insSteps steps (g.cState c).length (copyPrev Option.none) (g.cPlaced c) else g.cPlaced c }

/-- duplicate-free, order-preserving list of the requested steps that are not yet absence steps -/
def newSteps (old : List Nat) : List Nat → List Nat → List Nat
  | [], acc => acc
  | x :: xs, acc => if old.contains x || acc.contains x then newSteps old xs acc else newSteps old xs (acc ++ [x])

/-- the steps that fall inside the growing log, in ascending order -/
def insertable (len : Nat) (sortedSteps : List Nat) : List Nat :=
  (sortedSteps.foldl (fun (acc : List Nat × Nat) st =>
    if st < acc.2 then (acc.1 ++ [st], acc.2 + 1) else acc) ([], len)).1

/-- `BaseProject.insert_absence_time_list(L)` -/
def insertAbs (m : Model) (L : List Nat) (s : St) : St :=
  let new := newSteps s.absence L []
  let sorted := sortBy (fun a b => decide (a ≤ b)) new
  let ins := insertable s.logs.projCost.length sorted
  { s with logs := insertLogs m ins s.logs, time := s.time + ins.length, absence := s.absence ++ ins }

/-! ### reverse_log_information -/

def reverseLogs (m : Model) (s : St) : St :=
  let g := s.logs
  let total := g.projCost.length
  { s with
    absence := sortBy (fun a b => decide (a ≤ b)) ((s.absence.filter (· < total)).map fun t => total - 1 - t)
    logs :=
      { tState := fun t => if t < m.nT then (g.tState t).reverse else g.tState t
        tRem := fun t => if t < m.nT then (g.tRem t).reverse else g.tRem t
        tAllocW := fun t => if t < m.nT then (g.tAllocW t).reverse else g.tAllocW t
        tAllocF := fun t => if t < m.nT then (g.tAllocF t).reverse else g.tAllocF t
        wState := fun w => if w < m.nW then (g.wState w).reverse else g.wState w
        wCost := fun w => if w < m.nW then (g.wCost w).reverse else g.wCost w
        wAsg := fun w => if w < m.nW then (g.wAsg w).reverse else g.wAsg w
        fState := fun f => if f < m.nF then (g.fState f).reverse else g.fState f
        fCost := fun f => if f < m.nF then (g.fCost f).reverse else g.fCost f
        fAsg := fun f => if f < m.nF then (g.fAsg f).reverse else g.fAsg f
        teamCost := fun a => if a < m.nTeam then (g.teamCost a).reverse else g.teamCost a
        wpCost := fun q => if q < m.nWp then (g.wpCost q).reverse else g.wpCost q
        wpPlaced := fun q => if q < m.nWp then (g.wpPlaced q).reverse else g.wpPlaced q
        orgCost := g.orgCost.reverse
        projCost := g.projCost.reverse
        cState := fun c => if c < m.nC then (g.cState c).reverse else g.cState c
        cPlaced := fun c => if c < m.nC then (g.cPlaced c).reverse else g.cPlaced c } }

end PDesy
