/-
  PDesy.Model.Trace — the sequence of states a run goes through, and the bridge between
  "for every state of the run" and the loop.
-/
import PDesy.Model.Sim

namespace PDesy

/-- state after `__update` at the top of an iteration -/
def updated (m : Model) (s : St) : St := { s with live := update m s.time s.live }

/-- the loop exits at this (updated) state -/
def done (m : Model) (p : Params) (s : St) : Bool :=
  allFinished m s.live || decide (s.time ≥ p.maxTime)

/-- The states at the `ticked` boundary of every executed step, in order
(`trace[k]` = project state right after step `k` of this run was recorded). -/
def trace (m : Model) (p : Params) : Nat → St → List St
  | 0, _ => []
  | fuel + 1, s =>
    let s1 := updated m s
    if done m p s1 then [] else
      let s2 := stepBody m p s1
      s2 :: trace m p fuel s2

/-- The states at the `updated` boundary of every iteration (including the last one,
at which the loop exits). -/
def updTrace (m : Model) (p : Params) : Nat → St → List St
  | 0, _ => []
  | fuel + 1, s =>
    let s1 := updated m s
    if done m p s1 then [s1] else s1 :: updTrace m p fuel (stepBody m p s1)

/-- the state a run starts its loop from -/
def enter (m : Model) (p : Params) (s : St) : St :=
  let s0 := initProject m p.initState p.initLog s
  { s0 with mode := .forward, absence := p.absence, autoFlag := p.autoFlag }

def fuelOf (p : Params) (s : St) : Nat := p.maxTime - s.time + 1

/-- all `ticked` states of `simulate m p s` -/
def runTrace (m : Model) (p : Params) (s : St) : List St :=
  trace m p (fuelOf p (enter m p s)) (enter m p s)

/-- all `updated` states of `simulate m p s` -/
def runUpdTrace (m : Model) (p : Params) (s : St) : List St :=
  updTrace m p (fuelOf p (enter m p s)) (enter m p s)

end PDesy
