/-
  PDesy.Model.Report — Gantt encoders (`get_time_list_for_gannt_chart`), plotly rows,
  `extract_*_list`, `set_last_datetime`.  Pure functions of the logs; independent of the
  simulator.  Each encoder mirrors the Python loop: state `(previous_state, from_time)`,
  `to_time` is always -1 at the top of an iteration.
-/
import PDesy.Model.Types

namespace PDesy

/-- an interval `(start index, length)`; length = (last index − start) + finish_margin -/
abbrev Iv := Nat × Rat

/-- length of the run `[from, to)` that has just ended: `(to - 1) - from + margin` -/
def ivEnded (frm to : Nat) (margin : Rat) : Iv := (frm, (((to - 1 - frm : Nat) : Rat)) + margin)

/-- loop state of the task / component encoder -/
structure GT (σ : Type) where
  prev : σ
  frm : Option Nat
  ready : List Iv
  working : List Iv

/-- one iteration of `BaseTask.get_time_list_for_gannt_chart` -/
def ganttTStep (margin : Rat) (g : GT TS) (time : Nat) (st : TS) : GT TS :=
  if st ≠ g.prev then
    match g.frm with
    | Option.none => { g with frm := some time, prev := st }
    | some f =>
      let iv := ivEnded f time margin
      let g1 : GT TS :=
        if st = .none ∨ st = .finished then
          (if g.prev = .working then { g with working := g.working ++ [iv] }
           else if g.prev = .ready then { g with ready := g.ready ++ [iv] } else g)
        else g
      let g2 : GT TS :=
        if st = .ready then (if g.prev = .working then { g1 with working := g1.working ++ [iv] } else g1)
        else g1
      let g3 : GT TS :=
        if st = .working then (if g.prev = .ready then { g2 with ready := g2.ready ++ [iv] } else g2)
        else g2
      { g3 with frm := some time, prev := st }
  else g

def ganttTLoop (margin : Rat) : GT TS → Nat → List TS → GT TS
  | g, _, [] => g
  | g, time, st :: rest => ganttTLoop margin (ganttTStep margin g time st) (time + 1) rest

/-- `BaseTask.get_time_list_for_gannt_chart(finish_margin)` → (ready, working) -/
def ganttT (log : List TS) (margin : Rat) : List Iv × List Iv :=
  let g := ganttTLoop margin { prev := .none, frm := Option.none, ready := [], working := [] } 0 log
  match g.frm with
  | Option.none => (g.ready, g.working)
  | some f =>
    let iv : Iv := (f, (((log.length - 1 - f : Nat) : Rat)) + margin)
    if g.prev = .working then (g.ready, g.working ++ [iv])
    else if g.prev = .ready then (g.ready ++ [iv], g.working)
    else (g.ready, g.working)

/-- one iteration of `BaseComponent.get_time_list_for_gannt_chart` (same shape) -/
def ganttCStep (margin : Rat) (g : GT CS) (time : Nat) (st : CS) : GT CS :=
  if st ≠ g.prev then
    match g.frm with
    | Option.none => { g with frm := some time, prev := st }
    | some f =>
      let iv := ivEnded f time margin
      let g1 : GT CS :=
        if st = .none ∨ st = .finished then
          (if g.prev = .working then { g with working := g.working ++ [iv] }
           else if g.prev = .ready then { g with ready := g.ready ++ [iv] } else g)
        else g
      let g2 : GT CS :=
        if st = .ready then (if g.prev = .working then { g1 with working := g1.working ++ [iv] } else g1)
        else g1
      let g3 : GT CS :=
        if st = .working then (if g.prev = .ready then { g2 with ready := g2.ready ++ [iv] } else g2)
        else g2
      { g3 with frm := some time, prev := st }
  else g

def ganttCLoop (margin : Rat) : GT CS → Nat → List CS → GT CS
  | g, _, [] => g
  | g, time, st :: rest => ganttCLoop margin (ganttCStep margin g time st) (time + 1) rest

def ganttC (log : List CS) (margin : Rat) : List Iv × List Iv :=
  let g := ganttCLoop margin { prev := .none, frm := Option.none, ready := [], working := [] } 0 log
  match g.frm with
  | Option.none => (g.ready, g.working)
  | some f =>
    let iv : Iv := (f, (((log.length - 1 - f : Nat) : Rat)) + margin)
    if g.prev = .working then (g.ready, g.working ++ [iv])
    else if g.prev = .ready then (g.ready ++ [iv], g.working)
    else (g.ready, g.working)

/-- loop state of the worker / facility encoder (`previous_state` starts as Python `None`) -/
structure GR where
  prev : Option RS
  frm : Option Nat
  ready : List Iv
  working : List Iv
  absence : List Iv

def GR.emit (g : GR) (s : RS) (iv : Iv) : GR :=
  match s with
  | .free => { g with ready := g.ready ++ [iv] }
  | .working => { g with working := g.working ++ [iv] }
  | .absence => { g with absence := g.absence ++ [iv] }

/-- one iteration of `BaseWorker/BaseFacility.get_time_list_for_gannt_chart` -/
def ganttRStep (margin : Rat) (g : GR) (time : Nat) (st : RS) : GR :=
  if some st ≠ g.prev then
    match g.frm with
    | Option.none => { g with frm := some time, prev := some st }
    | some f =>
      let iv := ivEnded f time margin
      let g1 : GR :=
        match st, g.prev with
        | .free, some .working => g.emit .working iv
        | .free, some .absence => g.emit .absence iv
        | .working, some .free => g.emit .free iv
        | .working, some .absence => g.emit .absence iv
        | .absence, some .free => g.emit .free iv
        | .absence, some .working => g.emit .working iv
        | _, _ => g
      { g1 with frm := some time, prev := some st }
  else g

def ganttRLoop (margin : Rat) : GR → Nat → List RS → GR
  | g, _, [] => g
  | g, time, st :: rest => ganttRLoop margin (ganttRStep margin g time st) (time + 1) rest

/-- `get_time_list_for_gannt_chart` of workers and facilities → (ready, working, absence) -/
def ganttR (log : List RS) (margin : Rat) : List Iv × List Iv × List Iv :=
  let g := ganttRLoop margin
    { prev := Option.none, frm := Option.none, ready := [], working := [], absence := [] } 0 log
  match g.frm, g.prev with
  | some f, some s =>
    let iv : Iv := (f, (((log.length - 1 - f : Nat) : Rat)) + margin)
    let g' := g.emit s iv
    (g'.ready, g'.working, g'.absence)
  | _, _ => (g.ready, g.working, g.absence)

/-- a plotly row: `Start = init + from·unit`, `Finish = init + (from + length)·unit`
(times as rational seconds) -/
def plotlyRow (init unit : Rat) (iv : Iv) : Rat × Rat :=
  (init + (iv.1 : Rat) * unit, init + ((iv.1 : Rat) + iv.2) * unit)

/-- the (Start, Finish) pairs of `create_data_for_gantt_plotly` of a task or component:
READY rows first when `viewReady`, then WORKING rows -/
def plotlyRows (init unit : Rat) (viewReady : Bool) (r : List Iv × List Iv) : List (Rat × Rat) :=
  (if viewReady then r.1.map (plotlyRow init unit) else []) ++ r.2.map (plotlyRow init unit)

/-- the (Start, Finish, kind) rows `BaseTeam/BaseWorkplace.create_data_for_gantt_plotly` produce for one
worker / facility: READY rows (if asked), then ABSENCE rows (if asked), then WORKING rows; kind 0/1/2 =
READY/WORKING/ABSENCE -/
def plotlyRowsR (init unit : Rat) (viewReady viewAbsence : Bool) (r : List Iv × List Iv × List Iv) :
    List (Rat × Rat × Nat) :=
  (if viewReady then r.1.map (fun iv => ((plotlyRow init unit iv).1, (plotlyRow init unit iv).2, 0)) else []) ++
  (if viewAbsence then r.2.2.map (fun iv => ((plotlyRow init unit iv).1, (plotlyRow init unit iv).2, 2)) else []) ++
  r.2.1.map (fun iv => ((plotlyRow init unit iv).1, (plotlyRow init unit iv).2, 1))

/-- `__extract_state_*_list(target_time_list, target_state)` as the ascending index list -/
def extractIdx {σ : Type} [DecidableEq σ] (n : Nat) (log : Nat → List σ) (times : List Nat) (st : σ) :
    List Nat :=
  (List.range n).filter fun i =>
    times.all fun k => decide (k < (log i).length) && decide ((log i)[k]? = some st)

/-- `set_last_datetime(last, unit)`: `init = last − unit·(time − 1)` -/
def setLastDatetime (last unit : Rat) (time : Nat) : Rat := last - unit * (((time : Int) - 1 : Int) : Rat)

end PDesy
