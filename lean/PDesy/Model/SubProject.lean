/-
  PDesy.Model.SubProject — `BaseSubProjectTask.set_all_attributes_from_json` and
  `set_work_amount_progress_of_unit_step_time`.
-/
import PDesy.Model.LogEdit

namespace PDesy

/-- what the setter reads from the saved sub-project -/
structure SubResult where
  status : Status
  time : Nat
  absence : List Nat
  costLen : Nat        -- length of the saved project cost list (= time for an aligned result)
  unit : Rat           -- unit_timedelta in seconds

/-- the configurable attributes of a sub-project task -/
structure SubCfg where
  work : Rat           -- default_work_amount
  unit : Rat           -- unit_timedelta in seconds
  rate : Rat           -- work_amount_progress_of_unit_step_time
  readFile : Bool
  removeAbs : Bool
  deriving DecidableEq, Repr

/-- duration of the saved run after `remove_absence_time_list()` -/
def durationOf (r : SubResult) (remove : Bool) : Nat :=
  if remove then r.time - (stepsBelow r.costLen r.absence).length else r.time

/-- `set_all_attributes_from_json(remove_absence_time_list=remove)`; the Bool is "a warning was
issued and nothing was changed" -/
def configureSub (cfg : SubCfg) (r : SubResult) (remove : Bool) : SubCfg × Bool :=
  if r.status ≠ .success then (cfg, true)
  else ({ cfg with work := (durationOf r remove : Nat), unit := r.unit, readFile := true, removeAbs := remove }, false)

/-- `set_work_amount_progress_of_unit_step_time(project_unit_timedelta)` -/
def relateSub (cfg : SubCfg) (parentUnit : Rat) : SubCfg := { cfg with rate := parentUnit / cfg.unit }

/-- one loop iteration that is not an exit: `__update` followed by the step -/
def iter (m : Model) (p : Params) (s : St) : St := stepBody m p { s with live := update m s.time s.live }

/-- the step executed at time `k` makes automatic tasks progress -/
def activeAt (p : Params) (k : Nat) : Bool := !(p.absence.contains k) || p.autoFlag

end PDesy
