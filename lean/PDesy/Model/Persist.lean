/-
  PDesy.Model.Persist — `write_simple_json` / `read_simple_json` as relabelling.

  In memory cross references are object references (indices in the model); in the file they
  are ID strings (labels).  Export replaces every resolved reference by the label of its
  target; import resolves every label to the FIRST object of the right kind carrying it
  (`get_xxx_list(ID=ID)[0]`) and fails when there is none.  Everything else (numbers, flags,
  logs, ID-valued attributes such as team_id / fixing lists / ID records) is written and
  read back unchanged, so it is the identity in this model.
-/
import PDesy.Model.Sim

namespace PDesy

/-- labels (ID strings, numbered by the harness) of the objects of each kind -/
structure Ids where
  task : Nat → Nat
  worker : Nat → Nat
  fac : Nat → Nat
  team : Nat → Nat
  wp : Nat → Nat
  comp : Nat → Nat

/-- one reference map per kind -/
structure RefMap where
  task : Nat → Option Nat
  worker : Nat → Option Nat
  fac : Nat → Option Nat
  team : Nat → Option Nat
  wp : Nat → Option Nat
  comp : Nat → Option Nat

/-- export direction: an index becomes its label (never fails) -/
def Ids.toMap (ids : Ids) : RefMap :=
  { task := fun i => some (ids.task i), worker := fun i => some (ids.worker i),
    fac := fun i => some (ids.fac i), team := fun i => some (ids.team i),
    wp := fun i => some (ids.wp i), comp := fun i => some (ids.comp i) }

/-- `get_xxx_list(ID=lab)[0]`: the first index below `n` carrying the label -/
def resolve (lab : Nat → Nat) (n : Nat) (x : Nat) : Option Nat :=
  (List.range n).find? fun i => lab i == x

/-- import direction for a project with the given sizes -/
def Ids.fromMap (ids : Ids) (m : Model) : RefMap :=
  { task := resolve ids.task m.nT, worker := resolve ids.worker m.nW, fac := resolve ids.fac m.nF,
    team := resolve ids.team m.nTeam, wp := resolve ids.wp m.nWp, comp := resolve ids.comp m.nC }

/-- map a list of references, failing if one fails -/
def mapRefs (f : Nat → Option Nat) : List Nat → Option (List Nat)
  | [] => some []
  | x :: xs => match f x, mapRefs f xs with
    | some y, some ys => some (y :: ys)
    | _, _ => Option.none

def mapDeps (f : Nat → Option Nat) : List (Nat × Dep) → Option (List (Nat × Dep))
  | [] => some []
  | (x, d) :: xs => match f x, mapDeps f xs with
    | some y, some ys => some ((y, d) :: ys)
    | _, _ => Option.none

def mapOptRef (f : Nat → Option Nat) : Option Nat → Option (Option Nat)
  | Option.none => some Option.none
  | some x => match f x with
    | some y => some (some y)
    | Option.none => Option.none

/-- relabel the resolved references of one task -/
def relTask (g : RefMap) (t : TaskS) : Option TaskS :=
  match mapDeps g.task t.inputs, mapDeps g.task t.outputs, mapRefs g.wp t.wps, mapOptRef g.comp t.comp with
  | some i, some o, some w, some c => some { t with inputs := i, outputs := o, wps := w, comp := c }
  | _, _, _, _ => Option.none

def relTeam (g : RefMap) (a : TeamS) : Option TeamS :=
  match mapRefs g.task a.targets with
  | some ts => some { a with targets := ts }
  | Option.none => Option.none

def relWp (g : RefMap) (q : WpS) : Option WpS :=
  match mapRefs g.task q.targets, mapRefs g.wp q.inputs, mapRefs g.wp q.outputs with
  | some ts, some i, some o => some { q with targets := ts, inputs := i, outputs := o }
  | _, _, _ => Option.none

def relComp (g : RefMap) (c : CompS) : Option CompS :=
  match mapRefs g.task c.tasks, mapRefs g.comp c.parents, mapRefs g.comp c.children with
  | some ts, some p, some ch => some { c with tasks := ts, parents := p, children := ch }
  | _, _, _ => Option.none

/-- tabulate an optional function on `[0, n)`: `none` if any entry is `none` -/
def allSome {α : Type} (n : Nat) (f : Nat → Option α) : Option (List α) :=
  (List.range n).foldr (fun i acc => match f i, acc with
    | some x, some xs => some (x :: xs)
    | _, _ => Option.none) (some [])

def ofList {α : Type} (dflt : Nat → α) (xs : List α) : Nat → α :=
  fun i => match xs[i]? with
    | some x => x
    | Option.none => dflt i

/-- relabel the static model; entries outside the ranges are left alone -/
def relModel (g : RefMap) (m : Model) : Option Model :=
  match allSome m.nT (fun t => relTask g (m.task t)), allSome m.nTeam (fun a => relTeam g (m.team a)),
        allSome m.nWp (fun q => relWp g (m.wp q)), allSome m.nC (fun c => relComp g (m.comp c)) with
  | some ts, some as, some qs, some cs =>
    some { m with task := ofList m.task ts, team := ofList m.team as, wp := ofList m.wp qs,
                  comp := ofList m.comp cs }
  | _, _, _, _ => Option.none

/-- relabel the resolved references of the live state (allocations, assignments, placements) -/
def relLive (g : RefMap) (m : Model) (l : Live) : Option Live :=
  match allSome m.nT (fun t => mapRefs g.worker (l.allocW t)), allSome m.nT (fun t => mapRefs g.fac (l.allocF t)),
        allSome m.nW (fun w => mapRefs g.task (l.wasg w)), allSome m.nF (fun f => mapRefs g.task (l.fasg f)),
        allSome m.nC (fun c => mapOptRef g.wp (l.placed c)), allSome m.nWp (fun q => mapRefs g.comp (l.wpComps q)) with
  | some aw, some af, some wa, some fa, some pl, some wc =>
    some { l with allocW := ofList l.allocW aw, allocF := ofList l.allocF af, wasg := ofList l.wasg wa,
                  fasg := ofList l.fasg fa, placed := ofList l.placed pl, wpComps := ofList l.wpComps wc }
  | _, _, _, _, _, _ => Option.none

/-- `write_simple_json`: the saved value -/
def exportP (ids : Ids) (m : Model) (s : St) : Option (Model × St) :=
  match relModel ids.toMap m, relLive ids.toMap m s.live with
  | some m', some l' => some (m', { s with live := l' })
  | _, _ => Option.none

/-- `read_simple_json`: fails (`none`) when a label names no object of the restored project -/
def importP (ids : Ids) (sm : Model) (ss : St) : Option (Model × St) :=
  match relModel (ids.fromMap sm) sm, relLive (ids.fromMap sm) sm ss.live with
  | some m', some l' => some (m', { ss with live := l' })
  | _, _ => Option.none

end PDesy
