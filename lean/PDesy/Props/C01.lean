/-
  PDesy.Props.C01 — "Task dependencies (FS/SS/FF/SF) are never violated; the task lifecycle
  only advances."

  `DepInv m ts` (Lemmas/Defs): for every non-exempt task `t < m.nT`
    * if `ts t ≠ NONE`    then every FS predecessor is FINISHED and every SS predecessor has
                           started (WORKING or FINISHED);
    * if `ts t = FINISHED` then every FF predecessor is FINISHED and every SF predecessor has
                           started.
  `Mono ts ts'`: no task has a smaller rank (NONE < READY < WORKING < FINISHED) in `ts'`.
  `exempt m t`: default progress `≥ 1` (such a task is FINISHED from the start).
  No well-formedness assumption on the model is needed anywhere in this file.
-/
import PDesy.Lemmas.Lifecycle

namespace PDesy
open Lifecycle

/-! ### facts about the small concrete model `Lifecycle.exM` used by the `example`s -/

namespace C01Ex

theorem exTs_dep : DepInv exM exTs := by
  rw [DepInv_iff]
  unfold exempt
  decide +kernel

/-- the invariant is not vacuous on the example: tasks 0, 1, 2 are constrained, 3 is exempt -/
example : ¬ exempt exM 1 ∧ ¬ exempt exM 2 ∧ exempt exM 3 := by
  unfold exempt; decide +kernel

/-- and it really rejects a violating vector (task 1 READY while its FS predecessor 0 is WORKING) -/
example : ¬ DepInv exM (fun t => match t with | 0 => .working | 1 => .ready | _ => .none) := by
  rw [DepInv_iff]
  unfold exempt
  decide +kernel

end C01Ex

/-! ### C01: dependencies -/

/-- **C01 (start of a run).** After `initialize(state_info=True, log_info=…)` — i.e. in the
state a forward `simulate` with `initState = true` enters its loop from — the dependency
invariant holds: every non-exempt task is NONE, or READY with all its FS predecessors FINISHED
and SS predecessors started.  Covers both `initLog = true` (exempt tasks set FINISHED at once)
and `initLog = false` (they start NONE). -/
theorem C01_init (m : Model) (p : Params) (s : St) (h : p.initState = true) :
    DepInv m (enter m p s).live.tstate := by
  rw [enter_live, h]; exact DepInv_initProject m p.initLog s

example : ({ absence := [1] } : Params).initState = true := rfl

/-- the shape behind `C01_init`: every non-exempt task is NONE, or READY under an open start gate -/
theorem C01_init_shape (m : Model) (p : Params) (s : St) (h : p.initState = true)
    (t : Nat) (ht : t < m.nT) (hex : ¬ exempt m t) :
    (enter m p s).live.tstate t = .none ∨
    ((enter m p s).live.tstate t = .ready ∧ readyGate m (enter m p s).live.tstate t = true) := by
  have := initProject_shape m p.initLog s t ht hex
  rw [enter_live, h]; exact this

/-- **C01 (every recorded step).** If the dependency invariant holds in the state the loop
starts from, it holds at the end of every executed step (`ticked` boundary): no task has left
NONE before its FS predecessors FINISHED / SS predecessors started, none is FINISHED before
its FF predecessors FINISHED / SF predecessors started. -/
theorem C01_trace (m : Model) (p : Params) (s : St) (h : DepInv m s.live.tstate) :
    ∀ fuel, ∀ s' ∈ trace m p fuel s, DepInv m s'.live.tstate := fun fuel =>
  trace_inv m p (fun s => DepInv m s.live.tstate) (fun s hs => DepInv_updated m s hs)
    (fun s hs _ => DepInv_stepBody m p s hs) fuel s h

example : DepInv exM exSt.live.tstate := C01Ex.exTs_dep

/-- **C01 (after every `__update`).** The same at the `updated` boundary of every iteration,
including the one at which the loop exits. -/
theorem C01_updTrace (m : Model) (p : Params) (s : St) (h : DepInv m s.live.tstate) :
    ∀ fuel, ∀ s' ∈ updTrace m p fuel s, DepInv m s'.live.tstate := fun fuel =>
  updTrace_inv m p (fun s => DepInv m s.live.tstate) (fun s hs => DepInv_updated m s hs)
    (fun s hs _ => DepInv_stepBody m p s hs) fuel s h

example : DepInv exM exSt.live.tstate := C01Ex.exTs_dep

/-- the final state of the loop -/
theorem C01_loop (m : Model) (p : Params) (s : St) (h : DepInv m s.live.tstate) (fuel : Nat) :
    DepInv m (loop m p fuel s).live.tstate :=
  loop_inv m p (fun s => DepInv m s.live.tstate) (fun s hs => DepInv_updated m s hs)
    (fun s hs _ => DepInv_stepBody m p s hs) (fun _ _ hs => hs) fuel s h

/-- **C01 (whole forward run, recorded steps).** In `simulate m p s` with `initState = true`
the dependency invariant holds at the end of every executed step, whatever the state `s` the
project was in before. -/
theorem C01_run (m : Model) (p : Params) (s : St) (h : p.initState = true) :
    ∀ s' ∈ runTrace m p s, DepInv m s'.live.tstate :=
  C01_trace m p _ (C01_init m p s h) _

example : ({ absence := [1] } : Params).initState = true := rfl

/-- **C01 (whole forward run, after every `__update`).** -/
theorem C01_runUpd (m : Model) (p : Params) (s : St) (h : p.initState = true) :
    ∀ s' ∈ runUpdTrace m p s, DepInv m s'.live.tstate :=
  C01_updTrace m p _ (C01_init m p s h) _

example : ({ absence := [1] } : Params).initState = true := rfl

/-- **C01 (final state).** The state `simulate` returns satisfies the dependency invariant. -/
theorem C01_final (m : Model) (p : Params) (s : St) (h : p.initState = true) :
    DepInv m (simulate m p s).live.tstate := by
  rw [simulate_eq]; exact C01_loop m p _ (C01_init m p s h) _

example : ({ absence := [1] } : Params).initState = true := rfl

/-- the run of the example model is not empty and ends successfully, so the three theorems
above talk about real states -/
example : (simulate exM {} St.fresh).status = .success ∧
    (runTrace exM {} St.fresh).length = 4 := by
  decide +kernel

/-! ### C01: the lifecycle only advances -/

/-- **C01 (lifecycle, phase level).** `__update` and one loop step only move task states
forward along NONE, READY, WORKING, FINISHED. -/
theorem C01_mono_phases (m : Model) (p : Params) (s : St) :
    Mono s.live.tstate (updated m s).live.tstate ∧
    Mono s.live.tstate (stepBody m p s).live.tstate :=
  ⟨updated_mono m s, stepBody_mono m p s⟩

/-- **C01 (lifecycle along the run).** Between the start state and any recorded step, and
between any earlier and any later recorded step, no task moves backward. -/
theorem C01_mono_trace (m : Model) (p : Params) (fuel : Nat) (s : St) :
    List.Pairwise (fun a b => Mono a.live.tstate b.live.tstate) (s :: trace m p fuel s) :=
  trace_pairwise m p (fun a b => Mono a.live.tstate b.live.tstate) (fun _ => True)
    (fun _ _ _ => Mono.trans) (fun s _ => ⟨trivial, updated_mono m s⟩)
    (fun s _ => ⟨trivial, stepBody_mono m p s⟩) fuel s trivial

/-- … and the final state of the loop is not behind the start state either. -/
theorem C01_mono_loop (m : Model) (p : Params) (fuel : Nat) (s : St) :
    Mono s.live.tstate (loop m p fuel s).live.tstate :=
  loop_inv m p (fun s' => Mono s.live.tstate s'.live.tstate)
    (fun s' hs => Mono.trans hs (updated_mono m s'))
    (fun s' hs _ => Mono.trans hs (stepBody_mono m p s'))
    (fun _ _ hs => hs) fuel s (Mono.refl _)

/-- **C01 (lifecycle, whole run).** In `simulate m p s` the recorded steps are pairwise ordered
after the entered state and after each other; the returned state is after the entered state. -/
theorem C01_mono_run (m : Model) (p : Params) (s : St) :
    List.Pairwise (fun a b => Mono a.live.tstate b.live.tstate) (enter m p s :: runTrace m p s) ∧
    Mono (enter m p s).live.tstate (simulate m p s).live.tstate :=
  ⟨C01_mono_trace m p _ _, by rw [simulate_eq]; exact C01_mono_loop m p _ _⟩

/-- consequences in the usual words: FINISHED is absorbing, a started task stays started,
a task that left NONE never returns to it -/
theorem C01_mono_consequences {a b : Nat → TS} (h : Mono a b) (t : Nat) :
    (a t = .finished → b t = .finished) ∧ ((a t).started = true → (b t).started = true) ∧
    (a t ≠ .none → b t ≠ .none) :=
  ⟨fun h' => Mono.finished h h', fun h' => Mono.started h h', fun h' => Mono.ne_none h h'⟩

/-! ### C01 on the logs -/

/-- what `record` appends to a task's state log is the *shown* state `showT working (live state)` -/
theorem C01_record (m : Model) (w : Bool) (l : Live) (lg : Logs) (t : Nat) (ht : t < m.nT) :
    (record m w l lg).tState t = lg.tState t ++ [showT w (l.tstate t)] :=
  record_tState m w l lg t ht

/-- `showT` keeps FINISHED and NONE exactly, and differs from the live state only by showing a
WORKING task as READY on an absence step -/
theorem C01_showT (w : Bool) (x : TS) :
    (showT w x = .finished ↔ x = .finished) ∧ (showT w x = .none ↔ x = .none) ∧
    (showT w x ≠ x → w = false ∧ x = .working ∧ showT w x = .ready) :=
  ⟨showT_finished_iff w x, showT_none_iff w x, showT_ne w x⟩

/-- **C01 (as logged).** If the live states satisfy the dependency invariant, the row of shown
states satisfies the FS and FF clauses literally, and the SS / SF clauses with "started" read
as `shownStarted`: WORKING or FINISHED, or READY on an absence step. -/
theorem C01_shown (m : Model) (w : Bool) (ts : Nat → TS) (h : DepInv m ts) :
    ∀ t, t < m.nT → ¬ exempt m t →
      (showT w (ts t) ≠ .none → ∀ e ∈ (m.task t).inputs,
          (e.2 = .fs → showT w (ts e.1) = .finished) ∧
          (e.2 = .ss → shownStarted w (showT w (ts e.1)))) ∧
      (showT w (ts t) = .finished → ∀ e ∈ (m.task t).inputs,
          (e.2 = .ff → showT w (ts e.1) = .finished) ∧
          (e.2 = .sf → shownStarted w (showT w (ts e.1)))) :=
  DepInv_shown m w ts h

example : DepInv exM exTs := C01Ex.exTs_dep

/-- **C01 (rows logged by a forward run).** For every recorded step `s'` of `simulate m p s`
(`initState = true`) there is a row of task states which is the last entry of every task's
state log at `s'` and which satisfies the dependency clauses as read off the log (`ShownDep`,
with the step's working/absence flag `workingAt p (s'.time - 1)`). -/
theorem C01_logged (m : Model) (p : Params) (s : St) (h : p.initState = true) :
    ∀ s' ∈ runTrace m p s, ∃ row : Nat → TS,
      (∀ t, t < m.nT → (s'.logs.tState t).getLast? = some (row t)) ∧
      ShownDep m (workingAt p (s'.time - 1)) row := by
  intro s' hs'
  refine ⟨fun t => showT (workingAt p (s'.time - 1)) (s'.live.tstate t), ?_, ?_⟩
  · obtain ⟨s1, rfl⟩ := trace_mem_stepBody m p _ _ s' hs'
    intro t ht
    exact stepBody_tState m p s1 t ht
  · exact ShownDep_of_DepInv m _ _ (C01_run m p s h s' hs')

example : ({ absence := [1] } : Params).initState = true := rfl

end PDesy

#print axioms PDesy.C01_init
#print axioms PDesy.C01_init_shape
#print axioms PDesy.C01_trace
#print axioms PDesy.C01_updTrace
#print axioms PDesy.C01_loop
#print axioms PDesy.C01_run
#print axioms PDesy.C01_runUpd
#print axioms PDesy.C01_final
#print axioms PDesy.C01_mono_phases
#print axioms PDesy.C01_mono_trace
#print axioms PDesy.C01_mono_loop
#print axioms PDesy.C01_mono_run
#print axioms PDesy.C01_mono_consequences
#print axioms PDesy.C01_record
#print axioms PDesy.C01_showT
#print axioms PDesy.C01_shown
#print axioms PDesy.C01_logged
