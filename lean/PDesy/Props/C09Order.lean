/-
  PDesy.Props.C09Order — C09 (second half): "Simulation results are independent of object
  identity."

  pDESy iterates over Python `set`s of tasks / components in `__check_finished`,
  `__check_working`, `check_removing_placed_workplace` and in the waves of the PERT update; the
  iteration order of a `set` of objects depends on their hashes (memory addresses).  In the
  model these phases take the visiting order as an explicit argument (`chkFinishedOrd`,
  `chkWorkingOrd`, `chkRemoveOrd`; `Order.pertOrd` for PERT, defined in Lemmas/Order.lean with
  `pert m = pertOrd m (canonSet m.nT)`).  This file proves that the result is the same for
  every order:

  * `C09_order_finished`   check_state(FINISHED), under the allocation invariant `AllocInv`
                           (needed: `C09_order_finished_needs_inv`); task states and remaining
                           work are order-independent for ANY state (`C09_order_finished_states`);
  * `C09_order_working`    check_state(WORKING), any state;
  * `C09_order_remove`     check_removing_placed_workplace, any state;
  * `C09_order_pert_fs`    PERT update on finish-to-start networks, every wave order;
    `C09_order_pert_ff_counterexample`: with FF links the stored values DO depend on the order;
  * `C09_update_order`, `C09_step_order`, `C09_loop_order`, `C09_simulate_order`: one `__update`,
    one loop body, the whole loop, the whole `simulate`, for arbitrary orders of the first three
    iterations (PERT order canonical), on every network;
  * `C09_update_order_fs`, `C09_loop_order_fs`, `C09_simulate_order_fs`: the same with the PERT
    order arbitrary as well, on finish-to-start networks.

  "Any order" is always "any list with the same members" (order AND multiplicity are free); the
  `_perm` variants restate the results for permutations of `List.range n`.
-/
import PDesy.Lemmas.Order
import PDesy.Props.C03
import PDesy.Props.C12

namespace PDesy
open PDesy.Order PDesy.PertSpec

/-! ### check_state(FINISHED) -/

/-- **C09 (order), `__check_finished`.**  On a state satisfying the allocation invariant, two
visiting orders that list the same tasks of the model (in any order, with any multiplicity)
give exactly the same state after `check_state(FINISHED)`: the same tasks are FINISHED (the
least set closed under "WORKING, no work left, finish gate open"), and the same workers and
facilities are released. -/
theorem C09_order_finished (m : Model) (o₁ o₂ : List Nat) (l : Live)
    (hm : ∀ t, t ∈ o₁ ↔ t ∈ o₂) (h1 : ∀ t ∈ o₁, t < m.nT) (hl : AllocInv m l) :
    chkFinishedOrd m o₁ l = chkFinishedOrd m o₂ l :=
  chkFinishedOrd_congr hl o₁ o₂ hm h1

/-- The same for a permutation of the task list: the result is that of the model's
`chkFinished` (which visits `0, 1, …, nT-1`). -/
theorem C09_order_finished_perm (m : Model) (order : List Nat) (l : Live)
    (hp : order.Perm (List.range m.nT)) (hl : AllocInv m l) :
    chkFinishedOrd m order l = chkFinished m l :=
  C09_order_finished m order (List.range m.nT) l (fun _ => hp.mem_iff)
    (fun _ ht => List.mem_range.mp (hp.mem_iff.mp ht)) hl

/-- Task states and remaining work after `check_state(FINISHED)` do not depend on the visiting
order for ANY input state (no invariant needed). -/
theorem C09_order_finished_states (m : Model) (o₁ o₂ : List Nat) (l : Live)
    (hm : ∀ t, t ∈ o₁ ↔ t ∈ o₂) (h1 : ∀ t ∈ o₁, t < m.nT) :
    (chkFinishedOrd m o₁ l).tstate = (chkFinishedOrd m o₂ l).tstate ∧
    (chkFinishedOrd m o₁ l).rem = (chkFinishedOrd m o₂ l).rem :=
  chkFinishedOrd_tr o₁ o₂ hm h1 l

/-- Under `AllocInv` the whole result is the closed form `Order.finForm` of the input state and
the final task states: a newly FINISHED task has remaining work 0 and empty allocation lists,
exactly the workers / facilities it held are FREE and unassigned, nothing else changes. -/
theorem C09_finished_form (m : Model) (order : List Nat) (l : Live) (hl : AllocInv m l) :
    chkFinishedOrd m order l = finForm l (chkFinishedOrd m order l).tstate :=
  chkFinishedOrd_form hl order

/-! ### check_state(WORKING), check_removing_placed_workplace -/

/-- **C09 (order), `__check_working`.**  Two visiting orders with the same members give the
same state after `check_state(WORKING)`, for every input state: the targets are computed on the
state before the phase, and starting two tasks commutes (and is idempotent). -/
theorem C09_order_working (m : Model) (o₁ o₂ : List Nat) (l : Live)
    (hm : ∀ t, t ∈ o₁ ↔ t ∈ o₂) : chkWorkingOrd m o₁ l = chkWorkingOrd m o₂ l :=
  chkWorkingOrd_congr o₁ o₂ hm l

theorem C09_order_working_perm (m : Model) (order : List Nat) (l : Live)
    (hp : order.Perm (List.range m.nT)) : chkWorkingOrd m order l = chkWorking m l :=
  C09_order_working m order (List.range m.nT) l (fun _ => hp.mem_iff)

/-- **C09 (order), `check_removing_placed_workplace`.**  Two visiting orders with the same
members give the same state, for every input state (no placement invariant is needed: removing
two different components erases different elements of the workplaces' lists and clears different
`placed_workplace` entries, and `List.erase` commutes). -/
theorem C09_order_remove (m : Model) (o₁ o₂ : List Nat) (l : Live)
    (hm : ∀ c, c ∈ o₁ ↔ c ∈ o₂) : chkRemoveOrd m o₁ l = chkRemoveOrd m o₂ l :=
  chkRemoveOrd_congr o₁ o₂ hm l

theorem C09_order_remove_perm (m : Model) (order : List Nat) (l : Live)
    (hp : order.Perm (List.range m.nC)) : chkRemoveOrd m order l = chkRemove m l :=
  C09_order_remove m order (List.range m.nC) l (fun _ => hp.mem_iff)

/-! ### PERT -/

/-- **C09 (order), PERT update, finish-to-start networks.**  `Order.pertOrd m ord` is the wave
algorithm of `update_PERT_data` with every task set (the head set, the tail set and every wave)
iterated in the order `ord` chooses; `ord` may be anything that lists exactly the members of
the set that are tasks of the model (`OrdOK`).  On a consistent acyclic finish-to-start network
with non-negative remaining work the resulting state is the same for every such `ord` — it is
the state `pert` computes.

For networks with SS / FF / SF links this is NOT proved, and it is false:
see `C09_order_pert_ff_counterexample`. -/
theorem C09_order_pert_fs (m : Model) (ord : List Nat → List Nat) (time : Nat) (l : Live)
    (ho : OrdOK m.nT ord) (hfs : FSOnly m) (hok : GraphOK m) (hac : Acyclic m) (hn : 0 < m.nT)
    (hrem : ∀ t, t < m.nT → 0 ≤ l.rem t) :
    pertOrd m ord time l = pert m time l :=
  pertOrd_eq_pert ho time l hfs hok hac hn hrem

/-- with the canonical order `pertOrd` is `pert`, on every network -/
theorem C09_pertOrd_canon (m : Model) (time : Nat) (l : Live) :
    pertOrd m (canonSet m.nT) time l = pert m time l :=
  pertOrd_canon m time l

/-- The same in specification form (this is `C12_eq_spec`): on a finish-to-start network ANY
procedure `pert'` whose output solves the PERT/CPM equations — for instance the wave algorithm
run with any other iteration order, by `C09_order_pert_fs` — agrees with `pert` on the critical
path length and on `est/eft/lst/lft` of every task of the model. -/
theorem C09_order_pert_fs_spec (m : Model) (time : Nat) (l : Live) (pert' : Live → Live)
    (hfs : FSOnly m) (hok : GraphOK m) (hac : Acyclic m) (hn : 0 < m.nT)
    (hrem : ∀ t, t < m.nT → 0 ≤ l.rem t)
    (hs : PertEqs m (time : Rat) l (pert' l).est (pert' l).eft (pert' l).lst (pert' l).lft
      (pert' l).cpl) :
    (pert m time l).cpl = (pert' l).cpl ∧ ∀ t, t < m.nT →
      (pert m time l).est t = (pert' l).est t ∧ (pert m time l).eft t = (pert' l).eft t ∧
      (pert m time l).lst t = (pert' l).lst t ∧ (pert m time l).lft t = (pert' l).lft t :=
  C12_eq_spec m time l hfs hok hac hn hrem hs

/-! ### one `__update`, one loop body, the whole run -/

/-- **One `__update`.**  On a state satisfying the allocation invariant, `__update` with
`__check_finished` visiting the tasks in the order `oF` and
`check_removing_placed_workplace` visiting the components in the order `oR` (any lists with
exactly the tasks / components of the model as members) equals the model's `update`. -/
theorem C09_update_order (m : Model) (oF oR : List Nat) (time : Nat) (l : Live)
    (hF : ∀ t, t ∈ oF ↔ t < m.nT) (hR : ∀ c, c ∈ oR ↔ c < m.nC) (hl : AllocInv m l) :
    updateOrd m (canonSet m.nT) oF oR time l = update m time l :=
  updateOrd_canon hl oF oR hF hR time

/-- **One loop body** (allocation … record), with `__check_working` visiting the tasks in the
order `oW`: equal to the model's `stepBody`, for every state. -/
theorem C09_step_order (m : Model) (oW : List Nat) (p : Params) (s : St)
    (hW : ∀ t, t ∈ oW ↔ t < m.nT) : stepBodyOrd m oW p s = stepBody m p s :=
  stepBodyOrd_eq oW hW p s

/-- **The whole loop.**  `o : Orders` chooses, at every iteration and as an arbitrary function
of the whole project state, the orders in which `__check_finished`,
`check_removing_placed_workplace` and `__check_working` visit their sets (`o.Valid`: each lists
exactly the tasks / components of the model); the PERT waves are visited in index order
(`o.CanonPert`).  From a state satisfying the allocation invariant with every holder WORKING,
the loop run with these orders returns exactly the state the model's `loop` returns (logs
included, so every recorded step agrees). -/
theorem C09_loop_order (m : Model) (o : Orders) (p : Params) (fuel : Nat) (s : St)
    (ho : o.Valid m) (hc : o.CanonPert m) (h : AllocInv m s.live ∧ HoldWorking s.live) :
    loopOrd m o p fuel s = loop m p fuel s :=
  loopOrd_eq ho hc p fuel s h

/-- **The whole `simulate`** (with `init_state=True`, from any project state): independent of
the three iteration orders. -/
theorem C09_simulate_order (m : Model) (o : Orders) (p : Params) (s : St)
    (ho : o.Valid m) (hc : o.CanonPert m) (hp : p.initState = true) :
    simulateOrd m o p s = simulate m p s := by
  unfold simulateOrd
  rw [hc s, initProjectOrd_canon]
  exact loopOrd_eq ho hc p _ _ (C03_init (m := m) (p := p) (s := s) hp)

/-- … and a continued run (`init_state=False`) from a state satisfying the invariant. -/
theorem C09_simulate_order_continue (m : Model) (o : Orders) (p : Params) (s : St)
    (ho : o.Valid m) (hc : o.CanonPert m) (hp : p.initState = false)
    (h : AllocInv m s.live ∧ HoldWorking s.live) :
    simulateOrd m o p s = simulate m p s := by
  unfold simulateOrd
  rw [hc s, initProjectOrd_canon]
  refine loopOrd_eq ho hc p _ _ ?_
  have e : (initProject m p.initState p.initLog s).live = s.live := by
    simp only [initProject, hp]
    cases p.initLog <;> rfl
  exact e ▸ h

/-! #### finish-to-start networks: every order is free, the PERT one included -/

/-- **One `__update`, finish-to-start network**: the PERT waves may be visited in any order
too.  `Idem.RemOK`: no non-WORKING task has negative remaining work (an invariant of runs). -/
theorem C09_update_order_fs (m : Model) (ord : List Nat → List Nat) (oF oR : List Nat) (time : Nat)
    (l : Live) (hn : FSNet m) (ho : OrdOK m.nT ord) (hF : ∀ t, t ∈ oF ↔ t < m.nT)
    (hR : ∀ c, c ∈ oR ↔ c < m.nC) (hl : AllocInv m l) (hr : Idem.RemOK m l) :
    updateOrd m ord oF oR time l = update m time l :=
  updateOrd_eq_fs hn hl hr ho oF oR hF hR time

/-- **The whole loop, finish-to-start network**: all four iteration orders arbitrary. -/
theorem C09_loop_order_fs (m : Model) (o : Orders) (p : Params) (fuel : Nat) (s : St)
    (hn : FSNet m) (ho : o.Valid m)
    (h : AllocInv m s.live ∧ HoldWorking s.live ∧ Idem.RemOK m s.live) :
    loopOrd m o p fuel s = loop m p fuel s :=
  loopOrd_eq_fs hn ho p fuel s h

/-- **The whole `simulate`, finish-to-start network** with non-negative work amounts and
default progress ≤ 1 (`Idem.WorkOK`), `init_state=True`, from any project state: the result
does not depend on any of the four iteration orders. -/
theorem C09_simulate_order_fs (m : Model) (o : Orders) (p : Params) (s : St)
    (hn : FSNet m) (hw : Idem.WorkOK m) (ho : o.Valid m) (hp : p.initState = true) :
    simulateOrd m o p s = simulate m p s := by
  unfold simulateOrd
  rw [initProjectOrd_eq_fs hn hw (ho s).2.2.2]
  have h0 := C03_init (m := m) (p := p) (s := s) hp
  exact loopOrd_eq_fs hn ho p _ _ ⟨h0.1, h0.2, Idem.RemOK_enter m hw p s hp⟩

/-! ### Examples: hypotheses are satisfiable, the statements are not vacuous, the gaps are real -/

namespace C09OrderEx

def base : Model :=
  { nT := 0, nW := 0, nF := 0, nTeam := 0, nWp := 0, nC := 0, task := fun _ => {},
    worker := fun _ => {}, fac := fun _ => {}, team := fun _ => {}, wp := fun _ => {},
    comp := fun _ => {} }

/-- an FF chain `0 →FF 1 →FF 2` -/
def mF : Model :=
  { base with
    nT := 3
    nW := 3
    task := fun t => match t with
      | 0 => { outputs := [(1, .ff)] }
      | 1 => { inputs := [(0, .ff)], outputs := [(2, .ff)] }
      | 2 => { inputs := [(1, .ff)] }
      | _ => {} }

/-- all three tasks WORKING with no work left, task `t` holding worker `t` -/
def lF : Live :=
  { Live.empty with
    tstate := fun t => if t < 3 then .working else .none
    allocW := fun t => if t < 3 then [t] else []
    wasg := fun w => if w < 3 then [w] else []
    wstate := fun w => if w < 3 then .working else .free }

theorem lF_inv : AllocInv mF lF := by
  refine ⟨?_, ?_, ?_, ?_, ?_, ?_, ?_, ?_⟩
  · intro t w; simp only [lF]; split <;> split <;> simp <;> omega
  · intro t f; simp [lF, Live.empty]
  · intro w; simp only [lF]; split <;> simp
  · intro f; simp [lF, Live.empty]
  · intro t; simp only [lF]; split <;> simp
  · intro t; simp [lF, Live.empty]
  · intro t; simp [lF, Live.empty]
  · intro t; simp only [lF]; split <;> simp [Live.empty]

/-- premises of `C09_order_finished(_perm)`: `[2, 1, 0]` is a permutation of the task list and
the state satisfies the invariant -/
example : [2, 1, 0].Perm (List.range mF.nT) ∧ AllocInv mF lF :=
  ⟨by decide, lF_inv⟩

/-- ONE pass depends on the order: along `0, 1, 2` the whole chain finishes, along `2, 1, 0`
only task 0 does (the FF gates of 1 and 2 are still closed when they are visited) … -/
example :
    (List.range 3).map (finishPass mF [0, 1, 2] lF).tstate = [.finished, .finished, .finished] ∧
    (List.range 3).map (finishPass mF [2, 1, 0] lF).tstate = [.finished, .working, .working] := by
  decide +kernel

/-- … but the closure does not (here checked by evaluation; in general by the theorem): the
reversed order needs three passes and ends in the same state, all workers released. -/
example :
    (List.range 3).map (chkFinishedOrd mF [2, 1, 0] lF).tstate = [.finished, .finished, .finished] ∧
    (List.range 3).map (chkFinishedOrd mF [2, 1, 0] lF).wasg = [[], [], []] ∧
    (List.range 3).map (chkFinishedOrd mF [2, 1, 0] lF).wstate = [.free, .free, .free] ∧
    (List.range 3).map (chkFinished mF lF).tstate = [.finished, .finished, .finished] ∧
    (List.range 3).map (chkFinished mF lF).wasg = [[], [], []] := by
  decide +kernel

/-- the theorem applied to the example -/
example : chkFinishedOrd mF [2, 1, 0] lF = chkFinished mF lF :=
  C09_order_finished_perm mF [2, 1, 0] lF (by decide) lF_inv

/-- two independent tasks -/
def m2 : Model := { base with nT := 2, nW := 1 }

/-- both WORKING with no work left and sharing worker 0 — this violates `AllocInv`
(exclusivity), and never happens in a run (C03) -/
def lShare : Live :=
  { Live.empty with
    tstate := fun t => if t < 2 then .working else .none
    allocW := fun t => if t < 2 then [0] else []
    wasg := fun w => if w = 0 then [0, 1] else []
    wstate := fun w => if w = 0 then .working else .free }

end C09OrderEx

/-- The hypothesis `AllocInv` of `C09_order_finished` cannot be dropped: when two finishing tasks
share a worker, the task left in the worker's `assigned_task_list` is the one visited FIRST
(`releaseW` fires only once every assigned task is FINISHED, and then removes only the current
one).  Task states and remaining work still agree (`C09_order_finished_states`). -/
theorem C09_order_finished_needs_inv :
    ¬ (∀ (m : Model) (o₁ o₂ : List Nat) (l : Live), (∀ t, t ∈ o₁ ↔ t ∈ o₂) →
        (∀ t ∈ o₁, t < m.nT) → chkFinishedOrd m o₁ l = chkFinishedOrd m o₂ l) := by
  intro h
  have h1 := h C09OrderEx.m2 [0, 1] [1, 0] C09OrderEx.lShare (by simp; omega)
    (by simp [C09OrderEx.m2])
  have h2 : (chkFinishedOrd C09OrderEx.m2 [0, 1] C09OrderEx.lShare).wasg 0 = [0] := by
    decide +kernel
  have h3 : (chkFinishedOrd C09OrderEx.m2 [1, 0] C09OrderEx.lShare).wasg 0 = [1] := by
    decide +kernel
  rw [h1, h3] at h2
  simp at h2

namespace C09OrderEx

/-- three READY tasks of the FF-chain model, each holding its worker (FREE before the phase) -/
def lW : Live :=
  { lF with tstate := fun t => if t < 3 then .ready else .none
            wstate := fun _ => .free }

/-- `C09_order_working`: a non-trivial instance (all three tasks start, all three workers turn
WORKING), evaluated for the reversed order, and the theorem applied to it -/
example :
    (List.range 3).map (chkWorkingOrd mF [2, 1, 0] lW).tstate = [.working, .working, .working] ∧
    (List.range 3).map (chkWorkingOrd mF [2, 1, 0] lW).wstate = [.working, .working, .working] ∧
    (List.range 3).map lW.wstate = [.free, .free, .free] := by
  decide +kernel
example : chkWorkingOrd mF [2, 1, 0] lW = chkWorking mF lW :=
  C09_order_working_perm mF [2, 1, 0] lW (by decide)

/-- two finished components placed at the same workplace -/
def mR : Model := { base with nC := 2, nWp := 1 }
def lR : Live :=
  { Live.empty with placed := fun c => if c < 2 then some 0 else Option.none
                    wpComps := fun p => if p = 0 then [0, 1] else [] }

/-- `C09_order_remove`: both components are removed (two erasures from the same list), in
either order -/
example :
    (chkRemoveOrd mR [1, 0] lR).wpComps 0 = [] ∧ (chkRemoveOrd mR [1, 0] lR).placed 1 = Option.none ∧
    (chkRemove mR lR).wpComps 0 = [] ∧ lR.wpComps 0 = [0, 1] := by
  decide +kernel
example : chkRemoveOrd mR [1, 0] lR = chkRemove mR lR :=
  C09_order_remove_perm mR [1, 0] lR (by decide)

/-- visit every set in DESCENDING index order -/
def rev (n : Nat) (xs : List Nat) : List Nat := (canonSet n xs).reverse

theorem rev_ok (n : Nat) : OrdOK n (rev n) := by
  intro xs x
  simp only [rev, List.mem_reverse]
  exact mem_canonSet

/-- five tasks with positive work: `0 →FS 3`, `1 →FF 2`, `2 →FS 4`, `3 →FF 4`.
Tasks 2 and 3 are in the same wave and both relax task 4 with the same `est = 1`:
`2 →FS 4` proposes `eft = 2`, `3 →FF 4` proposes `eft = max (eft 3) 2 = 6`; the update
`if est >= pre_est` lets the LAST one win. -/
def mP : Model :=
  { base with
    nT := 5
    task := fun t => match t with
      | 0 => { outputs := [(3, .fs)] }
      | 1 => { outputs := [(2, .ff)] }
      | 2 => { inputs := [(1, .ff)], outputs := [(4, .fs)] }
      | 3 => { inputs := [(0, .fs)], outputs := [(4, .ff)] }
      | 4 => { inputs := [(2, .fs), (3, .ff)] }
      | _ => {} }

def lP : Live :=
  { Live.empty with rem := fun t => match t with | 0 => 1 | 1 => 1 | 2 => 1 | 3 => 5 | 4 => 1 | _ => 0 }

/-- three tasks, task 0 with no work left (e.g. FINISHED): `0 →FS 2`, `1 →FF 2` -/
def mP3 : Model :=
  { base with
    nT := 3
    task := fun t => match t with
      | 0 => { outputs := [(2, .fs)] }
      | 1 => { outputs := [(2, .ff)] }
      | 2 => { inputs := [(0, .fs), (1, .ff)] }
      | _ => {} }

def lP3 : Live :=
  { Live.empty with rem := fun t => match t with | 0 => 0 | 1 => 5 | 2 => 1 | _ => 0 }

end C09OrderEx

/-- **The PERT values of a network with FF links depend on the iteration order of a wave.**
In the consistent acyclic 5-task network `C09OrderEx.mP` (FS and FF links, positive work) the
ascending order gives `eft 4 = 6` and critical path length 6, the descending order gives
`eft 4 = 2` and critical path length 2 (hence different `lst`, hence different TSLACK
priorities); all `est` agree.  The same with three tasks when one of them has no work left
(`C09OrderEx.mP3`).  So `C09_order_pert_fs` does not extend to FF links, and the whole-run
theorems for arbitrary networks fix the PERT order (`Orders.CanonPert`). -/
theorem C09_order_pert_ff_counterexample :
    (OrdOK 5 (C09OrderEx.rev 5) ∧ GraphOK C09OrderEx.mP ∧ Acyclic C09OrderEx.mP) ∧
    ((List.range 5).map (pert C09OrderEx.mP 0 C09OrderEx.lP).est = [0, 0, 0, 1, 1] ∧
     (List.range 5).map (pertOrd C09OrderEx.mP (C09OrderEx.rev 5) 0 C09OrderEx.lP).est
        = [0, 0, 0, 1, 1]) ∧
    ((List.range 5).map (pert C09OrderEx.mP 0 C09OrderEx.lP).eft = [1, 1, 1, 6, 6] ∧
     (List.range 5).map (pertOrd C09OrderEx.mP (C09OrderEx.rev 5) 0 C09OrderEx.lP).eft
        = [1, 1, 1, 6, 2]) ∧
    ((pert C09OrderEx.mP 0 C09OrderEx.lP).cpl = 6 ∧
     (pertOrd C09OrderEx.mP (C09OrderEx.rev 5) 0 C09OrderEx.lP).cpl = 2) ∧
    ((List.range 5).map (pert C09OrderEx.mP 0 C09OrderEx.lP).lst = [4, 4, 4, 5, 5] ∧
     (List.range 5).map (pertOrd C09OrderEx.mP (C09OrderEx.rev 5) 0 C09OrderEx.lP).lst
        = [0, 0, 0, 1, 1]) ∧
    ((pert C09OrderEx.mP3 0 C09OrderEx.lP3).eft 2 = 5 ∧
     (pertOrd C09OrderEx.mP3 (C09OrderEx.rev 3) 0 C09OrderEx.lP3).eft 2 = 1) :=
  ⟨⟨C09OrderEx.rev_ok 5, by decide +kernel, ⟨id, by decide +kernel⟩⟩,
   by decide +kernel, by decide +kernel, by decide +kernel, by decide +kernel, by decide +kernel⟩

/-- in particular the two orders give different states -/
theorem C09_order_pert_ff_ne :
    pertOrd C09OrderEx.mP (C09OrderEx.rev 5) 0 C09OrderEx.lP ≠ pert C09OrderEx.mP 0 C09OrderEx.lP := by
  intro h
  have h1 := C09_order_pert_ff_counterexample.2.2.2.1
  rw [h] at h1
  have := h1.1.symm.trans h1.2
  revert this
  decide +kernel

namespace C09OrderEx

/-- `C09_order_pert_fs` on the diamond of C12 (stale PERT fields, a zero remaining work): its
premises hold, and the descending order gives the same values (checked by evaluation) -/
example : OrdOK C12Ex.m.nT (rev 4) ∧ FSOnly C12Ex.m ∧ GraphOK C12Ex.m ∧ Acyclic C12Ex.m ∧
    0 < C12Ex.m.nT ∧ ∀ t, t < C12Ex.m.nT → 0 ≤ C12Ex.l.rem t :=
  ⟨rev_ok 4, by decide +kernel, by decide +kernel, ⟨id, by decide +kernel⟩, by decide,
    by decide +kernel⟩

example :
    let r := pertOrd C12Ex.m (rev 4) 2 C12Ex.l
    (List.range 4).map r.est = [2, 5, 5, 10] ∧ (List.range 4).map r.eft = [5, 7, 10, 10] ∧
    (List.range 4).map r.lst = [2, 8, 5, 10] ∧ (List.range 4).map r.lft = [5, 10, 10, 10] ∧
    r.cpl = 10 := by
  decide +kernel

example : pertOrd C12Ex.m (rev 4) 2 C12Ex.l = pert C12Ex.m 2 C12Ex.l :=
  C09_order_pert_fs C12Ex.m (rev 4) 2 C12Ex.l (rev_ok 4) (by decide +kernel) (by decide +kernel)
    ⟨id, by decide +kernel⟩ (by decide) (by decide +kernel)

/-- every set visited in descending order, at every step -/
def revOrders (m : Model) : Orders where
  fin := fun _ => (List.range m.nT).reverse
  rem := fun _ => (List.range m.nC).reverse
  work := fun _ => (List.range m.nT).reverse
  pert := fun _ => rev m.nT

theorem revOrders_valid (m : Model) : (revOrders m).Valid m := by
  intro s
  refine ⟨?_, ?_, ?_, rev_ok m.nT⟩ <;> intro t <;> simp [revOrders]

/-- descending order for the three phases, canonical order for PERT -/
def revOrders3 (m : Model) : Orders := { revOrders m with pert := fun _ => canonSet m.nT }

theorem revOrders3_valid (m : Model) : (revOrders3 m).Valid m ∧ (revOrders3 m).CanonPert m := by
  refine ⟨?_, fun _ => rfl⟩
  intro s
  refine ⟨?_, ?_, ?_, ordOK_canon m.nT⟩ <;> intro t <;> simp [revOrders3, revOrders]

/-- premises of `C09_simulate_order` (any model) and of `C09_simulate_order_fs` on the two-task
finish-to-start model of C03 -/
example : (revOrders3 C03.exM).Valid C03.exM ∧ (revOrders3 C03.exM).CanonPert C03.exM ∧
    ({} : Params).initState = true :=
  ⟨(revOrders3_valid _).1, (revOrders3_valid _).2, rfl⟩

theorem exM_fs : FSNet C03.exM ∧ Idem.WorkOK C03.exM := by
  refine ⟨⟨by decide +kernel, by decide +kernel, ⟨id, by decide +kernel⟩, by decide⟩, ?_⟩
  intro t ht
  have : t = 0 ∨ t = 1 := by
    have : t < 2 := ht
    omega
  rcases this with rfl | rfl <;> decide +kernel

/-- premises of `C09_update_order`, `C09_step_order`, `C09_loop_order` and of their `_fs`
versions, on the two-task model of C03 in a state where task 0 is WORKING with worker 0 -/
example : (∀ t, t ∈ [1, 0] ↔ t < C03.exM.nT) ∧ (∀ c, c ∈ ([] : List Nat) ↔ c < C03.exM.nC) ∧
    AllocInv C03.exM (C03.exLw .working) ∧ HoldWorking (C03.exLw .working) ∧
    Idem.RemOK C03.exM (C03.exLw .working) ∧ FSNet C03.exM ∧ OrdOK C03.exM.nT (rev 2) := by
  refine ⟨?_, ?_, (C03.exLw_inv .working).1, (C03.exLw_inv .working).2, ?_, exM_fs.1, rev_ok 2⟩
  · intro t; simp [C03.exM]; omega
  · intro c; simp [C03.exM]
  · intro t _ _; simp [C03.exLw, Live.empty]

/-- the run with every set visited in descending order, evaluated: it is the run of
`C03.exM` shown in Props/C03.lean (three steps, worker 0 handed from task 0 to task 1) -/
example :
    (simulateOrd C03.exM (revOrders C03.exM) {} St.fresh).time = 3 ∧
    (simulateOrd C03.exM (revOrders C03.exM) {} St.fresh).status = .success ∧
    (simulateOrd C03.exM (revOrders C03.exM) {} St.fresh).logs.tState 1
      = [.none, .none, .working] ∧
    (simulate C03.exM {} St.fresh).logs.tState 1 = [.none, .none, .working] := by
  decide +kernel

example : simulateOrd C03.exM (revOrders C03.exM) {} St.fresh = simulate C03.exM {} St.fresh :=
  C09_simulate_order_fs C03.exM _ {} St.fresh exM_fs.1 exM_fs.2 (revOrders_valid _) rfl

end C09OrderEx

end PDesy

#print axioms PDesy.C09_order_finished
#print axioms PDesy.C09_order_finished_perm
#print axioms PDesy.C09_order_finished_states
#print axioms PDesy.C09_finished_form
#print axioms PDesy.C09_order_finished_needs_inv
#print axioms PDesy.C09_order_working
#print axioms PDesy.C09_order_working_perm
#print axioms PDesy.C09_order_remove
#print axioms PDesy.C09_order_remove_perm
#print axioms PDesy.C09_order_pert_fs
#print axioms PDesy.C09_pertOrd_canon
#print axioms PDesy.C09_order_pert_fs_spec
#print axioms PDesy.C09_order_pert_ff_counterexample
#print axioms PDesy.C09_order_pert_ff_ne
#print axioms PDesy.C09_update_order
#print axioms PDesy.C09_step_order
#print axioms PDesy.C09_loop_order
#print axioms PDesy.C09_simulate_order
#print axioms PDesy.C09_simulate_order_continue
#print axioms PDesy.C09_update_order_fs
#print axioms PDesy.C09_loop_order_fs
#print axioms PDesy.C09_simulate_order_fs
