/-
  PDesy.Props.C04 — "Only eligible resources are ever allocated to a task."

  Vocabulary (Lemmas/Elig):
  * `WorkerElig m t w`: worker `w` has a positive skill for task `t`, `w`'s team is assigned to
    `t`, and if `t` fixes its allowed worker IDs then `w` is one of them.
  * `FacElig m t f`: the same for a facility (skill, workplace assigned to `t`, fixed IDs).
  * `PairElig m t w f`: both of the above and `w` can operate `f`.
  * `EligAt m t ws fs` (task `t` holds workers `ws`, facilities `fs`): (a) every worker is
    eligible; (b) a solo worker / solo facility is the only one in its list; (c) if `t` needs a
    facility, `ws` and `fs` have the same length and are position by position eligible pairs;
    (d) if `t` needs no facility, `fs = []`; (e) an automatic task holds nothing.
  * `EligInv m l`: `EligAt m t (l.allocW t) (l.allocF t)` for every task `t < m.nT`.
  No well-formedness assumption on the model is needed anywhere in this file.
-/
import PDesy.Lemmas.Elig

namespace PDesy
open Lifecycle Elig

/-! ### the invariant, in plain clauses -/

/-- **C04 (what the invariant says).** In a live state that satisfies `EligInv`, for a task
`t < m.nT`: every held worker is eligible; a solo worker or solo facility is alone on the task;
a task that needs a facility holds as many workers as facilities and the `i`-th worker with the
`i`-th facility is an eligible pair (in particular the facility is eligible and the worker can
operate it); a task that needs no facility holds no facility; an automatic task holds nothing. -/
theorem C04_meaning (m : Model) (l : Live) (h : EligInv m l) (t : Nat) (ht : t < m.nT) :
    (∀ w ∈ l.allocW t, WorkerElig m t w) ∧
    ((∃ w ∈ l.allocW t, (m.worker w).solo = true) → (l.allocW t).length = 1) ∧
    ((∃ f ∈ l.allocF t, (m.fac f).solo = true) → (l.allocF t).length = 1) ∧
    ((m.task t).needFac = true →
      (l.allocW t).length = (l.allocF t).length ∧
      (∀ wf ∈ (l.allocW t).zip (l.allocF t), PairElig m t wf.1 wf.2) ∧
      (∀ f ∈ l.allocF t, FacElig m t f)) ∧
    ((m.task t).needFac = false → l.allocF t = []) ∧
    ((m.task t).isAuto = true → l.allocW t = [] ∧ l.allocF t = []) := by
  have hat := h t ht
  refine ⟨hat.worker, hat.soloW, hat.soloF, ?_, hat.noFac, hat.auto⟩
  intro hn
  obtain ⟨hlen, hp⟩ := hat.pairs hn
  refine ⟨hlen, hp, ?_⟩
  intro f hf
  obtain ⟨i, hi, rfl⟩ := List.getElem_of_mem hf
  have hiw : i < (l.allocW t).length := by omega
  have hmem : ((l.allocW t)[i], (l.allocF t)[i]) ∈ (l.allocW t).zip (l.allocF t) := by
    have hz : i < ((l.allocW t).zip (l.allocF t)).length := by
      rw [List.length_zip]; omega
    have := List.getElem_mem hz
    rwa [List.getElem_zip] at this
  exact (hp _ hmem).2.1

/-- the example state (task 0 WORKING with the solo worker 0 paired with facility 0) satisfies
the invariant … -/
example : EligInv exF exFSt.live := by decide +kernel

/-- … and the invariant is not vacuous: a second worker beside the solo worker, or worker 1
(who has no skill for task 0), are rejected -/
example : ¬ EligInv exF { exFLive with allocW := fun t => if t = 0 then [0, 1] else [],
                                         allocF := fun t => if t = 0 then [0, 0] else [] } := by
  decide +kernel

example : ¬ EligInv exF { exFLive with allocW := fun t => if t = 0 then [1] else [] } := by
  decide +kernel

/-! ### every phase preserves the invariant -/

/-- **C04 (phase level).** Every phase of the simulation preserves `EligInv`: `allocate` (the
only phase that adds resources — each one passed `can_add_resources` on the lists as they were
at that moment), `check_state(FINISHED)` (which only empties the lists of the tasks it
finishes), and the phases that do not touch the allocation lists at all. -/
theorem C04_phases (m : Model) (l : Live) (h : EligInv m l) :
    (∀ lg rule, EligInv m (allocate m lg rule l)) ∧
    EligInv m (chkFinished m l) ∧
    EligInv m (compCheck m l) ∧ EligInv m (chkRemove m l) ∧ EligInv m (chkReady m l) ∧
    (∀ time, EligInv m (pert m time l)) ∧
    (∀ time working, EligInv m (absenceSet m time working l)) ∧
    EligInv m (chkWorking m l) ∧
    (∀ working autoFlag, EligInv m (perform m working autoFlag l)) :=
  ⟨fun lg rule => EligInv_allocate m lg rule l h,
   EligInv_chkFinished m l h,
   h.of_af (compCheck_af m l), h.of_af (chkRemove_af m l), h.of_af (chkReady_af m l),
   fun time => h.of_af (pert_af m time l),
   fun time w => h.of_af (absenceSet_af m time w l),
   h.of_af (chkWorking_af m l),
   fun w a => h.of_af (perform_af m w a l)⟩

example : EligInv exF exFSt.live := by decide +kernel

/-! ### the moment of allocation -/

/-- **C04 (who can be added, workers).** A worker that a task holds after `allocate` was already
held by that task before, or is a worker of the organisation (`w < m.nW`) whose state was FREE
when the pass began. -/
theorem C04_added (m : Model) (lg : Logs) (rule : TaskRule) (l : Live) (t w : Nat)
    (h : w ∈ (allocate m lg rule l).allocW t) :
    w ∈ l.allocW t ∨ (w < m.nW ∧ l.wstate w = .free) :=
  allocate_addedW m lg rule l t w h

/-- **C04 (who can be added, facilities).** A facility that a task holds after `allocate` was
already held by that task before, or (`FacFresh`) it was FREE and assigned to no task when the
pass began, it stands in some workplace, and the task has a target component. -/
theorem C04_added_fac (m : Model) (lg : Logs) (rule : TaskRule) (l : Live) (t f : Nat)
    (h : f ∈ (allocate m lg rule l).allocF t) :
    f ∈ l.allocF t ∨
      (l.fstate f = .free ∧ l.fasg f = [] ∧
        ∃ c p, (m.task t).comp = some c ∧ f ∈ (m.wp p).facs) :=
  allocate_addedF m lg rule l t f h

/-- **C04 (one call of the pairing step).** What `allocPairs` (step 3-2 for a task that needs a
facility) guarantees precisely about a facility it adds to task `t`: it stands in the workplace
`p` where the task's component `c` is placed at that moment, it is FREE and assigned to no
task. -/
theorem C04_added_fac_step (m : Model) (t : Nat) (a : Alloc) (f : Nat)
    (h : f ∈ (allocPairs m t a).l.allocF t) :
    f ∈ a.l.allocF t ∨
      ∃ c p, (m.task t).comp = some c ∧ a.l.placed c = some p ∧ f ∈ (m.wp p).facs ∧
        a.l.fstate f = .free ∧ a.l.fasg f = [] :=
  allocPairs_added m t a f h

/-- **C04 (nothing is taken away or reordered).** What a task held before `allocate` is a
prefix of what it holds afterwards, for workers and for facilities. -/
theorem C04_prefix (m : Model) (lg : Logs) (rule : TaskRule) (l : Live) (t : Nat) :
    l.allocW t <+: (allocate m lg rule l).allocW t ∧
    l.allocF t <+: (allocate m lg rule l).allocF t :=
  ⟨allocate_prefixW m lg rule l t, allocate_prefixF m lg rule l t⟩

/-- **C04 (not absent, holding nothing).** If resource states are determined by absence and
assignment (`ResInv`, which holds right after the absence phase of a working step), a worker
newly added by `allocate` is not absent at that time and was assigned to no task; a newly added
facility of the organisation (`f < m.nF`) is not absent either. -/
theorem C04_added_present (m : Model) (lg : Logs) (rule : TaskRule) (l : Live) (time : Nat)
    (hR : ResInv m time true l) (t : Nat) :
    (∀ w ∈ (allocate m lg rule l).allocW t, w ∉ l.allocW t →
      w < m.nW ∧ (m.worker w).absence.contains time = false ∧ l.wasg w = []) ∧
    (∀ f ∈ (allocate m lg rule l).allocF t, f ∉ l.allocF t → f < m.nF →
      (m.fac f).absence.contains time = false ∧ l.fasg f = []) := by
  constructor
  · intro w hw hold
    rcases C04_added m lg rule l t w hw with h' | ⟨hlt, hfree⟩
    · exact absurd h' hold
    · have := hR.1 w hlt
      rw [hfree] at this
      simp only [if_true, resState] at this
      refine ⟨hlt, ?_, ?_⟩
      · cases hc : (m.worker w).absence.contains time
        · rfl
        · rw [hc] at this; simp at this
      · cases hc : (m.worker w).absence.contains time
        · rw [hc] at this
          cases hl : l.wasg w
          · rfl
          · rw [hl] at this; simp at this
        · rw [hc] at this; simp at this
  · intro f hf hold hlt
    rcases C04_added_fac m lg rule l t f hf with h' | ⟨hfree, hasg, _⟩
    · exact absurd h' hold
    · have := hR.2 f hlt
      rw [hfree] at this
      simp only [if_true, resState] at this
      refine ⟨?_, hasg⟩
      cases hc : (m.fac f).absence.contains time
      · rfl
      · rw [hc] at this; simp at this

/-- the hypothesis of `C04_added_present` holds right after the absence phase of a working step -/
example (m : Model) (time : Nat) (l : Live) : ResInv m time true (absenceSet m time true l) := by
  constructor
  · intro w hw; simp [absenceSet, hw]
  · intro f hf; simp [absenceSet, hf]

/-- **C04 (the moment of allocation, inside a loop step).** In a working step started from a
state that satisfies the invariant, a worker that task `t` holds at the end of the step but did
not hold at its beginning is eligible for `t`, is a worker of the organisation, is not absent at
the time of the step, and was assigned to no task; and what the task held before is a prefix of
what it holds now. -/
theorem C04_moment (m : Model) (p : Params) (s : St) (hwork : p.absence.contains s.time = false)
    (hI : EligInv m s.live) (t : Nat) (ht : t < m.nT) (w : Nat)
    (hnew : w ∈ (stepBody m p s).live.allocW t) (hold : w ∉ s.live.allocW t) :
    WorkerElig m t w ∧ w < m.nW ∧ (m.worker w).absence.contains s.time = false ∧
    s.live.wasg w = [] ∧ s.live.allocW t <+: (stepBody m p s).live.allocW t := by
  have hI' := EligInv_stepBody m p s hI
  rw [af_allocW (stepBody_af m p s)] at hnew ⊢
  have hpre : preWorking m p s =
      allocate m s.logs p.rule (absenceSet m s.time true s.live) := by
    have hw' : s.time ∉ p.absence := by simpa using hwork
    unfold preWorking; simp [hw']
  rw [hpre] at hnew ⊢
  have hR : ResInv m s.time true (absenceSet m s.time true s.live) := by
    constructor
    · intro w hw; simp [absenceSet, hw]
    · intro f hf; simp [absenceSet, hf]
  obtain ⟨h1, h2, h3⟩ := (C04_added_present m s.logs p.rule _ s.time hR t).1 w hnew hold
  refine ⟨?_, h1, h2, h3,
    (C04_prefix m s.logs p.rule (absenceSet m s.time true s.live) t).1⟩
  have := (hI' t ht).worker w
  rw [af_allocW (stepBody_af m p s), hpre] at this
  exact this hnew

example : ({} : Params).absence.contains exFSt.time = false ∧ EligInv exF exFSt.live := by
  decide +kernel

/-- **C04 (absence steps).** On a step whose time is in the project's absence list nothing is
allocated: every task holds at the end exactly what it held at the beginning. -/
theorem C04_absence_step (m : Model) (p : Params) (s : St)
    (habs : p.absence.contains s.time = true) :
    (stepBody m p s).live.allocW = s.live.allocW ∧ (stepBody m p s).live.allocF = s.live.allocF := by
  have hpre : preWorking m p s = absenceSet m s.time false s.live := by
    have hw' : s.time ∈ p.absence := by simpa using habs
    unfold preWorking; simp [hw']
  have e : af (stepBody m p s).live = af s.live := by
    rw [stepBody_af, hpre]; rfl
  exact ⟨af_allocW e, af_allocF e⟩

example : ({ absence := [0] } : Params).absence.contains exFSt.time = true := by decide +kernel

/-! ### along a run -/

/-- **C04 (start of a run).** After `initialize(state_info=True, …)` — the state a forward
`simulate` with `initState = true` enters its loop from — no task holds anything, so the
invariant holds. -/
theorem C04_init (m : Model) (p : Params) (s : St) (h : p.initState = true) :
    EligInv m (enter m p s).live := by
  rw [enter_live, h]; exact EligInv_initProject m p.initLog s

example : ({ absence := [1] } : Params).initState = true := rfl

/-- **C04 (every recorded step).** If the invariant holds in the state the loop starts from, it
holds at the end of every executed step. -/
theorem C04_trace (m : Model) (p : Params) (s : St) (h : EligInv m s.live) :
    ∀ fuel, ∀ s' ∈ trace m p fuel s, EligInv m s'.live := fun fuel =>
  trace_inv m p (fun s => EligInv m s.live) (fun s hs => EligInv_updated m s hs)
    (fun s hs _ => EligInv_stepBody m p s hs) fuel s h

example : EligInv exF exFSt.live := by decide +kernel

/-- **C04 (after every `__update`).** The same at the `updated` boundary of every iteration,
including the one at which the loop exits. -/
theorem C04_updTrace (m : Model) (p : Params) (s : St) (h : EligInv m s.live) :
    ∀ fuel, ∀ s' ∈ updTrace m p fuel s, EligInv m s'.live := fun fuel =>
  updTrace_inv m p (fun s => EligInv m s.live) (fun s hs => EligInv_updated m s hs)
    (fun s hs _ => EligInv_stepBody m p s hs) fuel s h

example : EligInv exF exFSt.live := by decide +kernel

/-- the final state of the loop -/
theorem C04_loop (m : Model) (p : Params) (s : St) (h : EligInv m s.live) (fuel : Nat) :
    EligInv m (loop m p fuel s).live :=
  loop_inv m p (fun s => EligInv m s.live) (fun s hs => EligInv_updated m s hs)
    (fun s hs _ => EligInv_stepBody m p s hs) (fun _ _ hs => hs) fuel s h

/-- **C04 (whole forward run, recorded steps).** In `simulate m p s` with `initState = true`
the invariant holds at the end of every executed step, whatever state `s` the project was in
before. -/
theorem C04_run (m : Model) (p : Params) (s : St) (h : p.initState = true) :
    ∀ s' ∈ runTrace m p s, EligInv m s'.live :=
  C04_trace m p _ (C04_init m p s h) _

example : ({ absence := [1] } : Params).initState = true := rfl

/-- **C04 (whole forward run, after every `__update`).** -/
theorem C04_runUpd (m : Model) (p : Params) (s : St) (h : p.initState = true) :
    ∀ s' ∈ runUpdTrace m p s, EligInv m s'.live :=
  C04_updTrace m p _ (C04_init m p s h) _

/-- **C04 (final state).** The state `simulate` returns satisfies the invariant. -/
theorem C04_final (m : Model) (p : Params) (s : St) (h : p.initState = true) :
    EligInv m (simulate m p s).live := by
  rw [simulate_eq]; exact C04_loop m p _ (C04_init m p s h) _

/-- the run of the example model really allocates: at some recorded step task 0 holds the pair
(worker 0, facility 0), at some step task 1 holds worker 1 (the fixed one), and the run ends
successfully — so the theorems above talk about real, non-empty allocations -/
example : (simulate exF {} St.fresh).status = .success ∧
    (∃ s' ∈ runTrace exF {} St.fresh, s'.live.allocW 0 = [0] ∧ s'.live.allocF 0 = [0]) ∧
    (∃ s' ∈ runTrace exF {} St.fresh, s'.live.allocW 1 = [1]) := by
  decide +kernel

end PDesy

#print axioms PDesy.C04_meaning
#print axioms PDesy.C04_phases
#print axioms PDesy.C04_added
#print axioms PDesy.C04_added_fac
#print axioms PDesy.C04_added_fac_step
#print axioms PDesy.C04_prefix
#print axioms PDesy.C04_added_present
#print axioms PDesy.C04_moment
#print axioms PDesy.C04_absence_step
#print axioms PDesy.C04_init
#print axioms PDesy.C04_trace
#print axioms PDesy.C04_updTrace
#print axioms PDesy.C04_loop
#print axioms PDesy.C04_run
#print axioms PDesy.C04_runUpd
#print axioms PDesy.C04_final
