/-
  PDesy.Props.C17Start — C17, the start state of the inner backward run.

  `backwardSimulate m p due rev s` runs the inner `simulate (backwardModel m due) p` from
  `bwdStart m due s`: the project state `s` with the slots `t ≥ m.nT` of the task fields (the
  helper tasks — new objects in the real code) reset to constructor values.  The theorems of
  Props/C17 mention that start state.  This file says when it can be forgotten:

  1. with `init_state = init_log = True` it is irrelevant (`bwdStart_irrelevant`), and
     `backwardSimulate` is the definition without `bwdStart` (`C17_backward_eq_old`); the C17
     log theorems are restated on `simulate (backwardModel m due) p s` (`…_old`);
  2. `bwdStart` changes nothing that belongs to an object of `m` (`bwdStart_frame`), and puts
     constructor values at the helper slots (`bwdStart_helper_slots`);
  3. without helpers, alignment of the start state w.r.t. the inner model is alignment of `s`
     w.r.t. `m` (`bwdStart_no_helpers`), whence `C17_aligned_of_aligned`;
  4. for ANY `due` and any flags, alignment of the slots of `m` is preserved
     (`C17_aligned_general`) — no hypothesis on the helper slots, whose logs are dropped with
     the helpers.
-/
import PDesy.Props.C17
import PDesy.Props.C09Det
import PDesy.Lemmas.BwdStart

namespace PDesy
open PDesy.Bwd PDesy.Lifecycle

/-! ### states used by the `example`s -/

namespace C17Ex

/-- a dirty project on `exB`: junk in the slot of the future helper task (index 3 = `exB.nT`):
state FINISHED, remaining work 7, PERT times, an allocation, and task logs of length 2 — and
real data at the real tasks (task 0 WORKING with worker 1) -/
def sJ : St :=
  { St.fresh with
    live := { Live.empty with
      tstate := fun t => if t = 3 then .finished else if t = 0 then .working else .none
      rem := fun t => if t = 3 then 7 else 1
      est := fun t => if t = 3 then 4 else 0
      lft := fun t => if t = 3 then 9 else -1
      allocW := fun t => if t = 3 then [0] else if t = 0 then [1] else []
      wasg := fun w => if w = 1 then [0] else [] }
    logs := { Logs.empty with
      tState := fun t => if t = 3 then [.working, .finished] else []
      tRem := fun t => if t = 3 then [1, 0] else [] } }

/-- the project after two steps of a forward run stopped at `max_time = 2`: aligned, clock 2 -/
def s2 : St := simulate exB { maxTime := 2 } St.fresh

/-- run again without clearing the logs -/
def pKeep : Params := { initLog := false }

end C17Ex

open C17Ex

/-! ### (1) with both init flags the start state is irrelevant -/

/-- **C17 (start state irrelevant).**  When the inner run initialises both the state and the
logs, it makes no difference that it starts from `bwdStart m due s` rather than from `s`:
`initialize` overwrites every live field at every index, empties every log and resets clock,
status and mode before anything is read (C09), so the constructor values `bwdStart` puts at
the helper slots are overwritten like everything else.  (Equality of whole states.) -/
theorem bwdStart_irrelevant (m : Model) (p : Params) (due : Bool) (s : St)
    (hs : p.initState = true) (hl : p.initLog = true) :
    simulate (backwardModel m due) p (bwdStart m due s) = simulate (backwardModel m due) p s :=
  C09_resim (backwardModel m due) p _ _ hs hl

/-- the hypotheses hold for the default parameters; `bwdStart` really changes `sJ` (helper slot
3: FINISHED → NONE, remaining 7 → the helper's work 2, logs emptied), and still the two runs
agree — a real run of 4 steps -/
example : ({} : Params).initState = true ∧ ({} : Params).initLog = true ∧
    (backwardModel exB true).nT = 4 ∧
    sJ.live.tstate 3 = .finished ∧ (bwdStart exB true sJ).live.tstate 3 = .none ∧
    sJ.live.rem 3 = 7 ∧ (bwdStart exB true sJ).live.rem 3 = 2 ∧
    (sJ.logs.tState 3).length = 2 ∧ (bwdStart exB true sJ).logs.tState 3 = [] ∧
    putSt (backwardModel exB true) (simulate (backwardModel exB true) {} (bwdStart exB true sJ)) =
      putSt (backwardModel exB true) (simulate (backwardModel exB true) {} sJ) ∧
    (simulate (backwardModel exB true) {} sJ).time = 4 := by
  decide +kernel

/-- both flags are needed: without `init_state` the junk in the helper slot (helper already
FINISHED) shows through when the run starts from `sJ` itself; without `init_log` the stale
helper logs survive -/
example :
    putSt (backwardModel exB true)
        (simulate (backwardModel exB true) { initState := false } (bwdStart exB true sJ)) ≠
      putSt (backwardModel exB true) (simulate (backwardModel exB true) { initState := false } sJ) ∧
    putSt (backwardModel exB true)
        (simulate (backwardModel exB true) { initLog := false } (bwdStart exB true sJ)) ≠
      putSt (backwardModel exB true) (simulate (backwardModel exB true) { initLog := false } sJ) := by
  decide +kernel

/-- `backward_simulate` as it was defined before the helper slots were made fresh: the inner
run starts from the project state itself -/
def backwardSimulateOld (m : Model) (p : Params) (considerDue reverse : Bool) (s : St) : St :=
  let s1 := simulate (backwardModel m considerDue) p s
  let s2 := { s1 with mode := .backward }
  if reverse then reverseLogs m s2 else s2

/-- **C17 (old definition).**  With `init_state = init_log = True`, `backwardSimulate` is the
definition without `bwdStart`: run `simulate` on the backward model from `s`, set the mode to
BACKWARD, reverse the logs if asked. -/
theorem C17_backward_eq_old (m : Model) (p : Params) (due rev : Bool) (s : St)
    (hs : p.initState = true) (hl : p.initLog = true) :
    backwardSimulate m p due rev s =
      (let s1 := simulate (backwardModel m due) p s
       let s2 := { s1 with mode := .backward }
       if rev then reverseLogs m s2 else s2) := by
  unfold backwardSimulate
  rw [bwdStart_irrelevant m p due s hs hl]

/-- the same with the old definition given a name -/
theorem C17_backward_eq_old' (m : Model) (p : Params) (due rev : Bool) (s : St)
    (hs : p.initState = true) (hl : p.initLog = true) :
    backwardSimulate m p due rev s = backwardSimulateOld m p due rev s :=
  C17_backward_eq_old m p due rev s hs hl

example : ({} : Params).initState = true ∧ ({} : Params).initLog = true ∧
    putSt exB (backwardSimulate exB {} true true sJ) = putSt exB (backwardSimulateOld exB {} true true sJ) ∧
    (backwardSimulateOld exB {} true true sJ).time = 4 := by
  decide +kernel

/-- **C17 (no hidden state).**  With both flags, the state `backward_simulate` leaves does not
depend on the state it was called on. -/
theorem C17_backward_indep (m : Model) (p : Params) (due rev : Bool) (s s' : St)
    (hs : p.initState = true) (hl : p.initLog = true) :
    backwardSimulate m p due rev s = backwardSimulate m p due rev s' := by
  rw [C17_backward_eq_old m p due rev s hs hl, C17_backward_eq_old m p due rev s' hs hl,
    C09_resim (backwardModel m due) p s s' hs hl]

example : ({} : Params).initState = true ∧ ({} : Params).initLog = true ∧
    putSt exB sJ ≠ putSt exB St.fresh := by decide +kernel

/-! the log theorems of Props/C17, on `simulate (backwardModel m due) p s` -/

/-- `C17_time` without `bwdStart` -/
theorem C17_time_old (m : Model) (p : Params) (due rev : Bool) (s : St)
    (hs : p.initState = true) (hl : p.initLog = true) :
    (backwardSimulate m p due rev s).time = (simulate (backwardModel m due) p s).time := by
  rw [C17_time, bwdStart_irrelevant m p due s hs hl]

/-- `C17_reversed_log` without `bwdStart` -/
theorem C17_reversed_log_old (m : Model) (p : Params) (due : Bool) (s : St)
    (hs : p.initState = true) (hl : p.initLog = true) (t : Nat) (ht : t < m.nT) :
    (backwardSimulate m p due true s).logs.tState t =
      ((simulate (backwardModel m due) p s).logs.tState t).reverse := by
  rw [C17_reversed_log m p due s t ht, bwdStart_irrelevant m p due s hs hl]

/-- `C17_backward_row` without `bwdStart`: in the logs of the inner run from `s`, whenever `a`
is logged in any state but NONE, each finish-to-start successor `b` of `a` in `m` is logged
FINISHED at the same step -/
theorem C17_backward_row_old (m : Model) (p : Params) (due : Bool) (s : St)
    (hs : p.initState = true) (hl : p.initLog = true) {a b : Nat} (ha : a < m.nT) (hb : b < m.nT)
    (hex : ¬ exempt m a) (hedge : (b, Dep.fs) ∈ (m.task a).outputs) {k : Nat} {x : TS}
    (h : ((simulate (backwardModel m due) p s).logs.tState a)[k]? = some x) (hx : x ≠ .none) :
    ((simulate (backwardModel m due) p s).logs.tState b)[k]? = some .finished := by
  rw [← bwdStart_irrelevant m p due s hs hl] at h ⊢
  exact C17_backward_row m p due s hs hl ha hb hex hedge h hx

/-- `C17_backward_persist` without `bwdStart` -/
theorem C17_backward_persist_old (m : Model) (p : Params) (due : Bool) (s : St)
    (hs : p.initState = true) (hl : p.initLog = true) {b : Nat} (hb : b < m.nT) {k k' : Nat}
    (h : ((simulate (backwardModel m due) p s).logs.tState b)[k]? = some .finished) (hkk : k ≤ k')
    (hk' : k' < (simulate (backwardModel m due) p s).time) :
    ((simulate (backwardModel m due) p s).logs.tState b)[k']? = some .finished := by
  rw [← bwdStart_irrelevant m p due s hs hl] at h hk' ⊢
  exact C17_backward_persist m p due s hl hb h hkk hk'

/-- `C17_backward_order` without `bwdStart`: in the logs of the inner run from `s`, every step
at which the successor `b` is logged WORKING comes strictly before every step at which its
finish-to-start predecessor `a` is -/
theorem C17_backward_order_old (m : Model) (p : Params) (due : Bool) (s : St)
    (hs : p.initState = true) (hl : p.initLog = true) {a b : Nat} (ha : a < m.nT) (hb : b < m.nT)
    (hedge : (b, Dep.fs) ∈ (m.task a).outputs) {i j : Nat}
    (hi : ((simulate (backwardModel m due) p s).logs.tState b)[i]? = some .working)
    (hj : ((simulate (backwardModel m due) p s).logs.tState a)[j]? = some .working) : i < j := by
  rw [← bwdStart_irrelevant m p due s hs hl] at hi hj
  exact C17_backward_order m p due s hs hl ha hb hedge hi hj

example : ({} : Params).initState = true ∧ ({} : Params).initLog = true ∧ ¬ exempt exB 0 ∧
    (1, Dep.fs) ∈ (exB.task 0).outputs ∧
    ((simulate (backwardModel exB true) {} sJ).logs.tState 1)[0]? = some .working ∧
    ((simulate (backwardModel exB true) {} sJ).logs.tState 0)[3]? = some .working := by
  unfold exempt; decide +kernel

/-! ### (2) the frame of `bwdStart` -/

/-- **C17 (frame of the start state).**  `bwdStart m due s` agrees with `s`
* on every live task field (state, remaining work, the four PERT times, the two allocation
  lists) and every task log at every index of a task of `m`,
* on every worker / facility / component / workplace field and on the critical path length
  (as functions: at every index),
* on every worker / facility / team / workplace / component log and the two cost logs,
* on clock, status, mode, stored absence list and auto-task flag.
(Each clause is also a `simp` lemma `Bwd.bwdStart_…` of Lemmas/BwdStart.) -/
theorem bwdStart_frame (m : Model) (due : Bool) (s : St) :
    (∀ t, t < m.nT →
      (bwdStart m due s).live.tstate t = s.live.tstate t ∧
      (bwdStart m due s).live.rem t = s.live.rem t ∧
      (bwdStart m due s).live.est t = s.live.est t ∧
      (bwdStart m due s).live.eft t = s.live.eft t ∧
      (bwdStart m due s).live.lst t = s.live.lst t ∧
      (bwdStart m due s).live.lft t = s.live.lft t ∧
      (bwdStart m due s).live.allocW t = s.live.allocW t ∧
      (bwdStart m due s).live.allocF t = s.live.allocF t ∧
      (bwdStart m due s).logs.tState t = s.logs.tState t ∧
      (bwdStart m due s).logs.tRem t = s.logs.tRem t ∧
      (bwdStart m due s).logs.tAllocW t = s.logs.tAllocW t ∧
      (bwdStart m due s).logs.tAllocF t = s.logs.tAllocF t) ∧
    ((bwdStart m due s).live.cpl = s.live.cpl ∧
      (bwdStart m due s).live.wstate = s.live.wstate ∧
      (bwdStart m due s).live.wasg = s.live.wasg ∧
      (bwdStart m due s).live.fstate = s.live.fstate ∧
      (bwdStart m due s).live.fasg = s.live.fasg ∧
      (bwdStart m due s).live.cstate = s.live.cstate ∧
      (bwdStart m due s).live.placed = s.live.placed ∧
      (bwdStart m due s).live.wpComps = s.live.wpComps) ∧
    ((bwdStart m due s).logs.wState = s.logs.wState ∧
      (bwdStart m due s).logs.wCost = s.logs.wCost ∧
      (bwdStart m due s).logs.wAsg = s.logs.wAsg ∧
      (bwdStart m due s).logs.fState = s.logs.fState ∧
      (bwdStart m due s).logs.fCost = s.logs.fCost ∧
      (bwdStart m due s).logs.fAsg = s.logs.fAsg ∧
      (bwdStart m due s).logs.teamCost = s.logs.teamCost ∧
      (bwdStart m due s).logs.wpCost = s.logs.wpCost ∧
      (bwdStart m due s).logs.wpPlaced = s.logs.wpPlaced ∧
      (bwdStart m due s).logs.orgCost = s.logs.orgCost ∧
      (bwdStart m due s).logs.projCost = s.logs.projCost ∧
      (bwdStart m due s).logs.cState = s.logs.cState ∧
      (bwdStart m due s).logs.cPlaced = s.logs.cPlaced) ∧
    ((bwdStart m due s).time = s.time ∧ (bwdStart m due s).status = s.status ∧
      (bwdStart m due s).mode = s.mode ∧ (bwdStart m due s).absence = s.absence ∧
      (bwdStart m due s).autoFlag = s.autoFlag) := by
  refine ⟨fun t ht => ?_, ?_, ?_, ?_⟩
  · simp [ht]
  · simp
  · simp
  · simp

/-- **C17 (the helper slots of the start state).**  At every task index that is not a task of
`m`, `bwdStart m due s` carries the values a freshly constructed task has: state NONE, remaining
work = the (helper) task's work amount × (1 − progress), `est = eft = 0`, `lst = lft = −1`,
nothing allocated, empty logs — whatever `s` says there. -/
theorem bwdStart_helper_slots (m : Model) (due : Bool) (s : St) (t : Nat) (ht : m.nT ≤ t) :
    (bwdStart m due s).live.tstate t = .none ∧
    (bwdStart m due s).live.rem t =
      ((backwardModel m due).task t).work * (1 - ((backwardModel m due).task t).prog) ∧
    (bwdStart m due s).live.est t = 0 ∧ (bwdStart m due s).live.eft t = 0 ∧
    (bwdStart m due s).live.lst t = -1 ∧ (bwdStart m due s).live.lft t = -1 ∧
    (bwdStart m due s).live.allocW t = [] ∧ (bwdStart m due s).live.allocF t = [] ∧
    (bwdStart m due s).logs.tState t = [] ∧ (bwdStart m due s).logs.tRem t = [] ∧
    (bwdStart m due s).logs.tAllocW t = [] ∧ (bwdStart m due s).logs.tAllocF t = [] := by
  simp [ht]

/-- on `exB` with the dirty state `sJ`: the real task 0 keeps its WORKING state and its worker,
worker 1 keeps its assignment; the helper slot 3 is reset -/
example : (0 : Nat) < exB.nT ∧ exB.nT ≤ 3 ∧
    (bwdStart exB true sJ).live.tstate 0 = .working ∧ (bwdStart exB true sJ).live.allocW 0 = [1] ∧
    (bwdStart exB true sJ).live.wasg 1 = [0] ∧
    (bwdStart exB true sJ).live.tstate 3 = .none ∧ sJ.live.tstate 3 = .finished ∧
    (bwdStart exB true sJ).live.lft 3 = -1 ∧ sJ.live.lft 3 = 9 ∧
    (bwdStart exB true sJ).live.allocW 3 = [] ∧ sJ.live.allocW 3 = [0] := by
  decide +kernel

/-- `bwdStart` applied twice is `bwdStart` applied once -/
theorem bwdStart_bwdStart (m : Model) (due : Bool) (s : St) :
    bwdStart m due (bwdStart m due s) = bwdStart m due s := bwdStart_idem m due s

/-! ### (3) alignment of the start state -/

/-- **C17 (alignment of the start state, slots of `m`).**  For any `due`: the logs of the
objects of `m` are aligned in `bwdStart m due s` exactly when they are in `s` (`Aligned m` only
speaks about indices below the sizes of `m`, where `bwdStart` changes nothing). -/
theorem bwdStart_aligned_iff (m : Model) (due : Bool) (s : St) :
    Aligned m (bwdStart m due s) ↔ Aligned m s :=
  ⟨aligned_of_bwdStart due (Nat.le_refl _), aligned_bwdStart due (Nat.le_refl _)⟩

/-- the number of tasks of the inner run's model: one more per helper target -/
theorem C17_backwardModel_nT (m : Model) (due : Bool) :
    (backwardModel m due).nT = m.nT + (if due then (helperTargets (revDeps m)).length else 0) :=
  backwardModel_nT m due

/-- no helper is added when due times are not considered, or when no reversed head has a due
time below the maximum -/
theorem C17_no_helpers (m : Model) (due : Bool)
    (h : due = false ∨ helperTargets (revDeps m) = []) : (backwardModel m due).nT = m.nT := by
  rcases h with h | h
  · subst h; rfl
  · exact backwardModel_nT_of_no_targets m due h

/-- a model whose two tails have the same due time gets no helper even with `due = true` -/
example : helperTargets (revDeps { exB with task := fun t => { exB.task t with due := 5 } }) = [] ∧
    helperTargets (revDeps exB) ≠ [] := by decide +kernel

/-- **C17 (alignment of the start state, no helpers).**  When the inner run's model has no
helper task (`(backwardModel m due).nT = m.nT`: see `C17_no_helpers`), the hypothesis of
`C17_aligned` about the start state is just alignment of the project: `bwdStart m due s` is
aligned w.r.t. the inner model iff `s` is, iff `s` is aligned w.r.t. `m`. -/
theorem bwdStart_no_helpers (m : Model) (due : Bool) (s : St)
    (hn : (backwardModel m due).nT = m.nT) :
    (Aligned (backwardModel m due) (bwdStart m due s) ↔ Aligned (backwardModel m due) s) ∧
    (Aligned (backwardModel m due) s ↔ Aligned m s) := by
  have E := Extends.backwardModel m due
  refine ⟨⟨aligned_of_bwdStart due (Nat.le_of_eq hn), aligned_bwdStart due (Nat.le_of_eq hn)⟩,
    ⟨fun h => Aligned.of_sizes h hn.symm E.nW.symm E.nF.symm E.nTeam.symm E.nWp.symm E.nC.symm,
     fun h => Aligned.of_sizes h hn E.nW E.nF E.nTeam E.nWp E.nC⟩⟩

/-- the two equivalences composed: what `C17_aligned` asks for, in terms of `m` and `s` -/
theorem bwdStart_no_helpers_iff (m : Model) (due : Bool) (s : St)
    (hn : (backwardModel m due).nT = m.nT) :
    Aligned (backwardModel m due) (bwdStart m due s) ↔ Aligned m s :=
  (bwdStart_no_helpers m due s hn).1.trans (bwdStart_no_helpers m due s hn).2

/-- `s2` (two steps of a forward run) is aligned at clock 2; the backward model without due
times has no helper; with due times it has one and then the start state is NOT aligned w.r.t.
the inner model (the helper's fresh logs are empty, the clock says 2) -/
example : Aligned exB s2 ∧ s2.time = 2 ∧ (backwardModel exB false).nT = exB.nT ∧
    Aligned (backwardModel exB false) (bwdStart exB false s2) ∧
    (backwardModel exB true).nT ≠ exB.nT ∧
    ¬ Aligned (backwardModel exB true) (bwdStart exB true s2) := by
  decide +kernel

/-- **C17 (one entry per step, without due times).**  `backward_simulate` without
`considering_due_time_of_tail_tasks`, with any init flags and with or without reversing the
logs, keeps the logs of an aligned project aligned.  (Derived from `C17_aligned` through
`bwdStart_no_helpers`.) -/
theorem C17_aligned_of_aligned (m : Model) (p : Params) (rev : Bool) (s : St) (h : Aligned m s) :
    Aligned m (backwardSimulate m p false rev s) :=
  C17_aligned m p false rev s (Or.inr ((bwdStart_no_helpers_iff m false s rfl).mpr h))

/-- the same for any `due` when no helper is added -/
theorem C17_aligned_no_helpers (m : Model) (p : Params) (due rev : Bool) (s : St)
    (hn : (backwardModel m due).nT = m.nT) (h : Aligned m s) :
    Aligned m (backwardSimulate m p due rev s) :=
  C17_aligned m p due rev s (Or.inr ((bwdStart_no_helpers_iff m due s hn).mpr h))

/-- a backward run without due times on top of the two forward steps of `s2`, logs kept: the
clock goes on from 2 to 5 and every log has 5 entries -/
example : Aligned exB s2 ∧ pKeep.initLog = false ∧
    (backwardSimulate exB pKeep false true s2).time = 5 ∧
    ((backwardSimulate exB pKeep false true s2).logs.tState 0).length = 5 ∧
    Aligned exB (backwardSimulate exB pKeep false true s2) := by
  decide +kernel

/-! ### (4) alignment, any `due`, any flags -/

/-- **C17 (one entry per step, general).**  For ANY choice of `due`, of the init flags and of
`rev`: if the backward run clears the logs, or the logs of the objects of `m` were aligned
before, then after `backward_simulate` every log of every task, worker, facility, team,
workplace and component of `m`, and the two cost logs, have exactly `project.time` entries.

Nothing is assumed about the helper slots: each step of the inner run appends one entry to
every log of the inner model — in particular to every log at an index of `m` — so alignment of
the slots of `m` is an invariant of the inner loop on its own (`Bwd.aligned_sub_run`); the
helpers' logs (which after a run with `init_log = False` from a clock `> 0` are shorter than
the clock) belong to objects that no longer exist.  This subsumes `C17_aligned`: its hypothesis
`Aligned (backwardModel m due) (bwdStart m due s)` implies `Aligned m s`. -/
theorem C17_aligned_general (m : Model) (p : Params) (due rev : Bool) (s : St)
    (h : p.initLog = true ∨ Aligned m s) : Aligned m (backwardSimulate m p due rev s) := by
  have h0 : p.initLog = true ∨ Aligned m (bwdStart m due s) :=
    h.imp id (aligned_bwdStart due (Nat.le_refl _))
  have h2 : Aligned m (simulate (backwardModel m due) p (bwdStart m due s)) :=
    aligned_sub_run (SizesLE.backwardModel m due) _ h0
  have h3 : Aligned m { simulate (backwardModel m due) p (bwdStart m due s) with mode := .backward } :=
    C08_aligned_mode _ _ h2
  unfold backwardSimulate
  cases rev
  · exact h3
  · exact Bwd.Aligned.reverseLogs h3

/-- the form asked for: an aligned project stays aligned, whatever the arguments -/
theorem C17_aligned_any (m : Model) (p : Params) (due rev : Bool) (s : St) (h : Aligned m s) :
    Aligned m (backwardSimulate m p due rev s) :=
  C17_aligned_general m p due rev s (Or.inr h)

/-- the hypothesis of `C17_aligned` is stronger than that of `C17_aligned_general` -/
theorem C17_aligned_hyp_weaker (m : Model) (due : Bool) (s : St)
    (h : Aligned (backwardModel m due) (bwdStart m due s)) : Aligned m s := by
  have E := Extends.backwardModel m due
  exact (bwdStart_aligned_iff m due s).mp (Aligned.shrink h E.nT E.nW E.nF E.nTeam E.nWp E.nC)

/-- the case `C17_aligned` does not cover: `due = true` (one helper), `init_log = False`, an
aligned project whose clock is 2.  The start state is not aligned w.r.t. the inner model, and
neither is the result (the helper's log has the 4 entries of this run, the clock says 6) — but
the logs of the three real tasks, the two workers, the team, the workplaces and the cost logs
all have 6 entries, reversed or not. -/
example : Aligned exB s2 ∧ s2.time = 2 ∧ pKeep.initLog = false ∧
    ¬ Aligned (backwardModel exB true) (bwdStart exB true s2) ∧
    (backwardSimulate exB pKeep true false s2).time = 6 ∧
    ((backwardSimulate exB pKeep true false s2).logs.tState 3).length = 4 ∧
    ¬ Aligned (backwardModel exB true) (backwardSimulate exB pKeep true false s2) ∧
    Aligned exB (backwardSimulate exB pKeep true false s2) ∧
    Aligned exB (backwardSimulate exB pKeep true true s2) := by
  decide +kernel

end PDesy

#print axioms PDesy.bwdStart_irrelevant
#print axioms PDesy.C17_backward_eq_old
#print axioms PDesy.C17_backward_eq_old'
#print axioms PDesy.C17_backward_indep
#print axioms PDesy.C17_time_old
#print axioms PDesy.C17_reversed_log_old
#print axioms PDesy.C17_backward_row_old
#print axioms PDesy.C17_backward_persist_old
#print axioms PDesy.C17_backward_order_old
#print axioms PDesy.bwdStart_frame
#print axioms PDesy.bwdStart_helper_slots
#print axioms PDesy.bwdStart_bwdStart
#print axioms PDesy.bwdStart_aligned_iff
#print axioms PDesy.C17_backwardModel_nT
#print axioms PDesy.C17_no_helpers
#print axioms PDesy.bwdStart_no_helpers
#print axioms PDesy.bwdStart_no_helpers_iff
#print axioms PDesy.C17_aligned_of_aligned
#print axioms PDesy.C17_aligned_no_helpers
#print axioms PDesy.C17_aligned_general
#print axioms PDesy.C17_aligned_any
#print axioms PDesy.C17_aligned_hyp_weaker
