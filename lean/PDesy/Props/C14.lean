/-
  PDesy.Props.C14 — "A component's state is determined by the states of its tasks."

  `CompInv m l` (Lemmas/Defs): for every component `c < m.nC`
    * `l.cstate c = FINISHED` exactly when all tasks of `c` are FINISHED (vacuously so for a
      component without tasks);
    * if some task of `c` is WORKING then `c` is WORKING;
    * if some task of `c` is READY or WORKING then `c` is not NONE.
  `CompInv` is inductive at the `updated` and `ticked` boundaries on its own; inside a phase
  sequence only its "FINISHED ⇒ all tasks FINISHED" half (`CompWeak`) is carried, which is
  what `compCheck` needs to re-establish the whole.  No well-formedness assumption on the
  model is needed.
-/
import PDesy.Lemmas.Lifecycle

namespace PDesy
open Lifecycle

/-! ### facts about the small concrete model `Lifecycle.exM` used by the `example`s -/

namespace C14Ex

/-- component 0 (tasks FINISHED, WORKING, READY) is WORKING; the empty component 1 is FINISHED -/
theorem exSt_comp : CompInv exM exSt.live := by
  unfold CompInv
  decide +kernel

/-- the invariant rejects a wrong state: component 0 NONE while one of its tasks is WORKING -/
example : ¬ CompInv exM { exSt.live with cstate := fun _ => .none } := by
  unfold CompInv
  decide +kernel

end C14Ex

/-! ### `product.check_state` -/

/-- **C14 (`check_state` re-establishes the invariant).** If the invariant held in `l0` and
`l` differs from `l0` only by task states that moved forward (component states untouched),
then after `product.check_state` the invariant holds again. -/
theorem C14_compCheck (m : Model) (l0 l : Live) (h : CompInv m l0)
    (hm : Mono l0.tstate l.tstate) (hc : l.cstate = l0.cstate) : CompInv m (compCheck m l) :=
  CompInv_compCheck m h hm hc

example : CompInv exM exSt.live ∧
    Mono exSt.live.tstate (chkWorking exM exSt.live).tstate ∧
    (chkWorking exM exSt.live).cstate = exSt.live.cstate :=
  ⟨C14Ex.exSt_comp, chkWorking_mono _ _, chkWorking_cstate _ _⟩

/-- **C14 (component initialisation).** `product.initialize` followed by `check_state`
establishes the invariant whatever the state before. -/
theorem C14_initComps (m : Model) (l : Live) : CompInv m (initComps m l) :=
  CompInv_initComps m l

/-- **C14 (frame).** The phases between a `product.check_state` and the next change of task
states touch neither task nor component states (`cost` and `record` return logs only, so they
cannot); `check_state(FINISHED / READY / WORKING)` do not touch component states. -/
theorem C14_frame (m : Model) (l : Live) (time : Nat) (w a : Bool) (lg : Logs) (rule : TaskRule) :
    ((chkRemove m l).tstate = l.tstate ∧ (chkRemove m l).cstate = l.cstate) ∧
    ((pert m time l).tstate = l.tstate ∧ (pert m time l).cstate = l.cstate) ∧
    ((absenceSet m time w l).tstate = l.tstate ∧ (absenceSet m time w l).cstate = l.cstate) ∧
    ((allocate m lg rule l).tstate = l.tstate ∧ (allocate m lg rule l).cstate = l.cstate) ∧
    ((perform m w a l).tstate = l.tstate ∧ (perform m w a l).cstate = l.cstate) ∧
    (chkFinished m l).cstate = l.cstate ∧ (chkReady m l).cstate = l.cstate ∧
    (chkWorking m l).cstate = l.cstate ∧ (compCheck m l).tstate = l.tstate := by
  simp

/-! ### along the run -/

/-- **C14 (start of a run).** The state a forward `simulate` with `initState = true` enters
its loop from satisfies the invariant. -/
theorem C14_init (m : Model) (p : Params) (s : St) (h : p.initState = true) :
    CompInv m (enter m p s).live := by
  rw [enter_live, h]; exact CompInv_initProject m p.initLog s

example : ({ absence := [1] } : Params).initState = true := rfl

/-- **C14 (every recorded step).** If the invariant holds in the state the loop starts from,
then at the end of every executed step every component is FINISHED exactly when all its tasks
are, WORKING when one of its tasks is, and not NONE when one of its tasks is READY or WORKING. -/
theorem C14_trace (m : Model) (p : Params) (s : St) (h : CompInv m s.live) :
    ∀ fuel, ∀ s' ∈ trace m p fuel s, CompInv m s'.live := fun fuel =>
  trace_inv m p (fun s => CompInv m s.live) (fun s hs => CompInv_update m s.time s.live hs)
    (fun s hs _ => CompInv_stepBody m p s hs) fuel s h

example : CompInv exM exSt.live := C14Ex.exSt_comp

/-- **C14 (after every `__update`).** The same at the `updated` boundary of every iteration. -/
theorem C14_updTrace (m : Model) (p : Params) (s : St) (h : CompInv m s.live) :
    ∀ fuel, ∀ s' ∈ updTrace m p fuel s, CompInv m s'.live := fun fuel =>
  updTrace_inv m p (fun s => CompInv m s.live) (fun s hs => CompInv_update m s.time s.live hs)
    (fun s hs _ => CompInv_stepBody m p s hs) fuel s h

example : CompInv exM exSt.live := C14Ex.exSt_comp

/-- the final state of the loop -/
theorem C14_loop (m : Model) (p : Params) (s : St) (h : CompInv m s.live) (fuel : Nat) :
    CompInv m (loop m p fuel s).live :=
  loop_inv m p (fun s => CompInv m s.live) (fun s hs => CompInv_update m s.time s.live hs)
    (fun s hs _ => CompInv_stepBody m p s hs) (fun _ _ hs => hs) fuel s h

/-- **C14 (whole forward run).** In `simulate m p s` with `initState = true` the invariant
holds at the end of every executed step and after every `__update`. -/
theorem C14_run (m : Model) (p : Params) (s : St) (h : p.initState = true) :
    (∀ s' ∈ runTrace m p s, CompInv m s'.live) ∧ (∀ s' ∈ runUpdTrace m p s, CompInv m s'.live) :=
  ⟨C14_trace m p _ (C14_init m p s h) _, C14_updTrace m p _ (C14_init m p s h) _⟩

example : ({ absence := [1] } : Params).initState = true := rfl

/-- **C14 (final state).** The state `simulate` returns satisfies the invariant. -/
theorem C14_final (m : Model) (p : Params) (s : St) (h : p.initState = true) :
    CompInv m (simulate m p s).live := by
  rw [simulate_eq]; exact C14_loop m p _ (C14_init m p s h) _

example : ({ absence := [1] } : Params).initState = true := rfl

/-- the run of the example model has recorded steps, and ends with both components FINISHED -/
example : (runTrace exM {} St.fresh).length = 4 ∧
    (simulate exM {} St.fresh).live.cstate 0 = .finished ∧
    (simulate exM {} St.fresh).live.cstate 1 = .finished := by
  decide +kernel

/-! ### FINISHED is absorbing, NONE is never re-entered -/

/-- `b` is not behind `a` for components: FINISHED stays FINISHED, non-NONE stays non-NONE -/
def CompForward (m : Model) (a b : St) : Prop :=
  ∀ c, c < m.nC →
    (a.live.cstate c = .finished → b.live.cstate c = .finished) ∧
    (a.live.cstate c ≠ .none → b.live.cstate c ≠ .none)

/-- **C14 (absorbing).** Given the invariant in the start state, between the start state and
any recorded step, and between any earlier and any later recorded step, a component that was
FINISHED is still FINISHED and a component that was not NONE is still not NONE. -/
theorem C14_absorbing (m : Model) (p : Params) (fuel : Nat) (s : St) (h : CompInv m s.live) :
    List.Pairwise (CompForward m) (s :: trace m p fuel s) := by
  refine trace_pairwise m p (CompForward m) (fun s => CompInv m s.live) ?_ ?_ ?_ fuel s h
  · intro a b c hab hbc k hk
    exact ⟨fun hf => (hbc k hk).1 ((hab k hk).1 hf), fun hn => (hbc k hk).2 ((hab k hk).2 hn)⟩
  · intro s hs
    have hu : CompInv m (updated m s).live := CompInv_update m s.time s.live hs
    refine ⟨hu, fun c hc => ⟨?_, ?_⟩⟩
    · exact CompInv_fin_absorb m hs hu (updated_mono m s) c hc
    · exact update_noBack m s.time s.live c
  · intro s hs
    have hu : CompInv m (stepBody m p s).live := CompInv_stepBody m p s hs
    refine ⟨hu, fun c hc => ⟨?_, ?_⟩⟩
    · exact CompInv_fin_absorb m hs hu (stepBody_mono m p s) c hc
    · exact stepBody_noBack m p s c

example : CompInv exM exSt.live := C14Ex.exSt_comp

/-- **C14 (absorbing, whole run).** In `simulate m p s` with `initState = true`: pairwise along
the entered state followed by the recorded steps, and from the entered state to the returned
state. -/
theorem C14_absorbing_run (m : Model) (p : Params) (s : St) (h : p.initState = true) :
    List.Pairwise (CompForward m) (enter m p s :: runTrace m p s) ∧
    CompForward m (enter m p s) (simulate m p s) := by
  refine ⟨C14_absorbing m p _ _ (C14_init m p s h), ?_⟩
  rw [simulate_eq]
  have hinv := C14_init m p s h
  have key := loop_inv m p
    (fun s' => CompInv m s'.live ∧ Mono (enter m p s).live.tstate s'.live.tstate ∧
      CNoBack (enter m p s).live.cstate s'.live.cstate)
    (fun s' hs => ⟨CompInv_update m s'.time s'.live hs.1, Mono.trans hs.2.1 (updated_mono m s'),
      fun c hn => update_noBack m s'.time s'.live c (hs.2.2 c hn)⟩)
    (fun s' hs _ => ⟨CompInv_stepBody m p s' hs.1, Mono.trans hs.2.1 (stepBody_mono m p s'),
      fun c hn => stepBody_noBack m p s' c (hs.2.2 c hn)⟩)
    (fun _ _ hs => hs) (fuelOf p (enter m p s)) (enter m p s)
    ⟨hinv, Mono.refl _, fun _ hn => hn⟩
  intro c hc
  exact ⟨CompInv_fin_absorb m hinv key.1 key.2.1 c hc, key.2.2 c⟩

example : ({ absence := [1] } : Params).initState = true := rfl

end PDesy

#print axioms PDesy.C14_compCheck
#print axioms PDesy.C14_initComps
#print axioms PDesy.C14_frame
#print axioms PDesy.C14_init
#print axioms PDesy.C14_trace
#print axioms PDesy.C14_updTrace
#print axioms PDesy.C14_loop
#print axioms PDesy.C14_run
#print axioms PDesy.C14_final
#print axioms PDesy.C14_absorbing
#print axioms PDesy.C14_absorbing_run
