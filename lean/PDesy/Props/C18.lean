/-
  PDesy.Props.C18 — "Editing absence steps out of or into finished logs keeps all logs aligned".

  `removeAbs` / `insertAbs` / `reverseLogs` (Model/LogEdit) mirror
  `remove_absence_time_list()` / `insert_absence_time_list(L)` / `reverse_log_information()` of
  the project and of every class below it.

  * `Aligned m s` (Lemmas/Defs): each of the 17 per-step logs of `s`, for every object index
    below the model's sizes, has exactly `s.time` entries.
  * `remSteps s`: the steps `remove_absence_time_list` pops (`sorted(set(absence))` below the
    log length);  `insList L s`: the steps `insert_absence_time_list(L)` really inserts
    (requested, not yet absence steps, duplicates dropped, ascending, and inside the growing log).

  Totality ("complete without error").  The model functions are total, so termination without
  an exception is by construction.  The only thing the Python could trip over is an index:
  `list.pop(i)` with `i ≥ len` raises, `log[i - 1]` / `log[i]` with a bad index raises.  The model
  guards every `pop`/`insert` by `step < len(guard log)` exactly like the code; the theorems
  below show that for `Aligned` states the guard log and the edited log always have the same
  length, so every guarded `delAt` index is in range (`C18_remove_in_range`: all the steps of
  `remSteps` are popped, none is skipped, each at an index below the current length) and every
  `copyPrev`/`mkState` read at an accepted step `k` has `k < len` (`Edit.insFold_spec`).
-/
import PDesy.Lemmas.Edit

namespace PDesy
open PDesy.Edit

variable {m : Model}

/-- the steps `remove_absence_time_list()` pops from every log -/
def remSteps (s : St) : List Nat := stepsBelow s.logs.projCost.length s.absence

/-- the steps `insert_absence_time_list(L)` inserts into every log -/
def insList (L : List Nat) (s : St) : List Nat := insOf s.absence L s.logs.projCost.length

/-- every in-range log of `big` has exactly `d` entries more than the same log of `small` -/
structure LenDiff (m : Model) (small big : Logs) (d : Nat) : Prop where
  tState : ∀ t, t < m.nT → (big.tState t).length = (small.tState t).length + d
  tRem : ∀ t, t < m.nT → (big.tRem t).length = (small.tRem t).length + d
  tAllocW : ∀ t, t < m.nT → (big.tAllocW t).length = (small.tAllocW t).length + d
  tAllocF : ∀ t, t < m.nT → (big.tAllocF t).length = (small.tAllocF t).length + d
  wState : ∀ w, w < m.nW → (big.wState w).length = (small.wState w).length + d
  wCost : ∀ w, w < m.nW → (big.wCost w).length = (small.wCost w).length + d
  wAsg : ∀ w, w < m.nW → (big.wAsg w).length = (small.wAsg w).length + d
  fState : ∀ f, f < m.nF → (big.fState f).length = (small.fState f).length + d
  fCost : ∀ f, f < m.nF → (big.fCost f).length = (small.fCost f).length + d
  fAsg : ∀ f, f < m.nF → (big.fAsg f).length = (small.fAsg f).length + d
  teamCost : ∀ a, a < m.nTeam → (big.teamCost a).length = (small.teamCost a).length + d
  wpCost : ∀ q, q < m.nWp → (big.wpCost q).length = (small.wpCost q).length + d
  wpPlaced : ∀ q, q < m.nWp → (big.wpPlaced q).length = (small.wpPlaced q).length + d
  orgCost : big.orgCost.length = small.orgCost.length + d
  projCost : big.projCost.length = small.projCost.length + d
  cState : ∀ c, c < m.nC → (big.cState c).length = (small.cState c).length + d
  cPlaced : ∀ c, c < m.nC → (big.cPlaced c).length = (small.cPlaced c).length + d

/-- two aligned states whose clocks differ by `d` have all logs differing by `d` entries -/
theorem LenDiff.of_aligned {s s' : St} {d : Nat} (h : Aligned m s) (h' : Aligned m s')
    (ht : s'.time = s.time + d) : LenDiff m s.logs s'.logs d := by
  obtain ⟨h1, h2, h3, h4, h5, h6, h7, h8, h9, h10, h11, h12, h13, h14, h15, h16, h17⟩ := h
  obtain ⟨g1, g2, g3, g4, g5, g6, g7, g8, g9, g10, g11, g12, g13, g14, g15, g16, g17⟩ := h'
  constructor <;> (try intro x hx) <;> simp [*]

/-! ### a small concrete aligned state (premises are satisfiable) -/

/-- one object of every kind -/
def c18M : Model where
  nT := 1
  nW := 1
  nF := 1
  nTeam := 1
  nWp := 1
  nC := 1
  task := fun _ => { work := 2 }
  worker := fun _ => {}
  fac := fun _ => {}
  team := fun _ => {}
  wp := fun _ => {}
  comp := fun _ => {}

/-- three recorded steps, no absence step -/
def c18S : St :=
  { St.fresh with
    time := 3
    logs :=
      { tState := fun _ => [.ready, .working, .finished]
        tRem := fun _ => [2, 1, 0]
        tAllocW := fun _ => [[], [0], [0]]
        tAllocF := fun _ => [[], [], []]
        wState := fun _ => [.free, .working, .working]
        wCost := fun _ => [0, 5, 5]
        wAsg := fun _ => [[], [0], [0]]
        fState := fun _ => [.free, .free, .free]
        fCost := fun _ => [0, 0, 0]
        fAsg := fun _ => [[], [], []]
        teamCost := fun _ => [0, 5, 5]
        wpCost := fun _ => [0, 0, 0]
        wpPlaced := fun _ => [[], [0], [0]]
        orgCost := [0, 5, 5]
        projCost := [0, 5, 5]
        cState := fun _ => [.ready, .working, .finished]
        cPlaced := fun _ => [Option.none, some 0, some 0] } }

theorem c18S_aligned : Aligned c18M c18S := by
  constructor <;> intros <;> rfl

/-! ### 1. remove -/

/-- **C18, remove.**  `remove_absence_time_list()` on an aligned project gives an aligned
project: all 17 logs of every object again have `project.time` entries. -/
theorem C18_remove_aligned {s : St} (h : Aligned m s) : Aligned m (removeAbs m s) := by
  obtain ⟨h1, h2, h3, h4, h5, h6, h7, h8, h9, h10, h11, h12, h13, h14, h15, h16, h17⟩ := h
  constructor <;> (try intro x hx) <;> simp only [removeAbs, removeLogs, *, if_true] <;>
    apply length_popBy_stepsBelow <;> simp [*]

/-- The amount: `project.time` is reduced by the number `d` of popped steps (`d ≤ time`, so the
subtraction is a real one), the absence list is emptied, nothing else changes. -/
theorem C18_remove_time {s : St} (h : Aligned m s) :
    (removeAbs m s).time + (remSteps s).length = s.time ∧
    (removeAbs m s).absence = [] ∧
    (removeAbs m s).live = s.live ∧ (removeAbs m s).status = s.status ∧
    (removeAbs m s).mode = s.mode ∧ (removeAbs m s).autoFlag = s.autoFlag := by
  refine ⟨?_, rfl, rfl, rfl, rfl, rfl⟩
  have := length_stepsBelow_le s.logs.projCost.length s.absence
  rw [h.projCost] at this
  simp only [removeAbs, remSteps, h.projCost] at this ⊢
  omega

/-- The amount, log by log: every log of every in-range object loses exactly
`(remSteps s).length` entries. -/
theorem C18_remove_amount {s : St} (h : Aligned m s) :
    LenDiff m (removeAbs m s).logs s.logs (remSteps s).length :=
  LenDiff.of_aligned (C18_remove_aligned h) h (by have := (C18_remove_time h).1; omega)

/-- The popped steps are exactly the members of `absence_time_list` below the log length,
ascending and without duplicates. -/
theorem C18_remove_steps (s : St) :
    (remSteps s).Pairwise (· < ·) ∧ ∀ k, k ∈ remSteps s ↔ k < s.logs.projCost.length ∧ k ∈ s.absence :=
  ⟨stepsBelow_pairwise _ _, fun _ => mem_stepsBelow⟩

/-- No pop is skipped and no pop is out of range: on a log `log` as long as its guard log, the
guarded loop of `remove_absence_time_list` is the unguarded sequence of `pop(step)`, highest
step first (`Edit.Dec` = every step is below the current guard length = current log length). -/
theorem C18_remove_in_range {α : Type} {s : St} (h : Aligned m s) (log : List α)
    (hl : log.length = s.time) :
    Dec (remSteps s).reverse log.length ∧
    popBy (remSteps s) log.length log = (remSteps s).reverse.foldl delAt log := by
  have hd : Dec (remSteps s).reverse log.length := by
    apply Dec.of_asc _ _ (stepsBelow_pairwise _ _)
    intro d hd
    have := (mem_stepsBelow.1 hd).1
    rw [h.projCost] at this
    omega
  refine ⟨hd, ?_⟩
  rw [popBy, popSteps_eq, foldl_popF _ _ _ hd]

example : Aligned c18M (removeAbs c18M { c18S with absence := [1, 7, 1] }) :=
  C18_remove_aligned (by constructor <;> intros <;> rfl)
example : remSteps { c18S with absence := [1, 7, 1] } = [1] := by decide +kernel
example : (removeAbs c18M { c18S with absence := [1, 7, 1] }).time = 2 ∧
    (removeAbs c18M { c18S with absence := [1, 7, 1] }).logs.projCost = [0, 5] ∧
    (removeAbs c18M { c18S with absence := [1, 7, 1] }).logs.tState 0 = [.ready, .finished] := by
  decide +kernel

/-! ### 2. insert -/

theorem insList_acc {s : St} (h : Aligned m s) (L : List Nat) : Acc (insList L s) s.time := by
  have := insOf_acc s.absence L s.logs.projCost.length
  rw [h.projCost] at this
  unfold insList
  rwa [h.projCost]

/-- **C18, insert.**  `insert_absence_time_list(L)` on an aligned project gives an aligned
project, for every list `L` (step 0, duplicates, steps that are already absence steps, steps
beyond the end of the run). -/
theorem C18_insert_aligned {s : St} (L : List Nat) (h : Aligned m s) :
    Aligned m (insertAbs m L s) := by
  have hacc := insList_acc h L
  obtain ⟨h1, h2, h3, h4, h5, h6, h7, h8, h9, h10, h11, h12, h13, h14, h15, h16, h17⟩ := h
  constructor <;> (try intro x hx) <;>
    (first | simp only [insertAbs, insertLogs, if_pos hx] | simp only [insertAbs, insertLogs]) <;>
    apply length_insSteps' (n := s.time) <;> first | exact hacc | simp [*]

/-- The amount: `project.time` grows by the number of inserted steps, the inserted steps are
appended to `absence_time_list`, nothing else changes. -/
theorem C18_insert_time (L : List Nat) (s : St) :
    (insertAbs m L s).time = s.time + (insList L s).length ∧
    (insertAbs m L s).absence = s.absence ++ insList L s ∧
    (insertAbs m L s).live = s.live ∧ (insertAbs m L s).status = s.status ∧
    (insertAbs m L s).mode = s.mode ∧ (insertAbs m L s).autoFlag = s.autoFlag :=
  ⟨rfl, rfl, rfl, rfl, rfl, rfl⟩

/-- The amount, log by log: every log of every in-range object gains exactly
`(insList L s).length` entries. -/
theorem C18_insert_amount {s : St} (L : List Nat) (h : Aligned m s) :
    LenDiff m s.logs (insertAbs m L s).logs (insList L s).length :=
  LenDiff.of_aligned h (C18_insert_aligned L h) rfl

/-- The inserted steps: ascending, duplicate-free, requested, not absence steps before, and
each a valid index of the new logs; every requested step below the old length that is not an
absence step yet is inserted. -/
theorem C18_insert_steps {s : St} (L : List Nat) (h : Aligned m s) :
    (insList L s).Pairwise (· < ·) ∧ (insList L s).Nodup ∧
    (∀ k ∈ insList L s, k ∈ L ∧ k ∉ s.absence ∧ k < (insertAbs m L s).time) ∧
    (∀ k ∈ L, k ∉ s.absence → k < s.time → k ∈ insList L s) := by
  refine ⟨insOf_pairwise _ _ _, insOf_nodup _ _ _, ?_, ?_⟩
  · intro k hk
    exact ⟨(mem_insOf hk).1, (mem_insOf hk).2, (insList_acc h L).lt k hk⟩
  · intro k hk hn hlt
    exact mem_insOf_of_lt hk hn (by rw [h.projCost]; exact hlt)

example : insList [0, 2, 2, 9] c18S = [0, 2] := by decide +kernel
example : Aligned c18M (insertAbs c18M [0, 2, 2, 9] c18S) := C18_insert_aligned _ c18S_aligned
example : (insertAbs c18M [0, 2, 2, 9] c18S).time = 5 ∧
    (insertAbs c18M [0, 2, 2, 9] c18S).absence = [0, 2] ∧
    (insertAbs c18M [0, 2, 2, 9] c18S).logs.projCost = [0, 0, 0, 5, 5] ∧
    (insertAbs c18M [0, 2, 2, 9] c18S).logs.tState 0 = [.none, .ready, .ready, .working, .finished] ∧
    (insertAbs c18M [0, 2, 2, 9] c18S).logs.tRem 0 = [2, 2, 2, 1, 0] ∧
    (insertAbs c18M [0, 2, 2, 9] c18S).logs.wState 0 = [.free, .free, .free, .working, .working] ∧
    (insertAbs c18M [0, 2, 2, 9] c18S).logs.cPlaced 0 =
      [Option.none, Option.none, Option.none, some 0, some 0] := by
  decide +kernel
/-- a step beyond the end of the run is ignored; a step equal to the current length is too -/
example : insList [3, 9] c18S = [] := by decide +kernel
/-- … but it becomes insertable once the log has grown -/
example : insList [1, 3] c18S = [1, 3] := by decide +kernel

/-! ### 3. any sequence of edits; reversal -/

/-- one call of `remove_absence_time_list()` or `insert_absence_time_list(L)` -/
inductive EditOp
  | remove
  | insert (L : List Nat)

def applyOp (m : Model) (s : St) : EditOp → St
  | .remove => removeAbs m s
  | .insert L => insertAbs m L s

/-- **C18, sequences.**  Any sequence of remove/insert calls with arbitrary index lists keeps
an aligned project aligned. -/
theorem C18_sequence (ops : List EditOp) {s : St} (h : Aligned m s) :
    Aligned m (ops.foldl (applyOp m) s) := by
  induction ops generalizing s with
  | nil => exact h
  | cons op ops ih =>
    rw [List.foldl_cons]
    apply ih
    cases op with
    | remove => exact C18_remove_aligned h
    | insert L => exact C18_insert_aligned L h

example : Aligned c18M ([EditOp.insert [0, 2, 2, 9], .remove, .insert [1], .insert [1, 0]].foldl
    (applyOp c18M) c18S) := C18_sequence _ c18S_aligned

/-- `reverse_log_information()` keeps every log length and the clock: aligned stays aligned. -/
theorem C18_reverse_aligned {s : St} (h : Aligned m s) : Aligned m (reverseLogs m s) := by
  obtain ⟨h1, h2, h3, h4, h5, h6, h7, h8, h9, h10, h11, h12, h13, h14, h15, h16, h17⟩ := h
  constructor <;> (try intro x hx) <;> simp [reverseLogs, *]

example : (reverseLogs c18M c18S).logs.tState 0 = [.finished, .working, .ready] := by
  decide +kernel

/-! ### 4. what is inserted -/

/-- `insert_absence_time_list` inserts, at each accepted step and in ascending order,
`mk step currentLog` at position `step` of the current log (the inductive reading of `insSteps`;
`Edit.Acc` = every step passes its guard `step < len`, the guard growing by one each time). -/
theorem C18_insSteps_cons {α : Type} (mk : Nat → List α → α) (st : Nat) (rest : List Nat)
    (log : List α) (h : Acc (st :: rest) log.length) :
    insSteps (st :: rest) log.length mk log =
      insSteps rest (log.length + 1) mk (insAt log st (mk st log)) := by
  rw [insSteps_eq_insFold _ _ _ _ h, insSteps_eq_insFold _ _ _ _ h.2]
  rfl

example : Acc [0, 2] [10, 20, 30].length := ⟨by decide, by decide, trivial⟩

/-- A single `insert(k, v)` with `k ≤ len`: entries before `k` unchanged, entry `k` is `v`,
entries from `k` on shifted by one. -/
theorem C18_getElem?_insAt {α : Type} (xs : List α) (k : Nat) (v : α) (h : k ≤ xs.length)
    (j : Nat) :
    (insAt xs k v)[j]? = if j < k then xs[j]? else if j = k then some v else xs[j - 1]? :=
  getElem?_insAt xs k v h j

/-- **C18, one inserted step.**  `insert_absence_time_list([k])` for a step `k` inside the run
that is not an absence step yet: every log gets one `insert(k, v)` (so by `C18_getElem?_insAt`
everything before `k` is unchanged and everything from `k` on is shifted by one), with `v` =
0 for the six cost logs, FREE for worker/facility states, a copy of entry `k - 1` for remaining
work, allocations, assignments and placements (the initial remaining work `work·(1 − progress)`,
the empty list, `None` at `k = 0`), and `insStateT/C before after` for task/component states
(`before` = old entry `k - 1`, `after` = old entry `k`; NONE at `k = 0`). -/
theorem C18_insert_one {s : St} {k : Nat} (h : Aligned m s) (hk : k < s.time)
    (hn : k ∉ s.absence) :
    insList [k] s = [k] ∧
    (insertAbs m [k] s).logs.projCost = insAt s.logs.projCost k 0 ∧
    (insertAbs m [k] s).logs.orgCost = insAt s.logs.orgCost k 0 ∧
    (∀ a, a < m.nTeam → (insertAbs m [k] s).logs.teamCost a = insAt (s.logs.teamCost a) k 0) ∧
    (∀ q, q < m.nWp → (insertAbs m [k] s).logs.wpCost q = insAt (s.logs.wpCost q) k 0 ∧
      (insertAbs m [k] s).logs.wpPlaced q =
        insAt (s.logs.wpPlaced q) k (if k = 0 then [] else ((s.logs.wpPlaced q)[k - 1]?).getD [])) ∧
    (∀ w, w < m.nW → (insertAbs m [k] s).logs.wState w = insAt (s.logs.wState w) k .free ∧
      (insertAbs m [k] s).logs.wCost w = insAt (s.logs.wCost w) k 0 ∧
      (insertAbs m [k] s).logs.wAsg w =
        insAt (s.logs.wAsg w) k (if k = 0 then [] else ((s.logs.wAsg w)[k - 1]?).getD [])) ∧
    (∀ f, f < m.nF → (insertAbs m [k] s).logs.fState f = insAt (s.logs.fState f) k .free ∧
      (insertAbs m [k] s).logs.fCost f = insAt (s.logs.fCost f) k 0 ∧
      (insertAbs m [k] s).logs.fAsg f =
        insAt (s.logs.fAsg f) k (if k = 0 then [] else ((s.logs.fAsg f)[k - 1]?).getD [])) ∧
    (∀ t, t < m.nT →
      (insertAbs m [k] s).logs.tState t = insAt (s.logs.tState t) k
        (if k = 0 then .none else
          insStateT (((s.logs.tState t)[k - 1]?).getD .none) (((s.logs.tState t)[k]?).getD .none)) ∧
      (insertAbs m [k] s).logs.tRem t = insAt (s.logs.tRem t) k
        (if k = 0 then (m.task t).work * (1 - (m.task t).prog)
          else ((s.logs.tRem t)[k - 1]?).getD ((m.task t).work * (1 - (m.task t).prog))) ∧
      (insertAbs m [k] s).logs.tAllocW t =
        insAt (s.logs.tAllocW t) k (if k = 0 then [] else ((s.logs.tAllocW t)[k - 1]?).getD []) ∧
      (insertAbs m [k] s).logs.tAllocF t =
        insAt (s.logs.tAllocF t) k (if k = 0 then [] else ((s.logs.tAllocF t)[k - 1]?).getD [])) ∧
    (∀ c, c < m.nC →
      (insertAbs m [k] s).logs.cState c = insAt (s.logs.cState c) k
        (if k = 0 then .none else
          insStateC (((s.logs.cState c)[k - 1]?).getD .none) (((s.logs.cState c)[k]?).getD .none)) ∧
      (insertAbs m [k] s).logs.cPlaced c = insAt (s.logs.cPlaced c) k
        (if k = 0 then Option.none else ((s.logs.cPlaced c)[k - 1]?).getD Option.none)) := by
  have e : insOf s.absence [k] s.logs.projCost.length = [k] :=
    insOf_single _ _ _ hn (by rw [h.projCost]; exact hk)
  have e' : insertable s.logs.projCost.length
      (sortBy (fun a b => decide (a ≤ b)) (newSteps s.absence [k] [])) = [k] := e
  obtain ⟨h1, h2, h3, h4, h5, h6, h7, h8, h9, h10, h11, h12, h13, h14, h15, h16, h17⟩ := h
  refine ⟨e, ?_, ?_, ?_, ?_, ?_, ?_, ?_, ?_⟩
  · simp only [insertAbs, insertLogs, e']; exact insSteps_single _ _ _ _ (by omega)
  · simp only [insertAbs, insertLogs, e']; exact insSteps_single _ _ _ _ (by omega)
  · intro x hx
    simp only [insertAbs, insertLogs, e', if_pos hx]
    exact insSteps_single _ _ _ _ (by rw [h11 x hx]; exact hk)
  · intro x hx
    simp only [insertAbs, insertLogs, e', if_pos hx]
    exact ⟨insSteps_single _ _ _ _ (by rw [h12 x hx]; exact hk),
      insSteps_single _ _ _ _ (by rw [h13 x hx]; exact hk)⟩
  · intro x hx
    simp only [insertAbs, insertLogs, e', if_pos hx]
    exact ⟨insSteps_single _ _ _ _ (by rw [h5 x hx]; exact hk),
      insSteps_single _ _ _ _ (by rw [h5 x hx]; exact hk),
      insSteps_single _ _ _ _ (by rw [h5 x hx]; exact hk)⟩
  · intro x hx
    simp only [insertAbs, insertLogs, e', if_pos hx]
    exact ⟨insSteps_single _ _ _ _ (by rw [h8 x hx]; exact hk),
      insSteps_single _ _ _ _ (by rw [h8 x hx]; exact hk),
      insSteps_single _ _ _ _ (by rw [h8 x hx]; exact hk)⟩
  · intro x hx
    simp only [insertAbs, insertLogs, e', if_pos hx]
    exact ⟨insSteps_single _ _ _ _ (by rw [h1 x hx]; exact hk),
      insSteps_single _ _ _ _ (by rw [h1 x hx]; exact hk),
      insSteps_single _ _ _ _ (by rw [h1 x hx]; exact hk),
      insSteps_single _ _ _ _ (by rw [h1 x hx]; exact hk)⟩
  · intro x hx
    simp only [insertAbs, insertLogs, e', if_pos hx]
    exact ⟨insSteps_single _ _ _ _ (by rw [h16 x hx]; exact hk),
      insSteps_single _ _ _ _ (by rw [h16 x hx]; exact hk)⟩

example : 1 < c18S.time ∧ 1 ∉ c18S.absence := by decide +kernel
example : (insertAbs c18M [1] c18S).logs.tState 0 = [.ready, .ready, .working, .finished] ∧
    (insertAbs c18M [1] c18S).logs.wCost 0 = [0, 0, 5, 5] := by decide +kernel

/-- **C18, inserted steps are no-work, zero-cost steps (whole list).**  For every list `L` and
every step `k` that `insert_absence_time_list(L)` inserts, in the resulting logs: entry `k` of
the project, organization, team, workplace, worker and facility cost logs is 0; entry `k` of
every worker/facility state log is FREE; entry `k` of the remaining-work log of a task is its
entry `k - 1` (no work done; the initial remaining work `work·(1 − progress)` at `k = 0`);
entry `k` of the allocation / assignment / placement logs is their entry `k - 1` (empty / `None`
at `k = 0`). -/
theorem C18_inserted_values {s : St} (L : List Nat) (h : Aligned m s) (k : Nat)
    (hk : k ∈ insList L s) :
    (insertAbs m L s).logs.projCost[k]? = some 0 ∧
    (insertAbs m L s).logs.orgCost[k]? = some 0 ∧
    (∀ a, a < m.nTeam → ((insertAbs m L s).logs.teamCost a)[k]? = some 0) ∧
    (∀ q, q < m.nWp → ((insertAbs m L s).logs.wpCost q)[k]? = some 0 ∧
      ((insertAbs m L s).logs.wpPlaced q)[k]? =
        if k = 0 then some [] else ((insertAbs m L s).logs.wpPlaced q)[k - 1]?) ∧
    (∀ w, w < m.nW → ((insertAbs m L s).logs.wState w)[k]? = some RS.free ∧
      ((insertAbs m L s).logs.wCost w)[k]? = some 0 ∧
      ((insertAbs m L s).logs.wAsg w)[k]? =
        if k = 0 then some [] else ((insertAbs m L s).logs.wAsg w)[k - 1]?) ∧
    (∀ f, f < m.nF → ((insertAbs m L s).logs.fState f)[k]? = some RS.free ∧
      ((insertAbs m L s).logs.fCost f)[k]? = some 0 ∧
      ((insertAbs m L s).logs.fAsg f)[k]? =
        if k = 0 then some [] else ((insertAbs m L s).logs.fAsg f)[k - 1]?) ∧
    (∀ t, t < m.nT →
      ((insertAbs m L s).logs.tRem t)[k]? =
        (if k = 0 then some ((m.task t).work * (1 - (m.task t).prog))
          else ((insertAbs m L s).logs.tRem t)[k - 1]?) ∧
      ((insertAbs m L s).logs.tAllocW t)[k]? =
        (if k = 0 then some [] else ((insertAbs m L s).logs.tAllocW t)[k - 1]?) ∧
      ((insertAbs m L s).logs.tAllocF t)[k]? =
        (if k = 0 then some [] else ((insertAbs m L s).logs.tAllocF t)[k - 1]?)) ∧
    (∀ c, c < m.nC → ((insertAbs m L s).logs.cPlaced c)[k]? =
        if k = 0 then some Option.none else ((insertAbs m L s).logs.cPlaced c)[k - 1]?) := by
  have hacc := insList_acc h L
  have hp : (insList L s).Pairwise (· < ·) := insOf_pairwise _ _ _
  obtain ⟨h1, h2, h3, h4, h5, h6, h7, h8, h9, h10, h11, h12, h13, h14, h15, h16, h17⟩ := h
  refine ⟨?_, ?_, ?_, ?_, ?_, ?_, ?_, ?_⟩
  · exact insSteps_const _ _ _ _ s.time h15 h15 hp hacc k hk
  · exact insSteps_const _ _ _ _ s.time h14 h14 hp hacc k hk
  · intro x hx
    simp only [insertAbs, insertLogs, if_pos hx]
    exact insSteps_const _ _ _ _ s.time (h11 x hx) (h11 x hx) hp hacc k hk
  · intro x hx
    simp only [insertAbs, insertLogs, if_pos hx]
    exact ⟨insSteps_const _ _ _ _ s.time (h12 x hx) (h12 x hx) hp hacc k hk,
      insSteps_copyPrev _ _ _ _ s.time (h13 x hx) (h13 x hx) hp hacc k hk⟩
  · intro x hx
    simp only [insertAbs, insertLogs, if_pos hx]
    exact ⟨insSteps_const _ _ _ _ s.time (h5 x hx) (h5 x hx) hp hacc k hk,
      insSteps_const _ _ _ _ s.time (h5 x hx) (h6 x hx) hp hacc k hk,
      insSteps_copyPrev _ _ _ _ s.time (h5 x hx) (h7 x hx) hp hacc k hk⟩
  · intro x hx
    simp only [insertAbs, insertLogs, if_pos hx]
    exact ⟨insSteps_const _ _ _ _ s.time (h8 x hx) (h8 x hx) hp hacc k hk,
      insSteps_const _ _ _ _ s.time (h8 x hx) (h9 x hx) hp hacc k hk,
      insSteps_copyPrev _ _ _ _ s.time (h8 x hx) (h10 x hx) hp hacc k hk⟩
  · intro x hx
    simp only [insertAbs, insertLogs, if_pos hx]
    exact ⟨insSteps_copyPrev _ _ _ _ s.time (h1 x hx) (h2 x hx) hp hacc k hk,
      insSteps_copyPrev _ _ _ _ s.time (h1 x hx) (h3 x hx) hp hacc k hk,
      insSteps_copyPrev _ _ _ _ s.time (h1 x hx) (h4 x hx) hp hacc k hk⟩
  · intro x hx
    simp only [insertAbs, insertLogs, if_pos hx]
    exact insSteps_copyPrev _ _ _ _ s.time (h16 x hx) (h17 x hx) hp hacc k hk

/-- **C18, inserted task/component states (whole list).**  For every inserted step `k` whose
successor `k + 1` is not inserted in the same call, entry `k` of every task (component) state
log is NONE at `k = 0` and otherwise `insStateT (insStateC) before after`, with `before`/`after`
the entries `k - 1`/`k + 1` of the resulting log.  (When `k + 1` is inserted too, `after` is the
old neighbour that now sits behind the run of inserted steps; `Edit.insFold_spec` gives the
value as `mkStateT k log'` for the log `log'` at the time of the insertion.) -/
theorem C18_inserted_states {s : St} (L : List Nat) (h : Aligned m s) (k : Nat)
    (hk : k ∈ insList L s) (hk1 : k + 1 ∉ insList L s) :
    (∀ t, t < m.nT → ((insertAbs m L s).logs.tState t)[k]? =
      some (if k = 0 then TS.none else
        insStateT ((((insertAbs m L s).logs.tState t)[k - 1]?).getD .none)
          ((((insertAbs m L s).logs.tState t)[k + 1]?).getD .none))) ∧
    (∀ c, c < m.nC → ((insertAbs m L s).logs.cState c)[k]? =
      some (if k = 0 then CS.none else
        insStateC ((((insertAbs m L s).logs.cState c)[k - 1]?).getD .none)
          ((((insertAbs m L s).logs.cState c)[k + 1]?).getD .none))) := by
  have hacc := insList_acc h L
  have hp : (insList L s).Pairwise (· < ·) := insOf_pairwise _ _ _
  constructor
  · intro x hx
    simp only [insertAbs, insertLogs, if_pos hx]
    exact insSteps_mkStateT _ _ hp (by rw [h.tState x hx]; exact hacc) k hk hk1
  · intro x hx
    simp only [insertAbs, insertLogs, if_pos hx]
    exact insSteps_mkStateC _ _ hp (by rw [h.cState x hx]; exact hacc) k hk hk1

example : 2 ∈ insList [0, 2, 2, 9] c18S ∧ 3 ∉ insList [0, 2, 2, 9] c18S := by decide +kernel

/-! ### 5. round trip -/

/-- **C18, round trip.**  Inserting any list of steps into an aligned, absence-free result and
then removing the absence steps gives back the state exactly (all logs of all objects, the
clock, the empty absence list, everything else). -/
theorem C18_insert_remove {s : St} (L : List Nat) (h : Aligned m s) (ha : s.absence = []) :
    removeAbs m (insertAbs m L s) = s := by
  have hacc := insList_acc h L
  have hp : (insList L s).Pairwise (· < ·) := insOf_pairwise _ _ _
  have hlen : (insertAbs m L s).logs.projCost.length = s.time + (insList L s).length := by
    rw [(C18_insert_aligned L h).projCost]; rfl
  have hsteps : stepsBelow (insertAbs m L s).logs.projCost.length (insertAbs m L s).absence
      = insList L s := by
    rw [hlen]
    show stepsBelow _ (s.absence ++ insList L s) = _
    rw [ha, List.nil_append]
    exact stepsBelow_eq_self _ _ hp hacc.lt
  have hlogs := removeLogs_insertLogs h (insList L s) hacc
  rcases s with ⟨live, logs, time, status, mode, absence, autoFlag⟩
  simp only at ha hlogs
  subst ha
  simp only [removeAbs, hsteps]
  show St.mk live (removeLogs m (insList L _) (insertLogs m (insList L _) logs))
    (time + (insList L _).length - (insList L _).length) status mode [] autoFlag = _
  rw [hlogs, Nat.add_sub_cancel]

example : removeAbs c18M (insertAbs c18M [0, 2, 2, 9] c18S) = c18S :=
  C18_insert_remove _ c18S_aligned rfl
example : (removeAbs c18M (insertAbs c18M [0, 2, 2, 9] c18S)).logs.tState 0 =
    [.ready, .working, .finished] ∧
    (removeAbs c18M (insertAbs c18M [0, 2, 2, 9] c18S)).time = 3 := by decide +kernel

/-- The hypothesis `absence = []` of the round trip is needed: with an absence step already
present, `remove` also pops that older step. -/
example : (removeAbs c18M (insertAbs c18M [0] { c18S with absence := [1] })).time = 2 := by
  decide +kernel

end PDesy

#print axioms PDesy.C18_remove_aligned
#print axioms PDesy.C18_remove_time
#print axioms PDesy.C18_remove_amount
#print axioms PDesy.C18_remove_steps
#print axioms PDesy.C18_remove_in_range
#print axioms PDesy.C18_insert_aligned
#print axioms PDesy.C18_insert_time
#print axioms PDesy.C18_insert_amount
#print axioms PDesy.C18_insert_steps
#print axioms PDesy.C18_sequence
#print axioms PDesy.C18_reverse_aligned
#print axioms PDesy.C18_insSteps_cons
#print axioms PDesy.C18_getElem?_insAt
#print axioms PDesy.C18_insert_one
#print axioms PDesy.C18_inserted_values
#print axioms PDesy.C18_inserted_states
#print axioms PDesy.C18_insert_remove
