/-
  PDesy.Props.C06Unplaced — property C06 ("no avoidable waiting"), the "still unplaced" clause
  of the worker–facility-PAIR form.

  `Props/C06Pairs.lean` treats a facility-needing task whose (single-task) component IS placed
  after the allocation pass.  This file treats the remaining case: the component is still NOT
  placed after the pass.  Step 3-1 of the allocation loop (`placeStep`) offers a ready component,
  at the turn of its task `t`, to the workplaces of `t` in the order of the workplace rule, and
  moves it to the first one that passes `placeOk`: conveyor rule (the workplace declares no input
  workplaces, or the component is nowhere, or it sits at one of the inputs), free space at least
  the component's size, positive total facility skill for the task.

    A READY task `t` that is the single task of its component `c`: if `c` is not placed after the
    pass, then NO workplace of `t` passed `placeOk` —
      (1) in the state at `t`'s turn in the loop (`C06_unplaced_turn`), unconditionally;
      (2) in the state after the pass (`C06_unplaced`, `C06_unplaced_obs`), if nothing was moved
          in this pass;
    and the same at the end of a working step (`C06_unplaced_step`, `C06_unplaced_step_obs`) and
    along a run (`C06_unplaced_run`).

  Why "nothing was moved" in (2): the loop is one pass.  A component that a LATER task moves away
  frees its space only after `t`'s turn; that wait is inherent in the one-pass loop and is not
  excluded by the code.  Without the hypothesis (2) is false — `C06UnplacedEx.mX` below, a state
  reached by a run.  "Nothing was moved" comes in two forms:
    * ghost form: `Place.passMoves m lg rule l = []`, the list of the moves executed in the pass
      (it is the `moved` field of the loop accumulator, `Place.foldl_allocTask_moved`);
    * observable form: no component of the model is at a different place after the pass than
      before it.  A pass can also put a component back at the workplace where it already is (the
      test measures free space before the component leaves); such a move changes at most the
      order of that workplace's list, hence no free space — but to know that, the incoming state
      must satisfy the placement invariant `Place.Inv` of C13 and the model must be `PlaceWF`.

  `placeOk` reads, of the live state, only `placed c` and `wpComps p` (through `availSpace`); the
  skill test is static.  Readiness of the component (`isReady`) is a separate test of `placeStep`
  and is a HYPOTHESIS here, in the form: `t` is READY and holds no worker (a READY task that
  already holds a worker counts as working in `is_ready`, so its component is not offered to any
  workplace: example below).  At the end of a working step a READY task never holds a worker, so
  the step-level theorems need no such hypothesis.

  The hypotheses `isAuto = false` and `needFac = true` of the pair form are not needed: step 3-1
  runs for every candidate task, so the clause is proved for every READY task with a component.
-/
import PDesy.Lemmas.Unplaced

namespace PDesy

open Unplaced

/-- **C06, still unplaced, at the task's turn.**  Let `l' = allocate m lg rule l`.  Task `t < nT`
is READY in `l` and holds no worker, its component is `c`, and `c` carries `t` alone (`hlink`:
every task below `nT` that names `c` as its component is listed by `c`; `hsingle`: `c` lists `t`
only).  If `c` is not placed in `l'`, then every workplace `p` of `t` failed the test `placeOk`
(conveyor rule, free space ≥ size, positive facility skill) in `turnState m lg rule l t` — the
live state of the loop when it reached `t` (the fold of `allocTask` over the candidates sorted
before `t`).

Why: no other task targets `c`, so `c` is not in the `moved` list at `t`'s turn and nobody places
`c` after it; the component is ready (task states do not change during the pass and `t` gains
workers only at its own turn); so `placeStep` searched all workplaces of `t` and found none. -/
theorem C06_unplaced_turn (m : Model) (lg : Logs) (rule : TaskRule) (l : Live) (t c : Nat)
    (ht : t < m.nT) (hs : l.tstate t = .ready) (hnoW : l.allocW t = [])
    (hc : (m.task t).comp = some c)
    (hlink : ∀ t', t' < m.nT → (m.task t').comp = some c → t' ∈ (m.comp c).tasks)
    (hsingle : (m.comp c).tasks = [t])
    (hpl : (allocate m lg rule l).placed c = Option.none) :
    ∀ p ∈ (m.task t).wps, placeOk m (turnState m lg rule l t) t c p = false :=
  allocate_unplaced_turn m lg rule l t c ht hs hnoW hc (Pairs.OnlyTask.of_tasks hlink hsingle)
    hsingle hpl

/-- **C06, still unplaced, after the pass — ghost form of "nothing moved".**  As
`C06_unplaced_turn`; in addition no move was executed in this pass (`Place.passMoves … = []`).
Then every workplace `p` of `t` fails `placeOk` in the state AFTER the pass: a ready single-task
component that is still unplaced after a pass in which nothing moved could not enter any of its
task's workplaces.

Why: with no move executed, `placed` and `wpComps` are the same at `t`'s turn and after the pass,
and `placeOk` reads nothing else of the live state. -/
theorem C06_unplaced (m : Model) (lg : Logs) (rule : TaskRule) (l : Live) (t c : Nat)
    (ht : t < m.nT) (hs : l.tstate t = .ready) (hnoW : l.allocW t = [])
    (hc : (m.task t).comp = some c)
    (hlink : ∀ t', t' < m.nT → (m.task t').comp = some c → t' ∈ (m.comp c).tasks)
    (hsingle : (m.comp c).tasks = [t])
    (hpl : (allocate m lg rule l).placed c = Option.none)
    (hnm : Place.passMoves m lg rule l = []) :
    ∀ p ∈ (m.task t).wps, placeOk m (allocate m lg rule l) t c p = false :=
  allocate_unplaced m lg rule l t c ht hs hnoW hc (Pairs.OnlyTask.of_tasks hlink hsingle)
    hsingle hpl hnm

/-- **C06, still unplaced, after the pass — observable form of "nothing moved".**  The model is
well-formed for placement (`PlaceWF`: flat product, non-negative sizes and capacities, consistent
task → component links, which is why `hlink` is not asked for) and the state before the pass
satisfies the placement invariant of C13 (`Place.Inv`).  Task `t < nT` READY without worker, the
single task of its component `c`; `c` is not placed after the pass; and NO component of the model
is at a different place after the pass than before it.  Then every workplace of `t` fails
`placeOk` in the state after the pass. -/
theorem C06_unplaced_obs (m : Model) (wf : Place.PlaceWF m) (lg : Logs) (rule : TaskRule)
    (l : Live) (hinv : Place.Inv m l) (t c : Nat)
    (ht : t < m.nT) (hs : l.tstate t = .ready) (hnoW : l.allocW t = [])
    (hc : (m.task t).comp = some c) (hsingle : (m.comp c).tasks = [t])
    (hpl : (allocate m lg rule l).placed c = Option.none)
    (hsame : ∀ c', c' < m.nC → (allocate m lg rule l).placed c' = l.placed c') :
    ∀ p ∈ (m.task t).wps, placeOk m (allocate m lg rule l) t c p = false :=
  allocate_unplaced_obs m wf lg rule l hinv t c ht hs hnoW hc (Pairs.OnlyTask.of_wf wf hsingle)
    hsingle hpl hsame

/-- **C06, still unplaced, at the end of a working step — ghost form.**  Task `t < nT` is READY at
the end of the step (so it holds no worker: `check_state(WORKING)` starts every READY task that
holds one), the single task of its component `c`, which is not placed at the end of the step; no
move was executed in the step's allocation pass.  Then every workplace of `t` fails `placeOk` in
the state at the end of the step.  No invariant of the incoming state is needed. -/
theorem C06_unplaced_step (m : Model) (p : Params) (s : St)
    (hwork : p.absence.contains s.time = false) (t c : Nat)
    (ht : t < m.nT) (hs : (stepBody m p s).live.tstate t = .ready)
    (hc : (m.task t).comp = some c)
    (hlink : ∀ t', t' < m.nT → (m.task t').comp = some c → t' ∈ (m.comp c).tasks)
    (hsingle : (m.comp c).tasks = [t])
    (hpl : (stepBody m p s).live.placed c = Option.none)
    (hnm : Place.passMoves m s.logs p.rule (absenceSet m s.time true s.live) = []) :
    ∀ q ∈ (m.task t).wps, placeOk m (stepBody m p s).live t c q = false :=
  stepBody_unplaced m p s hwork t c ht hs hc (Pairs.OnlyTask.of_tasks hlink hsingle) hsingle hpl hnm

/-- **C06, still unplaced, at the end of a working step — observable form.**  `PlaceWF` model,
the state the step starts from satisfies the placement invariant; task `t < nT` READY at the end
of the step, the single task of its component `c`, which is not placed at the end of the step; no
component of the model is at a different place at the end of the step than at its start.  Then
every workplace of `t` fails `placeOk` in the state at the end of the step: the component could
not have been taken by any of them. -/
theorem C06_unplaced_step_obs (m : Model) (wf : Place.PlaceWF m) (p : Params) (s : St)
    (hwork : p.absence.contains s.time = false) (hinv : Place.Inv m s.live) (t c : Nat)
    (ht : t < m.nT) (hs : (stepBody m p s).live.tstate t = .ready)
    (hc : (m.task t).comp = some c) (hsingle : (m.comp c).tasks = [t])
    (hpl : (stepBody m p s).live.placed c = Option.none)
    (hsame : ∀ c', c' < m.nC → (stepBody m p s).live.placed c' = s.live.placed c') :
    ∀ q ∈ (m.task t).wps, placeOk m (stepBody m p s).live t c q = false :=
  stepBody_unplaced_obs m wf p s hwork hinv t c ht hs hc (Pairs.OnlyTask.of_wf wf hsingle)
    hsingle hpl hsame

/-- **C06, still unplaced, along a run.**  In `simulate m p s` with `init_state=True`, from ANY
state `s`, for a `PlaceWF` model: every `ticked` state `s'` produced by a working step is the end
of a step started from an `updated` state `u` (the state right after `__update`) such that: a task
`t < nT` READY in `s'`, the single task of its component `c`, `c` not placed in `s'`, no component
of the model at a different place in `s'` than in `u` — then every workplace of `t` fails
`placeOk` in `s'`. -/
theorem C06_unplaced_run (m : Model) (wf : Place.PlaceWF m) (p : Params) (s : St)
    (hp : p.initState = true) :
    ∀ s' ∈ runTrace m p s, workingAt p (s'.time - 1) = true →
      ∃ s0, s' = stepBody m p (updated m s0) ∧
        ∀ t c, t < m.nT → s'.live.tstate t = .ready → (m.task t).comp = some c →
          (m.comp c).tasks = [t] → s'.live.placed c = Option.none →
          (∀ c', c' < m.nC → s'.live.placed c' = (updated m s0).live.placed c') →
          ∀ q ∈ (m.task t).wps, placeOk m s'.live t c q = false := by
  intro s' hs' hwk
  have h0 : Place.Inv m (enter m p s).live := by
    rw [Lifecycle.enter_live, hp]; exact Place.Inv_initProject m wf p.initLog s
  obtain ⟨s0, hinv, _, rfl⟩ := NoWait.trace_mem_stepBody_inv m p (fun s => Place.Inv m s.live)
    (fun s hs => Place.Inv_updated m wf s hs) (fun s hs _ => Place.Inv_stepBody m wf p s hs)
    _ _ h0 s' hs'
  refine ⟨s0, rfl, ?_⟩
  intro t c ht hst hc hsingle hpl hsame
  have htime : (stepBody m p (updated m s0)).time - 1 = (updated m s0).time := by
    rw [Alloc.stepBody_time]; omega
  rw [htime] at hwk
  have hwork : p.absence.contains (updated m s0).time = false := by
    simpa [workingAt] using hwk
  exact C06_unplaced_step_obs m wf p (updated m s0) hwork hinv t c ht hst hc hsingle hpl hsame

namespace C06UnplacedEx

/-- two READY facility-needing tasks, each the single task of its own component (task `i` ↔
component `i`); both components can only be worked on at workplace 0, which has room for one -/
def mU : Model where
  nT := 2
  nW := 2
  nF := 1
  nTeam := 1
  nWp := 1
  nC := 2
  task := fun t => { name := 0, work := 3, needFac := true, wps := [0], comp := some t }
  worker := fun _ => { team := 0, skills := [(0, 1)], facSkills := [(0, 1)] }
  fac := fun _ => { wp := 0, name := 0, skills := [(0, 1)] }
  team := fun _ => { workers := [0, 1], targets := [0, 1] }
  wp := fun _ => { facs := [0], targets := [0, 1], cap := 1 }
  comp := fun c => { tasks := [c] }

/-- the state of a run of `mU` right after the `__update` at time 1: in step 0 component 0 went to
workplace 0 and task 0 started; task 1 is READY, component 1 is waiting outside -/
def sU : St := updated mU (stepBody mU {} (updated mU (enter mU {} St.fresh)))

theorem mU_wf : Place.PlaceWF mU := Place.placeWF_of_b (by decide +kernel)

theorem sU_inv : Place.Inv mU sU.live :=
  Place.Inv_updated mU mU_wf _ (Place.Inv_stepBody mU mU_wf _ _ (Place.Inv_updated mU mU_wf _
    (by rw [Lifecycle.enter_live]; exact Place.Inv_initProject mU mU_wf _ _)))

theorem mU_link : ∀ t', t' < mU.nT → (mU.task t').comp = some 1 → t' ∈ (mU.comp 1).tasks := by
  intro t' _ h
  have : t' = 1 := by simpa [mU] using h
  subst this; decide

/-- Task 2 (automatic, one step long) precedes task 0.  Task 0 (short) needs workplace 0; task 1
(long) can be done at workplace 0 or 1; each workplace has room for one component and one
facility.  The only worker is absent at time 0. -/
def mX : Model where
  nT := 3
  nW := 1
  nF := 2
  nTeam := 1
  nWp := 2
  nC := 2
  task := fun t =>
    if t = 0 then { name := 0, work := 1, needFac := true, wps := [0], comp := some 0,
                    inputs := [(2, .fs)] }
    else if t = 1 then { name := 0, work := 3, needFac := true, wps := [0, 1], comp := some 1 }
    else { name := 1, work := 1, isAuto := true, outputs := [(0, .fs)] }
  worker := fun _ =>
    { team := 0, skills := [(0, 1)], facSkills := [(0, 1), (1, 1)], absence := [0] }
  fac := fun f => { wp := f, name := f, skills := [(0, 1)] }
  team := fun _ => { workers := [0], targets := [0, 1] }
  wp := fun q => { facs := [q], targets := [0, 1], cap := 1 }
  comp := fun c => { tasks := [c] }

/-- shortest processing time first -/
def pX : Params := { rule := .spt }

/-- the state of the run of `mX` right after the `__update` at time 1.  In step 0 component 1 went
to workplace 0 but task 1 got no worker (absent), so it is still READY; task 2 ran and is
FINISHED, so task 0 is READY now, its component 0 not placed. -/
def sX : St := updated mX (stepBody mX pX (updated mX (enter mX pX St.fresh)))

theorem mX_wf : Place.PlaceWF mX := Place.placeWF_of_b (by decide +kernel)

theorem sX_inv : Place.Inv mX sX.live :=
  Place.Inv_updated mX mX_wf _ (Place.Inv_stepBody mX mX_wf _ _ (Place.Inv_updated mX mX_wf _
    (by rw [Lifecycle.enter_live]; exact Place.Inv_initProject mX mX_wf _ _)))

theorem mX_link : ∀ t', t' < mX.nT → (mX.task t').comp = some 0 → t' ∈ (mX.comp 0).tasks := by
  intro t' ht' h
  have h3 : mX.nT = 3 := rfl
  have : t' = 0 ∨ t' = 1 ∨ t' = 2 := by omega
  rcases this with rfl | rfl | rfl
  · decide
  · exact absurd h (by decide)
  · exact absurd h (by decide)

end C06UnplacedEx

/-- the hypotheses of `C06_unplaced_turn`, `C06_unplaced` and `C06_unplaced_obs` hold
non-trivially, in a state reached by a run: in `C06UnplacedEx.sU` (time 1) task 0 is WORKING with
component 0 at workplace 0, which is thereby full; task 1 is READY without worker, the single task
of component 1; the pass moves nothing, component 1 stays unplaced — and indeed workplace 0, its
only candidate, fails `placeOk`, for lack of space only (no conveyor restriction, skill sum 1) -/
example :
    (1 < C06UnplacedEx.mU.nT ∧ C06UnplacedEx.sU.live.tstate 1 = .ready ∧
     C06UnplacedEx.sU.live.allocW 1 = [] ∧
     (C06UnplacedEx.mU.task 1).isAuto = false ∧ (C06UnplacedEx.mU.task 1).needFac = true ∧
     (C06UnplacedEx.mU.task 1).comp = some 1 ∧ (C06UnplacedEx.mU.comp 1).tasks = [1] ∧
     (allocate C06UnplacedEx.mU C06UnplacedEx.sU.logs .tslack C06UnplacedEx.sU.live).placed 1
       = Option.none ∧
     Place.passMoves C06UnplacedEx.mU C06UnplacedEx.sU.logs .tslack C06UnplacedEx.sU.live = [] ∧
     (∀ c', c' < C06UnplacedEx.mU.nC →
       (allocate C06UnplacedEx.mU C06UnplacedEx.sU.logs .tslack C06UnplacedEx.sU.live).placed c'
         = C06UnplacedEx.sU.live.placed c') ∧
     (C06UnplacedEx.mU.task 1).wps = [0]) ∧
    C06UnplacedEx.sU.time = 1 ∧ C06UnplacedEx.sU.live.tstate 0 = .working ∧
    C06UnplacedEx.sU.live.placed 0 = some 0 ∧
    (C06UnplacedEx.mU.wp 0).inputs = [] ∧ (C06UnplacedEx.mU.comp 1).size = 1 ∧
    availSpace C06UnplacedEx.mU
      (allocate C06UnplacedEx.mU C06UnplacedEx.sU.logs .tslack C06UnplacedEx.sU.live) 0 = 0 ∧
    wpSkillSum C06UnplacedEx.mU 0 (C06UnplacedEx.mU.task 1).name = 1 ∧
    placeOk C06UnplacedEx.mU
      (turnState C06UnplacedEx.mU C06UnplacedEx.sU.logs .tslack C06UnplacedEx.sU.live 1) 1 1 0
      = false ∧
    placeOk C06UnplacedEx.mU
      (allocate C06UnplacedEx.mU C06UnplacedEx.sU.logs .tslack C06UnplacedEx.sU.live) 1 1 0
      = false := by
  decide +kernel

/-- … the link hypothesis, `PlaceWF` and the placement invariant hold there … -/
example : (∀ t', t' < C06UnplacedEx.mU.nT → (C06UnplacedEx.mU.task t').comp = some 1 →
      t' ∈ (C06UnplacedEx.mU.comp 1).tasks) ∧ Place.PlaceWF C06UnplacedEx.mU ∧
    Place.Inv C06UnplacedEx.mU C06UnplacedEx.sU.live :=
  ⟨C06UnplacedEx.mU_link, C06UnplacedEx.mU_wf, C06UnplacedEx.sU_inv⟩

/-- … and so do the hypotheses of `C06_unplaced_step`, `C06_unplaced_step_obs` (and of the clause
of `C06_unplaced_run`: `sU` is an `updated` state of the run): after the whole step task 0 is
still WORKING at workplace 0, task 1 still READY, component 1 still unplaced, worker 1 FREE (the
only facility is busy), nothing was moved, and workplace 0 fails `placeOk` for component 1 -/
example :
    ({} : Params).absence.contains C06UnplacedEx.sU.time = false ∧
    (stepBody C06UnplacedEx.mU {} C06UnplacedEx.sU).live.tstate 1 = .ready ∧
    (stepBody C06UnplacedEx.mU {} C06UnplacedEx.sU).live.placed 1 = Option.none ∧
    Place.passMoves C06UnplacedEx.mU C06UnplacedEx.sU.logs ({} : Params).rule
      (absenceSet C06UnplacedEx.mU C06UnplacedEx.sU.time true C06UnplacedEx.sU.live) = [] ∧
    (∀ c', c' < C06UnplacedEx.mU.nC →
      (stepBody C06UnplacedEx.mU {} C06UnplacedEx.sU).live.placed c'
        = C06UnplacedEx.sU.live.placed c') ∧
    (stepBody C06UnplacedEx.mU {} C06UnplacedEx.sU).live.tstate 0 = .working ∧
    (stepBody C06UnplacedEx.mU {} C06UnplacedEx.sU).live.placed 0 = some 0 ∧
    (stepBody C06UnplacedEx.mU {} C06UnplacedEx.sU).live.wstate 1 = .free ∧
    placeOk C06UnplacedEx.mU (stepBody C06UnplacedEx.mU {} C06UnplacedEx.sU).live 1 1 0 = false := by
  decide +kernel

/-- **the "nothing moved" hypothesis cannot be dropped** (the full statement — `C06_unplaced`
without `hnm`, `C06_unplaced_obs` without `hsame` — is false).  In `C06UnplacedEx.sX`, a state
reached by a run of `mX` (time 1, rule SPT), the candidates are sorted `[0, 1]`.  At task 0's turn
workplace 0 is still occupied by component 1, so component 0 stays outside.  At task 1's turn
component 1 (READY, no worker yet) is offered to workplace 1 first (more free space) and moves
there.  After the pass component 0 is unplaced, every other hypothesis holds (with `hlink`,
`PlaceWF`, `Place.Inv`: next example), the turn-state conclusion holds — and workplace 0 now
passes `placeOk` for component 0.  The ghost list is `[1]`, and component 1 is visibly elsewhere. -/
example :
    (0 < C06UnplacedEx.mX.nT ∧ C06UnplacedEx.sX.live.tstate 0 = .ready ∧
     C06UnplacedEx.sX.live.allocW 0 = [] ∧
     (C06UnplacedEx.mX.task 0).isAuto = false ∧ (C06UnplacedEx.mX.task 0).needFac = true ∧
     (C06UnplacedEx.mX.task 0).comp = some 0 ∧ (C06UnplacedEx.mX.comp 0).tasks = [0] ∧
     (allocate C06UnplacedEx.mX C06UnplacedEx.sX.logs .spt C06UnplacedEx.sX.live).placed 0
       = Option.none ∧
     0 ∈ (C06UnplacedEx.mX.task 0).wps) ∧
    sortTasks C06UnplacedEx.mX C06UnplacedEx.sX.live C06UnplacedEx.sX.logs .spt
      (NoWait.cands C06UnplacedEx.mX C06UnplacedEx.sX.live) = [0, 1] ∧
    C06UnplacedEx.sX.live.placed 1 = some 0 ∧
    (allocate C06UnplacedEx.mX C06UnplacedEx.sX.logs .spt C06UnplacedEx.sX.live).placed 1
      = some 1 ∧
    Place.passMoves C06UnplacedEx.mX C06UnplacedEx.sX.logs .spt C06UnplacedEx.sX.live = [1] ∧
    placeOk C06UnplacedEx.mX
      (turnState C06UnplacedEx.mX C06UnplacedEx.sX.logs .spt C06UnplacedEx.sX.live 0) 0 0 0
      = false ∧
    placeOk C06UnplacedEx.mX
      (allocate C06UnplacedEx.mX C06UnplacedEx.sX.logs .spt C06UnplacedEx.sX.live) 0 0 0
      = true := by
  decide +kernel

/-- … with the link hypothesis, `PlaceWF` and the placement invariant … -/
example : (∀ t', t' < C06UnplacedEx.mX.nT → (C06UnplacedEx.mX.task t').comp = some 0 →
      t' ∈ (C06UnplacedEx.mX.comp 0).tasks) ∧ Place.PlaceWF C06UnplacedEx.mX ∧
    Place.Inv C06UnplacedEx.mX C06UnplacedEx.sX.live :=
  ⟨C06UnplacedEx.mX_link, C06UnplacedEx.mX_wf, C06UnplacedEx.sX_inv⟩

/-- … and the same at the end of the working step from `sX`: task 0 READY, component 0 unplaced,
component 1 moved from workplace 0 to 1 (task 1 now WORKING there), and workplace 0 would take
component 0 -/
example :
    C06UnplacedEx.pX.absence.contains C06UnplacedEx.sX.time = false ∧
    (stepBody C06UnplacedEx.mX C06UnplacedEx.pX C06UnplacedEx.sX).live.tstate 0 = .ready ∧
    (stepBody C06UnplacedEx.mX C06UnplacedEx.pX C06UnplacedEx.sX).live.placed 0 = Option.none ∧
    C06UnplacedEx.sX.live.placed 1 = some 0 ∧
    (stepBody C06UnplacedEx.mX C06UnplacedEx.pX C06UnplacedEx.sX).live.placed 1 = some 1 ∧
    (stepBody C06UnplacedEx.mX C06UnplacedEx.pX C06UnplacedEx.sX).live.tstate 1 = .working ∧
    placeOk C06UnplacedEx.mX
      (stepBody C06UnplacedEx.mX C06UnplacedEx.pX C06UnplacedEx.sX).live 0 0 0 = true := by
  decide +kernel

/-- **the hypothesis "`t` holds no worker" of the `allocate`-level theorems cannot be dropped.**
A READY task that already holds a worker counts as working in `is_ready`, so its component is not
offered to any workplace: in `mU` with task 0 READY holding worker 0 and nothing placed, the pass
leaves component 0 unplaced and moves nothing, although workplace 0 is empty and passes `placeOk`.
(At the end of a working step a READY task never holds a worker.) -/
example :
    let l : Live := { Live.empty with tstate := fun t => if t = 0 then .ready else .none,
                                       allocW := fun t => if t = 0 then [0] else [],
                                       wasg := fun w => if w = 0 then [0] else [],
                                       wstate := fun w => if w = 0 then .working else .free }
    l.tstate 0 = .ready ∧ l.allocW 0 = [0] ∧
    (allocate C06UnplacedEx.mU Logs.empty .tslack l).placed 0 = Option.none ∧
    Place.passMoves C06UnplacedEx.mU Logs.empty .tslack l = [] ∧
    placeOk C06UnplacedEx.mU (allocate C06UnplacedEx.mU Logs.empty .tslack l) 0 0 0 = true := by
  decide +kernel

#print axioms C06_unplaced_turn
#print axioms C06_unplaced
#print axioms C06_unplaced_obs
#print axioms C06_unplaced_step
#print axioms C06_unplaced_step_obs
#print axioms C06_unplaced_run

end PDesy
