/-
  PDesy.Props.C07 — "Cost accounting adds up at every level and charges only working
  resources".

  The row of costs a step appends is computed by `wCostNow … orgCostNow` (Model/Phases, `cost`);
  by the bridge of C08 (`C08_bridge`, `C08_entry`) every statement about that row is a statement
  about the corresponding entry of the logs of a whole run.
-/
import PDesy.Lemmas.Logs
import PDesy.Props.C08

namespace PDesy
open PDesy.Logs

variable {m : Model} {p : Params}

/-! ### the charge of one step -/

/-- The amount a worker is charged at a step: its `cost_per_time` exactly when it is *logged*
WORKING at that step (`showR` is the display rule of the state log), otherwise 0.  In
particular 0 for everyone at a project-wide absence step (`wk = false`). -/
theorem C07_worker_now (l : Live) (wk : Bool) (w : Nat) :
    wCostNow m l wk w = if showR wk (l.wstate w) = .working then (m.worker w).cost else 0 :=
  wCostNow_eq l wk w

/-- The same for a facility. -/
theorem C07_fac_now (l : Live) (wk : Bool) (f : Nat) :
    fCostNow m l wk f = if showR wk (l.fstate f) = .working then (m.fac f).cost else 0 :=
  fCostNow_eq l wk f

/-- At a project-wide absence step every worker, facility, team, workplace and the organization
are charged 0. -/
theorem C07_absence_now (l : Live) :
    (∀ w, wCostNow m l false w = 0) ∧ (∀ f, fCostNow m l false f = 0) ∧
    (∀ a, teamCostNow m l false a = 0) ∧ (∀ q, wpCostNow m l false q = 0) ∧
    orgCostNow m l false = 0 := costNow_absence l

/-- A team's charge is the sum of its workers' charges. -/
theorem C07_team_now (l : Live) (wk : Bool) (a : Nat) :
    teamCostNow m l wk a = sumList ((m.team a).workers.map (wCostNow m l wk)) := rfl

/-- A workplace's charge is the sum of its facilities' charges. -/
theorem C07_wp_now (l : Live) (wk : Bool) (q : Nat) :
    wpCostNow m l wk q = sumList ((m.wp q).facs.map (fCostNow m l wk)) := rfl

/-- The organization's charge is the sum over teams plus the sum over workplaces. -/
theorem C07_org_now (l : Live) (wk : Bool) :
    orgCostNow m l wk = sumList ((List.range m.nTeam).map (teamCostNow m l wk)) +
      sumList ((List.range m.nWp).map (wpCostNow m l wk)) := rfl

/-- One loop iteration appends the same number — the organization's charge, computed from the
state the step records, with the working flag of the step's time — to the project's and to the
organization's cost list. -/
theorem C07_step_proj (s : St) :
    (stepBody m p s).logs.projCost =
      s.logs.projCost ++ [orgCostNow m (stepBody m p s).live (workingAt p s.time)] ∧
    (stepBody m p s).logs.orgCost =
      s.logs.orgCost ++ [orgCostNow m (stepBody m p s).live (workingAt p s.time)] := by
  rw [stepBody_logs, row_projCost, row_orgCost]; simp

/-! ### every log entry of a run -/

/-- members of teams are workers of the model, members of workplaces are facilities of the
model (indices in range) -/
def MembersOK (m : Model) : Prop :=
  (∀ a, a < m.nTeam → ∀ w ∈ (m.team a).workers, w < m.nW) ∧
  (∀ q, q < m.nWp → ∀ f ∈ (m.wp q).facs, f < m.nF)

/-- Cost accounting of log row `n`, stated on the logs alone: each worker/facility entry is its
`cost_per_time` if its state-log entry `n` is WORKING and 0 otherwise; each team/workplace entry
is the sum of its members' entries; the organization entry is the sum of the team entries plus
the sum of the workplace entries; the project entry is the organization entry. -/
structure CostRow (m : Model) (lg : Logs) (n : Nat) : Prop where
  worker : ∀ w, w < m.nW → (lg.wCost w)[n]? =
    some (if (lg.wState w)[n]? = some RS.working then (m.worker w).cost else 0)
  fac : ∀ f, f < m.nF → (lg.fCost f)[n]? =
    some (if (lg.fState f)[n]? = some RS.working then (m.fac f).cost else 0)
  team : ∀ a, a < m.nTeam → (lg.teamCost a)[n]? =
    some (sumList ((m.team a).workers.map fun w => ((lg.wCost w)[n]?).getD 0))
  wp : ∀ q, q < m.nWp → (lg.wpCost q)[n]? =
    some (sumList ((m.wp q).facs.map fun f => ((lg.fCost f)[n]?).getD 0))
  org : lg.orgCost[n]? =
    some (sumList ((List.range m.nTeam).map fun a => ((lg.teamCost a)[n]?).getD 0) +
          sumList ((List.range m.nWp).map fun q => ((lg.wpCost q)[n]?).getD 0))
  proj : lg.projCost[n]? = lg.orgCost[n]?

/-- A log row that shows a live state (C08) satisfies the cost accounting. -/
theorem C07_row (hm : MembersOK m) {lg : Logs} {n : Nat} {wk : Bool} {l : Live}
    (h : RowAt m lg n wk l) : CostRow m lg n where
  worker := by
    intro w hw; rw [h.wCost w hw, h.wState w hw, wCostNow_eq]; simp
  fac := by
    intro f hf; rw [h.fCost f hf, h.fState f hf, fCostNow_eq]; simp
  team := by
    intro a ha; rw [h.teamCost a ha, teamCostNow]
    congr 2
    apply List.map_congr_left
    intro w hw; rw [h.wCost w (hm.1 a ha w hw)]; rfl
  wp := by
    intro q hq; rw [h.wpCost q hq, wpCostNow]
    congr 2
    apply List.map_congr_left
    intro f hf; rw [h.fCost f (hm.2 q hq f hf)]; rfl
  org := by
    rw [h.orgCost, orgCostNow]
    congr 3
    · apply List.map_congr_left
      intro a ha; rw [h.teamCost a (List.mem_range.mp ha)]; rfl
    · apply List.map_congr_left
      intro q hq; rw [h.wpCost q (List.mem_range.mp hq)]; rfl
  proj := by rw [h.projCost, h.orgCost]

/-- **C07 (every step).**  For every step `k` the loop executed, row `s.time + k` of the cost
logs of the final state satisfies the accounting `CostRow` (started from aligned logs). -/
theorem C07_entry (hm : MembersOK m) (fuel : Nat) (s : St) (h : Aligned m s) (k : Nat)
    (hk : k < (trace m p fuel s).length) :
    CostRow m (loop m p fuel s).logs (s.time + k) :=
  C07_row hm (C08_entry fuel s h k hk)

example : MembersOK demo := by unfold MembersOK; decide
example : Aligned demo St.fresh := by constructor <;> simp [St.fresh, Logs.empty]
example : 2 < (trace demo demoP 9 St.fresh).length := by decide +kernel

/-- **C07 for a whole run** (with `initLog = true`): row `k` of the cost logs of
`simulate m p s` satisfies the accounting, for every executed step `k`. -/
theorem C07_run_entry (hm : MembersOK m) (s : St) (h : p.initLog = true) (k : Nat)
    (hk : k < (runTrace m p s).length) :
    CostRow m (simulate m p s).logs k :=
  C07_row hm (C08_run_entry s h k hk)

example : demoP.initLog = true := rfl
example : (runTrace demo demoP St.fresh).length = 4 := by decide +kernel
example : (simulate demo demoP St.fresh).logs.projCost = [3, 0, 3, 12] := by decide +kernel

/-- At a project-wide absence step of a run every entry of every cost log is 0. -/
theorem C07_absence_entry (fuel : Nat) (s : St) (h : Aligned m s) (k : Nat)
    (hk : k < (trace m p fuel s).length) (hab : p.absence.contains (s.time + k) = true) :
    (∀ w, w < m.nW → ((loop m p fuel s).logs.wCost w)[s.time + k]? = some 0) ∧
    (∀ f, f < m.nF → ((loop m p fuel s).logs.fCost f)[s.time + k]? = some 0) ∧
    (∀ a, a < m.nTeam → ((loop m p fuel s).logs.teamCost a)[s.time + k]? = some 0) ∧
    (∀ q, q < m.nWp → ((loop m p fuel s).logs.wpCost q)[s.time + k]? = some 0) ∧
    (loop m p fuel s).logs.orgCost[s.time + k]? = some 0 ∧
    (loop m p fuel s).logs.projCost[s.time + k]? = some 0 := by
  have h1 := C08_entry (p := p) fuel s h k hk
  have hwk : workingAt p (s.time + k) = false := by rw [workingAt, hab]; rfl
  rw [hwk] at h1
  obtain ⟨c1, c2, c3, c4, c5⟩ := costNow_absence (m := m) ((trace m p fuel s)[k]).live
  refine ⟨?_, ?_, ?_, ?_, ?_, ?_⟩
  · intro w hw; rw [h1.wCost w hw, c1]
  · intro f hf; rw [h1.fCost f hf, c2]
  · intro a ha; rw [h1.teamCost a ha, c3]
  · intro q hq; rw [h1.wpCost q hq, c4]
  · rw [h1.orgCost, c5]
  · rw [h1.projCost, c5]

example : demoP.absence.contains (St.fresh.time + 1) = true := by decide

/-- The project's cost list equals the organization's after the loop whenever it did
before. -/
theorem C07_proj_eq_org (fuel : Nat) (s : St) (h : s.logs.projCost = s.logs.orgCost) :
    (loop m p fuel s).logs.projCost = (loop m p fuel s).logs.orgCost := by
  rw [loop_logs, rowLogs_projCost, rowLogs_orgCost, h]

/-- After a run with `initLog = true` the project's cost list equals the organization's. -/
theorem C07_run_proj_eq_org (s : St) (h : p.initLog = true) :
    (simulate m p s).logs.projCost = (simulate m p s).logs.orgCost := by
  rw [simulate_eq]; apply C07_proj_eq_org; rw [enter_logs s h]; rfl

example : St.fresh.logs.projCost = St.fresh.logs.orgCost := rfl

/-! ### the total -/

/-- the teams partition the workers, in order (the numbering convention of the model:
workers are numbered along the teams' worker lists) -/
def PartW (m : Model) : Prop :=
  (List.range m.nTeam).flatMap (fun a => (m.team a).workers) = List.range m.nW

/-- the workplaces partition the facilities, in order -/
def PartF (m : Model) : Prop :=
  (List.range m.nWp).flatMap (fun q => (m.wp q).facs) = List.range m.nF

/-- **C07 (total), permutation form.**  If the teams' worker lists together are a permutation
of the workers and the workplaces' facility lists a permutation of the facilities, the sum of
the project-cost entries the loop appended equals the sum over workers of `cost_per_time` times
the number of appended state-log entries equal to WORKING, plus the same for facilities. -/
theorem C07_total_perm
    (hW : ((List.range m.nTeam).flatMap fun a => (m.team a).workers).Perm (List.range m.nW))
    (hF : ((List.range m.nWp).flatMap fun q => (m.wp q).facs).Perm (List.range m.nF))
    (fuel : Nat) (s : St) :
    sumList ((loop m p fuel s).logs.projCost.drop s.logs.projCost.length) =
      sumList ((List.range m.nW).map fun w => (m.worker w).cost *
        (((((loop m p fuel s).logs.wState w).drop (s.logs.wState w).length).count
          RS.working : Nat) : Rat)) +
      sumList ((List.range m.nF).map fun f => (m.fac f).cost *
        (((((loop m p fuel s).logs.fState f).drop (s.logs.fState f).length).count
          RS.working : Nat) : Rat)) := by
  rw [loop_logs, rowLogs_projCost, List.drop_left, total_rows hW hF]
  congr 2
  · apply List.map_congr_left
    intro w hw
    rw [rowLogs_wState _ _ (List.mem_range.mp hw), List.drop_left]
  · apply List.map_congr_left
    intro f hf
    rw [rowLogs_fState _ _ (List.mem_range.mp hf), List.drop_left]

/-- **C07 (total).**  The same with the partition hypotheses as equalities. -/
theorem C07_total (hW : PartW m) (hF : PartF m) (fuel : Nat) (s : St) :
    sumList ((loop m p fuel s).logs.projCost.drop s.logs.projCost.length) =
      sumList ((List.range m.nW).map fun w => (m.worker w).cost *
        (((((loop m p fuel s).logs.wState w).drop (s.logs.wState w).length).count
          RS.working : Nat) : Rat)) +
      sumList ((List.range m.nF).map fun f => (m.fac f).cost *
        (((((loop m p fuel s).logs.fState f).drop (s.logs.fState f).length).count
          RS.working : Nat) : Rat)) :=
  C07_total_perm (by rw [hW]) (by rw [hF]) fuel s

example : PartW demo := by unfold PartW; decide
example : PartF demo := by unfold PartF; decide

/-- **C07 (total) for a whole run.**  After `simulate` with `initLog = true`, the total project
cost equals the sum over workers of `cost_per_time` times the number of steps the worker is
logged WORKING, plus the sum over facilities of `cost_per_time` times the number of steps the
facility is logged WORKING. -/
theorem C07_run_total (hW : PartW m) (hF : PartF m) (s : St) (h : p.initLog = true) :
    sumList (simulate m p s).logs.projCost =
      sumList ((List.range m.nW).map fun w => (m.worker w).cost *
        ((((simulate m p s).logs.wState w).count RS.working : Nat) : Rat)) +
      sumList ((List.range m.nF).map fun f => (m.fac f).cost *
        ((((simulate m p s).logs.fState f).count RS.working : Nat) : Rat)) := by
  have h1 := C07_total (p := p) hW hF (fuelOf p (enter m p s)) (enter m p s)
  rw [← simulate_eq, enter_logs s h] at h1
  simp only [clearLogs, Logs.empty, List.length_nil, List.drop_zero] at h1
  exact h1

/-- the demo run costs 18 = 3·2 (worker 0 logged WORKING twice) + 5·1 + 7·1 -/
example : sumList (simulate demo demoP St.fresh).logs.projCost = 18 ∧
    ((simulate demo demoP St.fresh).logs.wState 0).count RS.working = 2 ∧
    ((simulate demo demoP St.fresh).logs.wState 1).count RS.working = 1 ∧
    ((simulate demo demoP St.fresh).logs.fState 0).count RS.working = 1 := by
  decide +kernel

end PDesy

#print axioms PDesy.C07_worker_now
#print axioms PDesy.C07_fac_now
#print axioms PDesy.C07_absence_now
#print axioms PDesy.C07_team_now
#print axioms PDesy.C07_wp_now
#print axioms PDesy.C07_org_now
#print axioms PDesy.C07_step_proj
#print axioms PDesy.C07_row
#print axioms PDesy.C07_entry
#print axioms PDesy.C07_run_entry
#print axioms PDesy.C07_absence_entry
#print axioms PDesy.C07_proj_eq_org
#print axioms PDesy.C07_run_proj_eq_org
#print axioms PDesy.C07_total_perm
#print axioms PDesy.C07_total
#print axioms PDesy.C07_run_total
