/-
  PDesy.Props.C15General — C15 ("a run paused at any step and resumed gives exactly the
  uninterrupted result") for EVERY model with an acyclic link graph: any mixture of FS/SS/FF/SF
  links, tasks with a finish gate and a finish-to-start successor included, any start state,
  any parameters.

  FULL STATEMENT of C15 (for every model `m`, parameters `p`, start state `s`, `k ≤ M`):

      simulate m { p with maxTime := M, initState := false, initLog := false }
          (simulate m { p with maxTime := k } s)
        = simulate m { p with maxTime := M } s

  `PDesy.Props.C15` proves it under `GateOK` (no task has both an FF/SF predecessor and an FS
  successor).  Here:

  * `C15_general`: the full statement for every model whose links stay inside the task list
    (`WF`) and whose output links strictly increase some rank below `m.nT` (`FwdRanked`, i.e. the
    link graph is acyclic).  No hypothesis on the link kinds, the work amounts, the start state
    or `initState`.
  * `C15_general_acyclic`: the same from `GraphOK` (consistent input/output lists) and `Acyclic`,
    the hypotheses of the PERT theorems (C12); `C15_general_topo`: the same from the decidable
    "every link goes forward in the task list" (`TopoOK`); `RankedBy m rk` is the decidable form
    of `FwdRanked` with an explicit rank.
  * `C15_general_or_gateOK`: acyclic OR the hypotheses of `C15_partial` — strictly more general
    than `C15_partial`.
  * `C15_pert_idem_general`, `C15_update_idem_general`: on an acyclic model `update_PERT_data`
    and the whole `__update` block are idempotent at EVERY state (negative remaining work
    included) — no invariant of the run is needed.
  * `C15_pertFwd_reads`: which old values the forward pass reads.

  Why it holds (details in `PDesy.Lemmas.PertIdem`).  `update_PERT_data` resets `est` of every
  task, `eft` of the head tasks, `lst/lft` of every task; `cpl` is recomputed when there is a
  tail task.  The only stale values it can read are the old `eft i` of non-head tasks `i`, read
  by an FF relaxation `i → j` while no relaxation into `i` has been accepted yet (e.g. because
  the FS predecessor of `i` has overshot behind a closed finish gate, so that it proposes an
  `est` below `time`; see `staleM` below: the result of `pert` does depend on the old `eft`).
  The acceptance tests read `est` only and the waves depend on the graph only, so both the list
  of relaxations and the set of accepted ones are the same in a recomputation.  If `i` is
  written later, `i → j` is relaxed again (the waves die out before the fuel does: acyclic) and
  is accepted again unless `j` was rewritten meanwhile (`est` only grows).  So a stale read is
  always overwritten, the value of the LAST write of every task reads final values only, and a
  second computation — whose "old" `eft` differ from the first one's only at tasks that are
  written — ends with the same table.

  What remains open: models whose link graph has a CYCLE and a task with both a finish gate and
  an FS successor (outside `C15_general_or_gateOK`).  There `pert` is not idempotent on
  arbitrary states (`cycM` in `PDesy.Props.C15`: the fuel runs out between a stale read and its
  correction); whether it is on the states a run reaches is not known (no counterexample in
  3400 random models with back links).

  Search (scratch files under /tmp/c15gen, executable model, `#eval`): no counterexample.
  * `pert m t (pert m t l) = pert m t l` on 20000 random acyclic models with 3–7 tasks, random
    link kinds, random list order and RANDOM states (`rem` in −2 … 2, random old `est/eft`);
    the same harness finds a failure among 20000 random CYCLIC graphs;
  * pause/resume at every step `k = 0 … makespan + 1` (horizon 12–14) from a fresh project: all
    9072 3-task acyclic models with at least one FS and one FF/SF link (both list orders, work
    in {1,2,3}³, 1–2 workers, with and without an absence step), and 2576 random 4-task ones
    (random list order, 1–2 workers, work in {1,2,3}, sometimes an absence step): all equal.
-/
import PDesy.Props.C15
import PDesy.Lemmas.PertIdem

namespace PDesy

open Idem PertIdem

/-! ### decidable forms of acyclicity -/

/-- `rk` is a rank below `m.nT` that increases strictly along every output link, and output
links stay inside the task list (decidable; `FwdRanked m` says that some `rk` does) -/
def RankedBy (m : Model) (rk : Nat → Nat) : Prop :=
  ∀ t, t < m.nT → rk t < m.nT ∧ ∀ e ∈ (m.task t).outputs, e.1 < m.nT ∧ rk t < rk e.1

/-- every link goes forward in the task list (the list is topologically sorted) -/
def TopoOK (m : Model) : Prop :=
  ∀ t, t < m.nT → ∀ e ∈ (m.task t).outputs, t < e.1 ∧ e.1 < m.nT

instance (m : Model) (rk : Nat → Nat) : Decidable (RankedBy m rk) := by
  unfold RankedBy; infer_instance
instance (m : Model) : Decidable (TopoOK m) := by unfold TopoOK; infer_instance
instance (m : Model) : Decidable (WF m) := by unfold WF; infer_instance

theorem RankedBy.fwdRanked {m : Model} {rk : Nat → Nat} (h : RankedBy m rk) : FwdRanked m :=
  ⟨rk, h⟩

theorem TopoOK.fwdRanked {m : Model} (h : TopoOK m) : FwdRanked m :=
  ⟨id, fun t ht => ⟨ht, fun e he => ⟨(h t ht e he).2, (h t ht e he).1⟩⟩⟩

/-! ### idempotence of the PERT recomputation and of the update block, at every state -/

/-- **C15, PERT part, acyclic models.**  `update_PERT_data` recomputed on its own output gives
the same data, at EVERY state `l` (whatever the signs of the remaining work amounts and the old
PERT data), when links stay inside the task list and the link graph is acyclic. -/
theorem C15_pert_idem_general (m : Model) (hwf : WF m) (hr : FwdRanked m) (time : Nat) (l : Live) :
    pert m time (pert m time l) = pert m time l :=
  pert_idem_acyc m hwf hr time l

/-- **C15, update block, acyclic models.**  Applying `__update` to a state that `__update` has
just produced (at the same time) changes nothing — at every state. -/
theorem C15_update_idem_general (m : Model) (hwf : WF m) (hr : FwdRanked m) (time : Nat)
    (l : Live) : update m time (update m time l) = update m time l :=
  update_idem_of_pert m time l (fun l' => pert_idem_acyc m hwf hr time l')

/-- **What the forward pass of `update_PERT_data` reads of the old PERT data** (acyclic model):
two states with the same remaining work, the same `est` outside the task list and the same
`eft` at every task that is neither a head (no input link) nor written by the pass at `l`
(`FwdWrites`: some relaxation into it is accepted) get the same `est` and `eft`. -/
theorem C15_pertFwd_reads (m : Model) (hr : FwdRanked m) (l l' : Live) (time : Rat)
    (hrem : l'.rem = l.rem) (hest : ∀ t, ¬ t < m.nT → l'.est t = l.est t)
    (heft : ∀ j, ¬ (j < m.nT ∧ (m.task j).inputs.isEmpty = true) → ¬ FwdWrites m l time j →
      l'.eft j = l.eft j) :
    (pertFwd m time l').est = (pertFwd m time l).est ∧
    (pertFwd m time l').eft = (pertFwd m time l).eft :=
  pertFwd_congr m hr l l' time hrem hest heft

/-! ### pause and resume -/

/-- **C15 for every acyclic model.**  A run paused at any step `k ≤ M` and resumed with
`initState = initLog = false` ends in exactly the state of the uninterrupted run to `M` — same
logs, costs, time, status, live data — for every `k`, including `0` and values beyond the
makespan, for ANY start state `s` and parameters `p` (priority rule, absence steps, automatic
tasks, with or without initialisation).

Hypotheses, on the model only: links stay inside the task list (`WF`), and some rank below
`m.nT` increases strictly along every output link (`FwdRanked`: the link graph is acyclic).
Link kinds are arbitrary: a task may have an FF/SF predecessor and an FS successor. -/
theorem C15_general (m : Model) (p : Params) (s : St) (k M : Nat) (hk : k ≤ M)
    (hwf : WF m) (hr : FwdRanked m) :
    simulate m { p with maxTime := M, initState := false, initLog := false }
        (simulate m { p with maxTime := k } s)
      = simulate m { p with maxTime := M } s :=
  C15_of_pert_idem m p s k M hk (fun time l => pert_idem_acyc m hwf hr time l)

/-- **C15 for consistent, acyclic link lists** (`GraphOK`: indices in range and
`(p, d) ∈ inputs t ↔ (t, d) ∈ outputs p`; `Acyclic`: some rank increases along every input
link) — the hypotheses under which C12 characterises the PERT data, minus "FS only". -/
theorem C15_general_acyclic (m : Model) (p : Params) (s : St) (k M : Nat) (hk : k ≤ M)
    (hok : PertSpec.GraphOK m) (hac : PertSpec.Acyclic m) :
    simulate m { p with maxTime := M, initState := false, initLog := false }
        (simulate m { p with maxTime := k } s)
      = simulate m { p with maxTime := M } s :=
  C15_of_pert_idem m p s k M hk (fun time l => pert_idem_of_acyclic m hok hac time l)

/-- **C15 for topologically sorted task lists**: every link goes forward in the list. -/
theorem C15_general_topo (m : Model) (p : Params) (s : St) (k M : Nat) (hk : k ≤ M)
    (hwf : WF m) (ht : TopoOK m) :
    simulate m { p with maxTime := M, initState := false, initLog := false }
        (simulate m { p with maxTime := k } s)
      = simulate m { p with maxTime := M } s :=
  C15_general m p s k M hk hwf ht.fwdRanked

/-- **C15, acyclic models or `C15_partial`'s models**: the link graph is acyclic, or (cycles
allowed) no task has both an FF/SF predecessor and an FS successor and the run starts from
non-negative remaining work.  Strictly more general than `C15_partial`. -/
theorem C15_general_or_gateOK (m : Model) (p : Params) (s : St) (k M : Nat) (hk : k ≤ M)
    (hwf : WF m)
    (h : FwdRanked m ∨
      (GateOK m ∧ ((p.initState = true ∧ WorkOK m) ∨ (p.initState = false ∧ RemOK m s.live)))) :
    simulate m { p with maxTime := M, initState := false, initLog := false }
        (simulate m { p with maxTime := k } s)
      = simulate m { p with maxTime := M } s := by
  rcases h with hr | ⟨hng, hstart⟩
  · exact C15_general m p s k M hk hwf hr
  · exact C15_partial m p s k M hk hwf hng hstart

/-! ### corollaries: what the property names explicitly -/

section corollaries
variable (m : Model) (p : Params) (s : St) (k M : Nat) (hk : k ≤ M) (hwf : WF m)
  (hr : FwdRanked m)
include hk hwf hr

/-- same logs (task/worker/facility/component states, allocations, all cost lists) -/
theorem C15_general_logs :
    (simulate m { p with maxTime := M, initState := false, initLog := false }
        (simulate m { p with maxTime := k } s)).logs
      = (simulate m { p with maxTime := M } s).logs :=
  congrArg St.logs (C15_general m p s k M hk hwf hr)

/-- same project cost list in particular -/
theorem C15_general_cost :
    (simulate m { p with maxTime := M, initState := false, initLog := false }
        (simulate m { p with maxTime := k } s)).logs.projCost
      = (simulate m { p with maxTime := M } s).logs.projCost :=
  congrArg (fun x => x.logs.projCost) (C15_general m p s k M hk hwf hr)

/-- same final time and status -/
theorem C15_general_time_status :
    (simulate m { p with maxTime := M, initState := false, initLog := false }
        (simulate m { p with maxTime := k } s)).time
      = (simulate m { p with maxTime := M } s).time ∧
    (simulate m { p with maxTime := M, initState := false, initLog := false }
        (simulate m { p with maxTime := k } s)).status
      = (simulate m { p with maxTime := M } s).status :=
  ⟨congrArg St.time (C15_general m p s k M hk hwf hr),
   congrArg St.status (C15_general m p s k M hk hwf hr)⟩

/-- same live state -/
theorem C15_general_live :
    (simulate m { p with maxTime := M, initState := false, initLog := false }
        (simulate m { p with maxTime := k } s)).live
      = (simulate m { p with maxTime := M } s).live :=
  congrArg St.live (C15_general m p s k M hk hwf hr)

end corollaries

/-! ### non-vacuity: concrete models outside `GateOK` -/

namespace C15GenEx

open C15Ex

/-- The same shape as `C15Ex.ffM` with the task list in REVERSE topological order (every link
goes backward in the list): task 3 (work 3) must finish before task 2 (work 1/2) may (FF), so
task 2 overshoots behind the closed gate; task 1 follows task 2 (FS); task 0 follows task 1
(FF) and task 3 (SF). -/
def revM : Model where
  nT := 4
  nW := 3
  nF := 0
  nTeam := 1
  nWp := 0
  nC := 0
  task := fun t =>
    match t with
    | 0 => { name := 0, work := 3/2, inputs := [(1, .ff), (3, .sf)] }
    | 1 => { name := 1, work := 1, inputs := [(2, .fs)], outputs := [(0, .ff)] }
    | 2 => { name := 2, work := 1/2, inputs := [(3, .ff)], outputs := [(1, .fs)] }
    | _ => { name := 3, work := 3, outputs := [(2, .ff), (0, .sf)] }
  worker := fun w =>
    match w with
    | 0 => { team := 0, skills := [(3, 1), (1, 1)], cost := 2 }
    | 1 => { team := 0, skills := [(2, 1)], cost := 3 }
    | _ => { team := 0, skills := [(0, 1)], cost := 1 }
  fac := fun _ => {}
  team := fun _ => { workers := [0, 1, 2], targets := [0, 1, 2, 3] }
  wp := fun _ => {}
  comp := fun _ => {}

/-- A chain `0 →FS 1 →FF 2` on which the result of `pert` DOES depend on the old `eft`: with
`rem 0 < 0` the relaxation `0 → 1` proposes an `est` below `time` and is rejected, `eft 1` is
never written, and the FF relaxation `1 → 2` reads it. -/
def staleM : Model where
  nT := 3
  nW := 0
  nF := 0
  nTeam := 0
  nWp := 0
  nC := 0
  task := fun t =>
    match t with
    | 0 => { name := 0, outputs := [(1, .fs)] }
    | 1 => { name := 1, inputs := [(0, .fs)], outputs := [(2, .ff)] }
    | _ => { name := 2, inputs := [(1, .ff)] }
  worker := fun _ => {}
  fac := fun _ => {}
  team := fun _ => {}
  wp := fun _ => {}
  comp := fun _ => {}

/-- a state of `staleM`: task 0 has overshot by 1, task 1 carries the old `eft` value `e` -/
def staleL (e : Rat) : Live :=
  { Live.empty with
    rem := fun t => match t with | 0 => -1 | 1 => 2 | _ => 1
    eft := fun t => match t with | 1 => e | _ => 0 }

theorem ffM_wf : WF ffM := by decide +kernel
theorem ffM_topo : TopoOK ffM := by decide +kernel
theorem revM_wf : WF revM := by decide +kernel
theorem revM_ranked : RankedBy revM (fun t => 3 - t) := by decide +kernel
theorem staleM_wf : WF staleM := by decide +kernel
theorem staleM_topo : TopoOK staleM := by decide +kernel

/-- `ffM` is outside `C15_partial`: task 1 has an FF predecessor and an FS successor -/
theorem ffM_not_gateOK : ¬ GateOK ffM := by
  intro h
  have := h 1 (by decide) ⟨(2, .fs), by simp [ffM], rfl⟩ (0, .ff) (by simp [ffM])
  simp at this

/-- so is `revM` (task 2) -/
theorem revM_not_gateOK : ¬ GateOK revM := by
  intro h
  have := h 2 (by decide) ⟨(1, .fs), by simp [revM], rfl⟩ (3, .ff) (by simp [revM])
  simp at this

/-- `revM` is not topologically sorted, and its link lists are consistent and acyclic -/
example : ¬ TopoOK revM := by decide +kernel
example : PertSpec.GraphOK revM := by decide +kernel
example : PertSpec.GraphOK ffM := by decide +kernel

end C15GenEx

open C15Ex C15GenEx

/-- the hypotheses of `C15_general` are satisfiable by a model OUTSIDE `GateOK`: `ffM` (a task
that overshoots behind a closed FF gate and has an FS successor), for every pause point `k`,
horizon `M ≥ k`, parameters and start state -/
example (p : Params) (s : St) (k M : Nat) (hk : k ≤ M) :
    simulate ffM { p with maxTime := M, initState := false, initLog := false }
        (simulate ffM { p with maxTime := k } s)
      = simulate ffM { p with maxTime := M } s :=
  C15_general_topo ffM p s k M hk ffM_wf ffM_topo

/-- … and by `revM`, whose task list is in reverse topological order (explicit rank `3 - t`) -/
example (p : Params) (s : St) (k M : Nat) (hk : k ≤ M) :
    simulate revM { p with maxTime := M, initState := false, initLog := false }
        (simulate revM { p with maxTime := k } s)
      = simulate revM { p with maxTime := M } s :=
  C15_general revM p s k M hk revM_wf revM_ranked.fwdRanked

/-- `revM` really overshoots behind the closed finish gate, and its run is not trivial -/
example : (simulate revM { maxTime := 20 } St.fresh).logs.tRem 2 = [-1/2, -3/2, -5/2, 0] ∧
    (simulate revM { maxTime := 20 } St.fresh).time = 4 ∧
    (simulate revM { maxTime := 20 } St.fresh).status = .success := by
  decide +kernel

/-- checked by evaluation, independently of the theorem: pausing the run of `revM` at every
`k = 0 … makespan + 1` (step 2 is an absence step) and resuming gives the uninterrupted state -/
example : ∀ k ∈ List.range 6,
    resumed revM { absence := [2] } k 20 = straight revM { absence := [2] } 20 := by
  decide +kernel

/-- the stale read is real: on `staleM` the result of `update_PERT_data` depends on the old
`eft` of task 1 (which it never writes) … -/
example : (pert staleM 3 (staleL 10)).eft 2 = 10 ∧ (pert staleM 3 (staleL 0)).eft 2 = 4 ∧
    (pert staleM 3 (staleL 10)).eft 1 = 10 := by
  decide +kernel

/-- … task 1 is indeed not written by the forward pass there, task 2 is … -/
example : ¬ FwdWrites staleM (staleL 10) 3 1 ∧ FwdWrites staleM (staleL 10) 3 2 := by
  decide +kernel

/-- … and the recomputation is idempotent all the same (instance of the theorem) -/
example (e : Rat) :
    pert staleM 3 (pert staleM 3 (staleL e)) = pert staleM 3 (staleL e) :=
  C15_pert_idem_general staleM staleM_wf staleM_topo.fwdRanked 3 (staleL e)

/-- acyclicity cannot simply be dropped from `C15_pert_idem_general`: on the cyclic graph
`cycM` (in-range links) `update_PERT_data` is not idempotent at the state `cycL` -/
example : WF cycM ∧ pert cycM 3 (pert cycM 3 cycL) ≠ pert cycM 3 cycL := by
  refine ⟨by decide +kernel, fun h => ?_⟩
  have h2 := congrArg (fun l => l.eft 3) h
  revert h2
  decide +kernel

end PDesy

#print axioms PDesy.C15_pert_idem_general
#print axioms PDesy.C15_update_idem_general
#print axioms PDesy.C15_pertFwd_reads
#print axioms PDesy.C15_general
#print axioms PDesy.C15_general_acyclic
#print axioms PDesy.C15_general_topo
#print axioms PDesy.C15_general_or_gateOK
#print axioms PDesy.C15_general_logs
#print axioms PDesy.C15_general_cost
#print axioms PDesy.C15_general_time_status
#print axioms PDesy.C15_general_live
