/-
  PDesy.Props.C02 — "Remaining work changes only by the allocated resources' contribution".

  * `perform` (Model/Phases) is step 4 of the loop; `contrib m l t` is what the model subtracts
    from the remaining work of a WORKING task `t`.
  * `Perform.plainContrib m l t` (Lemmas/Perform) is the *documented* contribution: the unit rate
    of an automatic task; otherwise the sum of the allocated workers' skills (`plainW`: skill
    value, 0 when the worker lacks the skill or is ABSENCE), each multiplied, by position, with
    the paired facility's skill (`plainF`) when the task needs a facility.
  * `Perform.preCost m p s` is the live state at the cost/perform boundary of `stepBody`
    (`l4` in the model): `compCheck (chkWorking? (allocate? (absenceSet s.live)))`.
-/
import PDesy.Lemmas.Perform
import PDesy.Props.C08

namespace PDesy
open PDesy.Logs PDesy.Perform

variable {m : Model} {p : Params}

/-! ### 1. what `perform` does -/

/-- **C02 (perform).**  `perform` lowers the remaining work of a task `t < nT` by exactly
`contrib m l t` when the task is WORKING and the step is active for it (a working step, or an
automatic task with `perform_auto_task_while_absence_time` set); the remaining work of every
other task is unchanged; and nothing but `rem` changes. -/
theorem C02_perform (working autoFlag : Bool) (l : Live) :
    (∀ t, t < m.nT →
      (perform m working autoFlag l).rem t =
        if l.tstate t = .working ∧
            (working = true ∨ (autoFlag = true ∧ (m.task t).isAuto = true))
        then l.rem t - contrib m l t else l.rem t) ∧
    (∀ t, ¬ t < m.nT → (perform m working autoFlag l).rem t = l.rem t) ∧
    perform m working autoFlag l = { l with rem := (perform m working autoFlag l).rem } := by
  refine ⟨?_, ?_, rfl⟩
  · intro t ht; rw [perform_rem]; simp [ht]
  · intro t ht; rw [perform_rem]; simp [ht]

/-- a hand-made state: task 0 of the demo model is WORKING with worker 0, remaining work 2 -/
def c02L : Live := { Live.empty with
  tstate := fun t => if t = 0 then .working else .none
  rem := fun t => if t = 0 then 2 else 0
  allocW := fun t => if t = 0 then [0] else []
  wasg := fun w => if w = 0 then [0] else []
  wstate := fun w => if w = 0 then .working else .free }

example : c02L.tstate 0 = .working ∧ contrib demo c02L 0 = 1 ∧
    (perform demo true false c02L).rem 0 = 1 ∧ (perform demo false false c02L).rem 0 = 2 := by
  decide +kernel

/-! ### 2. the contribution is the documented one -/

/-- **C02 (contribution).**  Under the allocation invariant (`AllocInv`: allocation two-way
consistent and exclusive) the amount subtracted from a WORKING task is the documented
contribution `plainContrib`: no division by the number of tasks a resource serves remains,
because every allocated worker and facility serves exactly this task. -/
theorem C02_contrib {l : Live} (h : AllocInv m l) {t : Nat} (ht : l.tstate t = .working) :
    contrib m l t = plainContrib m l t := contrib_eq_plain h ht

/-- An absent or unskilled worker/facility contributes exactly 0 (in the documented form and in
the model's `wProgress`/`fProgress`, the latter with no invariant needed). -/
theorem C02_contrib_zero (l : Live) (name : Nat) :
    (∀ w, l.wstate w = .absence ∨ hasSkill (m.worker w).skills name = false →
      plainW m l name w = 0 ∧ wProgress m l name w = 0) ∧
    (∀ f, l.fstate f = .absence ∨ hasSkill (m.fac f).skills name = false →
      plainF m l name f = 0 ∧ fProgress m l name f = 0) :=
  ⟨fun w h => ⟨plainW_zero l name w h, wProgress_zero l name w h⟩,
   fun f h => ⟨plainF_zero l name f h, fProgress_zero l name f h⟩⟩

/-- `perform` in documented terms: under `AllocInv`, an active WORKING task loses exactly
`plainContrib`. -/
theorem C02_perform_plain {l : Live} (h : AllocInv m l) (working autoFlag : Bool) {t : Nat}
    (ht : t < m.nT) (hw : l.tstate t = .working)
    (hact : working = true ∨ (autoFlag = true ∧ (m.task t).isAuto = true)) :
    (perform m working autoFlag l).rem t = l.rem t - plainContrib m l t := by
  rw [(C02_perform working autoFlag l).1 t ht, if_pos ⟨hw, hact⟩, C02_contrib h hw]

example : AllocInv demo c02L where
  w_two := by
    intro t w; simp only [c02L, Live.empty]
    by_cases ht : t = 0 <;> by_cases hw : w = 0 <;> simp [ht, hw]
  f_two := by intro t f; simp [c02L, Live.empty]
  w_excl := by intro w; simp only [c02L, Live.empty]; split <;> simp
  f_excl := by intro f; simp [c02L, Live.empty]
  w_nodup := by intro t; simp only [c02L, Live.empty]; split <;> simp
  f_nodup := by intro t; simp [c02L, Live.empty]
  fac_only := by intro t; simp [c02L, Live.empty]
  holder := by
    intro t; simp only [c02L, Live.empty]
    by_cases ht : t = 0 <;> simp [ht]

example : plainContrib demo c02L 0 = 1 := by decide +kernel

/-! ### 3. every other phase leaves `rem` alone -/

/-- **C02 (frame).**  `compCheck`, `chkRemove`, `chkReady`, `pert`, `absenceSet`, `allocate`
and `chkWorking` do not change any task's remaining work. -/
theorem C02_frame (l : Live) (time : Nat) (wk : Bool) (lg : Logs) (rule : TaskRule) :
    (compCheck m l).rem = l.rem ∧ (chkRemove m l).rem = l.rem ∧ (chkReady m l).rem = l.rem ∧
    (pert m time l).rem = l.rem ∧ (absenceSet m time wk l).rem = l.rem ∧
    (allocate m lg rule l).rem = l.rem ∧ (chkWorking m l).rem = l.rem :=
  ⟨rfl, chkRemove_rem l, rfl, rfl, rfl, allocate_rem lg rule l, chkWorking_rem l⟩

/-- `check_state(FINISHED)` changes `rem t` only by setting it to 0, and only on the tasks it
turns FINISHED. -/
theorem C02_chkFinished_rem (l : Live) (t : Nat) :
    (chkFinished m l).rem t =
      if (chkFinished m l).tstate t = .finished ∧ l.tstate t ≠ .finished then 0 else l.rem t :=
  chkFinished_rem l t

/-- The same for the whole `__update` block at the top of an iteration. -/
theorem C02_update_rem (time : Nat) (l : Live) (t : Nat) :
    (update m time l).rem t =
      if (update m time l).tstate t = .finished ∧ l.tstate t ≠ .finished then 0 else l.rem t :=
  update_rem_eq time l t

/-! ### 4. FINISHED exactly when the work is done and the finish gate is open -/

/-- **C02 (never earlier).**  A task that `check_state(FINISHED)` turns FINISHED was WORKING
with remaining work ≤ 0, its FF/SF dependencies hold in the resulting state, and its remaining
work is reported as 0. -/
theorem C02_finish_sound (l : Live) (t : Nat) (h0 : l.tstate t ≠ .finished)
    (h1 : (chkFinished m l).tstate t = .finished) :
    l.tstate t = .working ∧ l.rem t ≤ 0 ∧
    finishGate m (chkFinished m l).tstate t = true ∧ (chkFinished m l).rem t = 0 := by
  rcases chkFinished_closes (m := m) l t with ⟨h2, _⟩ | ⟨h2, h3, _, h5⟩
  · rw [h1] at h2; exact absurd h2.symm h0
  · refine ⟨h2, h3, ?_, h5⟩
    rcases chkFinished_gated (m := m) l t h1 with h | h
    · exact absurd h h0
    · exact h

/-- **C02 (never later).**  After `check_state(FINISHED)` no task below `nT` is left WORKING
with remaining work ≤ 0 and an open finish gate: the closure loop (at most `nT + 1` passes)
reaches its fixpoint. -/
theorem C02_finish_complete (l : Live) (t : Nat) (ht : t < m.nT) :
    ¬ ((chkFinished m l).tstate t = .working ∧ (chkFinished m l).rem t ≤ 0 ∧
       finishGate m (chkFinished m l).tstate t = true) := by
  intro ⟨h1, h2, h3⟩
  have h := chkFinished_stable (m := m) l t (List.mem_range.mpr ht)
  simp [finishCand, h1, h2, h3] at h

/-- **C02 (finish, both directions).**  A task `t < nT` that is not FINISHED turns FINISHED in
`check_state(FINISHED)` exactly when it is WORKING, its remaining work is ≤ 0 and its FF/SF
dependencies hold in the resulting state. -/
theorem C02_finish_iff (l : Live) (t : Nat) (ht : t < m.nT) (h0 : l.tstate t ≠ .finished) :
    (chkFinished m l).tstate t = .finished ↔
      (l.tstate t = .working ∧ l.rem t ≤ 0 ∧ finishGate m (chkFinished m l).tstate t = true) := by
  constructor
  · intro h1
    obtain ⟨a, b, c, _⟩ := C02_finish_sound l t h0 h1
    exact ⟨a, b, c⟩
  · intro ⟨h1, h2, h3⟩
    rcases chkFinished_closes (m := m) l t with ⟨e1, e2⟩ | ⟨_, _, h, _⟩
    · exact absurd ⟨e1.trans h1, by rw [e2]; exact h2, h3⟩ (C02_finish_complete l t ht)
    · exact h

/-- The same for the whole `__update` block: a task not yet FINISHED is FINISHED after the
update at the top of the next iteration exactly when it was WORKING with remaining work ≤ 0 and
its FF/SF dependencies hold in the updated state. -/
theorem C02_update_finish_iff (time : Nat) (l : Live) (t : Nat) (ht : t < m.nT)
    (h0 : l.tstate t ≠ .finished) :
    (update m time l).tstate t = .finished ↔
      (l.tstate t = .working ∧ l.rem t ≤ 0 ∧ finishGate m (update m time l).tstate t = true) := by
  rw [update_finished_iff, update_gate]
  exact C02_finish_iff l t ht h0

/-- in the demo run task 0 is WORKING with remaining work 0 after step 2 and is turned
FINISHED by the next `check_state(FINISHED)` -/
example : ((runTrace demo demoP St.fresh)[2]?.map fun s =>
      (s.live.tstate 0, s.live.rem 0, (chkFinished demo s.live).tstate 0)) =
    some (.working, 0, .finished) := by decide +kernel

/-! ### 5. the initial remaining work -/

/-- **C02 (init).**  After `initialize(state_info=True)` the remaining work of every task is
`default_work_amount * (1 - default_progress)`. -/
theorem C02_init (logInfo : Bool) (s : St) (t : Nat) (ht : t < m.nT) :
    (initProject m true logInfo s).live.rem t = (m.task t).work * (1 - (m.task t).prog) :=
  initProject_rem logInfo s t ht

example : (initProject demo true true St.fresh).live.rem 0 = 2 := by decide +kernel

/-! ### 6. one loop step, and the trace -/

/-- the state `preCost` abbreviates, spelled out as in `stepBody`: `check_state(WORKING)` runs
on working steps and, when automatic tasks are performed during absence, on absence steps; at a
project absence step with the flag off nothing starts -/
theorem C02_preCost_eq (s1 : St) :
    preCost m p s1 =
      compCheck m
        (if workingAt p s1.time || p.autoFlag then chkWorking m
          (if workingAt p s1.time then
            allocate m s1.logs p.rule (absenceSet m s1.time (workingAt p s1.time) s1.live)
           else absenceSet m s1.time (workingAt p s1.time) s1.live)
         else
          (if workingAt p s1.time then
            allocate m s1.logs p.rule (absenceSet m s1.time (workingAt p s1.time) s1.live)
           else absenceSet m s1.time (workingAt p s1.time) s1.live)) := rfl

/-- **C02 (step).**  One loop step (`stepBody`, from any state `s1`, in particular
`s1 = updated m s`) lowers the remaining work of task `t` by `contrib m l4 t` exactly when
`t < nT` is WORKING after `check_state(WORKING)` and the step is active for it, where
`l4 = preCost m p s1` is the live state at the cost/perform boundary; otherwise the remaining
work is unchanged.  The task states after the step are those of `l4`, and the contribution can
equally be read off the state the step records. -/
theorem C02_step (s1 : St) (t : Nat) :
    (stepBody m p s1).live.rem t =
      (if t < m.nT ∧ (preCost m p s1).tstate t = .working ∧
          (workingAt p s1.time = true ∨ (p.autoFlag = true ∧ (m.task t).isAuto = true))
       then s1.live.rem t - contrib m (preCost m p s1) t else s1.live.rem t) ∧
    (stepBody m p s1).live.tstate = (preCost m p s1).tstate ∧
    contrib m (stepBody m p s1).live t = contrib m (preCost m p s1) t :=
  ⟨stepBody_rem p s1 t, rfl, rfl⟩

/-- **C02 (iteration).**  A whole loop iteration (`__update`, then the step): the remaining work
is first set to 0 if the task is newly FINISHED, then lowered by the contribution if the task is
WORKING and the step active.  Everything on the right is read off the state before (`s`) and the
state the iteration records (`s' = stepBody m p (updated m s)`). -/
theorem C02_iteration (s : St) (t : Nat) :
    (stepBody m p (updated m s)).live.rem t =
      (if (stepBody m p (updated m s)).live.tstate t = .finished ∧ s.live.tstate t ≠ .finished
        then 0 else s.live.rem t) -
      (if t < m.nT ∧ (stepBody m p (updated m s)).live.tstate t = .working ∧
          (workingAt p s.time = true ∨ (p.autoFlag = true ∧ (m.task t).isAuto = true))
       then contrib m (stepBody m p (updated m s)).live t else 0) := by
  have hfin : (stepBody m p (updated m s)).live.tstate t = .finished ↔
      (update m s.time s.live).tstate t = .finished :=
    (preCost_start p (updated m s)).finished_iff t
  have e : (updated m s).live.rem t =
      if (update m s.time s.live).tstate t = .finished ∧ s.live.tstate t ≠ .finished
      then 0 else s.live.rem t := update_rem_eq s.time s.live t
  simp only [hfin]
  rw [(C02_step (updated m s) t).1, ite_sub_ite, e]
  rfl

/-- **C02 (trace).**  Consecutive recorded states of the loop: `trace[k+1]` arises from
`trace[k]` by one iteration, so its remaining work obeys `C02_iteration`. -/
theorem C02_trace_step (fuel : Nat) (s : St) (k : Nat) (hk : k + 1 < (trace m p fuel s).length)
    (t : Nat) :
    ((trace m p fuel s)[k + 1]).live.rem t =
      (if ((trace m p fuel s)[k + 1]).live.tstate t = .finished ∧
          ((trace m p fuel s)[k]).live.tstate t ≠ .finished
        then 0 else ((trace m p fuel s)[k]).live.rem t) -
      (if t < m.nT ∧ ((trace m p fuel s)[k + 1]).live.tstate t = .working ∧
          (workingAt p (s.time + k + 1) = true ∨ (p.autoFlag = true ∧ (m.task t).isAuto = true))
       then contrib m ((trace m p fuel s)[k + 1]).live t else 0) := by
  rw [trace_succ p fuel s k hk, C02_iteration, trace_time fuel s k (by omega)]

/-- the first recorded state arises from the start state by one iteration -/
theorem C02_trace_first (fuel : Nat) (s : St) (h0 : 0 < (trace m p fuel s).length) (t : Nat) :
    ((trace m p fuel s)[0]).live.rem t =
      (if ((trace m p fuel s)[0]).live.tstate t = .finished ∧ s.live.tstate t ≠ .finished
        then 0 else s.live.rem t) -
      (if t < m.nT ∧ ((trace m p fuel s)[0]).live.tstate t = .working ∧
          (workingAt p s.time = true ∨ (p.autoFlag = true ∧ (m.task t).isAuto = true))
       then contrib m ((trace m p fuel s)[0]).live t else 0) := by
  rw [trace_zero p fuel s h0, C02_iteration]

/-- **C02 (FINISHED reports 0), trace form.**  If the start state reports 0 for task `t` when it
is FINISHED, so does every recorded state of the loop. -/
theorem C02_trace_finished_zero (fuel : Nat) (s : St) (t : Nat)
    (h : s.live.tstate t = .finished → s.live.rem t = 0) :
    ∀ s' ∈ trace m p fuel s, s'.live.tstate t = .finished → s'.live.rem t = 0 :=
  trace_finzero p fuel s t h

example : 2 < (trace demo demoP 9 St.fresh).length := by decide +kernel

/-! ### 7. the logs of a run (via the bridge of C08) -/

/-- **C02 (log).**  In the logs of a run (with `initLog = true`), for consecutive executed steps
`k`, `k+1` and a task `t < nT`: entry `k+1` of `remaining_work_amount_record_list` is entry `k`
— replaced by 0 if the task's logged state turns FINISHED between the two entries — minus the
contribution computed at step `k+1` if the task is then WORKING and the step is active for it
(`contrib` evaluated on the live state recorded at step `k+1`, which by C08 is the state row
`k+1` of the logs displays). -/
theorem C02_run_log (s : St) (h : p.initLog = true) (k : Nat)
    (hk : k + 1 < (runTrace m p s).length) (t : Nat) (ht : t < m.nT) :
    ∃ a b, ((simulate m p s).logs.tRem t)[k]? = some a ∧
      ((simulate m p s).logs.tRem t)[k + 1]? = some b ∧
      b = (if ((simulate m p s).logs.tState t)[k + 1]? = some .finished ∧
              ((simulate m p s).logs.tState t)[k]? ≠ some .finished then 0 else a) -
          (if ((runTrace m p s)[k + 1]).live.tstate t = .working ∧
              (workingAt p (k + 1) = true ∨ (p.autoFlag = true ∧ (m.task t).isAuto = true))
           then contrib m ((runTrace m p s)[k + 1]).live t else 0) := by
  have r0 := C08_run_entry (m := m) s h k (by omega)
  have r1 := C08_run_entry (m := m) s h (k + 1) hk
  refine ⟨_, _, r0.tRem t ht, r1.tRem t ht, ?_⟩
  rw [r0.tState t ht, r1.tState t ht]
  simp only [Option.some.injEq, ne_eq, showT_finished_iff]
  have h2 := C02_trace_step (p := p) (fuelOf p (enter m p s)) (enter m p s) k hk t
  rw [enter_time s h] at h2
  simp only [Nat.zero_add, ht, true_and] at h2
  exact h2

/-- **C02 (log, FINISHED is 0), general form.**  If the state the run enters its loop with
reports 0 for `t` whenever `t` is FINISHED, every log row that shows `t` FINISHED shows
remaining work 0. -/
theorem C02_run_finished_zero_of (s : St) (h : p.initLog = true) (t : Nat) (ht : t < m.nT)
    (h0 : (enter m p s).live.tstate t = .finished → (enter m p s).live.rem t = 0)
    (k : Nat) (hk : k < (runTrace m p s).length)
    (hf : ((simulate m p s).logs.tState t)[k]? = some .finished) :
    ((simulate m p s).logs.tRem t)[k]? = some 0 := by
  have r := C08_run_entry (m := m) s h k hk
  rw [r.tState t ht] at hf
  rw [r.tRem t ht]
  simp only [Option.some.injEq, showT_finished_iff] at hf
  congr 1
  exact C02_trace_finished_zero (p := p) (fuelOf p (enter m p s)) (enter m p s) t h0 _
    (List.getElem_mem hk) hf

/-- **C02 (log, FINISHED is 0).**  After a run with `initState = initLog = true`, for a task not
finished by its default progress, every log row whose state entry is FINISHED has remaining
work 0. -/
theorem C02_run_finished_zero (s : St) (h : p.initLog = true) (hs : p.initState = true)
    (t : Nat) (ht : t < m.nT) (hex : ¬ exempt m t)
    (k : Nat) (hk : k < (runTrace m p s).length)
    (hf : ((simulate m p s).logs.tState t)[k]? = some .finished) :
    ((simulate m p s).logs.tRem t)[k]? = some 0 :=
  C02_run_finished_zero_of s h t ht
    (fun hfin => absurd hfin (enter_not_finished p s hs t ht hex)) k hk hf

example : demoP.initLog = true ∧ demoP.initState = true ∧ ¬ exempt demo 0 ∧
    (runTrace demo demoP St.fresh).length = 4 := by
  refine ⟨rfl, rfl, ?_, ?_⟩
  · unfold exempt; decide +kernel
  · decide +kernel

/-- the demo run: task 0 (work 2, one worker of skill 1, step 1 a project absence) -/
example : (simulate demo demoP St.fresh).logs.tRem 0 = [1, 1, 0, 0] ∧
    (simulate demo demoP St.fresh).logs.tState 0 = [.working, .ready, .working, .finished] := by
  decide +kernel

end PDesy

#print axioms PDesy.C02_perform
#print axioms PDesy.C02_contrib
#print axioms PDesy.C02_contrib_zero
#print axioms PDesy.C02_perform_plain
#print axioms PDesy.C02_frame
#print axioms PDesy.C02_chkFinished_rem
#print axioms PDesy.C02_update_rem
#print axioms PDesy.C02_finish_sound
#print axioms PDesy.C02_finish_complete
#print axioms PDesy.C02_finish_iff
#print axioms PDesy.C02_update_finish_iff
#print axioms PDesy.C02_init
#print axioms PDesy.C02_step
#print axioms PDesy.C02_iteration
#print axioms PDesy.C02_trace_step
#print axioms PDesy.C02_trace_first
#print axioms PDesy.C02_trace_finished_zero
#print axioms PDesy.C02_run_log
#print axioms PDesy.C02_run_finished_zero_of
#print axioms PDesy.C02_run_finished_zero
