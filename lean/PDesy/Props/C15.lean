/-
  PDesy.Props.C15 — "A run paused at any step and resumed gives exactly the uninterrupted
  result".

  Stopping a simulation at an arbitrary step `k` (`max_time = k`) and continuing it with state
  and log initialisation switched off produces exactly the same project state — logs, costs,
  time, status, live data — as one uninterrupted run.

  FULL STATEMENT (for every model `m`, parameters `p`, start state `s`, `k ≤ M`):

      simulate m { p with maxTime := M, initState := false, initLog := false }
          (simulate m { p with maxTime := k } s)
        = simulate m { p with maxTime := M } s

  What is proved here:
  * `C15_of_update_idem`: the full statement for ANY model, from one hypothesis: the update
    block is idempotent at the states the run visits (given through an invariant).
  * `C15_update_idem`: the update block IS idempotent on its own output, phase by phase and
    without any assumption for `check_state(FINISHED)` (fixpoint), `product.check_state`,
    `check_removing_placed_workplace`, `check_state(READY)`; for `update_PERT_data` under
    "links stay inside the task list" (`WF`) and "no task with a finish-to-start successor has
    a negative remaining work amount at the PERT call".
  * `C15_partial`: the full statement for models in which no task has both a finish gate (an
    FF/SF predecessor) and a finish-to-start successor (`GateOK`; in particular for models
    without FF/SF links, `C15_partial_noGate`), with well-formed links, started either with
    `initState = true` from non-negative work amounts (`WorkOK`) or from any state whose
    non-WORKING tasks have non-negative remaining work.
  * `C15_of_pert_idem`: the full statement for any model, with the idempotence of
    `update_PERT_data` taken as an explicit hypothesis.

  What is missing for the other FF/SF models: a WORKING task whose finish gate is closed keeps
  working and its remaining work goes negative.  If it has a finish-to-start successor, the
  forward relaxation along that link proposes an `est` below `time`, is rejected, and the
  successor keeps its old `eft`, which a later FF relaxation may read before it is rewritten.
  `pert m t (pert m t l) = pert m t l` in that situation needs a "last write wins" argument
  over the waves (every value read at the last write of a task is final), which moreover needs
  the waves to die out before the fuel `m.nT + 1` does (acyclic links): on a CYCLIC link graph
  and an arbitrary state, `pert` is NOT idempotent (random search: tasks 0..3, links
  0→3 SS, 1→2 FS, 1→3 FF, 2→1 FS, 3→2 FF, `rem = [2, 1/2, -1/2, -2]`, `eft = [5, 4, 6, 6]`,
  time 3: `eft 3` is 4 after one application and 7/2 after two).  That state is not reachable
  (task 2 never starts), and no counterexample to the full statement of C15 is known: 300
  random acyclic FF/SF models, 3400 with back links (5 tasks, 2-3 workers, every pause point),
  and the FF model `ffM` below (which does overshoot behind a closed FF gate and has an FS
  successor) all satisfy it at every `k`.
-/
import PDesy.Lemmas.Idem
import PDesy.Lemmas.Logs
import PDesy.Model.Ser

namespace PDesy

open Idem

/-! ### the two ingredients -/

/-- **C15, update block.**  Applying `__update` to a state that `__update` has just produced (at
the same time) changes nothing.  Hypotheses: dependency links stay inside the task list, and
after `check_state(FINISHED)` no task below `m.nT` that has a finish-to-start successor has a
negative remaining work amount (only the PERT recomputation needs them). -/
theorem C15_update_idem (m : Model) (hwf : WF m) (time : Nat) (l : Live)
    (hrem : ∀ t, t < m.nT → FsSrc m t → 0 ≤ (chkFinished m l).rem t) :
    update m time (update m time l) = update m time l :=
  update_idem m hwf time l hrem

/-- the same from hypotheses on the model and on the state before the block: no task has both
an FF/SF predecessor and an FS successor, and every non-WORKING task has a non-negative
remaining work amount -/
theorem C15_update_idem_gateOK (m : Model) (hwf : WF m) (hng : GateOK m) (time : Nat)
    (l : Live) (hrem : RemOK m l) : update m time (update m time l) = update m time l :=
  update_idem m hwf time l (chkFinished_rem_nonneg m hng l hrem)

/-- the phases other than PERT need no hypothesis at all: if `update_PERT_data` is idempotent,
so is the whole block, on every model and state -/
theorem C15_update_idem_of_pert (m : Model) (time : Nat) (l : Live)
    (hpert : ∀ l', pert m time (pert m time l') = pert m time l') :
    update m time (update m time l) = update m time l :=
  update_idem_of_pert m time l hpert

/-- **C15, PERT part.**  `update_PERT_data` recomputed on its own output gives the same data
when no task with a finish-to-start successor has a negative remaining work amount (and links
stay inside the task list). -/
theorem C15_pert_idem (m : Model) (hwf : WF m) (time : Nat) (l : Live)
    (hrem : ∀ t, t < m.nT → FsSrc m t → 0 ≤ l.rem t) : pert m time (pert m time l) = pert m time l :=
  pert_idem m hwf time l hrem

/-- **C15, fuel.**  The result of the loop does not depend on the amount of fuel, as long as
there is enough of it (`fuelOf p s = p.maxTime - s.time + 1`, what `simulate` supplies). -/
theorem C15_fuel_irrelevant (m : Model) (p : Params) (fuel : Nat) (s : St)
    (h : fuelOf p s ≤ fuel) : loop m p fuel s = loop m p (fuelOf p s) s :=
  loop_fuel m p fuel s h

/-- **C15, status / mode.**  The loop never reads the `status` it was started with, and it
carries `mode` through untouched. -/
theorem C15_status_irrelevant (m : Model) (p : Params) (x : Status) (fuel : Nat) (s : St)
    (h : fuelOf p s ≤ fuel) : loop m p fuel { s with status := x } = loop m p fuel s :=
  loop_status m p x fuel s h

theorem C15_mode_irrelevant (m : Model) (p : Params) (x : Mode) (fuel : Nat) (s : St) :
    loop m p fuel { s with mode := x } = { loop m p fuel s with mode := x } :=
  loop_set_mode m p x fuel s

/-! ### pause and resume -/

/-- re-setting `mode/absence/autoFlag` to the values they have is the identity -/
theorem C15_reenter (X : St) (a : List Nat) (b : Bool) (h1 : X.mode = .forward)
    (h2 : X.absence = a) (h3 : X.autoFlag = b) :
    ({ X with mode := .forward, absence := a, autoFlag := b } : St) = X := by
  cases X
  simp only at h1 h2 h3
  subst h1 h2 h3
  rfl

/-- **C15 from idempotence of the update block** (any model).  `Inv` is any property of the
states of the run that is kept by `__update` and by a step and at which `__update` is
idempotent; it must hold when the loop is entered. -/
theorem C15_of_update_idem (m : Model) (p : Params) (s : St) (k M : Nat) (hk : k ≤ M)
    (Inv : St → Prop)
    (hupd : ∀ s, Inv s → Inv (updated m s))
    (hstep : ∀ s, Inv s → Inv (stepBody m { p with maxTime := M } s))
    (hidem : ∀ s, Inv s → updated m (updated m s) = updated m s)
    (h0 : Inv (enter m { p with maxTime := M } s)) :
    simulate m { p with maxTime := M, initState := false, initLog := false }
        (simulate m { p with maxTime := k } s)
      = simulate m { p with maxTime := M } s := by
  -- the paused run and the uninterrupted run enter the loop with the same state `s0`
  have hX : simulate m { p with maxTime := k } s
      = run m { { p with maxTime := M } with maxTime := k } (enter m { p with maxTime := M } s) := rfl
  have hR : simulate m { p with maxTime := M } s
      = run m { p with maxTime := M } (enter m { p with maxTime := M } s) := rfl
  rw [hR, hX]
  generalize hXd : run m { { p with maxTime := M } with maxTime := k }
    (enter m { p with maxTime := M } s) = X
  -- the resumed run enters its loop with the paused state itself
  have hent : enter m { p with maxTime := M, initState := false, initLog := false } X = X := by
    apply C15_reenter
    · rw [← hXd]; exact loop_mode m _ _ _
    · rw [← hXd]; exact loop_absence m _ _ _
    · rw [← hXd]; exact loop_autoFlag m _ _ _
  rw [simulate_eq, hent]
  have hpar := loop_params m { p with maxTime := M }
    { p with maxTime := M, initState := false, initLog := false } rfl rfl rfl rfl
  rw [hpar]
  show run m { p with maxTime := M } X = _
  rw [← hXd]
  exact resume_core m { p with maxTime := M } k hk Inv hupd hstep hidem
    (k - (enter m { p with maxTime := M } s).time) _ (Nat.le_refl _) h0

/-- **C15 for any model, with the idempotence of `update_PERT_data` as a hypothesis.** -/
theorem C15_of_pert_idem (m : Model) (p : Params) (s : St) (k M : Nat) (hk : k ≤ M)
    (hpert : ∀ (time : Nat) (l : Live), pert m time (pert m time l) = pert m time l) :
    simulate m { p with maxTime := M, initState := false, initLog := false }
        (simulate m { p with maxTime := k } s)
      = simulate m { p with maxTime := M } s := by
  refine C15_of_update_idem m p s k M hk (fun _ => True) (fun _ _ => trivial) (fun _ _ => trivial)
    ?_ trivial
  intro s _
  show ({ updated m s with live := update m s.time (update m s.time s.live) } : St) = _
  rw [update_idem_of_pert m s.time s.live (hpert s.time)]
  rfl

/-- **C15 (partial: no task with both a finish gate and a finish-to-start successor).**  A run
paused at any step `k ≤ M` and resumed with `initState = initLog = false` ends in exactly the
state of the uninterrupted run to `M` — for every `k`, including `0` and values beyond the
makespan.

Hypotheses: links stay inside the task list (`WF`); no task has both an FF/SF predecessor and
an FS successor (`GateOK`); and the first run either initialises the state from non-negative
work amounts and default progress at most 1 (`WorkOK`), or starts from a state whose
non-WORKING tasks have non-negative remaining work (`RemOK`). -/
theorem C15_partial (m : Model) (p : Params) (s : St) (k M : Nat) (hk : k ≤ M)
    (hwf : WF m) (hng : GateOK m)
    (hstart : (p.initState = true ∧ WorkOK m) ∨ (p.initState = false ∧ RemOK m s.live)) :
    simulate m { p with maxTime := M, initState := false, initLog := false }
        (simulate m { p with maxTime := k } s)
      = simulate m { p with maxTime := M } s := by
  refine C15_of_update_idem m p s k M hk (fun s => RemOK m s.live)
    (fun s h => RemOK_update m s.time s.live h)
    (fun s h => RemOK_stepBody m _ s h)
    (fun s h => updated_idem m hwf hng s h) ?_
  rcases hstart with ⟨hi, hw⟩ | ⟨hi, hr⟩
  · exact RemOK_enter m hw { p with maxTime := M } s hi
  · show RemOK m (initProject m p.initState p.initLog s).live
    rw [hi]
    unfold initProject
    cases p.initLog <;> exact hr

/-- **C15 for models without FF/SF links.** -/
theorem C15_partial_noGate (m : Model) (p : Params) (s : St) (k M : Nat) (hk : k ≤ M)
    (hwf : WF m) (hng : NoFinishGate m)
    (hstart : (p.initState = true ∧ WorkOK m) ∨ (p.initState = false ∧ RemOK m s.live)) :
    simulate m { p with maxTime := M, initState := false, initLog := false }
        (simulate m { p with maxTime := k } s)
      = simulate m { p with maxTime := M } s :=
  C15_partial m p s k M hk hwf hng.gateOK hstart

/-! ### corollaries: what the property names explicitly -/

section corollaries
variable (m : Model) (p : Params) (s : St) (k M : Nat) (hk : k ≤ M) (hwf : WF m)
  (hng : GateOK m)
  (hstart : (p.initState = true ∧ WorkOK m) ∨ (p.initState = false ∧ RemOK m s.live))
include hk hwf hng hstart

/-- same logs (task/worker/facility/component states, allocations, all cost lists) -/
theorem C15_logs :
    (simulate m { p with maxTime := M, initState := false, initLog := false }
        (simulate m { p with maxTime := k } s)).logs
      = (simulate m { p with maxTime := M } s).logs :=
  congrArg St.logs (C15_partial m p s k M hk hwf hng hstart)

/-- same project cost list in particular -/
theorem C15_cost :
    (simulate m { p with maxTime := M, initState := false, initLog := false }
        (simulate m { p with maxTime := k } s)).logs.projCost
      = (simulate m { p with maxTime := M } s).logs.projCost :=
  congrArg (fun x => x.logs.projCost) (C15_partial m p s k M hk hwf hng hstart)

/-- same final time -/
theorem C15_time :
    (simulate m { p with maxTime := M, initState := false, initLog := false }
        (simulate m { p with maxTime := k } s)).time
      = (simulate m { p with maxTime := M } s).time :=
  congrArg St.time (C15_partial m p s k M hk hwf hng hstart)

/-- same final status -/
theorem C15_status :
    (simulate m { p with maxTime := M, initState := false, initLog := false }
        (simulate m { p with maxTime := k } s)).status
      = (simulate m { p with maxTime := M } s).status :=
  congrArg St.status (C15_partial m p s k M hk hwf hng hstart)

/-- same live state -/
theorem C15_live :
    (simulate m { p with maxTime := M, initState := false, initLog := false }
        (simulate m { p with maxTime := k } s)).live
      = (simulate m { p with maxTime := M } s).live :=
  congrArg St.live (C15_partial m p s k M hk hwf hng hstart)

end corollaries

/-! ### non-vacuity: concrete models -/

namespace C15Ex

/-- the parameters of the demo runs: step 1 is an absence step -/
def demoP : Params := { absence := [1] }

/-- the paused-and-resumed run (pause at `k`, then on to `M`) from a fresh project, serialised
(`St` holds functions, so states are compared through `putSt`) -/
def resumed (m : Model) (p : Params) (k M : Nat) : List String :=
  putSt m (simulate m { p with maxTime := M, initState := false, initLog := false }
    (simulate m { p with maxTime := k } St.fresh))

/-- the uninterrupted run to `M`, serialised -/
def straight (m : Model) (p : Params) (M : Nat) : List String :=
  putSt m (simulate m { p with maxTime := M } St.fresh)

theorem demo_wf : WF Logs.demo := by
  intro t ht
  have : t = 0 ∨ t = 1 := by simp only [Logs.demo] at ht; omega
  rcases this with rfl | rfl <;> decide +kernel

theorem demo_noGate : NoFinishGate Logs.demo := by
  intro t ht
  have : t = 0 ∨ t = 1 := by simp only [Logs.demo] at ht; omega
  rcases this with rfl | rfl <;> decide +kernel

theorem demo_workOK : WorkOK Logs.demo := by
  intro t ht
  have : t = 0 ∨ t = 1 := by simp only [Logs.demo] at ht; omega
  rcases this with rfl | rfl <;> decide +kernel

open Lifecycle in
theorem exM_wf : WF exM := by
  intro t ht
  have : t = 0 ∨ t = 1 ∨ t = 2 ∨ t = 3 := by simp only [exM] at ht; omega
  rcases this with rfl | rfl | rfl | rfl <;> decide +kernel

/-- `Lifecycle.exM` has FF and SF links, but the gated task (2) has no successor at all -/
theorem exM_gateOK : GateOK Lifecycle.exM := by
  intro t ht hfs
  have : t = 0 ∨ t = 1 ∨ t = 2 ∨ t = 3 := by simp only [Lifecycle.exM] at ht; omega
  rcases this with rfl | rfl | rfl | rfl
  · decide +kernel
  · decide +kernel
  · exfalso; obtain ⟨e, he, _⟩ := hfs; simp [Lifecycle.exM] at he
  · decide +kernel

open Lifecycle in
theorem exM_workOK : WorkOK exM := by
  intro t ht
  have : t = 0 ∨ t = 1 ∨ t = 2 ∨ t = 3 := by simp only [exM] at ht; omega
  rcases this with rfl | rfl | rfl | rfl <;> decide +kernel

/-- A model WITH finish gates, outside the reach of `C15_partial`: task 1 (work 1/2) may only
finish after task 0 (work 3) has (FF), so it overshoots to −1/2, −3/2, −5/2 behind the closed
gate; task 2 follows task 1 (FS), task 3 follows task 2 (FF) and task 0 (SF). -/
def ffM : Model where
  nT := 4
  nW := 2
  nF := 0
  nTeam := 1
  nWp := 0
  nC := 1
  task := fun t =>
    match t with
    | 0 => { name := 0, work := 3, outputs := [(1, .ff), (3, .sf)], comp := some 0 }
    | 1 => { name := 1, work := 1/2, inputs := [(0, .ff)], outputs := [(2, .fs)], comp := some 0 }
    | 2 => { name := 2, work := 1, inputs := [(1, .fs)], outputs := [(3, .ff)] }
    | _ => { name := 3, work := 3/2, inputs := [(2, .ff), (0, .sf)] }
  worker := fun w =>
    match w with
    | 0 => { team := 0, skills := [(0, 1), (2, 1)], cost := 2 }
    | _ => { team := 0, skills := [(1, 1), (3, 1)], cost := 3 }
  fac := fun _ => {}
  team := fun _ => { workers := [0, 1], targets := [0, 1, 2, 3] }
  wp := fun _ => {}
  comp := fun _ => { tasks := [0, 1] }

/-- a CYCLIC link graph (1 ⇄ 2 by FS, 3 → 2 by FF) on which `update_PERT_data` is not
idempotent at the (unreachable) state `cycL` -/
def cycM : Model where
  nT := 4
  nW := 0
  nF := 0
  nTeam := 0
  nWp := 0
  nC := 0
  task := fun t =>
    match t with
    | 0 => { name := 0, outputs := [(3, .ss)] }
    | 1 => { name := 1, inputs := [(2, .fs)], outputs := [(2, .fs), (3, .ff)] }
    | 2 => { name := 2, inputs := [(1, .fs), (3, .ff)], outputs := [(1, .fs)] }
    | _ => { name := 3, inputs := [(0, .ss), (1, .ff)], outputs := [(2, .ff)] }
  worker := fun _ => {}
  fac := fun _ => {}
  team := fun _ => {}
  wp := fun _ => {}
  comp := fun _ => {}

def cycL : Live :=
  { Live.empty with
    rem := fun t => match t with | 0 => 2 | 1 => 1/2 | 2 => -1/2 | _ => -2
    eft := fun t => match t with | 0 => 5 | 1 => 4 | 2 => 6 | _ => 6 }

end C15Ex

open C15Ex

/-- the hypotheses of `C15_partial` are satisfiable: the demo model (two tasks in sequence, a
facility, an absence step), for every pause point `k` and horizon `M ≥ k` -/
example (k M : Nat) (hk : k ≤ M) :
    simulate Logs.demo { demoP with maxTime := M, initState := false, initLog := false }
        (simulate Logs.demo { demoP with maxTime := k } St.fresh)
      = simulate Logs.demo { demoP with maxTime := M } St.fresh :=
  C15_partial_noGate Logs.demo demoP St.fresh k M hk demo_wf demo_noGate (Or.inl ⟨rfl, demo_workOK⟩)

/-- `C15_partial` also covers models with FF and SF links, such as `Lifecycle.exM` -/
example (k M : Nat) (hk : k ≤ M) :
    simulate Lifecycle.exM { demoP with maxTime := M, initState := false, initLog := false }
        (simulate Lifecycle.exM { demoP with maxTime := k } St.fresh)
      = simulate Lifecycle.exM { demoP with maxTime := M } St.fresh :=
  C15_partial Lifecycle.exM demoP St.fresh k M hk exM_wf exM_gateOK (Or.inl ⟨rfl, exM_workOK⟩)

/-- … and the second way of starting: no state initialisation, from a state with no negative
remaining work -/
example : RemOK Logs.demo St.fresh.live := fun _ _ _ => Rat.le_refl

/-- the hypothesis of `C15_update_idem` holds at the fresh state of the demo model -/
example : ∀ t, t < Logs.demo.nT → FsSrc Logs.demo t →
    0 ≤ (chkFinished Logs.demo St.fresh.live).rem t := by
  intro t ht _
  have : t = 0 ∨ t = 1 := by simp only [Logs.demo] at ht; omega
  rcases this with rfl | rfl <;> decide +kernel

/-- the demo run is not trivial: it takes 4 steps and succeeds -/
example : (simulate Logs.demo { demoP with maxTime := 20 } St.fresh).time = 4 ∧
    (simulate Logs.demo { demoP with maxTime := 20 } St.fresh).status = .success := by
  decide +kernel

/-- checked by evaluation, independently of the theorem: pausing the demo run at every
`k = 0 … makespan + 2` and resuming gives the uninterrupted state, field for field -/
example : ∀ k ∈ List.range 7, resumed Logs.demo demoP k 20 = straight Logs.demo demoP 20 := by
  decide +kernel

/-- the same when the horizon itself is too short (both runs end with FAILURE at time 2) -/
example : (∀ k ∈ List.range 3, resumed Logs.demo demoP k 2 = straight Logs.demo demoP 2) ∧
    (simulate Logs.demo { demoP with maxTime := 2 } St.fresh).status = .failure := by
  decide +kernel

/-- `k ≤ M` is needed: pausing later than the horizon is not running to the horizon -/
example : resumed Logs.demo demoP 4 3 ≠ straight Logs.demo demoP 3 := by decide +kernel

/-- the FF/SF model really overshoots behind a closed finish gate … -/
example : (simulate ffM { maxTime := 20 } St.fresh).logs.tRem 1 = [-1/2, -3/2, -5/2, 0, 0] := by
  decide +kernel

/-- … and pause/resume still gives the uninterrupted state at every `k = 0 … makespan + 1`
(evaluation only: this model is outside `C15_partial`) -/
example : ∀ k ∈ List.range 7,
    resumed ffM { absence := [2] } k 20 = straight ffM { absence := [2] } 20 := by
  decide +kernel

/-- the hypothesis of `C15_of_pert_idem` cannot be had for every model: on the cyclic graph
`cycM`, with negative remaining work, the fuel of the forward pass runs out between the
stale read of `eft 1` and its correction (`eft 3` is 4 after one application, 7/2 after two) -/
example : (pert cycM 3 cycL).eft 3 = 4 ∧ (pert cycM 3 (pert cycM 3 cycL)).eft 3 = 7/2 := by
  decide +kernel

end PDesy

#print axioms PDesy.C15_update_idem
#print axioms PDesy.C15_update_idem_gateOK
#print axioms PDesy.C15_update_idem_of_pert
#print axioms PDesy.C15_pert_idem
#print axioms PDesy.C15_fuel_irrelevant
#print axioms PDesy.C15_status_irrelevant
#print axioms PDesy.C15_mode_irrelevant
#print axioms PDesy.C15_of_update_idem
#print axioms PDesy.C15_of_pert_idem
#print axioms PDesy.C15_partial
#print axioms PDesy.C15_partial_noGate
#print axioms PDesy.C15_logs
#print axioms PDesy.C15_cost
#print axioms PDesy.C15_time
#print axioms PDesy.C15_status
#print axioms PDesy.C15_live
