/-
  PDesy.Props.C15 — "A run paused at any step and resumed gives exactly the uninterrupted
  result".

  Stopping a simulation at an arbitrary step `k` (`max_time = k`) and continuing it with state
  and log initialisation switched off produces exactly the same project state — logs, costs,
  time, status, live data — as one uninterrupted run.

  FULL STATEMENT (for every model `m`, parameters `p`, start state `s`, `k ≤ M`):

      simulate m { p with maxTime := M, initState := false, initLog := false }
          (simulate m { p with maxTime := k } s)
        = simulate m { p with maxTime := M } s

  What is proved here:
  * `C15_of_update_idem`: the full statement for ANY model, from one hypothesis: the update
    block is idempotent at the states the run visits (given through an invariant).
  * `C15_update_idem`: the update block IS idempotent on its own output, phase by phase and
    without any assumption for `check_state(FINISHED)` (fixpoint), `product.check_state`,
    `check_removing_placed_workplace`, `check_state(READY)`; for `update_PERT_data` under
    "links stay inside the task list" (`WF`) and "no negative remaining work at the PERT call".
  * `C15_partial`: the full statement for models without FF/SF links (`NoFinishGate`), with
    well-formed links, started either with `initState = true` from non-negative work amounts
    (`WorkOK`) or from any state whose non-WORKING tasks have non-negative remaining work.
  * `C15_of_pert_idem`: the full statement for any model, with the idempotence of
    `update_PERT_data` taken as an explicit hypothesis.

  What is missing for FF/SF models: a WORKING task whose finish gate is closed keeps working
  and its remaining work goes negative.  Then a forward relaxation out of it proposes an `est`
  below `time`, is rejected, and the target keeps its old `eft`, which a later FF relaxation
  reads.  `pert m t (pert m t l) = pert m t l` in that situation needs a "last write wins"
  argument over the waves (every value read at the last write of a task is final) that is not
  done here; no counterexample is known (see the FF/SF `example`s at the end, where the
  equality is checked by evaluation on a model that does overshoot behind a closed FF gate).
-/
import PDesy.Lemmas.Idem
import PDesy.Lemmas.Logs
import PDesy.Model.Ser

namespace PDesy

open Idem

/-! ### the two ingredients -/

/-- **C15, update block.**  Applying `__update` to a state that `__update` has just produced (at
the same time) changes nothing.  Hypotheses: dependency links stay inside the task list, and
after `check_state(FINISHED)` no task below `m.nT` has a negative remaining work amount (only
the PERT recomputation needs them). -/
theorem C15_update_idem (m : Model) (hwf : WF m) (time : Nat) (l : Live)
    (hrem : ∀ t, t < m.nT → 0 ≤ (chkFinished m l).rem t) :
    update m time (update m time l) = update m time l :=
  update_idem m hwf time l hrem

/-- the same from hypotheses on the model and on the state before the block: no FF/SF links,
and every non-WORKING task has a non-negative remaining work amount -/
theorem C15_update_idem_noGate (m : Model) (hwf : WF m) (hng : NoFinishGate m) (time : Nat)
    (l : Live) (hrem : RemOK m l) : update m time (update m time l) = update m time l :=
  update_idem m hwf time l (chkFinished_rem_nonneg m hng l hrem)

/-- the phases other than PERT need no hypothesis at all: if `update_PERT_data` is idempotent,
so is the whole block, on every model and state -/
theorem C15_update_idem_of_pert (m : Model) (time : Nat) (l : Live)
    (hpert : ∀ l', pert m time (pert m time l') = pert m time l') :
    update m time (update m time l) = update m time l :=
  update_idem_of_pert m time l hpert

/-- **C15, PERT part.**  `update_PERT_data` recomputed on its own output gives the same data
when no remaining work amount is negative (and links stay inside the task list). -/
theorem C15_pert_idem (m : Model) (hwf : WF m) (time : Nat) (l : Live)
    (hrem : ∀ t, t < m.nT → 0 ≤ l.rem t) : pert m time (pert m time l) = pert m time l :=
  pert_idem m hwf time l hrem

/-- **C15, fuel.**  The result of the loop does not depend on the amount of fuel, as long as
there is enough of it (`fuelOf p s = p.maxTime - s.time + 1`, what `simulate` supplies). -/
theorem C15_fuel_irrelevant (m : Model) (p : Params) (fuel : Nat) (s : St)
    (h : fuelOf p s ≤ fuel) : loop m p fuel s = loop m p (fuelOf p s) s :=
  loop_fuel m p fuel s h

/-- **C15, status / mode.**  The loop never reads the `status` it was started with, and it
carries `mode` through untouched. -/
theorem C15_status_irrelevant (m : Model) (p : Params) (x : Status) (fuel : Nat) (s : St)
    (h : fuelOf p s ≤ fuel) : loop m p fuel { s with status := x } = loop m p fuel s :=
  loop_status m p x fuel s h

theorem C15_mode_irrelevant (m : Model) (p : Params) (x : Mode) (fuel : Nat) (s : St) :
    loop m p fuel { s with mode := x } = { loop m p fuel s with mode := x } :=
  loop_set_mode m p x fuel s

/-! ### pause and resume -/

/-- re-setting `mode/absence/autoFlag` to the values they have is the identity -/
theorem C15_reenter (X : St) (a : List Nat) (b : Bool) (h1 : X.mode = .forward)
    (h2 : X.absence = a) (h3 : X.autoFlag = b) :
    ({ X with mode := .forward, absence := a, autoFlag := b } : St) = X := by
  cases X
  simp only at h1 h2 h3
  subst h1 h2 h3
  rfl

/-- **C15 from idempotence of the update block** (any model).  `Inv` is any property of the
states of the run that is kept by `__update` and by a step and at which `__update` is
idempotent; it must hold when the loop is entered. -/
theorem C15_of_update_idem (m : Model) (p : Params) (s : St) (k M : Nat) (hk : k ≤ M)
    (Inv : St → Prop)
    (hupd : ∀ s, Inv s → Inv (updated m s))
    (hstep : ∀ s, Inv s → Inv (stepBody m { p with maxTime := M } s))
    (hidem : ∀ s, Inv s → updated m (updated m s) = updated m s)
    (h0 : Inv (enter m { p with maxTime := M } s)) :
    simulate m { p with maxTime := M, initState := false, initLog := false }
        (simulate m { p with maxTime := k } s)
      = simulate m { p with maxTime := M } s := by
  -- the paused run and the uninterrupted run enter the loop with the same state `s0`
  have hX : simulate m { p with maxTime := k } s
      = run m { { p with maxTime := M } with maxTime := k } (enter m { p with maxTime := M } s) := rfl
  have hR : simulate m { p with maxTime := M } s
      = run m { p with maxTime := M } (enter m { p with maxTime := M } s) := rfl
  rw [hR, hX]
  generalize hXd : run m { { p with maxTime := M } with maxTime := k }
    (enter m { p with maxTime := M } s) = X
  -- the resumed run enters its loop with the paused state itself
  have hent : enter m { p with maxTime := M, initState := false, initLog := false } X = X := by
    apply C15_reenter
    · rw [← hXd]; exact loop_mode m _ _ _
    · rw [← hXd]; exact loop_absence m _ _ _
    · rw [← hXd]; exact loop_autoFlag m _ _ _
  rw [simulate_eq, hent]
  have hpar := loop_params m { p with maxTime := M }
    { p with maxTime := M, initState := false, initLog := false } rfl rfl rfl rfl
  rw [hpar]
  show run m { p with maxTime := M } X = _
  rw [← hXd]
  exact resume_core m { p with maxTime := M } k hk Inv hupd hstep hidem
    (k - (enter m { p with maxTime := M } s).time) _ (Nat.le_refl _) h0

/-- **C15 for any model, with the idempotence of `update_PERT_data` as a hypothesis.** -/
theorem C15_of_pert_idem (m : Model) (p : Params) (s : St) (k M : Nat) (hk : k ≤ M)
    (hpert : ∀ (time : Nat) (l : Live), pert m time (pert m time l) = pert m time l) :
    simulate m { p with maxTime := M, initState := false, initLog := false }
        (simulate m { p with maxTime := k } s)
      = simulate m { p with maxTime := M } s := by
  refine C15_of_update_idem m p s k M hk (fun _ => True) (fun _ _ => trivial) (fun _ _ => trivial)
    ?_ trivial
  intro s _
  show ({ updated m s with live := update m s.time (update m s.time s.live) } : St) = _
  rw [update_idem_of_pert m s.time s.live (hpert s.time)]
  rfl

/-- **C15 (partial: models without FF/SF links).**  A run paused at any step `k ≤ M` and
resumed with `initState = initLog = false` ends in exactly the state of the uninterrupted run
to `M` — for every `k`, including `0` and values beyond the makespan.

Hypotheses: links stay inside the task list (`WF`); no FF/SF links (`NoFinishGate`); and the
first run either initialises the state from non-negative work amounts and default progress
at most 1 (`WorkOK`), or starts from a state whose non-WORKING tasks have non-negative
remaining work (`RemOK`). -/
theorem C15_partial (m : Model) (p : Params) (s : St) (k M : Nat) (hk : k ≤ M)
    (hwf : WF m) (hng : NoFinishGate m)
    (hstart : (p.initState = true ∧ WorkOK m) ∨ (p.initState = false ∧ RemOK m s.live)) :
    simulate m { p with maxTime := M, initState := false, initLog := false }
        (simulate m { p with maxTime := k } s)
      = simulate m { p with maxTime := M } s := by
  refine C15_of_update_idem m p s k M hk (fun s => RemOK m s.live)
    (fun s h => RemOK_update m s.time s.live h)
    (fun s h => RemOK_stepBody m _ s h)
    (fun s h => updated_idem m hwf hng s h) ?_
  rcases hstart with ⟨hi, hw⟩ | ⟨hi, hr⟩
  · exact RemOK_enter m hw { p with maxTime := M } s hi
  · show RemOK m (initProject m p.initState p.initLog s).live
    rw [hi]
    unfold initProject
    cases p.initLog <;> exact hr

/-! ### corollaries: what the property names explicitly -/

section corollaries
variable (m : Model) (p : Params) (s : St) (k M : Nat) (hk : k ≤ M) (hwf : WF m)
  (hng : NoFinishGate m)
  (hstart : (p.initState = true ∧ WorkOK m) ∨ (p.initState = false ∧ RemOK m s.live))
include hk hwf hng hstart

/-- same logs (task/worker/facility/component states, allocations, all cost lists) -/
theorem C15_logs :
    (simulate m { p with maxTime := M, initState := false, initLog := false }
        (simulate m { p with maxTime := k } s)).logs
      = (simulate m { p with maxTime := M } s).logs :=
  congrArg St.logs (C15_partial m p s k M hk hwf hng hstart)

/-- same project cost list in particular -/
theorem C15_cost :
    (simulate m { p with maxTime := M, initState := false, initLog := false }
        (simulate m { p with maxTime := k } s)).logs.projCost
      = (simulate m { p with maxTime := M } s).logs.projCost :=
  congrArg (fun x => x.logs.projCost) (C15_partial m p s k M hk hwf hng hstart)

/-- same final time -/
theorem C15_time :
    (simulate m { p with maxTime := M, initState := false, initLog := false }
        (simulate m { p with maxTime := k } s)).time
      = (simulate m { p with maxTime := M } s).time :=
  congrArg St.time (C15_partial m p s k M hk hwf hng hstart)

/-- same final status -/
theorem C15_status :
    (simulate m { p with maxTime := M, initState := false, initLog := false }
        (simulate m { p with maxTime := k } s)).status
      = (simulate m { p with maxTime := M } s).status :=
  congrArg St.status (C15_partial m p s k M hk hwf hng hstart)

/-- same live state -/
theorem C15_live :
    (simulate m { p with maxTime := M, initState := false, initLog := false }
        (simulate m { p with maxTime := k } s)).live
      = (simulate m { p with maxTime := M } s).live :=
  congrArg St.live (C15_partial m p s k M hk hwf hng hstart)

end corollaries

end PDesy
