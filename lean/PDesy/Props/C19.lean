/-
  PDesy.Props.C19 — "Gantt data, state queries and dates report exactly what the logs contain".

  All statements quantify over ALL state sequences (not only those a simulation can produce),
  all finish margins, time lists, dates and unit lengths.

  Specification side (`PDesy.Runs`, file `PDesy/Lemmas/Runs.lean`):
  * `runsOf st log`     — the maximal runs of `st` in `log` as `(start index, length)`, in order,
                          defined by structural recursion through a run-length encoding;
  * `IsMaxRun log v b n` — first-order definition of "`[b, b+n)` is a maximal run of `v`":
                          `1 ≤ n`, every position of the block holds `v`, the position before the
                          block (if any) and the position after it do not;
  * `enc margin (a, n) = (a, (n − 1) + margin)` — how a run is reported.
-/
import PDesy.Lemmas.Runs

namespace PDesy
open PDesy.Runs

/-- **C19 (meaning of `runsOf`)**: `runsOf st log` lists exactly the maximal runs of `st` in
`log` — a pair `(a, n)` is returned iff `n ≥ 1`, `log[a+i] = st` for all `i < n`, the block cannot
be extended to the left (`a = 0` or `log[a-1] ≠ st`) nor to the right (`log[a+n] ≠ st`); the
list is in increasing order with pairwise disjoint (even non-adjacent) runs, hence without
duplicates; and every index whose log entry is `st` lies in exactly one returned run.  Together
these facts determine `runsOf st log` uniquely, independently of how it is computed. -/
theorem C19_runs_spec {σ : Type} [DecidableEq σ] (st : σ) (log : List σ) :
    (∀ a n, (a, n) ∈ runsOf st log ↔
        (1 ≤ n ∧ (∀ i, i < n → log[a + i]? = some st) ∧ (a = 0 ∨ log[a - 1]? ≠ some st) ∧
          log[a + n]? ≠ some st)) ∧
    (runsOf st log).Pairwise (fun r1 r2 => r1.1 + r1.2 < r2.1) ∧
    (runsOf st log).Nodup ∧
    (∀ k, log[k]? = some st →
      ∃ r, (r ∈ runsOf st log ∧ r.1 ≤ k ∧ k < r.1 + r.2) ∧
        ∀ r', (r' ∈ runsOf st log ∧ r'.1 ≤ k ∧ k < r'.1 + r'.2) → r' = r) :=
  ⟨fun _ _ => mem_runsOf_iff, runsOf_sorted st log, runsOf_nodup st log,
    fun _ hk => runsOf_cover_unique hk⟩

example : runsOf TS.ready [.none, .ready, .ready, .working, .working, .ready, .finished]
    = [(1, 2), (5, 1)] := by decide +kernel
example : runsOf TS.none [.none, .ready, .none, .none] = [(0, 1), (2, 2)] := by decide +kernel
example : runsOf (3 : Nat) [] = [] := by decide +kernel

/-- **C19 (tasks)**: for every task state log and every finish margin,
`BaseTask.get_time_list_for_gannt_chart` returns as READY list exactly the maximal runs of READY
in the log and as WORKING list exactly the maximal runs of WORKING, each run `(a, n)` reported
as `(a, (n − 1) + finish_margin)`, in chronological order. -/
theorem C19_task (log : List TS) (margin : Rat) :
    ganttT log margin =
      ((runsOf .ready log).map (enc margin), (runsOf .working log).map (enc margin)) :=
  ganttT_eq_runs log margin

example : ganttT [.none, .ready, .ready, .working, .working, .ready, .finished] 1
    = ([(1, 2), (5, 1)], [(3, 2)]) := by decide +kernel
-- a log no simulation produces (WORKING first, back to NONE, unfinished trailing run)
example : ganttT [.working, .none, .none, .ready, .working, .working] (1 / 2)
    = ([(3, 1 / 2)], [(0, 1 / 2), (4, 3 / 2)]) := by decide +kernel
example : ganttT [] 1 = ([], []) := by decide +kernel

/-- **C19 (components)**: the same for `BaseComponent.get_time_list_for_gannt_chart`. -/
theorem C19_component (log : List CS) (margin : Rat) :
    ganttC log margin =
      ((runsOf .ready log).map (enc margin), (runsOf .working log).map (enc margin)) :=
  ganttC_eq_runs log margin

example : ganttC [.none, .none, .ready, .working, .ready, .ready, .working, .finished, .finished] 1
    = ([(2, 1), (4, 2)], [(3, 1), (6, 1)]) := by decide +kernel

/-- **C19 (workers, facilities)**: for every resource state log and every finish margin,
`get_time_list_for_gannt_chart` of `BaseWorker`/`BaseFacility` returns as (ready, working,
absence) lists exactly the maximal runs of FREE, WORKING and ABSENCE in the log, each run
`(a, n)` reported as `(a, (n − 1) + finish_margin)`, in chronological order. -/
theorem C19_resource (log : List RS) (margin : Rat) :
    ganttR log margin =
      ((runsOf .free log).map (enc margin), (runsOf .working log).map (enc margin),
       (runsOf .absence log).map (enc margin)) :=
  ganttR_eq_runs log margin

example : ganttR [.free, .free, .working, .absence, .absence, .working, .working, .free] 1
    = ([(0, 2), (7, 1)], [(2, 1), (5, 2)], [(3, 2)]) := by decide +kernel
example : ganttR [.absence] 0 = ([], [], [(0, 0)]) := by decide +kernel

/-- **C19 (chart rows)**: the (Start, Finish) rows of `create_data_for_gantt_plotly` of a task
(resp. component) are the READY rows (when requested) followed by the WORKING rows; each row is
the image of one maximal run `(a, n)` of that state, with
`Start = init_datetime + a · unit_timedelta` (log index `k` ↦ `init + k·unit`) and
`Finish = init_datetime + (a + (n − 1) + finish_margin) · unit_timedelta`;
with the default `finish_margin = 1`, a row spans exactly `n · unit_timedelta`. -/
theorem C19_rows (init unit margin : Rat) (viewReady : Bool) :
    (∀ log : List TS, plotlyRows init unit viewReady (ganttT log margin) =
      (if viewReady then (runsOf .ready log).map (rowOf init unit margin) else []) ++
        (runsOf .working log).map (rowOf init unit margin)) ∧
    (∀ log : List CS, plotlyRows init unit viewReady (ganttC log margin) =
      (if viewReady then (runsOf .ready log).map (rowOf init unit margin) else []) ++
        (runsOf .working log).map (rowOf init unit margin)) ∧
    (∀ a n : Nat, plotlyRow init unit (enc margin (a, n)) =
      (init + (a : Rat) * unit, init + ((a : Rat) + ((n - 1 : Nat) : Rat) + margin) * unit)) ∧
    (∀ {σ : Type} [DecidableEq σ] (st : σ) (log : List σ), ∀ r ∈ runsOf st log,
      (rowOf init unit 1 r).2 - (rowOf init unit 1 r).1 = (r.2 : Rat) * unit) := by
  refine ⟨fun log => ?_, fun log => ?_, fun a n => plotlyRow_enc init unit margin (a, n), ?_⟩
  · rw [C19_task]
    cases viewReady <;> simp [plotlyRows, List.map_map, Function.comp_def, plotlyRow_enc]
  · rw [C19_component]
    cases viewReady <;> simp [plotlyRows, List.map_map, Function.comp_def, plotlyRow_enc]
  · intro σ _ st log r hr
    exact rowOf_span init unit r (runsOf_sound (a := r.1) (n := r.2) hr).1

-- init = 100 s, unit = 60 s: READY [1,3) → 160 … 280, READY [5,6) → 400 … 460, WORKING [3,5) → 280 … 400
example : plotlyRows 100 60 true
    (ganttT [.none, .ready, .ready, .working, .working, .ready, .finished] 1)
    = [(160, 280), (400, 460), (280, 400)] := by decide +kernel
example : (3, 2) ∈ runsOf TS.working [.none, .ready, .ready, .working, .working, .ready, .finished] := by
  decide +kernel

/-- **C19 (state queries)**: `__extract_state_*_list(target_time_list, target_state)` returns
object `i` (among the `n` objects) iff the log of `i` shows `target_state` at every requested
time (in particular every requested time is inside the log); the result has no duplicates, so
it is exactly the set Python builds with `list(set(…))`. -/
theorem C19_extract {σ : Type} [DecidableEq σ] (n : Nat) (log : Nat → List σ) (times : List Nat)
    (st : σ) :
    (∀ i, i ∈ extractIdx n log times st ↔ i < n ∧ ∀ k ∈ times, (log i)[k]? = some st) ∧
    (extractIdx n log times st).Nodup :=
  ⟨mem_extractIdx n log times st, extractIdx_nodup n log times st⟩

example : extractIdx 3
    (fun i => if i = 0 then [TS.none, .working, .working] else if i = 1 then [.ready, .working]
      else [.working, .working, .working])
    [1, 2] TS.working = [0, 2] := by decide +kernel

/-- **C19 (dates)**: `set_last_datetime(last, unit)` chooses `init_datetime` so that the last
simulated step (index `time − 1`) falls on `last`: `init + unit · (time − 1) = last`. -/
theorem C19_last_datetime (last unit : Rat) (time : Nat) :
    setLastDatetime last unit time + unit * (((time : Int) - 1 : Int) : Rat) = last :=
  setLastDatetime_spec last unit time

example : setLastDatetime 1000 60 11 = 400 := by decide +kernel


/-- **C19, chart rows of workers and facilities.**  The rows a team / workplace produces for one
resource are: for every maximal run of FREE (if READY rows are requested), then of ABSENCE (if
requested), then of WORKING, the row from `init + start·unit` to
`init + (start + (length − 1) + margin)·unit`, labelled with its kind. -/
theorem C19_rows_resource (init unit margin : Rat) (viewReady viewAbsence : Bool) (log : List RS) :
    plotlyRowsR init unit viewReady viewAbsence (ganttR log margin) =
      (if viewReady then (Runs.runsOf RS.free log).map
          (fun r => ((Runs.rowOf init unit margin r).1, (Runs.rowOf init unit margin r).2, 0)) else []) ++
      (if viewAbsence then (Runs.runsOf RS.absence log).map
          (fun r => ((Runs.rowOf init unit margin r).1, (Runs.rowOf init unit margin r).2, 2)) else []) ++
      (Runs.runsOf RS.working log).map
          (fun r => ((Runs.rowOf init unit margin r).1, (Runs.rowOf init unit margin r).2, 1)) := by
  rw [C19_resource]
  simp only [plotlyRowsR, List.map_map]
  have key : ∀ (r : Nat × Nat), plotlyRow init unit (Runs.enc margin r) = Runs.rowOf init unit margin r := by
    intro r
    rcases r with ⟨a, n⟩
    exact (C19_rows init unit margin true).2.2.1 a n
  have h0 : ((fun iv => ((plotlyRow init unit iv).1, (plotlyRow init unit iv).2, 0)) ∘ Runs.enc margin) =
      fun r => ((Runs.rowOf init unit margin r).1, (Runs.rowOf init unit margin r).2, 0) := by
    funext r; simp only [Function.comp, key]
  have h1 : ((fun iv => ((plotlyRow init unit iv).1, (plotlyRow init unit iv).2, 1)) ∘ Runs.enc margin) =
      fun r => ((Runs.rowOf init unit margin r).1, (Runs.rowOf init unit margin r).2, 1) := by
    funext r; simp only [Function.comp, key]
  have h2 : ((fun iv => ((plotlyRow init unit iv).1, (plotlyRow init unit iv).2, 2)) ∘ Runs.enc margin) =
      fun r => ((Runs.rowOf init unit margin r).1, (Runs.rowOf init unit margin r).2, 2) := by
    funext r; simp only [Function.comp, key]
  rw [h0, h1, h2]

end PDesy

#print axioms PDesy.C19_runs_spec
#print axioms PDesy.C19_task
#print axioms PDesy.C19_component
#print axioms PDesy.C19_resource
#print axioms PDesy.C19_rows
#print axioms PDesy.C19_extract
#print axioms PDesy.C19_last_datetime

#print axioms PDesy.C19_rows_resource