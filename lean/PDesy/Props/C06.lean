/-
  PDesy.Props.C06 — "No avoidable waiting: work starts, proceeds and ends as early as the rules
  allow."

  At every step
    (a) a task whose start dependencies are satisfied is no longer NONE          (`C06_ready…`),
    (b) an automatic task that is not bound to a component never waits in READY at the end of
        an ACTIVE step (a working step, or any step when automatic tasks are performed during
        absence; at a project absence step with the flag off nothing starts)     (`C06_auto…`),
    (c) no worker stays FREE while a READY or WORKING task exists that the worker is eligible
        for and that can still accept the worker — claimed for tasks that need no facility
                                                                                  (`C06_idle…`),
    (d) a task whose remaining work has reached zero and whose finish dependencies hold is
        FINISHED at the very next `__update`                                      (`C06_finish…`).

  (a) and (d) are statements about the `updated` boundary (right after `__update` at the top of
  an iteration: `updTrace` / `runUpdTrace`); (b) and (c) about the `ticked` boundary (the end of
  a step: `trace` / `runTrace`).  "Eligible" = the worker has a positive skill for the task and
  the worker's team is assigned to the task; "can still accept" = `can_add_resources(worker=w)`
  (`canAdd m l t (some w) none`).
-/
import PDesy.Lemmas.NoWait
import PDesy.Props.C02
import PDesy.Props.C03

namespace PDesy

/-! ## (a) a task with satisfied start dependencies is not NONE -/

/-- **C06 (a).**  After `__update` no task `t < nT` is NONE while its start gate is open
(every FS predecessor FINISHED, every SS predecessor WORKING or FINISHED — `readyGate`, read in
the *updated* state). -/
theorem C06_ready (m : Model) (time : Nat) (l : Live) (t : Nat) (ht : t < m.nT) :
    ¬ ((update m time l).tstate t = .none ∧ readyGate m (update m time l).tstate t = true) :=
  NoWait.update_ready m time l t ht

/-- **C06 (a)**, with the dependencies spelled out: if in the updated state every
finish-to-start predecessor of `t` is FINISHED and every start-to-start predecessor has started,
then `t` is not NONE. -/
theorem C06_ready_deps (m : Model) (time : Nat) (l : Live) (t : Nat) (ht : t < m.nT)
    (hdeps : ∀ e ∈ (m.task t).inputs,
      (e.2 = .fs → (update m time l).tstate e.1 = .finished) ∧
      (e.2 = .ss → ((update m time l).tstate e.1).started = true)) :
    (update m time l).tstate t ≠ .none :=
  fun h => C06_ready m time l t ht ⟨h, (Lifecycle.readyGate_iff m _ t).mpr hdeps⟩

/-- **C06 (a)** at every `updated` state of the loop, from any starting state. -/
theorem C06_ready_updTrace (m : Model) (p : Params) (fuel : Nat) (s : St) :
    ∀ s' ∈ updTrace m p fuel s, ∀ t, t < m.nT →
      ¬ (s'.live.tstate t = .none ∧ readyGate m s'.live.tstate t = true) := by
  intro s' hs' t ht
  obtain ⟨s1, rfl⟩ := NoWait.updTrace_mem_updated m p fuel s s' hs'
  exact NoWait.update_ready m s1.time s1.live t ht

/-- **C06 (a)** at every `updated` state of `simulate m p s`. -/
theorem C06_ready_run (m : Model) (p : Params) (s : St) :
    ∀ s' ∈ runUpdTrace m p s, ∀ t, t < m.nT →
      ¬ (s'.live.tstate t = .none ∧ readyGate m s'.live.tstate t = true) :=
  C06_ready_updTrace m p _ _

/-- in the demo run, at the first `updated` state task 0 (no predecessor) has an open gate and is
READY, task 1 (after task 0, finish-to-start) has a closed gate and is NONE -/
example : ((runUpdTrace Logs.demo Logs.demoP St.fresh)[0]?.map fun s =>
      (s.live.tstate 0, readyGate Logs.demo s.live.tstate 0,
       s.live.tstate 1, readyGate Logs.demo s.live.tstate 1)) =
    some (.ready, true, .none, false) := by decide +kernel

/-! ## (b) automatic tasks without component never wait in READY -/

/-- **C06 (b).**  After `check_state(WORKING)` no automatic task `t < nT` without target
component is READY. -/
theorem C06_auto (m : Model) (l : Live) (t : Nat) (ht : t < m.nT)
    (ha : (m.task t).isAuto = true) (hc : (m.task t).comp = Option.none) :
    (chkWorking m l).tstate t ≠ .ready :=
  NoWait.chkWorking_auto m l t ht ha hc

/-- **C06 (b)** at the end of one ACTIVE loop step: a working step, or any step when
`perform_auto_task_while_absence_time` is set (`activeAt p s.time`).

The statement for every step,
  `(stepBody m p s).live.tstate t ≠ .ready`  without `hact`,
is false since nothing starts at a project absence step with the flag off (see the `example`
below `C06Ex.lA`): the property only speaks about steps at which the task can be performed. -/
theorem C06_auto_step (m : Model) (p : Params) (s : St) (t : Nat) (ht : t < m.nT)
    (ha : (m.task t).isAuto = true) (hc : (m.task t).comp = Option.none)
    (hact : activeAt p s.time = true) :
    (stepBody m p s).live.tstate t ≠ .ready :=
  NoWait.stepBody_auto m p s t ht ha hc hact

/-- **C06 (b)** at every `ticked` state of the loop that was produced by an active step, from
any starting state. -/
theorem C06_auto_trace (m : Model) (p : Params) (fuel : Nat) (s : St) :
    ∀ s' ∈ trace m p fuel s, activeAt p (s'.time - 1) = true → ∀ t, t < m.nT →
      (m.task t).isAuto = true → (m.task t).comp = Option.none → s'.live.tstate t ≠ .ready := by
  intro s' hs' hact t ht ha hc
  obtain ⟨s1, rfl⟩ := Lifecycle.trace_mem_stepBody m p fuel s s' hs'
  have htime : (stepBody m p s1).time - 1 = s1.time := by
    rw [Alloc.stepBody_time]; omega
  rw [htime] at hact
  exact NoWait.stepBody_auto m p s1 t ht ha hc hact

/-- **C06 (b)** at every `ticked` state of `simulate m p s` produced by an active step. -/
theorem C06_auto_run (m : Model) (p : Params) (s : St) :
    ∀ s' ∈ runTrace m p s, activeAt p (s'.time - 1) = true → ∀ t, t < m.nT →
      (m.task t).isAuto = true → (m.task t).comp = Option.none → s'.live.tstate t ≠ .ready :=
  C06_auto_trace m p _ _

namespace C06Ex

/-- one automatic task without component (task 0) and one ordinary task nobody can do -/
def mA : Model where
  nT := 2
  nW := 0
  nF := 0
  nTeam := 0
  nWp := 0
  nC := 0
  task := fun t => if t = 0 then { name := 0, work := 2, isAuto := true } else { name := 1, work := 1 }
  worker := fun _ => {}
  fac := fun _ => {}
  team := fun _ => {}
  wp := fun _ => {}
  comp := fun _ => {}

def lA : Live := { Live.empty with tstate := fun _ => .ready }

end C06Ex

/-- the automatic task 0 is started by `check_state(WORKING)`; the ordinary task 1, which holds
no worker, stays READY -/
example : C06Ex.lA.tstate 0 = .ready ∧ (C06Ex.mA.task 0).isAuto = true ∧
    (C06Ex.mA.task 0).comp = Option.none ∧
    (chkWorking C06Ex.mA C06Ex.lA).tstate 0 = .working ∧
    (chkWorking C06Ex.mA C06Ex.lA).tstate 1 = .ready := by decide +kernel

/-- `C06_auto_step`: at a working step the READY automatic task 0 is started (premises
satisfiable); at a project absence step it is started when the flag is set, and stays READY when
the flag is off — which is why `hact` cannot be dropped -/
example :
    activeAt {} ({ St.fresh with live := C06Ex.lA }).time = true ∧
    (stepBody C06Ex.mA {} { St.fresh with live := C06Ex.lA }).live.tstate 0 = .working ∧
    activeAt { absence := [0], autoFlag := true } ({ St.fresh with live := C06Ex.lA }).time = true ∧
    (stepBody C06Ex.mA { absence := [0], autoFlag := true }
      { St.fresh with live := C06Ex.lA }).live.tstate 0 = .working ∧
    activeAt { absence := [0] } ({ St.fresh with live := C06Ex.lA }).time = false ∧
    (stepBody C06Ex.mA { absence := [0] } { St.fresh with live := C06Ex.lA }).live.tstate 0 = .ready := by
  decide +kernel

/-! ## (d) finishing at the very next step -/

/-- **C06 (d).**  After `__update` no task `t < nT` is WORKING with remaining work ≤ 0 and an
open finish gate (every FF predecessor FINISHED, every SF predecessor started — `finishGate`,
read in the updated state). -/
theorem C06_finish (m : Model) (time : Nat) (l : Live) (t : Nat) (ht : t < m.nT) :
    ¬ ((update m time l).tstate t = .working ∧ (update m time l).rem t ≤ 0 ∧
       finishGate m (update m time l).tstate t = true) :=
  NoWait.update_finish m time l t ht

/-- **C06 (d)**, forward form: a task that ends a step WORKING with no work left is FINISHED
after the `__update` at the top of the next iteration, provided its finish dependencies hold
there. -/
theorem C06_finish_next (m : Model) (time : Nat) (l : Live) (t : Nat) (ht : t < m.nT)
    (hw : l.tstate t = .working) (hr : l.rem t ≤ 0)
    (hg : finishGate m (update m time l).tstate t = true) :
    (update m time l).tstate t = .finished :=
  (C02_update_finish_iff time l t ht (by rw [hw]; exact fun h => by cases h)).mpr ⟨hw, hr, hg⟩

/-- **C06 (d)** at every `updated` state of the loop, from any starting state. -/
theorem C06_finish_updTrace (m : Model) (p : Params) (fuel : Nat) (s : St) :
    ∀ s' ∈ updTrace m p fuel s, ∀ t, t < m.nT →
      ¬ (s'.live.tstate t = .working ∧ s'.live.rem t ≤ 0 ∧
         finishGate m s'.live.tstate t = true) := by
  intro s' hs' t ht
  obtain ⟨s1, rfl⟩ := NoWait.updTrace_mem_updated m p fuel s s' hs'
  exact NoWait.update_finish m s1.time s1.live t ht

/-- **C06 (d)** at every `updated` state of `simulate m p s`. -/
theorem C06_finish_run (m : Model) (p : Params) (s : St) :
    ∀ s' ∈ runUpdTrace m p s, ∀ t, t < m.nT →
      ¬ (s'.live.tstate t = .working ∧ s'.live.rem t ≤ 0 ∧
         finishGate m s'.live.tstate t = true) :=
  C06_finish_updTrace m p _ _

/-- in the demo run task 0 ends step 2 WORKING with remaining work 0, and the next `__update`
turns it FINISHED -/
example : ((runTrace Logs.demo Logs.demoP St.fresh)[2]?.map fun s =>
      (s.live.tstate 0, s.live.rem 0, finishGate Logs.demo (update Logs.demo s.time s.live).tstate 0,
       (update Logs.demo s.time s.live).tstate 0)) =
    some (.working, 0, true, .finished) := by decide +kernel

/-! ## (c) no eligible worker stays idle (tasks without facility) -/

/-- **C06 (c)** for one allocation pass.  Let `l' = allocate m lg rule l`.  A worker `w < nW`
that was FREE and still holds nothing after the pass, and a READY or WORKING task `t < nT` that
is not automatic and needs no facility: it is NOT the case that `w` is eligible for `t`
(positive skill, team assigned to the task) and `t` can still accept `w`.

No invariant of the incoming state is needed: the free list is the list of FREE workers below
`nW`, a worker leaves it exactly when it is handed out, the task list contains every READY or
WORKING task, and every reason for `can_add_resources` to refuse survives the rest of the pass
(task states do not change, allocation lists only grow). -/
theorem C06_idle (m : Model) (lg : Logs) (rule : TaskRule) (l : Live) (w t : Nat)
    (hw : w < m.nW) (hfree : (allocate m lg rule l).wstate w = .free)
    (hidle : (allocate m lg rule l).wasg w = [])
    (ht : t < m.nT) (hs : l.tstate t = .ready ∨ l.tstate t = .working)
    (hna : (m.task t).isAuto = false) (hnf : (m.task t).needFac = false) :
    ¬ (hasSkill (m.worker w).skills (m.task t).name = true ∧ teamTargets m w t = true ∧
       canAdd m (allocate m lg rule l) t (some w) Option.none = true) := by
  rintro ⟨h1, h2, h3⟩
  rw [(NoWait.allocate_grow m lg rule l).ws] at hfree
  rw [NoWait.allocate_idle m lg rule l w t hw hfree hidle ht hs hna hnf h1 h2] at h3
  cases h3

/-- **C06 (c)** at the end of a working step.  Starting the step from a state that satisfies the
allocation invariant (with every holder WORKING), a worker `w < nW` that is FREE at the end of
the step and a task `t < nT` that is READY or WORKING at the end of the step, not automatic and
without facility: NOT (`w` eligible for `t` and `t` can still accept `w`). -/
theorem C06_idle_step (m : Model) (p : Params) (s : St)
    (hwork : p.absence.contains s.time = false)
    (hinv : AllocInv m s.live) (hhw : HoldWorking s.live) (w t : Nat)
    (hw : w < m.nW) (hfree : (stepBody m p s).live.wstate w = .free)
    (ht : t < m.nT)
    (hs : (stepBody m p s).live.tstate t = .ready ∨ (stepBody m p s).live.tstate t = .working)
    (hna : (m.task t).isAuto = false) (hnf : (m.task t).needFac = false) :
    ¬ (hasSkill (m.worker w).skills (m.task t).name = true ∧ teamTargets m w t = true ∧
       canAdd m (stepBody m p s).live t (some w) Option.none = true) := by
  rintro ⟨h1, h2, h3⟩
  rw [NoWait.stepBody_idle m p s hwork hinv hhw w t hw hfree ht hs hna hnf h1 h2] at h3
  cases h3

/-- **C06 (c)** at every `ticked` state of the loop that was produced by a working step, starting
from a state that satisfies the allocation invariant. -/
theorem C06_idle_trace (m : Model) (p : Params) (fuel : Nat) (s : St)
    (h : AllocInv m s.live ∧ HoldWorking s.live) :
    ∀ s' ∈ trace m p fuel s, workingAt p (s'.time - 1) = true →
      ∀ w t, w < m.nW → s'.live.wstate w = .free → t < m.nT →
        (s'.live.tstate t = .ready ∨ s'.live.tstate t = .working) →
        (m.task t).isAuto = false → (m.task t).needFac = false →
        ¬ (hasSkill (m.worker w).skills (m.task t).name = true ∧ teamTargets m w t = true ∧
           canAdd m s'.live t (some w) Option.none = true) := by
  intro s' hs' hwk w t hw hfree ht hst hna hnf
  obtain ⟨s0, hinv, _, rfl⟩ := NoWait.trace_mem_stepBody_inv m p
    (fun s => AllocInv m s.live ∧ HoldWorking s.live)
    (fun s hs => update_C03 s.time hs.1 hs.2)
    (fun _ hs _ => ⟨(stepBody_C03 p hs.1 hs.2).1, (stepBody_C03 p hs.1 hs.2).2.1⟩) fuel s h s' hs'
  have htime : (stepBody m p (updated m s0)).time - 1 = (updated m s0).time := by
    rw [Alloc.stepBody_time]; omega
  rw [htime] at hwk
  have hwork : p.absence.contains (updated m s0).time = false := by
    simpa [workingAt] using hwk
  exact C06_idle_step m p (updated m s0) hwork hinv.1 hinv.2 w t hw hfree ht hst hna hnf

/-- **C06 (c)** at every `ticked` state of `simulate m p s` produced by a working step, for a run
with `init_state=True` from ANY state `s` (`initialize` resets every allocation list, so C03
establishes the allocation invariant without any hypothesis on the state before): a worker that
is left FREE after a working step could not have been added to any READY/WORKING task it is
skilled and targeted for. -/
theorem C06_idle_run' (m : Model) (p : Params) (s : St) (hp : p.initState = true) :
    ∀ s' ∈ runTrace m p s, workingAt p (s'.time - 1) = true →
      ∀ w t, w < m.nW → s'.live.wstate w = .free → t < m.nT →
        (s'.live.tstate t = .ready ∨ s'.live.tstate t = .working) →
        (m.task t).isAuto = false → (m.task t).needFac = false →
        ¬ (hasSkill (m.worker w).skills (m.task t).name = true ∧ teamTargets m w t = true ∧
           canAdd m s'.live t (some w) Option.none = true) :=
  C06_idle_trace m p _ _ (C03_init hp)

/-- `C06_idle_run'` with the (no longer needed) hypothesis that nothing is allocated outside the
model's index ranges; kept under its old name and statement. -/
theorem C06_idle_run (m : Model) (p : Params) (s : St)
    (hp : p.initState = true) (_hc : OutClean m s.live) :
    ∀ s' ∈ runTrace m p s, workingAt p (s'.time - 1) = true →
      ∀ w t, w < m.nW → s'.live.wstate w = .free → t < m.nT →
        (s'.live.tstate t = .ready ∨ s'.live.tstate t = .working) →
        (m.task t).isAuto = false → (m.task t).needFac = false →
        ¬ (hasSkill (m.worker w).skills (m.task t).name = true ∧ teamTargets m w t = true ∧
           canAdd m s'.live t (some w) Option.none = true) :=
  C06_idle_run' m p s hp

namespace C06Ex

/-- one READY task, two workers with the skill in the task's team; worker 0 works alone -/
def mI : Model where
  nT := 1
  nW := 2
  nF := 0
  nTeam := 1
  nWp := 0
  nC := 0
  task := fun _ => { name := 0, work := 3 }
  worker := fun w =>
    if w = 0 then { team := 0, skills := [(0, 1)], solo := true } else { team := 0, skills := [(0, 1)] }
  fac := fun _ => {}
  team := fun _ => { workers := [0, 1], targets := [0] }
  wp := fun _ => {}
  comp := fun _ => {}

def lI : Live := { Live.empty with tstate := fun t => if t = 0 then .ready else .none, rem := fun _ => 3 }

def sI : St := { St.fresh with live := lI }

theorem sI_inv : AllocInv mI sI.live ∧ HoldWorking sI.live :=
  AllocInv_of_empty (fun _ => rfl) (fun _ => rfl) (fun _ => rfl) (fun _ => rfl)

end C06Ex

/-- the hypotheses of `C06_idle` hold non-trivially: the pass gives the solo worker 0 to task 0;
worker 1 stays FREE and idle although it has the skill and its team is assigned to the task —
the task cannot accept it (a solo worker is on it) -/
example :
    (1 < C06Ex.mI.nW ∧ (allocate C06Ex.mI Logs.empty .tslack C06Ex.lI).wstate 1 = .free ∧
     (allocate C06Ex.mI Logs.empty .tslack C06Ex.lI).wasg 1 = [] ∧
     0 < C06Ex.mI.nT ∧ C06Ex.lI.tstate 0 = .ready ∧
     (C06Ex.mI.task 0).isAuto = false ∧ (C06Ex.mI.task 0).needFac = false) ∧
    hasSkill (C06Ex.mI.worker 1).skills (C06Ex.mI.task 0).name = true ∧
    teamTargets C06Ex.mI 1 0 = true ∧
    (allocate C06Ex.mI Logs.empty .tslack C06Ex.lI).allocW 0 = [0] ∧
    canAdd C06Ex.mI (allocate C06Ex.mI Logs.empty .tslack C06Ex.lI) 0 (some 1) Option.none = false := by
  decide +kernel

/-- … and so do those of `C06_idle_step`: after the whole step worker 0 is WORKING on task 0,
worker 1 is FREE, task 0 is WORKING -/
example :
    ({} : Params).absence.contains C06Ex.sI.time = false ∧
    (AllocInv C06Ex.mI C06Ex.sI.live ∧ HoldWorking C06Ex.sI.live) ∧
    (stepBody C06Ex.mI {} C06Ex.sI).live.wstate 0 = .working ∧
    (stepBody C06Ex.mI {} C06Ex.sI).live.wstate 1 = .free ∧
    (stepBody C06Ex.mI {} C06Ex.sI).live.tstate 0 = .working :=
  ⟨by decide, C06Ex.sI_inv, by decide +kernel, by decide +kernel, by decide +kernel⟩

/-- the only premise of `C06_idle_run'` is the `init_state` flag; the incoming state may be
anything, e.g. one that is not clean outside the index ranges -/
example : ({} : Params).initState = true ∧
    ¬ OutClean C06Ex.mI ({ Live.empty with wasg := fun _ => [3] } : Live) :=
  ⟨rfl, fun h => by have := h.2.1 5 (by decide); simp at this⟩

#print axioms C06_ready
#print axioms C06_ready_deps
#print axioms C06_ready_updTrace
#print axioms C06_ready_run
#print axioms C06_auto
#print axioms C06_auto_step
#print axioms C06_auto_trace
#print axioms C06_auto_run
#print axioms C06_finish
#print axioms C06_finish_next
#print axioms C06_finish_updTrace
#print axioms C06_finish_run
#print axioms C06_idle
#print axioms C06_idle_step
#print axioms C06_idle_trace
#print axioms C06_idle_run'
#print axioms C06_idle_run

end PDesy
