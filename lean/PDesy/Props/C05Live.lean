/-
  PDesy.Props.C05Live — liveness half of C05, "Every feasible project completes".

  FULL PROPERTY (as specified; NOT true in this generality, see the counterexamples at the end):
    a project whose dependency graph is acyclic and in which every non-automatic unfinished task
    has an eligible worker who is eventually present completes successfully (status SUCCESS)
    whenever `max_time` exceeds the total sequential work bound.

  WHAT IS PROVED.  The property for fragment L of the design (`Live_.FragL m rk R`):
    * no task needs a facility; automatic tasks are bound to no component
      (non-automatic tasks may have a component: placement never gates a worker-only task);
    * every dependency is FS or SS (no finish gates);
    * the graph is acyclic with in-range links: a rank function `rk` with `rk p < rk t` and
      `p < nT` for every input `p` of `t`;
    * every automatic task has `autoRate > 0`  (no sign condition on `work` / `progress`:
      the count `⌈rem₀ / δ⌉` is 0 when `rem₀ ≤ 0`);
    * every non-automatic task has at least one eligible worker of the organisation
      (`Elig.WorkerElig`: skill > 0, the worker's team targets the task, the task's fixed worker
      list, if any, contains the worker) among the workers "relied upon" (`R w = true`);
      workers may be shared between tasks and may be individually absent: absence lists are
      finite, so every worker "is eventually present", and the individual absence steps of the
      relied-upon workers enter the bound;
    * solo workers are allowed when every worker is relied upon (`R = fun _ => true`, which is
      `C05_live_partial`); with a smaller `R` no worker may be solo.
  Conclusion: with `init_state = True`, if `time₀ + bound ≤ max_time` (`time₀ = 0` after
  `log_info = True`) the run returns SUCCESS, every task FINISHED, at a time `≤ time₀ + bound`,
  where
      bound m p R = |p.absence| + Σ_{w < nW, R w} |absence w| + Σ_{t < nT} (3 + ⌈rem₀ t / δ_t⌉),
  `rem₀ t = work · (1 - progress)` and `δ_t` = the rate of an automatic task, else the least skill
  among the workers eligible for `t` (`Live_.delta`).  (`bound ≤ max_time` is weaker than
  "`max_time` exceeds the bound".)

    `C05_live_loop`       the loop, from any state satisfying the allocation/eligibility invariants
    `C05_live_partial`    `simulate`, every worker relied upon (the design's fragment L and bound)
    `C05_live_relied`     `simulate`, any `R`
    `C05_live_shared`     `R` = the never-absent workers: bound `|p.absence| + Σ_t (3 + ⌈rem₀/δ⌉)`
    `C05_live_dedicated`  the "dedicated worker" fragment `Live_.Ded` (a never-absent worker of its
                          own for every non-automatic task), same bound
    `C05_live_dedicated_step`  … in which every open task advances on every working step
    `C05_live_measure`    the decreasing measure behind all of them

  OUTSIDE THE FRAGMENT (not claimed; the first two are refuted below, on the real pDESy too):
    * FF / SF links: a task that has done its work but waits for its finish gate keeps its
      workers, and can thereby starve the very predecessor it waits for
      (`C05_live_full_counterexample_FF`: acyclic, every task has an eligible never-absent worker,
      yet the run fails for every `max_time`, under the SPT rule);
    * facilities / components: a task that needs a facility gets a worker only together with a
      facility of the workplace its component is placed in; the property's premise only speaks of
      workers (`C05_live_full_counterexample_facility`), and placement can wait for space forever;
    * automatic tasks bound to a component (they wait for the placement);
    * solo workers when only some workers are relied upon (the bound must then count the absence
      steps of whoever occupies the task);
    * links to tasks outside `0 … nT-1`, cyclic graphs, `autoRate ≤ 0`.
-/
import PDesy.Lemmas.Live
import PDesy.Props.C05

namespace PDesy
open Live_ Elig

/-! ### the decreasing measure -/

/-- **C05 (liveness, measure).**  In fragment L, from a state satisfying the invariants of C03/C04
(`Live_.Inv`), an iteration of the loop that does not exit through SUCCESS (some task is
unfinished after `__update`) decreases the natural number
`mu = (project absence steps to come) + (absence steps to come of the relied-upon workers)
      + Σ_t (lifecycle stages ahead of t + ⌈rem t / δ_t⌉)`, and preserves the invariants. -/
theorem C05_live_measure (m : Model) (rk : Nat → Nat) (R : Nat → Bool) (p : Params)
    (hF : FragL m rk R) (s : St) (hI : Inv m s.live)
    (hnf : allFinished m (updated m s).live = false) :
    mu m p R (iter m p s) + 1 ≤ mu m p R s ∧ Inv m (iter m p s).live :=
  ⟨mu_iter_lt hF hI hnf, Inv_iter p hI⟩

/-! ### the loop -/

/-- **C05 (liveness, loop level).**  In fragment L, start the loop from a state `s` that
satisfies the invariants, with `n ≥ mu s` steps left before `max_time` (`s.time + n ≤ max_time`)
and enough fuel: the loop returns SUCCESS, at a time `≤ s.time + n`, with every task FINISHED. -/
theorem C05_live_loop (m : Model) (rk : Nat → Nat) (R : Nat → Bool) (p : Params)
    (hF : FragL m rk R) (n fuel : Nat) (s : St) (hI : Inv m s.live) (hmu : mu m p R s ≤ n)
    (htime : s.time + n ≤ p.maxTime) (hfuel : n + 1 ≤ fuel) :
    (loop m p fuel s).status = .success ∧ (loop m p fuel s).time ≤ s.time + n ∧
    allFinished m (loop m p fuel s).live = true :=
  loop_success hF n fuel s hI hmu htime hfuel

/-! ### `simulate` -/

/-- **C05 (liveness, any set of relied-upon workers).**  In fragment L (`FragL m rk R`), a run
with `init_state = True` whose `max_time` leaves room for `bound m p R` steps after the time the
loop is entered returns SUCCESS, every task FINISHED, at most `bound m p R` steps later. -/
theorem C05_live_relied (m : Model) (rk : Nat → Nat) (R : Nat → Bool) (p : Params) (s : St)
    (hF : FragL m rk R) (hs : p.initState = true)
    (hb : (enter m p s).time + bound m p R ≤ p.maxTime) :
    (simulate m p s).status = .success ∧
    (simulate m p s).time ≤ (enter m p s).time + bound m p R ∧
    allFinished m (simulate m p s).live = true :=
  simulate_success hF s hs hb

/-- **C05 (liveness, fragment L).**  Every feasible project of fragment L completes: no task needs
a facility, automatic tasks have no component and a positive rate, every dependency is FS or SS,
the graph is acyclic with in-range links (`rk`), and every non-automatic task has an eligible
worker of the organisation.  Then a run with `init_state = log_info = True` and
`max_time ≥ |p.absence| + Σ_w |absence w| + Σ_t (3 + ⌈rem₀ t / δ_t⌉)` returns SUCCESS with every
task FINISHED, at a time no later than that bound.  Workers may be shared, solo, and individually
absent. -/
theorem C05_live_partial (m : Model) (rk : Nat → Nat) (p : Params) (s : St)
    (hF : FragL m rk (fun _ => true)) (hs : p.initState = true) (hl : p.initLog = true)
    (hb : bound m p (fun _ => true) ≤ p.maxTime) :
    (simulate m p s).status = .success ∧
    (simulate m p s).time ≤ bound m p (fun _ => true) ∧
    allFinished m (simulate m p s).live = true := by
  have h0 : (enter m p s).time = 0 := enter_time_zero s hl
  have := C05_live_relied m rk (fun _ => true) p s hF hs (by rw [h0]; omega)
  rw [h0] at this
  simpa using this

/-- **C05 (liveness, shared never-absent workers).**  If in fragment L every non-automatic task
has an eligible worker that is never individually absent (and no worker is solo, or all workers
are never absent), the bound needs no worker term:
`max_time ≥ |p.absence| + Σ_t (3 + ⌈rem₀ t / δ_t⌉)` suffices. -/
theorem C05_live_shared (m : Model) (rk : Nat → Nat) (p : Params) (s : St)
    (hF : FragL m rk (neverAbsent m)) (hs : p.initState = true) (hl : p.initLog = true)
    (hb : seqBound m p ≤ p.maxTime) :
    (simulate m p s).status = .success ∧
    (simulate m p s).time ≤ seqBound m p ∧
    allFinished m (simulate m p s).live = true := by
  have h0 : (enter m p s).time = 0 := enter_time_zero s hl
  have := C05_live_relied m rk (neverAbsent m) p s hF hs
    (by rw [h0, bound_neverAbsent]; omega)
  rw [h0, bound_neverAbsent] at this
  simpa using this

/-- **C05 (liveness, dedicated workers).**  Fragment `Ded m rk d`: no facility, automatic tasks
without component and with positive rate, FS/SS links, acyclic in-range graph, no solo worker,
and every non-automatic task `t` has a worker `d t` of its own — eligible for `t`, never
individually absent, eligible for no other task.  Then `max_time ≥ |p.absence| +
Σ_t (3 + ⌈rem₀ t / δ_t⌉)` gives SUCCESS with every task FINISHED within that bound. -/
theorem C05_live_dedicated (m : Model) (rk d : Nat → Nat) (p : Params) (s : St)
    (hD : Ded m rk d) (hs : p.initState = true) (hl : p.initLog = true)
    (hb : seqBound m p ≤ p.maxTime) :
    (simulate m p s).status = .success ∧
    (simulate m p s).time ≤ seqBound m p ∧
    allFinished m (simulate m p s).live = true :=
  C05_live_shared m rk p s hD.toFragL hs hl hb

/-- **C05 (liveness, dedicated workers, every step).**  In the dedicated fragment, on a working
step, every non-automatic task `t < nT` that is READY or WORKING after `__update` ends the step
WORKING, holds its dedicated worker, has lost at least `δ_t` of its remaining work, and its
potential `phi` (stages ahead + `⌈rem/δ_t⌉`) has dropped: tasks advance in parallel. -/
theorem C05_live_dedicated_step (m : Model) (rk d : Nat → Nat) (p : Params) (hD : Ded m rk d)
    (s : St) (hI : Inv m s.live) (hwork : p.absence.contains s.time = false) (t : Nat)
    (ht : t < m.nT) (ha : (m.task t).isAuto = false)
    (hu : (updated m s).live.tstate t = .ready ∨ (updated m s).live.tstate t = .working) :
    d t ∈ (iter m p s).live.allocW t ∧ (iter m p s).live.tstate t = .working ∧
    (iter m p s).live.rem t ≤ (updated m s).live.rem t - delta m t ∧
    phi m (iter m p s).live t + 1 ≤ phi m s.live t :=
  ded_progress hD hI hwork ht ha hu

/-- the invariants the loop-level statements ask for hold when the loop is entered after
`initialize(state_info=True)` -/
theorem C05_live_inv_enter (m : Model) (p : Params) (s : St) (hs : p.initState = true) :
    Inv m (enter m p s).live := Inv_enter hs

/-! ### the hypotheses are satisfiable -/

namespace C05LiveEx

/-- three tasks: 0 (work 2) —FS→ 1 (work 3/2), 0 —SS→ 2 (automatic, work 1, rate 1/2);
worker 0 can do tasks 0 and 1 (skills 1 and 1/2) and is absent at step 2; worker 1 can do task 1 -/
def mL : Model where
  nT := 3
  nW := 2
  nF := 0
  nTeam := 1
  nWp := 0
  nC := 0
  task := fun t =>
    if t = 0 then { name := 0, work := 2, outputs := [(1, .fs), (2, .ss)] }
    else if t = 1 then { name := 1, work := 3/2, inputs := [(0, .fs)] }
    else { name := 2, work := 1, isAuto := true, autoRate := 1/2, inputs := [(0, .ss)] }
  worker := fun w =>
    if w = 0 then { team := 0, skills := [(0, 1), (1, 1/2)], absence := [2] }
    else { team := 0, skills := [(1, 1)] }
  fac := fun _ => {}
  team := fun _ => { workers := [0, 1], targets := [0, 1] }
  wp := fun _ => {}
  comp := fun _ => {}

def pL : Params := { absence := [1], maxTime := 20 }

theorem mL_frag : FragL mL id (fun _ => true) where
  noFac := by decide +kernel
  autoNoComp := by decide +kernel
  noFin := by unfold Auto.NoFinDeps; decide +kernel
  graph := by decide +kernel
  autoRate := by decide +kernel
  solo := by decide +kernel
  served := by decide +kernel

/-- the same project with worker 0 solo: still in fragment L when every worker is relied upon -/
def mS : Model :=
  { mL with worker := fun w => if w = 0 then { mL.worker 0 with solo := true } else mL.worker w }

theorem mS_frag : FragL mS id (fun _ => true) where
  noFac := by decide +kernel
  autoNoComp := by decide +kernel
  noFin := by unfold Auto.NoFinDeps; decide +kernel
  graph := by decide +kernel
  autoRate := by decide +kernel
  solo := by decide +kernel
  served := by decide +kernel

/-- three tasks with a worker of their own for the two non-automatic ones:
0 (work 2, worker 0) —FS→ 1 (work 3/2, worker 1), 0 —SS→ 2 (automatic) -/
def mD : Model where
  nT := 3
  nW := 2
  nF := 0
  nTeam := 2
  nWp := 0
  nC := 0
  task := fun t =>
    if t = 0 then { name := 0, work := 2, outputs := [(1, .fs), (2, .ss)] }
    else if t = 1 then { name := 1, work := 3/2, inputs := [(0, .fs)] }
    else { name := 2, work := 1, isAuto := true, autoRate := 1/2, inputs := [(0, .ss)] }
  worker := fun w =>
    if w = 0 then { team := 0, skills := [(0, 1)] } else { team := 1, skills := [(1, 1/2)] }
  fac := fun _ => {}
  team := fun tm => if tm = 0 then { workers := [0], targets := [0] } else { workers := [1], targets := [1] }
  wp := fun _ => {}
  comp := fun _ => {}

theorem mD_ded : Ded mD id id where
  noFac := by decide +kernel
  autoNoComp := by decide +kernel
  noFin := by unfold Auto.NoFinDeps; decide +kernel
  graph := by decide +kernel
  autoRate := by decide +kernel
  noSolo := by decide +kernel
  ded := by decide +kernel
  excl := by decide +kernel

end C05LiveEx

/-- premises of `C05_live_partial` on the shared-worker model: fragment, flags, and the bound
(1 project absence step + 1 worker absence step + (3+2) + (3+3) + (3+2) = 18) is within
`max_time = 20`; the run indeed succeeds (after 5 steps) -/
example : FragL C05LiveEx.mL id (fun _ => true) ∧ C05LiveEx.pL.initState = true ∧
    C05LiveEx.pL.initLog = true ∧ bound C05LiveEx.mL C05LiveEx.pL (fun _ => true) = 18 ∧
    bound C05LiveEx.mL C05LiveEx.pL (fun _ => true) < C05LiveEx.pL.maxTime ∧
    (simulate C05LiveEx.mL C05LiveEx.pL St.fresh).status = .success ∧
    (simulate C05LiveEx.mL C05LiveEx.pL St.fresh).time = 5 :=
  ⟨C05LiveEx.mL_frag, rfl, rfl, by decide +kernel, by decide +kernel, by decide +kernel,
   by decide +kernel⟩

/-- … and what the theorem gives for it -/
example : (simulate C05LiveEx.mL C05LiveEx.pL St.fresh).status = .success :=
  (C05_live_partial C05LiveEx.mL id C05LiveEx.pL St.fresh C05LiveEx.mL_frag rfl rfl
    (by decide +kernel)).1

/-- the run is not trivial: task 0 WORKING with worker 0 (stalled at the project absence step 1 and
at the worker's absence step 2), then task 1 with both workers; the automatic task runs alongside
(it becomes READY at the project absence step 1, where nothing starts, and is started at step 2) -/
example : ((runTrace C05LiveEx.mL C05LiveEx.pL St.fresh).map fun s =>
      (s.time, s.live.tstate 0, s.live.tstate 1, s.live.tstate 2, s.live.allocW 1)) =
    [(1, .working, .none, .none, []), (2, .working, .none, .ready, []),
     (3, .working, .none, .working, []), (4, .working, .none, .working, []),
     (5, .finished, .working, .finished, [1, 0])] ∧
    ((runTrace C05LiveEx.mL C05LiveEx.pL St.fresh).map fun s => s.live.rem 0) = [1, 1, 1, 0, 0] := by
  decide +kernel

/-- premises of `C05_live_partial` with a solo worker -/
example : FragL C05LiveEx.mS id (fun _ => true) ∧ (C05LiveEx.mS.worker 0).solo = true ∧
    bound C05LiveEx.mS C05LiveEx.pL (fun _ => true) ≤ C05LiveEx.pL.maxTime ∧
    (simulate C05LiveEx.mS C05LiveEx.pL St.fresh).status = .success :=
  ⟨C05LiveEx.mS_frag, rfl, by decide +kernel, by decide +kernel⟩

/-- premises of `C05_live_relied` for a continued clock (`log_info = False` keeps `time`) -/
example : ({ C05LiveEx.pL with initLog := false, maxTime := 30 } : Params).initState = true ∧
    (enter C05LiveEx.mL { C05LiveEx.pL with initLog := false, maxTime := 30 }
      { St.fresh with time := 7 }).time +
      bound C05LiveEx.mL { C05LiveEx.pL with initLog := false, maxTime := 30 } (fun _ => true) ≤ 30 := by
  decide +kernel

/-- premises of `C05_live_dedicated` (and so of `C05_live_shared`, through `Ded.toFragL`): the
bound is 1 + (3+2) + (3+3) + (3+2) = 17 ≤ 20, and the run succeeds -/
example : Ded C05LiveEx.mD id id ∧ FragL C05LiveEx.mD id (neverAbsent C05LiveEx.mD) ∧
    seqBound C05LiveEx.mD C05LiveEx.pL = 17 ∧ seqBound C05LiveEx.mD C05LiveEx.pL < C05LiveEx.pL.maxTime ∧
    (simulate C05LiveEx.mD C05LiveEx.pL St.fresh).status = .success :=
  ⟨C05LiveEx.mD_ded, C05LiveEx.mD_ded.toFragL, by decide +kernel, by decide +kernel,
   by decide +kernel⟩

/-- premises of `C05_live_measure`, `C05_live_loop`, `C05_live_dedicated_step` at the state the run
enters its loop with: invariants, a working step, an unfinished task, task 0 READY after
`__update`; and the measure there is within the bound -/
example : Inv C05LiveEx.mD (enter C05LiveEx.mD C05LiveEx.pL St.fresh).live ∧
    C05LiveEx.pL.absence.contains (enter C05LiveEx.mD C05LiveEx.pL St.fresh).time = false ∧
    allFinished C05LiveEx.mD (updated C05LiveEx.mD (enter C05LiveEx.mD C05LiveEx.pL St.fresh)).live = false ∧
    (updated C05LiveEx.mD (enter C05LiveEx.mD C05LiveEx.pL St.fresh)).live.tstate 0 = .ready ∧
    (C05LiveEx.mD.task 0).isAuto = false ∧
    mu C05LiveEx.mD C05LiveEx.pL (neverAbsent C05LiveEx.mD) (enter C05LiveEx.mD C05LiveEx.pL St.fresh) = 16 :=
  ⟨C05_live_inv_enter _ _ _ rfl, by decide +kernel, by decide +kernel, by decide +kernel, rfl,
   by decide +kernel⟩

/-! ### the full statement is false outside the fragment -/

namespace C05LiveEx

/-- task 1 (work 1) must FINISH after task 0 (work 5) has finished (FF); one worker can do both -/
def mFF : Model where
  nT := 2
  nW := 1
  nF := 0
  nTeam := 1
  nWp := 0
  nC := 0
  task := fun t =>
    if t = 0 then { name := 0, work := 5, outputs := [(1, .ff)] }
    else { name := 1, work := 1, inputs := [(0, .ff)] }
  worker := fun _ => { team := 0, skills := [(0, 1), (1, 1)] }
  fac := fun _ => {}
  team := fun _ => { workers := [0], targets := [0, 1] }
  wp := fun _ => {}
  comp := fun _ => {}

/-- one task that needs a facility; there is an eligible worker but no facility at all -/
def mNF : Model where
  nT := 1
  nW := 1
  nF := 0
  nTeam := 1
  nWp := 0
  nC := 0
  task := fun _ => { name := 0, work := 1, needFac := true }
  worker := fun _ => { team := 0, skills := [(0, 1)] }
  fac := fun _ => {}
  team := fun _ => { workers := [0], targets := [0] }
  wp := fun _ => {}
  comp := fun _ => {}

end C05LiveEx

/-- **Counterexample to the full statement (FF link, shared worker).**  `mFF` is acyclic, has no
facility, no absence, and every task has an eligible, never absent worker.  Under the SPT rule
the worker goes to the shorter task 1 first; after one step task 1 has no work left but must wait
for task 0 to finish (FF), stays WORKING and keeps the worker (its remaining work goes negative),
so task 0 never starts: the run ends FAILURE at `max_time`, whatever `max_time` (here 12, far
above the sequential work 6).  With the default TSLACK rule the same project succeeds.  Replayed
on the real pDESy: status FAILURE, A READY, B WORKING with remaining work −11 at time 12. -/
theorem C05_live_full_counterexample_FF :
    (∀ t, t < C05LiveEx.mFF.nT → (C05LiveEx.mFF.task t).needFac = false ∧
      ∃ w, w < C05LiveEx.mFF.nW ∧ WorkerElig C05LiveEx.mFF t w ∧
        (C05LiveEx.mFF.worker w).absence = []) ∧
    (∀ t, t < C05LiveEx.mFF.nT → ∀ e ∈ (C05LiveEx.mFF.task t).inputs, e.1 < t) ∧
    (simulate C05LiveEx.mFF { rule := .spt, maxTime := 12 } St.fresh).status = .failure ∧
    (simulate C05LiveEx.mFF { rule := .spt, maxTime := 12 } St.fresh).live.tstate 0 = .ready ∧
    (simulate C05LiveEx.mFF { rule := .spt, maxTime := 12 } St.fresh).live.tstate 1 = .working ∧
    (simulate C05LiveEx.mFF { rule := .spt, maxTime := 12 } St.fresh).live.rem 1 = -11 ∧
    (simulate C05LiveEx.mFF { rule := .spt, maxTime := 12 } St.fresh).live.allocW 1 = [0] ∧
    (simulate C05LiveEx.mFF { rule := .tslack, maxTime := 12 } St.fresh).status = .success := by
  decide +kernel

/-- **Counterexample to the full statement (facility).**  The only task of `mNF` has an eligible,
never absent worker, but needs a facility and there is none: it never starts. -/
theorem C05_live_full_counterexample_facility :
    (∃ w, w < C05LiveEx.mNF.nW ∧ WorkerElig C05LiveEx.mNF 0 w ∧
      (C05LiveEx.mNF.worker w).absence = []) ∧
    (simulate C05LiveEx.mNF { maxTime := 12 } St.fresh).status = .failure ∧
    (simulate C05LiveEx.mNF { maxTime := 12 } St.fresh).live.tstate 0 = .ready := by
  decide +kernel

end PDesy

#print axioms PDesy.C05_live_measure
#print axioms PDesy.C05_live_loop
#print axioms PDesy.C05_live_relied
#print axioms PDesy.C05_live_partial
#print axioms PDesy.C05_live_shared
#print axioms PDesy.C05_live_dedicated
#print axioms PDesy.C05_live_dedicated_step
#print axioms PDesy.C05_live_inv_enter
#print axioms PDesy.C05_live_full_counterexample_FF
#print axioms PDesy.C05_live_full_counterexample_facility
