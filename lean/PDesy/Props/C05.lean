/-
  PDesy.Props.C05 — safety half of "the simulation terminates within `max_time` and the
  reported status is truthful".

  * `simulate` is total by construction (structural recursion on fuel); what is proved here is
    that the fuel it passes (`fuelOf = max_time - time + 1`) is never what stops the loop: the
    result does not depend on the fuel once there is that much of it, and the loop always leaves
    through one of its two exits (so the status is SUCCESS or FAILURE).
  * SUCCESS is reported exactly when every task is FINISHED; FAILURE only at `time ≥ max_time`;
    no step is simulated at a time `≥ max_time`.
  * A non-automatic, not yet started task that no worker of the organisation is eligible for
    (`Elig.WorkerElig`) never finishes, so the run does not report SUCCESS.
-/
import PDesy.Lemmas.Elig

namespace PDesy
open Lifecycle Elig

/-! ### the status is truthful -/

/-- **C05 (status, loop level).** With at least `max_time - time + 1` units of fuel the loop
leaves through one of its two exits: the returned status is SUCCESS or FAILURE; it is SUCCESS
exactly when every task of the returned state is FINISHED; it is FAILURE only if the returned
time has reached `max_time`. -/
theorem C05_status_loop (m : Model) (p : Params) :
    ∀ fuel s, fuel ≥ p.maxTime - s.time + 1 →
      ((loop m p fuel s).status = .success ↔ allFinished m (loop m p fuel s).live = true) ∧
      ((loop m p fuel s).status = .failure → (loop m p fuel s).time ≥ p.maxTime) ∧
      ((loop m p fuel s).status = .success ∨ (loop m p fuel s).status = .failure) := by
  intro fuel
  induction fuel with
  | zero => intro s h; omega
  | succ n ih =>
    intro s h
    simp only [loop]
    split
    · rename_i hf
      exact ⟨⟨fun _ => hf, fun _ => rfl⟩, fun hs => (by cases hs), Or.inl rfl⟩
    · rename_i hf
      split
      · rename_i ht
        exact ⟨⟨fun hs => (by cases hs), fun ha => absurd ha hf⟩, fun _ => ht, Or.inr rfl⟩
      · rename_i ht
        apply ih
        have h1 : (stepBody m p { s with live := update m s.time s.live }).time = s.time + 1 := rfl
        have h2 : ¬ s.time ≥ p.maxTime := ht
        omega

example : (5 : Nat) ≥ ({ maxTime := 4 } : Params).maxTime - St.fresh.time + 1 := by decide

/-- **C05 (status of `simulate`).** `simulate` returns SUCCESS or FAILURE; SUCCESS exactly when
every task is FINISHED in the returned state; FAILURE only when the returned time has reached
`max_time`. -/
theorem C05_status (m : Model) (p : Params) (s : St) :
    ((simulate m p s).status = .success ↔ allFinished m (simulate m p s).live = true) ∧
    ((simulate m p s).status = .failure → (simulate m p s).time ≥ p.maxTime) ∧
    ((simulate m p s).status = .success ∨ (simulate m p s).status = .failure) := by
  rw [simulate_eq]
  exact C05_status_loop m p _ _ (Nat.le_refl _)

/-- both outcomes occur: the example model finishes, the model with an unservable task fails -/
example : (simulate exF {} St.fresh).status = .success ∧
    (simulate exU { maxTime := 5 } St.fresh).status = .failure := by
  decide +kernel

/-- **C05 (fuel never runs out).** Any two amounts of fuel of at least `max_time - time + 1`
give the same final state: the loop is never stopped by its fuel. -/
theorem C05_fuel (m : Model) (p : Params) :
    ∀ fuel fuel' s, fuel ≥ p.maxTime - s.time + 1 → fuel' ≥ p.maxTime - s.time + 1 →
      loop m p fuel s = loop m p fuel' s := by
  intro fuel
  induction fuel with
  | zero => intro fuel' s h; omega
  | succ n ih =>
    intro fuel' s h h'
    cases fuel' with
    | zero => omega
    | succ n' =>
      simp only [loop]
      split
      · rfl
      · split
        · rfl
        · rename_i ht
          have h1 : (stepBody m p { s with live := update m s.time s.live }).time = s.time + 1 := rfl
          have h2 : ¬ s.time ≥ p.maxTime := ht
          apply ih <;> omega

/-- **C05 (no step at or beyond `max_time`).** Every executed step `s'` of the loop started from
`s` was simulated at time `s'.time - 1`, which is at least the starting time and strictly below
`max_time` (the body of the loop is only applied to states with `time < max_time`). -/
theorem C05_trace_time (m : Model) (p : Params) :
    ∀ fuel s, ∀ s' ∈ trace m p fuel s, s.time < s'.time ∧ s'.time - 1 < p.maxTime := by
  intro fuel
  induction fuel with
  | zero => intro s s' h; simp [trace] at h
  | succ n ih =>
    intro s s' h
    simp only [trace] at h
    split at h
    · simp at h
    · rename_i hd
      have hd' : done m p (updated m s) = false := by simpa using hd
      simp only [done, Bool.or_eq_false_iff, decide_eq_false_iff_not] at hd'
      have hlt : ¬ s.time ≥ p.maxTime := hd'.2
      have h1 : (stepBody m p (updated m s)).time = s.time + 1 := rfl
      rcases List.mem_cons.mp h with h | h
      · subst h; omega
      · have := ih _ _ h
        omega

/-- **C05 (no step of a run at or beyond `max_time`).** -/
theorem C05_run_time (m : Model) (p : Params) (s : St) :
    ∀ s' ∈ runTrace m p s, 1 ≤ s'.time ∧ s'.time - 1 < p.maxTime := by
  intro s' hs'
  have := C05_trace_time m p _ _ s' hs'
  omega

/-- the run of the failing example has exactly `max_time` recorded steps, the last one
simulated at time `max_time - 1` -/
example : (runTrace exU { maxTime := 5 } St.fresh).map (·.time) = [1, 2, 3, 4, 5] := by
  decide +kernel

/-- **C05 (returned time).** If the loop is entered at a time `≤ max_time` (for instance after
`initialize(log_info=True)`, which resets the time to 0), the returned time is `≤ max_time`. -/
theorem C05_final_time (m : Model) (p : Params) (fuel : Nat) (s : St) (h : s.time ≤ p.maxTime) :
    (loop m p fuel s).time ≤ p.maxTime := by
  refine loop_inv m p (fun s => s.time ≤ p.maxTime) (fun _ hs => hs) ?_ (fun _ _ hs => hs) fuel s h
  intro s' _ hd
  simp only [done, Bool.or_eq_false_iff, decide_eq_false_iff_not] at hd
  have h1 : (stepBody m p s').time = s'.time + 1 := rfl
  omega

example : St.fresh.time ≤ ({ maxTime := 5 } : Params).maxTime := by decide

/-! ### a task nobody can serve -/

/-- **C05 (unservable task, loop level).** Let `t` be a non-automatic task that no worker of the
organisation is eligible for, that has not started (neither WORKING nor FINISHED) and holds no
worker, in a state that satisfies the allocation invariant of C04.  Then whatever the fuel, the
final state of the loop has `t` not FINISHED (it is still NONE or READY and still holds no
worker), hence not all tasks are FINISHED. -/
theorem C05_unservable_loop (m : Model) (p : Params) (s : St) (t : Nat) (ht : t < m.nT)
    (ha : (m.task t).isAuto = false) (hno : ∀ w, w < m.nW → ¬ WorkerElig m t w)
    (hI : EligInv m s.live)
    (hst : s.live.tstate t ≠ .working ∧ s.live.tstate t ≠ .finished)
    (h0 : s.live.allocW t = []) (fuel : Nat) :
    (loop m p fuel s).live.tstate t ≠ .finished ∧
    (loop m p fuel s).live.allocW t = [] ∧
    allFinished m (loop m p fuel s).live = false := by
  have hidle : Idle s.live t := by
    refine ⟨?_, h0⟩
    obtain ⟨h1, h2⟩ := hst
    revert h1 h2
    cases s.live.tstate t <;> simp
  have key : Idle (loop m p fuel s).live t ∧ EligInv m (loop m p fuel s).live :=
    loop_inv m p (fun s' => Idle s'.live t ∧ EligInv m s'.live)
      (fun s' hs => ⟨Idle_update m s'.time s'.live t hs.1, EligInv_updated m s' hs.2⟩)
      (fun s' hs _ => ⟨Idle_stepBody m p s' t ht ha hs.2 hno hs.1, EligInv_stepBody m p s' hs.2⟩)
      (fun _ _ hs => hs) fuel s ⟨hidle, hI⟩
  have hne : (loop m p fuel s).live.tstate t ≠ .finished := by
    rcases key.1.1 with h | h <;> rw [h] <;> intro hc <;> cases hc
  refine ⟨hne, key.1.2, ?_⟩
  rw [Bool.eq_false_iff]
  intro hall
  simp only [allFinished, List.all_eq_true, List.mem_range, beq_iff_eq] at hall
  exact hne (hall t ht)

/-- the hypotheses are satisfiable: task 1 of `exU` after initialisation -/
example : (1 < exU.nT) ∧ (exU.task 1).isAuto = false ∧ (∀ w, w < exU.nW → ¬ WorkerElig exU 1 w) ∧
    EligInv exU (enter exU {} St.fresh).live ∧
    ((enter exU {} St.fresh).live.tstate 1 ≠ .working ∧
      (enter exU {} St.fresh).live.tstate 1 ≠ .finished) ∧
    (enter exU {} St.fresh).live.allocW 1 = [] := by
  decide +kernel

/-- **C05 (unservable task, loop level, status).** … and with enough fuel the reported status is
FAILURE, not SUCCESS. -/
theorem C05_unservable_loop_status (m : Model) (p : Params) (s : St) (t : Nat) (ht : t < m.nT)
    (ha : (m.task t).isAuto = false) (hno : ∀ w, w < m.nW → ¬ WorkerElig m t w)
    (hI : EligInv m s.live)
    (hst : s.live.tstate t ≠ .working ∧ s.live.tstate t ≠ .finished)
    (h0 : s.live.allocW t = []) (fuel : Nat) (hfuel : fuel ≥ p.maxTime - s.time + 1) :
    (loop m p fuel s).status ≠ .success ∧ (loop m p fuel s).status = .failure := by
  obtain ⟨_, _, hall⟩ := C05_unservable_loop m p s t ht ha hno hI hst h0 fuel
  obtain ⟨h1, _, h3⟩ := C05_status_loop m p fuel s hfuel
  have hns : (loop m p fuel s).status ≠ .success := by
    intro hs; rw [h1.mp hs] at hall; cases hall
  exact ⟨hns, h3.resolve_left hns⟩

/-- **C05 (a project with an unservable task does not report success).** In a forward run with
`initState = true`: if a non-automatic task `t` has no eligible worker in the organisation, and
— when the logs are reset too (`initLog = true`, the case in which `initialize` marks tasks whose
default progress is complete as FINISHED) — its default progress is below 1, then the returned
state has `t` not FINISHED and the reported status is FAILURE, never SUCCESS. -/
theorem C05_unservable (m : Model) (p : Params) (s : St) (hinit : p.initState = true)
    (t : Nat) (ht : t < m.nT) (ha : (m.task t).isAuto = false)
    (hno : ∀ w, w < m.nW → ¬ WorkerElig m t w)
    (hprog : p.initLog = true → (m.task t).prog < 1) :
    (simulate m p s).live.tstate t ≠ .finished ∧
    (simulate m p s).status ≠ .success ∧ (simulate m p s).status = .failure := by
  have hidle : Idle (enter m p s).live t := by
    rw [enter_live, hinit]; exact Idle_initProject m p.initLog s t ht hprog
  have hI : EligInv m (enter m p s).live := by
    rw [enter_live, hinit]; exact EligInv_initProject m p.initLog s
  have hst : (enter m p s).live.tstate t ≠ .working ∧ (enter m p s).live.tstate t ≠ .finished := by
    rcases hidle.1 with h | h <;> rw [h] <;> exact ⟨(by intro hc; cases hc), (by intro hc; cases hc)⟩
  rw [simulate_eq]
  exact ⟨(C05_unservable_loop m p _ t ht ha hno hI hst hidle.2 _).1,
    C05_unservable_loop_status m p _ t ht ha hno hI hst hidle.2 _ (Nat.le_refl _)⟩

/-- the hypotheses are satisfiable (task 1 of `exU`), and the conclusion is what the run does -/
example : ({ maxTime := 5 } : Params).initState = true ∧ (1 < exU.nT) ∧
    (exU.task 1).isAuto = false ∧ (∀ w, w < exU.nW → ¬ WorkerElig exU 1 w) ∧
    (({ maxTime := 5 } : Params).initLog = true → (exU.task 1).prog < 1) := by
  decide +kernel

example : (simulate exU { maxTime := 5 } St.fresh).status = .failure ∧
    (simulate exU { maxTime := 5 } St.fresh).live.tstate 0 = .finished ∧
    (simulate exU { maxTime := 5 } St.fresh).live.tstate 1 = .ready := by
  decide +kernel

/-- the `prog < 1` hypothesis is needed: with complete default progress the unservable task is
FINISHED from the start and the run succeeds -/
example : (simulate { exU with task := fun t => { exU.task t with prog := if t = 1 then 1 else 0 } }
    { maxTime := 5 } St.fresh).status = .success := by
  decide +kernel

end PDesy

#print axioms PDesy.C05_status_loop
#print axioms PDesy.C05_status
#print axioms PDesy.C05_fuel
#print axioms PDesy.C05_trace_time
#print axioms PDesy.C05_run_time
#print axioms PDesy.C05_final_time
#print axioms PDesy.C05_unservable_loop
#print axioms PDesy.C05_unservable_loop_status
#print axioms PDesy.C05_unservable
