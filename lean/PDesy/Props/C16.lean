/-
  PDesy.Props.C16 — "Saving to JSON and loading restores everything that was saved, at any
  stage".

  Writing a project to JSON and reading it into a new project yields a project whose own JSON
  export equals the original file value-for-value, whose cross references (dependencies,
  component/task/team/workplace links, allocations, placements) all resolve to objects of the
  restored project, and which re-simulates to the same result.  Writing never fails.

  `PDesy.Model.Persist` models `write_simple_json` / `read_simple_json` as relabelling: in
  memory a cross reference is an object (an index), in the file it is an ID string (a label).
  `exportP ids m s` replaces every resolved reference by the label of its target, `importP ids
  sm ss` resolves every label to the FIRST object of its kind carrying it and fails when there
  is none.  "At any stage": `s` is an arbitrary state (fresh, mid-run, finished) in every theorem.

  What is proved (all for arbitrary `ids`, `m`, `s`):
  * `C16_resolve_label`, `C16_resolve_some`        — `get_xxx_list(ID=ID)[0]`;
  * `C16_export_total`                             — writing never fails; sizes, non-reference
                                                     data, logs and scalars are written as is;
  * `C16_import_export`                            — load ∘ save = identity (FULL equality
                                                     `importP ids sm ss = some (m, s)`), under
                                                     `UniqueIds` and `RefsOK`;
    `C16_import_export_ranges`, `C16_import_succeeds` — the same in the field-by-field form;
  * `C16_reexport`                                 — save ∘ load = identity on every file that
                                                     loads, with NO hypothesis at all;
    `C16_export_import_export`                     — the requested corollary;
  * `C16_refs_resolve`                             — after a successful load every reference is
                                                     an object of the restored project;
    `C16_loadable_iff`                             — a file that loads is the export of the
                                                     loaded project, whose references are in range;
  * `C16_resimulate`                               — the restored project re-simulates to the
                                                     same result, for every parameter set;
  * `C16_unique_needed`, `C16_unique_needed_neg`   — with two tasks sharing an ID the round
                                                     trip changes a dependency.
-/
import PDesy.Lemmas.PersistLemmas

namespace PDesy
open PDesy.PersistL

/-! ### 1. `get_xxx_list(ID=ID)[0]` -/

/-- If the IDs of the first `n` objects are pairwise distinct, looking up the ID of object `i`
finds object `i`. -/
theorem C16_resolve_label {lab : Nat → Nat} {n i : Nat}
    (hu : ∀ i j, i < n → j < n → lab i = lab j → i = j) (hi : i < n) :
    resolve lab n (lab i) = some i :=
  resolve_label hu hi

/-- What load guarantees: a successfully resolved reference is an object of the restored
project (`i < n`) and it carries the ID that was looked up. -/
theorem C16_resolve_some {lab : Nat → Nat} {n x i : Nat} (h : resolve lab n x = some i) :
    i < n ∧ lab i = x :=
  resolve_some h

/-! ### 2. writing never fails -/

/-- Writing never fails, for every model and every state, and the written value has the same
sizes, the same worker and facility tables, the same non-reference data in every task / team /
workplace / component record (all fields but the reference lists), the same non-reference live
data, and the same logs and scalars. -/
theorem C16_export_total (ids : Ids) (m : Model) (s : St) :
    ∃ sm ss, exportP ids m s = some (sm, ss) ∧
      (sm.nT = m.nT ∧ sm.nW = m.nW ∧ sm.nF = m.nF ∧ sm.nTeam = m.nTeam ∧ sm.nWp = m.nWp ∧
        sm.nC = m.nC) ∧
      sm.worker = m.worker ∧ sm.fac = m.fac ∧
      (∀ t, sm.task t =
        { m.task t with
          inputs := (sm.task t).inputs
          outputs := (sm.task t).outputs
          wps := (sm.task t).wps
          comp := (sm.task t).comp }) ∧
      (∀ a, sm.team a = { m.team a with targets := (sm.team a).targets }) ∧
      (∀ q, sm.wp q =
        { m.wp q with
          targets := (sm.wp q).targets
          inputs := (sm.wp q).inputs
          outputs := (sm.wp q).outputs }) ∧
      (∀ c, sm.comp c =
        { m.comp c with
          tasks := (sm.comp c).tasks
          parents := (sm.comp c).parents
          children := (sm.comp c).children }) ∧
      ss.live =
        { s.live with
          allocW := ss.live.allocW
          allocF := ss.live.allocF
          wasg := ss.live.wasg
          fasg := ss.live.fasg
          placed := ss.live.placed
          wpComps := ss.live.wpComps } ∧
      ss = { s with live := ss.live } := by
  refine ⟨_, _, exportP_eq ids m s, ⟨rfl, rfl, rfl, rfl, rfl, rfl⟩, rfl, rfl, ?_, ?_, ?_, ?_,
    rfl, rfl⟩
  · intro t; simp only [labModel]; split <;> rfl
  · intro t; simp only [labModel]; split <;> rfl
  · intro t; simp only [labModel]; split <;> rfl
  · intro t; simp only [labModel]; split <;> rfl

/-- What exactly is written: every in-range record with its references replaced by the IDs of
their targets (`labModel`, `labLive`), nothing else touched. -/
theorem C16_export_explicit (ids : Ids) (m : Model) (s : St) :
    exportP ids m s = some (labModel ids m, { s with live := labLive ids m s.live }) :=
  exportP_eq ids m s

/-! ### 3. load ∘ save -/

/-- Loading what was saved gives back exactly the project that was saved — the whole static
model and the whole state (live data, logs, time, status, …), not only the in-range part —
provided IDs are unique within each kind and every reference points to an object of the
project. -/
theorem C16_import_export {ids : Ids} {m : Model} {s : St} {sm : Model} {ss : St}
    (hu : UniqueIds ids m) (ok : RefsOK m s.live) (hx : exportP ids m s = some (sm, ss)) :
    importP ids sm ss = some (m, s) := by
  obtain ⟨h1, h2, h3⟩ := (exportP_iff ids m s sm ss).1 hx
  have hs := h1.sizes
  have hg : Inverts ids m (ids.fromMap sm) := by
    rw [fromMap_congr ids hs]; exact inverts_fromMap hu
  refine (importP_iff ids sm ss m s).2 ⟨relM_back hg ok h1, relL_back hg hs ok h2, ?_⟩
  rw [h3]

/-- Under the same hypotheses the load does succeed. -/
theorem C16_import_succeeds {ids : Ids} {m : Model} {s : St} {sm : Model} {ss : St}
    (hu : UniqueIds ids m) (ok : RefsOK m s.live) (hx : exportP ids m s = some (sm, ss)) :
    ∃ m' s', importP ids sm ss = some (m', s') :=
  ⟨m, s, C16_import_export hu ok hx⟩

/-- The same, field by field: the loaded project has the sizes of the saved one, the same task /
team / workplace / component records and worker / facility tables, the same allocations,
assignments and placements, and everything else of the state is equal. -/
theorem C16_import_export_ranges {ids : Ids} {m : Model} {s : St} {sm : Model} {ss : St}
    {m' : Model} {s' : St}
    (hu : UniqueIds ids m) (ok : RefsOK m s.live) (hx : exportP ids m s = some (sm, ss))
    (hi : importP ids sm ss = some (m', s')) :
    (m'.nT = m.nT ∧ m'.nW = m.nW ∧ m'.nF = m.nF ∧ m'.nTeam = m.nTeam ∧ m'.nWp = m.nWp ∧
      m'.nC = m.nC) ∧
    (∀ t, t < m.nT → m'.task t = m.task t) ∧ (∀ a, a < m.nTeam → m'.team a = m.team a) ∧
    (∀ q, q < m.nWp → m'.wp q = m.wp q) ∧ (∀ c, c < m.nC → m'.comp c = m.comp c) ∧
    m'.worker = m.worker ∧ m'.fac = m.fac ∧
    (∀ t, t < m.nT → s'.live.allocW t = s.live.allocW t) ∧
    (∀ t, t < m.nT → s'.live.allocF t = s.live.allocF t) ∧
    (∀ w, w < m.nW → s'.live.wasg w = s.live.wasg w) ∧
    (∀ f, f < m.nF → s'.live.fasg f = s.live.fasg f) ∧
    (∀ c, c < m.nC → s'.live.placed c = s.live.placed c) ∧
    (∀ q, q < m.nWp → s'.live.wpComps q = s.live.wpComps q) ∧
    s' =
      { s with
        live :=
          { s.live with
            allocW := s'.live.allocW
            allocF := s'.live.allocF
            wasg := s'.live.wasg
            fasg := s'.live.fasg
            placed := s'.live.placed
            wpComps := s'.live.wpComps } } := by
  rw [C16_import_export hu ok hx] at hi
  simp only [Option.some.injEq, Prod.mk.injEq] at hi
  obtain ⟨rfl, rfl⟩ := hi
  exact ⟨⟨rfl, rfl, rfl, rfl, rfl, rfl⟩, fun _ _ => rfl, fun _ _ => rfl, fun _ _ => rfl,
    fun _ _ => rfl, rfl, rfl, fun _ _ => rfl, fun _ _ => rfl, fun _ _ => rfl, fun _ _ => rfl,
    fun _ _ => rfl, fun _ _ => rfl, rfl⟩

/-! ### 4. save ∘ load -/

/-- Whatever file loads, the loaded project's own export is that file, value for value (whole
model, whole state).  No uniqueness and no well-formedness hypothesis: load resolves an ID to an
object carrying that ID, and save writes that object's ID. -/
theorem C16_reexport {ids : Ids} {sm : Model} {ss : St} {m' : Model} {s' : St}
    (hi : importP ids sm ss = some (m', s')) : exportP ids m' s' = some (sm, ss) := by
  obtain ⟨h1, h2, h3⟩ := (importP_iff ids sm ss m' s').1 hi
  have hg := sound_fromMap ids sm
  refine (exportP_iff ids m' s' sm ss).2 ⟨relM_forth hg h1, relL_forth hg h1.sizes h2, ?_⟩
  rw [h3]

/-- Save, load, save again: the second file equals the first value for value. -/
theorem C16_export_import_export {ids : Ids} {m : Model} {s : St} {sm : Model} {ss : St}
    {m' : Model} {s' : St}
    (_hu : UniqueIds ids m) (_ok : RefsOK m s.live) (_hx : exportP ids m s = some (sm, ss))
    (hi : importP ids sm ss = some (m', s')) : exportP ids m' s' = some (sm, ss) :=
  C16_reexport hi

/-! ### 5. cross references resolve to objects of the restored project -/

/-- After a successful load every cross reference of the restored project — dependencies,
task→workplace, task→component, team/workplace→task, workplace→workplace, component→task /
parent / child, allocations, assignments, placements — is an object of the restored project.
Needs nothing but `C16_resolve_some`. -/
theorem C16_refs_resolve {ids : Ids} {sm : Model} {ss : St} {m' : Model} {s' : St}
    (hi : importP ids sm ss = some (m', s')) : RefsOK m' s'.live := by
  obtain ⟨h1, h2, _⟩ := (importP_iff ids sm ss m' s').1 hi
  exact refsOK_of_rel (sound_fromMap ids sm) h1 h2

/-- A file saved from a project with a dangling reference, or any file containing an ID that no
object of its kind carries, does not load silently: the only way for `importP` to succeed is
that every ID is found (contrapositive of `C16_refs_resolve` + `C16_reexport`): the file is
the export of a well-formed project. -/
theorem C16_loadable_iff {ids : Ids} {sm : Model} {ss : St} :
    (∃ m' s', importP ids sm ss = some (m', s')) ↔
      ∃ m' s', RefsOK m' s'.live ∧ exportP ids m' s' = some (sm, ss) ∧
        importP ids sm ss = some (m', s') :=
  ⟨fun ⟨m', s', h⟩ => ⟨m', s', C16_refs_resolve h, C16_reexport h, h⟩,
   fun ⟨m', s', _, _, h⟩ => ⟨m', s', h⟩⟩

/-! ### 6. re-simulation -/

/-- The restored project re-simulates to the same result as the saved one, whatever the
simulation parameters (in particular continuing a paused run with `initState = false`). -/
theorem C16_resimulate {ids : Ids} {m : Model} {s : St} {sm : Model} {ss : St}
    {m' : Model} {s' : St}
    (hu : UniqueIds ids m) (ok : RefsOK m s.live) (hx : exportP ids m s = some (sm, ss))
    (hi : importP ids sm ss = some (m', s')) (p : Params) :
    simulate m' p s' = simulate m p s := by
  rw [C16_import_export hu ok hx] at hi
  simp only [Option.some.injEq, Prod.mk.injEq] at hi
  obtain ⟨rfl, rfl⟩ := hi
  rfl

/-! ### 7. why uniqueness matters -/

namespace C16Ex

/-- three tasks, the first two share the ID 7; task 2 depends on task 1 -/
def dupIds : Ids :=
  { task := fun i => if i ≤ 1 then 7 else 8, worker := id, fac := id, team := id, wp := id, comp := id }

def dupM : Model :=
  { nT := 3, nW := 0, nF := 0, nTeam := 0, nWp := 0, nC := 0,
    task := fun t => if t = 2 then { inputs := [(1, .fs)] } else {},
    worker := fun _ => {}, fac := fun _ => {}, team := fun _ => {}, wp := fun _ => {},
    comp := fun _ => {} }

theorem dupM_refsOK : RefsOK dupM St.fresh.live :=
  ⟨by decide, by decide, by decide, by decide, by decide, by decide, by decide, by decide,
   by decide, by decide, by decide, by decide, by decide, by decide, by decide, by decide,
   by decide⟩

end C16Ex

/-- With two tasks sharing an ID (and every reference in range), save followed by load succeeds
but changes a dependency: task 2 depended on task 1, after the round trip it depends on task 0
(load takes the first object carrying the ID). -/
theorem C16_unique_needed :
    (C16Ex.dupM.task 2).inputs = [(1, .fs)] ∧
    ((exportP C16Ex.dupIds C16Ex.dupM St.fresh).bind fun p => importP C16Ex.dupIds p.1 p.2).map
      (fun p => (p.1.task 2).inputs) = some [(0, .fs)] := by
  decide +kernel

/-- Hence `C16_import_export` is false without `UniqueIds`. -/
theorem C16_unique_needed_neg :
    ¬ ∀ (ids : Ids) (m : Model) (s : St) (sm : Model) (ss : St), RefsOK m s.live →
        exportP ids m s = some (sm, ss) → importP ids sm ss = some (m, s) := by
  intro h
  have hx := exportP_eq C16Ex.dupIds C16Ex.dupM St.fresh
  have hi := h _ _ _ _ _ C16Ex.dupM_refsOK hx
  have c := C16_unique_needed.2
  rw [hx] at c
  simp only [Option.bind_some] at c
  rw [hi] at c
  revert c
  decide +kernel

/-! ### 8. non-vacuity: a small project with every kind of reference -/

namespace C16Ex

/-- IDs: 100+i for tasks, 200+i workers, 300+i facilities, 400+i teams, 500+i workplaces,
600+i components -/
def ids : Ids :=
  { task := fun i => 100 + i, worker := fun i => 200 + i, fac := fun i => 300 + i,
    team := fun i => 400 + i, wp := fun i => 500 + i, comp := fun i => 600 + i }

/-- 2 tasks (0 →FS 1), 1 team with 1 worker, 2 workplaces (0 → 1) with 1 facility, 2 components
(0 parent of 1) -/
def m : Model :=
  { nT := 2, nW := 1, nF := 1, nTeam := 1, nWp := 2, nC := 2,
    task := fun t =>
      if t = 0 then { work := 2, outputs := [(1, .fs)], wps := [0], comp := some 0, needFac := true }
      else { work := 1, inputs := [(0, .fs)], wps := [0, 1], comp := some 1 },
    worker := fun _ => { team := 0, skills := [(0, 1)] },
    fac := fun _ => { wp := 0, skills := [(0, 1)] },
    team := fun _ => { workers := [0], targets := [0, 1] },
    wp := fun q => if q = 0 then { facs := [0], targets := [0, 1], outputs := [1] }
                   else { targets := [1], inputs := [0] },
    comp := fun c => if c = 0 then { tasks := [0], children := [1] }
                     else { tasks := [1], parents := [0] } }

/-- a mid-run state: task 0 WORKING with worker 0 and facility 0, component 0 placed in
workplace 0 -/
def s : St :=
  { St.fresh with
    time := 1
    live := { Live.empty with
      tstate := fun t => if t = 0 then .working else .none
      allocW := fun t => if t = 0 then [0] else []
      allocF := fun t => if t = 0 then [0] else []
      wstate := fun _ => .working
      wasg := fun _ => [0]
      fstate := fun _ => .working
      fasg := fun _ => [0]
      placed := fun c => if c = 0 then some 0 else Option.none
      wpComps := fun q => if q = 0 then [0] else [] } }

theorem uniq : UniqueIds ids m :=
  ⟨uniq_of_ball (by decide), uniq_of_ball (by decide), uniq_of_ball (by decide),
   uniq_of_ball (by decide), uniq_of_ball (by decide), uniq_of_ball (by decide)⟩

theorem refsOK : RefsOK m s.live :=
  ⟨by decide, by decide, by decide, by decide, by decide, by decide, by decide, by decide,
   by decide, by decide, by decide, by decide, by decide, by decide, by decide, by decide,
   by decide⟩

end C16Ex

/-- the hypotheses of `C16_import_export` are satisfiable on a project with every kind of
reference, mid-run -/
example : UniqueIds C16Ex.ids C16Ex.m ∧ RefsOK C16Ex.m C16Ex.s.live ∧
    ∃ sm ss, exportP C16Ex.ids C16Ex.m C16Ex.s = some (sm, ss) :=
  ⟨C16Ex.uniq, C16Ex.refsOK, _, _, exportP_eq _ _ _⟩

/-- … and so the round trip is the identity there -/
example : ∃ sm ss, exportP C16Ex.ids C16Ex.m C16Ex.s = some (sm, ss) ∧
    importP C16Ex.ids sm ss = some (C16Ex.m, C16Ex.s) :=
  ⟨_, _, exportP_eq _ _ _, C16_import_export C16Ex.uniq C16Ex.refsOK (exportP_eq _ _ _)⟩

namespace C16Ex
/-- observations: static references -/
def obsM (p : Model × St) :=
  ((p.1.task 1).inputs, (p.1.task 1).wps, (p.1.task 1).comp, (p.1.team 0).targets)
def obsM2 (p : Model × St) :=
  ((p.1.wp 0).targets, (p.1.wp 0).outputs, (p.1.comp 0).tasks, (p.1.comp 0).children)
/-- observations: live references -/
def obsL (p : Model × St) :=
  (p.2.live.allocW 0, p.2.live.allocF 0, p.2.live.wasg 0, p.2.live.fasg 0)
def obsL2 (p : Model × St) :=
  (p.2.live.placed 0, p.2.live.wpComps 0, (p.1.task 1).work, p.2.time)
end C16Ex

/-- the file really contains IDs, not indices (the relabelling is not the identity) -/
example :
    (exportP C16Ex.ids C16Ex.m C16Ex.s).map C16Ex.obsM =
      some ([(100, .fs)], [500, 501], some 601, [100, 101]) ∧
    (exportP C16Ex.ids C16Ex.m C16Ex.s).map C16Ex.obsM2 =
      some ([100, 101], [501], [100], [601]) ∧
    (exportP C16Ex.ids C16Ex.m C16Ex.s).map C16Ex.obsL = some ([200], [300], [100], [100]) ∧
    (exportP C16Ex.ids C16Ex.m C16Ex.s).map C16Ex.obsL2 = some (some 500, [600], 1, 1) :=
  ⟨by decide +kernel, by decide +kernel, by decide +kernel, by decide +kernel⟩

/-- the round trip computed: every kind of reference comes back as the original index -/
example :
    ((exportP C16Ex.ids C16Ex.m C16Ex.s).bind fun p => importP C16Ex.ids p.1 p.2).map C16Ex.obsM =
      some ([(0, .fs)], [0, 1], some 1, [0, 1]) ∧
    ((exportP C16Ex.ids C16Ex.m C16Ex.s).bind fun p => importP C16Ex.ids p.1 p.2).map C16Ex.obsM2 =
      some ([0, 1], [1], [0], [1]) ∧
    ((exportP C16Ex.ids C16Ex.m C16Ex.s).bind fun p => importP C16Ex.ids p.1 p.2).map C16Ex.obsL =
      some ([0], [0], [0], [0]) ∧
    ((exportP C16Ex.ids C16Ex.m C16Ex.s).bind fun p => importP C16Ex.ids p.1 p.2).map C16Ex.obsL2 =
      some (some 0, [0], 1, 1) :=
  ⟨by decide +kernel, by decide +kernel, by decide +kernel, by decide +kernel⟩

/-- a file containing an ID that no object of its kind carries does not load (`importP` is not
trivially total): the raw in-memory model read as a file has the "IDs" 0 and 1 in its reference
lists, and every real ID is ≥ 100 -/
example : (importP C16Ex.ids C16Ex.m C16Ex.s).isNone = true := by decide +kernel

/-- the hypothesis of `C16_reexport` / `C16_refs_resolve` is satisfiable -/
example : ∃ sm ss m' s', importP C16Ex.ids sm ss = some (m', s') :=
  ⟨_, _, _, _, C16_import_export C16Ex.uniq C16Ex.refsOK (exportP_eq _ _ _)⟩

/-- `resolve` on a concrete table: first match wins, missing label fails -/
example : resolve (fun i => if i ≤ 1 then 7 else 8) 3 7 = some 0 ∧
    resolve (fun i => if i ≤ 1 then 7 else 8) 3 8 = some 2 ∧
    resolve (fun i => if i ≤ 1 then 7 else 8) 3 9 = Option.none := by decide

#print axioms C16_resolve_label
#print axioms C16_resolve_some
#print axioms C16_export_total
#print axioms C16_export_explicit
#print axioms C16_import_export
#print axioms C16_import_succeeds
#print axioms C16_import_export_ranges
#print axioms C16_reexport
#print axioms C16_export_import_export
#print axioms C16_refs_resolve
#print axioms C16_loadable_iff
#print axioms C16_resimulate
#print axioms C16_unique_needed
#print axioms C16_unique_needed_neg

end PDesy
