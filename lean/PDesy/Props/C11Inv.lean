/-
  PDesy.Props.C11Inv — property C11 (second half):
  "Allocation never inverts the priority order."

  During one allocation pass (`allocate`, i.e. `BaseProject.__allocate`) a free worker who is
  eligible for a higher-priority waiting task that can still accept a worker is never given to a
  lower-priority task.

  * "higher priority" = earlier in the sorted candidate list
    `sortTasks m l lg rule (NoWait.cands m l)` — the READY/WORKING tasks below `nT`, stably sorted
    by the key of the task rule (`C11_before_priority`, `C11_before_key`; the full description of
    the order is `C11_tasks` in `Props/C11Sort`);
  * "`t1` before `t2`" is stated as `List.Sublist [t1, t2] sorted` (the list has no duplicates,
    `C11_sorted_nodup`, so this means: `t1` occurs at a strictly smaller position than `t2`);
  * "eligible" = positive skill for the task and the worker's team is assigned to the task;
  * "can still accept" = `can_add_resources(worker=w)` = `canAdd m l' t1 (some w) none`, read in
    the state `l'` after the pass (refusals are stable during the pass, so this is also the answer
    the task gave at its own turn);
  * the higher-priority task `t1` is not automatic and needs no facility (the clause is claimed
    for such tasks); the lower-priority task `t2` is arbitrary.
-/
import PDesy.Lemmas.NoWait
import PDesy.Props.C11Sort

namespace PDesy

/-- The candidate list of the allocation pass has no duplicates, so "before" is unambiguous. -/
theorem C11_sorted_nodup (m : Model) (l : Live) (lg : Logs) (rule : TaskRule) :
    (sortTasks m l lg rule (NoWait.cands m l)).Nodup :=
  NoWait.sorted_nodup m l lg rule

/-- `allocate` walks exactly this list: it is the fold of `allocTask` over the sorted candidates,
starting from the FREE workers below `nW`. -/
theorem C11_allocate_order (m : Model) (lg : Logs) (rule : TaskRule) (l : Live) :
    allocate m lg rule l =
      ((sortTasks m l lg rule (NoWait.cands m l)).foldl (allocTask m)
        { l := l, free := Elig.freeOf m l }).l :=
  NoWait.allocate_eq m lg rule l

/-- "Before in the list" means "priority at least as high": if `t1` precedes `t2` in the sorted
list then `t1` is `≤ t2` under the comparator of the rule. -/
theorem C11_before_priority (m : Model) (l : Live) (lg : Logs) (rule : TaskRule) (ts : List Nat)
    (t1 t2 : Nat) (h : List.Sublist [t1, t2] (sortTasks m l lg rule ts)) :
    taskLe m l lg rule t1 t2 = true :=
  NoWait.sorted_before_le m l lg rule ts h

/-- … i.e., in terms of the documented key `taskKey` of the rule (slack, EST, work amount, number
of READY log entries, remaining work, critical-path length): the earlier task's key is `≤` the
later one's for the ascending rules (TSLACK, EST, SPT, SRPT, SWRPT) and `≥` for the descending
ones (LPT, FIFO, LRPT, LWRPT). -/
theorem C11_before_key (m : Model) (l : Live) (lg : Logs) (rule : TaskRule) (ts : List Nat)
    (t1 t2 : Nat) (h : List.Sublist [t1, t2] (sortTasks m l lg rule ts)) :
    if taskRuleDesc rule then taskKey m l lg rule t2 ≤ taskKey m l lg rule t1
    else taskKey m l lg rule t1 ≤ taskKey m l lg rule t2 :=
  (Sort.taskLe_iff m l lg rule t1 t2).mp (C11_before_priority m l lg rule ts t1 t2 h)

/-- **C11, no inversion.**  Let `l' = allocate m lg rule l`.  If `t1` comes before `t2` in the
sorted candidate list, `t1` is not automatic and needs no facility, a worker `w` is newly given
to `t2` by this pass (`w ∈ l'.allocW t2`, `w ∉ l.allocW t2`) and `w` is eligible for `t1`
(positive skill, team assigned), then `t1` cannot accept `w`: `canAdd m l' t1 (some w) none =
false`.  (At `t1`'s turn `w` was still in the free list — it is handed out later — so `t1` asked
for it and was refused; the reasons for a refusal — task state, a solo worker on or for the task,
the fixed worker list — cannot go away during the pass.)

No invariant of the incoming state is needed. -/
theorem C11_no_inversion (m : Model) (lg : Logs) (rule : TaskRule) (l : Live) (t1 t2 w : Nat)
    (hord : List.Sublist [t1, t2] (sortTasks m l lg rule (NoWait.cands m l)))
    (hna : (m.task t1).isAuto = false) (hnf : (m.task t1).needFac = false)
    (hnew : w ∈ (allocate m lg rule l).allocW t2) (hold : w ∉ l.allocW t2)
    (hskill : hasSkill (m.worker w).skills (m.task t1).name = true)
    (hteam : teamTargets m w t1 = true) :
    canAdd m (allocate m lg rule l) t1 (some w) Option.none = false :=
  NoWait.allocate_no_inversion m lg rule l t1 t2 w hord hna hnf hnew hold hskill hteam

/-- **C11, no inversion**, contrapositive reading: a worker who is eligible for `t1` and whom
`t1` could still accept after the pass has not been newly given to any later task `t2`. -/
theorem C11_no_inversion' (m : Model) (lg : Logs) (rule : TaskRule) (l : Live) (t1 t2 w : Nat)
    (hord : List.Sublist [t1, t2] (sortTasks m l lg rule (NoWait.cands m l)))
    (hna : (m.task t1).isAuto = false) (hnf : (m.task t1).needFac = false)
    (hskill : hasSkill (m.worker w).skills (m.task t1).name = true)
    (hteam : teamTargets m w t1 = true)
    (hcan : canAdd m (allocate m lg rule l) t1 (some w) Option.none = true) :
    w ∈ (allocate m lg rule l).allocW t2 → w ∈ l.allocW t2 := by
  intro hnew
  apply Classical.byContradiction
  intro hold
  rw [C11_no_inversion m lg rule l t1 t2 w hord hna hnf hnew hold hskill hteam] at hcan
  cases hcan

/-- The same in positional form: the sorted list is `pre ++ t1 :: post` and `t2` lies in `post`. -/
theorem C11_no_inversion_pos (m : Model) (lg : Logs) (rule : TaskRule) (l : Live)
    (pre post : List Nat) (t1 t2 w : Nat)
    (hsorted : sortTasks m l lg rule (NoWait.cands m l) = pre ++ t1 :: post) (h2 : t2 ∈ post)
    (hna : (m.task t1).isAuto = false) (hnf : (m.task t1).needFac = false)
    (hnew : w ∈ (allocate m lg rule l).allocW t2) (hold : w ∉ l.allocW t2)
    (hskill : hasSkill (m.worker w).skills (m.task t1).name = true)
    (hteam : teamTargets m w t1 = true) :
    canAdd m (allocate m lg rule l) t1 (some w) Option.none = false := by
  apply C11_no_inversion m lg rule l t1 t2 w ?_ hna hnf hnew hold hskill hteam
  rw [hsorted]
  exact (List.Sublist.cons_cons t1 (List.singleton_sublist.mpr h2)).trans
    (List.sublist_append_right pre _)

/-- **C11, no inversion, in one loop step.**  On a working step (`s.time` is not a project absence
time) the allocation pass runs on the state after the absence update, whose candidate order is
that of `s.live` with the logs `s.logs`.  If `t1` comes before `t2` in that order, `t1` is not
automatic and needs no facility, `w` is held by `t2` at the end of the step but was not before,
and `w` is eligible for `t1`, then at the end of the step `t1` cannot accept `w`. -/
theorem C11_no_inversion_step (m : Model) (p : Params) (s : St)
    (hwork : p.absence.contains s.time = false) (t1 t2 w : Nat)
    (hord : List.Sublist [t1, t2] (sortTasks m s.live s.logs p.rule (NoWait.cands m s.live)))
    (hna : (m.task t1).isAuto = false) (hnf : (m.task t1).needFac = false)
    (hnew : w ∈ (stepBody m p s).live.allocW t2) (hold : w ∉ s.live.allocW t2)
    (hskill : hasSkill (m.worker w).skills (m.task t1).name = true)
    (hteam : teamTargets m w t1 = true) :
    canAdd m (stepBody m p s).live t1 (some w) Option.none = false :=
  NoWait.stepBody_no_inversion m p s hwork t1 t2 w hord hna hnf hnew hold hskill hteam

namespace C11InvEx

/-- two READY tasks (task 0 first under every rule's stable order), two workers of the tasks'
team: worker 0 works alone and can only do task 0, worker 1 can do both -/
def m : Model where
  nT := 2
  nW := 2
  nF := 0
  nTeam := 1
  nWp := 0
  nC := 0
  task := fun t => if t = 0 then { name := 0, work := 3 } else { name := 1, work := 2 }
  worker := fun w =>
    if w = 0 then { team := 0, skills := [(0, 1)], solo := true }
    else { team := 0, skills := [(0, 1), (1, 1)] }
  fac := fun _ => {}
  team := fun _ => { workers := [0, 1], targets := [0, 1] }
  wp := fun _ => {}
  comp := fun _ => {}

def l : Live := { Live.empty with tstate := fun t => if t < 2 then .ready else .none }

end C11InvEx

/-- the hypotheses of `C11_no_inversion` hold non-trivially: task 0 precedes task 1; the pass
gives the solo worker 0 to task 0 and then worker 1 — who is eligible for task 0 as well — to
task 1; task 0 could not take worker 1 (a solo worker is on it) -/
example :
    sortTasks C11InvEx.m C11InvEx.l Logs.empty .tslack (NoWait.cands C11InvEx.m C11InvEx.l) = [0, 1] ∧
    (C11InvEx.m.task 0).isAuto = false ∧ (C11InvEx.m.task 0).needFac = false ∧
    (allocate C11InvEx.m Logs.empty .tslack C11InvEx.l).allocW 0 = [0] ∧
    (allocate C11InvEx.m Logs.empty .tslack C11InvEx.l).allocW 1 = [1] ∧
    C11InvEx.l.allocW 1 = [] ∧
    hasSkill (C11InvEx.m.worker 1).skills (C11InvEx.m.task 0).name = true ∧
    teamTargets C11InvEx.m 1 0 = true ∧
    canAdd C11InvEx.m (allocate C11InvEx.m Logs.empty .tslack C11InvEx.l) 0 (some 1) Option.none
      = false := by
  decide +kernel

example : List.Sublist [0, 1]
    (sortTasks C11InvEx.m C11InvEx.l Logs.empty .tslack (NoWait.cands C11InvEx.m C11InvEx.l)) := by
  decide +kernel

/-- … and the same picture at the end of the whole step (`C11_no_inversion_step`) -/
example :
    ({} : Params).absence.contains ({ St.fresh with live := C11InvEx.l } : St).time = false ∧
    (stepBody C11InvEx.m {} { St.fresh with live := C11InvEx.l }).live.allocW 1 = [1] ∧
    canAdd C11InvEx.m (stepBody C11InvEx.m {} { St.fresh with live := C11InvEx.l }).live 0 (some 1)
      Option.none = false := by
  decide +kernel

#print axioms C11_sorted_nodup
#print axioms C11_allocate_order
#print axioms C11_before_priority
#print axioms C11_before_key
#print axioms C11_no_inversion
#print axioms C11_no_inversion'
#print axioms C11_no_inversion_pos
#print axioms C11_no_inversion_step

end PDesy
