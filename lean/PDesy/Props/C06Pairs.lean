/-
  PDesy.Props.C06Pairs — property C06 ("no avoidable waiting"), clause (c), in its
  worker–facility-PAIR form, for tasks that need a facility.

  `Props/C06.lean` proves clause (c) — "no worker stays FREE while a READY or WORKING task exists
  that the worker is eligible for and that can still accept the worker" — for tasks without
  facility.  A task that needs a facility takes its resources in pairs (`allocPairs`): for the
  workplace `p` where its component is placed, each FREE facility of `p` that has the skill and
  whose workplace is assigned to the task is offered, in order, the first eligible free worker the
  task can accept together with it.  The pair form says:

    at the end of the allocation pass (of a working step) there is no FREE, unassigned worker `w`
    and FREE facility `f` of the workplace where the component of a READY/WORKING facility-needing
    task `t` sits, such that both are eligible for `t` and `t` can still accept the pair
    (`can_add_resources(worker=w, facility=f)`, `canAdd m l' t (some w) (some f)`).

  It is claimed, and proved, for components that carry a single task (`(m.comp c).tasks = [t]`,
  with consistent task → component links): such a component is moved only at `t`'s own turn, so
  `allocPairs` ran at the workplace where the component is found after the pass.  For a component
  with several tasks the statement is false (`C06PairsEx.mM` below: a later task of the component
  moves it after the turn of the first).

  "Eligible": the worker has a positive skill for the task and its team is assigned to the task
  (`teamTargets`); the facility has a positive skill for the task and its workplace is assigned to
  the task (`wpTargets`).
-/
import PDesy.Lemmas.Pairs
import PDesy.Props.C03

namespace PDesy

/-- **C06 (c), pair form**, for one allocation pass.  Let `l' = allocate m lg rule l`.
A READY or WORKING task `t < nT` that is not automatic, needs a facility and is the single task of
its component `c` (`hlink`: every task below `nT` that names `c` as its component is listed by
`c`; `hsingle`: `c` lists `t` only), `c` placed at workplace `p` in `l'`.  A worker `w < nW` that
is FREE and holds nothing in `l'`, a facility `f` of `p` that is FREE in `l'`.  Then it is NOT the
case that `f` and `w` are eligible for `t` (skills, workplace / team assigned to the task) and `t`
can still accept the pair.

No invariant of the incoming state is needed.  Neither `f < nF` nor `l'.fasg f = []` is needed: a
facility listed by `p` is offered whatever its index, and an assigned facility is refused by
`canAdd` anyway.

Why: the component of `t` is moved only at `t`'s own turn (`hlink`, `hsingle`), so at that turn
`allocPairs` ran at `p`; `f` was FREE then (facility states do not change during the pass), so the
loop over the candidate facilities reached `f`, with `w` in the free list (it is still free and
idle at the end); either no eligible free worker could be added together with `f`, or `f` was
given away; every reason for such a refusal persists to the end of the pass (task states fixed,
allocation lists only grow, a facility's assignment list never becomes empty again). -/
theorem C06_idle_pair (m : Model) (lg : Logs) (rule : TaskRule) (l : Live) (w t c p f : Nat)
    (hw : w < m.nW) (hfree : (allocate m lg rule l).wstate w = .free)
    (hidle : (allocate m lg rule l).wasg w = [])
    (hff : (allocate m lg rule l).fstate f = .free)
    (ht : t < m.nT) (hs : l.tstate t = .ready ∨ l.tstate t = .working)
    (hna : (m.task t).isAuto = false) (hnf : (m.task t).needFac = true)
    (hc : (m.task t).comp = some c)
    (hlink : ∀ t', t' < m.nT → (m.task t').comp = some c → t' ∈ (m.comp c).tasks)
    (hsingle : (m.comp c).tasks = [t])
    (hp : (allocate m lg rule l).placed c = some p) (hf : f ∈ (m.wp p).facs) :
    ¬ (hasSkill (m.fac f).skills (m.task t).name = true ∧ wpTargets m f t = true ∧
       hasSkill (m.worker w).skills (m.task t).name = true ∧ teamTargets m w t = true ∧
       canAdd m (allocate m lg rule l) t (some w) (some f) = true) := by
  rintro ⟨h1, h2, h3, h4, h5⟩
  rw [(NoWait.allocate_grow m lg rule l).ws] at hfree
  rw [(Pairs.allocate_growF m lg rule l).fs] at hff
  rw [Pairs.allocate_idle_pair m lg rule l w t c p f hw hfree hidle ht hs hna hnf hc
    (Pairs.OnlyTask.of_tasks hlink hsingle) hp hf hff h1 h2 h3 h4] at h5
  cases h5

/-- `C06_idle_pair` for a model that satisfies the placement well-formedness predicate `PlaceWF`
(flat product, consistent task → component links, …). -/
theorem C06_idle_pair_wf (m : Model) (wf : Place.PlaceWF m) (lg : Logs) (rule : TaskRule) (l : Live)
    (w t c p f : Nat)
    (hw : w < m.nW) (hfree : (allocate m lg rule l).wstate w = .free)
    (hidle : (allocate m lg rule l).wasg w = [])
    (hff : (allocate m lg rule l).fstate f = .free)
    (ht : t < m.nT) (hs : l.tstate t = .ready ∨ l.tstate t = .working)
    (hna : (m.task t).isAuto = false) (hnf : (m.task t).needFac = true)
    (hc : (m.task t).comp = some c) (hsingle : (m.comp c).tasks = [t])
    (hp : (allocate m lg rule l).placed c = some p) (hf : f ∈ (m.wp p).facs) :
    ¬ (hasSkill (m.fac f).skills (m.task t).name = true ∧ wpTargets m f t = true ∧
       hasSkill (m.worker w).skills (m.task t).name = true ∧ teamTargets m w t = true ∧
       canAdd m (allocate m lg rule l) t (some w) (some f) = true) :=
  C06_idle_pair m lg rule l w t c p f hw hfree hidle hff ht hs hna hnf hc
    (fun t' ht' hc' => wf.comp_tasks t' ht' c hc') hsingle hp hf

/-- **C06 (c), pair form**, at the end of a working step.  Starting the step from a state that
satisfies the allocation invariant (with every holder WORKING): a worker `w < nW` and a facility
`f < nF` that are FREE at the end of the step, a task `t < nT` that is READY or WORKING at the end
of the step, not automatic, needing a facility, the single task of its component `c`, which is
placed at `p` at the end of the step, `f` a facility of `p`: NOT (`f` and `w` eligible for `t`
and `t` can still accept the pair).  (A FREE worker / facility holds nothing at the end of a
working step, by C03.) -/
theorem C06_idle_pair_step (m : Model) (p : Params) (s : St)
    (hwork : p.absence.contains s.time = false)
    (hinv : AllocInv m s.live) (hhw : HoldWorking s.live) (w t c q f : Nat)
    (hw : w < m.nW) (hfree : (stepBody m p s).live.wstate w = .free)
    (hfl : f < m.nF) (hff : (stepBody m p s).live.fstate f = .free)
    (ht : t < m.nT)
    (hs : (stepBody m p s).live.tstate t = .ready ∨ (stepBody m p s).live.tstate t = .working)
    (hna : (m.task t).isAuto = false) (hnf : (m.task t).needFac = true)
    (hc : (m.task t).comp = some c)
    (hlink : ∀ t', t' < m.nT → (m.task t').comp = some c → t' ∈ (m.comp c).tasks)
    (hsingle : (m.comp c).tasks = [t])
    (hp : (stepBody m p s).live.placed c = some q) (hf : f ∈ (m.wp q).facs) :
    ¬ (hasSkill (m.fac f).skills (m.task t).name = true ∧ wpTargets m f t = true ∧
       hasSkill (m.worker w).skills (m.task t).name = true ∧ teamTargets m w t = true ∧
       canAdd m (stepBody m p s).live t (some w) (some f) = true) := by
  rintro ⟨h1, h2, h3, h4, h5⟩
  rw [Pairs.stepBody_idle_pair m p s hwork hinv hhw w t c q f hw hfree hfl hff ht hs hna hnf hc
    (Pairs.OnlyTask.of_tasks hlink hsingle) hp hf h1 h2 h3 h4] at h5
  cases h5

/-- **C06 (c), pair form**, at every `ticked` state of the loop that was produced by a working
step, starting from a state that satisfies the allocation invariant. -/
theorem C06_idle_pair_trace (m : Model) (p : Params) (fuel : Nat) (s : St)
    (h : AllocInv m s.live ∧ HoldWorking s.live) :
    ∀ s' ∈ trace m p fuel s, workingAt p (s'.time - 1) = true →
      ∀ w t c q f, w < m.nW → s'.live.wstate w = .free → f < m.nF → s'.live.fstate f = .free →
        t < m.nT → (s'.live.tstate t = .ready ∨ s'.live.tstate t = .working) →
        (m.task t).isAuto = false → (m.task t).needFac = true → (m.task t).comp = some c →
        (∀ t', t' < m.nT → (m.task t').comp = some c → t' ∈ (m.comp c).tasks) →
        (m.comp c).tasks = [t] → s'.live.placed c = some q → f ∈ (m.wp q).facs →
        ¬ (hasSkill (m.fac f).skills (m.task t).name = true ∧ wpTargets m f t = true ∧
           hasSkill (m.worker w).skills (m.task t).name = true ∧ teamTargets m w t = true ∧
           canAdd m s'.live t (some w) (some f) = true) := by
  intro s' hs' hwk w t c q f hw hfree hfl hff ht hst hna hnf hc hlink hsingle hp hf
  obtain ⟨s0, hinv, _, rfl⟩ := NoWait.trace_mem_stepBody_inv m p
    (fun s => AllocInv m s.live ∧ HoldWorking s.live)
    (fun s hs => update_C03 s.time hs.1 hs.2)
    (fun _ hs _ => ⟨(stepBody_C03 p hs.1 hs.2).1, (stepBody_C03 p hs.1 hs.2).2.1⟩) fuel s h s' hs'
  have htime : (stepBody m p (updated m s0)).time - 1 = (updated m s0).time := by
    rw [Alloc.stepBody_time]; omega
  rw [htime] at hwk
  have hwork : p.absence.contains (updated m s0).time = false := by
    simpa [workingAt] using hwk
  exact C06_idle_pair_step m p (updated m s0) hwork hinv.1 hinv.2 w t c q f hw hfree hfl hff ht hst
    hna hnf hc hlink hsingle hp hf

/-- **C06 (c), pair form**, at every `ticked` state of `simulate m p s` produced by a working
step, for a run with `init_state=True` from ANY state `s`: after a working step there is no FREE
worker and FREE facility of the workplace holding the component of a READY/WORKING facility-needing
task (the single task of that component) that are both eligible for the task and that the task
could still accept as a pair. -/
theorem C06_idle_pair_run (m : Model) (p : Params) (s : St) (hp : p.initState = true) :
    ∀ s' ∈ runTrace m p s, workingAt p (s'.time - 1) = true →
      ∀ w t c q f, w < m.nW → s'.live.wstate w = .free → f < m.nF → s'.live.fstate f = .free →
        t < m.nT → (s'.live.tstate t = .ready ∨ s'.live.tstate t = .working) →
        (m.task t).isAuto = false → (m.task t).needFac = true → (m.task t).comp = some c →
        (∀ t', t' < m.nT → (m.task t').comp = some c → t' ∈ (m.comp c).tasks) →
        (m.comp c).tasks = [t] → s'.live.placed c = some q → f ∈ (m.wp q).facs →
        ¬ (hasSkill (m.fac f).skills (m.task t).name = true ∧ wpTargets m f t = true ∧
           hasSkill (m.worker w).skills (m.task t).name = true ∧ teamTargets m w t = true ∧
           canAdd m s'.live t (some w) (some f) = true) :=
  C06_idle_pair_trace m p _ _ (C03_init hp)

namespace C06PairsEx

/-- one READY facility-needing task (task 0), the single task of component 0, which can be placed
at workplace 0 with the facilities 0 and 1 (both with the skill); two workers with the skill in the
task's team; worker 1 cannot operate facility 1 -/
def mP : Model where
  nT := 1
  nW := 2
  nF := 2
  nTeam := 1
  nWp := 1
  nC := 1
  task := fun _ => { name := 0, work := 3, needFac := true, wps := [0], comp := some 0 }
  worker := fun w =>
    if w = 0 then { team := 0, skills := [(0, 1)], facSkills := [(0, 1), (1, 1)] }
    else { team := 0, skills := [(0, 1)], facSkills := [(0, 1)] }
  fac := fun f => { wp := 0, name := f, skills := [(0, 1)] }
  team := fun _ => { workers := [0, 1], targets := [0] }
  wp := fun _ => { facs := [0, 1], targets := [0], cap := 1 }
  comp := fun _ => { tasks := [0] }

def lP : Live := { Live.empty with tstate := fun t => if t = 0 then .ready else .none, rem := fun _ => 3 }

def sP : St := { St.fresh with live := lP }

theorem sP_inv : AllocInv mP sP.live ∧ HoldWorking sP.live :=
  AllocInv_of_empty (fun _ => rfl) (fun _ => rfl) (fun _ => rfl) (fun _ => rfl)

theorem mP_wf : Place.PlaceWF mP := Place.placeWF_of_b (by decide +kernel)

theorem mP_link : ∀ t', t' < mP.nT → (mP.task t').comp = some 0 → t' ∈ (mP.comp 0).tasks := by
  intro t' ht' _
  have : t' = 0 := by have : mP.nT = 1 := rfl; omega
  subst this; decide

/-- two READY facility-needing tasks of the SAME component 0 (not yet placed); task 0 has no
workplace of its own, task 1 can be done at workplace 0; the workers work alone -/
def mM : Model where
  nT := 2
  nW := 2
  nF := 2
  nTeam := 1
  nWp := 1
  nC := 1
  task := fun t =>
    if t = 0 then { name := 0, work := 3, needFac := true, wps := [], comp := some 0 }
    else { name := 0, work := 3, needFac := true, wps := [0], comp := some 0 }
  worker := fun _ => { team := 0, skills := [(0, 1)], facSkills := [(0, 1), (1, 1)], solo := true }
  fac := fun f => { wp := 0, name := f, skills := [(0, 1)] }
  team := fun _ => { workers := [0, 1], targets := [0, 1] }
  wp := fun _ => { facs := [0, 1], targets := [0, 1], cap := 1 }
  comp := fun _ => { tasks := [0, 1] }

def lM : Live := { Live.empty with tstate := fun t => if t < 2 then .ready else .none, rem := fun _ => 3 }

end C06PairsEx

/-- the hypotheses of `C06_idle_pair` hold non-trivially: the pass places component 0 at workplace
0 and gives the pair (worker 0, facility 0) to task 0; worker 1 stays FREE and idle, facility 1
stays FREE and unassigned, both have the skill and are assigned to the task — but the task cannot
accept the pair: worker 1 cannot operate facility 1 -/
example :
    (1 < C06PairsEx.mP.nW ∧ (allocate C06PairsEx.mP Logs.empty .tslack C06PairsEx.lP).wstate 1 = .free ∧
     (allocate C06PairsEx.mP Logs.empty .tslack C06PairsEx.lP).wasg 1 = [] ∧
     (allocate C06PairsEx.mP Logs.empty .tslack C06PairsEx.lP).fstate 1 = .free ∧
     (allocate C06PairsEx.mP Logs.empty .tslack C06PairsEx.lP).fasg 1 = [] ∧
     0 < C06PairsEx.mP.nT ∧ C06PairsEx.lP.tstate 0 = .ready ∧
     (C06PairsEx.mP.task 0).isAuto = false ∧ (C06PairsEx.mP.task 0).needFac = true ∧
     (C06PairsEx.mP.task 0).comp = some 0 ∧ (C06PairsEx.mP.comp 0).tasks = [0] ∧
     (allocate C06PairsEx.mP Logs.empty .tslack C06PairsEx.lP).placed 0 = some 0 ∧
     1 ∈ (C06PairsEx.mP.wp 0).facs) ∧
    hasSkill (C06PairsEx.mP.fac 1).skills (C06PairsEx.mP.task 0).name = true ∧
    wpTargets C06PairsEx.mP 1 0 = true ∧
    hasSkill (C06PairsEx.mP.worker 1).skills (C06PairsEx.mP.task 0).name = true ∧
    teamTargets C06PairsEx.mP 1 0 = true ∧
    (allocate C06PairsEx.mP Logs.empty .tslack C06PairsEx.lP).allocW 0 = [0] ∧
    (allocate C06PairsEx.mP Logs.empty .tslack C06PairsEx.lP).allocF 0 = [0] ∧
    canAdd C06PairsEx.mP (allocate C06PairsEx.mP Logs.empty .tslack C06PairsEx.lP) 0 (some 1) (some 1)
      = false := by
  decide +kernel

/-- … the link hypothesis and `PlaceWF` hold for this model … -/
example : (∀ t', t' < C06PairsEx.mP.nT → (C06PairsEx.mP.task t').comp = some 0 →
      t' ∈ (C06PairsEx.mP.comp 0).tasks) ∧ Place.PlaceWF C06PairsEx.mP :=
  ⟨C06PairsEx.mP_link, C06PairsEx.mP_wf⟩

/-- … and so do the hypotheses of `C06_idle_pair_step`: after the whole step worker 0 and facility
0 are WORKING on task 0, worker 1 and facility 1 are FREE, task 0 is WORKING, component 0 sits at
workplace 0 -/
example :
    ({} : Params).absence.contains C06PairsEx.sP.time = false ∧
    (AllocInv C06PairsEx.mP C06PairsEx.sP.live ∧ HoldWorking C06PairsEx.sP.live) ∧
    ((stepBody C06PairsEx.mP {} C06PairsEx.sP).live.wstate 0 = .working ∧
     (stepBody C06PairsEx.mP {} C06PairsEx.sP).live.fstate 0 = .working ∧
     (stepBody C06PairsEx.mP {} C06PairsEx.sP).live.wstate 1 = .free ∧
     (stepBody C06PairsEx.mP {} C06PairsEx.sP).live.fstate 1 = .free ∧
     (stepBody C06PairsEx.mP {} C06PairsEx.sP).live.tstate 0 = .working ∧
     (stepBody C06PairsEx.mP {} C06PairsEx.sP).live.placed 0 = some 0 ∧
     canAdd C06PairsEx.mP (stepBody C06PairsEx.mP {} C06PairsEx.sP).live 0 (some 1) (some 1) = false) :=
  ⟨by decide, C06PairsEx.sP_inv, by decide +kernel⟩

/-- the single-task hypothesis cannot be dropped.  In `C06PairsEx.mM` component 0 carries the
tasks 0 and 1.  At task 0's turn the component is not placed and task 0 has no workplace to move
it to, so task 0 gets nothing; at task 1's turn the component is moved to workplace 0 and task 1
takes (worker 0, facility 0) — and nothing more, the workers work alone.  After the pass component 0 sits at workplace 0, worker 1 and
facility 1 are FREE, unassigned and eligible for task 0, and task 0 could accept the pair: every
other hypothesis of `C06_idle_pair` holds (with the consistent link `hlink`) and its conclusion
fails. -/
example :
    (1 < C06PairsEx.mM.nW ∧ (allocate C06PairsEx.mM Logs.empty .tslack C06PairsEx.lM).wstate 1 = .free ∧
     (allocate C06PairsEx.mM Logs.empty .tslack C06PairsEx.lM).wasg 1 = [] ∧
     (allocate C06PairsEx.mM Logs.empty .tslack C06PairsEx.lM).fstate 1 = .free ∧
     0 < C06PairsEx.mM.nT ∧ C06PairsEx.lM.tstate 0 = .ready ∧
     (C06PairsEx.mM.task 0).isAuto = false ∧ (C06PairsEx.mM.task 0).needFac = true ∧
     (C06PairsEx.mM.task 0).comp = some 0 ∧ (C06PairsEx.mM.comp 0).tasks = [0, 1] ∧
     (allocate C06PairsEx.mM Logs.empty .tslack C06PairsEx.lM).placed 0 = some 0 ∧
     1 ∈ (C06PairsEx.mM.wp 0).facs) ∧
    (allocate C06PairsEx.mM Logs.empty .tslack C06PairsEx.lM).allocW 1 = [0] ∧
    (allocate C06PairsEx.mM Logs.empty .tslack C06PairsEx.lM).allocF 1 = [0] ∧
    (hasSkill (C06PairsEx.mM.fac 1).skills (C06PairsEx.mM.task 0).name = true ∧
     wpTargets C06PairsEx.mM 1 0 = true ∧
     hasSkill (C06PairsEx.mM.worker 1).skills (C06PairsEx.mM.task 0).name = true ∧
     teamTargets C06PairsEx.mM 1 0 = true ∧
     canAdd C06PairsEx.mM (allocate C06PairsEx.mM Logs.empty .tslack C06PairsEx.lM) 0 (some 1) (some 1)
       = true) := by
  decide +kernel

#print axioms C06_idle_pair
#print axioms C06_idle_pair_wf
#print axioms C06_idle_pair_step
#print axioms C06_idle_pair_trace
#print axioms C06_idle_pair_run

end PDesy
