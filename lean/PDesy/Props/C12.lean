/-
  PDesy.Props.C12 — PERT/CPM values equal an independent critical-path computation at every
  update (`BaseWorkflow.update_PERT_data`, model: `pert`).

  The independent computation is given by its defining equations `PertSpec.PertEqs`
  (Lemmas/Pert.lean).  On an acyclic network they have exactly one solution (`C12_unique`), so
  "the output satisfies the equations" is "the output equals the critical-path computation".
-/
import PDesy.Model.Sim
import PDesy.Lemmas.Pert

namespace PDesy
open PDesy.PertSpec

/-- **C12.**  For every finish-to-start network (`FSOnly`) whose input/output lists are
consistent (`GraphOK`) and acyclic (`Acyclic`), with at least one task and non-negative remaining
work, and for ANY live state `l` (arbitrary stale `est/eft/lst/lft/cpl`), the values stored by
the PERT update at time `time` satisfy the PERT/CPM equations: `est` = max of `time` and the
predecessors' `est + rem`; `eft = est + rem`; `cpl` = largest `eft` among the tasks without
successors; `lft` = smallest `lst` among the successors (`cpl` if none); `lst = lft − rem`. -/
theorem C12 (m : Model) (time : Nat) (l : Live) (hfs : FSOnly m) (hok : GraphOK m)
    (hac : Acyclic m) (hn : 0 < m.nT) (hrem : ∀ t, t < m.nT → 0 ≤ l.rem t) :
    let r := pert m time l
    PertEqs m (time : Rat) l r.est r.eft r.lst r.lft r.cpl :=
  pertEqs_iff.2 (pert_AEqs time l hfs hok hac hn hrem)

/-- **Uniqueness of the specification.**  On a consistent acyclic network two solutions of the
PERT/CPM equations (same time, same remaining work) agree on `cpl` and on every task. -/
theorem C12_unique (m : Model) (time : Rat) (l : Live) (hok : GraphOK m) (hac : Acyclic m)
    {est eft lst lft est' eft' lst' lft' : Nat → Rat} {cpl cpl' : Rat}
    (h : PertEqs m time l est eft lst lft cpl) (h' : PertEqs m time l est' eft' lst' lft' cpl') :
    cpl = cpl' ∧ ∀ t, t < m.nT →
      est t = est' t ∧ eft t = eft' t ∧ lst t = lst' t ∧ lft t = lft' t :=
  (pertEqs_iff.1 h).unique (dag_of hok hac) (pertEqs_iff.1 h')

/-- C12 as an equality: whatever solves the PERT/CPM equations (i.e. any independent
critical-path computation) coincides with what the update stores. -/
theorem C12_eq_spec (m : Model) (time : Nat) (l : Live) (hfs : FSOnly m) (hok : GraphOK m)
    (hac : Acyclic m) (hn : 0 < m.nT) (hrem : ∀ t, t < m.nT → 0 ≤ l.rem t)
    {est eft lst lft : Nat → Rat} {cpl : Rat}
    (hs : PertEqs m (time : Rat) l est eft lst lft cpl) :
    let r := pert m time l
    r.cpl = cpl ∧ ∀ t, t < m.nT →
      r.est t = est t ∧ r.eft t = eft t ∧ r.lst t = lst t ∧ r.lft t = lft t :=
  C12_unique m time l hok hac (C12 m time l hfs hok hac hn hrem) hs

/-- The same at every `__update` of a simulation: the state after the update satisfies the
equations for its own remaining work (the phases before the PERT update may have changed
`rem`; the PERT update itself does not). -/
theorem C12_update (m : Model) (time : Nat) (l : Live) (hfs : FSOnly m) (hok : GraphOK m)
    (hac : Acyclic m) (hn : 0 < m.nT) (hrem : ∀ t, t < m.nT → 0 ≤ (update m time l).rem t) :
    let r := update m time l
    PertEqs m (time : Rat) r r.est r.eft r.lst r.lft r.cpl := by
  intro r
  have h := C12 m time (compCheck m (chkReady m (chkRemove m (compCheck m (chkFinished m l)))))
    hfs hok hac hn hrem
  refine PertEqs.of_rem_eq ?_ h
  rfl

/-- In the specification the critical path length is also the largest earliest finish over
*all* tasks (remaining work is non-negative). -/
theorem C12_cpl_all (m : Model) (time : Rat) (l : Live) (hok : GraphOK m) (hac : Acyclic m)
    (hrem : ∀ t, t < m.nT → 0 ≤ l.rem t) {est eft lst lft : Nat → Rat} {cpl : Rat}
    (h : PertEqs m time l est eft lst lft cpl) :
    (∀ t, t < m.nT → eft t ≤ cpl) ∧ ∃ t, t < m.nT ∧ eft t = cpl :=
  (pertEqs_iff.1 h).cpl_all (dag_of hok hac) hrem

/-- Slack is never negative, for every solution of the equations. -/
theorem C12_spec_slack_nonneg (m : Model) (time : Rat) (l : Live) (hok : GraphOK m)
    (hac : Acyclic m) {est eft lst lft : Nat → Rat} {cpl : Rat}
    (h : PertEqs m time l est eft lst lft cpl) : ∀ t, t < m.nT → est t ≤ lst t :=
  (pertEqs_iff.1 h).est_le_lst (dag_of hok hac)

/-- **Slack is never negative** after a PERT update: `est ≤ lst` (and `time ≤ est`). -/
theorem C12_slack_nonneg (m : Model) (time : Nat) (l : Live) (hfs : FSOnly m) (hok : GraphOK m)
    (hac : Acyclic m) (hn : 0 < m.nT) (hrem : ∀ t, t < m.nT → 0 ≤ l.rem t) :
    let r := pert m time l
    ∀ t, t < m.nT → (time : Rat) ≤ r.est t ∧ r.est t ≤ r.lst t := by
  intro r t ht
  have h := pertEqs_iff.1 (C12 m time l hfs hok hac hn hrem)
  exact ⟨h.time_le_est ht, h.est_le_lst (dag_of hok hac) t ht⟩

/-- **Some task has zero slack** after a PERT update. -/
theorem C12_critical (m : Model) (time : Nat) (l : Live) (hfs : FSOnly m) (hok : GraphOK m)
    (hac : Acyclic m) (hn : 0 < m.nT) (hrem : ∀ t, t < m.nT → 0 ≤ l.rem t) :
    let r := pert m time l
    ∃ t, t < m.nT ∧ r.lst t = r.est t := by
  intro r
  obtain ⟨x, hx, _, _, hc⟩ := (pertEqs_iff.1 (C12 m time l hfs hok hac hn hrem)).crit_tail
  exact ⟨x, hx, hc⟩

/-- **A whole critical path**: after a PERT update there are a task `a` without predecessors
and a task `b` without successors whose earliest finish is the critical path length, joined by
a chain of dependency edges on which every task has zero slack and starts exactly when its
predecessor on the chain finishes (`CritPath`); `a` starts at `time`. -/
theorem C12_critical_path (m : Model) (time : Nat) (l : Live) (hfs : FSOnly m) (hok : GraphOK m)
    (hac : Acyclic m) (hn : 0 < m.nT) (hrem : ∀ t, t < m.nT → 0 ≤ l.rem t) :
    let r := pert m time l
    ∃ a b, a < m.nT ∧ b < m.nT ∧ (m.task a).inputs = [] ∧ (m.task b).outputs = [] ∧
      r.est a = (time : Rat) ∧ r.eft b = r.cpl ∧ CritPath m r.est r.eft r.lst a b := by
  intro r
  have h := C12 m time l hfs hok hac hn hrem
  obtain ⟨b, hb, hb0, hbe, hbc⟩ := (pertEqs_iff.1 h).crit_tail
  obtain ⟨a, ha, ha0, hch⟩ := h.crit_to hok hac hrem b hb hbc
  refine ⟨a, b, ha, hb, ha0, Hm_nil.1 hb0, ?_, hbe, hch⟩
  have := h.est_eq a ha
  rw [ha0] at this
  exact this

/-! ### non-vacuity: a 4-task diamond `0 → {1, 2} → 3` with stale PERT values -/

namespace C12Ex

def task : Nat → TaskS
  | 0 => { outputs := [(1, .fs), (2, .fs)] }
  | 1 => { inputs := [(0, .fs)], outputs := [(3, .fs)] }
  | 2 => { inputs := [(0, .fs)], outputs := [(3, .fs)] }
  | 3 => { inputs := [(1, .fs), (2, .fs)] }
  | _ => {}

def m : Model :=
  { nT := 4, nW := 0, nF := 0, nTeam := 0, nWp := 0, nC := 0, task := task,
    worker := fun _ => {}, fac := fun _ => {}, team := fun _ => {}, wp := fun _ => {},
    comp := fun _ => {} }

/-- remaining work 3, 2, 5, 0 (a zero included) and nonsense in every PERT field -/
def l : Live :=
  { Live.empty with
    rem := fun t => match t with | 0 => 3 | 1 => 2 | 2 => 5 | _ => 0
    est := fun t => 100 + t, eft := fun _ => 7, lst := fun t => 50 - t, lft := fun _ => 3,
    cpl := 999 }

/-- the hypotheses of `C12` are satisfiable -/
example : FSOnly m ∧ GraphOK m ∧ Acyclic m ∧ 0 < m.nT ∧ ∀ t, t < m.nT → 0 ≤ l.rem t :=
  ⟨by decide +kernel, by decide +kernel, ⟨id, by decide +kernel⟩, by decide, by decide +kernel⟩

/-- the values computed at time 2 from the stale state -/
example :
    let r := pert m 2 l
    (List.range 4).map r.est = [2, 5, 5, 10] ∧ (List.range 4).map r.eft = [5, 7, 10, 10] ∧
    (List.range 4).map r.lst = [2, 8, 5, 10] ∧ (List.range 4).map r.lft = [5, 10, 10, 10] ∧
    r.cpl = 10 := by
  decide +kernel

/-- … and they satisfy the equations, checked by evaluation, independently of `C12` -/
example :
    let r := pert m 2 l
    PertEqs m 2 l r.est r.eft r.lst r.lft r.cpl :=
  ⟨by decide +kernel, by decide +kernel, by decide +kernel, by decide +kernel, by decide +kernel,
   by decide +kernel⟩

end C12Ex

end PDesy

#print axioms PDesy.C12
#print axioms PDesy.C12_unique
#print axioms PDesy.C12_eq_spec
#print axioms PDesy.C12_update
#print axioms PDesy.C12_cpl_all
#print axioms PDesy.C12_spec_slack_nonneg
#print axioms PDesy.C12_slack_nonneg
#print axioms PDesy.C12_critical
#print axioms PDesy.C12_critical_path
