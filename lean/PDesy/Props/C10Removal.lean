/-
  PDesy.Props.C10Removal — C10, clause 3: "for projects without individually absent resources
  and without component-bound automatic tasks, deleting the project-wide absence steps from the
  result (`remove_absence_time_list`) gives exactly the result of simulating without absence".

  Run A = `simulate m { p with absence := L } s`, run B = `simulate m { p with absence := [] } s`.

  What is proved here (all against the model as it is now):

  * Stage 1 — shift invariance.  `C10_est_shift`: the forward PERT pass started `d` steps later on
    the same remaining work gives every `est` exactly `d` later (any link kinds, any graph with
    in-range links).  `C10_slack_shift`: on finish-to-start networks (`Removal.SlackOK`) the total
    slack `lst − est` is the same.  `C10_taskLe_shift`: hence the comparison function of
    `sort_task_list` is the same function for TSLACK (inside `SlackOK`), EST, SPT, LPT, LRPT, SRPT,
    LWRPT, SWRPT — every rule but FIFO.
  * Stage 3 — the logs.  `C10_rows_kept`, `C10_rows_dropped`: `removeLogs` of the logs with the
    row of one more step is, at a working step, `removeLogs` of the old logs with the same row
    appended, and at an absence step just `removeLogs` of the old logs.
  * Stage 2 — one step.  `C10_working_step`: a working step of both runs preserves the simulation
    relation `Removal.Rel` (task states of A *ahead* of B only on component-free automatic tasks,
    remaining work / allocations / assignments / components / placement equal, clocks `d` apart,
    B's logs = A's logs minus the `d` absence rows).  `C10_absence_step_current`: an absence step
    of run A leads to the relation with the *same* state of run B.
  * Stage 4 — the runs.  `C10_removal_of_absence_step`: the final statement from the absence-step
    lemma taken as a hypothesis (`Removal.AbsStepOK`) — nothing else in it depends on what
    `check_state(WORKING)` does at an absence step.  `C10_removal_partial`: the final statement
    for the current model.

  The statement as asked for (only FIFO and zero-work automatic tasks excluded) is FALSE in the
  current model; see `C10_removal_counterexample_ss` below.  Hypotheses of `C10_removal_partial`
  beyond the ones in the property text:
    - `NoStartLink m`: no SS / SF link leaves an automatic task (new finding, below);
    - TSLACK only inside `SlackOK m` (FS links only, consistent link lists, acyclic): outside it
      the backward pass tests `lft < 0` for "not yet set", which is not shift invariant unless
      every value it stores is ≥ 0 — not proved for mixed link kinds (no counterexample known);
    - `CompNoAuto m` (no component lists an automatic task) besides `AutoFree m` (no automatic
      task names a component): the model does not tie the two lists together;
    - `WF m`, `FacsInRange m`, `WorkOK m`: index / sign well-formedness;
    - run A ends with SUCCESS (then run B does too: proved, not assumed).

  Lemmas that depend on `check_state(WORKING)` running at project absence steps (to be redone
  after the announced repair of `stepBody`): everything in `PDesy/Lemmas/Removal.lean` from the
  heading "an absence step of run A" on and from "The absence step in the current model" on
  (`startOne_quiet`, `foldl_startOne_quiet`, `chkWorking_tstate_quiet`, `compCheck_quiet`,
  `UpdFix`, `NoStartLink`, `readyGate_startAuto`, `finishGate_startAuto`, `AutoPos`, `upd0_quiet`,
  `stepLive_absence`, `LRel_absence`, `JA`, `rel_absence`, `removal_current`) and here
  `C10_absence_step_current`, `C10_removal_partial`.  `Removal.stepBody_live_eq` and
  `Removal.stepBody_logs_eq` are `rfl` against the present `stepBody` and need re-checking.
-/
import PDesy.Lemmas.Removal
import PDesy.Model.Ser

namespace PDesy
open PDesy.Removal PDesy.Idem PDesy.PertSpec

/-! ### Stage 1: shift invariance -/

/-- **C10.3, forward pass.**  `pert` at time `time + d` on a state with the same remaining work
as `l` gives, for every task below `m.nT`, the `est` that `pert` at time `time` gives on `l`, plus
`d` — for any mix of FS/SS/FF/SF links (`WF`: links stay inside the task list). -/
theorem C10_est_shift (m : Model) (hwf : WF m) (l l' : Live) (hr : l'.rem = l.rem) (time d : Nat) :
    ∀ t, t < m.nT → (pert m (time + d) l').est t = (pert m time l).est t + (d : Rat) :=
  pert_est_shift m hwf l l' hr time d

/-- **C10.3, total slack.**  On a finish-to-start network with consistent, acyclic link lists and
no negative remaining work the slack `lst − est` of every task does not depend on the time. -/
theorem C10_slack_shift {m : Model} (hs : SlackOK m) (l l' : Live) (hr : l'.rem = l.rem)
    (hrem : ∀ t, t < m.nT → 0 ≤ l.rem t) (time d : Nat) :
    ∀ t, t < m.nT → (pert m (time + d) l').lst t - (pert m (time + d) l').est t =
      (pert m time l).lst t - (pert m time l).est t :=
  pert_slack_shift hs l l' hr hrem time d

/-- **C10.3, the comparison of `sort_task_list`.**  For every rule but FIFO the comparison
function read off the PERT data computed `d` steps later (and off any other logs) is, below
`m.nT`, the comparison function read off the PERT data computed now.  (FIFO's key counts READY log
entries, which absence steps inflate: kept finding F16.) -/
theorem C10_taskLe_shift (m : Model) (hwf : WF m) (rule : TaskRule) (hrule : rule ≠ .fifo)
    (l l' : Live) (hr : l'.rem = l.rem)
    (hsl : rule = .tslack → SlackOK m ∧ ∀ t, t < m.nT → 0 ≤ l.rem t)
    (time d : Nat) (lg lg' : Logs) (a b : Nat) (ha : a < m.nT) (hb : b < m.nT) :
    taskLe m (pert m (time + d) l') lg' rule a b = taskLe m (pert m time l) lg rule a b :=
  taskLe_pert_shift m hwf rule hrule l l' hr hsl time d lg lg' a b ha hb

/-- FIFO really is different: one more READY entry in a log changes the order. -/
example :
    taskLe Logs.demo Live.empty { Logs.empty with tState := fun t => if t = 0 then [.ready] else [] } .fifo 1 0
      ≠ taskLe Logs.demo Live.empty Logs.empty .fifo 1 0 := by decide +kernel

/-! ### Stage 3: the logs -/

/-- **C10.3, a working step and the logs.**  Deleting ascending steps, all before `s.time`, from
the aligned logs of `s` with one more row appended is deleting them first and appending the same
row afterwards. -/
theorem C10_rows_kept (m : Model) (wk : Bool) (l4 l5 : Live) (s : St) (h : Aligned m s)
    (steps : List Nat) (hp : steps.Pairwise (· < ·)) (hlt : ∀ d ∈ steps, d < s.time) :
    removeLogs m steps (addRow m wk l4 l5 s.logs) = addRow m wk l4 l5 (removeLogs m steps s.logs) :=
  removeLogs_addRow_keep m wk l4 l5 s h steps hp hlt

/-- **C10.3, an absence step and the logs.**  The row appended at step `s.time` is exactly what
deleting the step `s.time` (besides earlier ones) removes. -/
theorem C10_rows_dropped (m : Model) (wk : Bool) (l4 l5 : Live) (s : St) (h : Aligned m s)
    (steps : List Nat) :
    removeLogs m (steps ++ [s.time]) (addRow m wk l4 l5 s.logs) = removeLogs m steps s.logs :=
  removeLogs_addRow_drop m wk l4 l5 s h steps

/-- the rows in question are the ones `stepBody` appends -/
example (m : Model) (p : Params) (s : St) :
    (stepBody m p s).logs = addRow m (!(p.absence.contains s.time))
      (preLive m s.logs p.rule s.time (!(p.absence.contains s.time)) s.live) (stepBody m p s).live s.logs :=
  stepBody_logs_eq m p s

/-! ### Stage 2: one step -/

/-- **C10.3, a working step preserves the relation.**  `a0`, `b0`: states of run A (parameters
`pA`) and run B (`pB`: same rule and flag, no absence) at the top of an iteration, related by
`Removal.Rel`; if the step at `a0.time` is a working step of A, the states at the top of the next
iteration are related again (same `d`).  Model side conditions (`Removal.ModelOK`): no individual
absences, no component lists an automatic task, in-range links, rule ≠ FIFO, TSLACK only inside
`SlackOK`. -/
theorem C10_working_step (m : Model) (pA pB : Params) (hm : ModelOK m pA.rule)
    (hrule : pB.rule = pA.rule) (haf : pB.autoFlag = pA.autoFlag) (hB : pB.absence = [])
    (a0 b0 : St) (h : Rel m pA.absence a0 b0) (hw : pA.absence.contains a0.time = false) :
    Rel m pA.absence (stepBody m pA (updated m a0)) (stepBody m pB (updated m b0)) :=
  rel_working m pA pB hm hrule haf hB a0 b0 h hw

/-- **C10.3, an absence step, current model.**  With the flag off, no automatic task with a
component, positive initial work of automatic tasks, no SS/SF link out of an automatic task and
facility lists in range: an absence step of run A leads to the relation with the *same* state of
run B (`d` grows by one).  `Removal.JA` is the invariant of run A it uses (allocation invariants,
nothing allocated out of range, READY automatic tasks have work left). -/
theorem C10_absence_step_current (m : Model) (pA : Params) (hm : ModelOK m pA.rule) (hA : ModelOKA m)
    (hflag : pA.autoFlag = false) (a0 b0 : St) (h : Rel m pA.absence a0 b0) (hj : JA m a0)
    (hc : pA.absence.contains a0.time = true) :
    Rel m pA.absence (stepBody m pA (updated m a0)) b0 :=
  rel_absence m pA hm hA hflag a0 b0 h hj hc

/-! ### Stage 4: the runs -/

/-- **C10.3 from the absence-step lemma.**  For every absence list `L` (empty, runs, duplicates,
steps beyond the end): if run A ends with SUCCESS, and one absence step of run A leads to the
relation with the same state of run B (`AbsStepOK`, for some invariant `J` of run A), then
`remove_absence_time_list` applied to the result of run A gives the logs, the clock and the
status of run B, and run B ends with SUCCESS too.  Nothing else in this theorem depends on what
happens at an absence step. -/
theorem C10_removal_of_absence_step (m : Model) (p : Params) (L : List Nat) (s : St)
    (hm : ModelOK m p.rule) (hw : WorkOK m) (hs : p.initState = true) (hl : p.initLog = true)
    (J : St → Prop) (hJ0 : J (enter m { p with absence := L } s))
    (hJ : ∀ a0, J a0 → J (stepBody m { p with absence := L } (updated m a0)))
    (habs : AbsStepOK m { p with absence := L } J)
    (hsucc : (simulate m { p with absence := L } s).status = .success) :
    (removeAbs m (simulate m { p with absence := L } s)).logs = (simulate m { p with absence := [] } s).logs ∧
    (removeAbs m (simulate m { p with absence := L } s)).time = (simulate m { p with absence := [] } s).time ∧
    (removeAbs m (simulate m { p with absence := L } s)).status =
      (simulate m { p with absence := [] } s).status ∧
    (simulate m { p with absence := [] } s).status = .success :=
  removal_of_absStep m p L s hm hw hs hl J hJ0 hJ habs hsucc

/- The statement asked for,

     C10_removal : (no individual absences) → (no automatic task with a component) →
       (automatic tasks have positive initial remaining work) → p.rule ≠ .fifo →
       p.autoFlag = false → p.initState = true → p.initLog = true → (both runs end with SUCCESS) →
       (removeAbs m (simulate m { p with absence := L } s)).logs
         = (simulate m { p with absence := [] } s).logs        (and the same for `time`, `status`)

   is FALSE in the current model: `C10_removal_counterexample_ss` below satisfies every one of
   these hypotheses.  `C10_removal_partial` is the variant with the extra hypotheses made explicit. -/

/-- **C10.3, current model** (`_partial`: see the header for the hypotheses added to the property
text).  For every absence list `L`: if the run with absence list `L` ends with SUCCESS, then
deleting the project-wide absence steps from its result gives the logs, the clock and the status
of the run without absence, which ends with SUCCESS as well. -/
theorem C10_removal_partial (m : Model) (p : Params) (L : List Nat) (s : St)
    (hm : ModelOK m p.rule) (hA : ModelOKA m) (hw : WorkOK m) (hs : p.initState = true)
    (hl : p.initLog = true) (hflag : p.autoFlag = false)
    (hsucc : (simulate m { p with absence := L } s).status = .success) :
    (removeAbs m (simulate m { p with absence := L } s)).logs = (simulate m { p with absence := [] } s).logs ∧
    (removeAbs m (simulate m { p with absence := L } s)).time = (simulate m { p with absence := [] } s).time ∧
    (removeAbs m (simulate m { p with absence := L } s)).status =
      (simulate m { p with absence := [] } s).status ∧
    (simulate m { p with absence := [] } s).status = .success :=
  removal_current m p L s hm hA hw hs hl hflag hsucc

/-! ### the hypotheses are satisfiable; both sides evaluated -/

/-- four tasks in a diamond of finish-to-start links: `0` ordinary, then `1` automatic (no
component, 2 units of work) and `2` ordinary side by side, then `3` ordinary; one worker who can
do the ordinary ones -/
def rmM : Model where
  nT := 4
  nW := 1
  nF := 0
  nTeam := 1
  nWp := 0
  nC := 0
  task := fun t =>
    match t with
    | 0 => { name := 0, work := 2, outputs := [(1, .fs), (2, .fs)] }
    | 1 => { name := 1, work := 2, isAuto := true, inputs := [(0, .fs)], outputs := [(3, .fs)] }
    | 2 => { name := 2, work := 1, inputs := [(0, .fs)], outputs := [(3, .fs)] }
    | _ => { name := 3, work := 1, inputs := [(1, .fs), (2, .fs)] }
  worker := fun _ => { team := 0, skills := [(0, 1), (2, 1), (3, 1)] }
  fac := fun _ => {}
  team := fun _ => { workers := [0], targets := [0, 1, 2, 3] }
  wp := fun _ => {}
  comp := fun _ => {}

theorem rmM_cases {t : Nat} (ht : t < rmM.nT) : t = 0 ∨ t = 1 ∨ t = 2 ∨ t = 3 := by
  simp only [rmM] at ht; omega

theorem rmM_wf : WF rmM := by
  intro t ht
  rcases rmM_cases ht with rfl | rfl | rfl | rfl <;> decide +kernel

theorem rmM_slackOK : SlackOK rmM := by
  refine ⟨by decide +kernel, by decide +kernel, ⟨id, ?_⟩⟩
  intro t ht
  rcases rmM_cases ht with rfl | rfl | rfl | rfl <;> decide +kernel

theorem rmM_ok (rule : TaskRule) (h : rule ≠ .fifo) : ModelOK rmM rule where
  noInd := ⟨fun _ _ => rfl, fun _ _ => rfl⟩
  compNoAuto := fun c t ht => by simp [rmM] at ht
  wf := rmM_wf
  notFifo := h
  slack := fun _ => rmM_slackOK

theorem rmM_okA : ModelOKA rmM where
  autoFree := fun t ht _ => by
    rcases rmM_cases ht with rfl | rfl | rfl | rfl <;> rfl
  noStart := by
    intro t ht e he hd
    rcases rmM_cases ht with rfl | rfl | rfl | rfl <;> simp [rmM] at he <;>
      (try rcases he with rfl | rfl) <;> (try subst he) <;> simp at hd
  facs := fun p f hf => by simp [rmM] at hf
  autoPos := by
    intro t ht ha
    rcases rmM_cases ht with rfl | rfl | rfl | rfl <;> first | (exact absurd ha (by decide)) | decide +kernel

theorem rmM_workOK : WorkOK rmM := by
  intro t ht
  rcases rmM_cases ht with rfl | rfl | rfl | rfl <;> decide +kernel

/-- the absence list of the example: step 1 twice, step 3, and a step far beyond the end -/
def rmL : List Nat := [1, 1, 3, 30]

/-- run A of the example ends with SUCCESS, after 7 steps of which 2 are absence steps; run B
takes 5 -/
example : (simulate rmM { absence := rmL, maxTime := 40 } St.fresh).status = .success ∧
    (simulate rmM { absence := rmL, maxTime := 40 } St.fresh).time = 7 ∧
    (simulate rmM { absence := [], maxTime := 40 } St.fresh).time = 5 := by decide +kernel

/-- `C10_removal_partial` applies to the example (default rule TSLACK) … -/
example :
    (removeAbs rmM (simulate rmM { absence := rmL, maxTime := 40 } St.fresh)).logs =
      (simulate rmM { absence := [], maxTime := 40 } St.fresh).logs :=
  (C10_removal_partial rmM { maxTime := 40 } rmL St.fresh (rmM_ok .tslack (by decide)) rmM_okA rmM_workOK
    rfl rfl rfl (by decide +kernel)).1

/-- … and, independently of the theorem, both sides evaluated (logs serialised, clock, status),
for the absence list `[1, 1, 3, 30]` and for every admitted rule -/
example : ∀ rule ∈ [TaskRule.tslack, .est, .spt, .lpt, .lrpt, .srpt, .lwrpt, .swrpt],
    putLogs rmM (removeAbs rmM (simulate rmM { rule := rule, absence := rmL, maxTime := 40 } St.fresh)).logs =
      putLogs rmM (simulate rmM { rule := rule, absence := [], maxTime := 40 } St.fresh).logs ∧
    (removeAbs rmM (simulate rmM { rule := rule, absence := rmL, maxTime := 40 } St.fresh)).time =
      (simulate rmM { rule := rule, absence := [], maxTime := 40 } St.fresh).time ∧
    (removeAbs rmM (simulate rmM { rule := rule, absence := rmL, maxTime := 40 } St.fresh)).status =
      (simulate rmM { rule := rule, absence := [], maxTime := 40 } St.fresh).status := by
  decide +kernel

/-- the removal is not trivial: before it the state log of the automatic task shows READY at the
two absence steps (it is WORKING there, shown READY), afterwards these rows are gone -/
example :
    (simulate rmM { absence := rmL, maxTime := 40 } St.fresh).logs.tState 1 =
      [.none, .none, .none, .ready, .working, .working, .finished] ∧
    (removeAbs rmM (simulate rmM { absence := rmL, maxTime := 40 } St.fresh)).logs.tState 1 =
      [.none, .none, .working, .working, .finished] := by decide +kernel

/-! ### the new exception: an SS / SF link out of an automatic task -/

/-- task `0` automatic (work 2, no component), task `1` ordinary with a start-to-start link from
`0`; one worker -/
def ssM : Model where
  nT := 2
  nW := 1
  nF := 0
  nTeam := 1
  nWp := 0
  nC := 0
  task := fun t =>
    match t with
    | 0 => { name := 0, work := 2, isAuto := true, outputs := [(1, .ss)] }
    | _ => { name := 1, work := 1, inputs := [(0, .ss)] }
  worker := fun _ => { team := 0, skills := [(1, 1)] }
  fac := fun _ => {}
  team := fun _ => { workers := [0], targets := [0, 1] }
  wp := fun _ => {}
  comp := fun _ => {}

/-- **Counterexample to the statement as asked for** (rule TSLACK ≠ FIFO, flag off, no
individual absence, no component, automatic task with positive work, both runs SUCCESS):
with the absence list `[0]` the automatic task `0` is switched to WORKING by
`check_state(WORKING)` at the absence step 0, so its SS successor `1` is READY one working step
early; after deleting step 0 the state log of task 1 is `[WORKING, FINISHED]`, in the run without
absence it is `[NONE, WORKING]`.  (The two runs even take the same number of steps.) -/
theorem C10_removal_counterexample_ss :
    (simulate ssM { absence := [0], maxTime := 20 } St.fresh).status = .success ∧
    (simulate ssM { absence := [], maxTime := 20 } St.fresh).status = .success ∧
    (removeAbs ssM (simulate ssM { absence := [0], maxTime := 20 } St.fresh)).logs.tState 1 =
      [.working, .finished] ∧
    (simulate ssM { absence := [], maxTime := 20 } St.fresh).logs.tState 1 = [.none, .working] ∧
    putSt ssM (removeAbs ssM (simulate ssM { absence := [0], maxTime := 20 } St.fresh)) ≠
      putSt ssM (simulate ssM { absence := [], maxTime := 20 } St.fresh) := by
  decide +kernel

/-- it violates `NoStartLink` only -/
example : ¬ NoStartLink ssM := by
  intro h
  have := h 1 (by decide) (0, .ss) (by simp [ssM]) (Or.inl rfl)
  simp [ssM] at this

#print axioms PDesy.C10_est_shift
#print axioms PDesy.C10_slack_shift
#print axioms PDesy.C10_taskLe_shift
#print axioms PDesy.C10_rows_kept
#print axioms PDesy.C10_rows_dropped
#print axioms PDesy.C10_working_step
#print axioms PDesy.C10_absence_step_current
#print axioms PDesy.C10_removal_of_absence_step
#print axioms PDesy.C10_removal_partial
#print axioms PDesy.C10_removal_counterexample_ss

end PDesy
