/-
  PDesy.Props.C10Removal — C10, clause 3: "for projects without individually absent resources
  and without component-bound automatic tasks, deleting the project-wide absence steps from the
  result (`remove_absence_time_list`) gives exactly the result of simulating without absence".

  Run A = `simulate m { p with absence := L } s`, run B = `simulate m { p with absence := [] } s`.

  What is proved here:

  * Stage 1 — shift invariance.  `C10_est_shift`: the forward PERT pass started `d` steps later on
    the same remaining work gives every `est` exactly `d` later (any link kinds, any graph with
    in-range links).  `C10_slack_shift`: on finish-to-start networks (`Removal.SlackOK`) the total
    slack `lst − est` is the same.  `C10_taskLe_shift`: hence the comparison function of
    `sort_task_list` is the same function for TSLACK (inside `SlackOK`), EST, SPT, LPT, LRPT, SRPT,
    LWRPT, SWRPT — every rule but FIFO.
  * Stage 3 — the logs.  `C10_rows_kept`, `C10_rows_dropped`: `removeLogs` of the logs with the
    row of one more step is, at a working step, `removeLogs` of the old logs with the same row
    appended, and at an absence step just `removeLogs` of the old logs.
  * Stage 2 — one step.  `C10_working_step`: a working step of both runs preserves the simulation
    relation `Removal.Rel` (task states, remaining work / allocations / assignments / components /
    placement equal after `__update`, clocks `d` apart, B's logs = A's logs minus the `d` absence
    rows).  `C10_absence_step_current`: with the flag off an absence step of run A leads to the
    relation with the *same* state of run B — at such a step neither `allocate` nor
    `check_state(WORKING)` nor `perform` runs, every resource in range becomes ABSENCE and nothing
    else changes; the next `__update` finds nothing to do but the PERT data.
  * Stage 4 — the runs.  `C10_removal_of_absence_step`: the final statement from the absence-step
    lemma taken as a hypothesis (`Removal.AbsStepOK`).  `C10_removal`: the final statement.

  Hypotheses of `C10_removal` beyond the ones in the property text:
    - TSLACK only inside `SlackOK m` (FS links only, consistent link lists, acyclic).  This is
      weakened to "consistent link lists, acyclic, any link kinds" in PDesy/Props/C10Slack.lean
      (`C10_removal_tslack_general`), since the backward pass records the tasks it has set
      (`calculated_task_set`) instead of testing `lft < 0` for "not yet set" — with that test the
      statement was false for mixed link kinds (history in C10Slack.lean);
    - `CompNoAuto m` (no component lists an automatic task): the form in which "no
      component-bound automatic task" is used;
    - `WF m`, `WorkOK m`: index / sign well-formedness;
    - run A ends with SUCCESS (then run B does too: proved, not assumed).
  No longer needed (they were, while `check_state(WORKING)` ran at project absence steps): no
  SS / SF link out of an automatic task (`ssM` below is now a positive example), positive work of
  automatic tasks (`zwM` below), `AutoFree`, `FacsInRange`, and any further invariant of run A.
-/
import PDesy.Lemmas.Removal
import PDesy.Model.Ser

namespace PDesy
open PDesy.Removal PDesy.Idem PDesy.PertSpec

/-! ### Stage 1: shift invariance -/

/-- **C10.3, forward pass.**  `pert` at time `time + d` on a state with the same remaining work
as `l` gives, for every task below `m.nT`, the `est` that `pert` at time `time` gives on `l`, plus
`d` — for any mix of FS/SS/FF/SF links (`WF`: links stay inside the task list). -/
theorem C10_est_shift (m : Model) (hwf : WF m) (l l' : Live) (hr : l'.rem = l.rem) (time d : Nat) :
    ∀ t, t < m.nT → (pert m (time + d) l').est t = (pert m time l).est t + (d : Rat) :=
  pert_est_shift m hwf l l' hr time d

/-- **C10.3, total slack.**  On a finish-to-start network with consistent, acyclic link lists and
no negative remaining work the slack `lst − est` of every task does not depend on the time. -/
theorem C10_slack_shift {m : Model} (hs : SlackOK m) (l l' : Live) (hr : l'.rem = l.rem)
    (hrem : ∀ t, t < m.nT → 0 ≤ l.rem t) (time d : Nat) :
    ∀ t, t < m.nT → (pert m (time + d) l').lst t - (pert m (time + d) l').est t =
      (pert m time l).lst t - (pert m time l).est t :=
  pert_slack_shift hs l l' hr hrem time d

/-- **C10.3, the comparison of `sort_task_list`.**  For every rule but FIFO the comparison
function read off the PERT data computed `d` steps later (and off any other logs) is, below
`m.nT`, the comparison function read off the PERT data computed now.  (FIFO's key counts READY log
entries, which absence steps inflate: kept finding F16.) -/
theorem C10_taskLe_shift (m : Model) (hwf : WF m) (rule : TaskRule) (hrule : rule ≠ .fifo)
    (l l' : Live) (hr : l'.rem = l.rem)
    (hsl : rule = .tslack → SlackOK m ∧ ∀ t, t < m.nT → 0 ≤ l.rem t)
    (time d : Nat) (lg lg' : Logs) (a b : Nat) (ha : a < m.nT) (hb : b < m.nT) :
    taskLe m (pert m (time + d) l') lg' rule a b = taskLe m (pert m time l) lg rule a b :=
  taskLe_pert_shift m hwf rule hrule l l' hr hsl time d lg lg' a b ha hb

/-- FIFO really is different: one more READY entry in a log changes the order. -/
example :
    taskLe Logs.demo Live.empty { Logs.empty with tState := fun t => if t = 0 then [.ready] else [] } .fifo 1 0
      ≠ taskLe Logs.demo Live.empty Logs.empty .fifo 1 0 := by decide +kernel

/-! ### Stage 3: the logs -/

/-- **C10.3, a working step and the logs.**  Deleting ascending steps, all before `s.time`, from
the aligned logs of `s` with one more row appended is deleting them first and appending the same
row afterwards. -/
theorem C10_rows_kept (m : Model) (wk : Bool) (l4 l5 : Live) (s : St) (h : Aligned m s)
    (steps : List Nat) (hp : steps.Pairwise (· < ·)) (hlt : ∀ d ∈ steps, d < s.time) :
    removeLogs m steps (addRow m wk l4 l5 s.logs) = addRow m wk l4 l5 (removeLogs m steps s.logs) :=
  removeLogs_addRow_keep m wk l4 l5 s h steps hp hlt

/-- **C10.3, an absence step and the logs.**  The row appended at step `s.time` is exactly what
deleting the step `s.time` (besides earlier ones) removes. -/
theorem C10_rows_dropped (m : Model) (wk : Bool) (l4 l5 : Live) (s : St) (h : Aligned m s)
    (steps : List Nat) :
    removeLogs m (steps ++ [s.time]) (addRow m wk l4 l5 s.logs) = removeLogs m steps s.logs :=
  removeLogs_addRow_drop m wk l4 l5 s h steps

/-- the rows in question are the ones `stepBody` appends -/
example (m : Model) (p : Params) (s : St) :
    (stepBody m p s).logs = addRow m (!(p.absence.contains s.time))
      (preLive m s.logs p.rule p.autoFlag s.time (!(p.absence.contains s.time)) s.live)
      (stepBody m p s).live s.logs :=
  stepBody_logs_eq m p s

/-! ### Stage 2: one step -/

/-- **C10.3, a working step preserves the relation.**  `a0`, `b0`: states of run A (parameters
`pA`) and run B (`pB`: same rule and flag, no absence) at the top of an iteration, related by
`Removal.Rel`; if the step at `a0.time` is a working step of A, the states at the top of the next
iteration are related again (same `d`).  Model side conditions (`Removal.ModelOK`): no individual
absences, no component lists an automatic task, in-range links, rule ≠ FIFO, TSLACK only inside
`SlackOK`. -/
theorem C10_working_step (m : Model) (pA pB : Params) (hm : ModelOK m pA.rule)
    (hrule : pB.rule = pA.rule) (haf : pB.autoFlag = pA.autoFlag) (hB : pB.absence = [])
    (a0 b0 : St) (h : Rel m pA.absence a0 b0) (hw : pA.absence.contains a0.time = false) :
    Rel m pA.absence (stepBody m pA (updated m a0)) (stepBody m pB (updated m b0)) :=
  rel_working m pA pB hm hrule haf hB a0 b0 h hw

/-- **C10.3, an absence step.**  With `perform_auto_task_while_absence_time` off, an absence
step of run A leads to the relation with the *same* state of run B (`d` grows by one): the step
changes no task state, no remaining work and no allocation — only the resource states in range,
which the next step recomputes —, the `__update` after it changes nothing but the PERT data, and
the rows it appends are the ones `remove_absence_time_list` deletes (`C10_rows_dropped`).  No
condition on the model and no further invariant of run A is needed. -/
theorem C10_absence_step_current (m : Model) (pA : Params) (hflag : pA.autoFlag = false)
    (a0 b0 : St) (h : Rel m pA.absence a0 b0) (hc : pA.absence.contains a0.time = true) :
    Rel m pA.absence (stepBody m pA (updated m a0)) b0 :=
  rel_absence m pA hflag a0 b0 h trivial hc

/-- the same as the hypothesis `AbsStepOK` of `C10_removal_of_absence_step` -/
theorem C10_absStepOK (m : Model) (pA : Params) (hflag : pA.autoFlag = false) :
    AbsStepOK m pA (fun _ => True) :=
  rel_absence m pA hflag

/-! ### Stage 4: the runs -/

/-- **C10.3 from the absence-step lemma.**  For every absence list `L` (empty, runs, duplicates,
steps beyond the end): if run A ends with SUCCESS, and one absence step of run A leads to the
relation with the same state of run B (`AbsStepOK`, for some invariant `J` of run A), then
`remove_absence_time_list` applied to the result of run A gives the logs, the clock and the
status of run B, and run B ends with SUCCESS too.  Nothing else in this theorem depends on what
happens at an absence step. -/
theorem C10_removal_of_absence_step (m : Model) (p : Params) (L : List Nat) (s : St)
    (hm : ModelOK m p.rule) (hw : WorkOK m) (hs : p.initState = true) (hl : p.initLog = true)
    (J : St → Prop) (hJ0 : J (enter m { p with absence := L } s))
    (hJ : ∀ a0, J a0 → J (stepBody m { p with absence := L } (updated m a0)))
    (habs : AbsStepOK m { p with absence := L } J)
    (hsucc : (simulate m { p with absence := L } s).status = .success) :
    (removeAbs m (simulate m { p with absence := L } s)).logs = (simulate m { p with absence := [] } s).logs ∧
    (removeAbs m (simulate m { p with absence := L } s)).time = (simulate m { p with absence := [] } s).time ∧
    (removeAbs m (simulate m { p with absence := L } s)).status =
      (simulate m { p with absence := [] } s).status ∧
    (simulate m { p with absence := [] } s).status = .success :=
  removal_of_absStep m p L s hm hw hs hl J hJ0 hJ habs hsucc

/-- **C10.3.**  For a model without individual absences and without automatic tasks in
components (`ModelOK`: also in-range links, rule ≠ FIFO, TSLACK only on finish-to-start
networks), with `perform_auto_task_while_absence_time` off and both `initialize` flags set, and
for every absence list `L` (empty, runs, duplicates, steps beyond the end): if the run with
absence list `L` ends with SUCCESS, then deleting the project-wide absence steps from its result
(`remove_absence_time_list`) gives exactly the logs, the clock and the status of the run without
absence, which ends with SUCCESS as well. -/
theorem C10_removal (m : Model) (p : Params) (L : List Nat) (s : St)
    (hm : ModelOK m p.rule) (hw : WorkOK m) (hs : p.initState = true)
    (hl : p.initLog = true) (hflag : p.autoFlag = false)
    (hsucc : (simulate m { p with absence := L } s).status = .success) :
    (removeAbs m (simulate m { p with absence := L } s)).logs = (simulate m { p with absence := [] } s).logs ∧
    (removeAbs m (simulate m { p with absence := L } s)).time = (simulate m { p with absence := [] } s).time ∧
    (removeAbs m (simulate m { p with absence := L } s)).status =
      (simulate m { p with absence := [] } s).status ∧
    (simulate m { p with absence := [] } s).status = .success :=
  C10_removal_of_absence_step m p L s hm hw hs hl (fun _ => True) trivial (fun _ _ => trivial)
    (C10_absStepOK m { p with absence := L } hflag) hsucc

/-! ### the hypotheses are satisfiable; both sides evaluated -/

/-- four tasks in a diamond of finish-to-start links: `0` ordinary, then `1` automatic (no
component, 2 units of work) and `2` ordinary side by side, then `3` ordinary; one worker who can
do the ordinary ones -/
def rmM : Model where
  nT := 4
  nW := 1
  nF := 0
  nTeam := 1
  nWp := 0
  nC := 0
  task := fun t =>
    match t with
    | 0 => { name := 0, work := 2, outputs := [(1, .fs), (2, .fs)] }
    | 1 => { name := 1, work := 2, isAuto := true, inputs := [(0, .fs)], outputs := [(3, .fs)] }
    | 2 => { name := 2, work := 1, inputs := [(0, .fs)], outputs := [(3, .fs)] }
    | _ => { name := 3, work := 1, inputs := [(1, .fs), (2, .fs)] }
  worker := fun _ => { team := 0, skills := [(0, 1), (2, 1), (3, 1)] }
  fac := fun _ => {}
  team := fun _ => { workers := [0], targets := [0, 1, 2, 3] }
  wp := fun _ => {}
  comp := fun _ => {}

theorem rmM_cases {t : Nat} (ht : t < rmM.nT) : t = 0 ∨ t = 1 ∨ t = 2 ∨ t = 3 := by
  simp only [rmM] at ht; omega

theorem rmM_wf : WF rmM := by
  intro t ht
  rcases rmM_cases ht with rfl | rfl | rfl | rfl <;> decide +kernel

theorem rmM_slackOK : SlackOK rmM := by
  refine ⟨by decide +kernel, by decide +kernel, ⟨id, ?_⟩⟩
  intro t ht
  rcases rmM_cases ht with rfl | rfl | rfl | rfl <;> decide +kernel

theorem rmM_ok (rule : TaskRule) (h : rule ≠ .fifo) : ModelOK rmM rule where
  noInd := ⟨fun _ _ => rfl, fun _ _ => rfl⟩
  compNoAuto := fun c t ht => by simp [rmM] at ht
  wf := rmM_wf
  notFifo := h
  slack := fun _ => rmM_slackOK

theorem rmM_workOK : WorkOK rmM := by
  intro t ht
  rcases rmM_cases ht with rfl | rfl | rfl | rfl <;> decide +kernel

/-- the absence list of the example: step 1 twice, step 3, and a step far beyond the end -/
def rmL : List Nat := [1, 1, 3, 30]

/-- run A of the example ends with SUCCESS, after 7 steps of which 2 are absence steps; run B
takes 5 -/
example : (simulate rmM { absence := rmL, maxTime := 40 } St.fresh).status = .success ∧
    (simulate rmM { absence := rmL, maxTime := 40 } St.fresh).time = 7 ∧
    (simulate rmM { absence := [], maxTime := 40 } St.fresh).time = 5 := by decide +kernel

/-- `C10_removal` applies to the example (default rule TSLACK) … -/
example :
    (removeAbs rmM (simulate rmM { absence := rmL, maxTime := 40 } St.fresh)).logs =
      (simulate rmM { absence := [], maxTime := 40 } St.fresh).logs :=
  (C10_removal rmM { maxTime := 40 } rmL St.fresh (rmM_ok .tslack (by decide)) rmM_workOK
    rfl rfl rfl (by decide +kernel)).1

/-- … and, independently of the theorem, both sides evaluated (logs serialised, clock, status),
for the absence list `[1, 1, 3, 30]` and for every admitted rule -/
example : ∀ rule ∈ [TaskRule.tslack, .est, .spt, .lpt, .lrpt, .srpt, .lwrpt, .swrpt],
    putLogs rmM (removeAbs rmM (simulate rmM { rule := rule, absence := rmL, maxTime := 40 } St.fresh)).logs =
      putLogs rmM (simulate rmM { rule := rule, absence := [], maxTime := 40 } St.fresh).logs ∧
    (removeAbs rmM (simulate rmM { rule := rule, absence := rmL, maxTime := 40 } St.fresh)).time =
      (simulate rmM { rule := rule, absence := [], maxTime := 40 } St.fresh).time ∧
    (removeAbs rmM (simulate rmM { rule := rule, absence := rmL, maxTime := 40 } St.fresh)).status =
      (simulate rmM { rule := rule, absence := [], maxTime := 40 } St.fresh).status := by
  decide +kernel

/-- the removal is not trivial: before it the state log of the automatic task shows NONE at the
absence step 1 and READY at the absence step 3 (it becomes READY there and is not started: it
starts at step 4), afterwards these rows are gone -/
example :
    (simulate rmM { absence := rmL, maxTime := 40 } St.fresh).logs.tState 1 =
      [.none, .none, .none, .ready, .working, .working, .finished] ∧
    (removeAbs rmM (simulate rmM { absence := rmL, maxTime := 40 } St.fresh)).logs.tState 1 =
      [.none, .none, .working, .working, .finished] := by decide +kernel

/-! ### two former exceptions that are now positive examples -/

/-- task `0` automatic (work 2, no component), task `1` ordinary with a start-to-start link from
`0`; one worker -/
def ssM : Model where
  nT := 2
  nW := 1
  nF := 0
  nTeam := 1
  nWp := 0
  nC := 0
  task := fun t =>
    match t with
    | 0 => { name := 0, work := 2, isAuto := true, outputs := [(1, .ss)] }
    | _ => { name := 1, work := 1, inputs := [(0, .ss)] }
  worker := fun _ => { team := 0, skills := [(1, 1)] }
  fac := fun _ => {}
  team := fun _ => { workers := [0], targets := [0, 1] }
  wp := fun _ => {}
  comp := fun _ => {}

/-- **An SS link out of an automatic task** (formerly `C10_removal_counterexample_ss`: while
`check_state(WORKING)` ran at absence steps, the automatic task `0` was switched to WORKING at
the absence step 0 and its SS successor `1` became READY one working step early).  Now nothing
starts at the absence step 0: after deleting it the logs, the clock and the status are those of
the run without absence; the state log of task 1 is `[NONE, WORKING]` on both sides. -/
example :
    (simulate ssM { absence := [0], maxTime := 20 } St.fresh).status = .success ∧
    (simulate ssM { absence := [], maxTime := 20 } St.fresh).status = .success ∧
    (simulate ssM { absence := [0], maxTime := 20 } St.fresh).logs.tState 1 = [.none, .none, .working] ∧
    (removeAbs ssM (simulate ssM { absence := [0], maxTime := 20 } St.fresh)).logs.tState 1 =
      [.none, .working] ∧
    (simulate ssM { absence := [], maxTime := 20 } St.fresh).logs.tState 1 = [.none, .working] ∧
    putLogs ssM (removeAbs ssM (simulate ssM { absence := [0], maxTime := 20 } St.fresh)).logs =
      putLogs ssM (simulate ssM { absence := [], maxTime := 20 } St.fresh).logs ∧
    (removeAbs ssM (simulate ssM { absence := [0], maxTime := 20 } St.fresh)).time =
      (simulate ssM { absence := [], maxTime := 20 } St.fresh).time ∧
    (removeAbs ssM (simulate ssM { absence := [0], maxTime := 20 } St.fresh)).status =
      (simulate ssM { absence := [], maxTime := 20 } St.fresh).status := by
  decide +kernel

theorem ssM_ok : ModelOK ssM .est where
  noInd := ⟨fun _ _ => rfl, fun _ _ => rfl⟩
  compNoAuto := fun c t ht => by simp [ssM] at ht
  wf := by
    intro t ht
    have : t = 0 ∨ t = 1 := by simp only [ssM] at ht; omega
    rcases this with rfl | rfl <;> decide +kernel
  notFifo := by decide
  slack := fun h => by cases h

theorem ssM_workOK : WorkOK ssM := by
  intro t ht
  have : t = 0 ∨ t = 1 := by simp only [ssM] at ht; omega
  rcases this with rfl | rfl <;> decide +kernel

/-- `C10_removal` applies to it (rule EST: the network is not finish-to-start, so TSLACK is
outside `SlackOK`) -/
example :
    (removeAbs ssM (simulate ssM { rule := .est, absence := [0], maxTime := 20 } St.fresh)).logs =
      (simulate ssM { rule := .est, absence := [], maxTime := 20 } St.fresh).logs :=
  (C10_removal ssM { rule := .est, maxTime := 20 } [0] St.fresh ssM_ok ssM_workOK
    rfl rfl rfl (by decide +kernel)).1

/-- task `0` automatic with work amount 0 (no component), task `1` ordinary after it
(finish-to-start); one worker -/
def zwM : Model where
  nT := 2
  nW := 1
  nF := 0
  nTeam := 1
  nWp := 0
  nC := 0
  task := fun t =>
    match t with
    | 0 => { name := 0, work := 0, isAuto := true, outputs := [(1, .fs)] }
    | _ => { name := 1, work := 1, inputs := [(0, .fs)] }
  worker := fun _ => { team := 0, skills := [(1, 1)] }
  fac := fun _ => {}
  team := fun _ => { workers := [0], targets := [0, 1] }
  wp := fun _ => {}
  comp := fun _ => {}

theorem zwM_cases {t : Nat} (ht : t < zwM.nT) : t = 0 ∨ t = 1 := by
  simp only [zwM] at ht; omega

theorem zwM_ok (rule : TaskRule) (h : rule ≠ .fifo) : ModelOK zwM rule where
  noInd := ⟨fun _ _ => rfl, fun _ _ => rfl⟩
  compNoAuto := fun c t ht => by simp [zwM] at ht
  wf := by
    intro t ht
    rcases zwM_cases ht with rfl | rfl <;> decide +kernel
  notFifo := h
  slack := fun _ => by
    refine ⟨by decide +kernel, by decide +kernel, ⟨id, ?_⟩⟩
    intro t ht
    rcases zwM_cases ht with rfl | rfl <;> decide +kernel

theorem zwM_workOK : WorkOK zwM := by
  intro t ht
  rcases zwM_cases ht with rfl | rfl <;> decide +kernel

/-- **A zero-work automatic task** (formerly excluded: started at an absence step it would have
finished one working step early).  With the absence list `[0, 2]` the task waits in READY at the
absence step 0, is WORKING at step 1, FINISHED at the absence step 2; deleting the two rows gives
the run without absence. -/
example :
    (simulate zwM { absence := [0, 2], maxTime := 20 } St.fresh).status = .success ∧
    (simulate zwM { absence := [0, 2], maxTime := 20 } St.fresh).logs.tState 0 =
      [.ready, .working, .finished, .finished] ∧
    (simulate zwM { absence := [], maxTime := 20 } St.fresh).logs.tState 0 = [.working, .finished] ∧
    putLogs zwM (removeAbs zwM (simulate zwM { absence := [0, 2], maxTime := 20 } St.fresh)).logs =
      putLogs zwM (simulate zwM { absence := [], maxTime := 20 } St.fresh).logs ∧
    (removeAbs zwM (simulate zwM { absence := [0, 2], maxTime := 20 } St.fresh)).time =
      (simulate zwM { absence := [], maxTime := 20 } St.fresh).time ∧
    (removeAbs zwM (simulate zwM { absence := [0, 2], maxTime := 20 } St.fresh)).status =
      (simulate zwM { absence := [], maxTime := 20 } St.fresh).status := by
  decide +kernel

/-- `C10_removal` applies to it (default rule TSLACK) -/
example :
    (removeAbs zwM (simulate zwM { absence := [0, 2], maxTime := 20 } St.fresh)).logs =
      (simulate zwM { absence := [], maxTime := 20 } St.fresh).logs :=
  (C10_removal zwM { maxTime := 20 } [0, 2] St.fresh (zwM_ok .tslack (by decide)) zwM_workOK
    rfl rfl rfl (by decide +kernel)).1

#print axioms PDesy.C10_est_shift
#print axioms PDesy.C10_slack_shift
#print axioms PDesy.C10_taskLe_shift
#print axioms PDesy.C10_rows_kept
#print axioms PDesy.C10_rows_dropped
#print axioms PDesy.C10_working_step
#print axioms PDesy.C10_absence_step_current
#print axioms PDesy.C10_absStepOK
#print axioms PDesy.C10_removal_of_absence_step
#print axioms PDesy.C10_removal

end PDesy
