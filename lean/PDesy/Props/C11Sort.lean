/-
  PDesy.Props.C11Sort — property C11 (sorting half):
  "Priority rules order candidates as documented."

  Each of the four sorting functions of `base_priority_rule.py` (`sort_task_list`,
  `sort_worker_list`, `sort_facility_list`, `sort_workplace_list`; in the model `sortTasks`,
  `sortWorkers`, `sortFacs`, `sortWps`) returns, for EVERY rule mode and EVERY input list
  (ties and missing skill entries included),

    * a permutation of its input,
    * ordered by the documented key of the selected rule,
    * stably: candidates with equal keys keep their input order
      (Python's guarantee for `sorted(key=…)` and `sorted(key=…, reverse=True)`).

  These three facts are packaged as `Sort.StableSortedBy r key inp out` (fields `perm`, `sorted`,
  `stable`), and by `Sort.StableSortedBy.unique` they determine the output uniquely.

  "Accepts every rule for every resource kind": the sorting functions are total Lean functions
  on the rule enumerations, and each theorem below is quantified over *all* constructors of the
  rule type (the `match` in each statement lists every mode, including `ResRule.mw` for
  facilities, which `sort_facility_list` accepts and answers with the unchanged list).
-/
import PDesy.Lemmas.Sort

namespace PDesy

open PDesy.Sort

/-- `out` is `inp` stably sorted by ascending rational `key` (`sorted(inp, key=key)`). -/
abbrev SortedAsc (key : Nat → Rat) (inp out : List Nat) : Prop :=
  StableSortedBy (fun x y : Rat => x ≤ y) key inp out

/-- `out` is `inp` stably sorted by descending rational `key`
(`sorted(inp, key=key, reverse=True)`). -/
abbrev SortedDesc (key : Nat → Rat) (inp out : List Nat) : Prop :=
  StableSortedBy (fun x y : Rat => y ≤ x) key inp out

/-! ## Tasks -/

/-- **C11, tasks.**  For every task rule, `sortTasks` returns a stable sort of the candidate
list by the documented key:

* TSLACK — ascending slack `lst − est`;
* EST — ascending earliest start time;
* SPT / LPT — ascending / descending default work amount;
* FIFO — descending number of READY entries in the task's state log (longest waiting first);
* LRPT / SRPT — descending / ascending remaining work amount;
* LWRPT / SWRPT — descending / ascending critical-path length of the (single) workflow.

"Stable sort" = permutation of the input, keys ordered along the output, and tasks with equal
keys in their input order.  The statement covers all nine constructors of `TaskRule`, i.e.
`sort_task_list` accepts every rule. -/
theorem C11_tasks (m : Model) (l : Live) (lg : Logs) (rule : TaskRule) (ts : List Nat) :
    match rule with
    | .tslack => SortedAsc  (fun t => l.lst t - l.est t) ts (sortTasks m l lg .tslack ts)
    | .est    => SortedAsc  (fun t => l.est t) ts (sortTasks m l lg .est ts)
    | .spt    => SortedAsc  (fun t => (m.task t).work) ts (sortTasks m l lg .spt ts)
    | .lpt    => SortedDesc (fun t => (m.task t).work) ts (sortTasks m l lg .lpt ts)
    | .fifo   => SortedDesc (fun t => (((lg.tState t).filter (· == TS.ready)).length : Rat)) ts
                   (sortTasks m l lg .fifo ts)
    | .lrpt   => SortedDesc (fun t => l.rem t) ts (sortTasks m l lg .lrpt ts)
    | .srpt   => SortedAsc  (fun t => l.rem t) ts (sortTasks m l lg .srpt ts)
    | .lwrpt  => SortedDesc (fun _ => l.cpl) ts (sortTasks m l lg .lwrpt ts)
    | .swrpt  => SortedAsc  (fun _ => l.cpl) ts (sortTasks m l lg .swrpt ts) := by
  cases rule
  case tslack | est | spt | srpt | swrpt =>
    exact stableSortedBy_sortBy ratLe_totalOrder
      (fun a b => by rw [taskLe_iff]; simp [taskRuleDesc, taskKey]) ts
  case lpt | fifo | lrpt | lwrpt =>
    exact stableSortedBy_sortBy ratGe_totalOrder
      (fun a b => by rw [taskLe_iff]; simp [taskRuleDesc, taskKey, readyCount]) ts

/-- Rule-independent summary of `C11_tasks`: permutation, ordered by the comparator, stable —
and `sortTasks` is the only function with these three properties. -/
theorem C11_tasks_generic (m : Model) (l : Live) (lg : Logs) (rule : TaskRule) (ts : List Nat) :
    (sortTasks m l lg rule ts).Perm ts ∧
    (sortTasks m l lg rule ts).Pairwise (fun a b => taskLe m l lg rule a b = true) ∧
    (∀ a, (sortTasks m l lg rule ts).filter (fun b => taskLe m l lg rule a b && taskLe m l lg rule b a)
        = ts.filter (fun b => taskLe m l lg rule a b && taskLe m l lg rule b a)) ∧
    (∀ out : List Nat, out.Perm ts → out.Pairwise (fun a b => taskLe m l lg rule a b = true) →
      (∀ a, out.filter (fun b => taskLe m l lg rule a b && taskLe m l lg rule b a)
          = ts.filter (fun b => taskLe m l lg rule a b && taskLe m l lg rule b a)) →
      out = sortTasks m l lg rule ts) :=
  ⟨sortBy_perm _ _, sortBy_pairwise (taskLe_total m l lg rule) (taskLe_trans m l lg rule) ts,
   fun a => sortBy_filter_equiv (taskLe_trans m l lg rule) a ts,
   fun _ hp hs hst =>
     eq_sortBy_of_perm_pairwise_stable (taskLe_total m l lg rule) (taskLe_trans m l lg rule)
       hp hs hst⟩

/-! ## Workers -/

/-- **C11, workers.**  For every resource rule, `sortWorkers` returns a stable sort of the
worker list by the documented key *tuple*, compared lexicographically (`Sort.Lex3`: the first
differing component decides; `ExtRat` is `Rat` plus `+∞`, booleans are `0`/`1` via `boolKey`):

* MW  — (main workplace ≠ target, main workplace ≠ None, skill sum):
        workers whose main workplace *is* the target first, then workers without a main
        workplace, then by ascending skill sum;
* SSP — (skill sum, main workplace ≠ target, main workplace ≠ None);
* VC  — (cost per time, …, …);
* HSV — (`hsvKey` = minus the skill for the task name, `+∞` if the worker lacks the entry, …, …):
        highest skill first, workers without the skill entry last.

Workplace IDs are compared by value (`Option Nat` indices).  All four constructors of `ResRule`
are covered, i.e. `sort_worker_list` accepts every rule. -/
theorem C11_workers (m : Model) (rule : ResRule) (name : Nat) (target : Option Nat)
    (ws : List Nat) :
    match rule with
    | .mw  => StableSortedBy Lex3
        (fun w => (boolKey (decide ((m.worker w).mainWp ≠ target)),
                   boolKey (decide ((m.worker w).mainWp ≠ Option.none)),
                   ExtRat.fin (sumVals (m.worker w).skills)))
        ws (sortWorkers m .mw name target ws)
    | .ssp => StableSortedBy Lex3
        (fun w => (ExtRat.fin (sumVals (m.worker w).skills),
                   boolKey (decide ((m.worker w).mainWp ≠ target)),
                   boolKey (decide ((m.worker w).mainWp ≠ Option.none))))
        ws (sortWorkers m .ssp name target ws)
    | .vc  => StableSortedBy Lex3
        (fun w => (ExtRat.fin (m.worker w).cost,
                   boolKey (decide ((m.worker w).mainWp ≠ target)),
                   boolKey (decide ((m.worker w).mainWp ≠ Option.none))))
        ws (sortWorkers m .vc name target ws)
    | .hsv => StableSortedBy Lex3
        (fun w => (hsvKey (m.worker w).skills name,
                   boolKey (decide ((m.worker w).mainWp ≠ target)),
                   boolKey (decide ((m.worker w).mainWp ≠ Option.none))))
        ws (sortWorkers m .hsv name target ws) := by
  cases rule
  · exact stableSortedBy_sortBy lex3_totalOrder (workerLe_iff m .mw name target) ws
  · exact stableSortedBy_sortBy lex3_totalOrder (workerLe_iff m .ssp name target) ws
  · exact stableSortedBy_sortBy lex3_totalOrder (workerLe_iff m .vc name target) ws
  · exact stableSortedBy_sortBy lex3_totalOrder (workerLe_iff m .hsv name target) ws

/-- Reading of the HSV worker rule without `ExtRat`: if a later worker of the output has a
skill entry for `name`, every earlier worker has one too, with a value at least as high. -/
theorem C11_workers_hsv_desc (m : Model) (name : Nat) (target : Option Nat) (ws : List Nat) :
    (sortWorkers m .hsv name target ws).Pairwise (fun a b =>
      ∀ v, lookup (m.worker b).skills name = some v →
        ∃ u, lookup (m.worker a).skills name = some u ∧ v ≤ u) :=
  (C11_workers m .hsv name target ws).sorted.imp
    (fun h => (extLe_hsvKey_iff _ _ name).1 (Lex3.fst h))

/-- Rule-independent summary for workers (permutation / ordered / stable / unique). -/
theorem C11_workers_generic (m : Model) (rule : ResRule) (name : Nat) (target : Option Nat)
    (ws : List Nat) :
    let le := workerLe m rule name target
    (sortWorkers m rule name target ws).Perm ws ∧
    (sortWorkers m rule name target ws).Pairwise (fun a b => le a b = true) ∧
    (∀ a, (sortWorkers m rule name target ws).filter (fun b => le a b && le b a)
        = ws.filter (fun b => le a b && le b a)) ∧
    (∀ out : List Nat, out.Perm ws → out.Pairwise (fun a b => le a b = true) →
      (∀ a, out.filter (fun b => le a b && le b a) = ws.filter (fun b => le a b && le b a)) →
      out = sortWorkers m rule name target ws) :=
  ⟨sortBy_perm _ _,
   sortBy_pairwise (workerLe_total m rule name target) (workerLe_trans m rule name target) ws,
   fun a => sortBy_filter_equiv (workerLe_trans m rule name target) a ws,
   fun _ hp hs hst =>
     eq_sortBy_of_perm_pairwise_stable (workerLe_total m rule name target)
       (workerLe_trans m rule name target) hp hs hst⟩

/-! ## Facilities -/

/-- **C11, facilities.**  For every resource rule, `sortFacs` does what `sort_facility_list`
documents:

* SSP — stable sort by ascending skill sum;
* VC  — stable sort by ascending cost per time;
* HSV — stable sort by descending skill for the task name, facilities without the entry (key
        `−∞` in Python, here `hsvKey = +∞` after negation) last;
* MW  — accepted, and the list is returned unchanged (no branch of `sort_facility_list` fires).

All four constructors of `ResRule` are covered: the function accepts every rule. -/
theorem C11_facilities (m : Model) (rule : ResRule) (name : Nat) (fs : List Nat) :
    match rule with
    | .ssp => SortedAsc (fun f => sumVals (m.fac f).skills) fs (sortFacs m .ssp name fs)
    | .vc  => SortedAsc (fun f => (m.fac f).cost) fs (sortFacs m .vc name fs)
    | .hsv => StableSortedBy ExtLe (fun f => hsvKey (m.fac f).skills name) fs
                (sortFacs m .hsv name fs)
    | .mw  => sortFacs m .mw name fs = fs := by
  cases rule
  · exact sortBy_true fs
  · exact stableSortedBy_sortBy ratLe_totalOrder (fun a b => by simp [facLe]) fs
  · exact stableSortedBy_sortBy ratLe_totalOrder (fun a b => by simp [facLe]) fs
  · exact stableSortedBy_sortBy extLe_totalOrder (facLe_hsv_iff m name) fs

/-- Reading of the HSV facility rule without `ExtRat`: if a later facility of the output has a
skill entry for `name`, every earlier one has an entry too, with a value at least as high. -/
theorem C11_facilities_hsv_desc (m : Model) (name : Nat) (fs : List Nat) :
    (sortFacs m .hsv name fs).Pairwise (fun a b =>
      ∀ v, lookup (m.fac b).skills name = some v →
        ∃ u, lookup (m.fac a).skills name = some u ∧ v ≤ u) :=
  (C11_facilities m .hsv name fs).sorted.imp (fun h => (extLe_hsvKey_iff _ _ name).1 h)

/-- Rule-independent summary for facilities (permutation / ordered / stable / unique). -/
theorem C11_facilities_generic (m : Model) (rule : ResRule) (name : Nat) (fs : List Nat) :
    let le := facLe m rule name
    (sortFacs m rule name fs).Perm fs ∧
    (sortFacs m rule name fs).Pairwise (fun a b => le a b = true) ∧
    (∀ a, (sortFacs m rule name fs).filter (fun b => le a b && le b a)
        = fs.filter (fun b => le a b && le b a)) ∧
    (∀ out : List Nat, out.Perm fs → out.Pairwise (fun a b => le a b = true) →
      (∀ a, out.filter (fun b => le a b && le b a) = fs.filter (fun b => le a b && le b a)) →
      out = sortFacs m rule name fs) :=
  ⟨sortBy_perm _ _, sortBy_pairwise (facLe_total m rule name) (facLe_trans m rule name) fs,
   fun a => sortBy_filter_equiv (facLe_trans m rule name) a fs,
   fun _ hp hs hst =>
     eq_sortBy_of_perm_pairwise_stable (facLe_total m rule name) (facLe_trans m rule name)
       hp hs hst⟩

/-! ## Workplaces -/

/-- **C11, workplaces.**  For both workplace rules, `sortWps` returns a stable sort of the
workplace list by the documented key, largest first:

* FSS — descending free space `availSpace` (capacity minus the sizes of the placed components);
* SSP — descending `wpSkillSum` (sum of the skill values for the task name over the workplace's
        facilities that have that skill).

Both constructors of `WpRule` are covered: `sort_workplace_list` accepts every rule. -/
theorem C11_workplaces (m : Model) (l : Live) (rule : WpRule) (name : Nat) (ps : List Nat) :
    match rule with
    | .fss => SortedDesc (fun p => availSpace m l p) ps (sortWps m l .fss name ps)
    | .ssp => SortedDesc (fun p => wpSkillSum m p name) ps (sortWps m l .ssp name ps) := by
  cases rule
  · exact stableSortedBy_sortBy ratGe_totalOrder (wpLe_iff m l .fss name) ps
  · exact stableSortedBy_sortBy ratGe_totalOrder (wpLe_iff m l .ssp name) ps

/-- Rule-independent summary for workplaces (permutation / ordered / stable / unique). -/
theorem C11_workplaces_generic (m : Model) (l : Live) (rule : WpRule) (name : Nat)
    (ps : List Nat) :
    let le := wpLe m l rule name
    (sortWps m l rule name ps).Perm ps ∧
    (sortWps m l rule name ps).Pairwise (fun a b => le a b = true) ∧
    (∀ a, (sortWps m l rule name ps).filter (fun b => le a b && le b a)
        = ps.filter (fun b => le a b && le b a)) ∧
    (∀ out : List Nat, out.Perm ps → out.Pairwise (fun a b => le a b = true) →
      (∀ a, out.filter (fun b => le a b && le b a) = ps.filter (fun b => le a b && le b a)) →
      out = sortWps m l rule name ps) :=
  ⟨sortBy_perm _ _, sortBy_pairwise (wpLe_total m l rule name) (wpLe_trans m l rule name) ps,
   fun a => sortBy_filter_equiv (wpLe_trans m l rule name) a ps,
   fun _ hp hs hst =>
     eq_sortBy_of_perm_pairwise_stable (wpLe_total m l rule name) (wpLe_trans m l rule name)
       hp hs hst⟩

/-! ## Non-vacuity: small concrete lists with ties and missing keys -/

namespace C11Example

/-- 4 tasks with work 3,1,3,2; 4 workers / facilities with skills for task name 7:
0 ↦ 2, 1 ↦ (no entry), 2 ↦ 5, 3 ↦ 2; costs 4,1,4,1; main workplaces some 0, none, some 1, some 0;
2 workplaces-with-facilities and 2 empty ones. -/
def m : Model where
  nT := 4
  nW := 4
  nF := 4
  nTeam := 1
  nWp := 4
  nC := 2
  task := fun t => { work := if t = 0 then 3 else if t = 1 then 1 else if t = 2 then 3 else 2 }
  worker := fun w =>
    { skills := if w = 0 then [(7, 2)] else if w = 1 then [(8, 9)] else if w = 2 then [(7, 5)]
                else [(7, 2)]
      cost := if w = 0 then 4 else if w = 1 then 1 else if w = 2 then 4 else 1
      mainWp := if w = 0 then some 0 else if w = 1 then Option.none else if w = 2 then some 1
                else some 0 }
  fac := fun f =>
    { skills := if f = 0 then [(7, 2)] else if f = 1 then [(8, 9)] else if f = 2 then [(7, 5)]
                else [(7, 2)]
      cost := if f = 0 then 4 else if f = 1 then 1 else if f = 2 then 4 else 1 }
  team := fun _ => {}
  wp := fun p =>
    { facs := if p = 0 then [0, 1] else if p = 1 then [2] else if p = 2 then [3] else []
      cap := if p = 0 then 2 else if p = 1 then 3 else if p = 2 then 2 else 3 }
  comp := fun _ => {}

/-- est 0,2,0,2; lst 1,2,4,3 (slack 1,0,4,1); remaining 1,1,0,1; component 0 placed in
workplace 1. -/
def l : Live :=
  { Live.empty with
    est := fun t => if t = 0 then 0 else if t = 1 then 2 else if t = 2 then 0 else 2
    lst := fun t => if t = 0 then 1 else if t = 1 then 2 else if t = 2 then 4 else 3
    rem := fun t => if t = 2 then 0 else 1
    cpl := 5
    wpComps := fun p => if p = 1 then [0] else [] }

/-- READY counts 1,2,0,2. -/
def lg : Logs :=
  { Logs.empty with
    tState := fun t => if t = 0 then [.none, .ready, .working]
                       else if t = 1 then [.ready, .ready]
                       else if t = 2 then [.none, .none] else [.ready, .none, .ready] }

-- tasks: ties keep input order, ascending and descending
example : sortTasks m l lg .tslack [0, 1, 2, 3] = [1, 0, 3, 2] := by decide +kernel
example : sortTasks m l lg .est [0, 1, 2, 3] = [0, 2, 1, 3] := by decide +kernel
example : sortTasks m l lg .spt [0, 1, 2, 3] = [1, 3, 0, 2] := by decide +kernel
example : sortTasks m l lg .lpt [0, 1, 2, 3] = [0, 2, 3, 1] := by decide +kernel
example : sortTasks m l lg .lpt [2, 1, 0, 3] = [2, 0, 3, 1] := by decide +kernel
example : sortTasks m l lg .fifo [0, 1, 2, 3] = [1, 3, 0, 2] := by decide +kernel
example : sortTasks m l lg .lrpt [0, 1, 2, 3] = [0, 1, 3, 2] := by decide +kernel
example : sortTasks m l lg .srpt [0, 1, 2, 3] = [2, 0, 1, 3] := by decide +kernel
example : sortTasks m l lg .lwrpt [3, 1, 2, 0] = [3, 1, 2, 0] := by decide +kernel
example : sortTasks m l lg .swrpt [3, 1, 2, 0] = [3, 1, 2, 0] := by decide +kernel

-- workers: main workplace = target first, then no main workplace, then by skill sum
example : sortWorkers m .mw 7 (some 0) [0, 1, 2, 3] = [0, 3, 1, 2] := by decide +kernel
example : sortWorkers m .ssp 7 (some 0) [0, 1, 2, 3] = [0, 3, 2, 1] := by decide +kernel
example : sortWorkers m .vc 7 (some 0) [0, 1, 2, 3] = [3, 1, 0, 2] := by decide +kernel
-- highest skill first, the worker without an entry for task name 7 last, ties (0,3) broken by
-- the main-workplace flags, then stably
example : sortWorkers m .hsv 7 (some 1) [0, 1, 2, 3] = [2, 0, 3, 1] := by decide +kernel
example : sortWorkers m .hsv 7 (some 1) [3, 1, 2, 0] = [2, 3, 0, 1] := by decide +kernel

-- facilities
example : sortFacs m .ssp 7 [2, 0, 1, 3] = [0, 3, 2, 1] := by decide +kernel
example : sortFacs m .vc 7 [0, 1, 2, 3] = [1, 3, 0, 2] := by decide +kernel
example : sortFacs m .hsv 7 [0, 1, 2, 3] = [2, 0, 3, 1] := by decide +kernel
example : sortFacs m .hsv 7 [3, 1, 2, 0] = [2, 3, 0, 1] := by decide +kernel
example : sortFacs m .mw 7 [3, 1, 2, 0] = [3, 1, 2, 0] := by decide +kernel

-- workplaces: free space 2,2,2,3 (workplace 1 holds a component of size 1); skill sums 2,5,2,0
example : sortWps m l .fss 7 [0, 1, 2, 3] = [3, 0, 1, 2] := by decide +kernel
example : sortWps m l .ssp 7 [0, 1, 2, 3] = [1, 0, 2, 3] := by decide +kernel
example : sortWps m l .ssp 7 [3, 2, 1, 0] = [1, 2, 0, 3] := by decide +kernel

-- the packaged property on a concrete instance (the statement is not vacuous)
example : SortedDesc (fun t => (m.task t).work) [0, 1, 2, 3] [0, 2, 3, 1] := by
  have h := C11_tasks m l lg .lpt [0, 1, 2, 3]
  have e : sortTasks m l lg .lpt [0, 1, 2, 3] = [0, 2, 3, 1] := by decide +kernel
  simpa only [e] using h

end C11Example

end PDesy

#print axioms PDesy.C11_tasks
#print axioms PDesy.C11_tasks_generic
#print axioms PDesy.C11_workers
#print axioms PDesy.C11_workers_hsv_desc
#print axioms PDesy.C11_workers_generic
#print axioms PDesy.C11_facilities
#print axioms PDesy.C11_facilities_hsv_desc
#print axioms PDesy.C11_facilities_generic
#print axioms PDesy.C11_workplaces
#print axioms PDesy.C11_workplaces_generic
#print axioms PDesy.Sort.sortBy_perm
#print axioms PDesy.Sort.sortBy_pairwise
#print axioms PDesy.Sort.sortBy_filter_equiv
#print axioms PDesy.Sort.eq_sortBy_of_perm_pairwise_stable
#print axioms PDesy.Sort.StableSortedBy.unique
#print axioms PDesy.Sort.sortBy_true
