/-
  PDesy.Props.C05LiveGate — liveness half of C05 ("every feasible project completes") WITH
  finish-to-finish and start-to-finish links.

  PROPERTY (C05, liveness):
    a project whose dependency graph is acyclic and in which every non-automatic unfinished task
    has an eligible worker who is eventually present (for finish-to-finish and start-to-finish
    links: a worker of its own) completes successfully whenever `max_time` exceeds the total
    sequential work bound.

  `Props/C05Live.lean` proves it for FS/SS links only (fragment L) and refutes it for FF/SF links
  with a SHARED worker: a task that has done its work but waits at its finish gate stays WORKING
  and keeps its workers.  This file proves the FF/SF case under the property's own premise.

  WHAT IS PROVED.  Fragment LG (`LiveG.FragLG m rk R`) = fragment L with ALL FOUR link kinds:
    * no task needs a facility; automatic tasks are bound to no component and have `autoRate > 0`;
    * the graph over all links (FS, SS, FF, SF) is acyclic with in-range links (rank function `rk`);
    * every non-automatic task `t` has an eligible worker `w` of the organisation
      (`Elig.WorkerElig`: skill > 0, team targets `t`, in `t`'s fixed worker list if there is one)
      among the relied-upon workers (`R w = true`) such that
            every OTHER task `w` is eligible for has no FF/SF input.
      A worker of `t`'s own (eligible for no other task) satisfies this; so does ANY eligible
      worker when no task has an FF/SF input (then LG = L, `FragL.toLG`).  Note that this is
      weaker than "a worker of its own for every task with an FF/SF input": the worker of a gated
      task may also serve tasks without finish gate, and own workers may be individually absent;
    * solo workers only when every worker is relied upon (as in L).
  Conclusion (the SAME bound as for fragment L — waiting at a finish gate costs nothing extra,
  because while one task waits some rank-minimal unfinished task advances):
      with `init_state = True`, if `time₀ + bound m p R ≤ max_time` the run returns SUCCESS, every
      task FINISHED, at a time `≤ time₀ + bound m p R`,
      bound m p R = |p.absence| + Σ_{w < nW, R w} |absence w| + Σ_{t < nT} (3 + ⌈rem₀ t / δ_t⌉).

    `C05_live_gates_measure`    the measure of `C05_live_measure` still decreases
    `C05_live_gates_loop`       the loop, from any state satisfying the invariants
    `C05_live_gates_relied`     `simulate`, fragment LG, any `R`
    `C05_live_gates_general`    `simulate`, fragment LG, every worker relied upon, `log_info = True`
    `C05_live_gates`            the mixed fragment `LiveG.GatesOwn`: a worker of its own for every
                                non-automatic task with an FF/SF input; for the other tasks the
                                premise of L with a worker that is eligible for no gated task
    `C05_live_gates_dedicated`  `LiveG.DedG`: a never-absent worker of its own for every
                                non-automatic task; bound `|p.absence| + Σ_t (3 + ⌈rem₀/δ⌉)`
    `C05_live_gates_extends_L`  fragment L is a sub-fragment of LG (so `C05_live_relied` follows)

  A PREMISE THAT CANNOT BE DROPPED (`C05_live_gates_counterexample_shared`): "every task with an
  FF/SF input has a worker of its own, every other task has an eligible never-absent worker" is
  NOT enough.  The gated task may ALSO be eligible for the shared worker the other task relies
  upon, take it, and hold it at its finish gate for ever.  Hence the clause "eligible for no
  (other) task with an FF/SF input" in `served`.

  Still outside (see `C05Live.lean`): facilities / components, automatic tasks bound to a
  component, links outside `0 … nT-1`, cyclic graphs, `autoRate ≤ 0`.
-/
import PDesy.Lemmas.LiveGate
import PDesy.Props.C05Live

namespace PDesy
open Live_ LiveG Elig

/-! ### the decreasing measure -/

/-- **C05 (liveness with finish gates, measure).**  In fragment LG (all four link kinds), from a
state satisfying the invariants of C03/C04 (`Live_.Inv`), an iteration of the loop that does not
exit through SUCCESS decreases the natural number
`mu = (project absence steps to come) + (absence steps to come of the relied-upon workers)
      + Σ_t (lifecycle stages ahead of t + ⌈rem t / δ_t⌉)` and preserves the invariants.  (A task
waiting at a closed finish gate contributes the constant 1; the decrease comes from a rank-minimal
unfinished task, whose gates are all open, or from the task holding its worker.) -/
theorem C05_live_gates_measure (m : Model) (rk : Nat → Nat) (R : Nat → Bool) (p : Params)
    (hF : FragLG m rk R) (s : St) (hI : Inv m s.live)
    (hnf : allFinished m (updated m s).live = false) :
    mu m p R (iter m p s) + 1 ≤ mu m p R s ∧ Inv m (iter m p s).live :=
  ⟨mu_iter_lt_g hF hI hnf, Inv_iter p hI⟩

/-! ### the loop -/

/-- **C05 (liveness with finish gates, loop level).**  In fragment LG, start the loop from a state
`s` that satisfies the invariants, with `n ≥ mu s` steps left before `max_time`
(`s.time + n ≤ max_time`) and enough fuel: the loop returns SUCCESS, at a time `≤ s.time + n`,
with every task FINISHED. -/
theorem C05_live_gates_loop (m : Model) (rk : Nat → Nat) (R : Nat → Bool) (p : Params)
    (hF : FragLG m rk R) (n fuel : Nat) (s : St) (hI : Inv m s.live) (hmu : mu m p R s ≤ n)
    (htime : s.time + n ≤ p.maxTime) (hfuel : n + 1 ≤ fuel) :
    (loop m p fuel s).status = .success ∧ (loop m p fuel s).time ≤ s.time + n ∧
    allFinished m (loop m p fuel s).live = true :=
  loop_success_g hF n fuel s hI hmu htime hfuel

/-! ### `simulate` -/

/-- **C05 (liveness with finish gates, any set of relied-upon workers).**  In fragment LG
(`FragLG m rk R`: FS, SS, FF and SF links; the relied-upon worker of a task is eligible for no
other task that has an FF/SF input), a run with `init_state = True` whose `max_time` leaves room
for `bound m p R` steps after the time the loop is entered returns SUCCESS, every task FINISHED, at
most `bound m p R` steps later. -/
theorem C05_live_gates_relied (m : Model) (rk : Nat → Nat) (R : Nat → Bool) (p : Params) (s : St)
    (hF : FragLG m rk R) (hs : p.initState = true)
    (hb : (enter m p s).time + bound m p R ≤ p.maxTime) :
    (simulate m p s).status = .success ∧
    (simulate m p s).time ≤ (enter m p s).time + bound m p R ∧
    allFinished m (simulate m p s).live = true :=
  simulate_success_g hF s hs hb

/-- **C05 (liveness with finish gates, fragment LG).**  Every feasible project of fragment LG
completes: no facility, automatic tasks without component and with positive rate, dependencies of
all four kinds forming an acyclic in-range graph, and every non-automatic task has an eligible
worker of the organisation that is eligible for no other task with an FF/SF input.  Then a run with
`init_state = log_info = True` and
`max_time ≥ |p.absence| + Σ_w |absence w| + Σ_t (3 + ⌈rem₀ t / δ_t⌉)` returns SUCCESS with every
task FINISHED, at a time no later than that bound.  Workers may be solo and individually absent. -/
theorem C05_live_gates_general (m : Model) (rk : Nat → Nat) (p : Params) (s : St)
    (hF : FragLG m rk (fun _ => true)) (hs : p.initState = true) (hl : p.initLog = true)
    (hb : bound m p (fun _ => true) ≤ p.maxTime) :
    (simulate m p s).status = .success ∧
    (simulate m p s).time ≤ bound m p (fun _ => true) ∧
    allFinished m (simulate m p s).live = true := by
  have h0 : (enter m p s).time = 0 := enter_time_zero s hl
  have := C05_live_gates_relied m rk (fun _ => true) p s hF hs (by rw [h0]; omega)
  rw [h0] at this
  simpa using this

/-- **C05 (liveness, FF/SF links with a worker of one's own).**  Mixed fragment
`GatesOwn m rk R d`: no facility, automatic tasks without component and with positive rate, an
acyclic in-range graph over FS, SS, FF and SF links, and
  * every non-automatic task `t` that has an FF or SF input has a worker `d t` of its own: of the
    organisation, relied upon, eligible for `t`, eligible for no other task;
  * every non-automatic task without FF/SF input has, as in fragment L, an eligible relied-upon
    worker, which may be shared with other tasks without FF/SF input (but is eligible for no task
    with an FF/SF input);
  * solo workers only when every worker is relied upon.
Then a run with `init_state = log_info = True` and `max_time ≥ bound m p R` (project absence steps
+ absence steps of the relied-upon workers + per task 3 + `⌈rem₀ / δ⌉`) returns SUCCESS with every
task FINISHED at a time `≤ bound m p R`. -/
theorem C05_live_gates (m : Model) (rk : Nat → Nat) (R : Nat → Bool) (d : Nat → Nat) (p : Params)
    (s : St) (hG : GatesOwn m rk R d) (hs : p.initState = true) (hl : p.initLog = true)
    (hb : bound m p R ≤ p.maxTime) :
    (simulate m p s).status = .success ∧
    (simulate m p s).time ≤ bound m p R ∧
    allFinished m (simulate m p s).live = true := by
  have h0 : (enter m p s).time = 0 := enter_time_zero s hl
  have := C05_live_gates_relied m rk R p s hG.toLG hs (by rw [h0]; omega)
  rw [h0] at this
  simpa using this

/-- **C05 (liveness, all link kinds, dedicated workers).**  Fragment `DedG m rk d`: no facility,
automatic tasks without component and with positive rate, an acyclic in-range graph over FS, SS,
FF and SF links, no solo worker, and every non-automatic task `t` has a worker `d t` of its own —
eligible for `t`, never individually absent, eligible for no other task.  Then
`max_time ≥ |p.absence| + Σ_t (3 + ⌈rem₀ t / δ_t⌉)` gives SUCCESS with every task FINISHED within
that bound. -/
theorem C05_live_gates_dedicated (m : Model) (rk d : Nat → Nat) (p : Params) (s : St)
    (hD : DedG m rk d) (hs : p.initState = true) (hl : p.initLog = true)
    (hb : seqBound m p ≤ p.maxTime) :
    (simulate m p s).status = .success ∧
    (simulate m p s).time ≤ seqBound m p ∧
    allFinished m (simulate m p s).live = true := by
  have h0 : (enter m p s).time = 0 := enter_time_zero s hl
  have := C05_live_gates_relied m rk (neverAbsent m) p s hD.toLG hs
    (by rw [h0, bound_neverAbsent]; omega)
  rw [h0, bound_neverAbsent] at this
  simpa using this

/-- fragment L (FS/SS links only) is the sub-fragment of LG without FF/SF links: the statements
above contain those of `C05Live.lean` -/
theorem C05_live_gates_extends_L (m : Model) (rk : Nat → Nat) (R : Nat → Bool)
    (hF : FragL m rk R) : FragLG m rk R := hF.toLG

/-! ### the hypotheses are satisfiable -/

namespace C05LiveGateEx

/-- four tasks, every non-automatic one with a worker of its own (worker `t` for task `t`):
0 (work 3) —FF→ 1 (work 1): task 1 has done its work after one step and waits, WORKING, until
task 0 is FINISHED;  0 —FS→ 3 (automatic, work 1, rate 1/2) —SF→ 2 (work 1, skill 1/2): task 2
has done its work after two steps and waits until task 3 has started, which needs task 0 -/
def mGD : Model where
  nT := 4
  nW := 3
  nF := 0
  nTeam := 3
  nWp := 0
  nC := 0
  task := fun t =>
    if t = 0 then { name := 0, work := 3, outputs := [(1, .ff), (3, .fs)] }
    else if t = 1 then { name := 1, work := 1, inputs := [(0, .ff)] }
    else if t = 2 then { name := 2, work := 1, inputs := [(3, .sf)] }
    else { name := 3, work := 1, isAuto := true, autoRate := 1/2, inputs := [(0, .fs)],
           outputs := [(2, .sf)] }
  worker := fun w =>
    if w = 0 then { team := 0, skills := [(0, 1)] }
    else if w = 1 then { team := 1, skills := [(1, 1)] }
    else { team := 2, skills := [(2, 1/2)] }
  fac := fun _ => {}
  team := fun tm => if tm = 0 then { workers := [0], targets := [0] }
    else if tm = 1 then { workers := [1], targets := [1] } else { workers := [2], targets := [2] }
  wp := fun _ => {}
  comp := fun _ => {}

/-- ranks: 0 ↦ 0, 1 ↦ 1, 3 ↦ 1, 2 ↦ 2 -/
def rkG (t : Nat) : Nat := if t = 0 then 0 else if t = 2 then 2 else 1

def pG : Params := { maxTime := 25 }

theorem mGD_ded : DedG mGD rkG id where
  noFac := by decide +kernel
  autoNoComp := by decide +kernel
  graph := by decide +kernel
  autoRate := by decide +kernel
  noSolo := by decide +kernel
  ded := by decide +kernel
  excl := by decide +kernel

/-- the same project plus task 4 (work 2, no link) which SHARES worker 0 with task 0 (both without
FF/SF input); the own worker 1 of the gated task 1 is absent at steps 0 and 1 -/
def mGM : Model where
  nT := 5
  nW := 3
  nF := 0
  nTeam := 3
  nWp := 0
  nC := 0
  task := fun t =>
    if t = 0 then { name := 0, work := 3, outputs := [(1, .ff), (3, .fs)] }
    else if t = 1 then { name := 1, work := 1, inputs := [(0, .ff)] }
    else if t = 2 then { name := 2, work := 1, inputs := [(3, .sf)] }
    else if t = 3 then { name := 3, work := 1, isAuto := true, autoRate := 1/2,
                         inputs := [(0, .fs)], outputs := [(2, .sf)] }
    else { name := 4, work := 2 }
  worker := fun w =>
    if w = 0 then { team := 0, skills := [(0, 1), (4, 1)] }
    else if w = 1 then { team := 1, skills := [(1, 1)], absence := [0, 1] }
    else { team := 2, skills := [(2, 1/2)] }
  fac := fun _ => {}
  team := fun tm => if tm = 0 then { workers := [0], targets := [0, 4] }
    else if tm = 1 then { workers := [1], targets := [1] } else { workers := [2], targets := [2] }
  wp := fun _ => {}
  comp := fun _ => {}

def pM : Params := { absence := [2], maxTime := 30 }

-- (the nested bounded quantifiers of `own` / `served` need a larger instance-size limit for `Decidable`)
set_option synthInstance.maxSize 512 in
theorem mGM_own : GatesOwn mGM rkG (fun _ => true) id where
  noFac := by decide +kernel
  autoNoComp := by decide +kernel
  graph := by decide +kernel
  autoRate := by decide +kernel
  solo := by decide +kernel
  own := by decide +kernel
  served := by decide +kernel

end C05LiveGateEx

/-- premises of `C05_live_gates_dedicated` on a project with an FF and an SF link: the fragment,
the flags, the links are really there, the bound is (3+3) + (3+1) + (3+2) + (3+2) = 20 ≤ 25, and
the run indeed succeeds (at time 5) -/
example : DedG C05LiveGateEx.mGD C05LiveGateEx.rkG id ∧
    C05LiveGateEx.pG.initState = true ∧ C05LiveGateEx.pG.initLog = true ∧
    (0, Dep.ff) ∈ (C05LiveGateEx.mGD.task 1).inputs ∧
    (3, Dep.sf) ∈ (C05LiveGateEx.mGD.task 2).inputs ∧
    seqBound C05LiveGateEx.mGD C05LiveGateEx.pG = 20 ∧
    seqBound C05LiveGateEx.mGD C05LiveGateEx.pG ≤ C05LiveGateEx.pG.maxTime ∧
    (simulate C05LiveGateEx.mGD C05LiveGateEx.pG St.fresh).status = .success ∧
    (simulate C05LiveGateEx.mGD C05LiveGateEx.pG St.fresh).time = 5 :=
  ⟨C05LiveGateEx.mGD_ded, rfl, rfl, by decide +kernel, by decide +kernel, by decide +kernel,
   by decide +kernel, by decide +kernel, by decide +kernel⟩

/-- … and what the theorem gives for it -/
example : (simulate C05LiveGateEx.mGD C05LiveGateEx.pG St.fresh).status = .success ∧
    (simulate C05LiveGateEx.mGD C05LiveGateEx.pG St.fresh).time ≤ 20 := by
  have h := C05_live_gates_dedicated C05LiveGateEx.mGD C05LiveGateEx.rkG id C05LiveGateEx.pG
    St.fresh C05LiveGateEx.mGD_ded rfl rfl (by decide +kernel)
  have e : seqBound C05LiveGateEx.mGD C05LiveGateEx.pG = 20 := by decide +kernel
  rw [e] at h
  exact ⟨h.1, h.2.1⟩

/-- the finish gates really bind in that run: task 1 is WORKING with remaining work 0, −1, −2
while it waits for task 0 (FF), task 2 is WORKING with remaining work 0, −1/2, −1 while it waits
for task 3 to start (SF); both keep their workers all the time -/
example : ((runTrace C05LiveGateEx.mGD C05LiveGateEx.pG St.fresh).map fun s =>
      (s.time, s.live.tstate 0, s.live.tstate 1, s.live.tstate 2, s.live.tstate 3)) =
    [(1, .working, .working, .working, .none), (2, .working, .working, .working, .none),
     (3, .working, .working, .working, .none), (4, .finished, .finished, .working, .working),
     (5, .finished, .finished, .finished, .working)] ∧
    ((runTrace C05LiveGateEx.mGD C05LiveGateEx.pG St.fresh).map fun s =>
      (s.live.rem 1, s.live.rem 2, s.live.allocW 1, s.live.allocW 2)) =
    [(0, 1/2, [1], [2]), (-1, 0, [1], [2]), (-2, -1/2, [1], [2]), (0, -1, [], [2]),
     (0, 0, [], [])] := by
  decide +kernel

/-- premises of `C05_live_gates` (and of `C05_live_gates_general`, `C05_live_gates_relied`) on the
mixed project: own workers for the gated tasks 1 and 2 (worker 1 individually absent at steps 0
and 1), worker 0 shared by the ungated tasks 0 and 4, a project absence step; the bound is
1 + 2 + (3+3) + (3+1) + (3+2) + (3+2) + (3+2) = 28 ≤ 30, and the run succeeds (at time 6) -/
example : GatesOwn C05LiveGateEx.mGM C05LiveGateEx.rkG (fun _ => true) id ∧
    FragLG C05LiveGateEx.mGM C05LiveGateEx.rkG (fun _ => true) ∧
    WorkerElig C05LiveGateEx.mGM 0 0 ∧ WorkerElig C05LiveGateEx.mGM 4 0 ∧
    bound C05LiveGateEx.mGM C05LiveGateEx.pM (fun _ => true) = 28 ∧
    bound C05LiveGateEx.mGM C05LiveGateEx.pM (fun _ => true) ≤ C05LiveGateEx.pM.maxTime ∧
    (simulate C05LiveGateEx.mGM C05LiveGateEx.pM St.fresh).status = .success ∧
    (simulate C05LiveGateEx.mGM C05LiveGateEx.pM St.fresh).time = 6 :=
  ⟨C05LiveGateEx.mGM_own, C05LiveGateEx.mGM_own.toLG, by decide +kernel, by decide +kernel,
   by decide +kernel, by decide +kernel, by decide +kernel, by decide +kernel⟩

/-- … and what the theorem gives for it -/
example : (simulate C05LiveGateEx.mGM C05LiveGateEx.pM St.fresh).status = .success :=
  (C05_live_gates C05LiveGateEx.mGM C05LiveGateEx.rkG (fun _ => true) id C05LiveGateEx.pM St.fresh
    C05LiveGateEx.mGM_own rfl rfl (by decide +kernel)).1

/-- premises of `C05_live_gates_measure` / `C05_live_gates_loop` at the state the run enters its
loop with: invariants, an unfinished task; the measure there is within the bound -/
example : Inv C05LiveGateEx.mGD (enter C05LiveGateEx.mGD C05LiveGateEx.pG St.fresh).live ∧
    allFinished C05LiveGateEx.mGD
      (updated C05LiveGateEx.mGD (enter C05LiveGateEx.mGD C05LiveGateEx.pG St.fresh)).live = false ∧
    mu C05LiveGateEx.mGD C05LiveGateEx.pG (neverAbsent C05LiveGateEx.mGD)
      (enter C05LiveGateEx.mGD C05LiveGateEx.pG St.fresh) ≤ 20 :=
  ⟨C05_live_inv_enter _ _ _ rfl, by decide +kernel, by decide +kernel⟩

/-- premises of `C05_live_gates_extends_L`: the shared-worker project of `C05Live.lean` -/
example : FragLG C05LiveEx.mL id (fun _ => true) :=
  C05_live_gates_extends_L _ _ _ C05LiveEx.mL_frag

/-! ### the clause "eligible for no other task with an FF/SF input" is needed -/

namespace C05LiveGateEx

/-- task 1 (work 1) must FINISH after task 0 (work 5) has finished (FF).  Worker 1 is task 1's own
(no skill for task 0); worker 0 can do both tasks and is the only one who can do task 0 -/
def mSh : Model where
  nT := 2
  nW := 2
  nF := 0
  nTeam := 1
  nWp := 0
  nC := 0
  task := fun t =>
    if t = 0 then { name := 0, work := 5, outputs := [(1, .ff)] }
    else { name := 1, work := 1, inputs := [(0, .ff)] }
  worker := fun w =>
    if w = 0 then { team := 0, skills := [(0, 1), (1, 1)] } else { team := 0, skills := [(1, 1)] }
  fac := fun _ => {}
  team := fun _ => { workers := [0, 1], targets := [0, 1] }
  wp := fun _ => {}
  comp := fun _ => {}

end C05LiveGateEx

/-- **Counterexample: a worker of its own for the gated task is not enough when the other tasks
only keep the premise of fragment L.**  In `mSh` the graph is acyclic, nobody is ever absent, the
only task with an FF/SF input (task 1) has a worker of its own (worker 1: eligible for task 1,
for no other task), and the other task (task 0, no FF/SF input) has an eligible worker (worker 0)
— but worker 0 is also eligible for the gated task 1.  Under the SPT rule task 1 is served first
and takes both workers; after one step it has no work left, waits for task 0 (FF), stays WORKING
and keeps both workers (remaining work −23 at time 12), so task 0 never starts: FAILURE, whatever
`max_time` (here 12; the sequential work is 6).  With the default TSLACK rule the run succeeds.
So in `FragLG.served` / `GatesOwn.served` the worker relied upon for a task must be eligible for
no other task that has an FF/SF input.  Replayed on the real pDESy (`/repo`): SPT gives status
FAILURE at time 12, A READY, B WORKING with remaining work −23.0 and workers [w1, w0]; TSLACK
gives SUCCESS at time 5. -/
theorem C05_live_gates_counterexample_shared :
    (∀ t, t < C05LiveGateEx.mSh.nT → ∀ e ∈ (C05LiveGateEx.mSh.task t).inputs, e.1 < t) ∧
    (∀ t, t < C05LiveGateEx.mSh.nT → (C05LiveGateEx.mSh.task t).needFac = false ∧
      (C05LiveGateEx.mSh.task t).isAuto = false) ∧
    (∀ w, w < C05LiveGateEx.mSh.nW → (C05LiveGateEx.mSh.worker w).absence = [] ∧
      (C05LiveGateEx.mSh.worker w).solo = false) ∧
    -- the gated task 1 has a worker of its own
    (¬ Auto.NoFinDeps C05LiveGateEx.mSh 1 ∧ WorkerElig C05LiveGateEx.mSh 1 1 ∧
      ∀ t', t' < C05LiveGateEx.mSh.nT → t' ≠ 1 → ¬ WorkerElig C05LiveGateEx.mSh t' 1) ∧
    -- the ungated task 0 has an eligible worker (premise of fragment L)
    (Auto.NoFinDeps C05LiveGateEx.mSh 0 ∧ WorkerElig C05LiveGateEx.mSh 0 0) ∧
    -- … which is eligible for the gated task too
    WorkerElig C05LiveGateEx.mSh 1 0 ∧
    (simulate C05LiveGateEx.mSh { rule := .spt, maxTime := 12 } St.fresh).status = .failure ∧
    (simulate C05LiveGateEx.mSh { rule := .spt, maxTime := 12 } St.fresh).live.tstate 0 = .ready ∧
    (simulate C05LiveGateEx.mSh { rule := .spt, maxTime := 12 } St.fresh).live.tstate 1 = .working ∧
    (simulate C05LiveGateEx.mSh { rule := .spt, maxTime := 12 } St.fresh).live.rem 1 = -23 ∧
    (simulate C05LiveGateEx.mSh { rule := .spt, maxTime := 12 } St.fresh).live.allocW 1 = [1, 0] ∧
    (simulate C05LiveGateEx.mSh { rule := .tslack, maxTime := 12 } St.fresh).status = .success := by
  decide +kernel

end PDesy

#print axioms PDesy.C05_live_gates_measure
#print axioms PDesy.C05_live_gates_loop
#print axioms PDesy.C05_live_gates_relied
#print axioms PDesy.C05_live_gates_general
#print axioms PDesy.C05_live_gates
#print axioms PDesy.C05_live_gates_dedicated
#print axioms PDesy.C05_live_gates_extends_L
#print axioms PDesy.C05_live_gates_counterexample_shared
