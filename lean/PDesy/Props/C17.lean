/-
  PDesy.Props.C17 — "Backward simulation leaves the model intact and respects dependencies".

  `backward_simulate` reverses every dependency list (`revDeps`), optionally appends one
  automatic helper task in front of every reversed head whose due time is below the maximum
  (`withHelpers`), runs the ordinary forward `simulate` on that model (`backwardModel m due`),
  and in its `finally` block removes the helpers and reverses the dependency lists again
  (`restored m due = revDeps (dropHelpers m.nT (backwardModel m due))`).

  * `GraphInRange m` (Lemmas/BackwardLemmas): every link of every task `< m.nT` points to a
    task `< m.nT`.
  * `EdgeSym m`: `(a, d) ∈ inputs b ↔ (b, d) ∈ outputs a` — the two lists describe the same
    edges (pDESy keeps them in step through `append_input_task` / `add_input_task`).
  * `Aligned m s` (Lemmas/Defs): every per-step log of `s` has exactly `s.time` entries.

  Parts: (1) `revDeps` is an involution; (2) the structure is restored exactly, helpers gone;
  (3) the logs stay aligned; (4) the finish-to-start order in the backward and in the
  time-reversed logs; (5) a concrete model on which a helper really is added.
-/
import PDesy.Lemmas.BackwardLemmas
import PDesy.Model.Ser

namespace PDesy
open PDesy.Bwd PDesy.Lifecycle

/-! ### (5, first) the concrete model used by the `example`s -/

namespace C17Ex

/-- Three tasks: `0` is the finish-to-start predecessor of `1` and of `2`; the two tails have
due times 5 and 3, so the backward run with `considering_due_time_of_tail_tasks` puts a helper
(work 5 − 3 = 2) in front of task 2.  One team of two workers who can do everything; two
workplaces linked `0 → 1`. -/
def exB : Model where
  nT := 3
  nW := 2
  nF := 0
  nTeam := 1
  nWp := 2
  nC := 0
  task := fun t =>
    match t with
    | 0 => { name := 0, work := 2, outputs := [(1, .fs), (2, .fs)] }
    | 1 => { name := 1, work := 1, inputs := [(0, .fs)], due := 5 }
    | 2 => { name := 2, work := 2, inputs := [(0, .fs)], due := 3 }
    | _ => default
  worker := fun _ => { team := 0, skills := [(0, 1), (1, 1), (2, 1)] }
  fac := fun _ => {}
  team := fun _ => { workers := [0, 1], targets := [0, 1, 2] }
  wp := fun q => match q with | 0 => { outputs := [1] } | 1 => { inputs := [0] } | _ => default
  comp := fun _ => {}

theorem exB_inRange : GraphInRange exB := by decide +kernel

theorem exB_default : ∀ t, exB.nT ≤ t → exB.task t = default := by
  intro t ht
  have : 3 ≤ t := ht
  match t, this with
  | t + 3, _ => rfl

theorem exB_sym : EdgeSym exB := by
  intro a b d ha hb
  have ha' : a < 3 := ha
  have hb' : b < 3 := hb
  match a, b, ha', hb' with
  | 0, 0, _, _ | 0, 1, _, _ | 0, 2, _, _ | 1, 0, _, _ | 1, 1, _, _ | 1, 2, _, _
  | 2, 0, _, _ | 2, 1, _, _ | 2, 2, _, _ => cases d <;> decide +kernel

/-- the backward model of `exB` with due times really has a helper: task 3, automatic, work 2,
linked finish-to-start in front of task 2, at the END of task 2's (reversed, empty) input list -/
example : helperTargets (revDeps exB) = [2] ∧ (backwardModel exB true).nT = 4 ∧
    ((backwardModel exB true).task 3).isAuto = true ∧ ((backwardModel exB true).task 3).work = 2 ∧
    ((backwardModel exB true).task 3).outputs = [(2, .fs)] ∧
    ((backwardModel exB true).task 2).inputs = [(3, .fs)] ∧
    ((backwardModel exB true).task 0).inputs = [(1, .fs), (2, .fs)] ∧
    (backwardModel exB false).nT = 3 := by
  decide +kernel

end C17Ex

open C17Ex

/-! ### (1) reversing twice is the identity -/

/-- **C17 (reverse twice).**  `reverse_dependencies` applied twice gives back the very same
model: every task's input and output lists and every workplace's input and output lists are
swapped back (same elements, same order), nothing else is touched. -/
theorem C17_revDeps_revDeps (m : Model) : revDeps (revDeps m) = m := revDeps_revDeps m

example : ((revDeps exB).task 0).inputs = [(1, .fs), (2, .fs)] ∧ ((revDeps exB).wp 0).inputs = [1] := by
  decide +kernel

/-! ### (2) the structure is restored -/

/-- **C17 (what the helpers change).**  The model the inner run works on differs from the
reversed model only by extra tasks at indices `≥ m.nT` and by finish-to-start links to such
tasks appended at the END of the input lists of some old tasks (`Extends`, spelled out here
for the fields that matter): sizes other than `nT`, workers, facilities, teams, workplaces,
components are those of `m`; every old task keeps its reversed input list as a prefix of the
new one, and the appended entries all point to helpers. -/
theorem C17_helpers_only_append (m : Model) (due : Bool) :
    m.nT ≤ (backwardModel m due).nT ∧
    (∀ t, t < m.nT → ∃ hs : List (Nat × Dep), (∀ e ∈ hs, m.nT ≤ e.1 ∧ e.2 = .fs) ∧
      ((backwardModel m due).task t).inputs = (m.task t).outputs ++ hs ∧
      ((backwardModel m due).task t).outputs = (m.task t).inputs ∧
      ((backwardModel m due).task t).prog = (m.task t).prog) ∧
    (backwardModel m due).wp = (revDeps m).wp := by
  have E := Extends.backwardModel m due
  refine ⟨E.nT, ?_, E.wp⟩
  intro t ht
  obtain ⟨hs, hhs, htask⟩ := E.task t ht
  exact ⟨hs, hhs, by rw [htask]; rfl, by rw [htask]; rfl, by rw [htask]; rfl⟩

/-- **C17 (restoration).**  `restored m due` is the static structure after the `finally` block
of `backward_simulate`.  It is computed from the model alone: Python executes the `finally`
block whether the inner `simulate` returned or raised, and the block does not look at the
dynamic state — which is exactly why an exception at any step of the inner run cannot prevent
the restoration.  If the links of `m` stay inside its task list, then after the block
* the workflow has `m.nT` tasks again (no helper task is left),
* every task is the task it was: in particular its predecessor (`inputs`) and successor
  (`outputs`) lists hold the same elements in the same order, with no link to a helper left,
* every workplace is the workplace it was (same `inputs` / `outputs` lists, same order),
* and every other component of the model is unchanged. -/
theorem C17_restored (m : Model) (h : GraphInRange m) (due : Bool) :
    (restored m due).nT = m.nT ∧
    (∀ t, t < m.nT → (restored m due).task t = m.task t) ∧
    (restored m due).wp = m.wp ∧
    (restored m due).nW = m.nW ∧ (restored m due).nF = m.nF ∧ (restored m due).nTeam = m.nTeam ∧
    (restored m due).nWp = m.nWp ∧ (restored m due).nC = m.nC ∧
    (restored m due).worker = m.worker ∧ (restored m due).fac = m.fac ∧
    (restored m due).team = m.team ∧ (restored m due).comp = m.comp := by
  have E := Extends.backwardModel m due
  refine ⟨rfl, ?_, ?_, E.nW, E.nF, E.nTeam, E.nWp, E.nC, E.worker, E.fac, E.team, E.comp⟩
  · intro t ht
    have h1 : (dropHelpers m.nT (backwardModel m due)).task t = (revDeps m).task t :=
      E.dropHelpers_task (fun t ht => (h.rev t ht).1) t ht
    show ((revDeps (dropHelpers m.nT (backwardModel m due))).task t) = m.task t
    simp only [revDeps, h1]
  · show (revDeps (dropHelpers m.nT (backwardModel m due))).wp = m.wp
    have h1 : (dropHelpers m.nT (backwardModel m due)).wp = (revDeps m).wp := E.wp
    simp only [revDeps, h1]

example : GraphInRange exB := exB_inRange

/-- the dependency lists in the usual words -/
theorem C17_restored_lists (m : Model) (h : GraphInRange m) (due : Bool) :
    (restored m due).nT = m.nT ∧
    (∀ t, t < m.nT → ((restored m due).task t).inputs = (m.task t).inputs ∧
      ((restored m due).task t).outputs = (m.task t).outputs) ∧
    (∀ q, ((restored m due).wp q).inputs = (m.wp q).inputs ∧
      ((restored m due).wp q).outputs = (m.wp q).outputs) := by
  obtain ⟨h1, h2, h3, _⟩ := C17_restored m h due
  exact ⟨h1, fun t ht => by rw [h2 t ht]; exact ⟨rfl, rfl⟩, fun q => by rw [h3]; exact ⟨rfl, rfl⟩⟩

example : GraphInRange exB := exB_inRange

/-- **C17 (restoration, as an equation).**  If moreover the model carries default data outside
its task range (indices `≥ m.nT` stand for no object), the restored model *is* `m`. -/
theorem C17_restored_eq (m : Model) (h : GraphInRange m)
    (hdef : ∀ t, m.nT ≤ t → m.task t = default) (due : Bool) : restored m due = m := by
  have E := Extends.backwardModel m due
  have h1 : dropHelpers m.nT (backwardModel m due) = revDeps m :=
    E.dropHelpers_eq (fun t ht => (h.rev t ht).1) (fun t ht => by
      show (revDeps m).task t = default
      simp only [revDeps, hdef t ht]; rfl)
  show revDeps (dropHelpers m.nT (backwardModel m due)) = m
  rw [h1]; rfl

example : GraphInRange exB ∧ ∀ t, exB.nT ≤ t → exB.task t = default := ⟨exB_inRange, exB_default⟩

/-- the restoration evaluated on the example (serialised, since `Model` contains functions):
with and without helpers the result is the model itself, although the model the inner run
used was a different one -/
example : putModel (restored exB true) = putModel exB ∧ putModel (restored exB false) = putModel exB ∧
    putModel (backwardModel exB true) ≠ putModel (revDeps exB) ∧
    putModel (revDeps exB) ≠ putModel exB := by
  decide +kernel

/-! ### (3) the logs stay aligned -/

/-- **C17 (one entry per step).**  If the backward run clears the logs, or the project's logs
were aligned (with respect to the model of the inner run) before, then after
`backward_simulate` — with or without reversing the logs — every log of every task, worker,
facility, team, workplace and component of `m`, and the two cost logs, have exactly
`project.time` entries.  (The inner run is aligned with respect to its own model by C08;
that model has the tasks of `m` plus the helpers and the same other sizes; reversing a log
keeps its length and does not touch the clock.) -/
theorem C17_aligned (m : Model) (p : Params) (due rev : Bool) (s : St)
    (h : p.initLog = true ∨ Aligned (backwardModel m due) (bwdStart m due s)) :
    Aligned m (backwardSimulate m p due rev s) := by
  have E := Extends.backwardModel m due
  have h1 : Aligned (backwardModel m due) (simulate (backwardModel m due) p (bwdStart m due s)) := C08_run (bwdStart m due s) h
  have h2 : Aligned m (simulate (backwardModel m due) p (bwdStart m due s)) :=
    Aligned.shrink h1 E.nT E.nW E.nF E.nTeam E.nWp E.nC
  have h3 : Aligned m { simulate (backwardModel m due) p (bwdStart m due s) with mode := .backward } :=
    C08_aligned_mode _ _ h2
  unfold backwardSimulate
  cases rev
  · exact h3
  · exact Bwd.Aligned.reverseLogs h3

example : ({} : Params).initLog = true := rfl

/-- the clock after `backward_simulate` is the clock of the inner run -/
theorem C17_time (m : Model) (p : Params) (due rev : Bool) (s : St) :
    (backwardSimulate m p due rev s).time = (simulate (backwardModel m due) p (bwdStart m due s)).time := by
  unfold backwardSimulate; cases rev <;> rfl

/-- with `reverse_log_information` every task-state log is the inner run's log reversed -/
theorem C17_reversed_log (m : Model) (p : Params) (due : Bool) (s : St) (t : Nat) (ht : t < m.nT) :
    (backwardSimulate m p due true s).logs.tState t =
      ((simulate (backwardModel m due) p (bwdStart m due s)).logs.tState t).reverse := by
  unfold backwardSimulate
  simp only [if_true]
  rw [reverseLogs_tState _ _ t ht]

/-! ### (4) the finish-to-start order -/

/-- a finish-to-start link `a → b` of `m`, as recorded in the successor list of `a`, is a
finish-to-start link `b → a` of the model of the inner run (reversal turns successor lists
into predecessor lists; the helpers are only appended behind them) -/
theorem C17_reversed_edge (m : Model) (due : Bool) {a b : Nat} (ha : a < m.nT)
    (hedge : (b, Dep.fs) ∈ (m.task a).outputs) :
    (b, Dep.fs) ∈ ((backwardModel m due).task a).inputs :=
  (Extends.backwardModel m due).mem_inputs (r := revDeps m) ha hedge

/-- **C17 (backward logs, one step).**  In the logs of the inner (backward) run, whenever
task `a` is logged in any state but NONE, each of its finish-to-start *successors* `b` (in
`m`) is logged FINISHED at the same step.  `a` must not be complete by default. -/
theorem C17_backward_row (m : Model) (p : Params) (due : Bool) (s : St)
    (hs : p.initState = true) (hl : p.initLog = true) {a b : Nat} (ha : a < m.nT) (hb : b < m.nT)
    (hex : ¬ exempt m a) (hedge : (b, Dep.fs) ∈ (m.task a).outputs) {k : Nat} {x : TS}
    (h : ((simulate (backwardModel m due) p (bwdStart m due s)).logs.tState a)[k]? = some x) (hx : x ≠ .none) :
    ((simulate (backwardModel m due) p (bwdStart m due s)).logs.tState b)[k]? = some .finished := by
  have E := Extends.backwardModel m due
  have hex' : ¬ exempt (backwardModel m due) a := by
    unfold exempt at hex ⊢
    rw [E.prog (r := revDeps m) ha]; exact hex
  exact run_fs_row (bwdStart m due s) hs hl (Nat.lt_of_lt_of_le ha E.nT) (Nat.lt_of_lt_of_le hb E.nT) hex'
    (C17_reversed_edge m due ha hedge) h hx

example : ({} : Params).initState = true ∧ ({} : Params).initLog = true ∧ ¬ exempt exB 0 ∧
    (1, Dep.fs) ∈ (exB.task 0).outputs := by
  unfold exempt; decide +kernel

/-- **C17 (backward logs, FINISHED persists).** -/
theorem C17_backward_persist (m : Model) (p : Params) (due : Bool) (s : St) (hl : p.initLog = true)
    {b : Nat} (hb : b < m.nT) {k k' : Nat}
    (h : ((simulate (backwardModel m due) p (bwdStart m due s)).logs.tState b)[k]? = some .finished) (hkk : k ≤ k')
    (hk' : k' < (simulate (backwardModel m due) p (bwdStart m due s)).time) :
    ((simulate (backwardModel m due) p (bwdStart m due s)).logs.tState b)[k']? = some .finished := by
  have E := Extends.backwardModel m due
  rw [C08_run_time (bwdStart m due s) hl] at hk'
  exact run_finished_persists (bwdStart m due s) hl (Nat.lt_of_lt_of_le hb E.nT) h hkk hk'

example : ({} : Params).initLog = true := rfl

/-- **C17 (backward order).**  In the logs of the inner run (before they are reversed), every
step at which the successor `b` is logged WORKING comes strictly before every step at which
its finish-to-start predecessor `a` (predecessor in `m`) is logged WORKING.  No exemption
hypothesis: a task complete by default is never logged WORKING at all. -/
theorem C17_backward_order (m : Model) (p : Params) (due : Bool) (s : St)
    (hs : p.initState = true) (hl : p.initLog = true) {a b : Nat} (ha : a < m.nT) (hb : b < m.nT)
    (hedge : (b, Dep.fs) ∈ (m.task a).outputs) {i j : Nat}
    (hi : ((simulate (backwardModel m due) p (bwdStart m due s)).logs.tState b)[i]? = some .working)
    (hj : ((simulate (backwardModel m due) p (bwdStart m due s)).logs.tState a)[j]? = some .working) : i < j := by
  have E := Extends.backwardModel m due
  exact run_fs_order (bwdStart m due s) hs hl (Nat.lt_of_lt_of_le ha E.nT) (Nat.lt_of_lt_of_le hb E.nT)
    (C17_reversed_edge m due ha hedge) hi hj

example : ({} : Params).initState = true ∧ ({} : Params).initLog = true ∧
    (1, Dep.fs) ∈ (exB.task 0).outputs := by
  decide +kernel

/-- **C17 (order in the time-reversed logs).**  After a backward run that initialises state
and logs and reverses the logs at the end, every step at which a task `a` is logged WORKING
comes strictly before every step at which a finish-to-start successor `b` of `a` is logged
WORKING: no task is logged WORKING before all of its finish-to-start predecessors have
stopped being WORKING.  The link is read from the successor list of `a`
(`(b, FS) ∈ outputs a`), which is the list the reversal turns into a predecessor list. -/
theorem C17_reversed_order (m : Model) (p : Params) (due : Bool) (s : St)
    (hs : p.initState = true) (hl : p.initLog = true) {a b : Nat} (ha : a < m.nT) (hb : b < m.nT)
    (hedge : (b, Dep.fs) ∈ (m.task a).outputs) {i j : Nat}
    (hi : ((backwardSimulate m p due true s).logs.tState a)[i]? = some .working)
    (hj : ((backwardSimulate m p due true s).logs.tState b)[j]? = some .working) : i < j := by
  have E := Extends.backwardModel m due
  rw [C17_reversed_log m p due s a ha] at hi
  rw [C17_reversed_log m p due s b hb] at hj
  have hla := run_tState_length (M := backwardModel m due) (p := p) (bwdStart m due s) hl (Nat.lt_of_lt_of_le ha E.nT)
  have hlb := run_tState_length (M := backwardModel m due) (p := p) (bwdStart m due s) hl (Nat.lt_of_lt_of_le hb E.nT)
  have hi' := (List.getElem?_eq_some_iff.mp hi).1
  have hj' := (List.getElem?_eq_some_iff.mp hj).1
  rw [List.length_reverse] at hi' hj'
  rw [List.getElem?_reverse hi'] at hi
  rw [List.getElem?_reverse hj'] at hj
  have := C17_backward_order m p due s hs hl ha hb hedge hj hi
  omega

example : ({} : Params).initState = true ∧ ({} : Params).initLog = true ∧
    (2, Dep.fs) ∈ (exB.task 0).outputs := by
  decide +kernel

/-! The order clause with the link read from the *predecessor* list of `b`
(`(a, FS) ∈ inputs b`) is false for a model whose two lists disagree:

    theorem C17_reversed_order_inputs (m p due s) (hs : p.initState = true) (hl : p.initLog = true)
        (ha : a < m.nT) (hb : b < m.nT) (hedge : (a, Dep.fs) ∈ (m.task b).inputs)
        (hi : ((backwardSimulate m p due true s).logs.tState a)[i]? = some .working)
        (hj : ((backwardSimulate m p due true s).logs.tState b)[j]? = some .working) : i < j

`reverse_dependencies` swaps the lists task by task, so a link that is present only in
`inputs b` becomes an *output* link of `b` in the backward model and constrains nothing
(counterexample `exAsym` below).  With `EdgeSym m` — the invariant pDESy's own link-building
methods maintain — the statement holds (`…_partial`). -/

/-- counterexample model: task 1 lists 0 as FS predecessor, task 0 does not list 1 as successor -/
def C17Ex.exAsym : Model where
  nT := 2
  nW := 2
  nF := 0
  nTeam := 1
  nWp := 0
  nC := 0
  task := fun t =>
    match t with
    | 0 => { name := 0, work := 2 }
    | 1 => { name := 1, work := 2, inputs := [(0, .fs)] }
    | _ => default
  worker := fun w => { team := 0, skills := [(w, 1)] }
  fac := fun _ => {}
  team := fun _ => { workers := [0, 1], targets := [0, 1] }
  wp := fun _ => {}
  comp := fun _ => {}

/-- on `exAsym` both tasks are logged WORKING at steps 0 and 1 of the reversed backward run -/
example : (0, Dep.fs) ∈ (exAsym.task 1).inputs ∧ GraphInRange exAsym ∧
    ((backwardSimulate exAsym {} false true St.fresh).logs.tState 0)[1]? = some .working ∧
    ((backwardSimulate exAsym {} false true St.fresh).logs.tState 1)[0]? = some .working := by
  decide +kernel

/-- **C17 (backward order, link read from `inputs b`).**  `C17_backward_order` for a model whose
input and output lists describe the same edges. -/
theorem C17_backward_order_partial (m : Model) (hsym : EdgeSym m) (p : Params) (due : Bool) (s : St)
    (hs : p.initState = true) (hl : p.initLog = true) {a b : Nat} (ha : a < m.nT) (hb : b < m.nT)
    (hedge : (a, Dep.fs) ∈ (m.task b).inputs) {i j : Nat}
    (hi : ((simulate (backwardModel m due) p (bwdStart m due s)).logs.tState b)[i]? = some .working)
    (hj : ((simulate (backwardModel m due) p (bwdStart m due s)).logs.tState a)[j]? = some .working) : i < j :=
  C17_backward_order m p due s hs hl ha hb ((hsym a b .fs ha hb).mp hedge) hi hj

example : EdgeSym exB ∧ (0, Dep.fs) ∈ (exB.task 1).inputs := ⟨exB_sym, by decide +kernel⟩

/-- **C17 (order in the time-reversed logs, link read from `inputs b`).**  For a model whose
input and output lists describe the same edges: if `a` is a finish-to-start predecessor of
`b`, every step at which `a` is logged WORKING in the reversed logs of a backward run comes
strictly before every step at which `b` is logged WORKING. -/
theorem C17_reversed_order_partial (m : Model) (hsym : EdgeSym m) (p : Params) (due : Bool) (s : St)
    (hs : p.initState = true) (hl : p.initLog = true) {a b : Nat} (ha : a < m.nT) (hb : b < m.nT)
    (hedge : (a, Dep.fs) ∈ (m.task b).inputs) {i j : Nat}
    (hi : ((backwardSimulate m p due true s).logs.tState a)[i]? = some .working)
    (hj : ((backwardSimulate m p due true s).logs.tState b)[j]? = some .working) : i < j :=
  C17_reversed_order m p due s hs hl ha hb ((hsym a b .fs ha hb).mp hedge) hi hj

example : EdgeSym exB ∧ (0, Dep.fs) ∈ (exB.task 2).inputs := ⟨exB_sym, by decide +kernel⟩

/-- **C17 (reversed logs, stated per step).**  In the reversed logs, at any step at or after
one where the successor `b` is logged WORKING, the finish-to-start predecessor `a` is not
logged WORKING any more. -/
theorem C17_reversed_pred_stopped (m : Model) (p : Params) (due : Bool) (s : St)
    (hs : p.initState = true) (hl : p.initLog = true) {a b : Nat} (ha : a < m.nT) (hb : b < m.nT)
    (hedge : (b, Dep.fs) ∈ (m.task a).outputs) {j : Nat}
    (hj : ((backwardSimulate m p due true s).logs.tState b)[j]? = some .working) :
    ∀ i, j ≤ i → ((backwardSimulate m p due true s).logs.tState a)[i]? ≠ some .working := by
  intro i hji hi
  have := C17_reversed_order m p due s hs hl ha hb hedge hi hj
  omega

example : ({} : Params).initState = true ∧ ({} : Params).initLog = true := ⟨rfl, rfl⟩

/-! ### (5) the example run -/

/-- The backward run of the example with due times succeeds in 4 steps.  Backward logs of the
inner run (tasks 0, 1, 2 and the helper 3), then the reversed logs of the three real tasks:
task 0 is WORKING at step 0 only, its successors 2 and 1 at steps 1 and 3 — and the helper
delays task 2 so that it ends 2 steps (5 − 3) before task 1 does. -/
example :
    (simulate (backwardModel exB true) {} St.fresh).status = .success ∧
    (simulate (backwardModel exB true) {} St.fresh).time = 4 ∧
    (List.range 4).map (simulate (backwardModel exB true) {} St.fresh).logs.tState =
      [[.none, .none, .none, .working],
       [.working, .finished, .finished, .finished],
       [.none, .none, .working, .finished],
       [.working, .working, .finished, .finished]] ∧
    (List.range 3).map (backwardSimulate exB {} true true St.fresh).logs.tState =
      [[.working, .none, .none, .none],
       [.finished, .finished, .finished, .working],
       [.finished, .working, .none, .none]] ∧
    (backwardSimulate exB {} true true St.fresh).mode = .backward := by
  decide +kernel

end PDesy

#print axioms PDesy.C17_revDeps_revDeps
#print axioms PDesy.C17_helpers_only_append
#print axioms PDesy.C17_restored
#print axioms PDesy.C17_restored_lists
#print axioms PDesy.C17_restored_eq
#print axioms PDesy.C17_aligned
#print axioms PDesy.C17_time
#print axioms PDesy.C17_reversed_log
#print axioms PDesy.C17_reversed_edge
#print axioms PDesy.C17_backward_row
#print axioms PDesy.C17_backward_persist
#print axioms PDesy.C17_backward_order
#print axioms PDesy.C17_reversed_order
#print axioms PDesy.C17_backward_order_partial
#print axioms PDesy.C17_reversed_order_partial
#print axioms PDesy.C17_reversed_pred_stopped
