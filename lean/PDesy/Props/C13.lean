/-
  PDesy.Props.C13 — "Component placement respects location, capacity, conveyor and site rules."

  At every step a component is placed at no more than one workplace, a workplace lists a
  component exactly when the component reports being placed there, and the space taken by the
  components placed at a workplace never exceeds the workplace's capacity.  A component enters a
  workplace that declares input workplaces only from one of those or from nowhere, moves at
  most once per step and never while one of its tasks is WORKING, and leaves the workplace once
  all tasks of its top-level component are FINISHED.  A task that needs a facility only ever
  works with facilities of the workplace where its component is placed at that step.

  The model covers FLAT products only; this is the clause `flat` of `Place.PlaceWF`.

  `Place.PlaceWF m` (Lemmas/Place) — well-formedness of the static model:
    flat, size_nonneg, cap_nonneg, comp_lt, comp_tasks, fac_wp.
  `Place.PlaceInv m l` — the property on one live state:
    two        : for c < nC, q < nWp:  c ∈ wpComps q ↔ placed c = some q
    placed_lt  : a placed component is at a workplace q < nWp
    nodup      : a workplace lists a component at most once
    mem_lt     : a workplace lists components c < nC only
    cap        : Σ sizes of the components listed by q ≤ capacity of q
    site       : a facility f held by task t is listed by the workplace `(m.fac f).wp`, and the
                 component of t is placed at that workplace
  `Place.Inv m l` — `PlaceInv` plus: a FINISHED task holds no facility, a task that needs no
    facility holds none, a task that holds a facility holds a worker.
  `Place.MovedOk m l0 c now` — the movement rules for a component moved by an allocation pass
    started from `l0` (no WORKING task; `now = some q`, `q < nWp`; conveyor rule).
  `Place.passMoves` — ghost list of the components moved by one allocation pass.
-/
import PDesy.Lemmas.Place

namespace PDesy
open Lifecycle Place

/-! ### facts about the small concrete model `Place.exP` used by the `example`s -/

namespace C13Ex

/-- the example model is well-formed -/
example : PlaceWF exP := exP_wf

/-- its run succeeds in two steps and really exercises placement: component 0 sits at
workplace 0 in the first step and is conveyed to workplace 1 in the second, where component 1
can take the freed workplace 0; each task holds the facility of the workplace its component is
at -/
theorem exP_run :
    (simulate exP {} St.fresh).status = .success ∧
    (runTrace exP {} St.fresh).map (fun s =>
        (s.live.placed 0, s.live.placed 1, s.live.wpComps 0, s.live.wpComps 1)) =
      [(some 0, Option.none, [0], []), (some 1, some 0, [1], [0])] ∧
    (runTrace exP {} St.fresh).map (fun s =>
        (s.live.allocF 0, s.live.allocF 1, s.live.allocF 2)) =
      [([0], [], []), ([], [1], [0])] := by
  decide +kernel

/-- at the last `__update` both (finished) components have been removed from their workplaces -/
theorem exP_updRun :
    (runUpdTrace exP {} St.fresh).map (fun s => (s.live.placed 0, s.live.placed 1)) =
      [(Option.none, Option.none), (some 0, Option.none), (Option.none, Option.none)] := by
  decide +kernel

/-- the invariant is not trivially true: a component listed by two workplaces violates it -/
example : ¬ PlaceInv exP { Live.empty with wpComps := fun _ => [0] } := by
  intro h
  have := h.unique (c := 0) (q1 := 0) (q2 := 1) (by decide) (by decide) (by decide)
    (by simp) (by simp)
  cases this

/-- … and so does a workplace filled beyond its capacity -/
example : ¬ PlaceInv exP { Live.empty with wpComps := fun q => if q = 0 then [0, 1] else [] } := by
  intro h
  have := h.cap 0 (by decide)
  revert this
  decide +kernel

end C13Ex

/-! ### C13: the invariant along a run -/

/-- **C13 (start of a run).** After `initialize(state_info=True, …)` — the state a forward
`simulate` with `initState = true` enters its loop from — nothing is placed and no facility is
held, so the placement invariant holds (capacities are non-negative by `PlaceWF.cap_nonneg`). -/
theorem C13_init (m : Model) (p : Params) (s : St) (wf : PlaceWF m) (h : p.initState = true) :
    Inv m (enter m p s).live := by
  rw [enter_live, h]; exact Inv_initProject m wf p.initLog s

example : PlaceWF exP ∧ ({ absence := [1] } : Params).initState = true := ⟨exP_wf, rfl⟩

/-- the strengthened invariant gives the placement property -/
theorem C13_inv_place {m : Model} {l : Live} (h : Inv m l) : PlaceInv m l := h.toPlaceInv

/-- `Inv` at every recorded step (the form used for induction) -/
theorem C13_trace_inv (m : Model) (p : Params) (s : St) (wf : PlaceWF m) (h : Inv m s.live) :
    ∀ fuel, ∀ s' ∈ trace m p fuel s, Inv m s'.live := fun fuel =>
  trace_inv m p (fun s => Inv m s.live) (fun s hs => Inv_updated m wf s hs)
    (fun s hs _ => Inv_stepBody m wf p s hs) fuel s h

/-- `Inv` after every `__update` -/
theorem C13_updTrace_inv (m : Model) (p : Params) (s : St) (wf : PlaceWF m) (h : Inv m s.live) :
    ∀ fuel, ∀ s' ∈ updTrace m p fuel s, Inv m s'.live := fun fuel =>
  updTrace_inv m p (fun s => Inv m s.live) (fun s hs => Inv_updated m wf s hs)
    (fun s hs _ => Inv_stepBody m wf p s hs) fuel s h

/-- **C13 (every recorded step).** For a well-formed flat model, if the (strengthened)
placement invariant holds in the state the loop starts from, then at the end of every executed
step: a workplace lists a component exactly when the component reports being placed there (so
a component is at no more than one workplace), the sizes of the components at a workplace sum
to at most its capacity, and every facility held by a task is a facility of the workplace where
the task's component is placed. -/
theorem C13_trace (m : Model) (p : Params) (s : St) (wf : PlaceWF m) (h : Inv m s.live) :
    ∀ fuel, ∀ s' ∈ trace m p fuel s, PlaceInv m s'.live := fun fuel s' hs' =>
  (C13_trace_inv m p s wf h fuel s' hs').toPlaceInv

example : PlaceWF exP ∧ Inv exP (enter exP {} St.fresh).live :=
  ⟨exP_wf, C13_init exP {} St.fresh exP_wf rfl⟩

/-- **C13 (after every `__update`).** The same at the `updated` boundary of every iteration,
including the one at which the loop exits. -/
theorem C13_updTrace (m : Model) (p : Params) (s : St) (wf : PlaceWF m) (h : Inv m s.live) :
    ∀ fuel, ∀ s' ∈ updTrace m p fuel s, PlaceInv m s'.live := fun fuel s' hs' =>
  (C13_updTrace_inv m p s wf h fuel s' hs').toPlaceInv

example : PlaceWF exP ∧ Inv exP (enter exP {} St.fresh).live :=
  ⟨exP_wf, C13_init exP {} St.fresh exP_wf rfl⟩

/-- **C13 (whole forward run, recorded steps).** In `simulate m p s` with `initState = true`,
whatever the state `s` the project was in before, the placement property holds at the end of
every executed step. -/
theorem C13_run (m : Model) (p : Params) (s : St) (wf : PlaceWF m) (h : p.initState = true) :
    ∀ s' ∈ runTrace m p s, PlaceInv m s'.live :=
  C13_trace m p _ wf (C13_init m p s wf h) _

example : PlaceWF exP ∧ ({ absence := [1] } : Params).initState = true := ⟨exP_wf, rfl⟩

/-- **C13 (whole forward run, after every `__update`).** -/
theorem C13_runUpd (m : Model) (p : Params) (s : St) (wf : PlaceWF m) (h : p.initState = true) :
    ∀ s' ∈ runUpdTrace m p s, PlaceInv m s'.live :=
  C13_updTrace m p _ wf (C13_init m p s wf h) _

example : PlaceWF exP ∧ ({ absence := [1] } : Params).initState = true := ⟨exP_wf, rfl⟩

/-- the final state of the loop -/
theorem C13_loop (m : Model) (p : Params) (s : St) (wf : PlaceWF m) (h : Inv m s.live)
    (fuel : Nat) : Inv m (loop m p fuel s).live :=
  loop_inv m p (fun s => Inv m s.live) (fun s hs => Inv_updated m wf s hs)
    (fun s hs _ => Inv_stepBody m wf p s hs) (fun _ _ hs => hs) fuel s h

/-- **C13 (final state).** The state `simulate` returns satisfies the placement property. -/
theorem C13_final (m : Model) (p : Params) (s : St) (wf : PlaceWF m) (h : p.initState = true) :
    PlaceInv m (simulate m p s).live := by
  rw [simulate_eq]; exact (C13_loop m p _ wf (C13_init m p s wf h) _).toPlaceInv

example : PlaceWF exP ∧ ({ absence := [1] } : Params).initState = true := ⟨exP_wf, rfl⟩

/-! ### C13: the clauses in plain form -/

/-- **C13 (at most one workplace).** Under the placement property a component is listed by at
most one workplace. -/
theorem C13_one_place (m : Model) (l : Live) (h : PlaceInv m l) (c q1 q2 : Nat)
    (hc : c < m.nC) (h1 : q1 < m.nWp) (h2 : q2 < m.nWp)
    (m1 : c ∈ l.wpComps q1) (m2 : c ∈ l.wpComps q2) : q1 = q2 :=
  h.unique hc h1 h2 m1 m2

example : PlaceInv exP (enter exP {} St.fresh).live :=
  (C13_init exP {} St.fresh exP_wf rfl).toPlaceInv

/-- **C13 (site).** Under the placement property, a facility `f` held by task `t` is listed by
a workplace `q` at which the component of `t` is placed. -/
theorem C13_site (m : Model) (l : Live) (h : PlaceInv m l) (t : Nat) (ht : t < m.nT)
    (f : Nat) (hf : f ∈ l.allocF t) :
    ∃ c q, (m.task t).comp = some c ∧ l.placed c = some q ∧ f ∈ (m.wp q).facs ∧
      (m.fac f).wp = q := by
  obtain ⟨c, h1, h2, h3⟩ := h.site t ht f hf
  exact ⟨c, _, h1, h2, h3, rfl⟩

example : PlaceInv exP (enter exP {} St.fresh).live :=
  (C13_init exP {} St.fresh exP_wf rfl).toPlaceInv

/-! ### C13: movement rules -/

/-- **C13 (movement rules of one allocation pass).** Let `l' = allocate m lg rule l`.  The
ghost list `passMoves m lg rule l` of the components for which a move was executed during the
pass (it mirrors `allocTask`, and equals the model's `Alloc.moved`) has no duplicates — a
component moves at most once per pass, hence per step.  Every component whose placement differs
between `l` and `l'` is in that list.  For every component `c` in the list:
(i) none of its tasks is WORKING in `l` (`allocate` does not change task states);
(ii) it is now at a workplace `q < nWp`, and if `q` declares input workplaces then `c` was placed
nowhere in `l` or at one of those inputs (a second hop, which could enter from a non-input, is
excluded by the once-per-pass guard).  No hypothesis on the model or the state is needed. -/
theorem C13_moves (m : Model) (lg : Logs) (rule : TaskRule) (l : Live) :
    (passMoves m lg rule l).Nodup ∧
    (∀ c, (allocate m lg rule l).placed c ≠ l.placed c → c ∈ passMoves m lg rule l) ∧
    (∀ c ∈ passMoves m lg rule l,
      (∀ t ∈ (m.comp c).tasks, l.tstate t ≠ .working) ∧
      ∃ q, (allocate m lg rule l).placed c = some q ∧ q < m.nWp ∧
        ((m.wp q).inputs ≠ [] →
          l.placed c = Option.none ∨ ∃ q0, l.placed c = some q0 ∧ q0 ∈ (m.wp q).inputs)) :=
  allocate_moves m lg rule l

/-- the pass of the first step of the example run moves component 0 (and only it: component 1
does not fit) -/
example : passMoves exP (enter exP {} St.fresh).logs .tslack
    (absenceSet exP 0 true (updated exP (enter exP {} St.fresh)).live) = [0] := by
  decide +kernel

/-- the ghost list is the model's own `moved` list -/
theorem C13_moves_ghost (m : Model) (ts : List Nat) (acc : Alloc) :
    (ts.foldl (allocTask m) acc).moved = acc.moved ++ movesOf m acc ts :=
  foldl_allocTask_moved m ts acc

/-- **C13 (movement rules of one step).** If the placement of component `c` differs between
the start and the end of a step `stepBody m p s`, then the step is a working step, `c` was moved
by its (only) allocation pass, in which no component moves twice, no task of `c` was WORKING at
the start of the step, and `c` ended at a workplace `q < nWp` which, if it declares input
workplaces, `c` entered from one of them or from nowhere. -/
theorem C13_moves_step (m : Model) (p : Params) (s : St) (c : Nat)
    (h : (stepBody m p s).live.placed c ≠ s.live.placed c) :
    workingAt p s.time = true ∧
    c ∈ passMoves m s.logs p.rule (absenceSet m s.time true s.live) ∧
    (passMoves m s.logs p.rule (absenceSet m s.time true s.live)).Nodup ∧
    (∀ t ∈ (m.comp c).tasks, s.live.tstate t ≠ .working) ∧
    ∃ q, (stepBody m p s).live.placed c = some q ∧ q < m.nWp ∧
      ((m.wp q).inputs ≠ [] →
        s.live.placed c = Option.none ∨ ∃ q0, s.live.placed c = some q0 ∧ q0 ∈ (m.wp q).inputs) := by
  obtain ⟨h1, h2, h3, h4⟩ := stepBody_moves m p s c h
  exact ⟨h1, h2, h3, h4⟩

/-- in the first step of the example run component 0 does change place -/
example : (stepBody exP {} (updated exP (enter exP {} St.fresh))).live.placed 0 ≠
    (updated exP (enter exP {} St.fresh)).live.placed 0 := by
  decide +kernel

/-- (i) for tasks named by their `comp` link: under `PlaceWF.comp_tasks`, no task whose target
component is a moved component is WORKING -/
theorem C13_moves_tasks (m : Model) (wf : PlaceWF m) (lg : Logs) (rule : TaskRule) (l : Live)
    (c : Nat) (hc : c ∈ passMoves m lg rule l) (t : Nat) (ht : t < m.nT)
    (hcomp : (m.task t).comp = some c) : l.tstate t ≠ .working :=
  ((allocate_moves m lg rule l).2.2 c hc).1 t (wf.comp_tasks t ht c hcomp)

example : PlaceWF exP := exP_wf

/-! ### C13: removal -/

/-- **C13 (removal, one `__update`).** After `__update`, a component without parents all of
whose tasks are FINISHED is not placed anywhere.  (`chkReady` only turns NONE into READY, and
`compCheck`, `pert` touch neither placement nor task states, so the statement holds at the
`updated` boundary and not just right after `check_removing_placed_workplace`.) -/
theorem C13_removed (m : Model) (s : St) (c : Nat) (hc : c < m.nC)
    (hpar : (m.comp c).parents = [])
    (hfin : ∀ t ∈ (m.comp c).tasks, (updated m s).live.tstate t = .finished) :
    (updated m s).live.placed c = Option.none :=
  update_removed m s.time s.live c hc hpar hfin

/-- the premises are satisfiable: in the last `updated` state of the example run every task of
the top-level component 0 is FINISHED -/
example : ∃ s' ∈ runUpdTrace exP {} St.fresh,
    (exP.comp 0).parents = [] ∧ ∀ t ∈ (exP.comp 0).tasks, s'.live.tstate t = .finished := by
  decide +kernel

/-- **C13 (removal, flat model, whole run).** For a well-formed (flat) model, at every `updated`
boundary of a run no component all of whose tasks are FINISHED is still placed. -/
theorem C13_removed_run (m : Model) (p : Params) (s : St) (wf : PlaceWF m) :
    ∀ s' ∈ runUpdTrace m p s, ∀ c, c < m.nC →
      (∀ t ∈ (m.comp c).tasks, s'.live.tstate t = .finished) → s'.live.placed c = Option.none := by
  intro s' hs' c hc hfin
  obtain ⟨s1, rfl⟩ := updTrace_mem_updated m p _ _ s' hs'
  exact C13_removed m s1 c hc (wf.flat c hc).1 hfin

example : PlaceWF exP := exP_wf

/-- right after `check_removing_placed_workplace` itself -/
theorem C13_removed_phase (m : Model) (l : Live) (c : Nat) (hc : c < m.nC)
    (hpar : (m.comp c).parents = [])
    (hfin : ∀ t ∈ (m.comp c).tasks, (chkRemove m l).tstate t = .finished) :
    (chkRemove m l).placed c = Option.none :=
  chkRemove_removed m l c hc hpar hfin

/-! ### C13: the phases one by one -/

/-- **C13 (phase level).** Every phase of the loop preserves the strengthened invariant
(`chkRemove`, `allocate` need the well-formedness of the model). -/
theorem C13_phases (m : Model) (wf : PlaceWF m) (l : Live) (h : Inv m l) :
    Inv m (chkFinished m l) ∧ Inv m (compCheck m l) ∧ Inv m (chkRemove m l) ∧
    Inv m (chkReady m l) ∧ (∀ time, Inv m (pert m time l)) ∧
    (∀ time w, Inv m (absenceSet m time w l)) ∧ (∀ lg rule, Inv m (allocate m lg rule l)) ∧
    Inv m (chkWorking m l) ∧ (∀ w a, Inv m (perform m w a l)) :=
  ⟨Inv_chkFinished m h, Inv_compCheck m h, Inv_chkRemove m wf h, Inv_chkReady m h,
   fun time => Inv_pert m time h, fun time w => Inv_absenceSet m time w h,
   fun lg rule => Inv_allocate m wf lg rule h, Inv_chkWorking m h,
   fun w a => Inv_perform m w a h⟩

example : PlaceWF exP ∧ Inv exP (enter exP {} St.fresh).live :=
  ⟨exP_wf, C13_init exP {} St.fresh exP_wf rfl⟩

end PDesy

#print axioms PDesy.C13Ex.exP_run
#print axioms PDesy.C13Ex.exP_updRun
#print axioms PDesy.C13_init
#print axioms PDesy.C13_inv_place
#print axioms PDesy.C13_trace_inv
#print axioms PDesy.C13_updTrace_inv
#print axioms PDesy.C13_trace
#print axioms PDesy.C13_updTrace
#print axioms PDesy.C13_run
#print axioms PDesy.C13_runUpd
#print axioms PDesy.C13_loop
#print axioms PDesy.C13_final
#print axioms PDesy.C13_one_place
#print axioms PDesy.C13_site
#print axioms PDesy.C13_moves
#print axioms PDesy.C13_moves_ghost
#print axioms PDesy.C13_moves_step
#print axioms PDesy.C13_moves_tasks
#print axioms PDesy.C13_removed
#print axioms PDesy.C13_removed_run
#print axioms PDesy.C13_removed_phase
#print axioms PDesy.C13_phases
