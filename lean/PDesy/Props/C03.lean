/-
  PDesy.Props.C03 — resource allocation is exclusive and two-way consistent at every step.

  `AllocInv m l`   : worker ↔ task and facility ↔ task lists agree, every worker/facility is
                     assigned to at most one task, only READY/WORKING tasks hold resources.
  `HoldWorking l`  : every task holding a resource is WORKING (true at every step boundary).
  `ResInv m k w l` : a worker/facility is ABSENCE when absent (or the step is a non-working one),
                     otherwise WORKING exactly when it holds a task, else FREE.
-/
import PDesy.Lemmas.Alloc
import PDesy.Lemmas.Loop

namespace PDesy

/-! ### The theorems -/

/- History: in an earlier version of the model `initialize` only emptied the lists *inside* the
   index ranges of the model, so junk that the incoming state held outside them survived
   one-sidedly and `C03_init` was false without the extra hypothesis `OutClean m s.live` (nothing
   allocated outside the ranges).  `initLive` now resets every index (indices outside the ranges
   stand for no object), that artefact and its counterexample are gone, and `C03_init`, `C03_run`,
   `C03_run_updated`, `C03_final`, `C03_rerun'` hold for EVERY incoming state.  The `_partial`
   names (and `C03_final_outclean`, `C03_rerun`) are kept as thin corollaries that ignore their
   `OutClean` hypothesis, so that older references keep working. -/
/-- After `initialize(state_info=True)`, whatever the state before, every allocation list is
empty, hence the allocation invariant holds and no task holds anything. -/
theorem C03_init {m : Model} {p : Params} {s : St} (hp : p.initState = true) :
    AllocInv m (enter m p s).live ∧ HoldWorking (enter m p s).live := by
  obtain ⟨h1, h2, h3, h4⟩ := Alloc.enter_live_empty (m := m) (s := s) hp
  exact AllocInv_of_empty h1 h2 h3 h4

/-- `C03_init` with the (no longer needed) hypothesis that nothing is allocated out of range. -/
theorem C03_init_partial {m : Model} {p : Params} {s : St}
    (hp : p.initState = true) (_hc : OutClean m s.live) :
    AllocInv m (enter m p s).live ∧ HoldWorking (enter m p s).live :=
  C03_init hp

/-- Starting the loop from a state satisfying the allocation invariant (with every holder
WORKING), every recorded step `s'` of the run satisfies it again, and at that step every
worker/facility state is the one determined by absence and assignment (`ResInv`, for the time
`s'.time - 1` at which the step ran). -/
theorem C03_trace {m : Model} {p : Params} {s : St}
    (h : AllocInv m s.live ∧ HoldWorking s.live) (fuel : Nat) :
    ∀ s' ∈ trace m p fuel s,
      AllocInv m s'.live ∧ HoldWorking s'.live ∧
      ResInv m (s'.time - 1) (workingAt p (s'.time - 1)) s'.live := by
  induction fuel generalizing s with
  | zero => intro s' hs'; simp [trace] at hs'
  | succ n ih =>
    intro s' hs'
    simp only [trace] at hs'
    split at hs'
    · simp at hs'
    · have hu := update_C03 s.time h.1 h.2
      have hstep := stepBody_C03 p (s := updated m s) hu.1 hu.2
      rcases List.mem_cons.mp hs' with e | e
      · subst e
        have ht : (stepBody m p (updated m s)).time - 1 = (updated m s).time := by
          rw [Alloc.stepBody_time]; omega
        rw [ht]; exact hstep
      · exact ih ⟨hstep.1, hstep.2.1⟩ s' e

/-- The allocation invariant (with every holder WORKING) also holds at every `updated` boundary,
i.e. right after `__update` at the top of each iteration, including the last one. -/
theorem C03_updated {m : Model} {p : Params} {s : St}
    (h : AllocInv m s.live ∧ HoldWorking s.live) (fuel : Nat) :
    ∀ s' ∈ updTrace m p fuel s, AllocInv m s'.live ∧ HoldWorking s'.live :=
  updTrace_inv m p (fun s => AllocInv m s.live ∧ HoldWorking s.live)
    (fun s hs => update_C03 s.time hs.1 hs.2)
    (fun _ hs _ => ⟨(stepBody_C03 p hs.1 hs.2).1, (stepBody_C03 p hs.1 hs.2).2.1⟩) fuel s h

/-- Every recorded step of `simulate m p s` (with `init_state=True`, from ANY state `s`)
satisfies the allocation invariant, has every holder WORKING, and has resource states determined
by absence and assignment. -/
theorem C03_run {m : Model} {p : Params} {s : St} (hp : p.initState = true) :
    ∀ s' ∈ runTrace m p s,
      AllocInv m s'.live ∧ HoldWorking s'.live ∧
      ResInv m (s'.time - 1) (workingAt p (s'.time - 1)) s'.live :=
  C03_trace (C03_init hp) _

/-- … and so does every `updated` state of the run. -/
theorem C03_run_updated {m : Model} {p : Params} {s : St} (hp : p.initState = true) :
    ∀ s' ∈ runUpdTrace m p s, AllocInv m s'.live ∧ HoldWorking s'.live :=
  C03_updated (C03_init hp) _

/-- `C03_run` with the (no longer needed) `OutClean` hypothesis. -/
theorem C03_run_partial {m : Model} {p : Params} {s : St}
    (hp : p.initState = true) (_hc : OutClean m s.live) :
    ∀ s' ∈ runTrace m p s,
      AllocInv m s'.live ∧ HoldWorking s'.live ∧
      ResInv m (s'.time - 1) (workingAt p (s'.time - 1)) s'.live :=
  C03_run hp

/-- `C03_run_updated` with the (no longer needed) `OutClean` hypothesis. -/
theorem C03_run_updated_partial {m : Model} {p : Params} {s : St}
    (hp : p.initState = true) (_hc : OutClean m s.live) :
    ∀ s' ∈ runUpdTrace m p s, AllocInv m s'.live ∧ HoldWorking s'.live :=
  C03_run_updated hp

/-- A continued run (`init_state=False`) from a state that satisfies the invariant keeps it. -/
theorem C03_run_continue {m : Model} {p : Params} {s : St}
    (hp : p.initState = false) (h : AllocInv m s.live ∧ HoldWorking s.live) :
    ∀ s' ∈ runTrace m p s,
      AllocInv m s'.live ∧ HoldWorking s'.live ∧
      ResInv m (s'.time - 1) (workingAt p (s'.time - 1)) s'.live := by
  have e : (enter m p s).live = s.live := by
    simp only [enter, initProject, hp]
    cases p.initLog <;> rfl
  exact C03_trace (by rw [e]; exact h) _

/-- The state `simulate` returns (with `init_state=True`, from ANY state) satisfies the
allocation invariant, with every holder WORKING. -/
theorem C03_final {m : Model} {p : Params} {s : St} (hp : p.initState = true) :
    AllocInv m (simulate m p s).live ∧ HoldWorking (simulate m p s).live := by
  rw [simulate_eq]
  exact loop_inv m p (fun s => AllocInv m s.live ∧ HoldWorking s.live)
    (fun s hs => update_C03 s.time hs.1 hs.2)
    (fun _ hs _ => ⟨(stepBody_C03 p hs.1 hs.2).1, (stepBody_C03 p hs.1 hs.2).2.1⟩)
    (fun _ _ hs => hs) _ _ (C03_init hp)

/-- `C03_final` with the (no longer needed) `OutClean` hypothesis. -/
theorem C03_final_partial {m : Model} {p : Params} {s : St}
    (hp : p.initState = true) (_hc : OutClean m s.live) :
    AllocInv m (simulate m p s).live ∧ HoldWorking (simulate m p s).live :=
  C03_final hp

/-- Under the allocation invariant a FINISHED task holds nothing. -/
theorem C03_released {m : Model} {l : Live} {t : Nat}
    (h : AllocInv m l) (hf : l.tstate t = .finished) : l.allocW t = [] ∧ l.allocF t = [] := by
  have := h.holder t
  rw [hf] at this
  constructor
  · apply Classical.byContradiction; intro hne
    rcases this (Or.inl hne) with e | e <;> cases e
  · apply Classical.byContradiction; intro hne
    rcases this (Or.inr hne) with e | e <;> cases e

/-- `check_state(FINISHED)` releases everything a task held at the step it becomes FINISHED:
a worker (facility) that was allocated to `t` before and finds `t` FINISHED afterwards is
assigned to nothing afterwards — and `t` itself lists nothing (by `C03_released`). -/
theorem C03_chkFinished_released {m : Model} {l : Live} {t : Nat} (h : AllocInv m l)
    (hf : (chkFinished m l).tstate t = .finished) :
    (chkFinished m l).allocW t = [] ∧ (chkFinished m l).allocF t = [] ∧
    (∀ w ∈ l.allocW t, (chkFinished m l).wasg w = []) ∧
    (∀ f ∈ l.allocF t, (chkFinished m l).fasg f = []) := by
  have h' := chkFinished_AllocInv h
  have hr := C03_released h' hf
  obtain ⟨s1, s2, _, _⟩ := Alloc.chkFinished_asg_sub h
  refine ⟨hr.1, hr.2, ?_, ?_⟩
  · intro w hw
    apply List.eq_nil_iff_forall_not_mem.mpr
    intro t' ht'
    have h1 := s1 w t' ht'
    rw [h.wasg_eq hw] at h1
    have : t' = t := by simpa using h1
    subst this
    have := (h'.w_two t' w).mpr ht'
    rw [hr.1] at this; cases this
  · intro f hf'
    apply List.eq_nil_iff_forall_not_mem.mpr
    intro t' ht'
    have h1 := s2 f t' ht'
    rw [h.fasg_eq hf'] at h1
    have : t' = t := by simpa using h1
    subst this
    have := (h'.f_two t' f).mpr ht'
    rw [hr.2] at this; cases this

/-- Reading of `ResInv` on a working step: a worker (facility) is WORKING exactly when it holds a
task and is not absent, ABSENCE exactly when absent, FREE exactly when idle and present. -/
theorem C03_working_iff {m : Model} {k : Nat} {l : Live} (h : ResInv m k true l) :
    (∀ w, w < m.nW →
      (l.wstate w = .working ↔ l.wasg w ≠ [] ∧ (m.worker w).absence.contains k = false) ∧
      (l.wstate w = .absence ↔ (m.worker w).absence.contains k = true) ∧
      (l.wstate w = .free ↔ l.wasg w = [] ∧ (m.worker w).absence.contains k = false)) ∧
    (∀ f, f < m.nF →
      (l.fstate f = .working ↔ l.fasg f ≠ [] ∧ (m.fac f).absence.contains k = false) ∧
      (l.fstate f = .absence ↔ (m.fac f).absence.contains k = true) ∧
      (l.fstate f = .free ↔ l.fasg f = [] ∧ (m.fac f).absence.contains k = false)) := by
  constructor
  · intro w hw
    have := h.1 w hw
    simp only [if_true] at this
    rw [this]; unfold resState
    cases (m.worker w).absence.contains k <;> cases l.wasg w <;> simp
  · intro f hf
    have := h.2 f hf
    simp only [if_true] at this
    rw [this]; unfold resState
    cases (m.fac f).absence.contains k <;> cases l.fasg f <;> simp

/-- On a non-working step every worker and facility of the model is ABSENCE. -/
theorem C03_nonworking {m : Model} {k : Nat} {l : Live} (h : ResInv m k false l) :
    (∀ w, w < m.nW → l.wstate w = .absence) ∧ (∀ f, f < m.nF → l.fstate f = .absence) :=
  ⟨fun w hw => by simpa using h.1 w hw, fun f hf => by simpa using h.2 f hf⟩

/-- If the workplaces only list facilities of the model (`FacsInRange`), a run never allocates anything
outside the index ranges, so the state `simulate` returns can be `initialize`d and run again … -/
theorem C03_final_outclean {m : Model} {p : Params} {s : St} (hwf : FacsInRange m)
    (hp : p.initState = true) (_hc : OutClean m s.live) : OutClean m (simulate m p s).live := by
  rw [simulate_eq]
  have h0 := C03_init (m := m) (s := s) hp
  have c0 : OutClean m (enter m p s).live := by
    obtain ⟨h1, h2, h3, h4⟩ := Alloc.enter_live_empty (m := m) (s := s) hp
    exact ⟨fun t _ => ⟨h1 t, h2 t⟩, fun w _ => h3 w, fun f _ => h4 f⟩
  exact (loop_inv m p (fun s => (AllocInv m s.live ∧ HoldWorking s.live) ∧ OutClean m s.live)
    (fun s hs => ⟨update_C03 s.time hs.1.1 hs.1.2, update_OutClean s.time hs.1.1 hs.2⟩)
    (fun _ hs _ => ⟨⟨(stepBody_C03 p hs.1.1 hs.1.2).1, (stepBody_C03 p hs.1.1 hs.1.2).2.1⟩,
      stepBody_OutClean p hwf hs.1.1 hs.2⟩)
    (fun _ _ hs => hs) _ _ ⟨h0, c0⟩).2

/-- A second run (with `init_state=True`) on an already simulated project — whatever the first
run's parameters, whatever the model — satisfies C03 at every step as well. -/
theorem C03_rerun' {m : Model} {p p' : Params} {s : St} (hp' : p'.initState = true) :
    ∀ s' ∈ runTrace m p' (simulate m p s),
      AllocInv m s'.live ∧ HoldWorking s'.live ∧
      ResInv m (s'.time - 1) (workingAt p' (s'.time - 1)) s'.live :=
  C03_run hp'

/-- `C03_rerun'` with the (no longer needed) hypotheses of the earlier version. -/
theorem C03_rerun {m : Model} {p p' : Params} {s : St} (_hwf : FacsInRange m)
    (_hp : p.initState = true) (hp' : p'.initState = true) (_hc : OutClean m s.live) :
    ∀ s' ∈ runTrace m p' (simulate m p s),
      AllocInv m s'.live ∧ HoldWorking s'.live ∧
      ResInv m (s'.time - 1) (workingAt p' (s'.time - 1)) s'.live :=
  C03_rerun' hp'

/-! ### Hypotheses are satisfiable; requested-but-false statements are refuted -/

def C03.exM : Model where
  nT := 2
  nW := 1
  nF := 0
  nTeam := 1
  nWp := 0
  nC := 0
  task := fun t =>
    if t = 0 then { name := 0, work := 2, outputs := [(1, .fs)] }
    else { name := 1, work := 1, inputs := [(0, .fs)] }
  worker := fun _ => { team := 0, skills := [(0, 1), (1, 1)] }
  fac := fun _ => {}
  team := fun _ => { workers := [0], targets := [0, 1] }
  wp := fun _ => {}
  comp := fun _ => {}

/-- task 0 WORKING with worker 0; the worker's state is a parameter -/
def C03.exLw (ws : RS) : Live :=
  { Live.empty with
    tstate := fun t => if t = 0 then .working else .none
    allocW := fun t => if t = 0 then [0] else []
    wasg := fun w => if w = 0 then [0] else []
    wstate := fun w => if w = 0 then ws else .free }

theorem C03.exLw_inv (ws : RS) : AllocInv C03.exM (C03.exLw ws) ∧ HoldWorking (C03.exLw ws) := by
  refine ⟨⟨?_, ?_, ?_, ?_, ?_, ?_, ?_, ?_⟩, ?_⟩
  · intro t w; simp only [C03.exLw]
    by_cases ht : t = 0 <;> by_cases hw : w = 0 <;> simp [ht, hw]
  · intro t f; simp [C03.exLw, Live.empty]
  · intro w; simp only [C03.exLw]; split <;> simp
  · intro f; simp [C03.exLw, Live.empty]
  · intro t; simp only [C03.exLw]; split <;> simp
  · intro t; simp [C03.exLw, Live.empty]
  · intro t; simp [C03.exLw, Live.empty]
  · intro t; simp only [C03.exLw]; by_cases ht : t = 0 <;> simp [ht, Live.empty]
  · intro t; simp only [C03.exLw]; by_cases ht : t = 0 <;> simp [ht, Live.empty]

/-- `allocate` does NOT preserve `AllocInv` on its own: a worker that is FREE although it holds
a task is handed out again. -/
theorem allocate_AllocInv_counterexample :
    ¬ (∀ (m : Model) (lg : Logs) (rule : TaskRule) (l : Live),
        AllocInv m l → AllocInv m (allocate m lg rule l)) := by
  intro h
  have h1 := (h C03.exM Logs.empty .tslack (C03.exLw .free) (C03.exLw_inv .free).1).w_excl 0
  have h2 : (allocate C03.exM Logs.empty .tslack (C03.exLw .free)).wasg 0 = [0, 0] := by
    decide +kernel
  rw [h2] at h1
  simp at h1

/-- a facility-needing READY task that holds a facility but no worker -/
def C03.exM2 : Model :=
  { C03.exM with nT := 1, nF := 1, task := fun _ => { needFac := true } }

def C03.exL2 : Live :=
  { Live.empty with
    tstate := fun t => if t = 0 then .ready else .none
    allocF := fun t => if t = 0 then [0] else []
    fasg := fun f => if f = 0 then [0] else [] }

theorem C03.exL2_inv : AllocInv C03.exM2 C03.exL2 := by
  refine ⟨?_, ?_, ?_, ?_, ?_, ?_, ?_, ?_⟩
  · intro t f; simp [C03.exL2, Live.empty]
  · intro t w; simp only [C03.exL2]
    by_cases ht : t = 0 <;> by_cases hw : w = 0 <;> simp [ht, hw]
  · intro f; simp [C03.exL2, Live.empty]
  · intro w; simp only [C03.exL2]; split <;> simp
  · intro t; simp [C03.exL2, Live.empty]
  · intro t; simp only [C03.exL2]; split <;> simp
  · intro t; simp [C03.exM2]
  · intro t; simp only [C03.exL2]; by_cases ht : t = 0 <;> simp [ht, Live.empty]

/-- `check_state(WORKING)` does NOT establish `HoldWorking` from `AllocInv` alone. -/
theorem chkWorking_HoldWorking_counterexample :
    ¬ (∀ (m : Model) (l : Live), AllocInv m l → HoldWorking (chkWorking m l)) := by
  intro h
  have h1 := h C03.exM2 C03.exL2 C03.exL2_inv 0
  have h2 : (chkWorking C03.exM2 C03.exL2).allocF 0 = [0] := by decide +kernel
  have h3 : (chkWorking C03.exM2 C03.exL2).tstate 0 = .ready := by decide +kernel
  rw [h2, h3] at h1
  simp at h1

/-- a project whose live state lists worker 0 for the out-of-range task 5 -/
def C03.exS : St :=
  { St.fresh with live :=
    { Live.empty with
      allocW := fun t => if t = 5 then [0] else []
      wasg := fun w => if w = 0 then [5] else [] } }

/-- the former counterexample state is now repaired by `initialize`: the junk at the
out-of-range task index 5 is reset like everything else -/
example : ¬ OutClean C03.exM C03.exS.live ∧
    (enter C03.exM {} C03.exS).live.allocW 5 = [] ∧ (enter C03.exM {} C03.exS).live.wasg 0 = [] := by
  refine ⟨?_, by decide +kernel, by decide +kernel⟩
  intro h
  have := (h.1 5 (by decide)).1
  simp [C03.exS] at this

/-- task 0 FINISHED, nothing held -/
example : AllocInv C03.exM { Live.empty with tstate := fun t => if t = 0 then .finished else .none } ∧
    ({ Live.empty with tstate := fun t => if t = 0 then TS.finished else .none } : Live).tstate 0
      = .finished := by
  refine ⟨(AllocInv_of_empty ?_ ?_ ?_ ?_).1, rfl⟩ <;> intro _ <;> rfl

-- premises of `C03_trace` / `C03_updated` / `C03_run_continue`
example : AllocInv C03.exM (C03.exLw .working) ∧ HoldWorking (C03.exLw .working) :=
  C03.exLw_inv .working
-- premise of `C03_init` / `C03_run` / `C03_run_updated` / `C03_final` / `C03_rerun'`, on a dirty state
example : ({} : Params).initState = true ∧ C03.exS ≠ St.fresh :=
  ⟨rfl, fun h => by
    have := congrArg (fun s => s.live.allocW 5) h
    simp [C03.exS, St.fresh, Live.empty] at this⟩
-- premises of `C03_init_partial` / `C03_run_partial` / `C03_final_partial` / `C03_rerun`
example : ({} : Params).initState = true ∧ OutClean C03.exM St.fresh.live ∧ FacsInRange C03.exM :=
  ⟨rfl, OutClean_empty _, by intro p f h; simp [C03.exM] at h⟩
-- premises of `C03_chkFinished_released` (task 0 is WORKING with no work left: it finishes now)
example : AllocInv C03.exM (C03.exLw .working) ∧
    (chkFinished C03.exM (C03.exLw .working)).tstate 0 = .finished ∧
    0 ∈ (C03.exLw .working).allocW 0 :=
  ⟨(C03.exLw_inv .working).1, by decide +kernel, by decide +kernel⟩
-- the run of the example model is not trivial: worker 0 does task 0 for two steps, is released
-- when it finishes and is given to task 1 at step 2
example : ((runTrace C03.exM {} St.fresh).map fun s =>
      (s.time, s.live.tstate 0, s.live.tstate 1, s.live.allocW 0, s.live.allocW 1)) =
    [(1, .working, .none, [0], []), (2, .working, .none, [0], []), (3, .finished, .working, [], [0])] := by
  decide +kernel
example : ((runTrace C03.exM {} St.fresh).map fun s => (s.live.wstate 0, s.live.wasg 0)) =
    [(.working, [0]), (.working, [0]), (.working, [1])] := by decide +kernel

#print axioms C03_init
#print axioms C03_run
#print axioms C03_run_updated
#print axioms C03_final
#print axioms C03_rerun'
#print axioms C03_init_partial
#print axioms C03_trace
#print axioms C03_updated
#print axioms C03_run_partial
#print axioms C03_run_updated_partial
#print axioms C03_run_continue
#print axioms C03_final_partial
#print axioms C03_released
#print axioms C03_chkFinished_released
#print axioms C03_working_iff
#print axioms C03_nonworking
#print axioms C03_final_outclean
#print axioms C03_rerun
#print axioms allocate_AllocInv_counterexample
#print axioms chkWorking_HoldWorking_counterexample
#print axioms allocate_AllocInv_partial
#print axioms chkWorking_HoldWorking_partial
#print axioms Alloc.step_core
#print axioms Alloc.step_core_guard

end PDesy
