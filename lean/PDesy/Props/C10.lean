/-
  PDesy.Props.C10 — "Absence is dead time" (clauses 1–2).

  * a step at time `k` is a project-wide absence step when `workingAt p k = false`
    (`k ∈ p.absence`); `stepBody` then skips `allocate`.
  * `Perform.preCost m p s1` is the live state at the cost/perform boundary of `stepBody` (`l4`).
  * `Perform.plainW`/`plainF` are the documented per-resource contributions (see C02).
-/
import PDesy.Lemmas.Perform
import PDesy.Props.C08
import PDesy.Props.C07
import PDesy.Props.C02

namespace PDesy
open PDesy.Logs PDesy.Perform

variable {m : Model} {p : Params}

/-! ### clause 1: a project-wide absence step -/

/-- **C10 (project absence step).**  At a step with `workingAt p s1.time = false`, with
`s2 = stepBody m p s1`:
(a) nothing is newly allocated: both allocation lists of every task and both assignment lists of
    every worker/facility are unchanged;
(b) a non-automatic task — and, when `perform_auto_task_while_absence_time` is off, every task —
    keeps its remaining work; so does every task that is not WORKING after the step;
(c) with the flag on, an automatic task `t < nT` that is WORKING after `check_state(WORKING)`
    (which runs at an absence step only when the flag is on) loses exactly its unit rate;
(d) every worker `< nW` and facility `< nF` gets the log entry ABSENCE and the cost entry 0, and
    every team, workplace, the organization and the project get the cost entry 0. -/
theorem C10_absence_step (s1 : St) (h : workingAt p s1.time = false) :
    -- (a)
    ((stepBody m p s1).live.allocW = s1.live.allocW ∧ (stepBody m p s1).live.allocF = s1.live.allocF ∧
     (stepBody m p s1).live.wasg = s1.live.wasg ∧ (stepBody m p s1).live.fasg = s1.live.fasg) ∧
    -- (b)
    (∀ t, (m.task t).isAuto = false ∨ p.autoFlag = false ∨ (stepBody m p s1).live.tstate t ≠ .working →
      (stepBody m p s1).live.rem t = s1.live.rem t) ∧
    -- (c)
    (∀ t, t < m.nT → (m.task t).isAuto = true → p.autoFlag = true →
      (stepBody m p s1).live.tstate t = .working →
      (stepBody m p s1).live.rem t = s1.live.rem t - (m.task t).autoRate) ∧
    -- (d)
    ((∀ w, w < m.nW → (stepBody m p s1).logs.wState w = s1.logs.wState w ++ [RS.absence] ∧
        (stepBody m p s1).logs.wCost w = s1.logs.wCost w ++ [0]) ∧
     (∀ f, f < m.nF → (stepBody m p s1).logs.fState f = s1.logs.fState f ++ [RS.absence] ∧
        (stepBody m p s1).logs.fCost f = s1.logs.fCost f ++ [0]) ∧
     (∀ a, a < m.nTeam → (stepBody m p s1).logs.teamCost a = s1.logs.teamCost a ++ [0]) ∧
     (∀ q, q < m.nWp → (stepBody m p s1).logs.wpCost q = s1.logs.wpCost q ++ [0]) ∧
     (stepBody m p s1).logs.orgCost = s1.logs.orgCost ++ [0] ∧
     (stepBody m p s1).logs.projCost = s1.logs.projCost ++ [0]) := by
  have hc : p.absence.contains s1.time = true := by
    simpa [workingAt] using h
  refine ⟨?_, ?_, ?_, ?_⟩
  · exact preCost_alloc_off p s1 hc
  · intro t ht
    rw [stepBody_rem, h, if_neg]
    rintro ⟨_, hw, hact⟩
    rcases hact with hact | ⟨ha, hb⟩
    · cases hact
    · rcases ht with ht | ht | ht
      · rw [ht] at hb; cases hb
      · rw [ht] at ha; cases ha
      · exact ht hw
  · intro t ht hauto hflag hw
    rw [stepBody_rem, if_pos ⟨ht, hw, Or.inr ⟨hflag, hauto⟩⟩]
    simp [contrib, hauto]
  · obtain ⟨c1, c2, c3, c4, c5⟩ := C07_absence_now (m := m) (stepBody m p s1).live
    have ht : workingAt p ((stepBody m p s1).time - 1) = false := by
      rw [stepBody_time, Nat.add_sub_cancel]; exact h
    rw [stepBody_logs]
    refine ⟨?_, ?_, ?_, ?_, ?_, ?_⟩
    · intro w hw
      rw [row_wState, row_wCost, if_pos hw, if_pos hw, ht, c1]
      exact ⟨rfl, rfl⟩
    · intro f hf
      rw [row_fState, row_fCost, if_pos hf, if_pos hf, ht, c2]
      exact ⟨rfl, rfl⟩
    · intro a ha; rw [row_teamCost, if_pos ha, ht, c3]
    · intro q hq; rw [row_wpCost, if_pos hq, ht, c4]
    · rw [row_orgCost, ht, c5]
    · rw [row_projCost, ht, c5]

/-- premises satisfiable: in the demo run time 1 is a project absence step, executed from the
state recorded after step 0 -/
example : ((runTrace demo demoP St.fresh)[0]?.map fun s => workingAt demoP (updated demo s).time) =
    some false := by decide +kernel

/-- **C10 (project absence step, flag off: nothing happens).**  At a project-wide absence step
while `perform_auto_task_while_absence_time` is off, `check_state(WORKING)` is not run either: no
task changes its state (in particular nothing starts), no remaining work changes, and — for
every state `s1`, reachable or not — every worker `< nW` and facility `< nF` has live state
ABSENCE after the step.  (Allocation lists, logs and costs: `C10_absence_step` (a), (d).) -/
theorem C10_absence_step_idle (s1 : St) (h : workingAt p s1.time = false)
    (hf : p.autoFlag = false) :
    (stepBody m p s1).live.tstate = s1.live.tstate ∧
    (stepBody m p s1).live.rem = s1.live.rem ∧
    (∀ w, w < m.nW → (stepBody m p s1).live.wstate w = .absence) ∧
    (∀ f, f < m.nF → (stepBody m p s1).live.fstate f = .absence) := by
  have hc : p.absence.contains s1.time = true := by
    simpa [workingAt] using h
  refine ⟨?_, ?_, ?_, ?_⟩
  · rw [stepBody_tstate, preCost_inactive p s1 hc hf]; rfl
  · funext t
    rw [stepBody_rem, h, hf, if_neg]
    rintro ⟨_, _, hact | ⟨ha, _⟩⟩
    · cases hact
    · cases ha
  · intro w hw
    exact preCost_wstate_inactive p s1 w hw hc hf
  · intro f hlt
    exact preCost_fstate_inactive p s1 f hlt hc hf

/-- **C10 (project absence step, live states).**  With the flag off, every worker `< nW` and
facility `< nF` has live state ABSENCE after a project-wide absence step, from ANY state `s1`. -/
theorem C10_absence_live (s1 : St) (h : workingAt p s1.time = false) (hf : p.autoFlag = false) :
    (∀ w, w < m.nW → (stepBody m p s1).live.wstate w = .absence) ∧
    (∀ f, f < m.nF → (stepBody m p s1).live.fstate f = .absence) :=
  (C10_absence_step_idle s1 h hf).2.2

/-
  With `perform_auto_task_while_absence_time` ON the live-state statement — "every worker `< nW`
  and facility `< nF` has live state ABSENCE after the step, for every state `s1`" — is FALSE for
  arbitrary `s1`:

    theorem C10_absence_live' (s1 : St) (h : workingAt p s1.time = false) :
      (∀ w, w < m.nW → (stepBody m p s1).live.wstate w = .absence) ∧
      (∀ f, f < m.nF → (stepBody m p s1).live.fstate f = .absence)

  Counterexample (`c10Bad` below, with the flag set): a READY task that already holds a worker.
  `allocate` is skipped, but with the flag set `check_state(WORKING)` still runs, starts the task
  and marks its worker WORKING.  Such a state violates `HoldWorking` (C03), which holds at every
  reachable step boundary; with that hypothesis the statement is true for either value of the
  flag (`C10_absence_live_partial`).  With the flag off the same state is harmless
  (`C10_absence_live`).  The *logged* state and the cost are ABSENCE / 0 in any case
  (`C10_absence_step` (d)).
-/

/-- a READY task 0 holding worker 0, at time 1 of the demo parameters (an absence step) -/
def c10Bad : St := { St.fresh with
  time := 1
  live := { Live.empty with
    tstate := fun t => if t = 0 then .ready else .none
    allocW := fun t => if t = 0 then [0] else []
    wasg := fun w => if w = 0 then [0] else [] } }

/-- with the flag set the held worker is switched to WORKING at the absence step; with the flag
off (the premises of `C10_absence_step_idle` / `C10_absence_live`) it is ABSENCE and the task
stays READY -/
example : workingAt { demoP with autoFlag := true } c10Bad.time = false ∧ (0 : Nat) < demo.nW ∧
    (stepBody demo { demoP with autoFlag := true } c10Bad).live.wstate 0 = .working ∧
    workingAt demoP c10Bad.time = false ∧ demoP.autoFlag = false ∧
    (stepBody demo demoP c10Bad).live.wstate 0 = .absence ∧
    (stepBody demo demoP c10Bad).live.tstate 0 = .ready := by decide +kernel

/-- **C10 (project absence step, live states), either value of the flag, with the C03 hypothesis
explicit.**  If READY tasks hold nothing before the step (`ReadyEmpty`, a consequence of
`HoldWorking`), every worker `< nW` and facility `< nF` has live state ABSENCE after a
project-wide absence step.  (Needed only when the flag is set; with the flag off see
`C10_absence_live`.) -/
theorem C10_absence_live_partial (s1 : St) (h : workingAt p s1.time = false)
    (hre : ReadyEmpty s1.live) :
    (∀ w, w < m.nW → (stepBody m p s1).live.wstate w = .absence) ∧
    (∀ f, f < m.nF → (stepBody m p s1).live.fstate f = .absence) := by
  have hc : (!(p.absence.contains s1.time)) = false := h
  constructor
  · intro w hw
    apply preCost_wstate_keep p s1 w hre
    rw [hc]; exact absenceSet_wstate_off _ _ w hw
  · intro f hf
    apply preCost_fstate_keep p s1 f hre
    rw [hc]; exact absenceSet_fstate_off _ _ f hf

/-- the same from `HoldWorking`, the form `C03_trace` provides -/
theorem C10_absence_live_of_holdWorking (s1 : St) (h : workingAt p s1.time = false)
    (hh : HoldWorking s1.live) :
    (∀ w, w < m.nW → (stepBody m p s1).live.wstate w = .absence) ∧
    (∀ f, f < m.nF → (stepBody m p s1).live.fstate f = .absence) :=
  C10_absence_live_partial s1 h (readyEmpty_of_holdWorking hh)

example : HoldWorking (St.fresh).live := by
  intro t h; simp [St.fresh, Live.empty] at h

/-! ### clause 2: an individually absent worker or facility -/

/-- what an ABSENCE worker amounts to at the cost/perform boundary `l4`: no contribution (in the
model's and in the documented form, alone or paired with any facility) and no cost -/
theorem C10_worker_absent_now (l4 : Live) (wk : Bool) (w : Nat) (h : l4.wstate w = .absence) :
    (∀ name, wProgress m l4 name w = 0 ∧ plainW m l4 name w = 0 ∧
      ∀ f, wProgress m l4 name w * fProgress m l4 name f = 0) ∧
    wCostNow m l4 wk w = 0 ∧ showR wk (l4.wstate w) = .absence := by
  refine ⟨?_, ?_, ?_⟩
  · intro name
    have e := wProgress_zero (m := m) l4 name w (Or.inl h)
    refine ⟨e, plainW_zero l4 name w (Or.inl h), ?_⟩
    intro f; rw [e]; grind
  · simp [wCostNow, h]
  · cases wk <;> simp [showR, h]

theorem C10_fac_absent_now (l4 : Live) (wk : Bool) (f : Nat) (h : l4.fstate f = .absence) :
    (∀ name, fProgress m l4 name f = 0 ∧ plainF m l4 name f = 0 ∧
      ∀ w, wProgress m l4 name w * fProgress m l4 name f = 0) ∧
    fCostNow m l4 wk f = 0 ∧ showR wk (l4.fstate f) = .absence := by
  refine ⟨?_, ?_, ?_⟩
  · intro name
    have e := fProgress_zero (m := m) l4 name f (Or.inl h)
    refine ⟨e, plainF_zero l4 name f (Or.inl h), ?_⟩
    intro w; rw [e]; grind
  · simp [fCostNow, h]
  · cases wk <;> simp [showR, h]

/-- **C10 (individual absence, worker).**  On a working step, a worker `w < nW` whose absence
list contains the step's time is ABSENCE after `absenceSet`, stays ABSENCE through `allocate`
(it is not in the free list, so it is never given) and `check_state(WORKING)` (only FREE members
of WORKING tasks are switched; READY tasks hold only what was given in this pass) — assuming
`HoldWorking` of the state before the step (C03).  Hence at the cost/perform boundary `l4` and in
the recorded state it contributes nothing to any task, is charged 0, and is logged ABSENCE. -/
theorem C10_individual_worker (s1 : St) (hwk : workingAt p s1.time = true)
    (hh : HoldWorking s1.live) (w : Nat) (hw : w < m.nW)
    (ha : (m.worker w).absence.contains s1.time = true) :
    (preCost m p s1).wstate w = .absence ∧ (stepBody m p s1).live.wstate w = .absence ∧
    (∀ name, wProgress m (preCost m p s1) name w = 0 ∧ plainW m (preCost m p s1) name w = 0 ∧
      ∀ f, wProgress m (preCost m p s1) name w * fProgress m (preCost m p s1) name f = 0) ∧
    wCostNow m (preCost m p s1) true w = 0 ∧
    (stepBody m p s1).logs.wState w = s1.logs.wState w ++ [RS.absence] ∧
    (stepBody m p s1).logs.wCost w = s1.logs.wCost w ++ [0] := by
  have hc : (!(p.absence.contains s1.time)) = true := hwk
  have h4 : (preCost m p s1).wstate w = .absence := by
    apply preCost_wstate_keep p s1 w (readyEmpty_of_holdWorking hh)
    rw [hc]; exact absenceSet_wstate_absent _ _ w hw ha
  obtain ⟨c1, c2, _⟩ := C10_worker_absent_now (m := m) (preCost m p s1) true w h4
  have ht : workingAt p ((stepBody m p s1).time - 1) = true := by
    rw [stepBody_time, Nat.add_sub_cancel]; exact hwk
  have h5 : (stepBody m p s1).live.wstate w = .absence := h4
  refine ⟨h4, h5, c1, c2, ?_, ?_⟩
  · rw [stepBody_logs, row_wState, if_pos hw, ht, h5]; rfl
  · rw [stepBody_logs, row_wCost, if_pos hw, ht]
    have : wCostNow m (stepBody m p s1).live true w = 0 := c2
    rw [this]

/-- **C10 (individual absence, facility).**  The same for a facility `f < nF`. -/
theorem C10_individual_fac (s1 : St) (hwk : workingAt p s1.time = true)
    (hh : HoldWorking s1.live) (f : Nat) (hf : f < m.nF)
    (ha : (m.fac f).absence.contains s1.time = true) :
    (preCost m p s1).fstate f = .absence ∧ (stepBody m p s1).live.fstate f = .absence ∧
    (∀ name, fProgress m (preCost m p s1) name f = 0 ∧ plainF m (preCost m p s1) name f = 0 ∧
      ∀ w, wProgress m (preCost m p s1) name w * fProgress m (preCost m p s1) name f = 0) ∧
    fCostNow m (preCost m p s1) true f = 0 ∧
    (stepBody m p s1).logs.fState f = s1.logs.fState f ++ [RS.absence] ∧
    (stepBody m p s1).logs.fCost f = s1.logs.fCost f ++ [0] := by
  have hc : (!(p.absence.contains s1.time)) = true := hwk
  have h4 : (preCost m p s1).fstate f = .absence := by
    apply preCost_fstate_keep p s1 f (readyEmpty_of_holdWorking hh)
    rw [hc]; exact absenceSet_fstate_absent _ _ f hf ha
  obtain ⟨c1, c2, _⟩ := C10_fac_absent_now (m := m) (preCost m p s1) true f h4
  have ht : workingAt p ((stepBody m p s1).time - 1) = true := by
    rw [stepBody_time, Nat.add_sub_cancel]; exact hwk
  have h5 : (stepBody m p s1).live.fstate f = .absence := h4
  refine ⟨h4, h5, c1, c2, ?_, ?_⟩
  · rw [stepBody_logs, row_fState, if_pos hf, ht, h5]; rfl
  · rw [stepBody_logs, row_fCost, if_pos hf, ht]
    have : fCostNow m (stepBody m p s1).live true f = 0 := c2
    rw [this]

/-- **C10 (individual absence) from `ResInv`.**  Alternatively, if the resource-state invariant of
C03 is known at the cost/perform boundary (`ResInv m time true l4`), the individually absent
worker/facility is ABSENCE there directly, with the same consequences
(`C10_worker_absent_now`, `C10_fac_absent_now`). -/
theorem C10_individual_of_resInv (time : Nat) (l4 : Live) (hres : ResInv m time true l4) :
    (∀ w, w < m.nW → (m.worker w).absence.contains time = true → l4.wstate w = .absence) ∧
    (∀ f, f < m.nF → (m.fac f).absence.contains time = true → l4.fstate f = .absence) := by
  constructor
  · intro w hw ha; rw [hres.1 w hw, ha]; rfl
  · intro f hf ha; rw [hres.2 f hf, ha]; rfl

/-- a concrete model with an individually absent worker: worker 0 is away at time 0 -/
def c10M : Model := { demo with
  worker := fun w =>
    if w = 0 then { team := 0, skills := [(0, 1)], cost := 3, absence := [0] }
    else demo.worker w }

/-- task 0 READY, nothing allocated yet, time 0 -/
def c10S : St := { St.fresh with
  live := { Live.empty with tstate := fun t => if t = 0 then .ready else .none } }

/-- premises satisfiable: time 0 is a working step, nothing is held, worker 0 is away … -/
example : HoldWorking c10S.live := by
  intro t h; simp [c10S, Live.empty] at h

example : workingAt demoP c10S.time = true ∧ (0 : Nat) < c10M.nW ∧
    (c10M.worker 0).absence.contains c10S.time = true := by decide +kernel

/-- … and the step indeed leaves task 0 without its only skilled worker, who is ABSENCE at no
cost (while at time 0 of the same run without the absence he is allocated and charged 3) -/
example : (stepBody c10M demoP c10S).live.wstate 0 = .absence ∧
    (stepBody c10M demoP c10S).live.allocW 0 = [] ∧
    (stepBody c10M demoP c10S).logs.wCost 0 = [0] ∧
    (stepBody demo demoP c10S).live.wstate 0 = .working ∧
    (stepBody demo demoP c10S).logs.wCost 0 = [3] := by
  decide +kernel

/-! ### the logs of a run -/

/-- **C10 (log).**  At every project-wide absence step `k` of a run (with `initLog = true`):
every worker and facility is logged ABSENCE, and every cost entry is 0. -/
theorem C10_run_absence_entry (s : St) (h : p.initLog = true) (k : Nat)
    (hk : k < (runTrace m p s).length) (hab : workingAt p k = false) :
    (∀ w, w < m.nW → ((simulate m p s).logs.wState w)[k]? = some RS.absence ∧
        ((simulate m p s).logs.wCost w)[k]? = some 0) ∧
    (∀ f, f < m.nF → ((simulate m p s).logs.fState f)[k]? = some RS.absence ∧
        ((simulate m p s).logs.fCost f)[k]? = some 0) ∧
    (∀ a, a < m.nTeam → ((simulate m p s).logs.teamCost a)[k]? = some 0) ∧
    (∀ q, q < m.nWp → ((simulate m p s).logs.wpCost q)[k]? = some 0) ∧
    (simulate m p s).logs.orgCost[k]? = some 0 ∧ (simulate m p s).logs.projCost[k]? = some 0 := by
  have r := C08_run_entry (m := m) s h k hk
  rw [hab] at r
  obtain ⟨c1, c2, c3, c4, c5⟩ := C07_absence_now (m := m) ((runTrace m p s)[k]).live
  refine ⟨?_, ?_, ?_, ?_, ?_, ?_⟩
  · intro w hw; rw [r.wState w hw, r.wCost w hw, c1]; exact ⟨rfl, rfl⟩
  · intro f hf; rw [r.fState f hf, r.fCost f hf, c2]; exact ⟨rfl, rfl⟩
  · intro a ha; rw [r.teamCost a ha, c3]
  · intro q hq; rw [r.wpCost q hq, c4]
  · rw [r.orgCost, c5]
  · rw [r.projCost, c5]

/-- **C10 (log, no progress).**  If step `k+1` of a run is a project-wide absence step, then for
a non-automatic task (or any task when `perform_auto_task_while_absence_time` is off) entry `k+1`
of the remaining-work log equals entry `k` — except that it is 0 when the task's logged state
turns FINISHED between the two entries (the `__update` block reports a finished task's remaining
work as 0). -/
theorem C10_run_absence_rem (s : St) (h : p.initLog = true) (k : Nat)
    (hk : k + 1 < (runTrace m p s).length) (hab : workingAt p (k + 1) = false)
    (t : Nat) (ht : t < m.nT) (hna : (m.task t).isAuto = false ∨ p.autoFlag = false) :
    ∃ a b, ((simulate m p s).logs.tRem t)[k]? = some a ∧
      ((simulate m p s).logs.tRem t)[k + 1]? = some b ∧
      b = (if ((simulate m p s).logs.tState t)[k + 1]? = some .finished ∧
              ((simulate m p s).logs.tState t)[k]? ≠ some .finished then 0 else a) := by
  obtain ⟨a, b, h1, h2, h3⟩ := C02_run_log (m := m) s h k hk t ht
  refine ⟨a, b, h1, h2, ?_⟩
  have hd : ¬ (((runTrace m p s)[k + 1]).live.tstate t = .working ∧
      (workingAt p (k + 1) = true ∨ (p.autoFlag = true ∧ (m.task t).isAuto = true))) := by
    rw [hab]
    rintro ⟨_, hact | ⟨hf, hauto⟩⟩
    · cases hact
    · rcases hna with hna | hna
      · rw [hna] at hauto; cases hauto
      · rw [hna] at hf; cases hf
  rw [h3, if_neg hd]
  grind

example : demoP.initLog = true ∧ 1 < (runTrace demo demoP St.fresh).length ∧
    workingAt demoP 1 = false := by decide +kernel

end PDesy

#print axioms PDesy.C10_absence_step
#print axioms PDesy.C10_absence_step_idle
#print axioms PDesy.C10_absence_live
#print axioms PDesy.C10_absence_live_partial
#print axioms PDesy.C10_absence_live_of_holdWorking
#print axioms PDesy.C10_worker_absent_now
#print axioms PDesy.C10_fac_absent_now
#print axioms PDesy.C10_individual_worker
#print axioms PDesy.C10_individual_fac
#print axioms PDesy.C10_individual_of_resInv
#print axioms PDesy.C10_run_absence_entry
#print axioms PDesy.C10_run_absence_rem
