/-
  PDesy.Props.C10Slack — C10, clause 3 under the priority rule TSLACK on general acyclic networks.

  `C10_removal` (PDesy/Props/C10Removal.lean) admits TSLACK on finish-to-start networks only
  (`Removal.SlackOK`).  Question: can that be weakened to "consistent acyclic network, any link
  kinds"?

  **No.**  `C10_removal_tslack_counterexample`: a model with six tasks (FS, FF, SS links), two
  workers and the absence list `[0]` for which `remove_absence_time_list` applied to the run with
  absence does NOT give the run without absence — the runs differ in the order in which a worker
  serves two READY tasks, and even in their length (4 working steps against 5).  Replayed on the
  Python code (`/repo` at c33e3f4): same logs as the model, same difference.
  The cause is the test `pre_lft < 0` ("not yet set") in the backward pass of `update_PERT_data`:
  a task that is WORKING behind a closed finish gate overshoots (`remaining_work_amount < 0`),
  the `lft` stored along an SS link out of it is `lst(successor) + remaining`, which is negative
  at a small clock and non-negative a few steps later.
-/
import PDesy.Lemmas.SlackShift
import PDesy.Model.Ser

namespace PDesy
open PDesy.Removal PDesy.Idem PDesy.PertSpec PDesy.SlackShift

/-! ### the counterexample -/

/-- **C10.3 fails for TSLACK on a general acyclic network.**

Model `SlackShift.cxM` (task list in this order, one team with both workers, targeted at all
tasks, no component, no workplace):

* `K`  work 1;
* `G`  work 2, input `K` (FS);
* `H`  work 1, input `K` (FS);
* `P`  work 1, input `G` (FF);
* `O1` automatic, work 3, input `P` (SS);
* `O2` automatic, work 1, input `P` (FS);
* worker `w0`: skill 1 for `K`, `G`, `H`;  worker `w1`: skill 3 for `P`.

Every hypothesis of `C10_removal` holds except that the network is not finish-to-start only; it
is consistent (`GraphOK`) and acyclic.  Rule TSLACK, `perform_auto_task_while_absence_time` off,
absence list `[0]`.  Both runs end with SUCCESS.

Run B (no absence): step 0 `w0→K`, `w1→P` (remaining work of `P`: 1 − 3 = −2, it stays WORKING
until `G` is FINISHED); at time 1 `G` has total slack 4, `H` 2, so `w0→H` at step 1, `w0→G` at
steps 2, 3; `P` finishes at time 4, `O2` runs at step 4; 5 steps.
Run A (absence `[0]`): at time 2, on the same remaining work, `G` has total slack 0, `H` 2, so
`w0→G` at steps 2, 3, `w0→H` at step 4 together with `O2`; 5 steps, of which 1 absence step.
After `remove_absence_time_list` run A has 4 steps, run B has 5, and the state log of `H` is
`[NONE, READY, READY, WORKING]` against `[NONE, WORKING, FINISHED, FINISHED, FINISHED]`. -/
theorem C10_removal_tslack_counterexample :
    ModelOKw (fun m => GraphOK m ∧ Acyclic m) cxM .tslack ∧ WorkOK cxM ∧
    (simulate cxM { absence := [0], maxTime := 40 } St.fresh).status = .success ∧
    (simulate cxM { absence := [], maxTime := 40 } St.fresh).status = .success ∧
    (removeAbs cxM (simulate cxM { absence := [0], maxTime := 40 } St.fresh)).time = 4 ∧
    (simulate cxM { absence := [], maxTime := 40 } St.fresh).time = 5 ∧
    (removeAbs cxM (simulate cxM { absence := [0], maxTime := 40 } St.fresh)).logs.tState 2 =
      [.none, .ready, .ready, .working] ∧
    (simulate cxM { absence := [], maxTime := 40 } St.fresh).logs.tState 2 =
      [.none, .working, .finished, .finished, .finished] ∧
    (removeAbs cxM (simulate cxM { absence := [0], maxTime := 40 } St.fresh)).logs ≠
      (simulate cxM { absence := [], maxTime := 40 } St.fresh).logs := by
  refine ⟨cxM_ok .tslack (by decide), cxM_workOK, by decide +kernel, by decide +kernel,
    by decide +kernel, by decide +kernel, by decide +kernel, by decide +kernel, ?_⟩
  intro h
  have h2 := congrArg (fun g => g.tState 2) h
  revert h2
  decide +kernel

/-- the worker's side: whom `w0` serves at each (remaining) step -/
example :
    (removeAbs cxM (simulate cxM { absence := [0], maxTime := 40 } St.fresh)).logs.wAsg 0 =
      [[0], [1], [1], [2]] ∧
    (simulate cxM { absence := [], maxTime := 40 } St.fresh).logs.wAsg 0 = [[0], [2], [1], [1], []] ∧
    (simulate cxM { absence := [], maxTime := 40 } St.fresh).logs.tRem 3 = [-2, -5, -8, -11, 0] := by
  decide +kernel

/-- **The statement of `C10_removal` with `SlackOK` weakened to "consistent and acyclic" is
false.**  (`ModelOKw S` is `Removal.ModelOK` with the field `slack : rule = .tslack → S m`.) -/
theorem C10_removal_tslack_general_false :
    ¬ ∀ (m : Model) (p : Params) (L : List Nat) (s : St),
      ModelOKw (fun m => GraphOK m ∧ Acyclic m) m p.rule → WorkOK m → p.initState = true →
      p.initLog = true → p.autoFlag = false →
      (simulate m { p with absence := L } s).status = .success →
      (removeAbs m (simulate m { p with absence := L } s)).logs = (simulate m { p with absence := [] } s).logs ∧
      (removeAbs m (simulate m { p with absence := L } s)).time = (simulate m { p with absence := [] } s).time ∧
      (removeAbs m (simulate m { p with absence := L } s)).status =
        (simulate m { p with absence := [] } s).status ∧
      (simulate m { p with absence := [] } s).status = .success := by
  intro h
  have h1 := (h cxM { maxTime := 40 } [0] St.fresh (cxM_ok .tslack (by decide)) cxM_workOK rfl rfl rfl
    (by decide +kernel)).2.1
  revert h1
  decide +kernel

/-- the same with skill 4 for `P` and the absence list `[0, 1]`: there the value the backward
pass misreads is `−2` in run B (time 1) and `0` in run A (time 3) — the effect does not hinge on
the stored value being the marker `−1` itself -/
theorem C10_removal_tslack_counterexample_4 :
    ModelOKw (fun m => GraphOK m ∧ Acyclic m) cxM4 .tslack ∧
    (simulate cxM4 { absence := [0, 1], maxTime := 40 } St.fresh).status = .success ∧
    (removeAbs cxM4 (simulate cxM4 { absence := [0, 1], maxTime := 40 } St.fresh)).time = 4 ∧
    (simulate cxM4 { absence := [], maxTime := 40 } St.fresh).time = 5 := by
  refine ⟨cxM4_ok .tslack (by decide), by decide +kernel, by decide +kernel, by decide +kernel⟩

/-- with one absence step only the value is `−1` in run A too, misread in both runs, and the
removal property holds on this instance -/
example :
    putLogs cxM4 (removeAbs cxM4 (simulate cxM4 { absence := [0], maxTime := 40 } St.fresh)).logs =
      putLogs cxM4 (simulate cxM4 { absence := [], maxTime := 40 } St.fresh).logs := by
  decide +kernel

/-- under every other admitted rule `C10_removal` applies to `cxM` (no condition on link kinds) -/
example : ∀ rule ∈ [TaskRule.est, .spt, .lpt, .lrpt, .srpt, .lwrpt, .swrpt],
    putLogs cxM (removeAbs cxM (simulate cxM { rule := rule, absence := [0], maxTime := 40 } St.fresh)).logs =
      putLogs cxM (simulate cxM { rule := rule, absence := [], maxTime := 40 } St.fresh).logs := by
  decide +kernel

/-- **Where it comes from: the total slack is not shift invariant** on the states the two runs
reach after their first working step (same task states, same remaining work `[0, 2, 1, −2, 3, 1]`,
clocks 1 and 2): slack of `G` 4 against 0, slack of `H` 2 in both; hence a different order of
`sort_task_list`. -/
theorem C10_slack_shift_counterexample :
    a2.time = b1.time + 1 ∧
    (List.range 6).map (upd0 cxM a2.live).rem = (List.range 6).map (upd0 cxM b1.live).rem ∧
    slacks (update cxM b1.time b1.live) = [2, 4, 2, 4, 0, 2] ∧
    slacks (update cxM a2.time a2.live) = [0, 0, 2, 0, 0, 2] ∧
    sortTasks cxM (update cxM b1.time b1.live) b1.logs .tslack [1, 2, 3, 4] = [4, 2, 1, 3] ∧
    sortTasks cxM (update cxM a2.time a2.live) a2.logs .tslack [1, 2, 3, 4] = [1, 3, 4, 2] := by
  decide +kernel

/-- **`Removal.pert_slack_shift` does not extend to general acyclic networks**, not even for
`l' = l`: -/
theorem C10_slack_shift_general_false :
    ¬ ∀ (m : Model) (l l' : Live) (time d : Nat), WF m → GraphOK m → Acyclic m → l'.rem = l.rem →
      ∀ t, t < m.nT → (pert m (time + d) l').lst t - (pert m (time + d) l').est t =
        (pert m time l).lst t - (pert m time l).est t := by
  intro h
  exact cx_slack_same_state
    (h cxM (upd0 cxM b1.live) (upd0 cxM b1.live) 1 1 cxM_wf cxM_graphOK cxM_acyclic rfl 1 (by decide))

#print axioms PDesy.C10_removal_tslack_counterexample
#print axioms PDesy.C10_removal_tslack_general_false
#print axioms PDesy.C10_removal_tslack_counterexample_4
#print axioms PDesy.C10_slack_shift_counterexample
#print axioms PDesy.C10_slack_shift_general_false

end PDesy
