/-
  PDesy.Props.C10Slack — C10, clause 3 under the priority rule TSLACK on general acyclic networks.

  `C10_removal` (PDesy/Props/C10Removal.lean) admits TSLACK on finish-to-start networks only
  (`Removal.SlackOK`).  Question: can that be weakened to "consistent acyclic network, any link
  kinds"?

  **History: it could not.**  The backward pass of `update_PERT_data` tested "`lft` not calculated
  yet" by `pre_lft < 0`.  A task that is WORKING behind a closed FF / SF finish gate overshoots
  (`remaining_work_amount < 0`); the `lft` stored along an SS link out of it is
  `lst(successor) + remaining`, negative at a small clock and non-negative a few steps later, and a
  negative one was overwritten by the next relaxation.  `SlackShift.cxM` (six tasks, FS / FF / SS
  links, two workers, absence list `[0]`), `cxM4` (absence list `[0, 1]`) and `cxR` (eight tasks,
  every skill ≤ 1, absence list `[0]`) were counterexamples — theorems
  `C10_removal_tslack_counterexample`, `…_counterexample_4`, `…_counterexample_rate1`,
  `C10_slack_shift_counterexample`, `C10_removal_tslack_general_false` of the previous version of
  this file — replayed on the Python code (`/repo` at c33e3f4): the run with absence, absence steps
  deleted, had 4 steps against 5 (13 against 15) and served two READY tasks in the other order.

  **Now: yes.**  The code remembers which tasks it has set in the current pass
  (`calculated_task_set`, `Pert.done`) and tests `pv not in calculated_task_set or pre_lft >= lft`;
  the model follows.  On the three former counterexamples the removal property holds
  (`C10_removal_tslack_cxM`, `_cxM4`, `_cxR`, both sides evaluated; replayed on the repaired Python
  code: it agrees), and in general:

  * `C10_lst_shift_general`: on a consistent acyclic network, ANY link kinds, ANY remaining work
    (negative too), ANY old PERT data, two computations on the same remaining work give `lst` and
    `lft` that differ by the difference `cpl' − cpl` of their critical path lengths.
  * `C10_slack_shift_general`: hence, `d` steps later, the total slack of EVERY task changes by the
    SAME constant `(cpl' − cpl) − d`.  The constant is `0` when no remaining work is negative
    (`C10_slack_shift_nonneg`) but not in general (`C10_slack_shift_constant`,
    `C10_slack_shift_general_false`: a tail task all of whose forward relaxations are rejected keeps
    the `eft` of an earlier `update_PERT_data`, and that stale `eft` is the critical path length).
  * `C10_taskLe_shift_general`: `sort_task_list` compares the tasks in the same way.
  * **`C10_removal_tslack_general`**: the statement of `C10_removal` with "TSLACK only on
    finish-to-start networks" weakened to "TSLACK only on consistent acyclic networks" — no
    condition on the link kinds, none on the signs of the remaining work.  It contains `C10_removal`
    (`C10_removal_of_general`).  `C10_removal_tslack_of_nonneg` and `C10_removal_tslack_partial`
    (the strongest statements before the repair) are corollaries.
-/
import PDesy.Lemmas.SlackShift
import PDesy.Model.Ser

namespace PDesy
open PDesy.Removal PDesy.Idem PDesy.PertSpec PDesy.SlackShift

/-! ### the general statements -/

/-- **C10.3, `lst` and `lft` on general networks.**  Consistent link lists (`GraphOK`), no cycle,
ANY mix of FS / SS / FF / SF links; `l` and `l'` have the same remaining work (any signs) and
arbitrary old PERT data; `time`, `time'` arbitrary.  Then every `lst` and every `lft` below `m.nT`
computed by `pert` at `time'` on `l'` is the one computed at `time` on `l` plus the difference of the
two critical path lengths.  (The backward pass contains no comparison with an absolute number.) -/
theorem C10_lst_shift_general {m : Model} (hok : GraphOK m) (hac : Acyclic m) (l l' : Live)
    (hr : l'.rem = l.rem) (time time' : Nat) :
    ∀ t, t < m.nT →
      (pert m time' l').lst t = (pert m time l).lst t + ((pert m time' l').cpl - (pert m time l).cpl) ∧
      (pert m time' l').lft t = (pert m time l).lft t + ((pert m time' l').cpl - (pert m time l).cpl) :=
  pert_lst_shift hok hac l l' hr time time'

/-- **C10.3, total slack on general networks: the same up to ONE constant.**  Under the same
hypotheses the total slack `lst − est` of every task below `m.nT`, computed `d` steps later, is the
earlier one plus `(cpl' − cpl) − d` — the same amount for all tasks. -/
theorem C10_slack_shift_general {m : Model} (hok : GraphOK m) (hac : Acyclic m) (l l' : Live)
    (hr : l'.rem = l.rem) (time d : Nat) :
    ∀ t, t < m.nT → (pert m (time + d) l').lst t - (pert m (time + d) l').est t =
      (pert m time l).lst t - (pert m time l).est t +
        (((pert m (time + d) l').cpl - (pert m time l).cpl) - (d : Rat)) :=
  pert_slack_shift_dag hok hac l l' hr time d

/-- **C10.3, the comparison of `sort_task_list`** for every rule but FIFO, TSLACK on any consistent
acyclic network (`DagOK m = GraphOK m ∧ Acyclic m`), any link kinds, any remaining work. -/
theorem C10_taskLe_shift_general (m : Model) (hwf : WF m) (rule : TaskRule) (hrule : rule ≠ .fifo)
    (l l' : Live) (hr : l'.rem = l.rem) (hsl : rule = .tslack → DagOK m)
    (time d : Nat) (lg lg' : Logs) (a b : Nat) (ha : a < m.nT) (hb : b < m.nT) :
    taskLe m (pert m (time + d) l') lg' rule a b = taskLe m (pert m time l) lg rule a b :=
  taskLe_pert_shift_dag m hwf rule hrule l l' hr hsl time d lg lg' a b ha hb

/-- **C10.3 with TSLACK on general acyclic networks.**  The statement of `C10_removal` with the
field `slack : rule = .tslack → SlackOK m` (finish-to-start links only) of `Removal.ModelOK`
weakened to `rule = .tslack → GraphOK m ∧ Acyclic m` (`ModelOKw DagOK`: consistent link lists, no
cycle, ANY mix of FS / SS / FF / SF links).  The other hypotheses are those of `C10_removal`: no
individual absences, no component lists an automatic task, in-range links, rule ≠ FIFO, non-negative
work amounts and skills (`WorkOK`), both `initialize` flags set,
`perform_auto_task_while_absence_time` off, run A ends with SUCCESS.  For every absence list `L`:
deleting the project-wide absence steps from the result of the run with `L`
(`remove_absence_time_list`) gives exactly the logs, the clock and the status of the run without
absence, which ends with SUCCESS as well. -/
theorem C10_removal_tslack_general (m : Model) (p : Params) (L : List Nat) (s : St)
    (hm : ModelOKw DagOK m p.rule) (hw : WorkOK m) (hs : p.initState = true)
    (hl : p.initLog = true) (hflag : p.autoFlag = false)
    (hsucc : (simulate m { p with absence := L } s).status = .success) :
    (removeAbs m (simulate m { p with absence := L } s)).logs = (simulate m { p with absence := [] } s).logs ∧
    (removeAbs m (simulate m { p with absence := L } s)).time = (simulate m { p with absence := [] } s).time ∧
    (removeAbs m (simulate m { p with absence := L } s)).status =
      (simulate m { p with absence := [] } s).status ∧
    (simulate m { p with absence := [] } s).status = .success :=
  removal_dag m p L s hm hw hs hl hflag hsucc

/-- `C10_removal` is the special case "TSLACK on finish-to-start networks" -/
theorem C10_removal_of_general (m : Model) (p : Params) (L : List Nat) (s : St)
    (hm : ModelOK m p.rule) (hw : WorkOK m) (hs : p.initState = true)
    (hl : p.initLog = true) (hflag : p.autoFlag = false)
    (hsucc : (simulate m { p with absence := L } s).status = .success) :
    (removeAbs m (simulate m { p with absence := L } s)).logs = (simulate m { p with absence := [] } s).logs ∧
    (removeAbs m (simulate m { p with absence := L } s)).time = (simulate m { p with absence := [] } s).time ∧
    (removeAbs m (simulate m { p with absence := L } s)).status =
      (simulate m { p with absence := [] } s).status ∧
    (simulate m { p with absence := [] } s).status = .success :=
  C10_removal_tslack_general m p L s (modelOKw_dag_of m p.rule hm) hw hs hl hflag hsucc

/-! ### the former counterexamples -/

/-- **The first former counterexample now satisfies C10.3.**

Model `SlackShift.cxM` (task list in this order, one team with both workers, targeted at all
tasks, no component, no workplace):

* `K`  work 1;
* `G`  work 2, input `K` (FS);
* `H`  work 1, input `K` (FS);
* `P`  work 1, input `G` (FF);
* `O1` automatic, work 3, input `P` (SS);
* `O2` automatic, work 1, input `P` (FS);
* worker `w0`: skill 1 for `K`, `G`, `H`;  worker `w1`: skill 3 for `P`.

Rule TSLACK, `perform_auto_task_while_absence_time` off, absence list `[0]`.  Step 0 `w0→K`,
`w1→P` (remaining work of `P`: 1 − 3 = −2, it stays WORKING until `G` is FINISHED and overshoots).
Before the repair of the backward pass run B (no absence) gave `G` the total slack 4 and `H` 2 at
time 1 (the stored `lft(P) = −1` was taken for "not calculated" and overwritten) and served `H`
first, run A (time 2, `lft(P) = 0`) gave `G` the slack 0 and served `G` first: 5 steps against 4
after `remove_absence_time_list`.  Now both runs serve `G, G, H`; run A takes 5 steps of which 1
absence step, run B 4, and the logs agree (both sides evaluated; the first conjuncts say that the
hypotheses of `C10_removal_tslack_general` hold). -/
theorem C10_removal_tslack_cxM :
    ModelOKw DagOK cxM .tslack ∧ WorkOK cxM ∧
    (simulate cxM { absence := [0], maxTime := 40 } St.fresh).status = .success ∧
    (simulate cxM { absence := [0], maxTime := 40 } St.fresh).time = 5 ∧
    (simulate cxM { absence := [], maxTime := 40 } St.fresh).status = .success ∧
    (simulate cxM { absence := [], maxTime := 40 } St.fresh).time = 4 ∧
    (removeAbs cxM (simulate cxM { absence := [0], maxTime := 40 } St.fresh)).time = 4 ∧
    (removeAbs cxM (simulate cxM { absence := [0], maxTime := 40 } St.fresh)).logs.wAsg 0 =
      [[0], [1], [1], [2]] ∧
    (simulate cxM { absence := [], maxTime := 40 } St.fresh).logs.wAsg 0 = [[0], [1], [1], [2]] ∧
    (simulate cxM { absence := [], maxTime := 40 } St.fresh).logs.tRem 3 = [-2, -5, -8, 0] ∧
    putLogs cxM (removeAbs cxM (simulate cxM { absence := [0], maxTime := 40 } St.fresh)).logs =
      putLogs cxM (simulate cxM { absence := [], maxTime := 40 } St.fresh).logs := by
  refine ⟨cxM_ok .tslack (by decide), cxM_workOK, ?_⟩
  decide +kernel

/-- … and by the general theorem (equality of the logs themselves) -/
example :
    (removeAbs cxM (simulate cxM { absence := [0], maxTime := 40 } St.fresh)).logs =
      (simulate cxM { absence := [], maxTime := 40 } St.fresh).logs :=
  (C10_removal_tslack_general cxM { maxTime := 40 } [0] St.fresh (cxM_ok .tslack (by decide))
    cxM_workOK rfl rfl rfl (by decide +kernel)).1

/-- **The second former counterexample** (skill 4 for `P`, absence list `[0, 1]`; the value the
backward pass used to misread was `−2` in run B, not the marker `−1` itself): 6 steps of which 2
absence steps against 4, same logs. -/
theorem C10_removal_tslack_cxM4 :
    ModelOKw DagOK cxM4 .tslack ∧
    (simulate cxM4 { absence := [0, 1], maxTime := 40 } St.fresh).status = .success ∧
    (simulate cxM4 { absence := [0, 1], maxTime := 40 } St.fresh).time = 6 ∧
    (removeAbs cxM4 (simulate cxM4 { absence := [0, 1], maxTime := 40 } St.fresh)).time = 4 ∧
    (simulate cxM4 { absence := [], maxTime := 40 } St.fresh).time = 4 ∧
    putLogs cxM4 (removeAbs cxM4 (simulate cxM4 { absence := [0, 1], maxTime := 40 } St.fresh)).logs =
      putLogs cxM4 (simulate cxM4 { absence := [], maxTime := 40 } St.fresh).logs := by
  refine ⟨cxM4_ok .tslack (by decide), ?_⟩
  decide +kernel

/-- **The third former counterexample: all progress rates ≤ 1.**  Model `SlackShift.cxR`: eight
tasks, three workers, every skill ≤ 1, at most one skilled worker per task, automatic tasks at
rate 1 (`cxR_rates`); links FS and FF.  Rule TSLACK.  Before the repair, with the absence list
`[0]`, the run with absence had 13 steps after `remove_absence_time_list` and worker `0` served
`K, g, g, h, h`, the run without absence had 15 steps and worker `0` served `K, h, h, g, g`.  Now
both serve `K, g, g, h, h` and take 13 working steps, and the logs agree.  (The absence list
`[1]`, where the absence step falls into the period in which the tail `q` keeps a stale `eft` and
the slacks of the two runs differ by a non-zero constant: next `example`.) -/
theorem C10_removal_tslack_cxR :
    ModelOKw DagOK cxR .tslack ∧ WorkOK cxR ∧
    (simulate cxR { absence := [0], maxTime := 80 } St.fresh).status = .success ∧
    (simulate cxR { absence := [0], maxTime := 80 } St.fresh).time = 14 ∧
    (removeAbs cxR (simulate cxR { absence := [0], maxTime := 80 } St.fresh)).time = 13 ∧
    (simulate cxR { absence := [], maxTime := 80 } St.fresh).time = 13 ∧
    ((removeAbs cxR (simulate cxR { absence := [0], maxTime := 80 } St.fresh)).logs.wAsg 0).take 5 =
      [[0], [1], [1], [2], [2]] ∧
    ((simulate cxR { absence := [], maxTime := 80 } St.fresh).logs.wAsg 0).take 5 =
      [[0], [1], [1], [2], [2]] ∧
    putLogs cxR (removeAbs cxR (simulate cxR { absence := [0], maxTime := 80 } St.fresh)).logs =
      putLogs cxR (simulate cxR { absence := [], maxTime := 80 } St.fresh).logs := by
  refine ⟨cxR_ok .tslack (by decide), cxR_workOK, ?_⟩
  decide +kernel

/-- `cxR` with the absence list `[1]` (the states of `C10_slack_shift_constant` below lie on these
runs): 14 steps of which 1 absence step against 13, same logs -/
example :
    (simulate cxR { absence := [1], maxTime := 80 } St.fresh).status = .success ∧
    (simulate cxR { absence := [1], maxTime := 80 } St.fresh).time = 14 ∧
    (simulate cxR { absence := [], maxTime := 80 } St.fresh).time = 13 ∧
    putLogs cxR (removeAbs cxR (simulate cxR { absence := [1], maxTime := 80 } St.fresh)).logs =
      putLogs cxR (simulate cxR { absence := [], maxTime := 80 } St.fresh).logs := by
  decide +kernel

/-- under every other admitted rule `C10_removal` applied to `cxM` already (no condition on link
kinds) -/
example : ∀ rule ∈ [TaskRule.est, .spt, .lpt, .lrpt, .srpt, .lwrpt, .swrpt],
    putLogs cxM (removeAbs cxM (simulate cxM { rule := rule, absence := [0], maxTime := 40 } St.fresh)).logs =
      putLogs cxM (simulate cxM { rule := rule, absence := [], maxTime := 40 } St.fresh).logs := by
  decide +kernel

/-- **Where the difference came from, and that it is gone**: the states the two runs of `cxM` reach
after their first working step (same task states, same remaining work `[0, 2, 1, −2, 3, 1]`, clocks
1 and 2) now have the same total slacks and the same order of `sort_task_list` (before the repair:
slacks `[2, 4, 2, 4, 0, 2]` against `[0, 0, 2, 0, 0, 2]`, orders `[4, 2, 1, 3]` against
`[1, 3, 4, 2]`). -/
theorem C10_slack_shift_cxM :
    a2.time = b1.time + 1 ∧
    (List.range 6).map (upd0 cxM a2.live).rem = (List.range 6).map (upd0 cxM b1.live).rem ∧
    slacks (update cxM b1.time b1.live) = [0, 0, 2, 0, 0, 2] ∧
    slacks (update cxM a2.time a2.live) = [0, 0, 2, 0, 0, 2] ∧
    sortTasks cxM (update cxM b1.time b1.live) b1.logs .tslack [1, 2, 3, 4] = [1, 3, 4, 2] ∧
    sortTasks cxM (update cxM a2.time a2.live) a2.logs .tslack [1, 2, 3, 4] = [1, 3, 4, 2] := by
  decide +kernel

/-- **The slack itself is still not shift invariant — only up to a constant.**  `cxR`, absence list
`[1]`: the states the two runs reach after their first working step (and, in run A, the absence
step 1) have the same remaining work `[0, 2, 2, −3/4, −1/8, 1, 10, 1]` and the clocks 1 and 2; the
critical path length is `21/2` in both (the stale `eft` of the tail `q`), every slack of run A is
the slack of run B minus 1 (as `C10_slack_shift_general` says: `(21/2 − 21/2) − 1`), and the order of
`sort_task_list` is the same. -/
theorem C10_slack_shift_constant :
    aR.time = bR.time + 1 ∧
    (List.range 8).map (upd0 cxR aR.live).rem = (List.range 8).map (upd0 cxR bR.live).rem ∧
    (update cxR bR.time bR.live).cpl = 21/2 ∧ (update cxR aR.time aR.live).cpl = 21/2 ∧
    slacks8 (update cxR bR.time bR.live) = [-3/8, -3/8, 15/2, -3/8, -3/8, 15/2, -1/2, 15/2] ∧
    slacks8 (update cxR aR.time aR.live) = [-11/8, -11/8, 13/2, -11/8, -11/8, 13/2, -3/2, 13/2] ∧
    sortTasks cxR (update cxR bR.time bR.live) bR.logs .tslack [1, 2, 3, 4] = [1, 3, 4, 2] ∧
    sortTasks cxR (update cxR aR.time aR.live) aR.logs .tslack [1, 2, 3, 4] = [1, 3, 4, 2] := by
  decide +kernel

/-- **`Removal.pert_slack_shift` (the slack is exactly the same) does not extend to general acyclic
networks**, not even for `l' = l` — new witness: `cxR` at the state above, task `K`, slack `−3/8` at
time 1 and `−11/8` at time 2.  (Before the repair the witness was `cxM`.)  What does extend is
`C10_slack_shift_general`. -/
theorem C10_slack_shift_general_false :
    ¬ ∀ (m : Model) (l l' : Live) (time d : Nat), WF m → GraphOK m → Acyclic m → l'.rem = l.rem →
      ∀ t, t < m.nT → (pert m (time + d) l').lst t - (pert m (time + d) l').est t =
        (pert m time l).lst t - (pert m time l).est t := by
  intro h
  exact cxR_slack_same_state
    (h cxR (upd0 cxR bR.live) (upd0 cxR bR.live) 1 1 cxR_wf cxR_graphOK cxR_acyclic rfl 0 (by decide))

/-! ### no negative remaining work: the constant is zero -/

/-- **C10.3, `est` and `lst` on general networks.**  Consistent link lists (`GraphOK`), no cycle,
ANY mix of FS / SS / FF / SF links; `l` has no negative remaining work and `l'` has the same
remaining work.  Then `pert` at time `time + d` on `l'` gives every `est` and every `lst` below
`m.nT` exactly `d` later than `pert` at time `time` on `l`. -/
theorem C10_pert_shift_nonneg {m : Model} (hok : GraphOK m) (hac : Acyclic m) (l l' : Live)
    (hr : l'.rem = l.rem) (hnn : ∀ t, t < m.nT → 0 ≤ l.rem t) (time d : Nat) :
    ∀ t, t < m.nT → (pert m (time + d) l').est t = (pert m time l).est t + (d : Rat) ∧
      (pert m (time + d) l').lst t = (pert m time l).lst t + (d : Rat) :=
  pert_shift_nonneg hok hac l l' hr hnn time d

/-- **C10.3, total slack on general networks without negative remaining work.**  Under the same
hypotheses the total slack `lst − est` of every task does not depend on the time: the constant of
`C10_slack_shift_general` is `0`.  (`Removal.pert_slack_shift` without "finish-to-start only".) -/
theorem C10_slack_shift_nonneg {m : Model} (hok : GraphOK m) (hac : Acyclic m) (l l' : Live)
    (hr : l'.rem = l.rem) (hnn : ∀ t, t < m.nT → 0 ≤ l.rem t) (time d : Nat) :
    ∀ t, t < m.nT → (pert m (time + d) l').lst t - (pert m (time + d) l').est t =
      (pert m time l).lst t - (pert m time l).est t :=
  pert_slack_shift_nonneg hok hac l l' hr hnn time d

/-- `C10_taskLe_shift_general` in the form it had before the repair of the backward pass: TSLACK on
any consistent acyclic network (`DagOK`) on states without negative remaining work (that
hypothesis is no longer used). -/
theorem C10_taskLe_shift_nonneg (m : Model) (hwf : WF m) (rule : TaskRule) (hrule : rule ≠ .fifo)
    (l l' : Live) (hr : l'.rem = l.rem)
    (hsl : rule = .tslack → DagOK m ∧ ∀ t, t < m.nT → 0 ≤ l.rem t)
    (time d : Nat) (lg lg' : Logs) (a b : Nat) (ha : a < m.nT) (hb : b < m.nT) :
    taskLe m (pert m (time + d) l') lg' rule a b = taskLe m (pert m time l) lg rule a b :=
  taskLe_pert_shift_nonneg m hwf rule hrule l l' hr hsl time d lg lg' a b ha hb

/-- all four link kinds: `0 →FS 1`, `0 →SS 2`, `1 →FF 3`, `2 →SF 3` -/
def allM : Model where
  nT := 4
  nW := 0
  nF := 0
  nTeam := 0
  nWp := 0
  nC := 0
  task := fun t =>
    match t with
    | 0 => { name := 0, work := 2, outputs := [(1, .fs), (2, .ss)] }
    | 1 => { name := 1, work := 3, inputs := [(0, .fs)], outputs := [(3, .ff)] }
    | 2 => { name := 2, work := 1, inputs := [(0, .ss)], outputs := [(3, .sf)] }
    | _ => { name := 3, work := 2, inputs := [(1, .ff), (2, .sf)] }
  worker := fun _ => {}
  fac := fun _ => {}
  team := fun _ => {}
  wp := fun _ => {}
  comp := fun _ => {}

/-- the state with the full work amounts left -/
def allL : Live := { Live.empty with rem := fun t => (allM.task t).work }

theorem allM_cases {t : Nat} (ht : t < allM.nT) : t = 0 ∨ t = 1 ∨ t = 2 ∨ t = 3 := by
  simp only [allM] at ht; omega

theorem allM_acyclic : Acyclic allM := by
  refine ⟨id, ?_⟩
  intro t ht
  rcases allM_cases ht with rfl | rfl | rfl | rfl <;> decide +kernel

theorem allL_nonneg : ∀ t, t < allM.nT → 0 ≤ allL.rem t := by
  intro t ht
  rcases allM_cases ht with rfl | rfl | rfl | rfl <;> decide +kernel

/-- `C10_slack_shift_nonneg` applies to a network with all four link kinds … -/
example : ∀ t, t < allM.nT → (pert allM (0 + 3) allL).lst t - (pert allM (0 + 3) allL).est t =
    (pert allM 0 allL).lst t - (pert allM 0 allL).est t :=
  C10_slack_shift_nonneg (by decide +kernel) allM_acyclic allL allL rfl allL_nonneg 0 3

/-- … where the slacks are not all zero (evaluated: `est`, `lst` at time 0 and at time 3) -/
example :
    (List.range 4).map (fun t => ((pert allM 0 allL).est t, (pert allM 0 allL).lst t)) =
      [(0, 1), (2, 3), (0, 3), (2, 3)] ∧
    (List.range 4).map (fun t => ((pert allM 3 allL).est t, (pert allM 3 allL).lst t)) =
      [(3, 4), (5, 6), (3, 6), (5, 6)] := by decide +kernel

/-- and to the network of the former counterexample, as long as nothing has overshot (the state
the runs enter their loops with) -/
example : ∀ t, t < cxM.nT →
    (pert cxM (0 + 7) (enter cxM pB St.fresh).live).lst t - (pert cxM (0 + 7) (enter cxM pB St.fresh).live).est t =
      (pert cxM 0 (enter cxM pB St.fresh).live).lst t - (pert cxM 0 (enter cxM pB St.fresh).live).est t :=
  C10_slack_shift_nonneg cxM_graphOK cxM_acyclic _ _ rfl
    (fun t ht => by
      rcases cxM_cases ht with rfl | rfl | rfl | rfl | rfl | rfl <;> decide +kernel) 0 7

/-- **C10.3 for TSLACK on a general acyclic network, given that nothing overshoots** — the
strongest statement before the repair of the backward pass, now a corollary of
`C10_removal_tslack_general` (the hypotheses on `J` are not used any more).
`ModelOKw DagOK` is `Removal.ModelOK` with "TSLACK only on finish-to-start networks" replaced by
"TSLACK only on consistent acyclic networks" (any link kinds).  `J` is any invariant of the run
with absence list `L` (it holds when the loop is entered and is preserved by `__update` followed
by one step) under which, if the rule is TSLACK, no task has negative remaining work after
`check_state(FINISHED)` (`NonNeg`).  Then the conclusion of `C10_removal` holds. -/
theorem C10_removal_tslack_of_nonneg (m : Model) (p : Params) (L : List Nat) (s : St)
    (hm : ModelOKw DagOK m p.rule) (hw : WorkOK m) (hs : p.initState = true)
    (hl : p.initLog = true) (hflag : p.autoFlag = false)
    (J : St → Prop) (hJ0 : J (enter m { p with absence := L } s))
    (hJ : ∀ a0, J a0 → J (stepBody m { p with absence := L } (updated m a0)))
    (hJnn : p.rule = .tslack → ∀ a0, J a0 → NonNeg m a0)
    (hsucc : (simulate m { p with absence := L } s).status = .success) :
    (removeAbs m (simulate m { p with absence := L } s)).logs = (simulate m { p with absence := [] } s).logs ∧
    (removeAbs m (simulate m { p with absence := L } s)).time = (simulate m { p with absence := [] } s).time ∧
    (removeAbs m (simulate m { p with absence := L } s)).status =
      (simulate m { p with absence := [] } s).status ∧
    (simulate m { p with absence := [] } s).status = .success :=
  removal_nonneg m p L s hm hw hs hl hflag J hJ0 hJ hJnn hsucc

/-- **C10.3 for TSLACK, partial result: networks of FS and SS links.**  The statement of
`C10_removal` with the field `slack` of `ModelOK` weakened from `SlackOK` (FS links only) to
`SlackOK2 m = NoFinishGate m ∧ GraphOK m ∧ Acyclic m` (no FF / SF link, consistent, acyclic):
without a finish gate a task that reaches remaining work ≤ 0 is FINISHED (and clamped to 0) by the
next `__update`, so no remaining work is negative where the tasks are sorted.
(Before the repair of the backward pass this was where the property stopped; now a corollary of
`C10_removal_tslack_general`, which has no condition on the link kinds.) -/
theorem C10_removal_tslack_partial (m : Model) (p : Params) (L : List Nat) (s : St)
    (hm : ModelOKw SlackOK2 m p.rule) (hw : WorkOK m) (hs : p.initState = true)
    (hl : p.initLog = true) (hflag : p.autoFlag = false)
    (hsucc : (simulate m { p with absence := L } s).status = .success) :
    (removeAbs m (simulate m { p with absence := L } s)).logs = (simulate m { p with absence := [] } s).logs ∧
    (removeAbs m (simulate m { p with absence := L } s)).time = (simulate m { p with absence := [] } s).time ∧
    (removeAbs m (simulate m { p with absence := L } s)).status =
      (simulate m { p with absence := [] } s).status ∧
    (simulate m { p with absence := [] } s).status = .success :=
  removal_noGate m p L s hm hw hs hl hflag hsucc

/-- four tasks, FS and SS links: `0` ordinary (work 2); `1` automatic (work 2), start-to-start
after `0`; `2` ordinary (work 1), finish-to-start after `0`; `3` ordinary (work 1),
finish-to-start after `1` and start-to-start after `2`; one worker for the ordinary ones -/
def fsM : Model where
  nT := 4
  nW := 1
  nF := 0
  nTeam := 1
  nWp := 0
  nC := 0
  task := fun t =>
    match t with
    | 0 => { name := 0, work := 2, outputs := [(1, .ss), (2, .fs)] }
    | 1 => { name := 1, work := 2, isAuto := true, inputs := [(0, .ss)], outputs := [(3, .fs)] }
    | 2 => { name := 2, work := 1, inputs := [(0, .fs)], outputs := [(3, .ss)] }
    | _ => { name := 3, work := 1, inputs := [(1, .fs), (2, .ss)] }
  worker := fun _ => { team := 0, skills := [(0, 1), (2, 1), (3, 1)] }
  fac := fun _ => {}
  team := fun _ => { workers := [0], targets := [0, 1, 2, 3] }
  wp := fun _ => {}
  comp := fun _ => {}

theorem fsM_cases {t : Nat} (ht : t < fsM.nT) : t = 0 ∨ t = 1 ∨ t = 2 ∨ t = 3 := by
  simp only [fsM] at ht; omega

theorem fsM_ok (rule : TaskRule) (h : rule ≠ .fifo) : ModelOKw SlackOK2 fsM rule where
  noInd := ⟨fun _ _ => rfl, fun _ _ => rfl⟩
  compNoAuto := fun c t ht => by simp [fsM] at ht
  wf := by
    intro t ht
    rcases fsM_cases ht with rfl | rfl | rfl | rfl <;> decide +kernel
  notFifo := h
  slack := fun _ => by
    refine ⟨?_, by decide +kernel, ⟨id, ?_⟩⟩
    · intro t ht
      rcases fsM_cases ht with rfl | rfl | rfl | rfl <;> decide +kernel
    · intro t ht
      rcases fsM_cases ht with rfl | rfl | rfl | rfl <;> decide +kernel

theorem fsM_workOK : WorkOK fsM := by
  intro t ht
  rcases fsM_cases ht with rfl | rfl | rfl | rfl <;> decide +kernel

/-- `C10_removal_tslack_partial` applies (rule TSLACK, absence list `[1, 1, 3, 30]`; run A takes 6
steps of which 2 are absence steps, run B takes 4) … -/
example :
    (removeAbs fsM (simulate fsM { absence := [1, 1, 3, 30], maxTime := 40 } St.fresh)).logs =
      (simulate fsM { absence := [], maxTime := 40 } St.fresh).logs :=
  (C10_removal_tslack_partial fsM { maxTime := 40 } [1, 1, 3, 30] St.fresh (fsM_ok .tslack (by decide))
    fsM_workOK rfl rfl rfl (by decide +kernel)).1

/-- … and, independently of the theorem, both sides evaluated -/
example :
    (simulate fsM { absence := [1, 1, 3, 30], maxTime := 40 } St.fresh).time = 6 ∧
    (simulate fsM { absence := [], maxTime := 40 } St.fresh).time = 4 ∧
    putLogs fsM (removeAbs fsM (simulate fsM { absence := [1, 1, 3, 30], maxTime := 40 } St.fresh)).logs =
      putLogs fsM (simulate fsM { absence := [], maxTime := 40 } St.fresh).logs := by
  decide +kernel

#print axioms PDesy.C10_lst_shift_general
#print axioms PDesy.C10_slack_shift_general
#print axioms PDesy.C10_taskLe_shift_general
#print axioms PDesy.C10_removal_tslack_general
#print axioms PDesy.C10_removal_of_general
#print axioms PDesy.C10_removal_tslack_cxM
#print axioms PDesy.C10_removal_tslack_cxM4
#print axioms PDesy.C10_removal_tslack_cxR
#print axioms PDesy.C10_slack_shift_cxM
#print axioms PDesy.C10_slack_shift_constant
#print axioms PDesy.C10_slack_shift_general_false
#print axioms PDesy.C10_pert_shift_nonneg
#print axioms PDesy.C10_slack_shift_nonneg
#print axioms PDesy.C10_taskLe_shift_nonneg
#print axioms PDesy.C10_removal_tslack_of_nonneg
#print axioms PDesy.C10_removal_tslack_partial

end PDesy
