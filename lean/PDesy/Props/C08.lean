/-
  PDesy.Props.C08 — "Every log has one entry per simulated step, equal to that step's live
  state".

  * `Aligned m s` (Lemmas/Defs): every per-step log of `s` (for every index below the model's
    sizes) has exactly `s.time` entries.
  * `Logs.RowAt m lg n wk l` (Lemmas/Logs): entry `n` of every one of the 17 logs of `lg` is the
    displayed value of the live state `l` (display rule with working flag `wk`: at an absence
    step a WORKING task/component is shown READY and every worker/facility ABSENCE).
  * `trace m p fuel s` (Model/Trace): the project states right after each executed step.
-/
import PDesy.Lemmas.Logs

namespace PDesy
open PDesy.Logs

variable {m : Model} {p : Params}

/-! ### alignment is an invariant -/

/-- `Aligned` only looks at the logs and the clock: a state with the same logs and the same
time as an aligned state is aligned. -/
theorem C08_aligned_congr {s s' : St} (hl : s'.logs = s.logs) (ht : s'.time = s.time)
    (h : Aligned m s) : Aligned m s' := by
  obtain ⟨h1, h2, h3, h4, h5, h6, h7, h8, h9, h10, h11, h12, h13, h14, h15, h16, h17⟩ := h
  constructor <;> rw [hl, ht] <;> assumption

/-- One loop iteration (`stepBody`: absence, allocate, check WORKING, cost, perform, record,
tick) appends exactly one entry to every log and advances the clock by one. -/
theorem C08_aligned_step (s : St) (h : Aligned m s) : Aligned m (stepBody m p s) := by
  obtain ⟨h1, h2, h3, h4, h5, h6, h7, h8, h9, h10, h11, h12, h13, h14, h15, h16, h17⟩ := h
  constructor <;> (try intro x hx) <;> simp [stepBody, record, cost, *]

/-- The `__update` block at the top of an iteration touches neither logs nor clock. -/
theorem C08_aligned_updated (s : St) (h : Aligned m s) : Aligned m (updated m s) :=
  C08_aligned_congr (s := s) rfl rfl h

/-- Changing `status` keeps alignment. -/
theorem C08_aligned_status (s : St) (st : Status) (h : Aligned m s) :
    Aligned m { s with status := st } := C08_aligned_congr (s := s) rfl rfl h

/-- Changing `mode` keeps alignment. -/
theorem C08_aligned_mode (s : St) (md : Mode) (h : Aligned m s) :
    Aligned m { s with mode := md } := C08_aligned_congr (s := s) rfl rfl h

/-- Changing the stored absence list keeps alignment. -/
theorem C08_aligned_absence (s : St) (ab : List Nat) (h : Aligned m s) :
    Aligned m { s with absence := ab } := C08_aligned_congr (s := s) rfl rfl h

/-- Changing the auto-task flag keeps alignment. -/
theorem C08_aligned_autoFlag (s : St) (b : Bool) (h : Aligned m s) :
    Aligned m { s with autoFlag := b } := C08_aligned_congr (s := s) rfl rfl h

/-- The whole `while True` loop, with any fuel, keeps alignment. -/
theorem C08_aligned_loop (fuel : Nat) (s : St) (h : Aligned m s) : Aligned m (loop m p fuel s) :=
  loop_inv m p (Aligned m) C08_aligned_updated (fun s hs _ => C08_aligned_step s hs)
    (fun s st hs => C08_aligned_status s st hs) fuel s h

/-- `initialize(state_info, log_info=True)` resets the clock and all logs together: the result
is aligned whatever the state before. -/
theorem C08_aligned_init (stateInfo : Bool) (s : St) :
    Aligned m (initProject m stateInfo true s) := by
  constructor <;> (try intro x hx) <;> cases stateInfo <;> simp [initProject, clearLogs, Logs.empty]

/-- `initialize(state_info, log_info=False)` touches neither logs nor clock. -/
theorem C08_aligned_init_keep (stateInfo : Bool) (s : St) (h : Aligned m s) :
    Aligned m (initProject m stateInfo false s) := by
  refine C08_aligned_congr ?_ ?_ h <;> cases stateInfo <;> rfl

/-- The state a run enters its loop with is aligned if the run clears the logs or the project
was aligned before. -/
theorem C08_aligned_enter (s : St) (h : p.initLog = true ∨ Aligned m s) :
    Aligned m (enter m p s) := by
  refine C08_aligned_congr (s := initProject m p.initState p.initLog s) rfl rfl ?_
  rcases h with h | h
  · rw [h]; exact C08_aligned_init _ _
  · cases hl : p.initLog
    · exact C08_aligned_init_keep _ _ h
    · exact C08_aligned_init _ _

/-- **C08 (counting).**  After `simulate`, every log has exactly `project.time` entries —
provided the run cleared the logs (`initLog = true`, the default) or the project was aligned
before the run (e.g. it is the result of an earlier run). -/
theorem C08_run (s : St) (h : p.initLog = true ∨ Aligned m s) : Aligned m (simulate m p s) := by
  rw [simulate_eq]; exact C08_aligned_loop _ _ (C08_aligned_enter s h)

example : Aligned demo St.fresh := by
  constructor <;> simp [St.fresh, Logs.empty]
example : demoP.initLog = true := rfl
example : (simulate demo demoP St.fresh).time = 4 := by decide +kernel
example : ((simulate demo demoP St.fresh).logs.tState 1).length = 4 := by decide +kernel

/-! ### the clock counts the executed steps -/

/-- The loop advances the clock by the number of steps it executed (= the length of its
trace). -/
theorem C08_time (fuel : Nat) (s : St) :
    (loop m p fuel s).time = s.time + (trace m p fuel s).length := loop_time fuel s

/-- After a run that cleared the logs, `project.time` is the number of executed steps (and by
`C08_run` the length of every log). -/
theorem C08_run_time (s : St) (h : p.initLog = true) :
    (simulate m p s).time = (runTrace m p s).length := by
  rw [simulate_eq, C08_time, enter_time s h, Nat.zero_add]; rfl

example : (runTrace demo demoP St.fresh).length = 4 := by decide +kernel

/-- The `k`-th executed step of the loop ran at time `s.time + k` (its recorded state carries
the clock already ticked). -/
theorem C08_trace_time (fuel : Nat) (s : St) (k : Nat) (hk : k < (trace m p fuel s).length) :
    ((trace m p fuel s)[k]).time = s.time + k + 1 := trace_time fuel s k hk

/-! ### the content of the logs -/

/-- **The bridge.**  The logs after the loop are the logs before it plus one row per state of
the trace (row = `cost` then `record` of that state's live data, with the working flag of the
time the step ran at). -/
theorem C08_bridge (fuel : Nat) (s : St) :
    (loop m p fuel s).logs = rowLogs m p s.logs (trace m p fuel s) := loop_logs fuel s

/-- **C08 (content).**  If the logs are aligned when the loop starts, then for every executed
step `k`, entry `s.time + k` of each of the 17 logs of the final state is the displayed value
of the corresponding live attribute of `trace[k]`, the project state when step `k` was
recorded; the display rule is that of time `s.time + k` (working step: the live value itself;
absence step: WORKING task/component shown READY, every worker/facility ABSENCE, all costs 0). -/
theorem C08_entry (fuel : Nat) (s : St) (h : Aligned m s) (k : Nat)
    (hk : k < (trace m p fuel s).length) :
    RowAt m (loop m p fuel s).logs (s.time + k) (workingAt p (s.time + k))
      ((trace m p fuel s)[k]).live := by
  have h1 := rowLogs_rowAt (p := p) s h (trace m p fuel s) k hk
  rw [trace_time fuel s k hk, Nat.add_sub_cancel, ← loop_logs] at h1
  exact h1

example : 2 < (trace demo demoP 9 St.fresh).length := by decide +kernel

/-- **C08 for a whole run.**  After `simulate` with `initLog = true`, entry `k` of every log is
the displayed live value of the state recorded at step `k`, for every executed step `k`. -/
theorem C08_run_entry (s : St) (h : p.initLog = true) (k : Nat)
    (hk : k < (runTrace m p s).length) :
    RowAt m (simulate m p s).logs k (workingAt p k) ((runTrace m p s)[k]).live := by
  have h1 := C08_entry (p := p) (fuelOf p (enter m p s)) (enter m p s)
    (C08_aligned_enter s (Or.inl h)) k hk
  rw [enter_time s h, Nat.zero_add] at h1
  exact h1

/-- the demo run: step 1 is an absence step; worker 0 is WORKING on task 0 but shown ABSENCE,
and task 0 is shown READY -/
example : ((simulate demo demoP St.fresh).logs.wState 0)[1]? = some RS.absence ∧
    ((simulate demo demoP St.fresh).logs.tState 0)[1]? = some TS.ready ∧
    ((runTrace demo demoP St.fresh)[1]?.map fun s => s.live.tstate 0) = some TS.working := by
  decide +kernel

end PDesy

#print axioms PDesy.C08_aligned_step
#print axioms PDesy.C08_aligned_loop
#print axioms PDesy.C08_aligned_init
#print axioms PDesy.C08_aligned_init_keep
#print axioms PDesy.C08_run
#print axioms PDesy.C08_time
#print axioms PDesy.C08_run_time
#print axioms PDesy.C08_bridge
#print axioms PDesy.C08_entry
#print axioms PDesy.C08_run_entry
