/-
  PDesy.Props.C20 — "A sub-project task lasts exactly as long as the sub-project it stands for".

  A sub-project task configured from the saved result of a successfully simulated project takes
  the sub-project's duration (optionally without its absence steps) as its work amount and, once
  its unit time is related to the parent project's, occupies exactly
  `⌈duration × sub-project unit / parent unit⌉` working steps of the parent simulation, starting
  at the first working step at which its dependencies allow it and needing no workers.  Configuring it from a project that
  was not simulated successfully is refused with a warning and leaves the task unchanged.

  Reading guide
  * Part A — the setters (`Model/SubProject`): `configureSub` (= `set_all_attributes_from_json`),
    `durationOf`, `relateSub` (= `set_work_amount_progress_of_unit_step_time`).
  * Part B — the parent run.  For the simulator a sub-project task is an AUTOMATIC task without
    component: `(m.task t).isAuto = true`, `(m.task t).comp = none`, work `D`, rate
    `r = (m.task t).autoRate`.  The hypotheses called "the setting" below are
        `t < m.nT`, `isAuto`, `comp = none`,
        `∀ e ∈ (m.task t).inputs, e.2 = .fs ∨ e.2 = .ss`   (no finish-gated input).
    `iter m p s = stepBody m p (updated m s)` is one loop iteration (`__update`, then the step);
    `Nat.repeat (iter m p) k s0` is the state recorded after `k` iterations from `s0`
    (`C20_trace`: consecutive entries of `trace` are such iterations).
    `activeAt p τ` = the step executed at time `τ` makes automatic tasks progress (a working
    step, or any step when `perform_auto_task_while_absence_time` is set);
    `Auto.acts p τ k` = the number of `j < k` with `activeAt p (τ + j)`;
    `Auto.ceilNat x` = `⌈x⌉` as a natural number (`x.ceil.toNat`).
  * Part C — A and B combined (`C20_steps`).

  Nothing starts at an INACTIVE step (a project absence step while automatic tasks are not
  performed during absence): a task that becomes READY there waits in READY, with all its work,
  until the next active step; a WORKING task rests there.  So the occupation runs from the first
  ACTIVE step at or after the step at which the dependencies allow the start.

  Known corner (kept as a finding, not claimed away): a task of duration 0 that becomes READY is
  still started and performed once, so it occupies one step instead of none; Part B is therefore
  stated for `D > 0` (`C20_iteration` shows the corner: READY with `x ≤ 0` ends an active step
  WORKING).
-/
import PDesy.Lemmas.Auto
import PDesy.Props.C01
import PDesy.Props.C04
import PDesy.Props.C06

namespace PDesy
open Auto

/-! ## Part A — configuring the task from a saved result -/

/-- **C20 (refused).**  Configuring from a result whose status is not SUCCESS changes nothing and
reports a warning. -/
theorem C20_refused (cfg : SubCfg) (r : SubResult) (remove : Bool) (h : r.status ≠ .success) :
    configureSub cfg r remove = (cfg, true) := by
  simp [configureSub, h]

/-- **C20 (configured).**  Configuring from a SUCCESS result sets the work amount to the duration
of the saved run (`durationOf`) and the unit time to the saved unit time, records the two flags,
leaves the rate alone and reports no warning. -/
theorem C20_configured (cfg : SubCfg) (r : SubResult) (remove : Bool) (h : r.status = .success) :
    (configureSub cfg r remove).1.work = ((durationOf r remove : Nat) : Rat) ∧
    (configureSub cfg r remove).1.unit = r.unit ∧
    (configureSub cfg r remove).1.rate = cfg.rate ∧
    (configureSub cfg r remove).1.readFile = true ∧
    (configureSub cfg r remove).1.removeAbs = remove ∧
    (configureSub cfg r remove).2 = false := by
  simp [configureSub, h]

/-- **C20 (duration, absence kept).**  Without removal the duration is the saved run's time. -/
theorem C20_duration_keep (r : SubResult) : durationOf r false = r.time := rfl

/-- **C20 (duration, absence removed).**  For an aligned saved result (cost list as long as the
run) the duration after `remove_absence_time_list` is the run's time minus the number of distinct
absence steps below it: `(List.range r.time).countP (· ∈ r.absence)` counts the `k < r.time`
with `k ∈ r.absence`, each once however often it is listed. -/
theorem C20_duration_remove (r : SubResult) (hal : r.costLen = r.time) :
    durationOf r true = r.time - (List.range r.time).countP (fun k => decide (k ∈ r.absence)) ∧
    durationOf r true ≤ r.time := by
  unfold durationOf
  rw [if_pos rfl, hal, stepsBelow_length]
  exact ⟨rfl, Nat.sub_le _ _⟩

/-- the steps counted are the members of the absence list below the run's time, each once -/
theorem C20_duration_steps (n : Nat) (xs : List Nat) :
    (∀ k, k ∈ stepsBelow n xs ↔ k < n ∧ k ∈ xs) ∧ (stepsBelow n xs).Nodup ∧
    (stepsBelow n xs).length = (List.range n).countP (fun k => decide (k ∈ xs)) :=
  ⟨mem_stepsBelow n xs, stepsBelow_nodup n xs, stepsBelow_length n xs⟩

/-- **C20 (duration, absence removed, plain list).**  If moreover the absence list is
duplicate-free and lies below the run's time, the duration is `time − absence.length`. -/
theorem C20_duration_remove_nodup (r : SubResult) (hal : r.costLen = r.time)
    (hnd : r.absence.Nodup) (hlt : ∀ k ∈ r.absence, k < r.time) :
    durationOf r true = r.time - r.absence.length := by
  unfold durationOf
  rw [if_pos rfl, hal, stepsBelow_length_of_nodup _ _ hnd hlt]

/-- **C20 (rate).**  Relating the task to the parent's unit time sets the rate to
`parent unit / sub-project unit` and nothing else. -/
theorem C20_rate (cfg : SubCfg) (u : Rat) :
    (relateSub cfg u).rate = u / cfg.unit ∧ (relateSub cfg u).work = cfg.work ∧
    (relateSub cfg u).unit = cfg.unit ∧ (relateSub cfg u).readFile = cfg.readFile ∧
    (relateSub cfg u).removeAbs = cfg.removeAbs :=
  ⟨rfl, rfl, rfl, rfl, rfl⟩

/-- hence `work / rate = duration × sub-project unit / parent unit` -/
theorem C20_rate_quotient (cfg : SubCfg) (u : Rat) (hu : 0 < u) (hc : 0 < cfg.unit) :
    (relateSub cfg u).work / (relateSub cfg u).rate = cfg.work * cfg.unit / u := by
  show cfg.work / (u / cfg.unit) = _
  have : u ≠ 0 := by grind
  have : cfg.unit ≠ 0 := by grind
  grind

namespace C20Ex

/-- a saved run of 5 steps, two of which (1 and 3) were absence steps; 7 is out of range and 3
is listed twice -/
def res : SubResult := { status := .success, time := 5, absence := [1, 3, 7, 3], costLen := 5, unit := 3600 }

def resFailed : SubResult := { res with status := .failure }

def cfg0 : SubCfg := { work := 0, unit := 1, rate := 1, readFile := false, removeAbs := false }

end C20Ex

example : C20Ex.resFailed.status ≠ .success ∧
    configureSub C20Ex.cfg0 C20Ex.resFailed true = (C20Ex.cfg0, true) := by decide +kernel

example : C20Ex.res.status = .success ∧ C20Ex.res.costLen = C20Ex.res.time ∧
    durationOf C20Ex.res false = 5 ∧ durationOf C20Ex.res true = 3 ∧
    (configureSub C20Ex.cfg0 C20Ex.res true).1.work = 3 ∧
    (relateSub (configureSub C20Ex.cfg0 C20Ex.res true).1 7200).rate = 2 := by decide +kernel

/-! ## Part B — the task in the parent run -/

/-- `⌈x⌉` as a natural number -/
theorem C20_ceilNat_def (x : Rat) : ceilNat x = x.ceil.toNat := rfl

/-- **C20 (ceiling).**  For `D > 0`, `r > 0` the number `n = ⌈D / r⌉` is at least 1, satisfies
`(n − 1) · r < D ≤ n · r`, and is the only natural number that does. -/
theorem C20_ceil {D r : Rat} (hD : 0 < D) (hr : 0 < r) :
    1 ≤ ceilNat (D / r) ∧
    ((ceilNat (D / r) : Rat) - 1) * r < D ∧ D ≤ (ceilNat (D / r) : Rat) * r ∧
    ∀ n' : Nat, ((n' : Rat) - 1) * r < D → D ≤ (n' : Rat) * r → n' = ceilNat (D / r) := by
  obtain ⟨h1, h2⟩ := ceilNat_spec hD hr
  exact ⟨h1, h2.1, h2.2, fun n' a b => IsCeil.unique hr ⟨a, b⟩ h2⟩

example : ceilNat ((3 : Rat) / 2) = 2 ∧ ceilNat ((4 : Rat) / 2) = 2 ∧ ceilNat ((5 : Rat) / 2) = 3 := by
  decide +kernel

/-- **C20 (one iteration).**  In the setting, if the task is READY or WORKING in `s` with
remaining work `x = s.live.rem t`, then after one loop iteration the time has advanced by 1 and
* if it was WORKING with `x ≤ 0`, it is FINISHED with remaining work 0 (it finishes in
  `__update`);
* otherwise, if the step is active, it is WORKING (a READY task is started in the same
  iteration, needing no worker) and its remaining work is `x − r`;
* otherwise, if the step is inactive (project absence, flag off), its state is unchanged — a
  READY task is not started there, a WORKING task rests — and its remaining work is `x`. -/
theorem C20_iteration (m : Model) (p : Params) (s : St) (t : Nat)
    (ht : t < m.nT) (ha : (m.task t).isAuto = true) (hc : (m.task t).comp = Option.none)
    (hg : ∀ e ∈ (m.task t).inputs, e.2 = .fs ∨ e.2 = .ss)
    (hs : s.live.tstate t = .ready ∨ s.live.tstate t = .working) :
    (iter m p s).time = s.time + 1 ∧
    (if s.live.tstate t = .working ∧ s.live.rem t ≤ 0 then
      (iter m p s).live.tstate t = .finished ∧ (iter m p s).live.rem t = 0
    else
      (iter m p s).live.tstate t =
        (if activeAt p s.time = true then .working else s.live.tstate t) ∧
      (iter m p s).live.rem t =
        s.live.rem t - (if activeAt p s.time = true then (m.task t).autoRate else 0)) := by
  have h : SubTask m t := ⟨ht, ha, hc, hg⟩
  refine ⟨rfl, ?_⟩
  split
  · rename_i hd
    exact iter_working_done h p s hd.1 hd.2
  · rename_i hd
    rcases hs with hs | hs
    · rw [hs]; exact iter_ready h p s hs
    · have := iter_working_pos h p s hs (Rat.not_le.mp fun hle => hd ⟨hs, hle⟩)
      refine ⟨?_, this.2⟩
      rw [this.1, hs]; split <;> rfl

/-- **C20 (recorded states are iterations).**  Entry `j + k` of the list of recorded states of a
run arises from entry `j` by `k` iterations, so everything below applies to the recorded states
of `simulate` with `s0 := (trace …)[j]`. -/
theorem C20_trace (m : Model) (p : Params) (fuel : Nat) (s : St) (j k : Nat)
    (h : j + k < (trace m p fuel s).length) :
    (trace m p fuel s)[j + k] = Nat.repeat (iter m p) k ((trace m p fuel s)[j]'(by omega)) :=
  trace_repeat p fuel s j k h

/-- time advances by one per iteration -/
theorem C20_time (m : Model) (p : Params) (s0 : St) (k : Nat) :
    (Nat.repeat (iter m p) k s0).time = s0.time + k :=
  repeat_iter_time p s0 k

/-- **C20 (occupation, while work is left).**  Setting as above, rate `r > 0`; `s0` is a state
whose `__update` leaves the task READY (it was READY, or it was NONE and its start gate has
just opened) with remaining work `D`; `n = ⌈D / r⌉`.  As long as fewer than `n` active steps
happened *before* an iteration, the task ends that iteration with remaining work
`D − acts · r`, where `acts` counts the active steps up to and including this iteration —
still READY (with all of `D`) while `acts = 0`, i.e. before the first active step, and WORKING
once `acts ≥ 1`; and as long as fewer than `n` happened up to and including it, that remaining
work is positive.  (In an inactive step `acts` does not grow: the task keeps its state and its
remaining work.) -/
theorem C20_working (m : Model) (p : Params) (s0 : St) (t : Nat)
    (ht : t < m.nT) (ha : (m.task t).isAuto = true) (hc : (m.task t).comp = Option.none)
    (hg : ∀ e ∈ (m.task t).inputs, e.2 = .fs ∨ e.2 = .ss)
    (hr : 0 < (m.task t).autoRate) {D : Rat} (hD : 0 < D)
    (hstart : (updated m s0).live.tstate t = .ready) (hrem : s0.live.rem t = D)
    (k : Nat) (hk : acts p s0.time k < ceilNat (D / (m.task t).autoRate)) :
    (Nat.repeat (iter m p) (k + 1) s0).live.tstate t =
      (if acts p s0.time (k + 1) = 0 then .ready else .working) ∧
    (Nat.repeat (iter m p) (k + 1) s0).live.rem t =
      D - (acts p s0.time (k + 1) : Rat) * (m.task t).autoRate ∧
    (acts p s0.time (k + 1) < ceilNat (D / (m.task t).autoRate) →
      0 < (Nat.repeat (iter m p) (k + 1) s0).live.rem t) := by
  have h : SubTask m t := ⟨ht, ha, hc, hg⟩
  have hn := (ceilNat_spec hD hr).2
  obtain ⟨w1, w2⟩ := run_working h p s0 hr hstart hrem hn k hk
  exact ⟨w1, w2, fun hlt => by rw [w2]; exact hn.rem_pos hr hlt⟩

/-- **C20 (occupation, the last working step and the end).**  Same setting.  Let iteration
`K + 1` be the one in which the `n`-th active step happens (`acts … K < n`,
`acts … (K + 1) = n`).  Then
* after it the task is WORKING with remaining work `D − n · r ≤ 0`;
* the task is WORKING at the end of exactly the iterations from the one of the first active
  step (`1 ≤ acts … j`) to `K + 1` — exactly `n` active steps, consecutive except for inactive
  steps in between;
* before the first active step (`acts … j = 0`) it is READY with remaining work `D`;
* from iteration `K + 2` on it is FINISHED with remaining work 0. -/
theorem C20_occupation (m : Model) (p : Params) (s0 : St) (t : Nat)
    (ht : t < m.nT) (ha : (m.task t).isAuto = true) (hc : (m.task t).comp = Option.none)
    (hg : ∀ e ∈ (m.task t).inputs, e.2 = .fs ∨ e.2 = .ss)
    (hr : 0 < (m.task t).autoRate) {D : Rat} (hD : 0 < D)
    (hstart : (updated m s0).live.tstate t = .ready) (hrem : s0.live.rem t = D)
    (K : Nat) (hK : acts p s0.time K < ceilNat (D / (m.task t).autoRate))
    (hK' : acts p s0.time (K + 1) = ceilNat (D / (m.task t).autoRate)) :
    ((Nat.repeat (iter m p) (K + 1) s0).live.tstate t = .working ∧
     (Nat.repeat (iter m p) (K + 1) s0).live.rem t =
       D - (ceilNat (D / (m.task t).autoRate) : Rat) * (m.task t).autoRate ∧
     D - (ceilNat (D / (m.task t).autoRate) : Rat) * (m.task t).autoRate ≤ 0) ∧
    (∀ j, 1 ≤ j → ((Nat.repeat (iter m p) j s0).live.tstate t = .working ↔
      1 ≤ acts p s0.time j ∧ j ≤ K + 1)) ∧
    (∀ j, 1 ≤ j → acts p s0.time j = 0 →
      (Nat.repeat (iter m p) j s0).live.tstate t = .ready ∧
      (Nat.repeat (iter m p) j s0).live.rem t = D) ∧
    (∀ j, K + 2 ≤ j → (Nat.repeat (iter m p) j s0).live.tstate t = .finished ∧
        (Nat.repeat (iter m p) j s0).live.rem t = 0) := by
  have h : SubTask m t := ⟨ht, ha, hc, hg⟩
  obtain ⟨hn1, hn⟩ := ceilNat_spec hD hr
  have hf := run_finished h p s0 hr hstart hrem hn hn1 K hK hK'
  refine ⟨hf.1, fun j hj => run_working_iff h p s0 hr hstart hrem hn hn1 K hK hK' j hj,
    fun j hj hz => run_ready h p s0 hr hstart hrem hn hn1 j hj hz, ?_⟩
  intro j hj
  have := hf.2 (j - (K + 2))
  rwa [show K + 2 + (j - (K + 2)) = j by omega] at this

/-- the `n`-th active step always comes: the iteration `K + 1` of `C20_occupation` exists (an
absence list is finite) and lies within `n + p.absence.length` iterations -/
theorem C20_occupation_ends (p : Params) (τ n : Nat) (hn : 1 ≤ n) :
    ∃ K, K < n + p.absence.length ∧ acts p τ K < n ∧ acts p τ (K + 1) = n :=
  exists_first p τ n (n + p.absence.length) hn
    (by have := acts_ge p τ (n + p.absence.length); omega)

/-- **C20 (duration without project absence).**  Same setting, and every step from `s0.time` on
is active (`C20_all_active`: no project absence, or the flag set).  Then the task is WORKING at
the end of exactly the iterations `1, …, n`, with remaining work `D − k · r` after iteration
`k ≤ n`, and FINISHED with remaining work 0 from iteration `n + 1` on: exactly
`n = ⌈D / r⌉` consecutive steps. -/
theorem C20_duration_no_absence (m : Model) (p : Params) (s0 : St) (t : Nat)
    (ht : t < m.nT) (ha : (m.task t).isAuto = true) (hc : (m.task t).comp = Option.none)
    (hg : ∀ e ∈ (m.task t).inputs, e.2 = .fs ∨ e.2 = .ss)
    (hr : 0 < (m.task t).autoRate) {D : Rat} (hD : 0 < D)
    (hstart : (updated m s0).live.tstate t = .ready) (hrem : s0.live.rem t = D)
    (hact : ∀ j, activeAt p (s0.time + j) = true) :
    (∀ k, 1 ≤ k → k ≤ ceilNat (D / (m.task t).autoRate) →
      (Nat.repeat (iter m p) k s0).live.rem t = D - (k : Rat) * (m.task t).autoRate) ∧
    (∀ j, 1 ≤ j → ((Nat.repeat (iter m p) j s0).live.tstate t = .working ↔
      j ≤ ceilNat (D / (m.task t).autoRate))) ∧
    (∀ j, ceilNat (D / (m.task t).autoRate) + 1 ≤ j →
      (Nat.repeat (iter m p) j s0).live.tstate t = .finished ∧
      (Nat.repeat (iter m p) j s0).live.rem t = 0) := by
  have hacts : ∀ k, acts p s0.time k = k := fun k => acts_all_active p s0.time k fun j _ => hact j
  obtain ⟨hn1, _⟩ := ceilNat_spec hD hr
  obtain ⟨K, hKn⟩ : ∃ K, ceilNat (D / (m.task t).autoRate) = K + 1 :=
    ⟨ceilNat (D / (m.task t).autoRate) - 1, by omega⟩
  have hocc := C20_occupation m p s0 t ht ha hc hg hr hD hstart hrem K
    (by rw [hacts]; omega) (by rw [hacts]; omega)
  refine ⟨?_, ?_, ?_⟩
  · intro k hk1 hk2
    obtain ⟨k', rfl⟩ : ∃ k', k = k' + 1 := ⟨k - 1, by omega⟩
    have := (C20_working m p s0 t ht ha hc hg hr hD hstart hrem k' (by rw [hacts]; omega)).2.1
    rw [this, hacts]
  · intro j hj; rw [hKn, hocc.2.1 j hj, hacts]
    exact ⟨fun h => h.2, fun h => ⟨hj, h⟩⟩
  · intro j hj; exact hocc.2.2.2 j (by omega)

/-- every step is active when the run has no project absence or performs automatic tasks during
absence -/
theorem C20_all_active (p : Params) (h : p.absence = [] ∨ p.autoFlag = true) (k : Nat) :
    activeAt p k = true := by
  rcases h with h | h
  · exact activeAt_of_nil p h k
  · exact activeAt_of_flag p h k

/-- **C20 (needs no worker).**  If the allocations of `s0` satisfy the eligibility invariant of
C04 (true after `initialize` and at every state of a run: `C04_init`, `C04_trace`), the task
holds no worker and no facility after any number of iterations. -/
theorem C20_no_worker (m : Model) (p : Params) (s0 : St) (t : Nat)
    (ht : t < m.nT) (ha : (m.task t).isAuto = true) (hI : Elig.EligInv m s0.live) (k : Nat) :
    (Nat.repeat (iter m p) k s0).live.allocW t = [] ∧
    (Nat.repeat (iter m p) k s0).live.allocF t = [] :=
  (repeat_iter_elig p s0 hI k t ht).auto ha

/-- **C20 (what the log shows).**  Same setting and `K` as in `C20_occupation`.  The rows the
iterations `1, …, K + 1` append to the task's state log are WORKING on working steps and READY
on project-absence steps (before its first active step the task IS still READY — such a step is
a project-absence step —, afterwards a WORKING task is displayed READY on an absence step), the
next row is FINISHED, and — when automatic tasks are not performed during absence — exactly `n`
of the `K + 1` rows show WORKING. -/
theorem C20_log (m : Model) (p : Params) (s0 : St) (t : Nat)
    (ht : t < m.nT) (ha : (m.task t).isAuto = true) (hc : (m.task t).comp = Option.none)
    (hg : ∀ e ∈ (m.task t).inputs, e.2 = .fs ∨ e.2 = .ss)
    (hr : 0 < (m.task t).autoRate) {D : Rat} (hD : 0 < D)
    (hstart : (updated m s0).live.tstate t = .ready) (hrem : s0.live.rem t = D)
    (K : Nat) (hK : acts p s0.time K < ceilNat (D / (m.task t).autoRate))
    (hK' : acts p s0.time (K + 1) = ceilNat (D / (m.task t).autoRate)) :
    (Nat.repeat (iter m p) (K + 2) s0).logs.tState t =
      s0.logs.tState t ++
        ((List.range (K + 1)).map fun j => if workingAt p (s0.time + j) = true then TS.working else TS.ready)
        ++ [TS.finished] ∧
    (p.autoFlag = false →
      ((List.range (K + 1)).map fun j =>
        if workingAt p (s0.time + j) = true then TS.working else TS.ready).count .working =
        ceilNat (D / (m.task t).autoRate)) := by
  have hocc := C20_occupation m p s0 t ht ha hc hg hr hD hstart hrem K hK hK'
  constructor
  · rw [repeat_iter_tState p s0 ht (K + 2), List.range_succ, List.map_append, List.append_assoc]
    congr 2
    · apply List.map_congr_left
      intro j hj
      have hj' : j < K + 1 := List.mem_range.mp hj
      by_cases hz : acts p s0.time (j + 1) = 0
      · -- before the first active step: READY, and the step is a project absence step
        rw [(hocc.2.2.1 (j + 1) (by omega) hz).1]
        have hna := ((acts_succ_eq_zero p s0.time j).mp hz).2
        have hw : workingAt p (s0.time + j) = false := by
          cases hw : workingAt p (s0.time + j)
          · rfl
          · exfalso; apply hna; unfold activeAt; unfold workingAt at hw; rw [hw]; rfl
        rw [hw]; simp [showT]
      · rw [(hocc.2.1 (j + 1) (by omega)).mpr ⟨by omega, by omega⟩]
        cases hw : workingAt p (s0.time + j) <;> simp [showT]
    · simp only [List.map_cons, List.map_nil]
      rw [(hocc.2.2.2 (K + 1 + 1) (by omega)).1]
      cases workingAt p (s0.time + (K + 1)) <;> simp [showT]
  · intro hf
    have := count_shownWorking p s0.time (K + 1) hf
    unfold shownWorking at this
    rw [this, hK']

/-- **C20 (starts as soon as its dependencies allow).**  Setting as above.  If the task is still
NONE in `s` and its start gate is open in the updated state of this iteration (every FS
predecessor FINISHED, every SS predecessor started), then it is READY in that updated state and,
if the step is active, WORKING — not READY — at the end of this very iteration, already
performed once; if the step is inactive (a project absence step, flag off) nothing starts: it
ends the iteration READY with its remaining work untouched, and starts at the next active step
(`C20_iteration`, `C20_working`).  Conversely, while the gate is closed in the updated state it
stays NONE with its remaining work untouched.  (`C06_ready`: no task is NONE with an open gate
after `__update`; `C06_auto_step`: an automatic task without component never ends an active
step READY.) -/
theorem C20_starts (m : Model) (p : Params) (s : St) (t : Nat)
    (ht : t < m.nT) (ha : (m.task t).isAuto = true) (hc : (m.task t).comp = Option.none)
    (hg : ∀ e ∈ (m.task t).inputs, e.2 = .fs ∨ e.2 = .ss)
    (hnone : s.live.tstate t = .none) :
    (readyGate m (updated m s).live.tstate t = true →
      (updated m s).live.tstate t = .ready ∧
      (iter m p s).live.tstate t = (if activeAt p s.time = true then .working else .ready) ∧
      (iter m p s).live.rem t =
        s.live.rem t - (if activeAt p s.time = true then (m.task t).autoRate else 0)) ∧
    (readyGate m (updated m s).live.tstate t = false →
      (iter m p s).live.tstate t = .none ∧ (iter m p s).live.rem t = s.live.rem t) := by
  have h : SubTask m t := ⟨ht, ha, hc, hg⟩
  constructor
  · intro hgate
    have hu := (update_none_ready s.time s.live ht hnone hgate).1
    exact ⟨hu, iter_start h p s hu⟩
  · intro hgate
    exact iter_none p s hnone hgate

/-- while the task waits (it ends the iteration NONE or READY) its remaining work is untouched, so
the `D` of the theorems above is the work amount the task was initialised with
(`C02_init`: `default_work_amount × (1 − default_progress)`) -/
theorem C20_waiting (m : Model) (p : Params) (s : St) (t : Nat)
    (h : (iter m p s).live.tstate t = .none ∨ (iter m p s).live.tstate t = .ready) :
    (iter m p s).live.rem t = s.live.rem t :=
  iter_waiting p s h

/-- a READY task is still READY, with the same remaining work, after `__update` (so "READY in
`s0`" is a special case of the hypothesis `hstart` above) -/
theorem C20_ready_updated (m : Model) (s : St) (t : Nat) (h : s.live.tstate t = .ready) :
    (updated m s).live.tstate t = .ready ∧ (updated m s).live.rem t = s.live.rem t := by
  have := update_keep (m := m) s.time s.live t (by rw [h]; exact fun e => by cases e)
    (by rw [h]; exact fun e => by cases e.1)
  exact ⟨this.1.trans h, this.2⟩

/-- FINISHED is kept by every iteration (C01: task states only move forward) -/
theorem C20_stays_finished (m : Model) (p : Params) (s : St) (t : Nat)
    (h : s.live.tstate t = .finished) (k : Nat) :
    (Nat.repeat (iter m p) k s).live.tstate t = .finished :=
  (repeat_iter_finished p s h k).1

/-! ### a small run: two sub-project tasks in sequence, a project absence in the middle -/

namespace C20Ex

/-- task 0: a sub-project task of duration 3 at rate 2 (`n = ⌈3/2⌉ = 2`); task 1: a sub-project
task of duration 2 at rate 1 that may start when task 0 has finished -/
def mS : Model where
  nT := 2
  nW := 0
  nF := 0
  nTeam := 0
  nWp := 0
  nC := 0
  task := fun t =>
    if t = 0 then { name := 0, work := 3, autoRate := 2, isAuto := true, outputs := [(1, .fs)] }
    else { name := 1, work := 2, autoRate := 1, isAuto := true, inputs := [(0, .fs)] }
  worker := fun _ => {}
  fac := fun _ => {}
  team := fun _ => {}
  wp := fun _ => {}
  comp := fun _ => {}

/-- step 1 is a project absence; automatic tasks rest during absence -/
def pS : Params := { absence := [1], maxTime := 20 }

/-- the state the run enters its loop with -/
def sS : St := enter mS pS St.fresh

/-- the state after `k` iterations -/
def at' (k : Nat) : St := Nat.repeat (iter mS pS) k sS

end C20Ex

open C20Ex in
/-- the hypotheses of `C20_working` / `C20_occupation` / `C20_log` hold for task 0 from `sS`
with `D = 3`, `r = 2`, `n = 2`, `K = 2` (the second active step is the one at time 2) -/
example : 0 < mS.nT ∧ (mS.task 0).isAuto = true ∧ (mS.task 0).comp = Option.none ∧
    (∀ e ∈ (mS.task 0).inputs, e.2 = .fs ∨ e.2 = .ss) ∧ 0 < (mS.task 0).autoRate ∧
    (updated mS sS).live.tstate 0 = .ready ∧ sS.live.rem 0 = 3 ∧ sS.time = 0 ∧
    ceilNat ((3 : Rat) / (mS.task 0).autoRate) = 2 ∧
    acts pS 0 2 < 2 ∧ acts pS 0 3 = 2 ∧ Elig.EligInv mS sS.live := by
  decide +kernel

open C20Ex in
/-- what the model computes: READY with 3; WORKING with 1 after step 0; still WORKING with 1
after the absence step 1; WORKING with −1 after step 2; FINISHED with 0 from then on — and task
1 starts in the very iteration in which task 0 is found FINISHED -/
example : ((List.range 6).map fun k => ((at' k).live.tstate 0, (at' k).live.rem 0)) =
      [(.ready, 3), (.working, 1), (.working, 1), (.working, -1), (.finished, 0), (.finished, 0)] ∧
    ((List.range 6).map fun k => ((at' k).live.tstate 1, (at' k).live.rem 1)) =
      [(.none, 2), (.none, 2), (.none, 2), (.none, 2), (.working, 1), (.working, 0)] ∧
    (at' 4).logs.tState 0 = [.working, .ready, .working, .finished] := by
  decide +kernel

open C20Ex in
/-- the same model when steps 0 and 2 are project absence steps (flag off): task 0 becomes READY
at the inactive step 0 and is NOT started there (`acts … 1 = 0`: READY with all its work after
iteration 1); it starts at step 1, rests at step 2, is performed a second time (`n = 2`) at step
3 (`K = 3`) and is FINISHED from iteration 5 on; the log shows READY, WORKING, READY, WORKING,
FINISHED -/
example :
    acts { absence := [0, 2], maxTime := 20 } 0 1 = 0 ∧
    acts { absence := [0, 2], maxTime := 20 } 0 3 < 2 ∧
    acts { absence := [0, 2], maxTime := 20 } 0 4 = 2 ∧
    ((List.range 6).map fun k =>
      ((Nat.repeat (iter mS { absence := [0, 2], maxTime := 20 }) k
          (enter mS { absence := [0, 2], maxTime := 20 } St.fresh)).live.tstate 0,
       (Nat.repeat (iter mS { absence := [0, 2], maxTime := 20 }) k
          (enter mS { absence := [0, 2], maxTime := 20 } St.fresh)).live.rem 0)) =
      [(.ready, 3), (.ready, 3), (.working, 1), (.working, 1), (.working, -1), (.finished, 0)] ∧
    (Nat.repeat (iter mS { absence := [0, 2], maxTime := 20 }) 5
        (enter mS { absence := [0, 2], maxTime := 20 } St.fresh)).logs.tState 0 =
      [.ready, .working, .ready, .working, .finished] := by
  decide +kernel

open C20Ex in
/-- the hypotheses of `C20_starts` for task 1 at the iteration that starts it -/
example : (at' 3).live.tstate 1 = .none ∧
    readyGate mS (updated mS (at' 3)).live.tstate 1 = true ∧
    readyGate mS (updated mS (at' 2)).live.tstate 1 = false := by
  decide +kernel

open C20Ex in
/-- the same model run without project absence (hypothesis `hact` of `C20_duration_no_absence`
via `C20_all_active`): WORKING after iterations 1 and 2 = `⌈3/2⌉`, FINISHED after the third -/
example : ({ maxTime := 20 } : Params).absence = [] ∧
    ((List.range 4).map fun k =>
      ((Nat.repeat (iter mS { maxTime := 20 }) k (enter mS { maxTime := 20 } St.fresh)).live.tstate 0,
       (Nat.repeat (iter mS { maxTime := 20 }) k (enter mS { maxTime := 20 } St.fresh)).live.rem 0)) =
      [(.ready, 3), (.working, 1), (.working, -1), (.finished, 0)] := by
  decide +kernel

/-! ## Part C — A and B combined -/

/-- **C20 (steps).**  A task `t` of the parent model that is a sub-project task for the
simulator (automatic, no component, no finish-gated input), whose rate and work amount are those
of a configuration `cfg'` obtained by configuring from a SUCCESS result `res` (with or without
removing its absence steps) and relating it to the parent unit `parentUnit`
(`0 < parentUnit`, `0 < res.unit`, duration `> 0`).  From a state `s0` whose `__update` leaves
the task READY with its work amount as remaining work, let

    n = ⌈duration × res.unit / parentUnit⌉

and let iteration `K + 1` be the one in which the `n`-th active step happens.  Then the task is
WORKING at the end of exactly the iterations from the one of its first active step
(`1 ≤ acts … j`; before it, it waits in READY) to `K + 1` (so during exactly `n` active steps),
its remaining work after iteration `k + 1 ≤ K + 1` is `duration − acts · parentUnit / res.unit`,
and it is FINISHED with remaining work 0 from iteration `K + 2` on. -/
theorem C20_steps (m : Model) (p : Params) (s0 : St) (t : Nat)
    (ht : t < m.nT) (ha : (m.task t).isAuto = true) (hc : (m.task t).comp = Option.none)
    (hg : ∀ e ∈ (m.task t).inputs, e.2 = .fs ∨ e.2 = .ss)
    (cfg : SubCfg) (res : SubResult) (remove : Bool) (parentUnit : Rat)
    (hok : res.status = .success) (hpu : 0 < parentUnit) (hsu : 0 < res.unit)
    (hD : 0 < durationOf res remove)
    (hrate : (m.task t).autoRate = (relateSub (configureSub cfg res remove).1 parentUnit).rate)
    (hstart : (updated m s0).live.tstate t = .ready)
    (hrem : s0.live.rem t = (relateSub (configureSub cfg res remove).1 parentUnit).work)
    (K : Nat)
    (hK : acts p s0.time K < ceilNat ((durationOf res remove : Rat) * res.unit / parentUnit))
    (hK' : acts p s0.time (K + 1) = ceilNat ((durationOf res remove : Rat) * res.unit / parentUnit)) :
    (∀ j, 1 ≤ j → ((Nat.repeat (iter m p) j s0).live.tstate t = .working ↔
      1 ≤ acts p s0.time j ∧ j ≤ K + 1)) ∧
    (∀ k, k ≤ K → (Nat.repeat (iter m p) (k + 1) s0).live.rem t =
      (durationOf res remove : Rat) - (acts p s0.time (k + 1) : Rat) * (parentUnit / res.unit)) ∧
    (∀ j, K + 2 ≤ j → (Nat.repeat (iter m p) j s0).live.tstate t = .finished ∧
      (Nat.repeat (iter m p) j s0).live.rem t = 0) := by
  obtain ⟨hwork, hunit, _⟩ := C20_configured cfg res remove hok
  have hr' : (m.task t).autoRate = parentUnit / res.unit := by
    rw [hrate, (C20_rate _ parentUnit).1, hunit]
  have hrem' : s0.live.rem t = ((durationOf res remove : Nat) : Rat) := by
    rw [hrem, (C20_rate _ parentUnit).2.1, hwork]
  have hDr : (0 : Rat) < ((durationOf res remove : Nat) : Rat) := Rat.natCast_pos.mpr hD
  have hquot : ((durationOf res remove : Nat) : Rat) / (m.task t).autoRate =
      (durationOf res remove : Rat) * res.unit / parentUnit := by
    rw [hr']
    have : res.unit ≠ 0 := by grind
    have : parentUnit ≠ 0 := by grind
    grind
  have hr : 0 < (m.task t).autoRate := by
    rw [hr']
    have e : parentUnit / res.unit * res.unit = parentUnit := by grind
    apply Rat.not_le.mp
    intro hle
    have := Rat.mul_le_mul_of_nonneg_right hle (Rat.le_of_lt hsu)
    grind
  rw [← hquot] at hK hK'
  have hocc := C20_occupation m p s0 t ht ha hc hg hr hDr hstart hrem' K hK hK'
  refine ⟨hocc.2.1, ?_, hocc.2.2.2⟩
  intro k hk
  have := (C20_working m p s0 t ht ha hc hg hr hDr hstart hrem' k
    (Nat.lt_of_le_of_lt (acts_mono p s0.time hk) hK)).2.1
  rw [this, hr']

open C20Ex in
/-- the hypotheses of `C20_steps` for task 0 of the small run: the saved run `res` (5 steps, 2
of them absence) configured with removal gives duration 3; saved unit 3600 s, parent unit
7200 s, so rate 2 and `n = ⌈3 × 3600 / 7200⌉ = 2` -/
example : res.status = .success ∧ (0 : Rat) < 7200 ∧ 0 < res.unit ∧ 0 < durationOf res true ∧
    (mS.task 0).autoRate = (relateSub (configureSub cfg0 res true).1 7200).rate ∧
    sS.live.rem 0 = (relateSub (configureSub cfg0 res true).1 7200).work ∧
    ceilNat ((durationOf res true : Rat) * res.unit / 7200) = 2 := by
  decide +kernel

end PDesy

#print axioms PDesy.C20_refused
#print axioms PDesy.C20_configured
#print axioms PDesy.C20_duration_keep
#print axioms PDesy.C20_duration_remove
#print axioms PDesy.C20_duration_steps
#print axioms PDesy.C20_duration_remove_nodup
#print axioms PDesy.C20_rate
#print axioms PDesy.C20_rate_quotient
#print axioms PDesy.C20_ceil
#print axioms PDesy.C20_iteration
#print axioms PDesy.C20_trace
#print axioms PDesy.C20_time
#print axioms PDesy.C20_working
#print axioms PDesy.C20_occupation
#print axioms PDesy.C20_occupation_ends
#print axioms PDesy.C20_duration_no_absence
#print axioms PDesy.C20_all_active
#print axioms PDesy.C20_no_worker
#print axioms PDesy.C20_log
#print axioms PDesy.C20_starts
#print axioms PDesy.C20_waiting
#print axioms PDesy.C20_ready_updated
#print axioms PDesy.C20_stays_finished
#print axioms PDesy.C20_steps
