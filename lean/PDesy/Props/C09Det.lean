/-
  PDesy.Props.C09Det — C09: "Running a simulation leaves no hidden state behind that changes a
  later run; simulating again on an already simulated project gives exactly the same result."

  `simulate m p s` first runs `initialize(state_info, log_info)`.  With both flags on, every piece
  of the mutable state `St` is overwritten before it is read:
    * `initLive` resets every task / worker / facility / workplace field (at every index),
    * `cpl` is set to 0, PERT and the ready gate only read what was just reset,
    * `initComps` resets the component fields, `clearLogs` empties every log,
    * time, status, mode, the stored absence list and the auto-task flag are overwritten.
  Hence the state the loop starts from (`enter m p s`) — and therefore the whole result — is the
  same for every incoming state `s`.  The equalities below are equalities of whole states
  (`St` holds functions: they are equal at EVERY index, not only inside the model's ranges).
-/
import PDesy.Lemmas.Loop
import PDesy.Model.Ser

namespace PDesy

namespace C09

/-! ### PERT reads nothing but `rem`, the old PERT fields and `cpl` -/

theorem fwdRelax_congr {l l' : Live} (h : l'.rem = l.rem) : fwdRelax l' = fwdRelax l := by
  funext p i e
  simp only [fwdRelax, h]

theorem bwdRelax_congr {l l' : Live} (h : l'.rem = l.rem) : bwdRelax l' = bwdRelax l := by
  funext p o e
  simp only [bwdRelax, h]

theorem fwdWave_congr (m : Model) {l l' : Live} (h : l'.rem = l.rem) :
    fwdWave m l' = fwdWave m l := by
  funext wave p
  simp only [fwdWave, fwdRelax_congr h]

theorem bwdWave_congr (m : Model) {l l' : Live} (h : l'.rem = l.rem) :
    bwdWave m l' = bwdWave m l := by
  funext wave p
  simp only [bwdWave, bwdRelax_congr h]

theorem fwdLoop_congr (m : Model) {l l' : Live} (h : l'.rem = l.rem) (fuel : Nat) :
    ∀ wave p, fwdLoop m l' fuel wave p = fwdLoop m l fuel wave p := by
  induction fuel with
  | zero => intro wave p; rfl
  | succ n ih =>
    intro wave p
    simp only [fwdLoop, fwdWave_congr m h, ih]

theorem bwdLoop_congr (m : Model) {l l' : Live} (h : l'.rem = l.rem) (fuel : Nat) :
    ∀ wave p, bwdLoop m l' fuel wave p = bwdLoop m l fuel wave p := by
  induction fuel with
  | zero => intro wave p; rfl
  | succ n ih =>
    intro wave p
    simp only [bwdLoop, bwdWave_congr m h, ih]

theorem pertFwd_congr (m : Model) (time : Rat) {l l' : Live} (hr : l'.rem = l.rem)
    (h1 : l'.est = l.est) (h2 : l'.eft = l.eft) (h3 : l'.lst = l.lst) (h4 : l'.lft = l.lft) :
    pertFwd m time l' = pertFwd m time l := by
  simp only [pertFwd, hr, h1, h2, h3, h4, fwdLoop_congr m hr]

theorem pertBwd_congr (m : Model) (reset : Bool) (p : Pert) {l l' : Live} (hr : l'.rem = l.rem)
    (hc : l'.cpl = l.cpl) : pertBwd m l' reset p = pertBwd m l reset p := by
  simp only [pertBwd, hr, hc, bwdLoop_congr m hr]

/-- `update_PERT_data`, with the pair the backward pass returns taken apart by projections -/
theorem pert_eq (m : Model) (time : Nat) (l : Live) :
    pert m time l =
      { l with
        est := tabN m.nT (pertBwd m l pertReset (pertFwd m (time : Rat) l)).1.est
        eft := tabN m.nT (pertBwd m l pertReset (pertFwd m (time : Rat) l)).1.eft
        lst := tabN m.nT (pertBwd m l pertReset (pertFwd m (time : Rat) l)).1.lst
        lft := tabN m.nT (pertBwd m l pertReset (pertFwd m (time : Rat) l)).1.lft
        cpl := (pertBwd m l pertReset (pertFwd m (time : Rat) l)).2 } := rfl

/-- `update_PERT_data` neither reads nor writes the component fields -/
theorem pert_comp_frame (m : Model) (time : Nat) (l : Live) (a : Nat → CS) (b : Nat → Option Nat) :
    pert m time { l with cstate := a, placed := b } =
      { pert m time l with cstate := a, placed := b } := by
  rw [pert_eq, pert_eq,
    pertFwd_congr m (time : Rat) (l := l) (l' := { l with cstate := a, placed := b })
      rfl rfl rfl rfl rfl,
    pertBwd_congr m pertReset _ (l := l) (l' := { l with cstate := a, placed := b }) rfl rfl]

/-- the live part of `initialize(state_info=True, …)`: reset, PERT, ready gate, components -/
def initChain (m : Model) (both : Bool) (l : Live) : Live :=
  initComps m (chkReady m (pert m 0 { initLive m both l with cpl := 0 }))

/-- … does not depend on the live state it is applied to -/
theorem initChain_indep (m : Model) (both : Bool) (l l' : Live) :
    initChain m both l' = initChain m both l := by
  have e : ({ initLive m both l' with cpl := 0 } : Live) =
      { ({ initLive m both l with cpl := 0 } : Live) with
        cstate := l'.cstate, placed := l'.placed } := rfl
  unfold initChain
  rw [e, pert_comp_frame]
  rfl

/-- the state the loop of `simulate` starts from, when both init flags are on, written out:
nothing of `s` is left in it -/
theorem enter_eq (m : Model) (p : Params) (s : St) (hs : p.initState = true)
    (hl : p.initLog = true) :
    enter m p s =
      { live := initChain m true s.live, logs := Logs.empty, time := 0, status := .none,
        mode := .forward, absence := p.absence, autoFlag := p.autoFlag } := by
  simp only [enter, initProject, hs, hl, if_true, clearLogs]
  rfl

end C09

/-! ### The theorems -/

/-- **C09 (entry)** With `init_state = init_log = True`, the state from which `simulate` starts
its loop is the same whatever the project looked like before: nothing of the old live state, the
old logs, the old clock, status, mode, stored absence list or auto-task flag survives
`initialize`.  (Equality of whole states, at every index.) -/
theorem C09_enter_indep (m : Model) (p : Params) (s s' : St)
    (hs : p.initState = true) (hl : p.initLog = true) : enter m p s = enter m p s' := by
  rw [C09.enter_eq m p s hs hl, C09.enter_eq m p s' hs hl, C09.initChain_indep m true s.live s'.live]

/-- **C09** With `init_state = init_log = True`, `simulate` returns exactly the same project state
from any two incoming states: no hidden state of the project influences the run. -/
theorem C09_resim (m : Model) (p : Params) (s s' : St)
    (hs : p.initState = true) (hl : p.initLog = true) : simulate m p s = simulate m p s' := by
  rw [simulate_eq, simulate_eq, C09_enter_indep m p s s' hs hl]

/-- **C09** Simulating again on the project a simulation has just returned gives exactly the
same result as the first time. -/
theorem C09_resim_twice (m : Model) (p : Params) (s : St)
    (hs : p.initState = true) (hl : p.initLog = true) :
    simulate m p (simulate m p s) = simulate m p s :=
  C09_resim m p _ _ hs hl

/-- **C09** … also when the earlier run used other parameters `q` (another rule, another absence
list, no re-initialisation, another time limit, …). -/
theorem C09_resim_after (m : Model) (p q : Params) (s : St)
    (hs : p.initState = true) (hl : p.initLog = true) :
    simulate m p (simulate m q s) = simulate m p s :=
  C09_resim m p _ _ hs hl

/-- **C09** Whatever sequence of operations `ops` (earlier simulations, log edits, backward runs,
arbitrary tampering with the state — any functions `St → St`) was applied to the project before,
the run gives the same result as if they had never happened. -/
theorem C09_history_indep (m : Model) (p : Params) (s : St) (ops : List (St → St))
    (hs : p.initState = true) (hl : p.initLog = true) :
    simulate m p (ops.foldl (fun st f => f st) s) = simulate m p s :=
  C09_resim m p _ _ hs hl

/-- **C09** The result of a simulation is a function of the static model and the parameters
only: it is the result obtained on a freshly constructed project. -/
theorem C09_function (m : Model) (p : Params)
    (hs : p.initState = true) (hl : p.initLog = true) :
    ∀ s, simulate m p s = simulate m p St.fresh :=
  fun s => C09_resim m p s St.fresh hs hl

/-! ### non-vacuity -/

namespace C09Ex

/-- two tasks in sequence (the second needs a facility), two workers in one team, one component
placed in one workplace with one facility (the demo model of `PDesy.Logs`) -/
def mD : Model where
  nT := 2
  nW := 2
  nF := 1
  nTeam := 1
  nWp := 1
  nC := 1
  task := fun t =>
    if t = 0 then { name := 0, work := 2, outputs := [(1, .fs)], wps := [0], comp := some 0 }
    else if t = 1 then
      { name := 1, work := 1, inputs := [(0, .fs)], needFac := true, wps := [0], comp := some 0 }
    else {}
  worker := fun w =>
    if w = 0 then { team := 0, skills := [(0, 1)], cost := 3 }
    else if w = 1 then { team := 0, skills := [(1, 1)], facSkills := [(0, 1)], cost := 5 }
    else {}
  fac := fun f => if f = 0 then { wp := 0, name := 0, skills := [(1, 1)], cost := 7 } else {}
  team := fun a => if a = 0 then { workers := [0, 1], targets := [0, 1] } else {}
  wp := fun q => if q = 0 then { facs := [0], targets := [1], cap := 10 } else {}
  comp := fun c => if c = 0 then { tasks := [0, 1] } else {}

def pD : Params := { absence := [1], maxTime := 20 }

/-- a dirty project: everything FINISHED, junk allocations (also at the out-of-range index 7),
junk logs, a late clock, a stale status / mode / absence list -/
def dirty1 : St :=
  { live := { Live.empty with
      tstate := fun _ => .finished
      rem := fun _ => 5
      est := fun _ => 9, lft := fun _ => 4
      cpl := 33
      allocW := fun t => if t = 7 then [0] else [1]
      wasg := fun _ => [0, 1]
      wstate := fun _ => .working
      fstate := fun _ => .absence
      cstate := fun _ => .finished
      placed := fun _ => some 0
      wpComps := fun _ => [0, 0] }
    logs := { Logs.empty with
      tState := fun _ => [.working, .working]
      projCost := [1, 2, 3]
      cPlaced := fun _ => [some 0] }
    time := 17
    status := .failure
    mode := .backward
    absence := [0, 1, 2]
    autoFlag := true }

/-- another dirty project: the result of an earlier run with other parameters, then edited -/
def dirty2 : St :=
  { simulate mD { rule := .tslack, absence := [0, 2], maxTime := 3 } St.fresh with
    time := 2, autoFlag := true }

/-- the hypotheses of the C09 theorems hold for the demo parameters -/
example : pD.initState = true ∧ pD.initLog = true := ⟨rfl, rfl⟩

/-- the two dirty projects really differ from each other and from a fresh one … -/
example : putSt mD dirty1 ≠ putSt mD dirty2 ∧ putSt mD dirty1 ≠ putSt mD St.fresh ∧
    putSt mD dirty2 ≠ putSt mD St.fresh := by decide +kernel

/-- … and yet the run gives the same (serialised) result from all three; it is a real run: four
steps (one of them an absence step), SUCCESS, both tasks FINISHED, total cost 18 -/
example :
    putSt mD (simulate mD pD dirty1) = putSt mD (simulate mD pD St.fresh) ∧
    putSt mD (simulate mD pD dirty2) = putSt mD (simulate mD pD St.fresh) ∧
    putSt mD (simulate mD pD (simulate mD pD dirty1)) = putSt mD (simulate mD pD dirty1) ∧
    (simulate mD pD dirty1).time = 4 ∧ (simulate mD pD dirty1).status = .success ∧
    (simulate mD pD dirty1).live.tstate 0 = .finished ∧
    (simulate mD pD dirty1).live.tstate 1 = .finished ∧
    (simulate mD pD dirty1).logs.projCost = [3, 0, 3, 12] := by
  decide +kernel

/-- the two flags are needed: without re-initialising the state (or the logs) the old project
shows through in the result -/
example :
    putSt mD (simulate mD { pD with initState := false } dirty1) ≠
      putSt mD (simulate mD { pD with initState := false } St.fresh) ∧
    putSt mD (simulate mD { pD with initLog := false } dirty1) ≠
      putSt mD (simulate mD { pD with initLog := false } St.fresh) := by
  decide +kernel

end C09Ex

#print axioms C09_enter_indep
#print axioms C09_resim
#print axioms C09_resim_twice
#print axioms C09_resim_after
#print axioms C09_history_indep
#print axioms C09_function

end PDesy
