/-
  PDesy.Props.C11Pairs — property C11 (second half), "allocation never inverts the priority
  order", in its worker–facility-PAIR form, for a higher-priority task that needs a facility.

  `Props/C11Inv.lean` proves the clause for a higher-priority task `t1` without facility.  Here
  `t1` needs a facility and is the single task of its component `c1`, which the pass leaves at
  workplace `p`:

  * worker side (`C11_no_inversion_pair`): a worker `w` newly given to a later task `t2`, and a
    facility `f` of `p` that is still FREE after the pass, both eligible for `t1`: `t1` cannot
    accept the pair, `canAdd m l' t1 (some w) (some f) = false`.  (At `t1`'s turn `w` was still in
    the free list and `f` was offered; the refusal persists.)
  * facility side (`C11_no_inversion_fac`): a facility `f` of `p` newly given to a later task
    `t2`, and a worker `w` still FREE and idle after the pass, both eligible for `t1`.  Read in
    the final state `canAdd … (some f)` is false for the trivial reason that `f` is now taken, so
    the statement is made about the state with `f` handed back (`Pairs.freed l' f`: `fasg f`
    emptied): even then `t1` cannot accept the pair — it refused it for another, persistent
    reason.

  "`t1` before `t2`" = `List.Sublist [t1, t2] (sortTasks m l lg rule (NoWait.cands m l))`, as in
  `Props/C11Inv.lean`.  "Eligible": positive skill for the task and team (worker) / workplace
  (facility) assigned to the task.  The single-task hypothesis is needed for the same reason as in
  `Props/C06Pairs.lean` (a component with several tasks may be moved after `t1`'s turn).
-/
import PDesy.Lemmas.Pairs
import PDesy.Props.C03

namespace PDesy

/-- **C11, no inversion, pair form (worker side).**  Let `l' = allocate m lg rule l`.  If `t1`
comes before `t2` in the sorted candidate list, `t1` is not automatic, needs a facility and is the
single task of its component `c` (`hlink`: every task below `nT` that names `c` as its component
is listed by `c`; `hsingle`: `c` lists `t1` only), `c` is placed at `p` in `l'`, a worker `w` is
newly given to `t2` by this pass (`w ∈ l'.allocW t2`, `w ∉ l.allocW t2`), a facility `f` of `p` is
FREE in `l'`, and `f` and `w` are eligible for `t1`, then `t1` cannot accept the pair:
`canAdd m l' t1 (some w) (some f) = false`.

No invariant of the incoming state is needed; `l'.fasg f = []` is not needed either (an assigned
facility is refused anyway). -/
theorem C11_no_inversion_pair (m : Model) (lg : Logs) (rule : TaskRule) (l : Live)
    (t1 t2 w c p f : Nat)
    (hord : List.Sublist [t1, t2] (sortTasks m l lg rule (NoWait.cands m l)))
    (hna : (m.task t1).isAuto = false) (hnf : (m.task t1).needFac = true)
    (hc : (m.task t1).comp = some c)
    (hlink : ∀ t', t' < m.nT → (m.task t').comp = some c → t' ∈ (m.comp c).tasks)
    (hsingle : (m.comp c).tasks = [t1])
    (hp : (allocate m lg rule l).placed c = some p)
    (hnew : w ∈ (allocate m lg rule l).allocW t2) (hold : w ∉ l.allocW t2)
    (hf : f ∈ (m.wp p).facs) (hff : (allocate m lg rule l).fstate f = .free)
    (hskillF : hasSkill (m.fac f).skills (m.task t1).name = true) (htar : wpTargets m f t1 = true)
    (hskill : hasSkill (m.worker w).skills (m.task t1).name = true)
    (hteam : teamTargets m w t1 = true) :
    canAdd m (allocate m lg rule l) t1 (some w) (some f) = false := by
  rw [(Pairs.allocate_growF m lg rule l).fs] at hff
  exact Pairs.allocate_no_inversion_pair m lg rule l t1 t2 w c p f hord hna hnf hc
    (Pairs.OnlyTask.of_tasks hlink hsingle) hp hnew hold hf hff hskillF htar hskill hteam

/-- `C11_no_inversion_pair` for a model that satisfies the placement well-formedness predicate
`PlaceWF` (flat product, consistent task → component links, …). -/
theorem C11_no_inversion_pair_wf (m : Model) (wf : Place.PlaceWF m) (lg : Logs) (rule : TaskRule)
    (l : Live) (t1 t2 w c p f : Nat)
    (hord : List.Sublist [t1, t2] (sortTasks m l lg rule (NoWait.cands m l)))
    (hna : (m.task t1).isAuto = false) (hnf : (m.task t1).needFac = true)
    (hc : (m.task t1).comp = some c) (hsingle : (m.comp c).tasks = [t1])
    (hp : (allocate m lg rule l).placed c = some p)
    (hnew : w ∈ (allocate m lg rule l).allocW t2) (hold : w ∉ l.allocW t2)
    (hf : f ∈ (m.wp p).facs) (hff : (allocate m lg rule l).fstate f = .free)
    (hskillF : hasSkill (m.fac f).skills (m.task t1).name = true) (htar : wpTargets m f t1 = true)
    (hskill : hasSkill (m.worker w).skills (m.task t1).name = true)
    (hteam : teamTargets m w t1 = true) :
    canAdd m (allocate m lg rule l) t1 (some w) (some f) = false :=
  C11_no_inversion_pair m lg rule l t1 t2 w c p f hord hna hnf hc
    (fun t' ht' hc' => wf.comp_tasks t' ht' c hc') hsingle hp hnew hold hf hff hskillF htar hskill
    hteam

/-- **C11, no inversion, pair form**, contrapositive reading: a worker who, together with a FREE
facility of `p`, is eligible for `t1` and whom `t1` could still accept with that facility after
the pass has not been newly given to any later task `t2`. -/
theorem C11_no_inversion_pair' (m : Model) (lg : Logs) (rule : TaskRule) (l : Live)
    (t1 t2 w c p f : Nat)
    (hord : List.Sublist [t1, t2] (sortTasks m l lg rule (NoWait.cands m l)))
    (hna : (m.task t1).isAuto = false) (hnf : (m.task t1).needFac = true)
    (hc : (m.task t1).comp = some c)
    (hlink : ∀ t', t' < m.nT → (m.task t').comp = some c → t' ∈ (m.comp c).tasks)
    (hsingle : (m.comp c).tasks = [t1])
    (hp : (allocate m lg rule l).placed c = some p)
    (hf : f ∈ (m.wp p).facs) (hff : (allocate m lg rule l).fstate f = .free)
    (hskillF : hasSkill (m.fac f).skills (m.task t1).name = true) (htar : wpTargets m f t1 = true)
    (hskill : hasSkill (m.worker w).skills (m.task t1).name = true)
    (hteam : teamTargets m w t1 = true)
    (hcan : canAdd m (allocate m lg rule l) t1 (some w) (some f) = true) :
    w ∈ (allocate m lg rule l).allocW t2 → w ∈ l.allocW t2 := by
  intro hnew
  apply Classical.byContradiction
  intro hold
  rw [C11_no_inversion_pair m lg rule l t1 t2 w c p f hord hna hnf hc hlink hsingle hp hnew hold
    hf hff hskillF htar hskill hteam] at hcan
  cases hcan

/-- **C11, no inversion, pair form, in one loop step.**  On a working step, starting from a state
that satisfies the allocation invariant (with every holder WORKING): if `t1` comes before `t2` in
the candidate order of `s.live` (with the logs `s.logs`), `t1` is not automatic, needs a facility
and is the single task of its component `c`, which sits at `q` at the end of the step, `w` is held
by `t2` at the end of the step but was not before, a facility `f < nF` of `q` is FREE at the end
of the step, and `f` and `w` are eligible for `t1`, then at the end of the step `t1` cannot accept
the pair. -/
theorem C11_no_inversion_pair_step (m : Model) (p : Params) (s : St)
    (hwork : p.absence.contains s.time = false)
    (hinv : AllocInv m s.live) (hhw : HoldWorking s.live) (t1 t2 w c q f : Nat)
    (hord : List.Sublist [t1, t2] (sortTasks m s.live s.logs p.rule (NoWait.cands m s.live)))
    (hna : (m.task t1).isAuto = false) (hnf : (m.task t1).needFac = true)
    (hc : (m.task t1).comp = some c)
    (hlink : ∀ t', t' < m.nT → (m.task t').comp = some c → t' ∈ (m.comp c).tasks)
    (hsingle : (m.comp c).tasks = [t1])
    (hp : (stepBody m p s).live.placed c = some q)
    (hnew : w ∈ (stepBody m p s).live.allocW t2) (hold : w ∉ s.live.allocW t2)
    (hfl : f < m.nF) (hff : (stepBody m p s).live.fstate f = .free) (hf : f ∈ (m.wp q).facs)
    (hskillF : hasSkill (m.fac f).skills (m.task t1).name = true) (htar : wpTargets m f t1 = true)
    (hskill : hasSkill (m.worker w).skills (m.task t1).name = true)
    (hteam : teamTargets m w t1 = true) :
    canAdd m (stepBody m p s).live t1 (some w) (some f) = false :=
  Pairs.stepBody_no_inversion_pair m p s hwork hinv hhw t1 t2 w c q f hord hna hnf hc
    (Pairs.OnlyTask.of_tasks hlink hsingle) hp hnew hold hfl hff hf hskillF htar hskill hteam

/-- **C11, no inversion, pair form (facility side).**  Let `l' = allocate m lg rule l`.  If `t1`
comes before `t2` in the sorted candidate list, `t1` is not automatic, needs a facility and is the
single task of its component `c`, placed at `p` in `l'`, a facility `f` of `p` that was FREE is
newly given to `t2` by this pass (`f ∈ l'.allocF t2`, `f ∉ l.allocF t2`), a worker `w < nW` is FREE
and holds nothing in `l'`, and `f` and `w` are eligible for `t1`, then `t1` could not accept the
pair even if `f` were handed back: `canAdd m (Pairs.freed l' f) t1 (some w) (some f) = false`,
where `Pairs.freed l' f` is `l'` with `fasg f` emptied.  (`f` was unassigned up to `t2`'s turn, so
at `t1`'s turn it was offered with `w` in the free list and refused for a reason other than "`f`
is taken" — task state, a solo resource on or for the task, the fixed lists, a missing skill — and
such reasons persist.) -/
theorem C11_no_inversion_fac (m : Model) (lg : Logs) (rule : TaskRule) (l : Live)
    (t1 t2 w c p f : Nat)
    (hord : List.Sublist [t1, t2] (sortTasks m l lg rule (NoWait.cands m l)))
    (hna : (m.task t1).isAuto = false) (hnf : (m.task t1).needFac = true)
    (hc : (m.task t1).comp = some c)
    (hlink : ∀ t', t' < m.nT → (m.task t').comp = some c → t' ∈ (m.comp c).tasks)
    (hsingle : (m.comp c).tasks = [t1])
    (hp : (allocate m lg rule l).placed c = some p)
    (hnew : f ∈ (allocate m lg rule l).allocF t2) (hold : f ∉ l.allocF t2)
    (hf : f ∈ (m.wp p).facs) (hff : (allocate m lg rule l).fstate f = .free)
    (hw : w < m.nW) (hfree : (allocate m lg rule l).wstate w = .free)
    (hidle : (allocate m lg rule l).wasg w = [])
    (hskillF : hasSkill (m.fac f).skills (m.task t1).name = true) (htar : wpTargets m f t1 = true)
    (hskill : hasSkill (m.worker w).skills (m.task t1).name = true)
    (hteam : teamTargets m w t1 = true) :
    canAdd m (Pairs.freed (allocate m lg rule l) f) t1 (some w) (some f) = false := by
  rw [(Pairs.allocate_growF m lg rule l).fs] at hff
  rw [(NoWait.allocate_grow m lg rule l).ws] at hfree
  exact Pairs.allocate_no_inversion_fac m lg rule l t1 t2 w c p f hord hna hnf hc
    (Pairs.OnlyTask.of_tasks hlink hsingle) hp hnew hold hf hff hw hfree hidle hskillF htar hskill
    hteam

namespace C11PairsEx

/-- task 0 needs a facility and is the single task of component 0 (workplace 0, facilities 0 and
1); task 1 is an ordinary task; worker 0 can operate both facilities but only do task 0, worker 1
can do both tasks but operate facility 0 only -/
def mA : Model where
  nT := 2
  nW := 2
  nF := 2
  nTeam := 1
  nWp := 1
  nC := 1
  task := fun t =>
    if t = 0 then { name := 0, work := 3, needFac := true, wps := [0], comp := some 0 }
    else { name := 1, work := 2 }
  worker := fun w =>
    if w = 0 then { team := 0, skills := [(0, 1)], facSkills := [(0, 1), (1, 1)] }
    else { team := 0, skills := [(0, 1), (1, 1)], facSkills := [(0, 1)] }
  fac := fun f => { wp := 0, name := f, skills := [(0, 1)] }
  team := fun _ => { workers := [0, 1], targets := [0, 1] }
  wp := fun _ => { facs := [0, 1], targets := [0], cap := 1 }
  comp := fun _ => { tasks := [0] }

def l : Live := { Live.empty with tstate := fun t => if t < 2 then .ready else .none }

def s : St := { St.fresh with live := l }

theorem s_inv : AllocInv mA s.live ∧ HoldWorking s.live :=
  AllocInv_of_empty (fun _ => rfl) (fun _ => rfl) (fun _ => rfl) (fun _ => rfl)

theorem mA_link : ∀ t', t' < mA.nT → (mA.task t').comp = some 0 → t' ∈ (mA.comp 0).tasks := by
  intro t' ht' hc'
  have h2 : mA.nT = 2 := rfl
  have : t' = 0 ∨ t' = 1 := by omega
  rcases this with rfl | rfl
  · decide
  · exact absurd hc' (by decide)

/-- tasks 0 and 1 both need a facility, single tasks of the components 0 and 1, both placed at
workplace 0 (facilities 0 and 1, room for two components); worker 0 works alone and does task 0,
worker 1 does task 1, worker 2 could do task 0 -/
def mB : Model where
  nT := 2
  nW := 3
  nF := 2
  nTeam := 1
  nWp := 1
  nC := 2
  task := fun t =>
    if t = 0 then { name := 0, work := 3, needFac := true, wps := [0], comp := some 0 }
    else { name := 1, work := 2, needFac := true, wps := [0], comp := some 1 }
  worker := fun w =>
    if w = 0 then { team := 0, skills := [(0, 1)], facSkills := [(0, 1), (1, 1)], solo := true }
    else if w = 1 then { team := 0, skills := [(1, 1)], facSkills := [(0, 1), (1, 1)] }
    else { team := 0, skills := [(0, 1)], facSkills := [(0, 1), (1, 1)] }
  fac := fun f => { wp := 0, name := f, skills := [(0, 1), (1, 1)] }
  team := fun _ => { workers := [0, 1, 2], targets := [0, 1] }
  wp := fun _ => { facs := [0, 1], targets := [0, 1], cap := 2 }
  comp := fun c => { tasks := [c] }

theorem mB_link : ∀ t', t' < mB.nT → (mB.task t').comp = some 0 → t' ∈ (mB.comp 0).tasks := by
  intro t' ht' hc'
  have h2 : mB.nT = 2 := rfl
  have : t' = 0 ∨ t' = 1 := by omega
  rcases this with rfl | rfl
  · decide
  · exact absurd hc' (by decide)

end C11PairsEx

/-- the hypotheses of `C11_no_inversion_pair` hold non-trivially: task 0 precedes task 1; the pass
places component 0 at workplace 0, gives (worker 0, facility 0) to task 0 and then worker 1 — who
has the skill for task 0 as well — to task 1; facility 1 stays FREE; task 0 could not take the
pair (worker 1, facility 1): worker 1 cannot operate facility 1 -/
example :
    sortTasks C11PairsEx.mA C11PairsEx.l Logs.empty .tslack (NoWait.cands C11PairsEx.mA C11PairsEx.l)
      = [0, 1] ∧
    (C11PairsEx.mA.task 0).isAuto = false ∧ (C11PairsEx.mA.task 0).needFac = true ∧
    (C11PairsEx.mA.task 0).comp = some 0 ∧ (C11PairsEx.mA.comp 0).tasks = [0] ∧
    (allocate C11PairsEx.mA Logs.empty .tslack C11PairsEx.l).placed 0 = some 0 ∧
    (allocate C11PairsEx.mA Logs.empty .tslack C11PairsEx.l).allocW 0 = [0] ∧
    (allocate C11PairsEx.mA Logs.empty .tslack C11PairsEx.l).allocF 0 = [0] ∧
    (allocate C11PairsEx.mA Logs.empty .tslack C11PairsEx.l).allocW 1 = [1] ∧
    C11PairsEx.l.allocW 1 = [] ∧
    1 ∈ (C11PairsEx.mA.wp 0).facs ∧
    (allocate C11PairsEx.mA Logs.empty .tslack C11PairsEx.l).fstate 1 = .free ∧
    (allocate C11PairsEx.mA Logs.empty .tslack C11PairsEx.l).fasg 1 = [] ∧
    hasSkill (C11PairsEx.mA.fac 1).skills (C11PairsEx.mA.task 0).name = true ∧
    wpTargets C11PairsEx.mA 1 0 = true ∧
    hasSkill (C11PairsEx.mA.worker 1).skills (C11PairsEx.mA.task 0).name = true ∧
    teamTargets C11PairsEx.mA 1 0 = true ∧
    canAdd C11PairsEx.mA (allocate C11PairsEx.mA Logs.empty .tslack C11PairsEx.l) 0 (some 1) (some 1)
      = false := by
  decide +kernel

example : List.Sublist [0, 1] (sortTasks C11PairsEx.mA C11PairsEx.l Logs.empty .tslack
    (NoWait.cands C11PairsEx.mA C11PairsEx.l)) := by
  decide +kernel

/-- … the link hypothesis holds for this model … -/
example : ∀ t', t' < C11PairsEx.mA.nT → (C11PairsEx.mA.task t').comp = some 0 →
    t' ∈ (C11PairsEx.mA.comp 0).tasks := C11PairsEx.mA_link

/-- … and the same picture at the end of the whole step (`C11_no_inversion_pair_step`) -/
example :
    ({} : Params).absence.contains C11PairsEx.s.time = false ∧
    (AllocInv C11PairsEx.mA C11PairsEx.s.live ∧ HoldWorking C11PairsEx.s.live) ∧
    ((stepBody C11PairsEx.mA {} C11PairsEx.s).live.placed 0 = some 0 ∧
     (stepBody C11PairsEx.mA {} C11PairsEx.s).live.allocW 1 = [1] ∧
     (stepBody C11PairsEx.mA {} C11PairsEx.s).live.fstate 1 = .free ∧
     canAdd C11PairsEx.mA (stepBody C11PairsEx.mA {} C11PairsEx.s).live 0 (some 1) (some 1)
       = false) :=
  ⟨by decide, C11PairsEx.s_inv, by decide +kernel⟩

/-- the hypotheses of `C11_no_inversion_fac` hold non-trivially: task 0 precedes task 1; the pass
places both components at workplace 0, gives (worker 0, facility 0) to task 0 and then
(worker 1, facility 1) to task 1; worker 2, who has the skill for task 0, stays FREE and idle;
facility 1 was eligible for task 0 too, but task 0 could not take (worker 2, facility 1) — not
even with facility 1 handed back: the solo worker 0 is on it -/
example :
    sortTasks C11PairsEx.mB C11PairsEx.l Logs.empty .tslack (NoWait.cands C11PairsEx.mB C11PairsEx.l)
      = [0, 1] ∧
    (C11PairsEx.mB.task 0).isAuto = false ∧ (C11PairsEx.mB.task 0).needFac = true ∧
    (C11PairsEx.mB.task 0).comp = some 0 ∧ (C11PairsEx.mB.comp 0).tasks = [0] ∧
    (allocate C11PairsEx.mB Logs.empty .tslack C11PairsEx.l).placed 0 = some 0 ∧
    (allocate C11PairsEx.mB Logs.empty .tslack C11PairsEx.l).allocW 0 = [0] ∧
    (allocate C11PairsEx.mB Logs.empty .tslack C11PairsEx.l).allocF 0 = [0] ∧
    (allocate C11PairsEx.mB Logs.empty .tslack C11PairsEx.l).allocW 1 = [1] ∧
    (allocate C11PairsEx.mB Logs.empty .tslack C11PairsEx.l).allocF 1 = [1] ∧
    C11PairsEx.l.allocF 1 = [] ∧
    1 ∈ (C11PairsEx.mB.wp 0).facs ∧
    (allocate C11PairsEx.mB Logs.empty .tslack C11PairsEx.l).fstate 1 = .free ∧
    2 < C11PairsEx.mB.nW ∧
    (allocate C11PairsEx.mB Logs.empty .tslack C11PairsEx.l).wstate 2 = .free ∧
    (allocate C11PairsEx.mB Logs.empty .tslack C11PairsEx.l).wasg 2 = [] ∧
    hasSkill (C11PairsEx.mB.fac 1).skills (C11PairsEx.mB.task 0).name = true ∧
    wpTargets C11PairsEx.mB 1 0 = true ∧
    hasSkill (C11PairsEx.mB.worker 2).skills (C11PairsEx.mB.task 0).name = true ∧
    teamTargets C11PairsEx.mB 2 0 = true ∧
    canAdd C11PairsEx.mB (Pairs.freed (allocate C11PairsEx.mB Logs.empty .tslack C11PairsEx.l) 1) 0
      (some 2) (some 1) = false := by
  decide +kernel

example : ∀ t', t' < C11PairsEx.mB.nT → (C11PairsEx.mB.task t').comp = some 0 →
    t' ∈ (C11PairsEx.mB.comp 0).tasks := C11PairsEx.mB_link

#print axioms C11_no_inversion_pair
#print axioms C11_no_inversion_pair_wf
#print axioms C11_no_inversion_pair'
#print axioms C11_no_inversion_pair_step
#print axioms C11_no_inversion_fac

end PDesy
