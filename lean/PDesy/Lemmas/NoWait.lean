/-
  PDesy.Lemmas.NoWait — helper lemmas for C06 ("no avoidable waiting") and for the second half
  of C11 ("allocation never inverts the priority order").

  * the start gate is insensitive to NONE → READY moves (`readyGate_congr`), hence the gate value
    read by `check_state(READY)` is the gate value of the updated state (`update_ready`);
  * `check_state(WORKING)` starts every READY automatic task without component (`chkWorking_auto`);
  * after `__update` no task is WORKING with no work left and an open finish gate
    (`update_finish`);
  * the allocation pass as a fold: `Step` (what one step of the pass may change), `Settled`
    (a task whose turn is over has refused every worker still in the free list), and the two
    consequences `allocate_idle` (C06, idle-worker clause) and `allocate_no_inversion` (C11).
-/
import PDesy.Lemmas.Lifecycle
import PDesy.Lemmas.Sort
import PDesy.Lemmas.Alloc
import PDesy.Lemmas.Elig
import PDesy.Lemmas.Perform
import PDesy.Model.SubProject

namespace PDesy
namespace NoWait

/-! ### (a) the start gate after `__update` -/

/-- the start gate only tests "FINISHED" and "started" -/
theorem readyGate_congr (m : Model) {a b : Nat → TS}
    (h : ∀ t, (b t = .finished ↔ a t = .finished) ∧ (b t).started = (a t).started) (t : Nat) :
    readyGate m b t = readyGate m a t := by
  unfold readyGate
  congr 1
  funext ⟨p, d⟩
  cases d
  · dsimp only; rw [Bool.eq_iff_iff]; simp only [beq_iff_eq]; exact (h p).1
  · exact (h p).2
  · rfl
  · rfl

/-- READY marking does not change any start gate -/
theorem chkReady_readyGate (m : Model) (l : Live) (t : Nat) :
    readyGate m (chkReady m l).tstate t = readyGate m l.tstate t :=
  readyGate_congr m
    (fun t' => ⟨Perform.chkReady_finished_iff l t', Perform.chkReady_started l t'⟩) t

/-- after `check_state(READY)` no task below `nT` is NONE with an open start gate -/
theorem chkReady_complete (m : Model) (l : Live) (t : Nat) (ht : t < m.nT) :
    ¬ ((chkReady m l).tstate t = .none ∧ readyGate m (chkReady m l).tstate t = true) := by
  rintro ⟨h1, h2⟩
  rw [chkReady_readyGate] at h2
  rw [Lifecycle.chkReady_tstate] at h1
  split at h1
  · cases h1
  · rename_i hc
    apply hc
    simp [ht, h1, h2]

/-- after the whole `__update` block no task below `nT` is NONE with an open start gate -/
theorem update_ready (m : Model) (time : Nat) (l : Live) (t : Nat) (ht : t < m.nT) :
    ¬ ((update m time l).tstate t = .none ∧ readyGate m (update m time l).tstate t = true) := by
  rw [Perform.update_tstate]
  exact chkReady_complete m _ t ht

/-! ### (b) automatic tasks without component never wait in READY -/

theorem chkWorking_auto (m : Model) (l : Live) (t : Nat) (ht : t < m.nT)
    (ha : (m.task t).isAuto = true) (hc : (m.task t).comp = Option.none) :
    (chkWorking m l).tstate t ≠ .ready := by
  intro h
  have hl : l.tstate t = .ready := by
    rcases Alloc.chkWorking_tstate_cases m l t with e | ⟨_, e⟩
    · rw [← e]; exact h
    · rw [e] at h; cases h
  have htar : workingTarget m l t = true := by
    unfold workingTarget; simp [hl, ha, hc]
  have hw : (chkWorking m l).tstate t = .working := by
    rw [Alloc.chkWorking_eq]
    exact (Alloc.foldl_startOne_tstate m _ l).2 t
      (List.mem_filter.mpr ⟨List.mem_range.mpr ht, htar⟩) (Or.inl hl)
  rw [hw] at h; cases h

/-- only at an ACTIVE step (a working step, or any step when automatic tasks are performed
during absence): at a project absence step with the flag off nothing starts -/
theorem stepBody_auto (m : Model) (p : Params) (s : St) (t : Nat) (ht : t < m.nT)
    (ha : (m.task t).isAuto = true) (hc : (m.task t).comp = Option.none)
    (hact : activeAt p s.time = true) :
    (stepBody m p s).live.tstate t ≠ .ready := by
  have hg : Lifecycle.startGuard p s = true := hact
  rw [Lifecycle.stepBody_tstate, hg]
  exact chkWorking_auto m _ t ht ha hc

/-! ### (d) finishing as early as possible -/

theorem update_working (m : Model) (time : Nat) (l : Live) (t : Nat)
    (h : (update m time l).tstate t = .working) : (chkFinished m l).tstate t = .working := by
  rw [Perform.update_tstate, Lifecycle.chkReady_tstate] at h
  split at h
  · cases h
  · simpa using h

/-- after `__update` no task below `nT` is WORKING with no work left and an open finish gate -/
theorem update_finish (m : Model) (time : Nat) (l : Live) (t : Nat) (ht : t < m.nT) :
    ¬ ((update m time l).tstate t = .working ∧ (update m time l).rem t ≤ 0 ∧
       finishGate m (update m time l).tstate t = true) := by
  rintro ⟨h1, h2, h3⟩
  rw [Perform.update_gate] at h3
  rw [Perform.update_rem] at h2
  have h := Perform.chkFinished_stable (m := m) l t (List.mem_range.mpr ht)
  simp [finishCand, update_working m time l t h1, h2, h3] at h

/-! ### every state of a trace is produced by the corresponding block -/

theorem updTrace_mem_updated (m : Model) (p : Params) :
    ∀ fuel s, ∀ s' ∈ updTrace m p fuel s, ∃ s1, s' = updated m s1 := by
  intro fuel
  induction fuel with
  | zero => intro s s' h; simp [updTrace] at h
  | succ n ih =>
    intro s s' h
    simp only [updTrace] at h
    split at h
    · simp at h; exact ⟨_, h⟩
    · rcases List.mem_cons.mp h with h | h
      · exact ⟨_, h⟩
      · exact ih _ _ h

/-- every `ticked` state is `stepBody` of an `updated` state that satisfies the invariant and at
which the loop does not exit -/
theorem trace_mem_stepBody_inv (m : Model) (p : Params) (Inv : St → Prop)
    (hupd : ∀ s, Inv s → Inv (updated m s))
    (hstep : ∀ s, Inv s → done m p s = false → Inv (stepBody m p s)) :
    ∀ fuel s, Inv s → ∀ s' ∈ trace m p fuel s,
      ∃ s0, Inv (updated m s0) ∧ done m p (updated m s0) = false ∧
        s' = stepBody m p (updated m s0) := by
  intro fuel
  induction fuel with
  | zero => intro s _ s' h; simp [trace] at h
  | succ n ih =>
    intro s hs s' h
    simp only [trace] at h
    split at h
    · simp at h
    · rename_i hd
      have hd' : done m p (updated m s) = false := by simpa using hd
      rcases List.mem_cons.mp h with h | h
      · exact ⟨s, hupd _ hs, hd', h⟩
      · exact ih _ (hstep _ (hupd _ hs) hd') _ h

/-! ### (c), (e): `can_add_resources` for a worker without facility -/

/-- `can_add_resources(worker=w)` spelled out -/
theorem canAdd_W_iff {m : Model} {l : Live} {t w : Nat} :
    canAdd m l t (some w) Option.none = true ↔
    (l.tstate t ≠ .none ∧ l.tstate t ≠ .finished) ∧
    (∀ w' ∈ l.allocW t, (m.worker w').solo = false) ∧
    (∀ f' ∈ l.allocF t, (m.fac f').solo = false) ∧
    ((m.worker w).solo = true → l.allocW t = []) ∧
    (∀ ids, (m.task t).fixW = some ids → w ∈ ids) ∧
    hasSkill (m.worker w).skills (m.task t).name = true := by
  constructor
  · exact Elig.canAdd_W
  · rintro ⟨h1, h2, h3, h4, h5, h6⟩
    unfold canAdd
    simp
    refine ⟨h1, h2, h3, ?_, ?_, h6⟩
    · cases hs : (m.worker w).solo
      · exact Or.inl rfl
      · exact Or.inr (h4 hs)
    · cases hf : (m.task t).fixW with
      | none => rfl
      | some ids => simp [h5 ids hf]

/-- what the allocation pass may do to the live state: task and worker states are fixed, the
allocation lists only gain members, a worker's assignment list never becomes empty again -/
structure Grow (l l' : Live) : Prop where
  ts : l'.tstate = l.tstate
  ws : l'.wstate = l.wstate
  subW : ∀ t w, w ∈ l.allocW t → w ∈ l'.allocW t
  subF : ∀ t f, f ∈ l.allocF t → f ∈ l'.allocF t
  asg : ∀ w, l'.wasg w = [] → l.wasg w = []

theorem Grow.refl (l : Live) : Grow l l :=
  ⟨rfl, rfl, fun _ _ h => h, fun _ _ h => h, fun _ h => h⟩

theorem Grow.trans {a b c : Live} (h1 : Grow a b) (h2 : Grow b c) : Grow a c :=
  ⟨h2.ts.trans h1.ts, h2.ws.trans h1.ws,
   fun t w h => h2.subW t w (h1.subW t w h), fun t f h => h2.subF t f (h1.subF t f h),
   fun w h => h1.asg w (h2.asg w h)⟩

/-- a refusal persists while the lists only grow -/
theorem Grow.canAdd_false {m : Model} {l l' : Live} (h : Grow l l') {t w : Nat}
    (hc : canAdd m l t (some w) Option.none = false) :
    canAdd m l' t (some w) Option.none = false := by
  cases hc' : canAdd m l' t (some w) Option.none with
  | false => rfl
  | true =>
    obtain ⟨h1, h2, h3, h4, h5, h6⟩ := canAdd_W_iff.mp hc'
    have : canAdd m l t (some w) Option.none = true := by
      rw [canAdd_W_iff]
      refine ⟨by rw [← h.ts]; exact h1, fun w' hw' => h2 w' (h.subW t w' hw'),
        fun f' hf' => h3 f' (h.subF t f' hf'), ?_, h5, h6⟩
      intro hs
      have he := h4 hs
      cases hl : l.allocW t with
      | nil => rfl
      | cons x xs =>
        have := h.subW t x (by rw [hl]; exact List.mem_cons_self)
        rw [he] at this; cases this
    rw [this] at hc; cases hc

theorem Grow.giveW (l : Live) (t w : Nat) : Grow l (giveW l t w) where
  ts := rfl
  ws := rfl
  subW := by
    intro t' w' h
    simp only [PDesy.giveW, upd_apply]
    split
    · rename_i e; subst e; exact List.mem_append_left _ h
    · exact h
  subF := fun _ _ h => h
  asg := by
    intro w' h
    simp only [PDesy.giveW, upd_apply] at h
    split at h
    · simp at h
    · exact h

theorem Grow.giveF (l : Live) (t f : Nat) : Grow l (giveF l t f) where
  ts := rfl
  ws := rfl
  subW := fun _ _ h => h
  subF := by
    intro t' f' h
    simp only [PDesy.giveF, upd_apply]
    split
    · rename_i e; subst e; exact List.mem_append_left _ h
    · exact h
  asg := fun _ h => h

theorem Grow.of_frame {l l' : Live} (hW : l'.allocW = l.allocW) (hF : l'.allocF = l.allocF)
    (ha : l'.wasg = l.wasg) (ht : l'.tstate = l.tstate) (hs : l'.wstate = l.wstate) : Grow l l' :=
  ⟨ht, hs, fun _ _ h => by rw [hW]; exact h, fun _ _ h => by rw [hF]; exact h,
   fun _ h => by rw [← ha]; exact h⟩

theorem Grow.placeStep (m : Model) (t : Nat) (l : Live) : Grow l (placeStep m t l) :=
  have h := Alloc.placeStep_frame m t l
  Grow.of_frame h.1 h.2.1 h.2.2.1 h.2.2.2.2.1 h.2.2.2.2.2.1

/-! ### one step of the allocation pass -/

/-- What a step of the allocation pass does to the accumulator: the live state grows, the free
list only shrinks, a worker leaves the free list only by being assigned, and every worker a
task gains comes out of the free list. -/
structure Step (a a' : Alloc) : Prop where
  grow : Grow a.l a'.l
  free_sub : ∀ w ∈ a'.free, w ∈ a.free
  keep : ∀ w ∈ a.free, a'.l.wasg w = [] → w ∈ a'.free
  src : ∀ t w, w ∈ a'.l.allocW t → w ∈ a.l.allocW t ∨ w ∈ a.free

theorem Step.refl (a : Alloc) : Step a a :=
  ⟨Grow.refl _, fun _ h => h, fun _ h _ => h, fun _ _ h => Or.inl h⟩

theorem Step.trans {a b c : Alloc} (h1 : Step a b) (h2 : Step b c) : Step a c where
  grow := h1.grow.trans h2.grow
  free_sub := fun w h => h1.free_sub w (h2.free_sub w h)
  keep := fun w h hn => h2.keep w (h1.keep w h (h2.grow.asg w hn)) hn
  src := by
    intro t w h
    rcases h2.src t w h with h | h
    · exact h1.src t w h
    · exact Or.inr (h1.free_sub w h)

/-- changing only the order of the free list, the moved-component list, or parts of the live
state that the pass does not read back -/
theorem Step.of_frame {a a' : Alloc} (hg : Grow a.l a'.l) (hW : a'.l.allocW = a.l.allocW)
    (hfree : ∀ w, w ∈ a'.free ↔ w ∈ a.free) : Step a a' :=
  ⟨hg, fun w h => (hfree w).mp h, fun w h _ => (hfree w).mpr h,
   fun _ _ h => Or.inl (by rw [← hW]; exact h)⟩

/-- handing worker `w` of the free list to task `t` -/
theorem Step.give (a : Alloc) (t w : Nat) (l' : Live) (hg : Grow (giveW a.l t w) l')
    (hW : l'.allocW = (giveW a.l t w).allocW) (mv : List Nat) (hw : w ∈ a.free) :
    Step a { l := l', free := a.free.filter (· != w), moved := mv } where
  grow := (Grow.giveW a.l t w).trans hg
  free_sub := fun w' h => (List.mem_filter.mp h).1
  keep := by
    intro w' h hn
    refine List.mem_filter.mpr ⟨h, ?_⟩
    simp only [bne_iff_ne, ne_eq]
    rintro rfl
    have := hg.asg _ hn
    simp [giveW] at this
  src := by
    intro t' w' h
    simp only [hW] at h
    rcases Elig.mem_upd_append h with h | ⟨_, h⟩
    · exact Or.inl h
    · exact Or.inr (h ▸ hw)

/-- the step function of the inner loop of `allocWorkers` -/
def wStep (m : Model) (t : Nat) (acc : Alloc) (w : Nat) : Alloc :=
  if canAdd m acc.l t (some w) Option.none then
    { acc with l := giveW acc.l t w, free := acc.free.filter (· != w) }
  else acc

theorem allocWorkers_eq (m : Model) (t : Nat) (a : Alloc) :
    allocWorkers m t a =
      ((sortWorkers m (m.task t).wRule (m.task t).name Option.none a.free).filter fun w =>
        hasSkill (m.worker w).skills (m.task t).name && teamTargets m w t).foldl (wStep m t)
        { a with free := sortWorkers m (m.task t).wRule (m.task t).name Option.none a.free } := rfl

theorem wStep_step (m : Model) (t : Nat) (acc : Alloc) (w : Nat) (hw : w ∈ acc.free) :
    Step acc (wStep m t acc w) := by
  unfold wStep
  split
  · exact Step.give acc t w _ (Grow.refl _) rfl _ hw
  · exact Step.refl _

/-- a fold over a list whose members all lie in the current free list (and are distinct, so a
worker handed out is not met again) -/
theorem foldl_wStep_step (m : Model) (t : Nat) :
    ∀ (cs : List Nat) (acc : Alloc), cs.Nodup → (∀ w ∈ cs, w ∈ acc.free) →
      Step acc (cs.foldl (wStep m t) acc) := by
  intro cs
  induction cs with
  | nil => intro acc _ _; exact Step.refl _
  | cons c cs ih =>
    intro acc hnd hsub
    rw [List.foldl_cons]
    have hnd' := List.nodup_cons.mp hnd
    have h1 := wStep_step m t acc c (hsub c List.mem_cons_self)
    refine h1.trans (ih _ hnd'.2 ?_)
    intro w hw
    have hwf := hsub w (List.mem_cons_of_mem _ hw)
    unfold wStep
    split
    · refine List.mem_filter.mpr ⟨hwf, ?_⟩
      simp only [bne_iff_ne, ne_eq]
      rintro rfl; exact hnd'.1 hw
    · exact hwf

/-- a task whose turn is over has refused every eligible worker that is still free -/
def Settled (m : Model) (a : Alloc) (t : Nat) : Prop :=
  ∀ w ∈ a.free, hasSkill (m.worker w).skills (m.task t).name = true → teamTargets m w t = true →
    canAdd m a.l t (some w) Option.none = false

theorem Settled.step {m : Model} {a a' : Alloc} {t : Nat} (h : Settled m a t) (hs : Step a a') :
    Settled m a' t :=
  fun w hw h1 h2 => hs.grow.canAdd_false (h w (hs.free_sub w hw) h1 h2)

/-- the inner loop: once the candidate list is exhausted, every eligible free worker that is not
in the remaining list has been refused -/
theorem foldl_wStep_settled (m : Model) (t : Nat) :
    ∀ (cs : List Nat) (acc : Alloc),
      (∀ w ∈ acc.free, w ∉ cs → hasSkill (m.worker w).skills (m.task t).name = true →
        teamTargets m w t = true → canAdd m acc.l t (some w) Option.none = false) →
      Settled m (cs.foldl (wStep m t) acc) t := by
  intro cs
  induction cs with
  | nil => intro acc h w hw; exact h w hw (by simp)
  | cons c cs ih =>
    intro acc h
    rw [List.foldl_cons]
    apply ih
    intro w hw hn h1 h2
    unfold wStep at hw ⊢
    split
    · rename_i hc
      rw [if_pos hc] at hw
      obtain ⟨hw1, hw2⟩ := List.mem_filter.mp hw
      simp only [bne_iff_ne, ne_eq] at hw2
      exact (Grow.giveW acc.l t c).canAdd_false
        (h w hw1 (by simp [hw2, hn]) h1 h2)
    · rename_i hc
      rw [if_neg hc] at hw
      by_cases e : w = c
      · subst e; simpa using hc
      · exact h w hw (by simp [e, hn]) h1 h2

theorem allocWorkers_settled (m : Model) (t : Nat) (a : Alloc) :
    Settled m (allocWorkers m t a) t := by
  rw [allocWorkers_eq]
  apply foldl_wStep_settled
  intro w hw hn h1 h2
  exact absurd (List.mem_filter.mpr ⟨hw, by simp [h1, h2]⟩) hn

theorem allocWorkers_step (m : Model) (t : Nat) (a : Alloc) (hnd : a.free.Nodup) :
    Step a (allocWorkers m t a) := by
  rw [allocWorkers_eq]
  have h0 : Step a { a with free := sortWorkers m (m.task t).wRule (m.task t).name Option.none a.free } :=
    Step.of_frame (Grow.refl _) rfl (fun w => Sort.mem_sortWorkers)
  refine h0.trans (foldl_wStep_step m t _ _ ?_ ?_)
  · exact Alloc.nodup_filter _ ((Alloc.nodup_sortBy _ _).mpr hnd)
  · intro w hw; exact (List.mem_filter.mp hw).1

/-- the step function of the loop of `allocPairs` -/
def pStep (m : Model) (t p : Nat) (acc : Alloc) (f : Nat) : Alloc :=
  let ws := acc.free.filter fun w =>
    hasSkill (m.worker w).skills (m.task t).name && teamTargets m w t &&
      canAdd m acc.l t (some w) (some f)
  match sortWorkers m (m.task t).wRule (m.task t).name (some p) ws with
  | [] => acc
  | w :: _ => { acc with l := giveF (giveW acc.l t w) t f, free := acc.free.filter (· != w) }

theorem pStep_step (m : Model) (t p : Nat) (acc : Alloc) (f : Nat) : Step acc (pStep m t p acc f) := by
  unfold pStep
  dsimp only
  split
  · exact Step.refl _
  · rename_i w rest heq
    have hw : w ∈ sortWorkers m (m.task t).wRule (m.task t).name (some p)
        (acc.free.filter fun w => hasSkill (m.worker w).skills (m.task t).name &&
          teamTargets m w t && canAdd m acc.l t (some w) (some f)) := by
      rw [heq]; exact List.mem_cons_self
    exact Step.give acc t w _ (Grow.giveF _ t f) rfl _
      (List.mem_filter.mp (Sort.mem_sortWorkers.mp hw)).1

theorem allocPairs_step (m : Model) (t : Nat) (a : Alloc) : Step a (allocPairs m t a) := by
  unfold allocPairs
  split
  · exact Step.refl _
  · split
    · exact Step.refl _
    · rename_i p _
      exact Lifecycle.foldl_rel (pStep m t p) Step Step.refl (fun _ _ _ => Step.trans)
        (pStep_step m t p) _ a

theorem filter_ne_nodup {xs : List Nat} (h : xs.Nodup) (w : Nat) : (xs.filter (· != w)).Nodup :=
  Alloc.nodup_filter _ h

theorem wStep_nodup (m : Model) (t : Nat) (acc : Alloc) (w : Nat) (h : acc.free.Nodup) :
    (wStep m t acc w).free.Nodup := by
  unfold wStep; split
  · exact filter_ne_nodup h w
  · exact h

theorem pStep_nodup (m : Model) (t p : Nat) (acc : Alloc) (f : Nat) (h : acc.free.Nodup) :
    (pStep m t p acc f).free.Nodup := by
  unfold pStep; dsimp only; split
  · exact h
  · exact filter_ne_nodup h _

theorem allocWorkers_nodup (m : Model) (t : Nat) (a : Alloc) (h : a.free.Nodup) :
    (allocWorkers m t a).free.Nodup := by
  rw [allocWorkers_eq]
  exact Lifecycle.foldl_inv (wStep m t) (fun a => a.free.Nodup) (fun b w hb => wStep_nodup m t b w hb)
    _ _ ((Alloc.nodup_sortBy _ _).mpr h)

theorem allocPairs_nodup (m : Model) (t : Nat) (a : Alloc) (h : a.free.Nodup) :
    (allocPairs m t a).free.Nodup := by
  unfold allocPairs
  split
  · exact h
  · split
    · exact h
    · rename_i p _
      exact Lifecycle.foldl_inv (pStep m t p) (fun a => a.free.Nodup)
        (fun b f hb => pStep_nodup m t p b f hb) _ _ h

/-- the accumulator after the placement part of `allocTask` -/
def headOf (m : Model) (acc : Alloc) (t : Nat) : Alloc :=
  let skip : Bool := match (m.task t).comp with
    | some c => acc.moved.contains c
    | Option.none => false
  if skip then acc
  else { acc with l := placeStep m t acc.l,
                  moved := match placeMoves m t acc.l with
                    | some c => acc.moved ++ [c]
                    | Option.none => acc.moved }

theorem allocTask_eq (m : Model) (acc : Alloc) (t : Nat) :
    allocTask m acc t =
      if (m.task t).isAuto then headOf m acc t
      else if (m.task t).needFac then allocPairs m t (headOf m acc t)
      else allocWorkers m t (headOf m acc t) := rfl

theorem headOf_cases (m : Model) (acc : Alloc) (t : Nat) :
    headOf m acc t = acc ∨
      ∃ mv, headOf m acc t = { acc with l := placeStep m t acc.l, moved := mv } := by
  unfold headOf
  dsimp only
  generalize (match (m.task t).comp with
    | some c => acc.moved.contains c
    | Option.none => false) = b
  cases b
  · right; exact ⟨_, rfl⟩
  · left; rfl

theorem headOf_free (m : Model) (acc : Alloc) (t : Nat) : (headOf m acc t).free = acc.free := by
  rcases headOf_cases m acc t with h | ⟨mv, h⟩ <;> rw [h]

theorem headOf_step (m : Model) (acc : Alloc) (t : Nat) : Step acc (headOf m acc t) := by
  rcases headOf_cases m acc t with h | ⟨mv, h⟩ <;> rw [h]
  · exact Step.refl _
  · exact Step.of_frame (Grow.placeStep m t acc.l) (Alloc.placeStep_frame m t acc.l).1
      (fun _ => Iff.rfl)

theorem allocTask_nodup (m : Model) (acc : Alloc) (t : Nat) (h : acc.free.Nodup) :
    (allocTask m acc t).free.Nodup := by
  have h1 : (headOf m acc t).free.Nodup := by rw [headOf_free]; exact h
  rw [allocTask_eq]
  split
  · exact h1
  · split
    · exact allocPairs_nodup m t _ h1
    · exact allocWorkers_nodup m t _ h1

theorem allocTask_step (m : Model) (acc : Alloc) (t : Nat) (h : acc.free.Nodup) :
    Step acc (allocTask m acc t) := by
  have h1 : (headOf m acc t).free.Nodup := by rw [headOf_free]; exact h
  rw [allocTask_eq]
  split
  · exact headOf_step m acc t
  · split
    · exact (headOf_step m acc t).trans (allocPairs_step m t _)
    · exact (headOf_step m acc t).trans (allocWorkers_step m t _ h1)

theorem allocTask_settled (m : Model) (acc : Alloc) (t : Nat)
    (hna : (m.task t).isAuto = false) (hnf : (m.task t).needFac = false) :
    Settled m (allocTask m acc t) t := by
  rw [allocTask_eq]
  simp only [hna, hnf, Bool.false_eq_true, if_false]
  exact allocWorkers_settled m t _

/-- the whole pass over a task list: a `Step`, and every listed task (without facility, not
automatic) is settled at the end -/
theorem foldl_allocTask (m : Model) :
    ∀ (ts : List Nat) (acc : Alloc), acc.free.Nodup →
      (ts.foldl (allocTask m) acc).free.Nodup ∧
      Step acc (ts.foldl (allocTask m) acc) ∧
      ∀ t ∈ ts, (m.task t).isAuto = false → (m.task t).needFac = false →
        Settled m (ts.foldl (allocTask m) acc) t := by
  intro ts
  induction ts with
  | nil => intro acc h; exact ⟨h, Step.refl _, by simp⟩
  | cons t ts ih =>
    intro acc h
    rw [List.foldl_cons]
    have hn := allocTask_nodup m acc t h
    obtain ⟨i1, i2, i3⟩ := ih (allocTask m acc t) hn
    refine ⟨i1, (allocTask_step m acc t h).trans i2, ?_⟩
    intro t' ht' hna hnf
    rcases List.mem_cons.mp ht' with e | e
    · subst e; exact (allocTask_settled m acc t' hna hnf).step i2
    · exact i3 t' e hna hnf

/-! ### a task's worker list changes only at its own turn -/

theorem wStep_allocW_other (m : Model) (t t' : Nat) (h : t' ≠ t) (acc : Alloc) (w : Nat) :
    (wStep m t acc w).l.allocW t' = acc.l.allocW t' := by
  unfold wStep; split
  · simp [giveW, h]
  · rfl

theorem pStep_allocW_other (m : Model) (t p t' : Nat) (h : t' ≠ t) (acc : Alloc) (f : Nat) :
    (pStep m t p acc f).l.allocW t' = acc.l.allocW t' := by
  unfold pStep; dsimp only; split
  · rfl
  · simp [giveF, giveW, h]

theorem allocTask_allocW_other (m : Model) (acc : Alloc) (t t' : Nat) (h : t' ≠ t) :
    (allocTask m acc t).l.allocW t' = acc.l.allocW t' := by
  have h1 : (headOf m acc t).l.allocW t' = acc.l.allocW t' := by
    rcases headOf_cases m acc t with h | ⟨mv, h⟩ <;> rw [h]
    exact congrFun (Alloc.placeStep_frame m t acc.l).1 t'
  rw [allocTask_eq]
  split
  · exact h1
  · split
    · rw [← h1]
      unfold allocPairs
      split
      · rfl
      · split
        · rfl
        · rename_i p _
          exact Lifecycle.foldl_proj (pStep m t p) (fun a : Alloc => a.l.allocW t')
            (pStep_allocW_other m t p t' h) _ _
    · rw [← h1, allocWorkers_eq]
      exact Lifecycle.foldl_proj (wStep m t) (fun a : Alloc => a.l.allocW t')
        (wStep_allocW_other m t t' h) _ _

theorem foldl_allocTask_allocW_other (m : Model) (t' : Nat) :
    ∀ (ts : List Nat) (acc : Alloc), t' ∉ ts →
      (ts.foldl (allocTask m) acc).l.allocW t' = acc.l.allocW t' := by
  intro ts
  induction ts with
  | nil => intro acc _; rfl
  | cons t ts ih =>
    intro acc h
    rw [List.foldl_cons, ih _ (fun hm => h (List.mem_cons_of_mem _ hm)),
      allocTask_allocW_other m acc t t' (fun e => h (e ▸ List.mem_cons_self))]

/-! ### `allocate` -/

/-- the candidate tasks of the allocation pass -/
def cands (m : Model) (l : Live) : List Nat :=
  (List.range m.nT).filter fun t => l.tstate t == .ready || l.tstate t == .working

theorem mem_cands {m : Model} {l : Live} {t : Nat} :
    t ∈ cands m l ↔ t < m.nT ∧ (l.tstate t = .ready ∨ l.tstate t = .working) := by
  simp [cands]

theorem cands_nodup (m : Model) (l : Live) : (cands m l).Nodup :=
  Alloc.nodup_filter _ List.nodup_range

theorem freeOf_nodup (m : Model) (l : Live) : (Elig.freeOf m l).Nodup :=
  Alloc.nodup_filter _ List.nodup_range

/-- `allocate` is the fold of `allocTask` over the sorted candidates -/
theorem allocate_eq (m : Model) (lg : Logs) (rule : TaskRule) (l : Live) :
    allocate m lg rule l =
      ((sortTasks m l lg rule (cands m l)).foldl (allocTask m)
        { l := l, free := Elig.freeOf m l }).l := by
  unfold allocate
  simp only [tabN_eq]
  rfl

theorem allocate_grow (m : Model) (lg : Logs) (rule : TaskRule) (l : Live) :
    Grow l (allocate m lg rule l) := by
  rw [allocate_eq]
  exact (foldl_allocTask m _ { l := l, free := Elig.freeOf m l } (freeOf_nodup m l)).2.1.grow

/-- **idle-worker clause** at the level of `allocate`: a FREE worker that still holds nothing
after the pass has been refused by every candidate task (without facility, not automatic) it is
eligible for, and the refusal still stands in the resulting state. -/
theorem allocate_idle (m : Model) (lg : Logs) (rule : TaskRule) (l : Live) (w t : Nat)
    (hw : w < m.nW) (hfree : l.wstate w = .free) (hidle : (allocate m lg rule l).wasg w = [])
    (ht : t < m.nT) (hs : l.tstate t = .ready ∨ l.tstate t = .working)
    (hna : (m.task t).isAuto = false) (hnf : (m.task t).needFac = false)
    (hskill : hasSkill (m.worker w).skills (m.task t).name = true)
    (hteam : teamTargets m w t = true) :
    canAdd m (allocate m lg rule l) t (some w) Option.none = false := by
  rw [allocate_eq] at hidle ⊢
  obtain ⟨_, hstep, hset⟩ :=
    foldl_allocTask m (sortTasks m l lg rule (cands m l)) { l := l, free := Elig.freeOf m l }
      (freeOf_nodup m l)
  have hwf : w ∈ Elig.freeOf m l := Elig.mem_freeOf.mpr ⟨hw, hfree⟩
  exact hset t (Sort.mem_sortTasks.mpr (mem_cands.mpr ⟨ht, hs⟩)) hna hnf w
    (hstep.keep w hwf hidle) hskill hteam

/-- **no priority inversion** at the level of `allocate`, positional form: if the sorted
candidate list is `pre ++ t1 :: post`, task `t2` occurs in `post` only, and worker `w` is newly
given to `t2`, then `t1` (without facility, not automatic), if `w` is eligible for it, has
refused `w`, and the refusal still stands in the resulting state. -/
theorem allocate_no_inversion_pos (m : Model) (lg : Logs) (rule : TaskRule) (l : Live)
    (pre post : List Nat) (t1 t2 w : Nat)
    (hsorted : sortTasks m l lg rule (cands m l) = pre ++ t1 :: post)
    (h2 : t2 ∉ pre) (h12 : t2 ≠ t1)
    (hna : (m.task t1).isAuto = false) (hnf : (m.task t1).needFac = false)
    (hnew : w ∈ (allocate m lg rule l).allocW t2) (hold : w ∉ l.allocW t2)
    (hskill : hasSkill (m.worker w).skills (m.task t1).name = true)
    (hteam : teamTargets m w t1 = true) :
    canAdd m (allocate m lg rule l) t1 (some w) Option.none = false := by
  rw [allocate_eq, hsorted, List.foldl_append, List.foldl_cons] at hnew ⊢
  have h0 := freeOf_nodup m l
  obtain ⟨n1, _, _⟩ := foldl_allocTask m pre { l := l, free := Elig.freeOf m l } h0
  have e1 := foldl_allocTask_allocW_other m t2 pre { l := l, free := Elig.freeOf m l } h2
  generalize pre.foldl (allocTask m) { l := l, free := Elig.freeOf m l } = a0 at *
  have e2 := allocTask_allocW_other m a0 t1 t2 h12
  have hset := allocTask_settled m a0 t1 hna hnf
  have n2 := allocTask_nodup m a0 t1 n1
  generalize allocTask m a0 t1 = a1 at *
  obtain ⟨_, hstep, _⟩ := foldl_allocTask m post a1 n2
  have hwf : w ∈ a1.free := by
    rcases hstep.src t2 w hnew with h | h
    · rw [e2, e1] at h; exact absurd h hold
    · exact h
  exact hstep.grow.canAdd_false (hset w hwf hskill hteam)

/-! ### "before in the sorted list" -/

theorem sublist_pair_split {a b : Nat} :
    ∀ {xs : List Nat}, List.Sublist [a, b] xs → ∃ pre post, xs = pre ++ a :: post ∧ b ∈ post := by
  intro xs
  induction xs with
  | nil => intro h; cases h
  | cons x xs ih =>
    intro h
    cases h with
    | cons _ h' =>
      obtain ⟨pre, post, e, hb⟩ := ih h'
      exact ⟨x :: pre, post, by rw [e]; rfl, hb⟩
    | cons_cons _ h' => exact ⟨[], xs, rfl, List.singleton_sublist.mp h'⟩

theorem sorted_nodup (m : Model) (l : Live) (lg : Logs) (rule : TaskRule) :
    (sortTasks m l lg rule (cands m l)).Nodup :=
  (Sort.sortTasks_perm m l lg rule _).nodup_iff.mpr (cands_nodup m l)

/-- in the sorted candidate list an earlier task is at least as urgent as a later one under the
comparator of the chosen rule -/
theorem sorted_before_le (m : Model) (l : Live) (lg : Logs) (rule : TaskRule) (ts : List Nat)
    {t1 t2 : Nat} (h : List.Sublist [t1, t2] (sortTasks m l lg rule ts)) :
    taskLe m l lg rule t1 t2 = true := by
  have hp := (Sort.sortBy_pairwise (Sort.taskLe_total m l lg rule) (Sort.taskLe_trans m l lg rule)
    ts).sublist h
  simpa using hp

/-- **no priority inversion** at the level of `allocate`: `t1` strictly before `t2` in the sorted
candidate list -/
theorem allocate_no_inversion (m : Model) (lg : Logs) (rule : TaskRule) (l : Live)
    (t1 t2 w : Nat)
    (hord : List.Sublist [t1, t2] (sortTasks m l lg rule (cands m l)))
    (hna : (m.task t1).isAuto = false) (hnf : (m.task t1).needFac = false)
    (hnew : w ∈ (allocate m lg rule l).allocW t2) (hold : w ∉ l.allocW t2)
    (hskill : hasSkill (m.worker w).skills (m.task t1).name = true)
    (hteam : teamTargets m w t1 = true) :
    canAdd m (allocate m lg rule l) t1 (some w) Option.none = false := by
  obtain ⟨pre, post, e, hb⟩ := sublist_pair_split hord
  have hnd := sorted_nodup m l lg rule
  rw [e, List.nodup_append] at hnd
  obtain ⟨_, hnd2, hdis⟩ := hnd
  have h12 : t2 ≠ t1 := by
    rintro rfl; exact (List.nodup_cons.mp hnd2).1 hb
  have h2 : t2 ∉ pre := fun hm => hdis t2 hm t2 (List.mem_cons_of_mem _ hb) rfl
  exact allocate_no_inversion_pos m lg rule l pre post t1 t2 w e h2 h12 hna hnf hnew hold
    hskill hteam

/-! ### the idle-worker clause at the end of a working step -/

theorem canAdd_congr {m : Model} {l l' : Live} {t w : Nat}
    (hW : l'.allocW t = l.allocW t) (hF : l'.allocF t = l.allocF t)
    (hts : (l'.tstate t ≠ .none ∧ l'.tstate t ≠ .finished) ↔
      (l.tstate t ≠ .none ∧ l.tstate t ≠ .finished)) :
    canAdd m l' t (some w) Option.none = canAdd m l t (some w) Option.none := by
  rw [Bool.eq_iff_iff, canAdd_W_iff, canAdd_W_iff, hW, hF, hts]

theorem stepBody_idle (m : Model) (p : Params) (s : St)
    (hwork : p.absence.contains s.time = false)
    (hinv : AllocInv m s.live) (hhw : HoldWorking s.live) (w t : Nat)
    (hw : w < m.nW) (hfree : (stepBody m p s).live.wstate w = .free)
    (ht : t < m.nT)
    (hs : (stepBody m p s).live.tstate t = .ready ∨ (stepBody m p s).live.tstate t = .working)
    (hna : (m.task t).isAuto = false) (hnf : (m.task t).needFac = false)
    (hskill : hasSkill (m.worker w).skills (m.task t).name = true)
    (hteam : teamTargets m w t = true) :
    canAdd m (stepBody m p s).live t (some w) Option.none = false := by
  have hres := (stepBody_C03 p hinv hhw).2.2
  have hwa : workingAt p s.time = true := by unfold workingAt; rw [hwork]; rfl
  rw [hwa] at hres
  have hidle5 := hres.freeIdle w hw hfree
  have habs : (m.worker w).absence.contains s.time = false := by
    have h1 := hres.1 w hw
    rw [hfree] at h1
    exact (Alloc.resState_eq_free (by simpa using h1.symm)).1
  rw [Alloc.stepBody_live] at hfree hs hidle5 ⊢
  simp only [hwork, Bool.not_false, if_true] at hfree hs hidle5 ⊢
  generalize hl1 : absenceSet m s.time true s.live = l1 at *
  have hfr := Alloc.chkWorking_frame m (allocate m s.logs p.rule l1)
  have hidle2 : (allocate m s.logs p.rule l1).wasg w = [] := by
    have : (chkWorking m (allocate m s.logs p.rule l1)).wasg w = [] := hidle5
    rwa [hfr.2.2.1] at this
  have hg := allocate_grow m s.logs p.rule l1
  have hfree1 : l1.wstate w = .free := by
    have h0 := hg.asg w hidle2
    rw [← hl1] at h0 ⊢
    have h0' : s.live.wasg w = [] := h0
    have habs' : s.time ∉ (m.worker w).absence := by simpa using habs
    simp [absenceSet, hw, resState, habs', h0']
  have hs3 : (chkWorking m (allocate m s.logs p.rule l1)).tstate t = .ready ∨
      (chkWorking m (allocate m s.logs p.rule l1)).tstate t = .working := hs
  have hs2 : (allocate m s.logs p.rule l1).tstate t = .ready ∨
      (allocate m s.logs p.rule l1).tstate t = .working := by
    rcases Alloc.chkWorking_tstate_cases m (allocate m s.logs p.rule l1) t with e | ⟨e, _⟩
    · rw [e] at hs3; exact hs3
    · exact Or.inl e
  have hs1 : l1.tstate t = .ready ∨ l1.tstate t = .working := by rw [← hg.ts]; exact hs2
  have hc := allocate_idle m s.logs p.rule l1 w t hw hfree1 hidle2 ht hs1 hna hnf hskill hteam
  rw [← hc]
  apply canAdd_congr
  · show (chkWorking m _).allocW t = _; rw [hfr.1]
  · show (chkWorking m _).allocF t = _; rw [hfr.2.1]
  · show ((chkWorking m (allocate m s.logs p.rule l1)).tstate t ≠ .none ∧
      (chkWorking m (allocate m s.logs p.rule l1)).tstate t ≠ .finished) ↔ _
    rcases hs3 with e | e <;> rcases hs2 with e' | e' <;> simp [e, e']

/-- `check_state(WORKING)` keeps a READY/WORKING task READY/WORKING and the allocation lists, so
it does not change the answer of `can_add_resources(worker=w)` -/
theorem chkWorking_canAdd (m : Model) (l : Live) (t w : Nat)
    (hs : l.tstate t = .ready ∨ l.tstate t = .working) :
    canAdd m (chkWorking m l) t (some w) Option.none = canAdd m l t (some w) Option.none := by
  have hfr := Alloc.chkWorking_frame m l
  apply canAdd_congr
  · rw [hfr.1]
  · rw [hfr.2.1]
  · rcases Alloc.chkWorking_tstate_cases m l t with e | ⟨_, e⟩
    · rw [e]
    · rcases hs with e' | e' <;> simp [e, e']

/-- the no-inversion clause read at the end of a working step -/
theorem stepBody_no_inversion (m : Model) (p : Params) (s : St)
    (hwork : p.absence.contains s.time = false) (t1 t2 w : Nat)
    (hord : List.Sublist [t1, t2] (sortTasks m s.live s.logs p.rule (cands m s.live)))
    (hna : (m.task t1).isAuto = false) (hnf : (m.task t1).needFac = false)
    (hnew : w ∈ (stepBody m p s).live.allocW t2) (hold : w ∉ s.live.allocW t2)
    (hskill : hasSkill (m.worker w).skills (m.task t1).name = true)
    (hteam : teamTargets m w t1 = true) :
    canAdd m (stepBody m p s).live t1 (some w) Option.none = false := by
  rw [Alloc.stepBody_live] at hnew ⊢
  simp only [hwork, Bool.not_false, if_true] at hnew ⊢
  have hord1 : List.Sublist [t1, t2] (sortTasks m (absenceSet m s.time true s.live) s.logs p.rule
      (cands m (absenceSet m s.time true s.live))) := hord
  have hold1 : w ∉ (absenceSet m s.time true s.live).allocW t2 := hold
  generalize absenceSet m s.time true s.live = l1 at *
  have hfr := Alloc.chkWorking_frame m (allocate m s.logs p.rule l1)
  have hnew2 : w ∈ (allocate m s.logs p.rule l1).allocW t2 := by
    have : w ∈ (chkWorking m (allocate m s.logs p.rule l1)).allocW t2 := hnew
    rwa [hfr.1] at this
  have hc := allocate_no_inversion m s.logs p.rule l1 t1 t2 w hord1 hna hnf hnew2 hold1 hskill hteam
  have ht1 : l1.tstate t1 = .ready ∨ l1.tstate t1 = .working :=
    (mem_cands.mp (Sort.mem_sortTasks.mp (hord1.subset List.mem_cons_self))).2
  rw [← (allocate_grow m s.logs p.rule l1).ts] at ht1
  rw [← hc, ← chkWorking_canAdd m (allocate m s.logs p.rule l1) t1 w ht1]
  exact canAdd_congr rfl rfl Iff.rfl

end NoWait
end PDesy
