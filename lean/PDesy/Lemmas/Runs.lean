/-
  PDesy.Lemmas.Runs — maximal runs of a value in a list (independent specification of what a
  Gantt encoder must return) and the proofs that the encoders of `PDesy.Model.Report`
  (`ganttT`, `ganttC`, `ganttR`) compute exactly those runs; plotly rows, `extractIdx`,
  `setLastDatetime`.
-/
import PDesy.Model.Report

namespace PDesy.Runs

variable {σ : Type} [DecidableEq σ]

/-- put one more element `x` (at index `start`) in front of an already encoded tail -/
def rleCons (x : σ) (start : Nat) : List (σ × Nat × Nat) → List (σ × Nat × Nat)
  | [] => [(x, start, 1)]
  | (y, s, n) :: rest => if x = y then (y, start, n + 1) :: rest else (x, start, 1) :: (y, s, n) :: rest

/-- run-length encoding of `log`, whose first element has index `start`:
the list of `(value, start index, length)` of the maximal blocks of equal values, in order -/
def rleFrom (start : Nat) : List σ → List (σ × Nat × Nat)
  | [] => []
  | x :: xs => rleCons x start (rleFrom (start + 1) xs)

def runsFrom (start : Nat) (st : σ) (log : List σ) : List (Nat × Nat) :=
  ((rleFrom start log).filter (fun r => r.1 = st)).map (fun r => r.2)

/-- the maximal runs of `st` in `log` as `(start index, length)`, in order -/
def runsOf (st : σ) (log : List σ) : List (Nat × Nat) := runsFrom 0 st log

/-- independent definition: `[b, b+n)` is a maximal run of `v` in `log` -/
def IsMaxRun (log : List σ) (v : σ) (b n : Nat) : Prop :=
  1 ≤ n ∧ (∀ i, i < n → log[b + i]? = some v) ∧ (b = 0 ∨ log[b - 1]? ≠ some v) ∧ log[b + n]? ≠ some v

theorem rleFrom_cons_head (s : Nat) (x : σ) (xs : List σ) :
    ∃ n tl, rleFrom s (x :: xs) = (x, s, n + 1) :: tl := by
  induction xs generalizing s x with
  | nil => exact ⟨0, [], rfl⟩
  | cons y ys ih =>
    obtain ⟨n, tl, h⟩ := ih (s + 1) y
    rw [rleFrom, h]
    by_cases hxy : x = y
    · subst hxy; exact ⟨n + 1, tl, by simp [rleCons]⟩
    · exact ⟨0, (y, s + 1, n + 1) :: tl, by simp [rleCons, hxy]⟩

/-- one-step unfolding of `rleFrom` in a form convenient for inductions -/
theorem rleFrom_cons_cases (s : Nat) (x : σ) (xs : List σ) :
    (xs = [] ∧ rleFrom s (x :: xs) = [(x, s, 1)]) ∨
    (∃ y ys n tl, xs = y :: ys ∧ rleFrom (s + 1) xs = (y, s + 1, n + 1) :: tl ∧
      rleFrom s (x :: xs) =
        if x = y then (y, s, n + 2) :: tl else (x, s, 1) :: (y, s + 1, n + 1) :: tl) := by
  cases xs with
  | nil => exact Or.inl ⟨rfl, rfl⟩
  | cons y ys =>
    obtain ⟨n, tl, h⟩ := rleFrom_cons_head (s + 1) y ys
    refine Or.inr ⟨y, ys, n, tl, rfl, h, ?_⟩
    rw [rleFrom, h]; rfl

theorem rleFrom_starts (s : Nat) (log : List σ) :
    (∀ r ∈ rleFrom s log, s ≤ r.2.1) ∧ (rleFrom s log).Pairwise (fun r1 r2 => r1.2.1 < r2.2.1) := by
  induction log generalizing s with
  | nil => simp [rleFrom]
  | cons x xs ih =>
    obtain ⟨h1, h2⟩ := ih (s + 1)
    rcases rleFrom_cons_cases s x xs with ⟨_, h⟩ | ⟨y, ys, n, tl, _, h, h'⟩
    · simp [h]
    · rw [h'] ; rw [h] at h1 h2
      simp only [List.pairwise_cons, List.mem_cons, forall_eq_or_imp] at h1 h2 ⊢
      split <;> simp only [List.pairwise_cons, List.mem_cons, forall_eq_or_imp] <;> grind


/-- every block of the encoding is a maximal run of its value -/
theorem rleFrom_sound (s : Nat) (log : List σ) :
    ∀ r ∈ rleFrom s log, ∃ b, r.2.1 = s + b ∧ IsMaxRun log r.1 b r.2.2 := by
  induction log generalizing s with
  | nil => simp [rleFrom]
  | cons x xs ih =>
    have ih' := ih (s + 1)
    have hst := rleFrom_starts (s + 1) xs
    rcases rleFrom_cons_cases s x xs with ⟨hxs, h⟩ | ⟨y, ys, n, tl, hxs, h, h'⟩
    · subst hxs
      simp only [h, List.mem_singleton, forall_eq]
      refine ⟨0, rfl, ?_⟩
      simp [IsMaxRun]
    · rw [h] at ih' hst
      simp only [List.pairwise_cons, List.mem_cons, forall_eq_or_imp] at ih' hst
      obtain ⟨⟨b0, hb0, hrun0⟩, ihtl⟩ := ih'
      have hb0 : b0 = 0 := by omega
      subst hb0
      have htl : ∀ r ∈ tl, ∃ b, r.2.1 = s + b ∧ IsMaxRun (x :: xs) r.1 b r.2.2 := by
        intro r hr
        obtain ⟨b, hb, hrun⟩ := ihtl r hr
        have : s + 1 < r.2.1 := hst.2.1 r hr
        refine ⟨b + 1, by omega, ?_⟩
        obtain ⟨h1, h2, h3, h4⟩ := hrun
        refine ⟨h1, ?_, ?_, ?_⟩
        · intro i hi
          have := h2 i hi
          rwa [show b + 1 + i = (b + i) + 1 by omega, List.getElem?_cons_succ]
        · right
          have hb : b - 1 + 1 = b := by omega
          rcases h3 with h3 | h3
          · omega
          · rwa [show b + 1 - 1 = (b - 1) + 1 by omega, List.getElem?_cons_succ]
        · rwa [show b + 1 + r.2.2 = (b + r.2.2) + 1 by omega, List.getElem?_cons_succ]
      rw [h']
      obtain ⟨h1, h2, h3, h4⟩ := hrun0
      simp only [Nat.zero_add] at h2 h4
      split
      · rename_i hxy
        subst hxy
        simp only [List.mem_cons, forall_eq_or_imp]
        refine ⟨⟨0, rfl, ?_, ?_, Or.inl rfl, ?_⟩, htl⟩
        · simp
        · intro i hi
          cases i with
          | zero => simp
          | succ j => simpa using h2 j (by simp at hi; omega)
        · simpa using h4
      · rename_i hxy
        simp only [List.mem_cons, forall_eq_or_imp]
        refine ⟨⟨0, rfl, ?_, ?_, Or.inl rfl, ?_⟩, ⟨1, rfl, h1, ?_, ?_, ?_⟩, htl⟩
        · simp
        · intro i hi
          have : i = 0 := by simp at hi; omega
          subst this; simp
        · have := h2 0 (by simp)
          simp at this ⊢
          rw [this]; simpa using fun h => hxy h.symm
        · intro i hi
          simpa [Nat.add_comm 1 i] using h2 i hi
        · right; simpa using fun h => hxy h
        · simpa [Nat.add_comm 1] using h4

/-- every position holding `v` lies inside a block of value `v` -/
theorem rleFrom_cover (s : Nat) (log : List σ) (k : Nat) (v : σ) (hk : log[k]? = some v) :
    ∃ a n, (v, a, n) ∈ rleFrom s log ∧ a ≤ s + k ∧ s + k < a + n := by
  induction log generalizing s k with
  | nil => simp at hk
  | cons x xs ih =>
    rcases rleFrom_cons_cases s x xs with ⟨hxs, h⟩ | ⟨y, ys, n, tl, hxs, h, h'⟩
    · subst hxs
      cases k with
      | zero => simp at hk; subst hk; exact ⟨s, 1, by simp [h], by omega, by omega⟩
      | succ j => simp at hk
    · cases k with
      | zero =>
        simp at hk; subst hk
        rw [h']
        split
        · rename_i hxy; subst hxy; exact ⟨s, n + 2, by simp, by omega, by omega⟩
        · exact ⟨s, 1, by simp, by omega, by omega⟩
      | succ j =>
        simp only [List.getElem?_cons_succ] at hk
        obtain ⟨a, m, hmem, h1, h2⟩ := ih (s + 1) j hk
        rw [h] at hmem
        rw [h']
        simp only [List.mem_cons] at hmem
        rcases hmem with hmem | hmem
        · simp only [Prod.mk.injEq] at hmem
          obtain ⟨rfl, rfl, rfl⟩ := hmem
          split
          · exact ⟨s, n + 2, by simp, by omega, by omega⟩
          · exact ⟨s + 1, n + 1, by simp, by omega, by omega⟩
        · split
          · exact ⟨a, m, by simp [hmem], by omega, by omega⟩
          · exact ⟨a, m, by simp [hmem], by omega, by omega⟩


theorem mem_runsFrom {s : Nat} {st : σ} {log : List σ} {a n : Nat} :
    (a, n) ∈ runsFrom s st log ↔ (st, a, n) ∈ rleFrom s log := by
  simp only [runsFrom, List.mem_map, List.mem_filter, decide_eq_true_eq]
  constructor
  · rintro ⟨⟨v, a', n'⟩, ⟨hm, hv⟩, he⟩
    simp only [Prod.mk.injEq] at he hv
    obtain ⟨rfl, rfl⟩ := he
    subst hv; exact hm
  · intro h; exact ⟨(st, a, n), ⟨h, rfl⟩, rfl⟩

omit [DecidableEq σ] in
/-- two overlapping maximal runs of the same value coincide -/
theorem IsMaxRun.eq_of_overlap {log : List σ} {v : σ} {a n a' n' k : Nat}
    (h : IsMaxRun log v a n) (h' : IsMaxRun log v a' n')
    (hk : a ≤ k ∧ k < a + n) (hk' : a' ≤ k ∧ k < a' + n') : a = a' ∧ n = n' := by
  obtain ⟨h1, h2, h3, h4⟩ := h
  obtain ⟨h1', h2', h3', h4'⟩ := h'
  have ha : a = a' := by
    rcases Nat.lt_trichotomy a a' with hlt | heq | hgt
    · exfalso
      rcases h3' with h0 | hne
      · omega
      · apply hne
        have := h2 (a' - 1 - a) (by omega)
        rwa [show a + (a' - 1 - a) = a' - 1 by omega] at this
    · exact heq
    · exfalso
      rcases h3 with h0 | hne
      · omega
      · apply hne
        have := h2' (a - 1 - a') (by omega)
        rwa [show a' + (a - 1 - a') = a - 1 by omega] at this
  subst ha
  refine ⟨rfl, ?_⟩
  rcases Nat.lt_trichotomy n n' with hlt | heq | hgt
  · exact absurd (h2' n hlt) h4
  · exact heq
  · exact absurd (h2 n' hgt) h4'

/-- **soundness**: every returned pair is a maximal run of `st` -/
theorem runsOf_sound {st : σ} {log : List σ} {a n : Nat} (h : (a, n) ∈ runsOf st log) :
    IsMaxRun log st a n := by
  obtain ⟨b, hb, hrun⟩ := rleFrom_sound 0 log _ (mem_runsFrom.mp h)
  simp only [Nat.zero_add] at hb
  subst hb; exact hrun

/-- every index holding `st` lies in some returned run -/
theorem runsOf_cover {st : σ} {log : List σ} {k : Nat} (hk : log[k]? = some st) :
    ∃ r ∈ runsOf st log, r.1 ≤ k ∧ k < r.1 + r.2 := by
  obtain ⟨a, n, hm, h1, h2⟩ := rleFrom_cover 0 log k st hk
  exact ⟨(a, n), mem_runsFrom.mpr hm, by simpa using h1, by simpa using h2⟩

/-- … in exactly one -/
theorem runsOf_cover_unique {st : σ} {log : List σ} {k : Nat} (hk : log[k]? = some st) :
    ∃ r, (r ∈ runsOf st log ∧ r.1 ≤ k ∧ k < r.1 + r.2) ∧
      ∀ r', (r' ∈ runsOf st log ∧ r'.1 ≤ k ∧ k < r'.1 + r'.2) → r' = r := by
  obtain ⟨r, hr, h1, h2⟩ := runsOf_cover hk
  refine ⟨r, ⟨hr, h1, h2⟩, ?_⟩
  rintro ⟨a', n'⟩ ⟨hr', h1', h2'⟩
  obtain ⟨a, n⟩ := r
  obtain ⟨rfl, rfl⟩ := (runsOf_sound hr').eq_of_overlap (runsOf_sound hr) ⟨h1', h2'⟩ ⟨h1, h2⟩
  rfl

/-- **completeness**: every maximal run of `st` is returned -/
theorem runsOf_complete {st : σ} {log : List σ} {a n : Nat} (h : IsMaxRun log st a n) :
    (a, n) ∈ runsOf st log := by
  have hk : log[a]? = some st := by simpa using h.2.1 0 h.1
  obtain ⟨⟨a', n'⟩, hr, h1, h2⟩ := runsOf_cover hk
  obtain ⟨rfl, rfl⟩ := h.eq_of_overlap (runsOf_sound hr) ⟨Nat.le_refl _, by have := h.1; omega⟩ ⟨h1, h2⟩
  exact hr

theorem mem_runsOf_iff {st : σ} {log : List σ} {a n : Nat} :
    (a, n) ∈ runsOf st log ↔ IsMaxRun log st a n := ⟨runsOf_sound, runsOf_complete⟩

/-- the returned runs are in increasing order, pairwise disjoint and even separated by a gap -/
theorem runsOf_sorted (st : σ) (log : List σ) :
    (runsOf st log).Pairwise (fun r1 r2 => r1.1 + r1.2 < r2.1) := by
  have hp : (runsOf st log).Pairwise (fun r1 r2 => r1.1 < r2.1) := by
    unfold runsOf runsFrom
    exact ((rleFrom_starts 0 log).2.filter _).map _ (fun _ _ h => h)
  refine hp.imp_of_mem ?_
  rintro ⟨a, n⟩ ⟨a', n'⟩ hr hr' hlt
  simp only at hlt ⊢
  obtain ⟨h1, h2, h3, h4⟩ := runsOf_sound hr
  obtain ⟨h1', h2', h3', h4'⟩ := runsOf_sound hr'
  rcases Nat.lt_trichotomy (a + n) a' with h | h | h
  · exact h
  · exfalso; apply h4; rw [h]; simpa using h2' 0 h1'
  · exfalso
    rcases h3' with h0 | hne
    · omega
    · apply hne
      have := h2 (a' - 1 - a) (by omega)
      rwa [show a + (a' - 1 - a) = a' - 1 by omega] at this

theorem runsOf_nodup (st : σ) (log : List σ) : (runsOf st log).Nodup :=
  (runsOf_sorted st log).imp (fun {r1 r2} h heq => by subst heq; omega)


/-! ### splitting off a leading block (used by the encoder proofs) -/

theorem rleFrom_replicate_append (f k : Nat) (p : σ) (rest : List σ) (h : rest.head? ≠ some p) :
    rleFrom f (List.replicate (k + 1) p ++ rest) = (p, f, k + 1) :: rleFrom (f + k + 1) rest := by
  induction k generalizing f with
  | zero =>
    show rleFrom f (p :: rest) = _
    rcases rleFrom_cons_cases f p rest with ⟨hxs, h'⟩ | ⟨y, ys, n, tl, hxs, h1, h'⟩
    · subst hxs; rw [h']; rfl
    · subst hxs
      have hne : ¬ p = y := by simpa [eq_comm] using h
      rw [h', if_neg hne, h1]
  | succ k ih =>
    show rleFrom f (p :: (List.replicate (k + 1) p ++ rest)) = _
    rw [rleFrom, ih (f + 1)]
    simp only [rleCons, if_true]
    rw [show f + 1 + k + 1 = f + (k + 1) + 1 by omega]

theorem runsFrom_replicate_append (f k : Nat) (p st : σ) (rest : List σ) (h : rest.head? ≠ some p) :
    runsFrom f st (List.replicate (k + 1) p ++ rest) =
      (if p = st then [(f, k + 1)] else []) ++ runsFrom (f + k + 1) st rest := by
  unfold runsFrom
  rw [rleFrom_replicate_append f k p rest h]
  by_cases hp : p = st <;> simp [hp]

theorem runsFrom_replicate (f k : Nat) (p st : σ) :
    runsFrom f st (List.replicate (k + 1) p) = if p = st then [(f, k + 1)] else [] := by
  have := runsFrom_replicate_append f k p st [] (by simp)
  simpa [runsFrom, rleFrom] using this

theorem runsFrom_nil (f : Nat) (st : σ) : runsFrom f st ([] : List σ) = [] := rfl

/-- a leading element different from `st` does not matter for the runs of `st` -/
theorem runsFrom_cons_ne (s : Nat) (st x : σ) (xs : List σ) (h : x ≠ st) :
    runsFrom s st (x :: xs) = runsFrom (s + 1) st xs := by
  unfold runsFrom
  rcases rleFrom_cons_cases s x xs with ⟨hxs, h'⟩ | ⟨y, ys, n, tl, hxs, h1, h'⟩
  · subst hxs; rw [h']; simp [rleFrom, h]
  · rw [h', h1]
    split
    · rename_i hxy; subst hxy; simp [h]
    · simp [h]


omit [DecidableEq σ] in
theorem replicate_append_cons (k : Nat) (p : σ) (rest : List σ) :
    List.replicate (k + 1) p ++ p :: rest = List.replicate (k + 1 + 1) p ++ rest := by
  rw [List.replicate_succ' (n := k + 1), List.append_assoc]; rfl

/-! ### the Gantt encoders -/

/-- how a run `(start, length)` is reported: `(start, (length − 1) + finish_margin)` -/
def enc (margin : Rat) (r : Nat × Nat) : Iv := (r.1, ((r.2 - 1 : Nat) : Rat) + margin)

/-- the code after the loop of `ganttT` -/
def finT (margin : Rat) (g : GT TS) (len : Nat) : List Iv × List Iv :=
  match g.frm with
  | Option.none => (g.ready, g.working)
  | some f =>
    let iv : Iv := (f, (((len - 1 - f : Nat) : Rat)) + margin)
    if g.prev = .working then (g.ready, g.working ++ [iv])
    else if g.prev = .ready then (g.ready ++ [iv], g.working)
    else (g.ready, g.working)

theorem ganttT_eq_fin (log : List TS) (margin : Rat) :
    ganttT log margin = finT margin
      (ganttTLoop margin { prev := .none, frm := Option.none, ready := [], working := [] } 0 log)
      log.length := rfl

theorem ganttTStep_same (margin : Rat) (p : TS) (frm : Option Nat) (R W : List Iv) (t : Nat) :
    ganttTStep margin ⟨p, frm, R, W⟩ t p = ⟨p, frm, R, W⟩ := by
  simp [ganttTStep]

theorem ganttTStep_change (margin : Rat) (p st : TS) (f k : Nat) (R W : List Iv) (h : st ≠ p) :
    ganttTStep margin ⟨p, some f, R, W⟩ (f + k + 1) st =
      ⟨st, some (f + k + 1), R ++ (if p = .ready then [enc margin (f, k + 1)] else []),
        W ++ (if p = .working then [enc margin (f, k + 1)] else [])⟩ := by
  cases p <;> cases st <;> simp [ganttTStep, ivEnded, enc] at h ⊢

/-- loop invariant, phrased towards the future: from a state whose current run of `prev`
started at `f` and is `k+1` long, the encoder returns what was emitted so far followed by the
runs of `prev^(k+1) ++ rest` counted from `f`. -/
theorem ganttT_run (margin : Rat) (rest : List TS) : ∀ (p : TS) (R W : List Iv) (f k : Nat),
    finT margin (ganttTLoop margin ⟨p, some f, R, W⟩ (f + k + 1) rest) (f + k + 1 + rest.length) =
      (R ++ (runsFrom f .ready (List.replicate (k + 1) p ++ rest)).map (enc margin),
       W ++ (runsFrom f .working (List.replicate (k + 1) p ++ rest)).map (enc margin)) := by
  induction rest with
  | nil =>
    intro p R W f k
    cases p <;> simp [ganttTLoop, finT, runsFrom_replicate, enc]
  | cons st rest ih =>
    intro p R W f k
    rw [ganttTLoop, List.length_cons, show f + k + 1 + (rest.length + 1) = f + k + 1 + 1 + rest.length by omega]
    by_cases h : st = p
    · subst h
      rw [ganttTStep_same, replicate_append_cons]
      exact ih st R W f (k + 1)
    · rw [ganttTStep_change _ _ _ _ _ _ _ h]
      have := ih st (R ++ (if p = .ready then [enc margin (f, k + 1)] else []))
        (W ++ (if p = .working then [enc margin (f, k + 1)] else [])) (f + k + 1) 0
      rw [Nat.add_zero] at this
      rw [this, runsFrom_replicate_append f k p _ (st :: rest) (by simpa using h),
        runsFrom_replicate_append f k p _ (st :: rest) (by simpa using h)]
      simp only [List.map_append, List.append_assoc]
      by_cases h1 : p = .ready <;> by_cases h2 : p = .working <;> simp [h1, h2]


/-- before the first non-NONE state nothing is recorded (`from_time` is still unset) -/
theorem ganttT_init (margin : Rat) (rest : List TS) : ∀ (R W : List Iv) (t : Nat),
    finT margin (ganttTLoop margin ⟨.none, Option.none, R, W⟩ t rest) (t + rest.length) =
      (R ++ (runsFrom t .ready rest).map (enc margin),
       W ++ (runsFrom t .working rest).map (enc margin)) := by
  induction rest with
  | nil => intro R W t; simp [ganttTLoop, finT, runsFrom_nil]
  | cons st rest ih =>
    intro R W t
    rw [ganttTLoop, List.length_cons, show t + (rest.length + 1) = t + 1 + rest.length by omega]
    by_cases h : st = .none
    · subst h
      rw [ganttTStep_same, runsFrom_cons_ne _ _ _ _ (by decide), runsFrom_cons_ne _ _ _ _ (by decide)]
      exact ih R W (t + 1)
    · have hs : ganttTStep margin ⟨.none, Option.none, R, W⟩ t st = ⟨st, some t, R, W⟩ := by
        simp [ganttTStep, h]
      rw [hs]
      have := ganttT_run margin rest st R W t 0
      simpa using this

/-- **C19 (tasks)**: the encoder returns exactly the maximal READY runs and the maximal
WORKING runs of the log. -/
theorem ganttT_eq_runs (log : List TS) (margin : Rat) :
    ganttT log margin =
      ((runsOf .ready log).map (enc margin), (runsOf .working log).map (enc margin)) := by
  rw [ganttT_eq_fin]
  have := ganttT_init margin log [] [] 0
  simpa [runsOf] using this

/-! #### components (same code shape) -/

/-- the code after the loop of `ganttC` -/
def finC (margin : Rat) (g : GT CS) (len : Nat) : List Iv × List Iv :=
  match g.frm with
  | Option.none => (g.ready, g.working)
  | some f =>
    let iv : Iv := (f, (((len - 1 - f : Nat) : Rat)) + margin)
    if g.prev = .working then (g.ready, g.working ++ [iv])
    else if g.prev = .ready then (g.ready ++ [iv], g.working)
    else (g.ready, g.working)

theorem ganttC_eq_fin (log : List CS) (margin : Rat) :
    ganttC log margin = finC margin
      (ganttCLoop margin { prev := .none, frm := Option.none, ready := [], working := [] } 0 log)
      log.length := rfl

theorem ganttCStep_same (margin : Rat) (p : CS) (frm : Option Nat) (R W : List Iv) (t : Nat) :
    ganttCStep margin ⟨p, frm, R, W⟩ t p = ⟨p, frm, R, W⟩ := by
  simp [ganttCStep]

theorem ganttCStep_change (margin : Rat) (p st : CS) (f k : Nat) (R W : List Iv) (h : st ≠ p) :
    ganttCStep margin ⟨p, some f, R, W⟩ (f + k + 1) st =
      ⟨st, some (f + k + 1), R ++ (if p = .ready then [enc margin (f, k + 1)] else []),
        W ++ (if p = .working then [enc margin (f, k + 1)] else [])⟩ := by
  cases p <;> cases st <;> simp [ganttCStep, ivEnded, enc] at h ⊢

/-- loop invariant, phrased towards the future: from a state whose current run of `prev`
started at `f` and is `k+1` long, the encoder returns what was emitted so far followed by the
runs of `prev^(k+1) ++ rest` counted from `f`. -/
theorem ganttC_run (margin : Rat) (rest : List CS) : ∀ (p : CS) (R W : List Iv) (f k : Nat),
    finC margin (ganttCLoop margin ⟨p, some f, R, W⟩ (f + k + 1) rest) (f + k + 1 + rest.length) =
      (R ++ (runsFrom f .ready (List.replicate (k + 1) p ++ rest)).map (enc margin),
       W ++ (runsFrom f .working (List.replicate (k + 1) p ++ rest)).map (enc margin)) := by
  induction rest with
  | nil =>
    intro p R W f k
    cases p <;> simp [ganttCLoop, finC, runsFrom_replicate, enc]
  | cons st rest ih =>
    intro p R W f k
    rw [ganttCLoop, List.length_cons, show f + k + 1 + (rest.length + 1) = f + k + 1 + 1 + rest.length by omega]
    by_cases h : st = p
    · subst h
      rw [ganttCStep_same, replicate_append_cons]
      exact ih st R W f (k + 1)
    · rw [ganttCStep_change _ _ _ _ _ _ _ h]
      have := ih st (R ++ (if p = .ready then [enc margin (f, k + 1)] else []))
        (W ++ (if p = .working then [enc margin (f, k + 1)] else [])) (f + k + 1) 0
      rw [Nat.add_zero] at this
      rw [this, runsFrom_replicate_append f k p _ (st :: rest) (by simpa using h),
        runsFrom_replicate_append f k p _ (st :: rest) (by simpa using h)]
      simp only [List.map_append, List.append_assoc]
      by_cases h1 : p = .ready <;> by_cases h2 : p = .working <;> simp [h1, h2]


/-- before the first non-NONE state nothing is recorded (`from_time` is still unset) -/
theorem ganttC_init (margin : Rat) (rest : List CS) : ∀ (R W : List Iv) (t : Nat),
    finC margin (ganttCLoop margin ⟨.none, Option.none, R, W⟩ t rest) (t + rest.length) =
      (R ++ (runsFrom t .ready rest).map (enc margin),
       W ++ (runsFrom t .working rest).map (enc margin)) := by
  induction rest with
  | nil => intro R W t; simp [ganttCLoop, finC, runsFrom_nil]
  | cons st rest ih =>
    intro R W t
    rw [ganttCLoop, List.length_cons, show t + (rest.length + 1) = t + 1 + rest.length by omega]
    by_cases h : st = .none
    · subst h
      rw [ganttCStep_same, runsFrom_cons_ne _ _ _ _ (by decide), runsFrom_cons_ne _ _ _ _ (by decide)]
      exact ih R W (t + 1)
    · have hs : ganttCStep margin ⟨.none, Option.none, R, W⟩ t st = ⟨st, some t, R, W⟩ := by
        simp [ganttCStep, h]
      rw [hs]
      have := ganttC_run margin rest st R W t 0
      simpa using this

/-- **C19 (components)**: the encoder returns exactly the maximal READY runs and the maximal
WORKING runs of the log. -/
theorem ganttC_eq_runs (log : List CS) (margin : Rat) :
    ganttC log margin =
      ((runsOf .ready log).map (enc margin), (runsOf .working log).map (enc margin)) := by
  rw [ganttC_eq_fin]
  have := ganttC_init margin log [] [] 0
  simpa [runsOf] using this

/-! #### workers / facilities -/

/-- the code after the loop of `ganttR` -/
def finR (margin : Rat) (g : GR) (len : Nat) : List Iv × List Iv × List Iv :=
  match g.frm, g.prev with
  | some f, some s =>
    let iv : Iv := (f, (((len - 1 - f : Nat) : Rat)) + margin)
    let g' := g.emit s iv
    (g'.ready, g'.working, g'.absence)
  | _, _ => (g.ready, g.working, g.absence)

theorem ganttR_eq_fin (log : List RS) (margin : Rat) :
    ganttR log margin = finR margin
      (ganttRLoop margin
        { prev := Option.none, frm := Option.none, ready := [], working := [], absence := [] } 0 log)
      log.length := rfl

theorem ganttRStep_same (margin : Rat) (p : RS) (frm : Option Nat) (R W A : List Iv) (t : Nat) :
    ganttRStep margin ⟨some p, frm, R, W, A⟩ t p = ⟨some p, frm, R, W, A⟩ := by
  simp [ganttRStep]

theorem ganttRStep_change (margin : Rat) (p st : RS) (f k : Nat) (R W A : List Iv) (h : st ≠ p) :
    ganttRStep margin ⟨some p, some f, R, W, A⟩ (f + k + 1) st =
      ⟨some st, some (f + k + 1), R ++ (if p = .free then [enc margin (f, k + 1)] else []),
        W ++ (if p = .working then [enc margin (f, k + 1)] else []),
        A ++ (if p = .absence then [enc margin (f, k + 1)] else [])⟩ := by
  cases p <;> cases st <;> simp [ganttRStep, GR.emit, ivEnded, enc] at h ⊢

theorem ganttR_run (margin : Rat) (rest : List RS) : ∀ (p : RS) (R W A : List Iv) (f k : Nat),
    finR margin (ganttRLoop margin ⟨some p, some f, R, W, A⟩ (f + k + 1) rest)
        (f + k + 1 + rest.length) =
      (R ++ (runsFrom f .free (List.replicate (k + 1) p ++ rest)).map (enc margin),
       W ++ (runsFrom f .working (List.replicate (k + 1) p ++ rest)).map (enc margin),
       A ++ (runsFrom f .absence (List.replicate (k + 1) p ++ rest)).map (enc margin)) := by
  induction rest with
  | nil =>
    intro p R W A f k
    cases p <;> simp [ganttRLoop, finR, GR.emit, runsFrom_replicate, enc]
  | cons st rest ih =>
    intro p R W A f k
    rw [ganttRLoop, List.length_cons,
      show f + k + 1 + (rest.length + 1) = f + k + 1 + 1 + rest.length by omega]
    by_cases h : st = p
    · subst h
      rw [ganttRStep_same, replicate_append_cons]
      exact ih st R W A f (k + 1)
    · rw [ganttRStep_change _ _ _ _ _ _ _ _ h]
      have := ih st (R ++ (if p = .free then [enc margin (f, k + 1)] else []))
        (W ++ (if p = .working then [enc margin (f, k + 1)] else []))
        (A ++ (if p = .absence then [enc margin (f, k + 1)] else [])) (f + k + 1) 0
      rw [Nat.add_zero] at this
      rw [this, runsFrom_replicate_append f k p _ (st :: rest) (by simpa using h),
        runsFrom_replicate_append f k p _ (st :: rest) (by simpa using h),
        runsFrom_replicate_append f k p _ (st :: rest) (by simpa using h)]
      simp only [List.map_append, List.append_assoc]
      cases p <;> simp

/-- **C19 (workers, facilities)**: the encoder returns exactly the maximal FREE, WORKING and
ABSENCE runs of the log. -/
theorem ganttR_eq_runs (log : List RS) (margin : Rat) :
    ganttR log margin =
      ((runsOf .free log).map (enc margin), (runsOf .working log).map (enc margin),
       (runsOf .absence log).map (enc margin)) := by
  rw [ganttR_eq_fin]
  cases log with
  | nil => simp [ganttRLoop, finR, runsOf, runsFrom_nil]
  | cons st rest =>
    have hs : ganttRStep margin ⟨Option.none, Option.none, [], [], []⟩ 0 st =
        ⟨some st, some 0, [], [], []⟩ := by simp [ganttRStep]
    rw [ganttRLoop, hs]
    have := ganttR_run margin rest st [] [] [] 0 0
    simpa [runsOf, Nat.add_comm 1] using this

/-! ### plotly rows, state queries, dates -/

/-- the plotly row of a run `(a, n)`: starts at step `a`, ends `(n − 1) + margin` steps later -/
def rowOf (init unit margin : Rat) (r : Nat × Nat) : Rat × Rat :=
  (init + (r.1 : Rat) * unit, init + ((r.1 : Rat) + ((r.2 - 1 : Nat) : Rat) + margin) * unit)

theorem plotlyRow_enc (init unit margin : Rat) (r : Nat × Nat) :
    plotlyRow init unit (enc margin r) = rowOf init unit margin r := by
  simp [plotlyRow, enc, rowOf, Rat.add_assoc]

theorem rowOf_span (init unit : Rat) (r : Nat × Nat) (h : 1 ≤ r.2) :
    (rowOf init unit 1 r).2 - (rowOf init unit 1 r).1 = (r.2 : Rat) * unit := by
  obtain ⟨a, n⟩ := r
  obtain ⟨m, rfl⟩ : ∃ m, n = m + 1 := ⟨n - 1, by simp at h; omega⟩
  simp [rowOf]
  grind

theorem mem_extractIdx {σ : Type} [DecidableEq σ] (n : Nat) (log : Nat → List σ) (times : List Nat)
    (st : σ) (i : Nat) :
    i ∈ extractIdx n log times st ↔ i < n ∧ ∀ k ∈ times, (log i)[k]? = some st := by
  simp only [extractIdx, List.mem_filter, List.mem_range, List.all_eq_true, Bool.and_eq_true,
    decide_eq_true_eq]
  constructor
  · rintro ⟨h1, h2⟩; exact ⟨h1, fun k hk => (h2 k hk).2⟩
  · rintro ⟨h1, h2⟩
    refine ⟨h1, fun k hk => ⟨?_, h2 k hk⟩⟩
    have := h2 k hk
    rw [List.getElem?_eq_some_iff] at this
    exact this.1

theorem extractIdx_nodup {σ : Type} [DecidableEq σ] (n : Nat) (log : Nat → List σ) (times : List Nat)
    (st : σ) : (extractIdx n log times st).Nodup :=
  List.Pairwise.filter _ List.nodup_range

theorem setLastDatetime_spec (last unit : Rat) (time : Nat) :
    setLastDatetime last unit time + unit * (((time : Int) - 1 : Int) : Rat) = last := by
  unfold setLastDatetime
  grind

end PDesy.Runs
