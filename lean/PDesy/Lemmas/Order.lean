/-
  PDesy.Lemmas.Order — helper lemmas for C09 (second half): the result of the phases that
  iterate over Python `set`s does not depend on the iteration order.

  * a generic fact: a fold whose step function commutes and is idempotent depends only on the
    set of members of the list (`foldl_eq_of_mem`);
  * `removeOne` and `startOne` commute and are idempotent (no invariant needed), hence
    `chkWorkingOrd_congr`, `chkRemoveOrd_congr`;
  * `check_state(FINISHED)`: the final task states are the least set closed under the finish
    rule (`finishClosure_sub`, used in both directions: `chkFinishedOrd_tr`), and under
    `AllocInv` the whole final state is a function `finForm` of the input state and the final
    task states (`chkFinishedOrd_form`), hence `chkFinishedOrd_congr`;
  * `pertOrd`: the PERT update with the iteration order of every task set as a parameter
    (`pertOrd_canon`: the canonical order gives `pert`); on finish-to-start networks the wave
    loop is correct for every order (`pertOrd_AEqs`, the proof of Lemmas/Pert.lean redone for
    `gLoopOrd`), it writes nothing outside the model (`pertOrd_out`), hence `pertOrd_eq_pert`;
  * `updateOrd`, `stepBodyOrd`, `initProjectOrd`, `loopOrd`, `simulateOrd`: the simulation with
    explicit orders (`Orders`), equal to the model's (`loopOrd_eq`; `loopOrd_eq_fs` with the
    PERT order free on finish-to-start networks).
-/
import PDesy.Lemmas.Alloc
import PDesy.Lemmas.Perform
import PDesy.Lemmas.Pert
import PDesy.Lemmas.Idem
namespace PDesy.Order
open PDesy

/-! ### a fold with a commuting, idempotent step depends only on the set of members -/

section fold
variable {α β : Type} [DecidableEq α] (f : β → α → β)

/-- later occurrences of an element already folded in are absorbed -/
theorem foldl_absorb (comm : ∀ z x y, f (f z x) y = f (f z y) x)
    (idem : ∀ z x, f (f z x) x = f z x) (x : α) (l : List α) (z : β) :
    l.foldl f (f z x) = (l.filter (fun y => y ≠ x)).foldl f (f z x) := by
  induction l generalizing z with
  | nil => rfl
  | cons y l ih =>
    by_cases hy : y = x
    · subst hy
      simp only [List.foldl_cons, idem, ne_eq, not_true_eq_false, decide_false, Bool.false_eq_true,
        not_false_eq_true, List.filter_cons_of_neg]
      exact ih z
    · simp only [List.foldl_cons, ne_eq, hy, not_false_eq_true, decide_true, List.filter_cons_of_pos]
      rw [comm z x y]
      exact ih (f z y)

/-- a member can be folded in first -/
theorem foldl_pull (comm : ∀ z x y, f (f z x) y = f (f z y) x)
    (idem : ∀ z x, f (f z x) x = f z x) (x : α) (l : List α) (hx : x ∈ l) (z : β) :
    l.foldl f z = (l.filter (fun y => y ≠ x)).foldl f (f z x) := by
  induction l generalizing z with
  | nil => cases hx
  | cons y l ih =>
    by_cases hy : y = x
    · subst hy
      simp only [List.foldl_cons, ne_eq, not_true_eq_false, decide_false, Bool.false_eq_true,
        not_false_eq_true, List.filter_cons_of_neg]
      exact foldl_absorb f comm idem y l z
    · have hx' : x ∈ l := by
        rcases List.mem_cons.mp hx with e | e
        · exact absurd e.symm hy
        · exact e
      simp only [List.foldl_cons, ne_eq, hy, not_false_eq_true, decide_true, List.filter_cons_of_pos]
      rw [ih hx' (f z y), comm z y x]

/-- two lists with the same members give the same fold -/
theorem foldl_congr_mem (comm : ∀ z x y, f (f z x) y = f (f z y) x)
    (idem : ∀ z x, f (f z x) x = f z x) :
    ∀ (n : Nat) (l₁ l₂ : List α), l₁.length ≤ n → (∀ x, x ∈ l₁ ↔ x ∈ l₂) →
      ∀ z, l₁.foldl f z = l₂.foldl f z := by
  intro n
  induction n with
  | zero =>
    intro l₁ l₂ hl hm z
    have e1 : l₁ = [] := List.length_eq_zero_iff.mp (by omega)
    subst e1
    have e2 : l₂ = [] := List.eq_nil_iff_forall_not_mem.mpr (fun x hx => by simpa using (hm x).mpr hx)
    subst e2; rfl
  | succ n ih =>
    intro l₁ l₂ hl hm z
    match l₁, hl, hm with
    | [], _, hm =>
      have e2 : l₂ = [] := List.eq_nil_iff_forall_not_mem.mpr (fun x hx => by simpa using (hm x).mpr hx)
      subst e2; rfl
    | x :: l, hl, hm =>
      have hx2 : x ∈ l₂ := (hm x).mp (List.mem_cons_self ..)
      rw [foldl_pull f comm idem x l₂ hx2 z, List.foldl_cons, foldl_absorb f comm idem x l z]
      apply ih
      · have := List.length_filter_le (fun y => decide (y ≠ x)) l
        simp only [List.length_cons] at hl
        omega
      · intro y
        simp only [List.mem_filter, decide_eq_true_eq]
        constructor
        · rintro ⟨h1, h2⟩; exact ⟨(hm y).mp (List.mem_cons_of_mem _ h1), h2⟩
        · rintro ⟨h1, h2⟩
          rcases List.mem_cons.mp ((hm y).mpr h1) with e | e
          · exact absurd e h2
          · exact ⟨e, h2⟩

theorem foldl_eq_of_mem (comm : ∀ z x y, f (f z x) y = f (f z y) x)
    (idem : ∀ z x, f (f z x) x = f z x) {l₁ l₂ : List α} (hm : ∀ x, x ∈ l₁ ↔ x ∈ l₂) (z : β) :
    l₁.foldl f z = l₂.foldl f z :=
  foldl_congr_mem f comm idem l₁.length l₁ l₂ (Nat.le_refl _) hm z
end fold
theorem removeOne_idem (l : Live) (c : Nat) : removeOne (removeOne l c) c = removeOne l c := by
  unfold removeOne
  cases h : l.placed c with
  | none => simp [h]
  | some p => simp

theorem upd_comm {α : Type} (f : Nat → α) (i j : Nat) (a b : α) (h : i ≠ j) :
    upd (upd f i a) j b = upd (upd f j b) i a := by
  funext k; simp only [upd_apply]; grind

theorem removeOne_comm (l : Live) (c c' : Nat) :
    removeOne (removeOne l c) c' = removeOne (removeOne l c') c := by
  by_cases hc : c' = c
  · subst hc; rfl
  · have hc' : c ≠ c' := fun e => hc e.symm
    unfold removeOne
    cases h : l.placed c with
    | none =>
      cases h' : l.placed c' with
      | none => simp [h]
      | some p' => simp [h, upd_other _ _ _ _ hc']
    | some p =>
      cases h' : l.placed c' with
      | none => simp [h, h', upd_other _ _ _ _ hc]
      | some p' =>
        simp only [h, h', upd_other _ _ _ _ hc, upd_other _ _ _ _ hc', Live.mk.injEq, true_and]
        refine ⟨upd_comm _ _ _ _ _ hc', ?_⟩
        by_cases hp : p' = p
        · subst hp
          funext q
          by_cases hq : q = p' <;> simp [hq, List.erase_comm c c']
        · have hp' : p ≠ p' := fun e => hp e.symm
          simp only [upd_other _ _ _ _ hp, upd_other _ _ _ _ hp']
          exact upd_comm _ _ _ _ _ hp'
/-- `startOne` in one closed form (no outer case split) -/
theorem startOne_form (m : Model) (l : Live) (t : Nat) :
    startOne m l t =
      { l with
        tstate := fun x => if x = t ∧ l.tstate t = .ready then .working else l.tstate x
        wstate := fun w => if w ∈ l.allocW t ∧
            (l.tstate t = .ready ∨ (l.tstate t = .working ∧ l.wstate w = .free))
          then .working else l.wstate w
        fstate := fun f => if (m.task t).needFac = true ∧ f ∈ l.allocF t ∧
            (l.tstate t = .ready ∨ (l.tstate t = .working ∧ l.allocW t ≠ [] ∧ l.fstate f = .free))
          then .working else l.fstate f } := by
  rw [Alloc.startOne_eq]
  by_cases h1 : l.tstate t = .ready
  · simp only [h1, if_true, true_or, and_true, Live.mk.injEq]
    funext x; simp [upd_apply]
  · by_cases h2 : l.tstate t = .working
    · simp only [h2, reduceCtorEq, if_false, if_true, false_or, true_and, and_false, Live.mk.injEq, and_true]
      funext f; grind
    · simp [h1, h2]

theorem startOne_comm (m : Model) (l : Live) (t t' : Nat) :
    startOne m (startOne m l t) t' = startOne m (startOne m l t') t := by
  by_cases ht : t' = t
  · subst ht; rfl
  · have ht' : t ≠ t' := fun e => ht e.symm
    rw [startOne_form m (startOne m l t) t', startOne_form m (startOne m l t') t,
      startOne_form m l t, startOne_form m l t']
    simp only [Live.mk.injEq, true_and, and_true, ht, ht', false_and, if_false]
    refine ⟨?_, ?_, ?_⟩
    · funext x; grind
    · funext w; grind
    · funext f; grind

theorem startOne_idem (m : Model) (l : Live) (t : Nat) :
    startOne m (startOne m l t) t = startOne m l t := by
  rw [startOne_form m (startOne m l t) t, startOne_form m l t]
  simp only [Live.mk.injEq, true_and, and_true]
  refine ⟨?_, ?_, ?_⟩
  · funext x; grind
  · funext w; grind
  · funext f; grind
open PDesy.Perform
variable {m : Model}

/-! ### check_state(FINISHED): the final task states do not depend on the order -/

/-- anything preserved by the step of `finishPass` is preserved by the closure -/
theorem finishClosure_ind (P : Live → Prop) (order : List Nat)
    (hstep : ∀ acc, ∀ t ∈ order, P acc → P (finStep m acc t)) :
    ∀ (fuel : Nat) (l : Live), P l → P (finishClosure m order fuel l) := by
  have hpass : ∀ l, P l → P (finishPass m order l) := fun l hl =>
    foldl_inv_mem (finStep m) P order hstep l hl
  intro fuel
  induction fuel with
  | zero => intro l hl; exact hl
  | succ n ih =>
    intro l hl
    simp only [finishClosure]
    split
    · exact hpass _ hl
    · exact ih _ (hpass _ hl)

theorem chkFinishedOrd_eq (order : List Nat) (l : Live) :
    chkFinishedOrd m order l = finishClosure m order (m.nT + 1) l := by
  simp [chkFinishedOrd]

/-- `acc` is reached from `l` by finishing tasks, all of which are FINISHED in `r` -/
def Below (l r acc : Live) : Prop :=
  Closes l acc ∧ ∀ t, acc.tstate t = .finished → r.tstate t = .finished

theorem Below.adv {l r acc : Live} (hr : Closes l r) (h : Below l r acc) :
    Adv acc.tstate r.tstate := by
  intro x
  rcases h.1 x with ⟨a1, _⟩ | ⟨_, _, a3, _⟩
  · rcases hr x with ⟨b1, _⟩ | ⟨_, _, b3, _⟩
    · left; rw [a1, b1]
    · right; exact b3
  · right; exact h.2 x a3

theorem Below.start {l r : Live} (hr : Closes l r) : Below l r l := by
  refine ⟨Closes.refl l, ?_⟩
  intro t ht
  rcases hr t with ⟨b1, _⟩ | ⟨b1, _⟩
  · rw [b1]; exact ht
  · rw [ht] at b1; cases b1

/-- a step of the pass stays below any state that is closed for the visited task -/
theorem finStep_below {l r acc : Live} {order : List Nat} (hr : Closes l r)
    (hst : Stable m order r) (t : Nat) (ht : t ∈ order) (h : Below l r acc) :
    Below l r (finStep m acc t) := by
  refine ⟨Closes.trans h.1 (finStep_closes acc t), ?_⟩
  intro t' hf
  unfold finStep at hf
  split at hf
  · rename_i hc
    rw [finishOne_tstate] at hf
    by_cases e : t' = t
    · subst e
      simp only [finishCand, Bool.and_eq_true, beq_iff_eq, decide_eq_true_eq] at hc
      obtain ⟨⟨c1, c2⟩, c3⟩ := hc
      rcases h.1 t' with ⟨a1, a2⟩ | ⟨_, _, a3, _⟩
      · rcases hr t' with ⟨b1, b2⟩ | ⟨_, _, b3, _⟩
        · exfalso
          have hg := finishGate_adv (m := m) (h.adv hr) t' c3
          have := hst t' ht
          rw [hg] at this
          simp [finishCand, b1, b2, ← a1, ← a2, c1, c2] at this
        · exact b3
      · rw [a3] at c1; cases c1
    · rw [upd_other _ _ _ _ e] at hf
      exact h.2 t' hf
  · exact h.2 t' hf

/-- every task finished by the closure along `o₁` is finished by the closure along `o₂`, as soon
as `o₂` (made of tasks of the model) visits every task that `o₁` visits -/
theorem finishClosure_sub (o₁ o₂ : List Nat) (hsub : ∀ t ∈ o₁, t ∈ o₂) (h2 : ∀ t ∈ o₂, t < m.nT)
    (f₁ : Nat) (l : Live) (t : Nat)
    (h : (finishClosure m o₁ f₁ l).tstate t = .finished) :
    (finishClosure m o₂ (m.nT + 1) l).tstate t = .finished := by
  have hr := finishClosure_closes (m := m) o₂ (m.nT + 1) l
  have hst : Stable m o₂ (finishClosure m o₂ (m.nT + 1) l) :=
    finishClosure_stable o₂ h2 _ l (by omega)
  have := finishClosure_ind (m := m) (Below l (finishClosure m o₂ (m.nT + 1) l)) o₁
    (fun acc t ht hacc => finStep_below hr hst t (hsub t ht) hacc) f₁ l (Below.start hr)
  exact this.2 t h

theorem closes_tr_eq {l r₁ r₂ : Live} (h1 : Closes l r₁) (h2 : Closes l r₂)
    (h : ∀ t, r₁.tstate t = .finished ↔ r₂.tstate t = .finished) :
    r₁.tstate = r₂.tstate ∧ r₁.rem = r₂.rem := by
  constructor <;> funext t
  · rcases h1 t with ⟨a1, a2⟩ | ⟨a1, _, a3, a4⟩ <;> rcases h2 t with ⟨b1, b2⟩ | ⟨b1, _, b3, b4⟩
    · rw [a1, b1]
    · have := (h t).mpr b3; rw [a1, b1] at this; cases this
    · have := (h t).mp a3; rw [b1, a1] at this; cases this
    · rw [a3, b3]
  · rcases h1 t with ⟨a1, a2⟩ | ⟨a1, _, a3, a4⟩ <;> rcases h2 t with ⟨b1, b2⟩ | ⟨b1, _, b3, b4⟩
    · rw [a2, b2]
    · have := (h t).mpr b3; rw [a1, b1] at this; cases this
    · have := (h t).mp a3; rw [b1, a1] at this; cases this
    · rw [a4, b4]

/-- task states and remaining work after `check_state(FINISHED)` are the same for any two
visiting orders with the same members (tasks of the model); no invariant needed -/
theorem chkFinishedOrd_tr (o₁ o₂ : List Nat) (hm : ∀ t, t ∈ o₁ ↔ t ∈ o₂) (h1 : ∀ t ∈ o₁, t < m.nT)
    (l : Live) :
    (chkFinishedOrd m o₁ l).tstate = (chkFinishedOrd m o₂ l).tstate ∧
    (chkFinishedOrd m o₁ l).rem = (chkFinishedOrd m o₂ l).rem := by
  have h2 : ∀ t ∈ o₂, t < m.nT := fun t ht => h1 t ((hm t).mpr ht)
  rw [chkFinishedOrd_eq, chkFinishedOrd_eq]
  apply closes_tr_eq (finishClosure_closes _ _ l) (finishClosure_closes _ _ l)
  intro t
  exact ⟨finishClosure_sub o₁ o₂ (fun t ht => (hm t).mp ht) h2 _ l t,
    finishClosure_sub o₂ o₁ (fun t ht => (hm t).mpr ht) h1 _ l t⟩
/-- task `t` is FINISHED in `ts` but was not in `l` -/
def newly (l : Live) (ts : Nat → TS) (t : Nat) : Bool :=
  ts t == .finished && l.tstate t != .finished

/-- the state reached from `l` (satisfying `AllocInv`) by `finishOne`-ing, in any order, the
tasks that are newly FINISHED in `ts`: their remaining work is 0, their allocation lists are
empty, exactly their workers / facilities are FREE and unassigned; nothing else changes -/
def finForm (l : Live) (ts : Nat → TS) : Live :=
  { l with
    tstate := ts
    rem := fun t => if newly l ts t then 0 else l.rem t
    allocW := fun t => if newly l ts t then [] else l.allocW t
    allocF := fun t => if newly l ts t then [] else l.allocF t
    wstate := fun w => if (l.wasg w).any (newly l ts) then .free else l.wstate w
    wasg := fun w => if (l.wasg w).any (newly l ts) then [] else l.wasg w
    fstate := fun f => if (l.fasg f).any (newly l ts) then .free else l.fstate f
    fasg := fun f => if (l.fasg f).any (newly l ts) then [] else l.fasg f }

theorem finForm_self (l : Live) : finForm l l.tstate = l := by
  have : ∀ t, newly l l.tstate t = false := by
    intro t; unfold newly; cases l.tstate t <;> rfl
  have h2 : ∀ xs : List Nat, xs.any (newly l l.tstate) = false := by
    intro xs; simp [this]
  simp [finForm, this, h2]

theorem newly_upd (l : Live) (ts : Nat → TS) (t : Nat) (hl : l.tstate t ≠ .finished) (x : Nat) :
    newly l (upd ts t .finished) x = (newly l ts x || x == t) := by
  unfold newly
  by_cases e : x = t
  · subst e; simp [hl]
  · simp [e]

theorem any_newly_upd (l : Live) (ts : Nat → TS) (t : Nat) (hl : l.tstate t ≠ .finished)
    (xs : List Nat) :
    xs.any (newly l (upd ts t .finished)) = (decide (t ∈ xs) || xs.any (newly l ts)) := by
  rw [Bool.eq_iff_iff]
  simp only [List.any_eq_true, newly_upd l ts t hl, Bool.or_eq_true, beq_iff_eq, decide_eq_true_eq]
  constructor
  · rintro ⟨x, hx, h | h⟩
    · exact Or.inr ⟨x, hx, h⟩
    · subst h; exact Or.inl hx
  · rintro (h | ⟨x, hx, h⟩)
    · exact ⟨t, h, Or.inr rfl⟩
    · exact ⟨x, hx, Or.inl h⟩

/-- finishing one more WORKING task keeps the closed form -/
theorem finishOne_finForm {l : Live} (hl : AllocInv m l) (ts : Nat → TS) (t : Nat)
    (h : AllocInv m (finForm l ts)) (hts : ts t = .working) (hlt : l.tstate t = .working) :
    finishOne m (finForm l ts) t = finForm l (upd ts t .finished) := by
  have hne : l.tstate t ≠ .finished := by rw [hlt]; simp
  have hnew : newly l ts t = false := by simp [newly, hts]
  rw [Alloc.finishOne_eq h t]
  simp only [finForm, hnew, Bool.false_eq_true, if_false, Live.mk.injEq, true_and, and_true,
    any_newly_upd l ts t hne, newly_upd l ts t hne]
  refine ⟨?_, ?_, ?_, ?_, ?_, ?_, ?_⟩
  · funext x; by_cases e : x = t <;> simp [e]
  · funext x; by_cases e : x = t <;> simp [e]
  · funext x; by_cases e : x = t <;> simp [e]
  · funext w; simp only [hl.w_two t w]; grind
  · funext w; simp only [hl.w_two t w]; grind
  · funext f; simp only [hl.f_two t f]; grind
  · funext f; simp only [hl.f_two t f]; grind

/-- reached from `l` through `finishOne`s: closed form, invariant, and `Closes` -/
def FinInv (m : Model) (l acc : Live) : Prop :=
  AllocInv m acc ∧ Closes l acc ∧ ∃ ts, acc = finForm l ts

theorem finStep_finInv {l : Live} (hl : AllocInv m l) (acc : Live) (t : Nat)
    (h : FinInv m l acc) : FinInv m l (finStep m acc t) := by
  obtain ⟨hA, hC, ts, rfl⟩ := h
  have hC' := Closes.trans hC (finStep_closes (m := m) (finForm l ts) t)
  unfold finStep at hC' ⊢
  split
  · rename_i hc
    rw [if_pos hc] at hC'
    refine ⟨finishOne_AllocInv hA t, hC', ?_⟩
    simp only [finishCand, Bool.and_eq_true, beq_iff_eq, decide_eq_true_eq] at hc
    have hts : ts t = .working := hc.1.1
    have hlt : l.tstate t = .working := by
      rcases hC t with ⟨a1, _⟩ | ⟨a1, _⟩
      · rw [← a1]; exact hts
      · exact a1
    exact ⟨_, finishOne_finForm hl ts t hA hts hlt⟩
  · exact ⟨hA, hC, ts, rfl⟩

theorem finishClosure_finInv {l : Live} (hl : AllocInv m l) (order : List Nat) (fuel : Nat) :
    FinInv m l (finishClosure m order fuel l) :=
  finishClosure_ind (FinInv m l) order (fun acc t _ h => finStep_finInv hl acc t h) fuel l
    ⟨hl, Closes.refl l, l.tstate, (finForm_self l).symm⟩

/-- under `AllocInv`, the whole state after `check_state(FINISHED)` is a function of the input
state and the final task states -/
theorem chkFinishedOrd_form {l : Live} (hl : AllocInv m l) (order : List Nat) :
    chkFinishedOrd m order l = finForm l (chkFinishedOrd m order l).tstate := by
  rw [chkFinishedOrd_eq]
  obtain ⟨_, _, ts, e⟩ := finishClosure_finInv hl order (m.nT + 1)
  rw [e]; rfl

/-- two visiting orders with the same members (tasks of the model) give the same state -/
theorem chkFinishedOrd_congr {l : Live} (hl : AllocInv m l) (o₁ o₂ : List Nat)
    (hm : ∀ t, t ∈ o₁ ↔ t ∈ o₂) (h1 : ∀ t ∈ o₁, t < m.nT) :
    chkFinishedOrd m o₁ l = chkFinishedOrd m o₂ l := by
  rw [chkFinishedOrd_form hl o₁, chkFinishedOrd_form hl o₂, (chkFinishedOrd_tr o₁ o₂ hm h1 l).1]


/-! ### check_state(WORKING) and check_removing_placed_workplace -/

theorem mem_filter_congr {o₁ o₂ : List Nat} (hm : ∀ t, t ∈ o₁ ↔ t ∈ o₂) (p : Nat → Bool) :
    ∀ t, t ∈ o₁.filter p ↔ t ∈ o₂.filter p := by
  intro t; simp only [List.mem_filter, hm t]

/-- two visiting orders with the same members give the same state (no invariant needed) -/
theorem chkWorkingOrd_congr (o₁ o₂ : List Nat) (hm : ∀ t, t ∈ o₁ ↔ t ∈ o₂) (l : Live) :
    chkWorkingOrd m o₁ l = chkWorkingOrd m o₂ l := by
  unfold chkWorkingOrd
  rw [foldl_eq_of_mem (startOne m) (startOne_comm m) (startOne_idem m)
    (mem_filter_congr hm (workingTarget m l)) l]

/-- two visiting orders with the same members give the same state (no invariant needed) -/
theorem chkRemoveOrd_congr (o₁ o₂ : List Nat) (hm : ∀ c, c ∈ o₁ ↔ c ∈ o₂) (l : Live) :
    chkRemoveOrd m o₁ l = chkRemoveOrd m o₂ l := by
  unfold chkRemoveOrd
  rw [foldl_eq_of_mem removeOne removeOne_comm removeOne_idem
    (mem_filter_congr hm (removeCand m l)) l]

/-! ### PERT with the wave order as a parameter -/

/-- `nextOf` with the iteration order of the next wave (a Python `set`) given by `ord` -/
def nextOfOrd (m : Model) (ord : List Nat → List Nat) (wave : List Nat) : List Nat :=
  ord (wave.flatMap fun i => (m.task i).outputs.map (·.1))

def fwdLoopOrd (m : Model) (ord : List Nat → List Nat) (l : Live) : Nat → List Nat → Pert → Pert
  | 0, _, p => p
  | fuel + 1, wave, p =>
    if wave.isEmpty then p
    else fwdLoopOrd m ord l fuel (nextOfOrd m ord wave) (fwdWave m l wave p)

def prevOfOrd (m : Model) (ord : List Nat → List Nat) (wave : List Nat) : List Nat :=
  ord (wave.flatMap fun o => (m.task o).inputs.map (·.1))

def bwdLoopOrd (m : Model) (ord : List Nat → List Nat) (l : Live) : Nat → List Nat → Pert → Pert
  | 0, _, p => p
  | fuel + 1, wave, p =>
    if wave.isEmpty then p
    else bwdLoopOrd m ord l fuel (prevOfOrd m ord wave) (bwdWave m l wave p)

/-- `pertFwd` with every wave (the head set included) visited in the order chosen by `ord` -/
def pertFwdOrd (m : Model) (ord : List Nat → List Nat) (time : Rat) (l : Live) : Pert :=
  let p0 : Pert :=
    { est := fun t => if t < m.nT then time else l.est t
      eft := fun t => if t < m.nT && (m.task t).inputs.isEmpty then time + l.rem t else l.eft t
      lst := l.lst, lft := l.lft }
  fwdLoopOrd m ord l (m.nT + 1) (ord (heads m)) p0

/-- `pertBwd` with every wave (the tail set included) visited in the order chosen by `ord` -/
def pertBwdOrd (m : Model) (ord : List Nat → List Nat) (l : Live) (reset : Bool) (p : Pert) :
    Pert × Rat :=
  let tl := tails m
  let cpl := maxList l.cpl (tl.map p.eft)
  let base : Pert := if reset then
      { p with lst := fun t => if t < m.nT then -1 else p.lst t,
               lft := fun t => if t < m.nT then -1 else p.lft t } else p
  let p1 : Pert :=
    { base with lft := fun t => if tl.contains t then cpl else base.lft t
                lst := fun t => if tl.contains t then cpl - l.rem t else base.lst t
                done := fun _ => false }
  (bwdLoopOrd m ord l (m.nT + 1) (ord tl) p1, cpl)

/-- `pert` with the iteration order of every task set given by `ord` (`pert` itself is
`pertOrd m (canonSet m.nT)`, see `pertOrd_canon`) -/
def pertOrd (m : Model) (ord : List Nat → List Nat) (time : Nat) (l : Live) : Live :=
  let pf := pertFwdOrd m ord (time : Rat) l
  let (pb, cpl) := pertBwdOrd m ord l pertReset pf
  { l with est := tabN m.nT pb.est, eft := tabN m.nT pb.eft,
           lst := tabN m.nT pb.lst, lft := tabN m.nT pb.lft, cpl := cpl }

theorem canonSet_filter_range (n : Nat) (p : Nat → Bool) :
    canonSet n ((List.range n).filter p) = (List.range n).filter p := by
  unfold canonSet
  apply List.filter_congr
  intro x hx
  have hx' := List.mem_range.mp hx
  rw [Bool.eq_iff_iff, List.contains_iff_mem, List.mem_filter, List.mem_range]
  exact ⟨fun h => h.2, fun h => ⟨hx', h⟩⟩

theorem fwdLoopOrd_canon (m : Model) (l : Live) (fuel : Nat) (wave : List Nat) (p : Pert) :
    fwdLoopOrd m (canonSet m.nT) l fuel wave p = fwdLoop m l fuel wave p := by
  induction fuel generalizing wave p with
  | zero => rfl
  | succ n ih => simp only [fwdLoopOrd, fwdLoop, ih]; rfl

theorem bwdLoopOrd_canon (m : Model) (l : Live) (fuel : Nat) (wave : List Nat) (p : Pert) :
    bwdLoopOrd m (canonSet m.nT) l fuel wave p = bwdLoop m l fuel wave p := by
  induction fuel generalizing wave p with
  | zero => rfl
  | succ n ih => simp only [bwdLoopOrd, bwdLoop, ih]; rfl

/-- with the canonical (ascending index) order, `pertOrd` is `pert` -/
theorem pertOrd_canon (m : Model) (time : Nat) (l : Live) :
    pertOrd m (canonSet m.nT) time l = pert m time l := by
  have h1 : canonSet m.nT (heads m) = heads m := canonSet_filter_range _ _
  have h2 : canonSet m.nT (tails m) = tails m := canonSet_filter_range _ _
  simp only [pertOrd, pert, pertFwdOrd, pertFwd, pertBwdOrd, pertBwd, h1, h2, fwdLoopOrd_canon,
    bwdLoopOrd_canon]

open PDesy.PertSpec

/-! ### the wave loop is correct for every iteration order of the waves (FS networks) -/

/-- `ord` lists exactly the members of its argument that are tasks of the model (any order, any
multiplicity): what iterating over a Python `set` built from that list does -/
def OrdOK (n : Nat) (ord : List Nat → List Nat) : Prop :=
  ∀ xs x, x ∈ ord xs ↔ x < n ∧ x ∈ xs

theorem ordOK_canon (n : Nat) : OrdOK n (canonSet n) := fun _ _ => mem_canonSet

/-- `gLoop` with the order of the next wave given by `ord` -/
def gLoopOrd (ord : List Nat → List Nat) (fire : Bool → Rat → Rat → Bool) (useB : Bool) (w : Nat → Rat)
    (H : Nat → List Nat) : Nat → List Nat → AB → AB
  | 0, _, s => s
  | fuel + 1, wave, s =>
    if wave.isEmpty then s
    else gLoopOrd ord fire useB w H fuel (ord (wave.flatMap H)) (gWave fire useB w H wave s)

section generic
variable {n : Nat} {G H : Nat → List Nat} {w : Nat → Rat} {base : Rat}
  {fire : Bool → Rat → Rat → Bool} {useB : Bool} {E : Nat → Rat} {d : Nat → Nat}
  {ord : List Nat → List Nat}

theorem mem_ordNext (ho : OrdOK n ord) {W : List Nat} {x : Nat} :
    x ∈ ord (W.flatMap H) ↔ x < n ∧ ∃ i ∈ W, x ∈ H i := by
  simp [ho _ x, List.mem_flatMap]

theorem Inv_step_ord (ho : OrdOK n ord) (hy : Hyp n G H w base fire E d) {k : Nat} {W : List Nat}
    {s : AB} (hI : Inv n G w base fire E d k W s) :
    Inv n G w base fire E d (k + 1) (ord (W.flatMap H)) (gWave fire useB w H W s) := by
  have hW : ∀ i ∈ W, i < n := fun i hi => (hI.W_lt i hi).1
  obtain ⟨hJ, hpost⟩ := JW.wave_post (useB := useB) hy hW hI.jw
  refine ⟨⟨hJ.all, ?_, ?_⟩, ?_, ?_⟩
  · intro x hx
    obtain ⟨_, i, hi, hxi⟩ := (mem_ordNext ho).1 hx
    exact (hpost (i, x) (mem_pairs.2 ⟨hi, hxi⟩)).1
  · intro x hx p hp hdp
    by_cases hlt : d p < k
    · exact hJ.done x hx p hp hlt
    · have hpn := hy.G_lt x hx p hp
      have hpW := hI.W_all p hpn (by omega)
      have hxp := (hy.cons p x hpn hx).1 hp
      have := hpost (p, x) (mem_pairs.2 ⟨hpW, hxp⟩)
      exact ⟨this.1, this.2 (by simp; omega)⟩
  · intro x hx
    obtain ⟨hxn, i, hi, hxi⟩ := (mem_ordNext ho).1 hx
    obtain ⟨hin, hki⟩ := hI.W_lt i hi
    have := hy.dep.edge x hxn i ((hy.cons i x hin hxn).2 hxi)
    exact ⟨hxn, by omega⟩
  · intro x hx hdx
    have hne : G x ≠ [] := by
      intro h0; have := hy.dep.head x hx h0; omega
    obtain ⟨p, hp, hdp⟩ := hy.dep.pred x hx hne
    have hpn := hy.G_lt x hx p hp
    exact (mem_ordNext ho).2 ⟨hx, p, hI.W_all p hpn (by omega), (hy.cons p x hpn hx).1 hp⟩

theorem gLoopOrd_final (ho : OrdOK n ord) (hy : Hyp n G H w base fire E d) :
    ∀ (fuel k : Nat) (W : List Nat) (s : AB), Inv n G w base fire E d k W s →
      (∀ x, x < n → d x < k + fuel) →
      ∀ x, x < n → (gLoopOrd ord fire useB w H fuel W s).A x = E x ∧
        (gLoopOrd ord fire useB w H fuel W s).B x = E x + w x := by
  intro fuel
  induction fuel with
  | zero =>
    intro k W s hI hd x hx
    have := JW.final hy hI.jw hx (by have := hd x hx; omega)
    simp only [gLoopOrd]
    exact ⟨this.2, by rw [this.1.1.2.2, this.2]⟩
  | succ fuel ih =>
    intro k W s hI hd x hx
    simp only [gLoopOrd]
    split
    · rename_i hemp
      have hall : ∀ y, y < n → d y < k := by
        intro y hy'
        apply Nat.lt_of_not_le
        intro hge
        obtain ⟨z, hz, hdz⟩ := hy.dep.down hy.G_lt (d y) y hy' rfl k hge
        have := hI.W_all z hz hdz
        simp [List.isEmpty_iff.1 hemp] at this
      have := JW.final hy hI.jw hx (by have := hall x hx; omega)
      exact ⟨this.2, by rw [this.1.1.2.2, this.2]⟩
    · exact ih (k + 1) _ _ (Inv_step_ord ho hy hI) (fun y hy' => by have := hd y hy'; omega) x hx

theorem gLoopOrd_correct (ho : OrdOK n ord) (hy : Hyp n G H w base fire E d) (W0 : List Nat) (s : AB)
    (hW0 : ∀ i, i ∈ W0 ↔ i < n ∧ G i = [])
    (hhead : ∀ x, x < n → G x = [] → s.A x = base ∧ s.B x = base + w x)
    (hfresh : ∀ x, x < n → G x ≠ [] → Fresh base fire s x) :
    ∀ x, x < n → (gLoopOrd ord fire useB w H (n + 1) W0 s).A x = E x ∧
        (gLoopOrd ord fire useB w H (n + 1) W0 s).B x = E x + w x := by
  have hset : ∀ x, x < n → G x = [] → IsSet G w base E s x := by
    intro x hx h0
    obtain ⟨h1, h2⟩ := hhead x hx h0
    have : E x = base := by rw [hy.hE x hx, h0]; rfl
    exact ⟨⟨by rw [h1]; exact Rat.le_refl, by rw [h1, this]; exact Rat.le_refl, by rw [h2, h1]⟩,
      Or.inl h0⟩
  apply gLoopOrd_final ho hy (n + 1) 0 W0 s
  · refine ⟨⟨?_, ?_, ?_⟩, ?_, ?_⟩
    · intro x hx
      by_cases h0 : G x = []
      · exact Or.inl (hset x hx h0)
      · exact Or.inr ⟨h0, hfresh x hx h0⟩
    · intro i hi
      obtain ⟨h1, h2⟩ := (hW0 i).1 hi
      exact hset i h1 h2
    · intro x _ p _ h; omega
    · intro i hi
      exact ⟨((hW0 i).1 hi).1, Nat.zero_le _⟩
    · intro x hx hdx
      refine (hW0 x).2 ⟨hx, ?_⟩
      apply Classical.byContradiction
      intro hne
      obtain ⟨p, _, hdp⟩ := hy.dep.pred x hx hne
      omega
  · intro x hx
    have := hy.dep.lt hy.G_lt x hx
    omega

end generic

section frame
variable {n : Nat} {H : Nat → List Nat} {w : Nat → Rat}
  {fire : Bool → Rat → Rat → Bool} {useB : Bool} {ord : List Nat → List Nat}

/-- a wave of tasks of the model writes nothing outside the model -/
theorem gWave_frame (hH : ∀ x, x < n → ∀ y ∈ H x, y < n) (W : List Nat) (hW : ∀ i ∈ W, i < n)
    (s : AB) (x : Nat) (hx : n ≤ x) :
    (gWave fire useB w H W s).A x = s.A x ∧ (gWave fire useB w H W s).B x = s.B x := by
  rw [gWave_eq]
  refine PertSpec.foldl_inv (fun a q => gRelax fire useB w a q.1 q.2)
    (fun t => t.A x = s.A x ∧ t.B x = s.B x) (fun q => q.1 ∈ W ∧ q.2 ∈ H q.1) ?_ _
    (fun q hq => mem_pairs.1 hq) s ⟨rfl, rfl⟩
  intro t q hq ht
  have hne : x ≠ q.2 := by
    have := hH q.1 (hW _ hq.1) q.2 hq.2
    omega
  obtain ⟨h1, h2⟩ := relax_other (fire := fire) (useB := useB) (w := w) t q.1 q.2 x hne
  exact ⟨h1.trans ht.1, h2.trans ht.2⟩

theorem gLoopOrd_frame (ho : OrdOK n ord) (hH : ∀ x, x < n → ∀ y ∈ H x, y < n) :
    ∀ (fuel : Nat) (W : List Nat) (s : AB), (∀ i ∈ W, i < n) → ∀ x, n ≤ x →
      (gLoopOrd ord fire useB w H fuel W s).A x = s.A x ∧
      (gLoopOrd ord fire useB w H fuel W s).B x = s.B x := by
  intro fuel
  induction fuel with
  | zero => intro W s _ x _; exact ⟨rfl, rfl⟩
  | succ fuel ih =>
    intro W s hW x hx
    simp only [gLoopOrd]
    split
    · exact ⟨rfl, rfl⟩
    · obtain ⟨h1, h2⟩ := ih (ord (W.flatMap H)) (gWave fire useB w H W s)
        (fun i hi => ((ho _ i).1 hi).1) x hx
      obtain ⟨h3, h4⟩ := gWave_frame (fire := fire) (useB := useB) (w := w) hH W hW s x hx
      exact ⟨h1.trans h3, h2.trans h4⟩
end frame

theorem fwdLoopOrd_sim {m : Model} {ord : List Nat → List Nat} (ho : OrdOK m.nT ord)
    (hfs : FSOnly m) (l : Live) (p : Pert) :
    ∀ (fuel : Nat) (W : List Nat) (s : AB), (∀ i ∈ W, i < m.nT) →
      fwdLoopOrd m ord l fuel W (fput s p) =
        fput (gLoopOrd ord ffire false l.rem (Hm m) fuel W s) p := by
  intro fuel
  induction fuel with
  | zero => intro W s _; rfl
  | succ fuel ih =>
    intro W s h
    simp only [fwdLoopOrd, gLoopOrd]
    split
    · rfl
    · rw [fwdWave_sim hfs l p W s h]
      exact ih _ _ (fun j hj => ((ho _ j).1 hj).1)

theorem bwdLoopOrd_sim {m : Model} {ord : List Nat → List Nat} (ho : OrdOK m.nT ord)
    (hfs : FSOnly m) (l : Live) (p : Pert) :
    ∀ (fuel : Nat) (W : List Nat) (s : AB), (∀ i ∈ W, i < m.nT) →
      bwdLoopOrd m ord l fuel W (bput s p) =
        bput (gLoopOrd ord bfire true l.rem (Gm m) fuel W s) p := by
  intro fuel
  induction fuel with
  | zero => intro W s _; rfl
  | succ fuel ih =>
    intro W s h
    simp only [bwdLoopOrd, gLoopOrd]
    split
    · rfl
    · rw [bwdWave_sim hfs l p W s h]
      exact ih _ _ (fun j hj => ((ho _ j).1 hj).1)

theorem mem_ord_heads {m : Model} {ord : List Nat → List Nat} (ho : OrdOK m.nT ord) {i : Nat} :
    i ∈ ord (heads m) ↔ i < m.nT ∧ Gm m i = [] := by
  rw [ho, mem_heads]; exact ⟨fun h => h.2, fun h => ⟨h.1, h⟩⟩

theorem mem_ord_tails {m : Model} {ord : List Nat → List Nat} (ho : OrdOK m.nT ord) {i : Nat} :
    i ∈ ord (tails m) ↔ i < m.nT ∧ Hm m i = [] := by
  rw [ho, mem_tails]; exact ⟨fun h => h.2, fun h => ⟨h.1, h⟩⟩

/-- the start state of the forward pass, as an `AB` pair -/
def fwdStart (m : Model) (time : Rat) (l : Live) : AB :=
  { A := fun t => if t < m.nT then time else l.est t
    B := fun t => if t < m.nT && (m.task t).inputs.isEmpty then time + l.rem t else l.eft t }

theorem pertFwdOrd_sim {m : Model} {ord : List Nat → List Nat} (ho : OrdOK m.nT ord)
    (hfs : FSOnly m) (time : Rat) (l : Live) :
    pertFwdOrd m ord time l =
      fput (gLoopOrd ord ffire false l.rem (Hm m) (m.nT + 1) (ord (heads m)) (fwdStart m time l))
        { est := l.est, eft := l.eft, lst := l.lst, lft := l.lft } := by
  rw [← fwdLoopOrd_sim ho hfs l _ _ _ _ (fun i hi => ((mem_ord_heads ho).1 hi).1)]
  rfl

theorem pertFwdOrd_correct {m : Model} {ord : List Nat → List Nat} (ho : OrdOK m.nT ord)
    (hfs : FSOnly m) (time : Rat) (l : Live) {E : Nat → Rat}
    {d : Nat → Nat} (hy : Hyp m.nT (Gm m) (Hm m) l.rem time ffire E d) :
    ∀ x, x < m.nT → (pertFwdOrd m ord time l).est x = E x ∧
      (pertFwdOrd m ord time l).eft x = E x + l.rem x := by
  rw [pertFwdOrd_sim ho hfs]
  apply gLoopOrd_correct ho hy (ord (heads m)) (fwdStart m time l) (fun i => mem_ord_heads ho)
  · intro x hx h0
    simp [fwdStart, hx, Gm_nil.1 h0]
  · intro x hx _ v hv
    simp only [fwdStart, hx, if_true, ffire, decide_eq_true_eq]
    exact hv

/-- the start state of the backward pass (negated), as an `AB` pair -/
def bwdStart (m : Model) (l : Live) (p : Pert) (cpl : Rat) : AB :=
  { A := fun t => -(if (tails m).contains t then cpl else if t < m.nT then -1 else p.lft t)
    B := fun t => -(if (tails m).contains t then cpl - l.rem t else if t < m.nT then -1 else p.lst t) }

theorem pertBwdOrd_sim {m : Model} {ord : List Nat → List Nat} (ho : OrdOK m.nT ord)
    (hfs : FSOnly m) (l : Live) (p : Pert) (cpl : Rat)
    (hc : cpl = maxList l.cpl ((tails m).map p.eft)) :
    pertBwdOrd m ord l true p =
      (bput (gLoopOrd ord bfire true l.rem (Gm m) (m.nT + 1) (ord (tails m)) (bwdStart m l p cpl)) p,
        cpl) := by
  rw [← bwdLoopOrd_sim ho hfs l _ _ _ _ (fun i hi => ((mem_ord_tails ho).1 hi).1)]
  simp only [pertBwdOrd, if_true, ← hc, bput, bwdStart, Rat.neg_neg]

theorem pertBwdOrd_correct {m : Model} {ord : List Nat → List Nat} (ho : OrdOK m.nT ord)
    (hfs : FSOnly m) (l : Live) (p : Pert) {E' : Nat → Rat}
    {d' : Nat → Nat} (cpl : Rat) (hc : cpl = maxList l.cpl ((tails m).map p.eft))
    (hy : Hyp m.nT (Hm m) (Gm m) l.rem (-cpl) bfire E' d') :
    (pertBwdOrd m ord l true p).2 = cpl ∧ (pertBwdOrd m ord l true p).1.est = p.est ∧
      (pertBwdOrd m ord l true p).1.eft = p.eft ∧
      ∀ x, x < m.nT → (pertBwdOrd m ord l true p).1.lft x = -(E' x) ∧
        (pertBwdOrd m ord l true p).1.lst x = -(E' x + l.rem x) := by
  rw [pertBwdOrd_sim ho hfs l p cpl hc]
  refine ⟨rfl, rfl, rfl, ?_⟩
  have := gLoopOrd_correct (useB := true) ho hy (ord (tails m)) (bwdStart m l p cpl)
    (fun i => mem_ord_tails ho) ?_ ?_
  · intro x hx
    obtain ⟨h1, h2⟩ := this x hx
    exact ⟨by simp only [bput]; rw [h1], by simp only [bput]; rw [h2]⟩
  · intro x hx h0
    have : (tails m).contains x = true := by
      simpa using mem_tails.2 ⟨hx, h0⟩
    simp only [bwdStart, this, if_true]
    constructor <;> grind
  · intro x hx h0 v _
    have : (tails m).contains x = false := by
      apply Bool.eq_false_iff.2
      intro hcon
      exact h0 (mem_tails.1 (by simpa using hcon)).2
    simp only [bwdStart, bfire, decide_eq_true_eq]
    left
    trivial

/-- on a finish-to-start network the result of `pertOrd`, for EVERY iteration order of the
waves, solves the PERT/CPM equations -/
theorem pertOrd_AEqs {m : Model} {ord : List Nat → List Nat} (ho : OrdOK m.nT ord)
    (time : Nat) (l : Live) (hfs : FSOnly m) (hok : GraphOK m)
    (hac : Acyclic m) (hn : 0 < m.nT) (hrem : ∀ t, t < m.nT → 0 ≤ l.rem t) :
    AEqs m.nT (Gm m) (Hm m) l.rem (time : Rat) (pertOrd m ord time l).est (pertOrd m ord time l).eft
      (pertOrd m ord time l).lst (pertOrd m ord time l).lft (pertOrd m ord time l).cpl := by
  have hg := dag_of hok hac
  obtain ⟨E, hE⟩ := exists_lp (time : Rat) l.rem hg.G_lt hg.acyc
  obtain ⟨d, hd⟩ := exists_depth hg.G_lt hg.acyc
  have hyf : Hyp m.nT (Gm m) (Hm m) l.rem (time : Rat) ffire E d :=
    ⟨hg.G_lt, hg.H_lt, hg.cons, hrem, hE, hd,
      fun dn pre v h => by simp only [ffire, decide_eq_false_iff_not] at h; grind,
      fun _ _ pre v _ h => by simpa [ffire] using h⟩
  have hfwd := pertFwdOrd_correct ho hfs (time : Rat) l hyf
  let pf := pertFwdOrd m ord (time : Rat) l
  let cpl := maxList l.cpl ((tails m).map pf.eft)
  obtain ⟨x0, hx0, hx0t⟩ := exists_tail hg hn
  have hne : (tails m).map pf.eft ≠ [] := by
    intro h
    have : x0 ∈ tails m := mem_tails.2 ⟨hx0, hx0t⟩
    simp only [List.map_eq_nil_iff] at h
    rw [h] at this
    simp at this
  obtain ⟨hcm, hcle⟩ := maxList_spec l.cpl hne
  have hge : ∀ x, x < m.nT → Hm m x = [] → E x + l.rem x ≤ cpl := by
    intro x hx h0
    rw [← (hfwd x hx).2]
    exact hcle _ (List.mem_map.2 ⟨x, mem_tails.2 ⟨hx, h0⟩, rfl⟩)
  have hat : ∃ x, x < m.nT ∧ Hm m x = [] ∧ E x + l.rem x = cpl := by
    obtain ⟨x, hxt, hxe⟩ := List.mem_map.1 hcm
    obtain ⟨hx, h0⟩ := mem_tails.1 hxt
    exact ⟨x, hx, h0, by rw [← (hfwd x hx).2]; exact hxe⟩
  obtain ⟨E', hE'⟩ := exists_lp (-cpl) l.rem hg.symm.G_lt hg.symm.acyc
  obtain ⟨d', hd'⟩ := exists_depth hg.symm.G_lt hg.symm.acyc
  have href := AEqs.of_ref hg hrem hE hge hat hE'
  have hyb : Hyp m.nT (Hm m) (Gm m) l.rem (-cpl) bfire E' d' :=
    ⟨hg.H_lt, hg.G_lt, hg.symm.cons, hrem, hE', hd',
      fun dn pre v h => by
        simp only [bfire, decide_eq_false_iff_not] at h
        grind,
      fun x hx pre v hp h => by
        simp only [bfire, decide_eq_true_eq] at h
        grind⟩
  obtain ⟨b1, b2, b3, b4⟩ := pertBwdOrd_correct ho hfs l pf cpl rfl hyb
  apply href.congr hg
  intro x hx
  simp only [pertOrd, pertReset, tabN_eq]
  refine ⟨?_, ?_, ?_, ?_⟩
  · rw [b2]; exact (hfwd x hx).1
  · rw [b3]; exact (hfwd x hx).2
  · exact (b4 x hx).2
  · exact (b4 x hx).1

/-- outside the index range of the model the PERT update keeps the old values, for every
iteration order -/
theorem pertOrd_out {m : Model} {ord : List Nat → List Nat} (ho : OrdOK m.nT ord)
    (time : Nat) (l : Live) (hfs : FSOnly m) (hok : GraphOK m) (x : Nat) (hx : m.nT ≤ x) :
    (pertOrd m ord time l).est x = l.est x ∧ (pertOrd m ord time l).eft x = l.eft x ∧
    (pertOrd m ord time l).lst x = l.lst x ∧ (pertOrd m ord time l).lft x = l.lft x := by
  have hH : ∀ a, a < m.nT → ∀ y ∈ Hm m a, y < m.nT := by
    intro a ha y hy
    obtain ⟨d, hd⟩ := mem_Hm.1 hy
    exact ((hok a ha).2 _ hd).1
  have hG : ∀ a, a < m.nT → ∀ y ∈ Gm m a, y < m.nT := by
    intro a ha y hy
    obtain ⟨d, hd⟩ := mem_Gm.1 hy
    exact ((hok a ha).1 _ hd).1
  have hnx : ¬ x < m.nT := by omega
  have hnt : x ∉ tails m := by
    intro hcon
    have := (mem_tails.1 hcon).1
    omega
  obtain ⟨f1, f2⟩ := gLoopOrd_frame (fire := ffire) (useB := false) (w := l.rem) ho hH (m.nT + 1)
    (ord (heads m)) (fwdStart m (time : Rat) l) (fun i hi => ((mem_ord_heads ho).1 hi).1) x hx
  have hsim := pertBwdOrd_sim ho hfs l (pertFwdOrd m ord (time : Rat) l) _ rfl
  obtain ⟨b1, b2⟩ := gLoopOrd_frame (fire := bfire) (useB := true) (w := l.rem) ho hG (m.nT + 1)
    (ord (tails m)) (bwdStart m l (pertFwdOrd m ord (time : Rat) l)
      (maxList l.cpl ((tails m).map (pertFwdOrd m ord (time : Rat) l).eft)))
    (fun i hi => ((mem_ord_tails ho).1 hi).1) x hx
  have F := pertFwdOrd_sim ho hfs (time : Rat) l
  have E1 : (pertFwdOrd m ord (time : Rat) l).est x = l.est x := by
    rw [F]; show (gLoopOrd _ _ _ _ _ _ _ _).A x = _
    rw [f1]; simp [fwdStart, hnx]
  have E2 : (pertFwdOrd m ord (time : Rat) l).eft x = l.eft x := by
    rw [F]; show (gLoopOrd _ _ _ _ _ _ _ _).B x = _
    rw [f2]; simp [fwdStart, hnx]
  have E3 : (pertFwdOrd m ord (time : Rat) l).lst x = l.lst x := by rw [F]; rfl
  have E4 : (pertFwdOrd m ord (time : Rat) l).lft x = l.lft x := by rw [F]; rfl
  simp only [pertOrd, pertReset, tabN_eq, hsim, bput]
  refine ⟨E1, E2, ?_, ?_⟩
  · rw [b2]; simp [bwdStart, hnt, hnx, E3]
  · rw [b1]; simp [bwdStart, hnt, hnx, E4]

/-- **PERT, finish-to-start networks**: the whole state after the PERT update is the same for
every iteration order of the waves -/
theorem pertOrd_eq_pert {m : Model} {ord : List Nat → List Nat} (ho : OrdOK m.nT ord)
    (time : Nat) (l : Live) (hfs : FSOnly m) (hok : GraphOK m)
    (hac : Acyclic m) (hn : 0 < m.nT) (hrem : ∀ t, t < m.nT → 0 ≤ l.rem t) :
    pertOrd m ord time l = pert m time l := by
  have h1 := pertOrd_AEqs ho time l hfs hok hac hn hrem
  have h2 := pertOrd_AEqs (ordOK_canon m.nT) time l hfs hok hac hn hrem
  obtain ⟨hc, hin⟩ := h1.unique (dag_of hok hac) h2
  have o1 := pertOrd_out ho time l hfs hok
  have o2 := pertOrd_out (ordOK_canon m.nT) time l hfs hok
  have key : ∀ x, (pertOrd m ord time l).est x = (pertOrd m (canonSet m.nT) time l).est x ∧
      (pertOrd m ord time l).eft x = (pertOrd m (canonSet m.nT) time l).eft x ∧
      (pertOrd m ord time l).lst x = (pertOrd m (canonSet m.nT) time l).lst x ∧
      (pertOrd m ord time l).lft x = (pertOrd m (canonSet m.nT) time l).lft x := by
    intro x
    by_cases hx : x < m.nT
    · exact hin x hx
    · have a := o1 x (by omega)
      have b := o2 x (by omega)
      exact ⟨a.1.trans b.1.symm, a.2.1.trans b.2.1.symm, a.2.2.1.trans b.2.2.1.symm,
        a.2.2.2.trans b.2.2.2.symm⟩
  rw [← pertOrd_canon]
  have e : ∀ ord', pertOrd m ord' time l =
      { l with est := (pertOrd m ord' time l).est, eft := (pertOrd m ord' time l).eft,
               lst := (pertOrd m ord' time l).lst, lft := (pertOrd m ord' time l).lft,
               cpl := (pertOrd m ord' time l).cpl } := fun _ => rfl
  rw [e ord, e (canonSet m.nT), hc]
  have k1 : (pertOrd m ord time l).est = (pertOrd m (canonSet m.nT) time l).est :=
    funext fun x => (key x).1
  have k2 : (pertOrd m ord time l).eft = (pertOrd m (canonSet m.nT) time l).eft :=
    funext fun x => (key x).2.1
  have k3 : (pertOrd m ord time l).lst = (pertOrd m (canonSet m.nT) time l).lst :=
    funext fun x => (key x).2.2.1
  have k4 : (pertOrd m ord time l).lft = (pertOrd m (canonSet m.nT) time l).lft :=
    funext fun x => (key x).2.2.2
  rw [k1, k2, k3, k4]

/-! ### the simulation with explicit iteration orders -/

/-- `update` with the visiting orders of `__check_finished` (`oF`),
`check_removing_placed_workplace` (`oR`) and of the PERT waves (`ord`) as parameters -/
def updateOrd (m : Model) (ord : List Nat → List Nat) (oF oR : List Nat) (time : Nat) (l : Live) :
    Live :=
  pertOrd m ord time
    (compCheck m (chkReady m (chkRemoveOrd m oR (compCheck m (chkFinishedOrd m oF l)))))

/-- `stepBody` with the visiting order of `__check_working` (`oW`) as a parameter -/
def stepBodyOrd (m : Model) (oW : List Nat) (p : Params) (s : St) : St :=
  let working := !(p.absence.contains s.time)
  let l1 := absenceSet m s.time working s.live
  let l2 := if working then allocate m s.logs p.rule l1 else l1
  -- nothing starts at a project absence step unless automatic tasks are performed there
  let l3 := if working || p.autoFlag then chkWorkingOrd m oW l2 else l2
  let l4 := compCheck m l3
  let lg1 := cost m working l4 s.logs
  let l5 := perform m working p.autoFlag l4
  let lg2 := record m working l5 lg1
  { s with live := l5, logs := lg2, time := s.time + 1 }

/-- `initProject` with the iteration order of the PERT waves as a parameter -/
def initProjectOrd (m : Model) (ord : List Nat → List Nat) (stateInfo logInfo : Bool) (s : St) : St :=
  let s1 : St := if logInfo then
      { s with time := 0, status := .none, mode := .none, logs := clearLogs m s.logs } else s
  if stateInfo then
    let l1 := initLive m logInfo s1.live
    let l2 := { l1 with cpl := 0 }
    let l3 := pertOrd m ord 0 l2
    let l4 := chkReady m l3
    { s1 with live := initComps m l4 }
  else s1

/-- a choice of iteration orders: at every point where the library iterates over a `set`, the
order may be any function of the whole project state (memory layout is not modelled; letting the
order depend on the state covers "any order, possibly a different one each time") -/
structure Orders where
  /-- `__check_finished` -/
  fin : St → List Nat
  /-- `check_removing_placed_workplace` -/
  rem : St → List Nat
  /-- `__check_working` -/
  work : St → List Nat
  /-- the task sets of the PERT update -/
  pert : St → List Nat → List Nat

/-- every chosen order enumerates exactly the tasks (components) of the model — resp. the
members of the given set that are tasks of the model — in any order, with any multiplicity -/
def Orders.Valid (m : Model) (o : Orders) : Prop :=
  ∀ s, (∀ t, t ∈ o.fin s ↔ t < m.nT) ∧ (∀ c, c ∈ o.rem s ↔ c < m.nC) ∧
    (∀ t, t ∈ o.work s ↔ t < m.nT) ∧ OrdOK m.nT (o.pert s)

/-- the PERT waves are visited in the canonical (ascending index) order -/
def Orders.CanonPert (m : Model) (o : Orders) : Prop := ∀ s, o.pert s = canonSet m.nT

/-- `loop` with the iteration orders chosen by `o` -/
def loopOrd (m : Model) (o : Orders) (p : Params) : Nat → St → St
  | 0, s => s
  | fuel + 1, s =>
    let s1 := { s with live := updateOrd m (o.pert s) (o.fin s) (o.rem s) s.time s.live }
    if allFinished m s1.live then { s1 with status := .success }
    else if s1.time ≥ p.maxTime then { s1 with status := .failure }
    else loopOrd m o p fuel (stepBodyOrd m (o.work s1) p s1)

/-- `simulate` with the iteration orders chosen by `o` -/
def simulateOrd (m : Model) (o : Orders) (p : Params) (s : St) : St :=
  let s0 := initProjectOrd m (o.pert s) p.initState p.initLog s
  let s1 := { s0 with mode := .forward, absence := p.absence, autoFlag := p.autoFlag }
  loopOrd m o p (p.maxTime - s1.time + 1) s1

theorem mem_range_iff {n : Nat} {o : List Nat} (h : ∀ t, t ∈ o ↔ t < n) :
    ∀ t, t ∈ o ↔ t ∈ List.range n := by
  intro t; rw [h t, List.mem_range]

theorem updateOrd_canon {l : Live} (hl : AllocInv m l) (oF oR : List Nat)
    (hF : ∀ t, t ∈ oF ↔ t < m.nT) (hR : ∀ c, c ∈ oR ↔ c < m.nC) (time : Nat) :
    updateOrd m (canonSet m.nT) oF oR time l = update m time l := by
  unfold updateOrd update chkFinished chkRemove
  rw [chkFinishedOrd_congr hl oF (List.range m.nT) (mem_range_iff hF) (fun t ht => (hF t).mp ht),
    chkRemoveOrd_congr oR (List.range m.nC) (mem_range_iff hR), pertOrd_canon]

theorem stepBodyOrd_eq (oW : List Nat) (hW : ∀ t, t ∈ oW ↔ t < m.nT) (p : Params) (s : St) :
    stepBodyOrd m oW p s = stepBody m p s := by
  unfold stepBodyOrd stepBody chkWorking
  simp only [chkWorkingOrd_congr oW (List.range m.nT) (mem_range_iff hW)]

theorem initProjectOrd_canon (stateInfo logInfo : Bool) (s : St) :
    initProjectOrd m (canonSet m.nT) stateInfo logInfo s = initProject m stateInfo logInfo s := by
  unfold initProjectOrd initProject
  simp only [pertOrd_canon]

theorem loopOrd_eq {o : Orders} (ho : o.Valid m) (hc : o.CanonPert m) (p : Params) (fuel : Nat)
    (s : St) (h : AllocInv m s.live ∧ HoldWorking s.live) :
    loopOrd m o p fuel s = loop m p fuel s := by
  induction fuel generalizing s with
  | zero => rfl
  | succ n ih =>
    simp only [loopOrd, loop]
    rw [hc s, updateOrd_canon h.1 _ _ (ho s).1 (ho s).2.1]
    have hu := update_C03 s.time h.1 h.2
    split
    · rfl
    · split
      · rfl
      · rw [stepBodyOrd_eq _ (ho _).2.2.1]
        have hs := stepBody_C03 p (s := { s with live := update m s.time s.live }) hu.1 hu.2
        exact ih _ ⟨hs.1, hs.2.1⟩

/-! #### finish-to-start networks: the PERT order is free as well -/

/-- a finish-to-start network has no finish gate -/
theorem finishGate_fs (hfs : FSOnly m) (ts : Nat → TS) (t : Nat) (ht : t < m.nT) :
    finishGate m ts t = true := by
  unfold finishGate
  rw [List.all_eq_true]
  intro e he
  obtain ⟨p, d⟩ := e
  have := (hfs t ht).1 _ he
  simp only at this
  subst this
  rfl

/-- on a finish-to-start network no task has negative remaining work after
`check_state(FINISHED)` -/
theorem chkFinished_rem_nonneg_fs (hfs : FSOnly m) (l : Live) (h : Idem.RemOK m l) :
    ∀ t, t < m.nT → 0 ≤ (chkFinished m l).rem t := by
  intro t ht
  by_cases hw : (chkFinished m l).tstate t = .working
  · have hc := chkFinished_stable (m := m) l t (List.mem_range.mpr ht)
    rw [finishGate_fs hfs _ t ht, Bool.and_true] at hc
    simp only [finishCand, hw, beq_self_eq_true, Bool.true_and, decide_eq_false_iff_not] at hc
    exact Rat.le_of_lt (Rat.not_le.mp hc)
  · exact Idem.RemOK_chkFinished m l h t ht hw

/-- the static hypotheses of the finish-to-start theorems -/
structure FSNet (m : Model) : Prop where
  fs : FSOnly m
  ok : GraphOK m
  acyc : Acyclic m
  pos : 0 < m.nT

theorem updateOrd_eq_fs (hn : FSNet m) {l : Live} (hl : AllocInv m l) (hr : Idem.RemOK m l)
    {ord : List Nat → List Nat} (ho : OrdOK m.nT ord) (oF oR : List Nat)
    (hF : ∀ t, t ∈ oF ↔ t < m.nT) (hR : ∀ c, c ∈ oR ↔ c < m.nC) (time : Nat) :
    updateOrd m ord oF oR time l = update m time l := by
  rw [← updateOrd_canon hl oF oR hF hR time]
  unfold updateOrd
  rw [pertOrd_eq_pert ho _ _ hn.fs hn.ok hn.acyc hn.pos, pertOrd_canon]
  intro t ht
  have e : (compCheck m (chkReady m (chkRemoveOrd m oR (compCheck m (chkFinishedOrd m oF l))))).rem =
      (chkFinished m l).rem := by
    rw [chkFinishedOrd_congr hl oF (List.range m.nT) (mem_range_iff hF) (fun t ht => (hF t).mp ht),
      chkRemoveOrd_congr oR (List.range m.nC) (mem_range_iff hR)]
    exact update_rem (m := m) time l
  rw [e]
  exact chkFinished_rem_nonneg_fs hn.fs l hr t ht

theorem loopOrd_eq_fs (hn : FSNet m) {o : Orders} (ho : o.Valid m) (p : Params) (fuel : Nat)
    (s : St) (h : AllocInv m s.live ∧ HoldWorking s.live ∧ Idem.RemOK m s.live) :
    loopOrd m o p fuel s = loop m p fuel s := by
  induction fuel generalizing s with
  | zero => rfl
  | succ n ih =>
    simp only [loopOrd, loop]
    rw [updateOrd_eq_fs hn h.1 h.2.2 (ho s).2.2.2 _ _ (ho s).1 (ho s).2.1]
    have hu := update_C03 s.time h.1 h.2.1
    have hru := Idem.RemOK_update m s.time s.live h.2.2
    split
    · rfl
    · split
      · rfl
      · rw [stepBodyOrd_eq _ (ho _).2.2.1]
        have hs := stepBody_C03 p (s := { s with live := update m s.time s.live }) hu.1 hu.2
        have hrs := Idem.RemOK_stepBody m p { s with live := update m s.time s.live } hru
        exact ih _ ⟨hs.1, hs.2.1, hrs⟩

theorem initProjectOrd_eq_fs (hn : FSNet m) (hw : Idem.WorkOK m) {ord : List Nat → List Nat}
    (ho : OrdOK m.nT ord) (stateInfo logInfo : Bool) (s : St) :
    initProjectOrd m ord stateInfo logInfo s = initProject m stateInfo logInfo s := by
  unfold initProjectOrd initProject
  have : ∀ l : Live, pertOrd m ord 0 { initLive m logInfo l with cpl := 0 } =
      pert m 0 { initLive m logInfo l with cpl := 0 } := by
    intro l
    apply pertOrd_eq_pert ho _ _ hn.fs hn.ok hn.acyc hn.pos
    intro t ht
    obtain ⟨h1, h2⟩ := hw t ht
    show 0 ≤ (initLive m logInfo l).rem t
    simp only [initLive, tabN_eq]
    apply Rat.mul_nonneg h1
    grind
  simp only [this]

end PDesy.Order
