/-
  PDesy.Lemmas.Perform — helper lemmas for C02 (remaining work) and C10 (absence):
  what `perform` does, the documented contribution `plainContrib`, frame lemmas for `rem`
  and the resource states through every phase, the finish closure, and the trace recurrence.
-/
import PDesy.Lemmas.Defs
import PDesy.Lemmas.Loop
import PDesy.Lemmas.Logs

namespace PDesy.Perform
open PDesy

variable {m : Model}

/-! ### generic fold lemmas -/

/-- a fold whose step preserves a projection preserves it -/
theorem foldl_proj {α β γ : Type} (f : β → α → β) (proj : β → γ)
    (h : ∀ b a, proj (f b a) = proj b) (xs : List α) (b : β) :
    proj (xs.foldl f b) = proj b := by
  induction xs generalizing b with
  | nil => rfl
  | cons x xs ih => rw [List.foldl_cons, ih, h]

theorem foldl_proj_eq {α β γ : Type} (f : β → α → β) (proj : β → γ)
    (h : ∀ b a, proj (f b a) = proj b) (xs : List α) (b : β) (c : γ) (hb : proj b = c) :
    proj (xs.foldl f b) = c := by
  rw [foldl_proj f proj h]; exact hb

/-- a fold whose step preserves an invariant (for the elements of the list) preserves it -/
theorem foldl_inv_mem {α β : Type} (f : β → α → β) (P : β → Prop) (xs : List α)
    (h : ∀ b, ∀ a ∈ xs, P b → P (f b a)) (b : β) (hb : P b) : P (xs.foldl f b) := by
  induction xs generalizing b with
  | nil => exact hb
  | cons x xs ih =>
    rw [List.foldl_cons]
    exact ih (fun b a ha => h b a (List.mem_cons_of_mem _ ha)) _ (h b x (List.mem_cons_self ..) hb)

theorem foldl_inv {α β : Type} (f : β → α → β) (P : β → Prop)
    (h : ∀ b a, P b → P (f b a)) (xs : List α) (b : β) (hb : P b) : P (xs.foldl f b) :=
  foldl_inv_mem f P xs (fun b a _ => h b a) b hb

/-- a fold whose step is related to its input by a reflexive transitive relation -/
theorem foldl_rel {α β : Type} (f : β → α → β) (R : β → β → Prop)
    (hrefl : ∀ b, R b b) (htrans : ∀ a b c, R a b → R b c → R a c)
    (h : ∀ b a, R b (f b a)) (xs : List α) (b : β) : R b (xs.foldl f b) := by
  induction xs generalizing b with
  | nil => exact hrefl b
  | cons x xs ih => rw [List.foldl_cons]; exact htrans _ _ _ (h b x) (ih _)

/-! ### `perform` -/

/-- the remaining work after `perform` -/
theorem perform_rem (working autoFlag : Bool) (l : Live) (t : Nat) :
    (perform m working autoFlag l).rem t =
      if t < m.nT ∧ l.tstate t = .working ∧
          (working = true ∨ (autoFlag = true ∧ (m.task t).isAuto = true))
      then l.rem t - contrib m l t else l.rem t := by
  simp [perform, and_assoc]

/-- `perform` changes nothing but `rem` -/
theorem perform_frame (working autoFlag : Bool) (l : Live) :
    perform m working autoFlag l = { l with rem := (perform m working autoFlag l).rem } := rfl

/-! ### the documented contribution -/

/-- what a worker adds to a task named `name` in one step: its skill value if it has the skill
and is not absent, otherwise nothing -/
def plainW (m : Model) (l : Live) (name w : Nat) : Rat :=
  if hasSkill (m.worker w).skills name = true ∧ l.wstate w ≠ .absence
  then skillVal (m.worker w).skills name else 0

/-- the same for a facility -/
def plainF (m : Model) (l : Live) (name f : Nat) : Rat :=
  if hasSkill (m.fac f).skills name = true ∧ l.fstate f ≠ .absence
  then skillVal (m.fac f).skills name else 0

/-- the documented contribution to a WORKING task in one step: the fixed unit rate for an
automatic task; the sum over the (worker, facility) pairs, by position, of worker skill times
facility skill when the task needs a facility; the sum of the workers' skills otherwise -/
def plainContrib (m : Model) (l : Live) (t : Nat) : Rat :=
  let name := (m.task t).name
  if (m.task t).isAuto then (m.task t).autoRate
  else if (m.task t).needFac then
    sumList (((l.allocW t).zip (l.allocF t)).map fun (w, f) => plainW m l name w * plainF m l name f)
  else sumList ((l.allocW t).map (plainW m l name))

theorem wProgress_of_count (l : Live) (name w : Nat) (h : workingCount l (l.wasg w) = 1) :
    wProgress m l name w = plainW m l name w := by
  unfold wProgress plainW
  rw [h]
  by_cases h1 : hasSkill (m.worker w).skills name = true
  · by_cases h2 : l.wstate w = .absence
    · simp [h1, h2]
    · simp [h1, h2]; grind
  · simp [h1]

theorem fProgress_of_count (l : Live) (name f : Nat) (h : workingCount l (l.fasg f) = 1) :
    fProgress m l name f = plainF m l name f := by
  unfold fProgress plainF
  rw [h]
  by_cases h1 : hasSkill (m.fac f).skills name = true
  · by_cases h2 : l.fstate f = .absence
    · simp [h1, h2]
    · simp [h1, h2]; grind
  · simp [h1]

theorem eq_singleton_of_mem_of_length_le_one {xs : List Nat} {t : Nat} (h : t ∈ xs)
    (hl : xs.length ≤ 1) : xs = [t] := by
  match xs, h, hl with
  | [x], h, _ => simp at h; rw [h]
  | _ :: _ :: _, _, hl => simp at hl

/-- under `AllocInv` a worker allocated to `t` is assigned to `t` only -/
theorem wasg_of_mem {l : Live} (h : AllocInv m l) {t w : Nat} (hw : w ∈ l.allocW t) :
    l.wasg w = [t] :=
  eq_singleton_of_mem_of_length_le_one ((h.w_two t w).mp hw) (h.w_excl w)

theorem fasg_of_mem {l : Live} (h : AllocInv m l) {t f : Nat} (hf : f ∈ l.allocF t) :
    l.fasg f = [t] :=
  eq_singleton_of_mem_of_length_le_one ((h.f_two t f).mp hf) (h.f_excl f)

theorem wcount_of_mem {l : Live} (h : AllocInv m l) {t w : Nat} (hw : w ∈ l.allocW t)
    (ht : l.tstate t = .working) : workingCount l (l.wasg w) = 1 := by
  rw [wasg_of_mem h hw]; simp [workingCount, ht]

theorem fcount_of_mem {l : Live} (h : AllocInv m l) {t f : Nat} (hf : f ∈ l.allocF t)
    (ht : l.tstate t = .working) : workingCount l (l.fasg f) = 1 := by
  rw [fasg_of_mem h hf]; simp [workingCount, ht]

/-- under `AllocInv` the computed contribution to a WORKING task is the documented one -/
theorem contrib_eq_plain {l : Live} (h : AllocInv m l) {t : Nat} (ht : l.tstate t = .working) :
    contrib m l t = plainContrib m l t := by
  unfold contrib plainContrib
  dsimp only
  split
  · rfl
  · split
    · congr 1
      apply List.map_congr_left
      intro ⟨w, f⟩ hp
      have hw := (List.of_mem_zip hp).1
      have hf := (List.of_mem_zip hp).2
      dsimp only
      rw [wProgress_of_count l _ w (wcount_of_mem h hw ht),
        fProgress_of_count l _ f (fcount_of_mem h hf ht)]
    · congr 1
      apply List.map_congr_left
      intro w hw
      exact wProgress_of_count l _ w (wcount_of_mem h hw ht)

/-- an absent or unskilled worker contributes exactly 0 -/
theorem plainW_zero (l : Live) (name w : Nat)
    (h : l.wstate w = .absence ∨ hasSkill (m.worker w).skills name = false) :
    plainW m l name w = 0 := by
  unfold plainW
  rcases h with h | h <;> simp [h]

theorem plainF_zero (l : Live) (name f : Nat)
    (h : l.fstate f = .absence ∨ hasSkill (m.fac f).skills name = false) :
    plainF m l name f = 0 := by
  unfold plainF
  rcases h with h | h <;> simp [h]

/-- … also in the computed (model) form, with no invariant needed -/
theorem wProgress_zero (l : Live) (name w : Nat)
    (h : l.wstate w = .absence ∨ hasSkill (m.worker w).skills name = false) :
    wProgress m l name w = 0 := by
  unfold wProgress
  rcases h with h | h <;> simp [h]

theorem fProgress_zero (l : Live) (name f : Nat)
    (h : l.fstate f = .absence ∨ hasSkill (m.fac f).skills name = false) :
    fProgress m l name f = 0 := by
  unfold fProgress
  rcases h with h | h <;> simp [h]

/-! ### frame lemmas: phases that never touch `rem` -/

@[simp] theorem compCheck_rem (l : Live) : (compCheck m l).rem = l.rem := rfl
@[simp] theorem chkReady_rem (l : Live) : (chkReady m l).rem = l.rem := rfl
@[simp] theorem pert_rem (time : Nat) (l : Live) : (pert m time l).rem = l.rem := rfl
@[simp] theorem absenceSet_rem (time : Nat) (wk : Bool) (l : Live) :
    (absenceSet m time wk l).rem = l.rem := rfl

theorem removeOne_rem (l : Live) (c : Nat) : (removeOne l c).rem = l.rem := by
  unfold removeOne; split <;> rfl

@[simp] theorem chkRemove_rem (l : Live) : (chkRemove m l).rem = l.rem := by
  unfold chkRemove chkRemoveOrd
  exact foldl_proj _ Live.rem removeOne_rem _ _

theorem removeOne_tstate (l : Live) (c : Nat) : (removeOne l c).tstate = l.tstate := by
  unfold removeOne; split <;> rfl

@[simp] theorem chkRemove_tstate (l : Live) : (chkRemove m l).tstate = l.tstate := by
  unfold chkRemove chkRemoveOrd
  exact foldl_proj _ Live.tstate removeOne_tstate _ _

/-! ### allocate: task states, remaining work and resource states are untouched -/

/-- the part of the live state `allocate` never writes -/
def keepA (l : Live) : (Nat → TS) × (Nat → Rat) × (Nat → RS) × (Nat → RS) :=
  (l.tstate, l.rem, l.wstate, l.fstate)

theorem moveComp_keepA (l : Live) (c p : Nat) : keepA (moveComp l c p) = keepA l := by
  unfold moveComp
  dsimp only
  split <;> split <;> rfl

theorem placeStep_keepA (t : Nat) (l : Live) : keepA (placeStep m t l) = keepA l := by
  unfold placeStep
  split
  · rfl
  · split
    · dsimp only
      split
      · rfl
      · exact moveComp_keepA _ _ _
    · rfl

theorem allocWorkers_keepA (t : Nat) (a : Alloc) : keepA (allocWorkers m t a).l = keepA a.l := by
  unfold allocWorkers
  refine foldl_proj_eq _ (fun x : Alloc => keepA x.l) ?_ _ _ _ rfl
  intro b w
  split <;> rfl

theorem allocPairs_keepA (t : Nat) (a : Alloc) : keepA (allocPairs m t a).l = keepA a.l := by
  unfold allocPairs
  split
  · rfl
  · split
    · rfl
    · refine foldl_proj_eq _ (fun x : Alloc => keepA x.l) ?_ _ _ _ rfl
      intro b f
      dsimp only
      split <;> rfl

theorem allocTask_keepA (acc : Alloc) (t : Nat) : keepA (allocTask m acc t).l = keepA acc.l := by
  unfold allocTask
  dsimp only
  have h1 : ∀ (b : Bool) (mv : List Nat),
      keepA (if b then acc else { acc with l := placeStep m t acc.l, moved := mv }).l = keepA acc.l := by
    intro b mv; cases b
    · exact placeStep_keepA t acc.l
    · rfl
  split
  · exact h1 _ _
  · split
    · rw [allocPairs_keepA]; exact h1 _ _
    · rw [allocWorkers_keepA]; exact h1 _ _

theorem allocate_keepA (lg : Logs) (rule : TaskRule) (l : Live) :
    keepA (allocate m lg rule l) = keepA l := by
  unfold allocate
  dsimp only
  exact foldl_proj_eq _ (fun x : Alloc => keepA x.l) allocTask_keepA _ _ _ rfl

@[simp] theorem allocate_tstate (lg : Logs) (rule : TaskRule) (l : Live) :
    (allocate m lg rule l).tstate = l.tstate := congrArg (·.1) (allocate_keepA lg rule l)
@[simp] theorem allocate_rem (lg : Logs) (rule : TaskRule) (l : Live) :
    (allocate m lg rule l).rem = l.rem := congrArg (·.2.1) (allocate_keepA lg rule l)
@[simp] theorem allocate_wstate (lg : Logs) (rule : TaskRule) (l : Live) :
    (allocate m lg rule l).wstate = l.wstate := congrArg (·.2.2.1) (allocate_keepA lg rule l)
@[simp] theorem allocate_fstate (lg : Logs) (rule : TaskRule) (l : Live) :
    (allocate m lg rule l).fstate = l.fstate := congrArg (·.2.2.2) (allocate_keepA lg rule l)

/-! ### check_state(WORKING): remaining work and allocation lists are untouched -/

/-- the part of the live state `check_state(WORKING)` never writes -/
def keepW (l : Live) :
    (Nat → Rat) × (Nat → List Nat) × (Nat → List Nat) × (Nat → List Nat) × (Nat → List Nat) :=
  (l.rem, l.allocW, l.allocF, l.wasg, l.fasg)

theorem startOne_keepW (l : Live) (t : Nat) : keepW (startOne m l t) = keepW l := by
  unfold startOne
  dsimp only
  split
  · split
    · refine foldl_proj_eq _ keepW ?_ _ _ _ ?_
      · intro _ _; rfl
      · refine foldl_proj_eq _ keepW ?_ _ _ _ rfl
        intro _ _; rfl
    · refine foldl_proj_eq _ keepW ?_ _ _ _ rfl
      intro _ _; rfl
  · split
    · refine foldl_proj_eq _ keepW ?_ _ _ _ rfl
      intro a w
      split
      · refine foldl_proj_eq _ keepW ?_ _ _ _ ?_
        · intro b f; split <;> rfl
        · split <;> rfl
      · split <;> rfl
    · rfl

theorem chkWorking_keepW (l : Live) : keepW (chkWorking m l) = keepW l := by
  unfold chkWorking chkWorkingOrd
  exact foldl_proj _ keepW startOne_keepW _ _

@[simp] theorem chkWorking_rem (l : Live) : (chkWorking m l).rem = l.rem :=
  congrArg (·.1) (chkWorking_keepW l)
@[simp] theorem chkWorking_allocW (l : Live) : (chkWorking m l).allocW = l.allocW :=
  congrArg (·.2.1) (chkWorking_keepW l)
@[simp] theorem chkWorking_allocF (l : Live) : (chkWorking m l).allocF = l.allocF :=
  congrArg (·.2.2.1) (chkWorking_keepW l)
@[simp] theorem chkWorking_wasg (l : Live) : (chkWorking m l).wasg = l.wasg :=
  congrArg (·.2.2.2.1) (chkWorking_keepW l)
@[simp] theorem chkWorking_fasg (l : Live) : (chkWorking m l).fasg = l.fasg :=
  congrArg (·.2.2.2.2) (chkWorking_keepW l)

/-! ### check_state(WORKING): task states -/

theorem startOne_tstate (l : Live) (t : Nat) :
    (startOne m l t).tstate = if l.tstate t = .ready then upd l.tstate t .working else l.tstate := by
  unfold startOne
  by_cases h1 : l.tstate t = .ready
  · simp only [h1, beq_self_eq_true, if_true]
    split
    · refine foldl_proj_eq _ Live.tstate ?_ _ _ _ ?_
      · intro _ _; rfl
      · refine foldl_proj_eq _ Live.tstate ?_ _ _ _ rfl
        intro _ _; rfl
    · refine foldl_proj_eq _ Live.tstate ?_ _ _ _ rfl
      intro _ _; rfl
  · have h1' : (l.tstate t == TS.ready) = false := by simpa using h1
    simp only [h1', if_neg h1, Bool.false_eq_true, if_false]
    split
    · refine foldl_proj_eq _ Live.tstate ?_ _ _ _ rfl
      intro a w
      split
      · refine foldl_proj_eq _ Live.tstate ?_ _ _ _ ?_
        · intro b f; split <;> rfl
        · split <;> rfl
      · split <;> rfl
    · rfl

/-- `b` arises from `a` by starting READY tasks -/
def Start (a b : Nat → TS) : Prop := ∀ t, b t = a t ∨ (a t = .ready ∧ b t = .working)

theorem Start.refl (a : Nat → TS) : Start a a := fun _ => Or.inl rfl

theorem Start.trans {a b c : Nat → TS} (h1 : Start a b) (h2 : Start b c) : Start a c := by
  intro t
  rcases h1 t with h1 | ⟨h1, h1'⟩ <;> rcases h2 t with h2 | ⟨h2, h2'⟩
  · left; rw [h2, h1]
  · right; exact ⟨h1 ▸ h2, h2'⟩
  · right; exact ⟨h1, h2 ▸ h1'⟩
  · rw [h1'] at h2; cases h2

theorem Start.finished_iff {a b : Nat → TS} (h : Start a b) (t : Nat) :
    b t = .finished ↔ a t = .finished := by
  rcases h t with h | ⟨h, h'⟩
  · rw [h]
  · rw [h, h']; simp

theorem Start.ready {a b : Nat → TS} (h : Start a b) {t : Nat} (hb : b t = .ready) :
    a t = .ready := by
  rcases h t with h | ⟨h, h'⟩
  · rw [← h]; exact hb
  · exact h

theorem Start.working {a b : Nat → TS} (h : Start a b) {t : Nat} (ha : a t = .working) :
    b t = .working := by
  rcases h t with h | ⟨h, h'⟩
  · rw [h]; exact ha
  · exact h'

theorem startOne_start (l : Live) (t : Nat) : Start l.tstate (startOne m l t).tstate := by
  rw [startOne_tstate]
  split
  · rename_i h
    intro t'
    by_cases ht : t' = t
    · subst ht; right; exact ⟨h, by simp⟩
    · left; simp [ht]
  · exact Start.refl _

theorem chkWorking_tstate (l : Live) :
    (chkWorking m l).tstate =
      (((List.range m.nT).filter (workingTarget m l)).foldl (startOne m) l).tstate := by
  simp [chkWorking, chkWorkingOrd]

theorem chkWorking_start (l : Live) : Start l.tstate (chkWorking m l).tstate := by
  rw [chkWorking_tstate]
  exact foldl_rel (startOne m) (fun a b => Start a.tstate b.tstate) (fun _ => Start.refl _)
    (fun _ _ _ => Start.trans) startOne_start _ l

/-! ### check_state(WORKING): an ABSENCE resource held by no READY task stays ABSENCE -/

theorem foldl_setW_wstate (xs : List Nat) (l : Live) (w : Nat) (h : w ∉ xs) :
    (xs.foldl (fun a w' => { a with wstate := upd a.wstate w' .working }) l).wstate w = l.wstate w := by
  induction xs generalizing l with
  | nil => rfl
  | cons x xs ih =>
    rw [List.foldl_cons, ih _ (fun hx => h (List.mem_cons_of_mem _ hx))]
    have : w ≠ x := fun e => h (e ▸ List.mem_cons_self ..)
    simp [this]

theorem foldl_setF_fstate (xs : List Nat) (l : Live) (f : Nat) (h : f ∉ xs) :
    (xs.foldl (fun a f' => { a with fstate := upd a.fstate f' .working }) l).fstate f = l.fstate f := by
  induction xs generalizing l with
  | nil => rfl
  | cons x xs ih =>
    rw [List.foldl_cons, ih _ (fun hx => h (List.mem_cons_of_mem _ hx))]
    have : f ≠ x := fun e => h (e ▸ List.mem_cons_self ..)
    simp [this]

theorem foldl_setF_other {γ : Type} (proj : Live → γ)
    (hp : ∀ (a : Live) (v : Nat → RS), proj { a with fstate := v } = proj a)
    (xs : List Nat) (l : Live) :
    proj (xs.foldl (fun a f' => { a with fstate := upd a.fstate f' .working }) l) = proj l :=
  foldl_proj (fun (a : Live) f' => { a with fstate := upd a.fstate f' .working }) proj
    (fun a _ => hp a _) xs l

theorem foldl_setW_other {γ : Type} (proj : Live → γ)
    (hp : ∀ (a : Live) (v : Nat → RS), proj { a with wstate := v } = proj a)
    (xs : List Nat) (l : Live) :
    proj (xs.foldl (fun a w' => { a with wstate := upd a.wstate w' .working }) l) = proj l :=
  foldl_proj (fun (a : Live) w' => { a with wstate := upd a.wstate w' .working }) proj
    (fun a _ => hp a _) xs l

theorem startOne_wstate_keep (l : Live) (t w : Nat) (h : l.wstate w = .absence)
    (hn : l.tstate t = .ready → w ∉ l.allocW t) : (startOne m l t).wstate w = .absence := by
  unfold startOne
  dsimp only
  split
  · rename_i hr
    have hn' := hn (by simpa using hr)
    split
    · rw [foldl_setF_other Live.wstate (fun _ _ => rfl), foldl_setW_wstate _ _ _ hn']
      exact h
    · rw [foldl_setW_wstate _ _ _ hn']
      exact h
  · split
    · refine foldl_inv _ (fun a : Live => a.wstate w = .absence) ?_ _ _ h
      intro a w' ha
      have h1 : (if (a.wstate w' == RS.free) = true then { a with wstate := upd a.wstate w' .working }
          else a).wstate w = .absence := by
        split
        · rename_i hfree
          have : w ≠ w' := by
            intro e; subst e; rw [ha] at hfree; simp at hfree
          simp [this, ha]
        · exact ha
      split
      · rw [foldl_proj _ Live.wstate (fun (b : Live) f => by split <;> rfl)]
        exact h1
      · exact h1
    · exact h

theorem startOne_fstate_keep (l : Live) (t f : Nat) (h : l.fstate f = .absence)
    (hn : l.tstate t = .ready → f ∉ l.allocF t) : (startOne m l t).fstate f = .absence := by
  unfold startOne
  dsimp only
  split
  · rename_i hr
    have hn' := hn (by simpa using hr)
    split
    · rw [foldl_setW_other Live.allocF (fun _ _ => rfl), foldl_setF_fstate _ _ _ hn',
        foldl_setW_other Live.fstate (fun _ _ => rfl)]
      exact h
    · rw [foldl_setW_other Live.fstate (fun _ _ => rfl)]
      exact h
  · split
    · refine foldl_inv _ (fun a : Live => a.fstate f = .absence) ?_ _ _ h
      intro a w' ha
      have h1 : (if (a.wstate w' == RS.free) = true then { a with wstate := upd a.wstate w' .working }
          else a).fstate f = .absence := by
        split
        · exact ha
        · exact ha
      split
      · refine foldl_inv _ (fun b : Live => b.fstate f = .absence) ?_ _ _ h1
        intro b f' hb
        split
        · rename_i hfree
          have : f ≠ f' := by
            intro e; subst e; rw [hb] at hfree; simp at hfree
          simp [this, hb]
        · exact hb
      · exact h1
    · exact h

/-- invariant of the `check_state(WORKING)` fold used for the two lemmas below -/
theorem chkWorking_fold_keep (l : Live) (ts : List Nat) (P : Live → Prop)
    (hstep : ∀ a t, Start l.tstate a.tstate → keepW a = keepW l → P a → P (startOne m a t))
    (h0 : P l) : P (ts.foldl (startOne m) l) := by
  have := foldl_inv (startOne m)
    (fun a => Start l.tstate a.tstate ∧ keepW a = keepW l ∧ P a)
    (fun a t ⟨h1, h2, h3⟩ => ⟨Start.trans h1 (startOne_start a t),
      (startOne_keepW a t).trans h2, hstep a t h1 h2 h3⟩) ts l ⟨Start.refl _, rfl, h0⟩
  exact this.2.2

/-- a worker that is ABSENCE and held by no READY task is still ABSENCE after
`check_state(WORKING)` -/
theorem chkWorking_wstate_keep (l : Live) (w : Nat) (h : l.wstate w = .absence)
    (hn : ∀ t, l.tstate t = .ready → w ∉ l.allocW t) : (chkWorking m l).wstate w = .absence := by
  have : (((List.range m.nT).filter (workingTarget m l)).foldl (startOne m) l).wstate w = .absence := by
    refine chkWorking_fold_keep l _ (fun a => a.wstate w = .absence) ?_ h
    intro a t hs hk ha
    refine startOne_wstate_keep a t w ha ?_
    intro hr
    have e : a.allocW = l.allocW := congrArg (·.2.1) hk
    rw [e]
    exact hn t (hs.ready hr)
  simpa [chkWorking, chkWorkingOrd] using this

theorem chkWorking_fstate_keep (l : Live) (f : Nat) (h : l.fstate f = .absence)
    (hn : ∀ t, l.tstate t = .ready → f ∉ l.allocF t) : (chkWorking m l).fstate f = .absence := by
  have : (((List.range m.nT).filter (workingTarget m l)).foldl (startOne m) l).fstate f = .absence := by
    refine chkWorking_fold_keep l _ (fun a => a.fstate f = .absence) ?_ h
    intro a t hs hk ha
    refine startOne_fstate_keep a t f ha ?_
    intro hr
    have e : a.allocF = l.allocF := congrArg (·.2.2.1) hk
    rw [e]
    exact hn t (hs.ready hr)
  simpa [chkWorking, chkWorkingOrd] using this

/-! ### check_state(FINISHED) -/

/-- the step function of `finishPass` -/
def finStep (m : Model) (acc : Live) (t : Nat) : Live :=
  if finishCand acc t && finishGate m acc.tstate t then finishOne m acc t else acc

theorem finishPass_eq (order : List Nat) (l : Live) :
    finishPass m order l = order.foldl (finStep m) l := rfl

theorem chkFinished_eq (l : Live) :
    chkFinished m l = finishClosure m (List.range m.nT) (m.nT + 1) l := by
  simp [chkFinished, chkFinishedOrd]

/-- task states and remaining work together -/
def tr (l : Live) : (Nat → TS) × (Nat → Rat) := (l.tstate, l.rem)

theorem releaseW_tr (t : Nat) (l : Live) (w : Nat) : tr (releaseW t l w) = tr l := by
  unfold releaseW; split <;> rfl
theorem releaseF_tr (t : Nat) (l : Live) (f : Nat) : tr (releaseF t l f) = tr l := by
  unfold releaseF; split <;> rfl

/-- `finishOne` sets task `t` FINISHED with remaining work 0 and touches no other task -/
theorem finishOne_tr (l : Live) (t : Nat) :
    tr (finishOne m l t) = (upd l.tstate t .finished, upd l.rem t 0) := by
  unfold finishOne
  simp only
  split
  · exact foldl_proj_eq _ tr (releaseF_tr t) _ _ _
      (foldl_proj_eq _ tr (releaseW_tr t) _ _ _ rfl)
  · exact foldl_proj_eq _ tr (releaseW_tr t) _ _ _ rfl

theorem finishOne_tstate (l : Live) (t : Nat) :
    (finishOne m l t).tstate = upd l.tstate t .finished := congrArg (·.1) (finishOne_tr l t)
theorem finishOne_rem (l : Live) (t : Nat) :
    (finishOne m l t).rem = upd l.rem t 0 := congrArg (·.2) (finishOne_tr l t)

/-- `b` arises from `a` by finishing WORKING tasks whose remaining work is ≤ 0 (their remaining
work is then set to 0); every other task keeps its state and remaining work -/
def Closes (a b : Live) : Prop :=
  ∀ t, (b.tstate t = a.tstate t ∧ b.rem t = a.rem t) ∨
    (a.tstate t = .working ∧ a.rem t ≤ 0 ∧ b.tstate t = .finished ∧ b.rem t = 0)

theorem Closes.refl (a : Live) : Closes a a := fun _ => Or.inl ⟨rfl, rfl⟩

theorem Closes.trans {a b c : Live} (h1 : Closes a b) (h2 : Closes b c) : Closes a c := by
  intro t
  rcases h1 t with ⟨h1, g1⟩ | ⟨h1, g1, k1, j1⟩ <;>
    rcases h2 t with ⟨h2, g2⟩ | ⟨h2, g2, k2, j2⟩
  · left; exact ⟨h2.trans h1, g2.trans g1⟩
  · right; exact ⟨h1 ▸ h2, g1 ▸ g2, k2, j2⟩
  · right; exact ⟨h1, g1, h2.trans k1, g2.trans j1⟩
  · rw [k1] at h2; cases h2

/-- task states only move to FINISHED -/
def Adv (a b : Nat → TS) : Prop := ∀ t, b t = a t ∨ b t = .finished

theorem Closes.adv {a b : Live} (h : Closes a b) : Adv a.tstate b.tstate := by
  intro t
  rcases h t with ⟨h, _⟩ | ⟨_, _, h, _⟩
  · exact Or.inl h
  · exact Or.inr h

theorem finishGate_adv {a b : Nat → TS} (h : Adv a b) (t : Nat)
    (hg : finishGate m a t = true) : finishGate m b t = true := by
  unfold finishGate at *
  rw [List.all_eq_true] at *
  intro ⟨p, d⟩ hx
  have h0 := hg ⟨p, d⟩ hx
  cases d
  · rfl
  · rfl
  · dsimp only at h0 ⊢
    rcases h p with e | e
    · rw [e]; exact h0
    · rw [e]; rfl
  · dsimp only at h0 ⊢
    rcases h p with e | e
    · rw [e]; exact h0
    · rw [e]; rfl

theorem finStep_closes (acc : Live) (t : Nat) : Closes acc (finStep m acc t) := by
  unfold finStep
  split
  · rename_i hc
    simp only [finishCand, Bool.and_eq_true, beq_iff_eq, decide_eq_true_eq] at hc
    intro t'
    rw [finishOne_tstate, finishOne_rem]
    by_cases ht : t' = t
    · subst ht; right; exact ⟨hc.1.1, hc.1.2, by simp, by simp⟩
    · left; simp [ht]
  · exact Closes.refl _

/-- every task finished since `l` passed its finish gate (evaluated in the current state) -/
def Gated (m : Model) (l acc : Live) : Prop :=
  ∀ t, acc.tstate t = .finished → l.tstate t = .finished ∨ finishGate m acc.tstate t = true

theorem finStep_gated (l acc : Live) (t : Nat) (h : Gated m l acc) : Gated m l (finStep m acc t) := by
  have hadv := (finStep_closes (m := m) acc t).adv
  intro t' hf
  by_cases h0 : acc.tstate t' = .finished
  · rcases h t' h0 with h1 | h1
    · exact Or.inl h1
    · exact Or.inr (finishGate_adv hadv t' h1)
  · -- newly finished: the step fired on `t' = t`
    right
    unfold finStep at hf hadv ⊢
    split at hf
    · rename_i hc
      rw [if_pos hc] at hadv ⊢
      simp only [Bool.and_eq_true] at hc
      rw [finishOne_tstate] at hf
      by_cases ht : t' = t
      · subst ht; exact finishGate_adv hadv _ hc.2
      · rw [upd_other _ _ _ _ ht] at hf; exact absurd hf h0
    · exact absurd hf h0

theorem finishPass_closes (order : List Nat) (l : Live) : Closes l (finishPass m order l) :=
  foldl_rel (finStep m) Closes Closes.refl (fun _ _ _ => Closes.trans) finStep_closes order l

theorem finishPass_gated (order : List Nat) (l acc : Live) (h : Gated m l acc) :
    Gated m l (finishPass m order acc) :=
  foldl_inv (finStep m) (Gated m l) (fun b a hb => finStep_gated l b a hb) order acc h

theorem finishClosure_closes (order : List Nat) (fuel : Nat) (l : Live) :
    Closes l (finishClosure m order fuel l) := by
  induction fuel generalizing l with
  | zero => exact Closes.refl _
  | succ n ih =>
    simp only [finishClosure]
    split
    · exact finishPass_closes order l
    · exact Closes.trans (finishPass_closes order l) (ih _)

theorem finishClosure_gated (order : List Nat) (fuel : Nat) (l acc : Live) (h : Gated m l acc) :
    Gated m l (finishClosure m order fuel acc) := by
  induction fuel generalizing acc with
  | zero => exact h
  | succ n ih =>
    simp only [finishClosure]
    split
    · exact finishPass_gated order l acc h
    · exact ih _ (finishPass_gated order l acc h)

theorem gated_self (l : Live) : Gated m l l := fun _ h => Or.inl h

theorem chkFinished_closes (l : Live) : Closes l (chkFinished m l) := by
  rw [chkFinished_eq]; exact finishClosure_closes _ _ l

theorem chkFinished_gated (l : Live) : Gated m l (chkFinished m l) := by
  rw [chkFinished_eq]; exact finishClosure_gated _ _ l l (gated_self l)

/-! ### the closure reaches a fixpoint -/

theorem countP_le_of_imp {α : Type} (p q : α → Bool) (xs : List α)
    (hpq : ∀ x ∈ xs, p x = true → q x = true) : xs.countP p ≤ xs.countP q :=
  List.countP_mono_left hpq

theorem countP_lt_of_imp {α : Type} (p q : α → Bool) (xs : List α)
    (hpq : ∀ x ∈ xs, p x = true → q x = true) (x0 : α) (hx0 : x0 ∈ xs)
    (hp : p x0 = false) (hq : q x0 = true) : xs.countP p < xs.countP q := by
  induction xs with
  | nil => cases hx0
  | cons x xs ih =>
    have hle : xs.countP p ≤ xs.countP q :=
      countP_le_of_imp p q xs (fun y hy => hpq y (List.mem_cons_of_mem _ hy))
    rcases List.mem_cons.mp hx0 with e | hmem
    · subst e
      simp only [List.countP_cons, hp, hq]
      simp; omega
    · have := ih (fun y hy => hpq y (List.mem_cons_of_mem _ hy)) hmem
      have hx := hpq x (List.mem_cons_self ..)
      simp only [List.countP_cons]
      cases hpx : p x
      · simp; split <;> omega
      · simp [hx hpx]; omega

theorem finishedCount_eq (n : Nat) (l : Live) :
    finishedCount n l = (List.range n).countP (fun t => l.tstate t == .finished) := by
  unfold finishedCount; rw [List.countP_eq_length_filter]

theorem finishedCount_le (n : Nat) (l : Live) : finishedCount n l ≤ n := by
  rw [finishedCount_eq]
  exact Nat.le_trans List.countP_le_length (by simp)

theorem finishedCount_mono (n : Nat) {a b : Live} (h : Adv a.tstate b.tstate) :
    finishedCount n a ≤ finishedCount n b := by
  rw [finishedCount_eq, finishedCount_eq]
  apply countP_le_of_imp
  intro t _ ht
  simp only [beq_iff_eq] at ht ⊢
  rcases h t with e | e
  · rw [e]; exact ht
  · exact e

theorem finStep_count_lt (n : Nat) (acc : Live) (t : Nat) (ht : t < n)
    (hc : (finishCand acc t && finishGate m acc.tstate t) = true) :
    finishedCount n acc < finishedCount n (finStep m acc t) := by
  have hadv := (finStep_closes (m := m) acc t).adv
  rw [finishedCount_eq, finishedCount_eq]
  refine countP_lt_of_imp _ _ _ ?_ t (List.mem_range.mpr ht) ?_ ?_
  · intro t' _ h'
    simp only [beq_iff_eq] at h' ⊢
    rcases hadv t' with e | e
    · rw [e]; exact h'
    · exact e
  · simp only [finishCand, Bool.and_eq_true, beq_iff_eq, decide_eq_true_eq] at hc
    simp [hc.1.1]
  · unfold finStep
    rw [if_pos hc, finishOne_tstate]
    simp

/-- no task of `order` is ready to be finished -/
def Stable (m : Model) (order : List Nat) (l : Live) : Prop :=
  ∀ t ∈ order, (finishCand l t && finishGate m l.tstate t) = false

theorem foldl_finStep_adv (order : List Nat) (l : Live) :
    Adv l.tstate (order.foldl (finStep m) l).tstate :=
  (finishPass_closes (m := m) order l).adv

/-- a pass never lowers the FINISHED count, and a pass that keeps it changes nothing and
found nothing to finish -/
theorem finishPass_count (n : Nat) (order : List Nat) (ho : ∀ t ∈ order, t < n) (l : Live) :
    finishedCount n l ≤ finishedCount n (order.foldl (finStep m) l) ∧
    (finishedCount n (order.foldl (finStep m) l) = finishedCount n l →
      order.foldl (finStep m) l = l ∧ Stable m order l) := by
  refine ⟨finishedCount_mono n (foldl_finStep_adv order l), ?_⟩
  induction order generalizing l with
  | nil => intro _; exact ⟨rfl, fun _ h => by cases h⟩
  | cons t ts ih =>
    intro heq
    rw [List.foldl_cons] at heq ⊢
    have hts : ∀ t' ∈ ts, t' < n := fun t' h => ho t' (List.mem_cons_of_mem _ h)
    have hmono := finishedCount_mono n (foldl_finStep_adv (m := m) ts (finStep m l t))
    cases hc : (finishCand l t && finishGate m l.tstate t)
    · have e : finStep m l t = l := by unfold finStep; rw [hc]; rfl
      rw [e] at heq ⊢
      obtain ⟨h1, h2⟩ := ih hts l heq
      refine ⟨h1, ?_⟩
      intro t' ht'
      rcases List.mem_cons.mp ht' with e' | e'
      · subst e'; exact hc
      · exact h2 t' e'
    · have := finStep_count_lt n l t (ho t (List.mem_cons_self ..)) hc
      omega

theorem finishClosure_stable (order : List Nat) (ho : ∀ t ∈ order, t < m.nT) :
    ∀ (fuel : Nat) (l : Live), m.nT < finishedCount m.nT l + fuel →
      Stable m order (finishClosure m order fuel l) := by
  intro fuel
  induction fuel with
  | zero =>
    intro l h
    have := finishedCount_le m.nT l
    omega
  | succ k ih =>
    intro l h
    simp only [finishClosure]
    obtain ⟨h1, h2⟩ := finishPass_count (m := m) m.nT order ho l
    rw [← finishPass_eq] at h1 h2
    split
    · rename_i heq
      obtain ⟨e, hs⟩ := h2 heq
      rw [e]; exact hs
    · rename_i hne
      apply ih
      omega

/-- after `check_state(FINISHED)` no task is left that could be finished -/
theorem chkFinished_stable (l : Live) : Stable m (List.range m.nT) (chkFinished m l) := by
  rw [chkFinished_eq]
  apply finishClosure_stable _ (fun t h => List.mem_range.mp h)
  omega

/-! ### allocate: whatever it gives was FREE before the pass -/

theorem mem_insertBy {α : Type} (le : α → α → Bool) (x y : α) (ys : List α) :
    y ∈ insertBy le x ys ↔ y = x ∨ y ∈ ys := by
  induction ys with
  | nil => simp [insertBy]
  | cons z zs ih =>
    unfold insertBy
    split
    · simp
    · simp only [List.mem_cons, ih]
      constructor
      · rintro (h | h | h)
        · exact Or.inr (Or.inl h)
        · exact Or.inl h
        · exact Or.inr (Or.inr h)
      · rintro (h | h | h)
        · exact Or.inr (Or.inl h)
        · exact Or.inl h
        · exact Or.inr (Or.inr h)

theorem mem_sortBy {α : Type} (le : α → α → Bool) (y : α) (xs : List α) :
    y ∈ sortBy le xs ↔ y ∈ xs := by
  induction xs with
  | nil => simp [sortBy]
  | cons x xs ih => simp [sortBy, mem_insertBy, ih]

/-- the allocation lists, which placing a component never writes -/
def keepM (l : Live) : (Nat → List Nat) × (Nat → List Nat) := (l.allocW, l.allocF)

theorem moveComp_keepM (l : Live) (c p : Nat) : keepM (moveComp l c p) = keepM l := by
  unfold moveComp
  dsimp only
  split <;> split <;> rfl

theorem placeStep_keepM (t : Nat) (l : Live) : keepM (placeStep m t l) = keepM l := by
  unfold placeStep
  split
  · rfl
  · split
    · dsimp only
      split
      · rfl
      · exact moveComp_keepM _ _ _
    · rfl

/-- every member of an allocation list of `a.l` was either there in `l0` or FREE in `l0`
(workers: in the initial free list `free0`) -/
structure AllocSub (l0 : Live) (free0 : List Nat) (a : Alloc) : Prop where
  free : ∀ x ∈ a.free, x ∈ free0
  w : ∀ t x, x ∈ a.l.allocW t → x ∈ l0.allocW t ∨ x ∈ free0
  f : ∀ t f, f ∈ a.l.allocF t → f ∈ l0.allocF t ∨ l0.fstate f = .free
  fstate : a.l.fstate = l0.fstate

theorem AllocSub.giveW {l0 : Live} {free0 : List Nat} {a : Alloc} (h : AllocSub l0 free0 a)
    (t w : Nat) (hw : w ∈ free0) (fr : List Nat) (hfr : ∀ x ∈ fr, x ∈ a.free) :
    AllocSub l0 free0 { a with l := giveW a.l t w, free := fr } where
  free := fun x hx => h.free x (hfr x hx)
  w := by
    intro t' x hx
    simp only [PDesy.giveW, upd_apply] at hx
    split at hx
    · rename_i e
      subst e
      rcases List.mem_append.mp hx with hx | hx
      · exact h.w _ x hx
      · simp at hx; subst hx; exact Or.inr hw
    · exact h.w t' x hx
  f := fun t' f hf => h.f t' f hf
  fstate := h.fstate

theorem AllocSub.giveF {l0 : Live} {free0 : List Nat} {a : Alloc} (h : AllocSub l0 free0 a)
    (t f : Nat) (hf : l0.fstate f = .free) :
    AllocSub l0 free0 { a with l := giveF a.l t f } where
  free := h.free
  w := fun t' x hx => h.w t' x hx
  f := by
    intro t' f' hx
    simp only [PDesy.giveF, upd_apply] at hx
    split at hx
    · rename_i e
      subst e
      rcases List.mem_append.mp hx with hx | hx
      · exact h.f _ f' hx
      · simp at hx; subst hx; exact Or.inr hf
    · exact h.f t' f' hx
  fstate := h.fstate

theorem allocWorkers_sub {l0 : Live} {free0 : List Nat} (t : Nat) (a : Alloc)
    (h : AllocSub l0 free0 a) : AllocSub l0 free0 (allocWorkers m t a) := by
  unfold allocWorkers
  dsimp only
  have hfree : ∀ x ∈ sortWorkers m (m.task t).wRule (m.task t).name Option.none a.free, x ∈ free0 :=
    fun x hx => h.free x ((mem_sortBy _ _ _).mp hx)
  refine foldl_inv_mem _ (AllocSub l0 free0) _ ?_ _ ⟨hfree, h.w, h.f, h.fstate⟩
  intro b w hw hb
  split
  · refine hb.giveW t w (hfree w (List.mem_filter.mp hw).1) _ ?_
    intro x hx; exact (List.mem_filter.mp hx).1
  · exact hb

theorem allocPairs_sub {l0 : Live} {free0 : List Nat} (t : Nat) (a : Alloc)
    (h : AllocSub l0 free0 a) : AllocSub l0 free0 (allocPairs m t a) := by
  unfold allocPairs
  split
  · exact h
  · split
    · exact h
    · rename_i c _ p _
      dsimp only
      refine foldl_inv_mem _ (AllocSub l0 free0) _ ?_ _ h
      intro b f hf hb
      have hf0 : l0.fstate f = .free := by
        have h1 := (List.mem_filter.mp hf).1
        have h2 := (mem_sortBy _ _ _).mp h1
        have h3 := (List.mem_filter.mp h2).2
        rw [← h.fstate]; simpa using h3
      split
      · exact hb
      · rename_i w ws hs
        have hw : w ∈ b.free := by
          have h1 : w ∈ sortWorkers m (m.task t).wRule (m.task t).name (some p)
              (b.free.filter fun w => hasSkill (m.worker w).skills (m.task t).name &&
                teamTargets m w t && canAdd m b.l t (some w) (some f)) := by
            rw [hs]; exact List.mem_cons_self ..
          exact (List.mem_filter.mp ((mem_sortBy _ _ _).mp h1)).1
        have h1 := hb.giveW t w (hb.free w hw) (b.free.filter (· != w))
          (fun x hx => (List.mem_filter.mp hx).1)
        exact h1.giveF t f hf0

theorem allocTask_sub {l0 : Live} {free0 : List Nat} (acc : Alloc) (t : Nat)
    (h : AllocSub l0 free0 acc) : AllocSub l0 free0 (allocTask m acc t) := by
  unfold allocTask
  dsimp only
  have h1 : ∀ (b : Bool) (mv : List Nat),
      AllocSub l0 free0 (if b then acc else { acc with l := placeStep m t acc.l, moved := mv }) := by
    intro b mv; cases b
    · have e := placeStep_keepM (m := m) t acc.l
      have e1 : (placeStep m t acc.l).allocW = acc.l.allocW := congrArg (·.1) e
      have e2 : (placeStep m t acc.l).allocF = acc.l.allocF := congrArg (·.2) e
      have e3 : (placeStep m t acc.l).fstate = acc.l.fstate :=
        congrArg (·.2.2.2) (placeStep_keepA (m := m) t acc.l)
      refine ⟨h.free, ?_, ?_, ?_⟩
      · intro t' x hx; simp only [Bool.false_eq_true, if_false] at hx; rw [e1] at hx; exact h.w t' x hx
      · intro t' x hx; simp only [Bool.false_eq_true, if_false] at hx; rw [e2] at hx; exact h.f t' x hx
      · simp only [Bool.false_eq_true, if_false]; rw [e3]; exact h.fstate
    · exact h
  split
  · exact h1 _ _
  · split
    · exact allocPairs_sub t _ (h1 _ _)
    · exact allocWorkers_sub t _ (h1 _ _)

/-- everything on an allocation list after `allocate` was on it before or was FREE before -/
theorem allocate_sub (lg : Logs) (rule : TaskRule) (l : Live) :
    (∀ t x, x ∈ (allocate m lg rule l).allocW t → x ∈ l.allocW t ∨ l.wstate x = .free) ∧
    (∀ t f, f ∈ (allocate m lg rule l).allocF t → f ∈ l.allocF t ∨ l.fstate f = .free) := by
  have h := foldl_inv (allocTask m)
    (AllocSub l ((List.range m.nW).filter fun w => l.wstate w == .free))
    (fun b t hb => allocTask_sub b t hb)
    (sortTasks m l lg rule ((List.range m.nT).filter fun t => l.tstate t == .ready || l.tstate t == .working))
    { l := l, free := (List.range m.nW).filter fun w => l.wstate w == .free }
    ⟨fun _ hx => hx, fun _ _ hx => Or.inl hx, fun _ _ hx => Or.inl hx, rfl⟩
  constructor
  · intro t x hx
    have hx' : x ∈ ((sortTasks m l lg rule ((List.range m.nT).filter fun t =>
        l.tstate t == .ready || l.tstate t == .working)).foldl (allocTask m)
        { l := l, free := (List.range m.nW).filter fun w => l.wstate w == .free }).l.allocW t := by
      simpa [allocate] using hx
    rcases h.w t x hx' with h1 | h1
    · exact Or.inl h1
    · right; simpa using (List.mem_filter.mp h1).2
  · intro t f hf
    have hf' : f ∈ ((sortTasks m l lg rule ((List.range m.nT).filter fun t =>
        l.tstate t == .ready || l.tstate t == .working)).foldl (allocTask m)
        { l := l, free := (List.range m.nW).filter fun w => l.wstate w == .free }).l.allocF t := by
      simpa [allocate] using hf
    exact h.f t f hf'

/-! ### the `__update` block -/

theorem chkReady_tstate (l : Live) (t : Nat) :
    (chkReady m l).tstate t =
      if t < m.nT && l.tstate t == .none && readyGate m l.tstate t then .ready else l.tstate t := by
  simp [chkReady]

theorem chkReady_finished_iff (l : Live) (t : Nat) :
    (chkReady m l).tstate t = .finished ↔ l.tstate t = .finished := by
  rw [chkReady_tstate]
  split
  · rename_i h
    simp only [Bool.and_eq_true, beq_iff_eq] at h
    rw [h.1.2]; simp
  · rfl

@[simp] theorem update_rem (time : Nat) (l : Live) : (update m time l).rem = (chkFinished m l).rem := by
  simp [update]

theorem update_tstate (time : Nat) (l : Live) :
    (update m time l).tstate = (chkReady m (chkRemove m (compCheck m (chkFinished m l)))).tstate := rfl

theorem update_finished_iff (time : Nat) (l : Live) (t : Nat) :
    (update m time l).tstate t = .finished ↔ (chkFinished m l).tstate t = .finished := by
  rw [update_tstate, chkReady_finished_iff, chkRemove_tstate]
  rfl

/-- `check_state(FINISHED)` changes `rem t` only by setting it to 0, and only on the tasks it
turns FINISHED -/
theorem chkFinished_rem (l : Live) (t : Nat) :
    (chkFinished m l).rem t =
      if (chkFinished m l).tstate t = .finished ∧ l.tstate t ≠ .finished then 0 else l.rem t := by
  rcases chkFinished_closes (m := m) l t with ⟨h1, h2⟩ | ⟨h1, _, h3, h4⟩
  · rw [h1, h2, if_neg]
    exact fun h => h.2 h.1
  · rw [h3, h4, h1]; simp

theorem update_rem_eq (time : Nat) (l : Live) (t : Nat) :
    (update m time l).rem t =
      if (update m time l).tstate t = .finished ∧ l.tstate t ≠ .finished then 0 else l.rem t := by
  rw [update_rem, chkFinished_rem]
  simp only [update_finished_iff]

/-! ### one loop step -/

/-- the live state at the cost/perform boundary of `stepBody` (after absence, allocation,
`check_state(WORKING)` and the component check; `l4` in the model) -/
def preCost (m : Model) (p : Params) (s : St) : Live :=
  compCheck m
    (if (!(p.absence.contains s.time) || p.autoFlag) then chkWorking m
      (if !(p.absence.contains s.time) then
        allocate m s.logs p.rule (absenceSet m s.time (!(p.absence.contains s.time)) s.live)
       else absenceSet m s.time (!(p.absence.contains s.time)) s.live)
     else
      (if !(p.absence.contains s.time) then
        allocate m s.logs p.rule (absenceSet m s.time (!(p.absence.contains s.time)) s.live)
       else absenceSet m s.time (!(p.absence.contains s.time)) s.live))

/-- at a project absence step with the flag off nothing starts: the cost/perform boundary is the
component check of the state after `absenceSet` -/
theorem preCost_inactive (p : Params) (s : St) (h : p.absence.contains s.time = true)
    (hf : p.autoFlag = false) :
    preCost m p s = compCheck m (absenceSet m s.time false s.live) := by
  unfold preCost; rw [h, hf]; rfl

/-- on a working step, and on every step when the flag is set, `check_state(WORKING)` runs -/
theorem preCost_active (p : Params) (s : St)
    (h : (!(p.absence.contains s.time) || p.autoFlag) = true) :
    preCost m p s = compCheck m (chkWorking m
      (if !(p.absence.contains s.time) then
        allocate m s.logs p.rule (absenceSet m s.time (!(p.absence.contains s.time)) s.live)
       else absenceSet m s.time (!(p.absence.contains s.time)) s.live)) := by
  unfold preCost; rw [if_pos h]

theorem stepBody_live (p : Params) (s : St) :
    (stepBody m p s).live =
      perform m (!(p.absence.contains s.time)) p.autoFlag (preCost m p s) := rfl

theorem stepBody_tstate (p : Params) (s : St) :
    (stepBody m p s).live.tstate = (preCost m p s).tstate := rfl

@[simp] theorem absenceSet_tstate (time : Nat) (wk : Bool) (l : Live) :
    (absenceSet m time wk l).tstate = l.tstate := rfl

theorem preCost_rem (p : Params) (s : St) : (preCost m p s).rem = s.live.rem := by
  unfold preCost
  split <;> split <;> simp

theorem preCost_start (p : Params) (s : St) : Start s.live.tstate (preCost m p s).tstate := by
  unfold preCost
  split
  · split
    · have h := chkWorking_start (m := m)
        (allocate m s.logs p.rule (absenceSet m s.time (!(p.absence.contains s.time)) s.live))
      rw [allocate_tstate, absenceSet_tstate] at h
      exact h
    · exact chkWorking_start (m := m) (absenceSet m s.time (!(p.absence.contains s.time)) s.live)
  · split
    · show Start s.live.tstate (allocate m s.logs p.rule _).tstate
      rw [allocate_tstate, absenceSet_tstate]; exact Start.refl _
    · exact Start.refl _

/-- the remaining work after one loop step -/
theorem stepBody_rem (p : Params) (s : St) (t : Nat) :
    (stepBody m p s).live.rem t =
      if t < m.nT ∧ (preCost m p s).tstate t = .working ∧
          (workingAt p s.time = true ∨ (p.autoFlag = true ∧ (m.task t).isAuto = true))
      then s.live.rem t - contrib m (preCost m p s) t else s.live.rem t := by
  rw [stepBody_live, perform_rem, preCost_rem]; rfl

/-! ### initialize -/

theorem initProject_rem (logInfo : Bool) (s : St) (t : Nat) (ht : t < m.nT) :
    (initProject m true logInfo s).live.rem t = (m.task t).work * (1 - (m.task t).prog) := by
  cases logInfo <;> simp [initProject, initComps, initLive, ht]

theorem initProject_tstate (logInfo : Bool) (s : St) (t : Nat) (ht : t < m.nT)
    (hex : ¬ exempt m t) : (initProject m true logInfo s).live.tstate t ≠ .finished := by
  have e : (initProject m true logInfo s).live.tstate t =
      (chkReady m (pert m 0 { initLive m logInfo s.live with cpl := 0 })).tstate t := by
    cases logInfo <;> rfl
  rw [e]
  intro hfin
  rw [chkReady_finished_iff] at hfin
  have hp : ¬ (m.task t).prog ≥ 1 := hex
  simp [pert, initLive, ht, hp] at hfin

/-! ### consecutive states of a trace -/

theorem trace_zero (p : Params) : ∀ (fuel : Nat) (s : St) (h : 0 < (trace m p fuel s).length),
    (trace m p fuel s)[0] = stepBody m p (updated m s) := by
  intro fuel
  cases fuel with
  | zero => intro s h; simp [trace] at h
  | succ n =>
    intro s h
    simp only [trace] at h ⊢
    split
    · rename_i hd; simp [hd] at h
    · simp

theorem trace_succ (p : Params) : ∀ (fuel : Nat) (s : St) (k : Nat)
    (h : k + 1 < (trace m p fuel s).length),
    (trace m p fuel s)[k + 1] = stepBody m p (updated m ((trace m p fuel s)[k]'(by omega))) := by
  intro fuel
  induction fuel with
  | zero => intro s k h; simp [trace] at h
  | succ n ih =>
    intro s k h
    simp only [trace] at h ⊢
    split
    · rename_i hd; simp [hd] at h
    · rename_i hd
      simp only [hd] at h
      simp only [List.getElem_cons_succ]
      cases k with
      | zero =>
        simp only [List.getElem_cons_zero]
        exact trace_zero p n _ (by simpa using h)
      | succ k =>
        simp only [List.getElem_cons_succ]
        exact ih _ k (by simpa using h)

/-! ### a FINISHED task reports remaining work 0 -/

theorem updated_finzero (s : St) (t : Nat)
    (h : s.live.tstate t = .finished → s.live.rem t = 0) :
    (updated m s).live.tstate t = .finished → (updated m s).live.rem t = 0 := by
  intro hf
  show (update m s.time s.live).rem t = 0
  rw [update_rem_eq]
  split
  · rfl
  · rename_i hn
    apply h
    by_cases h0 : s.live.tstate t = .finished
    · exact h0
    · exact absurd ⟨hf, h0⟩ hn

theorem stepBody_finzero (p : Params) (s : St) (t : Nat)
    (h : s.live.tstate t = .finished → s.live.rem t = 0) :
    (stepBody m p s).live.tstate t = .finished → (stepBody m p s).live.rem t = 0 := by
  intro hf
  rw [stepBody_tstate] at hf
  rw [stepBody_rem, if_neg]
  · exact h (((preCost_start p s).finished_iff t).mp hf)
  · intro hc; rw [hf] at hc; cases hc.2.1

theorem trace_finzero (p : Params) (fuel : Nat) (s : St) (t : Nat)
    (h : s.live.tstate t = .finished → s.live.rem t = 0) :
    ∀ s' ∈ trace m p fuel s, s'.live.tstate t = .finished → s'.live.rem t = 0 :=
  trace_inv m p (fun s => s.live.tstate t = .finished → s.live.rem t = 0)
    (fun s hs => updated_finzero s t hs) (fun s hs _ => stepBody_finzero p s t hs) fuel s h

/-! ### resources through one step -/

/-- `absenceSet` on a working step: an individually absent worker becomes ABSENCE -/
theorem absenceSet_wstate_absent (time : Nat) (l : Live) (w : Nat) (hw : w < m.nW)
    (ha : (m.worker w).absence.contains time = true) :
    (absenceSet m time true l).wstate w = .absence := by
  have ha' : time ∈ (m.worker w).absence := by simpa using ha
  simp [absenceSet, hw, ha', resState]

theorem absenceSet_fstate_absent (time : Nat) (l : Live) (f : Nat) (hf : f < m.nF)
    (ha : (m.fac f).absence.contains time = true) :
    (absenceSet m time true l).fstate f = .absence := by
  have ha' : time ∈ (m.fac f).absence := by simpa using ha
  simp [absenceSet, hf, ha', resState]

/-- on a project-wide absence step everybody becomes ABSENCE -/
theorem absenceSet_wstate_off (time : Nat) (l : Live) (w : Nat) (hw : w < m.nW) :
    (absenceSet m time false l).wstate w = .absence := by
  simp [absenceSet, hw]

theorem absenceSet_fstate_off (time : Nat) (l : Live) (f : Nat) (hf : f < m.nF) :
    (absenceSet m time false l).fstate f = .absence := by
  simp [absenceSet, hf]

/-- READY tasks hold nothing (a consequence of `HoldWorking`) -/
def ReadyEmpty (l : Live) : Prop := ∀ t, l.tstate t = .ready → l.allocW t = [] ∧ l.allocF t = []

theorem readyEmpty_of_holdWorking {l : Live} (h : HoldWorking l) : ReadyEmpty l := by
  intro t ht
  constructor
  · apply Classical.byContradiction
    intro hne
    have := h t (Or.inl hne)
    rw [ht] at this; cases this
  · apply Classical.byContradiction
    intro hne
    have := h t (Or.inr hne)
    rw [ht] at this; cases this

/-- a worker that is ABSENCE after `absenceSet` is still ABSENCE at the cost/perform boundary,
provided READY tasks held nothing before the step -/
theorem preCost_wstate_keep (p : Params) (s : St) (w : Nat) (hre : ReadyEmpty s.live)
    (h : (absenceSet m s.time (!(p.absence.contains s.time)) s.live).wstate w = .absence) :
    (preCost m p s).wstate w = .absence := by
  unfold preCost
  show (if _ then chkWorking m _ else _ : Live).wstate w = .absence
  split
  · split
    · apply chkWorking_wstate_keep
      · rw [allocate_wstate]; exact h
      · intro t ht hmem
        rw [allocate_tstate, absenceSet_tstate] at ht
        rcases (allocate_sub (m := m) s.logs p.rule _).1 t w hmem with h1 | h1
        · have : s.live.allocW t = [] := (hre t ht).1
          change w ∈ s.live.allocW t at h1
          rw [this] at h1; cases h1
        · rw [h] at h1; cases h1
    · apply chkWorking_wstate_keep
      · exact h
      · intro t ht hmem
        change w ∈ s.live.allocW t at hmem
        rw [(hre t ht).1] at hmem; cases hmem
  · split
    · rw [allocate_wstate]; exact h
    · exact h

theorem preCost_fstate_keep (p : Params) (s : St) (f : Nat) (hre : ReadyEmpty s.live)
    (h : (absenceSet m s.time (!(p.absence.contains s.time)) s.live).fstate f = .absence) :
    (preCost m p s).fstate f = .absence := by
  unfold preCost
  show (if _ then chkWorking m _ else _ : Live).fstate f = .absence
  split
  · split
    · apply chkWorking_fstate_keep
      · rw [allocate_fstate]; exact h
      · intro t ht hmem
        rw [allocate_tstate, absenceSet_tstate] at ht
        rcases (allocate_sub (m := m) s.logs p.rule _).2 t f hmem with h1 | h1
        · have : s.live.allocF t = [] := (hre t ht).2
          change f ∈ s.live.allocF t at h1
          rw [this] at h1; cases h1
        · rw [h] at h1; cases h1
    · apply chkWorking_fstate_keep
      · exact h
      · intro t ht hmem
        change f ∈ s.live.allocF t at hmem
        rw [(hre t ht).2] at hmem; cases hmem
  · split
    · rw [allocate_fstate]; exact h
    · exact h

/-- at a project absence step with the flag off every resource is ABSENCE at the cost/perform
boundary, whatever READY tasks hold (nothing starts, so no start can overwrite the state) -/
theorem preCost_wstate_inactive (p : Params) (s : St) (w : Nat) (hw : w < m.nW)
    (h : p.absence.contains s.time = true) (hf : p.autoFlag = false) :
    (preCost m p s).wstate w = .absence := by
  rw [preCost_inactive p s h hf]
  exact absenceSet_wstate_off s.time s.live w hw

theorem preCost_fstate_inactive (p : Params) (s : St) (f : Nat) (hlt : f < m.nF)
    (h : p.absence.contains s.time = true) (hf : p.autoFlag = false) :
    (preCost m p s).fstate f = .absence := by
  rw [preCost_inactive p s h hf]
  exact absenceSet_fstate_off s.time s.live f hlt

/-- allocation lists through an absence step -/
theorem preCost_alloc_off (p : Params) (s : St) (h : p.absence.contains s.time = true) :
    (preCost m p s).allocW = s.live.allocW ∧ (preCost m p s).allocF = s.live.allocF ∧
    (preCost m p s).wasg = s.live.wasg ∧ (preCost m p s).fasg = s.live.fasg := by
  unfold preCost
  rw [h]
  cases p.autoFlag
  · exact ⟨rfl, rfl, rfl, rfl⟩
  · refine ⟨?_, ?_, ?_, ?_⟩
    · show (chkWorking m _).allocW = _; rw [chkWorking_allocW]; rfl
    · show (chkWorking m _).allocF = _; rw [chkWorking_allocF]; rfl
    · show (chkWorking m _).wasg = _; rw [chkWorking_wasg]; rfl
    · show (chkWorking m _).fasg = _; rw [chkWorking_fasg]; rfl

/-! ### the finish gate after `__update` -/

theorem finishGate_congr {a b : Nat → TS}
    (h : ∀ t, (b t = .finished ↔ a t = .finished) ∧ (b t).started = (a t).started) (t : Nat) :
    finishGate m b t = finishGate m a t := by
  unfold finishGate
  congr 1
  funext ⟨p, d⟩
  cases d
  · rfl
  · rfl
  · dsimp only; rw [Bool.eq_iff_iff]; simp only [beq_iff_eq]; exact (h p).1
  · exact (h p).2

theorem chkReady_started (l : Live) (t : Nat) :
    ((chkReady m l).tstate t).started = (l.tstate t).started := by
  rw [chkReady_tstate]
  split
  · rename_i h
    simp only [Bool.and_eq_true, beq_iff_eq] at h
    rw [h.1.2]; rfl
  · rfl

/-- READY marking does not affect the finish gate: the gate after the whole `__update` block is
the gate after `check_state(FINISHED)` -/
theorem update_gate (time : Nat) (l : Live) (t : Nat) :
    finishGate m (update m time l).tstate t = finishGate m (chkFinished m l).tstate t := by
  apply finishGate_congr
  intro t'
  refine ⟨update_finished_iff time l t', ?_⟩
  rw [update_tstate, chkReady_started, chkRemove_tstate]
  rfl

/-! ### arithmetic -/

theorem ite_sub_ite (c : Prop) [Decidable c] (x d : Rat) :
    (if c then x - d else x) = x - (if c then d else 0) := by
  split
  · rfl
  · grind

/-! ### display rule and the start of a run -/

theorem showT_finished_iff (wk : Bool) (s : TS) : showT wk s = .finished ↔ s = .finished := by
  cases wk <;> cases s <;> simp [showT]

theorem enter_live (p : Params) (s : St) :
    (enter m p s).live = (initProject m p.initState p.initLog s).live := rfl

/-- a run with `initState = initLog = true` starts with every non-exempt task not FINISHED -/
theorem enter_not_finished (p : Params) (s : St) (hs : p.initState = true) (t : Nat)
    (ht : t < m.nT) (hex : ¬ exempt m t) : (enter m p s).live.tstate t ≠ .finished := by
  rw [enter_live, hs]
  exact initProject_tstate _ s t ht hex

end PDesy.Perform
