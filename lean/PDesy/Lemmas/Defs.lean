/-
  PDesy.Lemmas.Defs — the invariants the property theorems are about.
  Definitions only (shared by the proof files); no proofs here.
-/
import PDesy.Model.Trace

namespace PDesy

/-- the step executed at time `k` of a run with parameters `p` is a working step -/
def workingAt (p : Params) (k : Nat) : Bool := !(p.absence.contains k)

/-! ### C03 — allocation exclusive and two-way consistent -/

structure AllocInv (m : Model) (l : Live) : Prop where
  w_two : ∀ t w, w ∈ l.allocW t ↔ t ∈ l.wasg w
  f_two : ∀ t f, f ∈ l.allocF t ↔ t ∈ l.fasg f
  w_excl : ∀ w, (l.wasg w).length ≤ 1
  f_excl : ∀ f, (l.fasg f).length ≤ 1
  w_nodup : ∀ t, (l.allocW t).Nodup
  f_nodup : ∀ t, (l.allocF t).Nodup
  fac_only : ∀ t, l.allocF t ≠ [] → (m.task t).needFac = true
  holder : ∀ t, (l.allocW t ≠ [] ∨ l.allocF t ≠ []) → l.tstate t = .ready ∨ l.tstate t = .working

/-- every task that holds a resource is WORKING (true at every boundary except between
`allocate` and `check_state(WORKING)`) -/
def HoldWorking (l : Live) : Prop :=
  ∀ t, (l.allocW t ≠ [] ∨ l.allocF t ≠ []) → l.tstate t = .working

/-- resource states are determined by absence and assignment -/
def ResInv (m : Model) (time : Nat) (working : Bool) (l : Live) : Prop :=
  (∀ w, w < m.nW → l.wstate w =
      if working then resState ((m.worker w).absence.contains time) (l.wasg w) else .absence) ∧
  (∀ f, f < m.nF → l.fstate f =
      if working then resState ((m.fac f).absence.contains time) (l.fasg f) else .absence)

/-! ### C01 — dependencies and lifecycle -/

/-- the task was FINISHED from the start by its default progress (exempt from C01) -/
def exempt (m : Model) (t : Nat) : Prop := (m.task t).prog ≥ 1

/-- dependency invariant on live task states -/
def DepInv (m : Model) (ts : Nat → TS) : Prop :=
  ∀ t, t < m.nT → ¬ exempt m t →
    (ts t ≠ .none → ∀ e ∈ (m.task t).inputs,
        (e.2 = .fs → ts e.1 = .finished) ∧ (e.2 = .ss → (ts e.1).started = true)) ∧
    (ts t = .finished → ∀ e ∈ (m.task t).inputs,
        (e.2 = .ff → ts e.1 = .finished) ∧ (e.2 = .sf → (ts e.1).started = true))

/-- a phase only moves task states forward -/
def Mono (ts ts' : Nat → TS) : Prop := ∀ t, (ts t).rank ≤ (ts' t).rank

/-! ### C14 — component state determined by its tasks -/

def CompInv (m : Model) (l : Live) : Prop :=
  ∀ c, c < m.nC →
    (l.cstate c = .finished ↔ ∀ t ∈ (m.comp c).tasks, l.tstate t = .finished) ∧
    ((∃ t ∈ (m.comp c).tasks, l.tstate t = .working) → l.cstate c = .working) ∧
    ((∃ t ∈ (m.comp c).tasks, l.tstate t = .ready ∨ l.tstate t = .working) → l.cstate c ≠ .none)

/-! ### C08 — logs aligned with time -/

structure Aligned (m : Model) (s : St) : Prop where
  tState : ∀ t, t < m.nT → (s.logs.tState t).length = s.time
  tRem : ∀ t, t < m.nT → (s.logs.tRem t).length = s.time
  tAllocW : ∀ t, t < m.nT → (s.logs.tAllocW t).length = s.time
  tAllocF : ∀ t, t < m.nT → (s.logs.tAllocF t).length = s.time
  wState : ∀ w, w < m.nW → (s.logs.wState w).length = s.time
  wCost : ∀ w, w < m.nW → (s.logs.wCost w).length = s.time
  wAsg : ∀ w, w < m.nW → (s.logs.wAsg w).length = s.time
  fState : ∀ f, f < m.nF → (s.logs.fState f).length = s.time
  fCost : ∀ f, f < m.nF → (s.logs.fCost f).length = s.time
  fAsg : ∀ f, f < m.nF → (s.logs.fAsg f).length = s.time
  teamCost : ∀ a, a < m.nTeam → (s.logs.teamCost a).length = s.time
  wpCost : ∀ q, q < m.nWp → (s.logs.wpCost q).length = s.time
  wpPlaced : ∀ q, q < m.nWp → (s.logs.wpPlaced q).length = s.time
  orgCost : s.logs.orgCost.length = s.time
  projCost : s.logs.projCost.length = s.time
  cState : ∀ c, c < m.nC → (s.logs.cState c).length = s.time
  cPlaced : ∀ c, c < m.nC → (s.logs.cPlaced c).length = s.time

/-- the logs after appending one row per state of `tr` (the bridge between logs and the
live states of a run) -/
def rowLogs (m : Model) (p : Params) (lg : Logs) (tr : List St) : Logs :=
  tr.foldl (fun g s' =>
    record m (workingAt p (s'.time - 1)) s'.live (cost m (workingAt p (s'.time - 1)) s'.live g)) lg

end PDesy
