/-
  PDesy.Lemmas.PersistLemmas — helper lemmas about `write_simple_json` / `read_simple_json`
  modelled as relabelling (`PDesy.Model.Persist`).

  Layout
  * `resolve_some`, `resolve_label`                — what `get_xxx_list(ID=ID)[0]` guarantees;
  * `mapRefs_*`, `mapDeps_*`, `mapOptRef_*`         — relabelling a list / an optional reference;
  * `Sound`, `Inverts`                              — the two facts about a reference map that
                                                       the round trips need;
  * `lab*`, `rel*_toMap`, `rel*_lab`, `rel*_sound`  — one record;
  * `allSome_*`, `ofList_*`                         — tables;
  * `RelM`, `RelL`, `relModel_iff`, `relLive_iff`   — whole model / live state;
  * `UniqueIds`, `RefsOK`                           — the hypotheses of C16.
-/
import PDesy.Model.Persist

namespace PDesy.PersistL
open PDesy

/-! ### `resolve` -/

/-- what load guarantees: a resolved reference is an object of the restored project carrying
that ID -/
theorem resolve_some {lab : Nat → Nat} {n x i : Nat} (h : resolve lab n x = some i) :
    i < n ∧ lab i = x := by
  unfold resolve at h
  have h1 := List.find?_some h
  have h2 := List.mem_of_find?_eq_some h
  simp at h1 h2
  exact ⟨h2, h1⟩

/-- with pairwise distinct labels, the label of an object resolves to that object -/
theorem resolve_label {lab : Nat → Nat} {n i : Nat}
    (hu : ∀ i j, i < n → j < n → lab i = lab j → i = j) (hi : i < n) :
    resolve lab n (lab i) = some i := by
  cases h : resolve lab n (lab i) with
  | none =>
    unfold resolve at h
    rw [List.find?_eq_none] at h
    have := h i (by simp [hi])
    simp at this
  | some j =>
    have ⟨hj, hl⟩ := resolve_some h
    rw [hu j i hj hi hl]

/-- without any uniqueness: the label of an in-range object resolves to SOME object carrying the
same label, at or before it -/
theorem resolve_label_exists {lab : Nat → Nat} {n i : Nat} (hi : i < n) :
    ∃ j, resolve lab n (lab i) = some j ∧ j < n ∧ lab j = lab i := by
  cases h : resolve lab n (lab i) with
  | none =>
    unfold resolve at h
    rw [List.find?_eq_none] at h
    have := h i (by simp [hi])
    simp at this
  | some j => exact ⟨j, rfl, resolve_some h⟩

/-! ### lists of references -/

theorem mapRefs_label (lab : Nat → Nat) (xs : List Nat) :
    mapRefs (fun i => some (lab i)) xs = some (xs.map lab) := by
  induction xs with
  | nil => rfl
  | cons x xs ih => simp [mapRefs, ih]

theorem mapDeps_label (lab : Nat → Nat) (xs : List (Nat × Dep)) :
    mapDeps (fun i => some (lab i)) xs = some (xs.map fun p => (lab p.1, p.2)) := by
  induction xs with
  | nil => rfl
  | cons x xs ih => obtain ⟨a, d⟩ := x; simp [mapDeps, ih]

theorem mapOptRef_label (lab : Nat → Nat) (o : Option Nat) :
    mapOptRef (fun i => some (lab i)) o = some (o.map lab) := by
  cases o <;> rfl

/-- relabelling then resolving gives the list back, if every member is resolved to itself -/
theorem mapRefs_map {f : Nat → Option Nat} {lab : Nat → Nat} {xs : List Nat}
    (h : ∀ x ∈ xs, f (lab x) = some x) : mapRefs f (xs.map lab) = some xs := by
  induction xs with
  | nil => rfl
  | cons x xs ih =>
    have hx := h x (by simp)
    have := ih (fun y hy => h y (by simp [hy]))
    simp [mapRefs, hx, this]

theorem mapDeps_map {f : Nat → Option Nat} {lab : Nat → Nat} {xs : List (Nat × Dep)}
    (h : ∀ p ∈ xs, f (lab p.1) = some p.1) :
    mapDeps f (xs.map fun p => (lab p.1, p.2)) = some xs := by
  induction xs with
  | nil => rfl
  | cons x xs ih =>
    obtain ⟨a, d⟩ := x
    have hx := h (a, d) (by simp)
    have := ih (fun y hy => h y (by simp [hy]))
    simp at hx
    simp [mapDeps, hx, this]

theorem mapOptRef_map {f : Nat → Option Nat} {lab : Nat → Nat} {o : Option Nat}
    (h : ∀ x ∈ o, f (lab x) = some x) : mapOptRef f (o.map lab) = some o := by
  cases o with
  | none => rfl
  | some x => have := h x (by simp); simp [mapOptRef, this]

/-- resolving then relabelling gives the list back, if every resolved member carries the label it
was resolved from -/
theorem mapRefs_sound {f : Nat → Option Nat} {lab : Nat → Nat} {xs ys : List Nat}
    (hf : ∀ x i, f x = some i → lab i = x) (h : mapRefs f xs = some ys) : ys.map lab = xs := by
  induction xs generalizing ys with
  | nil => simp [mapRefs] at h; subst h; rfl
  | cons x xs ih =>
    unfold mapRefs at h
    split at h
    · rename_i y ys' h1 h2
      simp at h; subst h
      simp [ih h2, hf x y h1]
    · simp at h

theorem mapDeps_sound {f : Nat → Option Nat} {lab : Nat → Nat} {xs ys : List (Nat × Dep)}
    (hf : ∀ x i, f x = some i → lab i = x) (h : mapDeps f xs = some ys) :
    (ys.map fun p => (lab p.1, p.2)) = xs := by
  induction xs generalizing ys with
  | nil => simp [mapDeps] at h; subst h; rfl
  | cons x xs ih =>
    obtain ⟨a, d⟩ := x
    unfold mapDeps at h
    split at h
    · rename_i y ys' h1 h2
      simp at h; subst h
      simp [ih h2, hf a y h1]
    · simp at h

theorem mapOptRef_sound {f : Nat → Option Nat} {lab : Nat → Nat} {o o' : Option Nat}
    (hf : ∀ x i, f x = some i → lab i = x) (h : mapOptRef f o = some o') : o'.map lab = o := by
  cases o with
  | none => simp [mapOptRef] at h; subst h; rfl
  | some x =>
    cases h1 : f x with
    | none => simp [mapOptRef, h1] at h
    | some y => simp [mapOptRef, h1] at h; subst h; simp [hf x y h1]

/-- every member of a resolved list is the resolution of something -/
theorem mapRefs_mem {f : Nat → Option Nat} {xs ys : List Nat} (h : mapRefs f xs = some ys) :
    ∀ y ∈ ys, ∃ x ∈ xs, f x = some y := by
  induction xs generalizing ys with
  | nil => simp [mapRefs] at h; subst h; simp
  | cons x xs ih =>
    unfold mapRefs at h
    split at h
    · rename_i y ys' h1 h2
      simp at h; subst h
      intro z hz
      simp at hz
      rcases hz with rfl | hz
      · exact ⟨x, by simp, h1⟩
      · obtain ⟨x', hx', hfx⟩ := ih h2 z hz
        exact ⟨x', by simp [hx'], hfx⟩
    · simp at h

theorem mapDeps_mem {f : Nat → Option Nat} {xs ys : List (Nat × Dep)}
    (h : mapDeps f xs = some ys) : ∀ q ∈ ys, ∃ p ∈ xs, f p.1 = some q.1 ∧ p.2 = q.2 := by
  induction xs generalizing ys with
  | nil => simp [mapDeps] at h; subst h; simp
  | cons x xs ih =>
    obtain ⟨a, d⟩ := x
    unfold mapDeps at h
    split at h
    · rename_i y ys' h1 h2
      simp at h; subst h
      intro z hz
      simp at hz
      rcases hz with rfl | hz
      · exact ⟨(a, d), by simp, h1, rfl⟩
      · obtain ⟨x', hx', hfx⟩ := ih h2 z hz
        exact ⟨x', by simp [hx'], hfx⟩
    · simp at h

theorem mapOptRef_mem {f : Nat → Option Nat} {o o' : Option Nat}
    (h : mapOptRef f o = some o') : ∀ y ∈ o', ∃ x ∈ o, f x = some y := by
  cases o with
  | none => simp [mapOptRef] at h; subst h; simp
  | some x =>
    cases h1 : f x with
    | none => simp [mapOptRef, h1] at h
    | some y => simp [mapOptRef, h1] at h; subst h; simp [h1]

/-- resolution succeeds as soon as it succeeds on every member -/
theorem mapRefs_isSome {f : Nat → Option Nat} {xs : List Nat}
    (h : ∀ x ∈ xs, ∃ y, f x = some y) : ∃ ys, mapRefs f xs = some ys := by
  induction xs with
  | nil => exact ⟨[], rfl⟩
  | cons x xs ih =>
    obtain ⟨y, hy⟩ := h x (by simp)
    obtain ⟨ys, hys⟩ := ih (fun z hz => h z (by simp [hz]))
    exact ⟨y :: ys, by simp [mapRefs, hy, hys]⟩

/-! ### the two facts about a reference map -/

/-- every successful resolution lands in range on an object carrying the label
(`resolve_some` for each kind) -/
structure Sound (ids : Ids) (m : Model) (g : RefMap) : Prop where
  task : ∀ x i, g.task x = some i → i < m.nT ∧ ids.task i = x
  worker : ∀ x i, g.worker x = some i → i < m.nW ∧ ids.worker i = x
  fac : ∀ x i, g.fac x = some i → i < m.nF ∧ ids.fac i = x
  team : ∀ x i, g.team x = some i → i < m.nTeam ∧ ids.team i = x
  wp : ∀ x i, g.wp x = some i → i < m.nWp ∧ ids.wp i = x
  comp : ∀ x i, g.comp x = some i → i < m.nC ∧ ids.comp i = x

/-- the label of every in-range object resolves to that object (`resolve_label` for each kind) -/
structure Inverts (ids : Ids) (m : Model) (g : RefMap) : Prop where
  task : ∀ i, i < m.nT → g.task (ids.task i) = some i
  worker : ∀ i, i < m.nW → g.worker (ids.worker i) = some i
  fac : ∀ i, i < m.nF → g.fac (ids.fac i) = some i
  team : ∀ i, i < m.nTeam → g.team (ids.team i) = some i
  wp : ∀ i, i < m.nWp → g.wp (ids.wp i) = some i
  comp : ∀ i, i < m.nC → g.comp (ids.comp i) = some i

/-- `UniqueIds ids m`: within each kind the labels of in-range objects are pairwise distinct -/
structure UniqueIds (ids : Ids) (m : Model) : Prop where
  task : ∀ i j, i < m.nT → j < m.nT → ids.task i = ids.task j → i = j
  worker : ∀ i j, i < m.nW → j < m.nW → ids.worker i = ids.worker j → i = j
  fac : ∀ i j, i < m.nF → j < m.nF → ids.fac i = ids.fac j → i = j
  team : ∀ i j, i < m.nTeam → j < m.nTeam → ids.team i = ids.team j → i = j
  wp : ∀ i j, i < m.nWp → j < m.nWp → ids.wp i = ids.wp j → i = j
  comp : ∀ i j, i < m.nC → j < m.nC → ids.comp i = ids.comp j → i = j

/-- a decidable form of "pairwise distinct below `n`", for concrete examples -/
theorem uniq_of_ball {lab : Nat → Nat} {n : Nat}
    (h : ∀ i, i < n → ∀ j, j < n → lab i = lab j → i = j) :
    ∀ i j, i < n → j < n → lab i = lab j → i = j :=
  fun i j hi hj e => h i hi j hj e

/-- only the sizes of the model matter for these predicates -/
structure SameSizes (m m' : Model) : Prop where
  nT : m'.nT = m.nT
  nW : m'.nW = m.nW
  nF : m'.nF = m.nF
  nTeam : m'.nTeam = m.nTeam
  nWp : m'.nWp = m.nWp
  nC : m'.nC = m.nC

theorem SameSizes.refl (m : Model) : SameSizes m m := ⟨rfl, rfl, rfl, rfl, rfl, rfl⟩

theorem SameSizes.symm {m m' : Model} (h : SameSizes m m') : SameSizes m' m :=
  ⟨h.nT.symm, h.nW.symm, h.nF.symm, h.nTeam.symm, h.nWp.symm, h.nC.symm⟩

theorem fromMap_congr (ids : Ids) {m m' : Model} (h : SameSizes m m') :
    ids.fromMap m' = ids.fromMap m := by
  simp [Ids.fromMap, h.nT, h.nW, h.nF, h.nTeam, h.nWp, h.nC]

theorem UniqueIds.congr {ids : Ids} {m m' : Model} (h : SameSizes m m') (u : UniqueIds ids m) :
    UniqueIds ids m' := by
  constructor
  · rw [h.nT]; exact u.task
  · rw [h.nW]; exact u.worker
  · rw [h.nF]; exact u.fac
  · rw [h.nTeam]; exact u.team
  · rw [h.nWp]; exact u.wp
  · rw [h.nC]; exact u.comp

/-- the import map is always sound -/
theorem sound_fromMap (ids : Ids) (m : Model) : Sound ids m (ids.fromMap m) :=
  ⟨fun _ _ h => resolve_some h, fun _ _ h => resolve_some h, fun _ _ h => resolve_some h,
   fun _ _ h => resolve_some h, fun _ _ h => resolve_some h, fun _ _ h => resolve_some h⟩

/-- with unique IDs the import map inverts the export map -/
theorem inverts_fromMap {ids : Ids} {m : Model} (u : UniqueIds ids m) :
    Inverts ids m (ids.fromMap m) :=
  ⟨fun _ h => resolve_label u.task h, fun _ h => resolve_label u.worker h,
   fun _ h => resolve_label u.fac h, fun _ h => resolve_label u.team h,
   fun _ h => resolve_label u.wp h, fun _ h => resolve_label u.comp h⟩

/-! ### one record -/

/-- the saved form of a task: every resolved reference replaced by the label of its target -/
def labTask (ids : Ids) (t : TaskS) : TaskS :=
  { t with inputs := t.inputs.map fun p => (ids.task p.1, p.2),
           outputs := t.outputs.map fun p => (ids.task p.1, p.2),
           wps := t.wps.map ids.wp, comp := t.comp.map ids.comp }

def labTeam (ids : Ids) (a : TeamS) : TeamS := { a with targets := a.targets.map ids.task }

def labWp (ids : Ids) (q : WpS) : WpS :=
  { q with targets := q.targets.map ids.task, inputs := q.inputs.map ids.wp,
           outputs := q.outputs.map ids.wp }

def labComp (ids : Ids) (c : CompS) : CompS :=
  { c with tasks := c.tasks.map ids.task, parents := c.parents.map ids.comp,
           children := c.children.map ids.comp }

theorem relTask_toMap (ids : Ids) (t : TaskS) : relTask ids.toMap t = some (labTask ids t) := by
  simp [relTask, Ids.toMap, mapDeps_label, mapRefs_label, mapOptRef_label, labTask]

theorem relTeam_toMap (ids : Ids) (a : TeamS) : relTeam ids.toMap a = some (labTeam ids a) := by
  simp [relTeam, Ids.toMap, mapRefs_label, labTeam]

theorem relWp_toMap (ids : Ids) (q : WpS) : relWp ids.toMap q = some (labWp ids q) := by
  simp [relWp, Ids.toMap, mapRefs_label, labWp]

theorem relComp_toMap (ids : Ids) (c : CompS) : relComp ids.toMap c = some (labComp ids c) := by
  simp [relComp, Ids.toMap, mapRefs_label, labComp]

/-- the resolved references of one task are in range -/
structure TaskOK (m : Model) (t : TaskS) : Prop where
  inputs : ∀ p ∈ t.inputs, p.1 < m.nT
  outputs : ∀ p ∈ t.outputs, p.1 < m.nT
  wps : ∀ q ∈ t.wps, q < m.nWp
  comp : ∀ c ∈ t.comp, c < m.nC

structure WpOK (m : Model) (q : WpS) : Prop where
  targets : ∀ t ∈ q.targets, t < m.nT
  inputs : ∀ r ∈ q.inputs, r < m.nWp
  outputs : ∀ r ∈ q.outputs, r < m.nWp

structure CompOK (m : Model) (c : CompS) : Prop where
  tasks : ∀ t ∈ c.tasks, t < m.nT
  parents : ∀ d ∈ c.parents, d < m.nC
  children : ∀ d ∈ c.children, d < m.nC

/-- load ∘ save on one task -/
theorem relTask_lab {ids : Ids} {m : Model} {g : RefMap} (hg : Inverts ids m g) {t : TaskS}
    (ok : TaskOK m t) : relTask g (labTask ids t) = some t := by
  have h1 : mapDeps g.task (t.inputs.map fun p => (ids.task p.1, p.2)) = some t.inputs :=
    mapDeps_map fun p hp => hg.task _ (ok.inputs p hp)
  have h2 : mapDeps g.task (t.outputs.map fun p => (ids.task p.1, p.2)) = some t.outputs :=
    mapDeps_map fun p hp => hg.task _ (ok.outputs p hp)
  have h3 : mapRefs g.wp (t.wps.map ids.wp) = some t.wps :=
    mapRefs_map fun q hq => hg.wp _ (ok.wps q hq)
  have h4 : mapOptRef g.comp (t.comp.map ids.comp) = some t.comp :=
    mapOptRef_map fun c hc => hg.comp _ (ok.comp c hc)
  simp [relTask, labTask, h1, h2, h3, h4]

theorem relTeam_lab {ids : Ids} {m : Model} {g : RefMap} (hg : Inverts ids m g) {a : TeamS}
    (ok : ∀ t ∈ a.targets, t < m.nT) : relTeam g (labTeam ids a) = some a := by
  have h1 : mapRefs g.task (a.targets.map ids.task) = some a.targets :=
    mapRefs_map fun t ht => hg.task _ (ok t ht)
  simp [relTeam, labTeam, h1]

theorem relWp_lab {ids : Ids} {m : Model} {g : RefMap} (hg : Inverts ids m g) {q : WpS}
    (ok : WpOK m q) : relWp g (labWp ids q) = some q := by
  have h1 : mapRefs g.task (q.targets.map ids.task) = some q.targets :=
    mapRefs_map fun t ht => hg.task _ (ok.targets t ht)
  have h2 : mapRefs g.wp (q.inputs.map ids.wp) = some q.inputs :=
    mapRefs_map fun t ht => hg.wp _ (ok.inputs t ht)
  have h3 : mapRefs g.wp (q.outputs.map ids.wp) = some q.outputs :=
    mapRefs_map fun t ht => hg.wp _ (ok.outputs t ht)
  simp [relWp, labWp, h1, h2, h3]

theorem relComp_lab {ids : Ids} {m : Model} {g : RefMap} (hg : Inverts ids m g) {c : CompS}
    (ok : CompOK m c) : relComp g (labComp ids c) = some c := by
  have h1 : mapRefs g.task (c.tasks.map ids.task) = some c.tasks :=
    mapRefs_map fun t ht => hg.task _ (ok.tasks t ht)
  have h2 : mapRefs g.comp (c.parents.map ids.comp) = some c.parents :=
    mapRefs_map fun t ht => hg.comp _ (ok.parents t ht)
  have h3 : mapRefs g.comp (c.children.map ids.comp) = some c.children :=
    mapRefs_map fun t ht => hg.comp _ (ok.children t ht)
  simp [relComp, labComp, h1, h2, h3]

/-- save ∘ load on one task, and the loaded references are in range -/
theorem relTask_sound {ids : Ids} {m : Model} {g : RefMap} (hg : Sound ids m g) {t t' : TaskS}
    (h : relTask g t = some t') : labTask ids t' = t ∧ TaskOK m t' := by
  unfold relTask at h
  split at h
  · rename_i i o w c h1 h2 h3 h4
    simp at h; subst h
    refine ⟨?_, ?_⟩
    · simp [labTask, mapDeps_sound (fun x i h => (hg.task x i h).2) h1,
        mapDeps_sound (fun x i h => (hg.task x i h).2) h2,
        mapRefs_sound (fun x i h => (hg.wp x i h).2) h3,
        mapOptRef_sound (fun x i h => (hg.comp x i h).2) h4]
    · constructor
      · intro p hp
        obtain ⟨p', _, hp', _⟩ := mapDeps_mem h1 p hp
        exact (hg.task _ _ hp').1
      · intro p hp
        obtain ⟨p', _, hp', _⟩ := mapDeps_mem h2 p hp
        exact (hg.task _ _ hp').1
      · intro p hp
        obtain ⟨p', _, hp'⟩ := mapRefs_mem h3 p hp
        exact (hg.wp _ _ hp').1
      · intro p hp
        obtain ⟨p', _, hp'⟩ := mapOptRef_mem h4 p hp
        exact (hg.comp _ _ hp').1
  · simp at h

theorem relTeam_sound {ids : Ids} {m : Model} {g : RefMap} (hg : Sound ids m g) {a a' : TeamS}
    (h : relTeam g a = some a') : labTeam ids a' = a ∧ ∀ t ∈ a'.targets, t < m.nT := by
  unfold relTeam at h
  split at h
  · rename_i ts h1
    simp at h; subst h
    refine ⟨?_, ?_⟩
    · simp [labTeam, mapRefs_sound (fun x i h => (hg.task x i h).2) h1]
    · intro p hp
      obtain ⟨p', _, hp'⟩ := mapRefs_mem h1 p hp
      exact (hg.task _ _ hp').1
  · simp at h

theorem relWp_sound {ids : Ids} {m : Model} {g : RefMap} (hg : Sound ids m g) {q q' : WpS}
    (h : relWp g q = some q') : labWp ids q' = q ∧ WpOK m q' := by
  unfold relWp at h
  split at h
  · rename_i ts i o h1 h2 h3
    simp at h; subst h
    refine ⟨?_, ?_⟩
    · simp [labWp, mapRefs_sound (fun x i h => (hg.task x i h).2) h1,
        mapRefs_sound (fun x i h => (hg.wp x i h).2) h2,
        mapRefs_sound (fun x i h => (hg.wp x i h).2) h3]
    · constructor
      · intro p hp
        obtain ⟨p', _, hp'⟩ := mapRefs_mem h1 p hp
        exact (hg.task _ _ hp').1
      · intro p hp
        obtain ⟨p', _, hp'⟩ := mapRefs_mem h2 p hp
        exact (hg.wp _ _ hp').1
      · intro p hp
        obtain ⟨p', _, hp'⟩ := mapRefs_mem h3 p hp
        exact (hg.wp _ _ hp').1
  · simp at h

theorem relComp_sound {ids : Ids} {m : Model} {g : RefMap} (hg : Sound ids m g) {c c' : CompS}
    (h : relComp g c = some c') : labComp ids c' = c ∧ CompOK m c' := by
  unfold relComp at h
  split at h
  · rename_i ts p ch h1 h2 h3
    simp at h; subst h
    refine ⟨?_, ?_⟩
    · simp [labComp, mapRefs_sound (fun x i h => (hg.task x i h).2) h1,
        mapRefs_sound (fun x i h => (hg.comp x i h).2) h2,
        mapRefs_sound (fun x i h => (hg.comp x i h).2) h3]
    · constructor
      · intro p hp
        obtain ⟨p', _, hp'⟩ := mapRefs_mem h1 p hp
        exact (hg.task _ _ hp').1
      · intro p hp
        obtain ⟨p', _, hp'⟩ := mapRefs_mem h2 p hp
        exact (hg.comp _ _ hp').1
      · intro p hp
        obtain ⟨p', _, hp'⟩ := mapRefs_mem h3 p hp
        exact (hg.comp _ _ hp').1
  · simp at h

/-! ### tables -/

theorem foldr_allSome {α : Type} (f : Nat → Option α) (l : List Nat) (xs : List α) :
    l.foldr (fun i acc => match f i, acc with
      | some x, some xs => some (x :: xs)
      | _, _ => Option.none) (some []) = some xs ↔
    xs.length = l.length ∧ ∀ k (h : k < l.length) (h' : k < xs.length), f l[k] = some xs[k] := by
  induction l generalizing xs with
  | nil => simp
  | cons a l ih =>
    simp only [List.foldr_cons]
    constructor
    · intro h
      split at h
      · rename_i x xs' h1 h2
        simp at h; subst h
        have ⟨e, hk⟩ := (ih xs').1 h2
        refine ⟨by simp [e], ?_⟩
        intro k hk1 hk2
        cases k with
        | zero => simpa using h1
        | succ k => simpa using hk k (by simpa using hk1) (by simpa using hk2)
      · simp at h
    · intro ⟨e, hk⟩
      cases xs with
      | nil => simp at e
      | cons x xs' =>
        have h1 : f a = some x := by
          have h0 := hk 0 (by simp) (by simp)
          simpa using h0
        have h2 := (ih xs').2 ⟨by simpa using e, fun k hk1 hk2 => by
          have h0 := hk (k + 1) (by simpa using hk1) (by simpa using hk2)
          simpa using h0⟩
        simp [h1, h2]

/-- a table is the tabulation of `f` on `[0, n)` exactly when it has length `n` and agrees with
`f` entry by entry -/
theorem allSome_iff {α : Type} (n : Nat) (f : Nat → Option α) (xs : List α) :
    allSome n f = some xs ↔ xs.length = n ∧ ∀ i (h : i < xs.length), f i = some xs[i] := by
  unfold allSome
  refine Iff.trans (foldr_allSome f (List.range n) xs) ?_
  simp only [List.length_range, List.getElem_range]
  constructor
  · intro ⟨e, h⟩; exact ⟨e, fun i hi => h i (e ▸ hi) hi⟩
  · intro ⟨e, h⟩; exact ⟨e, fun i _ hi => h i hi⟩

theorem ofList_lt {α : Type} (d : Nat → α) (xs : List α) {i : Nat} (h : i < xs.length) :
    ofList d xs i = xs[i] := by
  simp [ofList, h]

theorem ofList_ge {α : Type} (d : Nat → α) (xs : List α) {i : Nat} (h : xs.length ≤ i) :
    ofList d xs i = d i := by
  simp [ofList, h]

/-- the table read back as a function: below `n` it is `f`, above it is the default -/
theorem allSome_ofList {α : Type} {n : Nat} {f : Nat → Option α} {xs : List α}
    (h : allSome n f = some xs) (d : Nat → α) :
    (∀ i, i < n → f i = some (ofList d xs i)) ∧ (∀ i, n ≤ i → ofList d xs i = d i) := by
  obtain ⟨e, hx⟩ := (allSome_iff n f xs).1 h
  refine ⟨fun i hi => ?_, fun i hi => ofList_ge d xs (e ▸ hi)⟩
  rw [ofList_lt d xs (e ▸ hi)]
  exact hx i (e ▸ hi)

/-- a function that is `f` below `n` is the read-back of the tabulation of `f` -/
theorem allSome_of {α : Type} {n : Nat} {f : Nat → Option α} (g d : Nat → α)
    (h1 : ∀ i, i < n → f i = some (g i)) (h2 : ∀ i, n ≤ i → g i = d i) :
    ∃ xs, allSome n f = some xs ∧ ofList d xs = g := by
  refine ⟨(List.range n).map g, ?_, ?_⟩
  · rw [allSome_iff]
    refine ⟨by simp, fun i hi => ?_⟩
    simp at hi
    simp [h1 i hi]
  · funext i
    by_cases hi : i < n
    · rw [ofList_lt _ _ (by simpa using hi)]; simp
    · rw [ofList_ge _ _ (by simpa using hi)]; exact (h2 i (by omega)).symm

/-! ### the whole static model -/

/-- `m'` is `m` with the in-range records relabelled by `g` -/
structure RelM (g : RefMap) (m m' : Model) : Prop where
  sizes : SameSizes m m'
  worker : m'.worker = m.worker
  fac : m'.fac = m.fac
  task : ∀ t, t < m.nT → relTask g (m.task t) = some (m'.task t)
  taskOut : ∀ t, m.nT ≤ t → m'.task t = m.task t
  team : ∀ a, a < m.nTeam → relTeam g (m.team a) = some (m'.team a)
  teamOut : ∀ a, m.nTeam ≤ a → m'.team a = m.team a
  wp : ∀ q, q < m.nWp → relWp g (m.wp q) = some (m'.wp q)
  wpOut : ∀ q, m.nWp ≤ q → m'.wp q = m.wp q
  comp : ∀ c, c < m.nC → relComp g (m.comp c) = some (m'.comp c)
  compOut : ∀ c, m.nC ≤ c → m'.comp c = m.comp c

theorem relModel_iff (g : RefMap) (m m' : Model) : relModel g m = some m' ↔ RelM g m m' := by
  constructor
  · intro h
    unfold relModel at h
    split at h
    · rename_i ts as qs cs h1 h2 h3 h4
      simp at h; subst h
      have a1 := allSome_ofList h1 m.task
      have a2 := allSome_ofList h2 m.team
      have a3 := allSome_ofList h3 m.wp
      have a4 := allSome_ofList h4 m.comp
      exact ⟨⟨rfl, rfl, rfl, rfl, rfl, rfl⟩, rfl, rfl, a1.1, a1.2, a2.1, a2.2, a3.1, a3.2, a4.1, a4.2⟩
    · simp at h
  · intro h
    obtain ⟨ts, h1, e1⟩ := allSome_of (f := fun t => relTask g (m.task t)) m'.task m.task h.task h.taskOut
    obtain ⟨as, h2, e2⟩ := allSome_of (f := fun a => relTeam g (m.team a)) m'.team m.team h.team h.teamOut
    obtain ⟨qs, h3, e3⟩ := allSome_of (f := fun q => relWp g (m.wp q)) m'.wp m.wp h.wp h.wpOut
    obtain ⟨cs, h4, e4⟩ := allSome_of (f := fun c => relComp g (m.comp c)) m'.comp m.comp h.comp h.compOut
    unfold relModel
    rw [h1, h2, h3, h4]
    simp only [e1, e2, e3, e4]
    have := h.sizes
    have hw := h.worker
    have hf := h.fac
    obtain ⟨s1, s2, s3, s4, s5, s6⟩ := this
    cases m; cases m'
    simp at s1 s2 s3 s4 s5 s6 hw hf
    simp [s1, s2, s3, s4, s5, s6, hw, hf]

/-! ### the live state -/

/-- `l'` is `l` with the in-range reference fields relabelled by `g` -/
structure RelL (g : RefMap) (m : Model) (l l' : Live) : Prop where
  allocW : ∀ t, t < m.nT → mapRefs g.worker (l.allocW t) = some (l'.allocW t)
  allocWOut : ∀ t, m.nT ≤ t → l'.allocW t = l.allocW t
  allocF : ∀ t, t < m.nT → mapRefs g.fac (l.allocF t) = some (l'.allocF t)
  allocFOut : ∀ t, m.nT ≤ t → l'.allocF t = l.allocF t
  wasg : ∀ w, w < m.nW → mapRefs g.task (l.wasg w) = some (l'.wasg w)
  wasgOut : ∀ w, m.nW ≤ w → l'.wasg w = l.wasg w
  fasg : ∀ f, f < m.nF → mapRefs g.task (l.fasg f) = some (l'.fasg f)
  fasgOut : ∀ f, m.nF ≤ f → l'.fasg f = l.fasg f
  placed : ∀ c, c < m.nC → mapOptRef g.wp (l.placed c) = some (l'.placed c)
  placedOut : ∀ c, m.nC ≤ c → l'.placed c = l.placed c
  wpComps : ∀ q, q < m.nWp → mapRefs g.comp (l.wpComps q) = some (l'.wpComps q)
  wpCompsOut : ∀ q, m.nWp ≤ q → l'.wpComps q = l.wpComps q
  /-- everything that is not a reference is untouched -/
  rest : l' = { l with allocW := l'.allocW, allocF := l'.allocF, wasg := l'.wasg, fasg := l'.fasg,
                       placed := l'.placed, wpComps := l'.wpComps }

theorem relLive_iff (g : RefMap) (m : Model) (l l' : Live) :
    relLive g m l = some l' ↔ RelL g m l l' := by
  constructor
  · intro h
    unfold relLive at h
    split at h
    · rename_i aw af wa fa pl wc h1 h2 h3 h4 h5 h6
      simp at h; subst h
      have a1 := allSome_ofList h1 l.allocW
      have a2 := allSome_ofList h2 l.allocF
      have a3 := allSome_ofList h3 l.wasg
      have a4 := allSome_ofList h4 l.fasg
      have a5 := allSome_ofList h5 l.placed
      have a6 := allSome_ofList h6 l.wpComps
      exact ⟨a1.1, a1.2, a2.1, a2.2, a3.1, a3.2, a4.1, a4.2, a5.1, a5.2, a6.1, a6.2, rfl⟩
    · simp at h
  · intro h
    obtain ⟨aw, h1, e1⟩ := allSome_of (f := fun t => mapRefs g.worker (l.allocW t)) l'.allocW l.allocW h.allocW h.allocWOut
    obtain ⟨af, h2, e2⟩ := allSome_of (f := fun t => mapRefs g.fac (l.allocF t)) l'.allocF l.allocF h.allocF h.allocFOut
    obtain ⟨wa, h3, e3⟩ := allSome_of (f := fun w => mapRefs g.task (l.wasg w)) l'.wasg l.wasg h.wasg h.wasgOut
    obtain ⟨fa, h4, e4⟩ := allSome_of (f := fun f => mapRefs g.task (l.fasg f)) l'.fasg l.fasg h.fasg h.fasgOut
    obtain ⟨pl, h5, e5⟩ := allSome_of (f := fun c => mapOptRef g.wp (l.placed c)) l'.placed l.placed h.placed h.placedOut
    obtain ⟨wc, h6, e6⟩ := allSome_of (f := fun q => mapRefs g.comp (l.wpComps q)) l'.wpComps l.wpComps h.wpComps h.wpCompsOut
    unfold relLive
    rw [h1, h2, h3, h4, h5, h6]
    simp only [e1, e2, e3, e4, e5, e6]
    exact congrArg some h.rest.symm

/-! ### the hypotheses of C16 -/

/-- `RefsOK m l`: every resolved reference of the static model and of the live state points
inside its range — exactly the fields that `relModel` / `relLive` touch. -/
structure RefsOK (m : Model) (l : Live) : Prop where
  -- static model
  taskInputs : ∀ t, t < m.nT → ∀ p ∈ (m.task t).inputs, p.1 < m.nT
  taskOutputs : ∀ t, t < m.nT → ∀ p ∈ (m.task t).outputs, p.1 < m.nT
  taskWps : ∀ t, t < m.nT → ∀ q ∈ (m.task t).wps, q < m.nWp
  taskComp : ∀ t, t < m.nT → ∀ c ∈ (m.task t).comp, c < m.nC
  teamTargets : ∀ a, a < m.nTeam → ∀ t ∈ (m.team a).targets, t < m.nT
  wpTargets : ∀ q, q < m.nWp → ∀ t ∈ (m.wp q).targets, t < m.nT
  wpInputs : ∀ q, q < m.nWp → ∀ r ∈ (m.wp q).inputs, r < m.nWp
  wpOutputs : ∀ q, q < m.nWp → ∀ r ∈ (m.wp q).outputs, r < m.nWp
  compTasks : ∀ c, c < m.nC → ∀ t ∈ (m.comp c).tasks, t < m.nT
  compParents : ∀ c, c < m.nC → ∀ d ∈ (m.comp c).parents, d < m.nC
  compChildren : ∀ c, c < m.nC → ∀ d ∈ (m.comp c).children, d < m.nC
  -- live state
  allocW : ∀ t, t < m.nT → ∀ w ∈ l.allocW t, w < m.nW
  allocF : ∀ t, t < m.nT → ∀ f ∈ l.allocF t, f < m.nF
  wasg : ∀ w, w < m.nW → ∀ t ∈ l.wasg w, t < m.nT
  fasg : ∀ f, f < m.nF → ∀ t ∈ l.fasg f, t < m.nT
  placed : ∀ c, c < m.nC → ∀ q ∈ l.placed c, q < m.nWp
  wpComps : ∀ q, q < m.nWp → ∀ c ∈ l.wpComps q, c < m.nC

theorem RefsOK.taskOK {m : Model} {l : Live} (h : RefsOK m l) {t : Nat} (ht : t < m.nT) :
    TaskOK m (m.task t) :=
  ⟨h.taskInputs t ht, h.taskOutputs t ht, h.taskWps t ht, h.taskComp t ht⟩

theorem RefsOK.wpOK {m : Model} {l : Live} (h : RefsOK m l) {q : Nat} (hq : q < m.nWp) :
    WpOK m (m.wp q) :=
  ⟨h.wpTargets q hq, h.wpInputs q hq, h.wpOutputs q hq⟩

theorem RefsOK.compOK {m : Model} {l : Live} (h : RefsOK m l) {c : Nat} (hc : c < m.nC) :
    CompOK m (m.comp c) :=
  ⟨h.compTasks c hc, h.compParents c hc, h.compChildren c hc⟩

/-! ### export, explicitly -/

/-- the saved model: in-range records relabelled -/
def labModel (ids : Ids) (m : Model) : Model :=
  { m with task := fun t => if t < m.nT then labTask ids (m.task t) else m.task t,
           team := fun a => if a < m.nTeam then labTeam ids (m.team a) else m.team a,
           wp := fun q => if q < m.nWp then labWp ids (m.wp q) else m.wp q,
           comp := fun c => if c < m.nC then labComp ids (m.comp c) else m.comp c }

/-- the saved live state: in-range reference fields relabelled -/
def labLive (ids : Ids) (m : Model) (l : Live) : Live :=
  { l with allocW := fun t => if t < m.nT then (l.allocW t).map ids.worker else l.allocW t,
           allocF := fun t => if t < m.nT then (l.allocF t).map ids.fac else l.allocF t,
           wasg := fun w => if w < m.nW then (l.wasg w).map ids.task else l.wasg w,
           fasg := fun f => if f < m.nF then (l.fasg f).map ids.task else l.fasg f,
           placed := fun c => if c < m.nC then (l.placed c).map ids.wp else l.placed c,
           wpComps := fun q => if q < m.nWp then (l.wpComps q).map ids.comp else l.wpComps q }

theorem relM_toMap (ids : Ids) (m : Model) : RelM ids.toMap m (labModel ids m) := by
  refine ⟨⟨rfl, rfl, rfl, rfl, rfl, rfl⟩, rfl, rfl, ?_, ?_, ?_, ?_, ?_, ?_, ?_, ?_⟩
  · intro t ht; simp [labModel, ht, relTask_toMap]
  · intro t ht; simp [labModel, Nat.not_lt.2 ht]
  · intro t ht; simp [labModel, ht, relTeam_toMap]
  · intro t ht; simp [labModel, Nat.not_lt.2 ht]
  · intro t ht; simp [labModel, ht, relWp_toMap]
  · intro t ht; simp [labModel, Nat.not_lt.2 ht]
  · intro t ht; simp [labModel, ht, relComp_toMap]
  · intro t ht; simp [labModel, Nat.not_lt.2 ht]

theorem relL_toMap (ids : Ids) (m : Model) (l : Live) : RelL ids.toMap m l (labLive ids m l) := by
  refine ⟨?_, ?_, ?_, ?_, ?_, ?_, ?_, ?_, ?_, ?_, ?_, ?_, rfl⟩
  · intro t ht; simp [labLive, ht, Ids.toMap, mapRefs_label]
  · intro t ht; simp [labLive, Nat.not_lt.2 ht]
  · intro t ht; simp [labLive, ht, Ids.toMap, mapRefs_label]
  · intro t ht; simp [labLive, Nat.not_lt.2 ht]
  · intro t ht; simp [labLive, ht, Ids.toMap, mapRefs_label]
  · intro t ht; simp [labLive, Nat.not_lt.2 ht]
  · intro t ht; simp [labLive, ht, Ids.toMap, mapRefs_label]
  · intro t ht; simp [labLive, Nat.not_lt.2 ht]
  · intro t ht; simp [labLive, ht, Ids.toMap, mapOptRef_label]
  · intro t ht; simp [labLive, Nat.not_lt.2 ht]
  · intro t ht; simp [labLive, ht, Ids.toMap, mapRefs_label]
  · intro t ht; simp [labLive, Nat.not_lt.2 ht]

/-- `write_simple_json` never fails, and this is what it writes -/
theorem exportP_eq (ids : Ids) (m : Model) (s : St) :
    exportP ids m s = some (labModel ids m, { s with live := labLive ids m s.live }) := by
  unfold exportP
  rw [(relModel_iff _ _ _).2 (relM_toMap ids m), (relLive_iff _ _ _ _).2 (relL_toMap ids m s.live)]

theorem exportP_iff (ids : Ids) (m : Model) (s : St) (sm : Model) (ss : St) :
    exportP ids m s = some (sm, ss) ↔
      RelM ids.toMap m sm ∧ RelL ids.toMap m s.live ss.live ∧ ss = { s with live := ss.live } := by
  unfold exportP
  constructor
  · intro h
    split at h
    · rename_i m' l' h1 h2
      simp at h
      obtain ⟨rfl, rfl⟩ := h
      exact ⟨(relModel_iff _ _ _).1 h1, (relLive_iff _ _ _ _).1 h2, rfl⟩
    · simp at h
  · intro ⟨h1, h2, h3⟩
    rw [(relModel_iff _ _ _).2 h1, (relLive_iff _ _ _ _).2 h2]
    simp
    exact h3.symm

theorem importP_iff (ids : Ids) (sm : Model) (ss : St) (m' : Model) (s' : St) :
    importP ids sm ss = some (m', s') ↔
      RelM (ids.fromMap sm) sm m' ∧ RelL (ids.fromMap sm) sm ss.live s'.live ∧
        s' = { ss with live := s'.live } := by
  unfold importP
  constructor
  · intro h
    split at h
    · rename_i m'' l' h1 h2
      simp at h
      obtain ⟨rfl, rfl⟩ := h
      exact ⟨(relModel_iff _ _ _).1 h1, (relLive_iff _ _ _ _).1 h2, rfl⟩
    · simp at h
  · intro ⟨h1, h2, h3⟩
    rw [(relModel_iff _ _ _).2 h1, (relLive_iff _ _ _ _).2 h2]
    simp
    exact h3.symm

/-! ### the two round trips on `RelM` / `RelL` -/

/-- anything related to `m` by the export map is the explicit saved model -/
theorem relM_toMap_unique {ids : Ids} {m sm : Model} (h : RelM ids.toMap m sm) :
    sm = labModel ids m := by
  have := (relModel_iff _ _ _).2 h
  rw [(relModel_iff _ _ _).2 (relM_toMap ids m)] at this
  exact (Option.some.inj this).symm

/-- load ∘ save, static part -/
theorem relM_back {ids : Ids} {m sm : Model} {l : Live} {g : RefMap} (hg : Inverts ids m g)
    (ok : RefsOK m l) (h : RelM ids.toMap m sm) : RelM g sm m := by
  have hs := h.sizes
  refine ⟨hs.symm, h.worker.symm, h.fac.symm, ?_, ?_, ?_, ?_, ?_, ?_, ?_, ?_⟩
  · intro t ht
    rw [hs.nT] at ht
    have := h.task t ht
    rw [relTask_toMap] at this
    rw [← Option.some.inj this]
    exact relTask_lab hg (ok.taskOK ht)
  · intro t ht; rw [hs.nT] at ht; exact (h.taskOut t ht).symm
  · intro t ht
    rw [hs.nTeam] at ht
    have := h.team t ht
    rw [relTeam_toMap] at this
    rw [← Option.some.inj this]
    exact relTeam_lab hg (ok.teamTargets t ht)
  · intro t ht; rw [hs.nTeam] at ht; exact (h.teamOut t ht).symm
  · intro t ht
    rw [hs.nWp] at ht
    have := h.wp t ht
    rw [relWp_toMap] at this
    rw [← Option.some.inj this]
    exact relWp_lab hg (ok.wpOK ht)
  · intro t ht; rw [hs.nWp] at ht; exact (h.wpOut t ht).symm
  · intro t ht
    rw [hs.nC] at ht
    have := h.comp t ht
    rw [relComp_toMap] at this
    rw [← Option.some.inj this]
    exact relComp_lab hg (ok.compOK ht)
  · intro t ht; rw [hs.nC] at ht; exact (h.compOut t ht).symm

theorem live_rest_symm {l l' : Live}
    (h : l' = { l with allocW := l'.allocW, allocF := l'.allocF, wasg := l'.wasg, fasg := l'.fasg,
                       placed := l'.placed, wpComps := l'.wpComps }) :
    l = { l' with allocW := l.allocW, allocF := l.allocF, wasg := l.wasg, fasg := l.fasg,
                  placed := l.placed, wpComps := l.wpComps } := by
  cases l; cases l'
  simp at h ⊢
  simp [h]

/-- load ∘ save, live part -/
theorem relL_back {ids : Ids} {m sm : Model} {l sl : Live} {g : RefMap} (hg : Inverts ids m g)
    (hs : SameSizes m sm) (ok : RefsOK m l) (h : RelL ids.toMap m l sl) : RelL g sm sl l := by
  have back : ∀ {f : Nat → Option Nat} {lab : Nat → Nat} {xs ys : List Nat},
      mapRefs (fun i => some (lab i)) xs = some ys → (∀ x ∈ xs, f (lab x) = some x) →
      mapRefs f ys = some xs := by
    intro f lab xs ys h1 h2
    rw [mapRefs_label] at h1
    rw [← Option.some.inj h1]
    exact mapRefs_map h2
  refine ⟨?_, ?_, ?_, ?_, ?_, ?_, ?_, ?_, ?_, ?_, ?_, ?_, live_rest_symm h.rest⟩
  · intro t ht; rw [hs.nT] at ht
    exact back (h.allocW t ht) fun x hx => hg.worker _ (ok.allocW t ht x hx)
  · intro t ht; rw [hs.nT] at ht; exact (h.allocWOut t ht).symm
  · intro t ht; rw [hs.nT] at ht
    exact back (h.allocF t ht) fun x hx => hg.fac _ (ok.allocF t ht x hx)
  · intro t ht; rw [hs.nT] at ht; exact (h.allocFOut t ht).symm
  · intro t ht; rw [hs.nW] at ht
    exact back (h.wasg t ht) fun x hx => hg.task _ (ok.wasg t ht x hx)
  · intro t ht; rw [hs.nW] at ht; exact (h.wasgOut t ht).symm
  · intro t ht; rw [hs.nF] at ht
    exact back (h.fasg t ht) fun x hx => hg.task _ (ok.fasg t ht x hx)
  · intro t ht; rw [hs.nF] at ht; exact (h.fasgOut t ht).symm
  · intro t ht; rw [hs.nC] at ht
    have h1 := h.placed t ht
    simp only [Ids.toMap] at h1
    rw [mapOptRef_label] at h1
    rw [← Option.some.inj h1]
    exact mapOptRef_map fun x hx => hg.wp _ (ok.placed t ht x hx)
  · intro t ht; rw [hs.nC] at ht; exact (h.placedOut t ht).symm
  · intro t ht; rw [hs.nWp] at ht
    exact back (h.wpComps t ht) fun x hx => hg.comp _ (ok.wpComps t ht x hx)
  · intro t ht; rw [hs.nWp] at ht; exact (h.wpCompsOut t ht).symm

/-- save ∘ load, static part (no uniqueness needed), and the loaded references are in range -/
theorem relM_forth {ids : Ids} {sm m' : Model} {g : RefMap} (hg : Sound ids sm g)
    (h : RelM g sm m') : RelM ids.toMap m' sm := by
  have hs := h.sizes
  refine ⟨hs.symm, h.worker.symm, h.fac.symm, ?_, ?_, ?_, ?_, ?_, ?_, ?_, ?_⟩
  · intro t ht; rw [hs.nT] at ht
    rw [relTask_toMap, (relTask_sound hg (h.task t ht)).1]
  · intro t ht; rw [hs.nT] at ht; exact (h.taskOut t ht).symm
  · intro t ht; rw [hs.nTeam] at ht
    rw [relTeam_toMap, (relTeam_sound hg (h.team t ht)).1]
  · intro t ht; rw [hs.nTeam] at ht; exact (h.teamOut t ht).symm
  · intro t ht; rw [hs.nWp] at ht
    rw [relWp_toMap, (relWp_sound hg (h.wp t ht)).1]
  · intro t ht; rw [hs.nWp] at ht; exact (h.wpOut t ht).symm
  · intro t ht; rw [hs.nC] at ht
    rw [relComp_toMap, (relComp_sound hg (h.comp t ht)).1]
  · intro t ht; rw [hs.nC] at ht; exact (h.compOut t ht).symm

/-- save ∘ load, live part -/
theorem relL_forth {ids : Ids} {sm m' : Model} {sl l' : Live} {g : RefMap} (hg : Sound ids sm g)
    (hs : SameSizes sm m') (h : RelL g sm sl l') : RelL ids.toMap m' l' sl := by
  have forth : ∀ {f : Nat → Option Nat} {lab : Nat → Nat} {xs ys : List Nat},
      mapRefs f xs = some ys → (∀ x i, f x = some i → lab i = x) →
      mapRefs (fun i => some (lab i)) ys = some xs := by
    intro f lab xs ys h1 h2
    rw [mapRefs_label, mapRefs_sound h2 h1]
  refine ⟨?_, ?_, ?_, ?_, ?_, ?_, ?_, ?_, ?_, ?_, ?_, ?_, live_rest_symm h.rest⟩
  · intro t ht; rw [hs.nT] at ht
    exact forth (h.allocW t ht) fun x i e => (hg.worker x i e).2
  · intro t ht; rw [hs.nT] at ht; exact (h.allocWOut t ht).symm
  · intro t ht; rw [hs.nT] at ht
    exact forth (h.allocF t ht) fun x i e => (hg.fac x i e).2
  · intro t ht; rw [hs.nT] at ht; exact (h.allocFOut t ht).symm
  · intro t ht; rw [hs.nW] at ht
    exact forth (h.wasg t ht) fun x i e => (hg.task x i e).2
  · intro t ht; rw [hs.nW] at ht; exact (h.wasgOut t ht).symm
  · intro t ht; rw [hs.nF] at ht
    exact forth (h.fasg t ht) fun x i e => (hg.task x i e).2
  · intro t ht; rw [hs.nF] at ht; exact (h.fasgOut t ht).symm
  · intro t ht; rw [hs.nC] at ht
    simp only [Ids.toMap]
    rw [mapOptRef_label, mapOptRef_sound (fun x i e => (hg.wp x i e).2) (h.placed t ht)]
  · intro t ht; rw [hs.nC] at ht; exact (h.placedOut t ht).symm
  · intro t ht; rw [hs.nWp] at ht
    exact forth (h.wpComps t ht) fun x i e => (hg.comp x i e).2
  · intro t ht; rw [hs.nWp] at ht; exact (h.wpCompsOut t ht).symm

/-- every loaded reference is in range (needs only soundness of the map) -/
theorem refsOK_of_rel {ids : Ids} {sm m' : Model} {sl l' : Live} {g : RefMap}
    (hg : Sound ids sm g) (hm : RelM g sm m') (hl : RelL g sm sl l') : RefsOK m' l' := by
  have hs := hm.sizes
  have mem : ∀ {f : Nat → Option Nat} {xs ys : List Nat} {n : Nat} {lab : Nat → Nat},
      mapRefs f xs = some ys → (∀ x i, f x = some i → i < n ∧ lab i = x) → ∀ y ∈ ys, y < n := by
    intro f xs ys n lab h1 h2 y hy
    obtain ⟨x, _, hx⟩ := mapRefs_mem h1 y hy
    exact (h2 x y hx).1
  constructor
  · intro t ht; rw [hs.nT] at ht ⊢; exact (relTask_sound hg (hm.task t ht)).2.inputs
  · intro t ht; rw [hs.nT] at ht ⊢; exact (relTask_sound hg (hm.task t ht)).2.outputs
  · intro t ht; rw [hs.nT] at ht; rw [hs.nWp]; exact (relTask_sound hg (hm.task t ht)).2.wps
  · intro t ht; rw [hs.nT] at ht; rw [hs.nC]; exact (relTask_sound hg (hm.task t ht)).2.comp
  · intro t ht; rw [hs.nTeam] at ht; rw [hs.nT]; exact (relTeam_sound hg (hm.team t ht)).2
  · intro t ht; rw [hs.nWp] at ht; rw [hs.nT]; exact (relWp_sound hg (hm.wp t ht)).2.targets
  · intro t ht; rw [hs.nWp] at ht ⊢; exact (relWp_sound hg (hm.wp t ht)).2.inputs
  · intro t ht; rw [hs.nWp] at ht ⊢; exact (relWp_sound hg (hm.wp t ht)).2.outputs
  · intro t ht; rw [hs.nC] at ht; rw [hs.nT]; exact (relComp_sound hg (hm.comp t ht)).2.tasks
  · intro t ht; rw [hs.nC] at ht ⊢; exact (relComp_sound hg (hm.comp t ht)).2.parents
  · intro t ht; rw [hs.nC] at ht ⊢; exact (relComp_sound hg (hm.comp t ht)).2.children
  · intro t ht; rw [hs.nT] at ht; rw [hs.nW]; exact mem (hl.allocW t ht) hg.worker
  · intro t ht; rw [hs.nT] at ht; rw [hs.nF]; exact mem (hl.allocF t ht) hg.fac
  · intro t ht; rw [hs.nW] at ht; rw [hs.nT]; exact mem (hl.wasg t ht) hg.task
  · intro t ht; rw [hs.nF] at ht; rw [hs.nT]; exact mem (hl.fasg t ht) hg.task
  · intro t ht; rw [hs.nC] at ht; rw [hs.nWp]
    intro y hy
    obtain ⟨x, _, hx⟩ := mapOptRef_mem (hl.placed t ht) y hy
    exact (hg.wp x y hx).1
  · intro t ht; rw [hs.nWp] at ht; rw [hs.nC]; exact mem (hl.wpComps t ht) hg.comp

theorem Sound.congr {ids : Ids} {m m' : Model} {g : RefMap} (h : SameSizes m m')
    (s : Sound ids m g) : Sound ids m' g := by
  constructor
  · rw [h.nT]; exact s.task
  · rw [h.nW]; exact s.worker
  · rw [h.nF]; exact s.fac
  · rw [h.nTeam]; exact s.team
  · rw [h.nWp]; exact s.wp
  · rw [h.nC]; exact s.comp

end PDesy.PersistL
