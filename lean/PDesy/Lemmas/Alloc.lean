/-
  PDesy.Lemmas.Alloc — helper lemmas for C03 (allocation exclusive and two-way consistent).
  Per-phase preservation of `AllocInv`, `HoldWorking`, `ResInv`.
-/
import PDesy.Lemmas.Defs

namespace PDesy

/-! ### sorting and filtering keep members and duplicate-freeness -/

theorem Alloc.insertBy_perm {α : Type} (le : α → α → Bool) (x : α) (l : List α) :
    (insertBy le x l).Perm (x :: l) := by
  induction l with
  | nil => simp [insertBy]
  | cons y ys ih =>
    simp only [insertBy]
    split
    · exact List.Perm.refl _
    · exact (List.Perm.cons y ih).trans (List.Perm.swap x y ys)

theorem Alloc.sortBy_perm {α : Type} (le : α → α → Bool) (l : List α) :
    (sortBy le l).Perm l := by
  induction l with
  | nil => simp [sortBy]
  | cons x xs ih =>
    simp only [sortBy]
    exact (Alloc.insertBy_perm le x _).trans (List.Perm.cons x ih)

theorem Alloc.mem_sortBy {α : Type} (le : α → α → Bool) (l : List α) (x : α) :
    x ∈ sortBy le l ↔ x ∈ l := (Alloc.sortBy_perm le l).mem_iff

theorem Alloc.nodup_sortBy {α : Type} (le : α → α → Bool) (l : List α) :
    (sortBy le l).Nodup ↔ l.Nodup := (Alloc.sortBy_perm le l).nodup_iff


theorem Alloc.nodup_filter {α : Type} (p : α → Bool) {l : List α} (h : l.Nodup) :
    (l.filter p).Nodup := h.sublist List.filter_sublist

/-! ### frame lemmas -/

theorem AllocInv.frame {m : Model} {l l' : Live} (h : AllocInv m l)
    (hW : l'.allocW = l.allocW) (hF : l'.allocF = l.allocF)
    (hwa : l'.wasg = l.wasg) (hfa : l'.fasg = l.fasg)
    (hts : ∀ t, (l.tstate t = .ready ∨ l.tstate t = .working) →
      (l'.tstate t = .ready ∨ l'.tstate t = .working)) : AllocInv m l' := by
  constructor
  · rw [hW, hwa]; exact h.w_two
  · rw [hF, hfa]; exact h.f_two
  · rw [hwa]; exact h.w_excl
  · rw [hfa]; exact h.f_excl
  · rw [hW]; exact h.w_nodup
  · rw [hF]; exact h.f_nodup
  · rw [hF]; exact h.fac_only
  · rw [hW, hF]; intro t ht; exact hts t (h.holder t ht)

theorem HoldWorking.frame {l l' : Live} (h : HoldWorking l)
    (hW : l'.allocW = l.allocW) (hF : l'.allocF = l.allocF)
    (hts : ∀ t, l.tstate t = .working → l'.tstate t = .working) : HoldWorking l' := by
  intro t ht
  rw [hW, hF] at ht
  exact hts t (h t ht)

theorem ResInv.frame {m : Model} {time : Nat} {wk : Bool} {l l' : Live} (h : ResInv m time wk l)
    (hws : l'.wstate = l.wstate) (hfs : l'.fstate = l.fstate)
    (hwa : l'.wasg = l.wasg) (hfa : l'.fasg = l.fasg) : ResInv m time wk l' := by
  unfold ResInv; rw [hws, hfs, hwa, hfa]; exact h

/-! compCheck -/
theorem compCheck_AllocInv {m : Model} {l : Live} (h : AllocInv m l) : AllocInv m (compCheck m l) :=
  h.frame rfl rfl rfl rfl (fun _ h => h)
theorem compCheck_HoldWorking {m : Model} {l : Live} (h : HoldWorking l) : HoldWorking (compCheck m l) :=
  h.frame rfl rfl (fun _ h => h)
theorem compCheck_ResInv {m : Model} {time : Nat} {wk : Bool} {l : Live} (h : ResInv m time wk l) :
    ResInv m time wk (compCheck m l) := h.frame rfl rfl rfl rfl

theorem perform_AllocInv {m : Model} {wk af : Bool} {l : Live} (h : AllocInv m l) :
    AllocInv m (perform m wk af l) := h.frame rfl rfl rfl rfl (fun _ h => h)
theorem perform_HoldWorking {m : Model} {wk af : Bool} {l : Live} (h : HoldWorking l) :
    HoldWorking (perform m wk af l) := h.frame rfl rfl (fun _ h => h)
theorem perform_ResInv {m : Model} {time : Nat} {wk wk' af : Bool} {l : Live} (h : ResInv m time wk l) :
    ResInv m time wk (perform m wk' af l) := h.frame rfl rfl rfl rfl

theorem pert_AllocInv {m : Model} {time : Nat} {l : Live} (h : AllocInv m l) :
    AllocInv m (pert m time l) := h.frame rfl rfl rfl rfl (fun _ h => h)
theorem pert_HoldWorking {m : Model} {time : Nat} {l : Live} (h : HoldWorking l) :
    HoldWorking (pert m time l) := h.frame rfl rfl (fun _ h => h)

theorem absenceSet_AllocInv {m : Model} {time : Nat} {wk : Bool} {l : Live} (h : AllocInv m l) :
    AllocInv m (absenceSet m time wk l) := h.frame rfl rfl rfl rfl (fun _ h => h)
theorem absenceSet_HoldWorking {m : Model} {time : Nat} {wk : Bool} {l : Live} (h : HoldWorking l) :
    HoldWorking (absenceSet m time wk l) := h.frame rfl rfl (fun _ h => h)
theorem absenceSet_ResInv (m : Model) (time : Nat) (wk : Bool) (l : Live) :
    ResInv m time wk (absenceSet m time wk l) := by
  constructor
  · intro w hw; simp [absenceSet, hw]
  · intro f hf; simp [absenceSet, hf]

/-! chkRemove -/
theorem Alloc.foldl_removeOne_frame (cs : List Nat) (l : Live) :
    let r := cs.foldl removeOne l
    r.allocW = l.allocW ∧ r.allocF = l.allocF ∧ r.wasg = l.wasg ∧ r.fasg = l.fasg ∧
    r.tstate = l.tstate ∧ r.wstate = l.wstate ∧ r.fstate = l.fstate := by
  induction cs generalizing l with
  | nil => simp
  | cons c cs ih =>
    simp only [List.foldl_cons]
    have := ih (removeOne l c)
    have h2 : (removeOne l c).allocW = l.allocW ∧ (removeOne l c).allocF = l.allocF ∧
        (removeOne l c).wasg = l.wasg ∧ (removeOne l c).fasg = l.fasg ∧
        (removeOne l c).tstate = l.tstate ∧ (removeOne l c).wstate = l.wstate ∧
        (removeOne l c).fstate = l.fstate := by
      unfold removeOne; split <;> simp
    simp only at this
    grind

theorem chkRemove_AllocInv {m : Model} {l : Live} (h : AllocInv m l) : AllocInv m (chkRemove m l) := by
  have := Alloc.foldl_removeOne_frame ((List.range m.nC).filter (removeCand m l)) l
  simp only at this
  apply h.frame <;> simp [chkRemove, chkRemoveOrd, this]
theorem chkRemove_HoldWorking {m : Model} {l : Live} (h : HoldWorking l) : HoldWorking (chkRemove m l) := by
  have := Alloc.foldl_removeOne_frame ((List.range m.nC).filter (removeCand m l)) l
  simp only at this
  apply h.frame <;> simp [chkRemove, chkRemoveOrd, this]

/-! chkReady -/
theorem chkReady_AllocInv {m : Model} {l : Live} (h : AllocInv m l) : AllocInv m (chkReady m l) := by
  refine h.frame (l' := chkReady m l) rfl rfl rfl rfl ?_
  intro t ht
  simp only [chkReady, tabN_eq]
  split
  · simp
  · exact ht
theorem chkReady_HoldWorking {m : Model} {l : Live} (h : HoldWorking l) : HoldWorking (chkReady m l) := by
  refine h.frame (l' := chkReady m l) rfl rfl ?_
  intro t ht
  simp [chkReady, ht]

/-! ### check_state(FINISHED) -/

theorem AllocInv.wasg_eq {m : Model} {l : Live} (h : AllocInv m l) {t w : Nat}
    (hw : w ∈ l.allocW t) : l.wasg w = [t] := by
  have h1 := (h.w_two t w).mp hw
  have h2 := h.w_excl w
  match hl : l.wasg w, h1, h2 with
  | [a], h1, _ => simp at h1; simp [h1]
  | [], h1, _ => simp at h1
  | _ :: _ :: _, _, h2 => simp at h2

theorem AllocInv.fasg_eq {m : Model} {l : Live} (h : AllocInv m l) {t f : Nat}
    (hf : f ∈ l.allocF t) : l.fasg f = [t] := by
  have h1 := (h.f_two t f).mp hf
  have h2 := h.f_excl f
  match hl : l.fasg f, h1, h2 with
  | [a], h1, _ => simp at h1; simp [h1]
  | [], h1, _ => simp at h1
  | _ :: _ :: _, _, h2 => simp at h2

theorem Alloc.foldl_releaseW_eq (t : Nat) (ws : List Nat) (l : Live)
    (hnd : ws.Nodup) (hasg : ∀ w ∈ ws, l.wasg w = [t]) (hfin : l.tstate t = .finished) :
    ws.foldl (releaseW t) l =
      { l with wstate := fun w => if w ∈ ws then .free else l.wstate w,
               wasg := fun w => if w ∈ ws then [] else l.wasg w } := by
  induction ws generalizing l with
  | nil => simp
  | cons w ws ih =>
    have hw : l.wasg w = [t] := hasg w (by simp)
    have h1 : releaseW t l w = { l with wstate := upd l.wstate w .free, wasg := upd l.wasg w [] } := by
      simp [releaseW, hw, hfin]
    have hnd' := List.nodup_cons.mp hnd
    rw [List.foldl_cons, h1, ih _ hnd'.2]
    · simp only [Live.mk.injEq, true_and, and_true]
      constructor <;> funext w' <;> by_cases hw' : w' = w <;> simp [hw']
    · intro w' hw'
      have : w' ≠ w := by rintro rfl; exact hnd'.1 hw'
      simp [this, hasg w' (by simp [hw'])]
    · exact hfin

theorem Alloc.foldl_releaseF_eq (t : Nat) (fs : List Nat) (l : Live)
    (hnd : fs.Nodup) (hasg : ∀ f ∈ fs, l.fasg f = [t]) (hfin : l.tstate t = .finished) :
    fs.foldl (releaseF t) l =
      { l with fstate := fun f => if f ∈ fs then .free else l.fstate f,
               fasg := fun f => if f ∈ fs then [] else l.fasg f } := by
  induction fs generalizing l with
  | nil => simp
  | cons w ws ih =>
    have hw : l.fasg w = [t] := hasg w (by simp)
    have h1 : releaseF t l w = { l with fstate := upd l.fstate w .free, fasg := upd l.fasg w [] } := by
      simp [releaseF, hw, hfin]
    have hnd' := List.nodup_cons.mp hnd
    rw [List.foldl_cons, h1, ih _ hnd'.2]
    · simp only [Live.mk.injEq, true_and, and_true]
      constructor <;> funext w' <;> by_cases hw' : w' = w <;> simp [hw']
    · intro w' hw'
      have : w' ≠ w := by rintro rfl; exact hnd'.1 hw'
      simp [this, hasg w' (by simp [hw'])]
    · exact hfin

/-- what `finishOne` does to a state satisfying `AllocInv` -/
theorem Alloc.finishOne_eq {m : Model} {l : Live} (h : AllocInv m l) (t : Nat) :
    finishOne m l t =
      { l with tstate := upd l.tstate t .finished, rem := upd l.rem t 0,
               allocW := upd l.allocW t [], allocF := upd l.allocF t [],
               wstate := fun w => if w ∈ l.allocW t then .free else l.wstate w,
               wasg := fun w => if w ∈ l.allocW t then [] else l.wasg w,
               fstate := fun f => if f ∈ l.allocF t then .free else l.fstate f,
               fasg := fun f => if f ∈ l.allocF t then [] else l.fasg f } := by
  unfold finishOne
  extract_lets l1 l2 l3 l4
  have e2 : l2 = _ := Alloc.foldl_releaseW_eq t _ l1 (h.w_nodup t) (fun w hw => h.wasg_eq hw) (by simp [l1])
  by_cases hn : (m.task t).needFac = true
  · simp only [hn, if_true]
    have hF3 : l3.allocF = l.allocF := by simp [l3, e2, l1]
    have hA3 : l3.fasg = l.fasg := by simp [l3, e2, l1]
    have e4 : l4 = _ := Alloc.foldl_releaseF_eq t _ l3 (by rw [hF3]; exact h.f_nodup t)
      (fun f hf => by rw [hF3] at hf; rw [hA3]; exact h.fasg_eq hf) (by simp [l3, e2, l1])
    rw [e4]; simp [l3, e2, l1]
  · have he : l.allocF t = [] := by
      by_cases he : l.allocF t = []
      · exact he
      · exact absurd (h.fac_only t he) hn
    simp only [hn]
    simp [l3, e2, l1, he]
    funext t'; by_cases ht : t' = t <;> simp [ht, he]

theorem finishOne_AllocInv {m : Model} {l : Live} (h : AllocInv m l) (t : Nat) :
    AllocInv m (finishOne m l t) := by
  rw [Alloc.finishOne_eq h]
  constructor
  · intro t' w
    simp only [upd_apply]
    by_cases ht : t' = t
    · subst ht
      by_cases hw : w ∈ l.allocW t'
      · simp [hw]
      · simp [hw, ← h.w_two]
    · by_cases hw : w ∈ l.allocW t
      · have := h.wasg_eq hw
        simp [ht, hw, h.w_two, this]
      · simp [ht, hw, h.w_two]
  · intro t' w
    simp only [upd_apply]
    by_cases ht : t' = t
    · subst ht
      by_cases hw : w ∈ l.allocF t'
      · simp [hw]
      · simp [hw, ← h.f_two]
    · by_cases hw : w ∈ l.allocF t
      · have := h.fasg_eq hw
        simp [ht, hw, h.f_two, this]
      · simp [ht, hw, h.f_two]
  · intro w; simp only; split
    · simp
    · exact h.w_excl w
  · intro w; simp only; split
    · simp
    · exact h.f_excl w
  · intro t'; simp only [upd_apply]; split
    · simp
    · exact h.w_nodup t'
  · intro t'; simp only [upd_apply]; split
    · simp
    · exact h.f_nodup t'
  · intro t'; simp only [upd_apply]; split
    · simp
    · exact h.fac_only t'
  · intro t'; simp only [upd_apply]
    by_cases ht : t' = t
    · simp [ht]
    · simp only [ht, if_false]; exact h.holder t'

theorem finishOne_HoldWorking {m : Model} {l : Live} (h : AllocInv m l) (hw : HoldWorking l) (t : Nat) :
    HoldWorking (finishOne m l t) := by
  rw [Alloc.finishOne_eq h]
  intro t'; simp only [upd_apply]
  by_cases ht : t' = t
  · simp [ht]
  · simp only [ht, if_false]; exact hw t'

/-- anything preserved by `finishOne` is preserved by `check_state(FINISHED)` -/
theorem Alloc.chkFinishedOrd_ind {m : Model} (P : Live → Prop)
    (hone : ∀ l t, P l → P (finishOne m l t)) (order : List Nat) (l : Live) (h : P l) :
    P (chkFinishedOrd m order l) := by
  have hpass : ∀ l, P l → P (finishPass m order l) := by
    intro l hl
    unfold finishPass
    generalize order = o
    induction o generalizing l with
    | nil => exact hl
    | cons t ts ih =>
      simp only [List.foldl_cons]
      apply ih
      split
      · exact hone _ _ hl
      · exact hl
  have hcl : ∀ fuel l, P l → P (finishClosure m order fuel l) := by
    intro fuel
    induction fuel with
    | zero => intro l hl; exact hl
    | succ n ih =>
      intro l hl
      simp only [finishClosure]
      split
      · exact hpass _ hl
      · exact ih _ (hpass _ hl)
  have : chkFinishedOrd m order l = finishClosure m order (m.nT + 1) l := by
    simp [chkFinishedOrd]
  rw [this]; exact hcl _ _ h

theorem Alloc.chkFinished_ind {m : Model} (P : Live → Prop)
    (hone : ∀ l t, P l → P (finishOne m l t)) (l : Live) (h : P l) : P (chkFinished m l) :=
  Alloc.chkFinishedOrd_ind P hone _ l h

theorem chkFinished_AllocInv {m : Model} {l : Live} (h : AllocInv m l) : AllocInv m (chkFinished m l) :=
  Alloc.chkFinished_ind (AllocInv m) (fun _ t hl => finishOne_AllocInv hl t) l h

theorem chkFinished_HoldWorking {m : Model} {l : Live} (h : AllocInv m l) (hw : HoldWorking l) :
    HoldWorking (chkFinished m l) :=
  (Alloc.chkFinished_ind (fun l => AllocInv m l ∧ HoldWorking l)
    (fun _ t hl => ⟨finishOne_AllocInv hl.1 t, finishOne_HoldWorking hl.1 hl.2 t⟩) l ⟨h, hw⟩).2

/-- `check_state(FINISHED)` only ever removes assignments -/
theorem Alloc.chkFinished_asg_sub {m : Model} {l : Live} (h : AllocInv m l) :
    (∀ w t, t ∈ (chkFinished m l).wasg w → t ∈ l.wasg w) ∧
    (∀ f t, t ∈ (chkFinished m l).fasg f → t ∈ l.fasg f) ∧
    (∀ t w, w ∈ (chkFinished m l).allocW t → w ∈ l.allocW t) ∧
    (∀ t f, f ∈ (chkFinished m l).allocF t → f ∈ l.allocF t) := by
  refine (Alloc.chkFinished_ind (fun l' => AllocInv m l' ∧
    (∀ w t, t ∈ l'.wasg w → t ∈ l.wasg w) ∧
    (∀ f t, t ∈ l'.fasg f → t ∈ l.fasg f) ∧
    (∀ t w, w ∈ l'.allocW t → w ∈ l.allocW t) ∧
    (∀ t f, f ∈ l'.allocF t → f ∈ l.allocF t)) ?_ l ⟨h, by simp⟩).2
  rintro l' t ⟨hi, h1, h2, h3, h4⟩
  refine ⟨finishOne_AllocInv hi t, ?_⟩
  rw [Alloc.finishOne_eq hi]
  refine ⟨?_, ?_, ?_, ?_⟩
  · intro w t'; simp only; split
    · simp
    · exact h1 w t'
  · intro w t'; simp only; split
    · simp
    · exact h2 w t'
  · intro t' w; simp only [upd_apply]; split
    · simp
    · exact h3 t' w
  · intro t' w; simp only [upd_apply]; split
    · simp
    · exact h4 t' w

/-! ### allocate -/

theorem Alloc.canAdd_state {m : Model} {l : Live} {t : Nat} {w f : Option Nat}
    (h : canAdd m l t w f = true) : l.tstate t = .ready ∨ l.tstate t = .working := by
  unfold canAdd at h
  split at h
  · simp at h
  · rename_i h1
    cases hs : l.tstate t <;> simp [hs] at h1 ⊢

theorem Alloc.canAdd_fac {m : Model} {l : Live} {t : Nat} {w : Option Nat} {f : Nat}
    (h : canAdd m l t w (some f) = true) : l.fasg f = [] := by
  cases hf : l.fasg f with
  | nil => rfl
  | cons a as =>
    have : canAdd m l t w (some f) = false := by
      unfold canAdd; simp [hf]
    rw [this] at h; cases h

theorem giveW_AllocInv {m : Model} {l : Live} {t w : Nat} (h : AllocInv m l)
    (hw : l.wasg w = []) (hs : l.tstate t = .ready ∨ l.tstate t = .working) :
    AllocInv m (giveW l t w) := by
  have hnot : ∀ t', w ∉ l.allocW t' := by
    intro t' hm; have := (h.w_two t' w).mp hm; simp [hw] at this
  constructor
  · intro t' w'
    simp only [giveW, upd_apply]
    by_cases ht : t' = t <;> by_cases hw' : w' = w
    · simp [ht, hw']
    · subst ht; simp [hw', h.w_two]
    · subst hw'; simp [ht, hw, hnot t']
    · simp [ht, hw', h.w_two]
  · exact h.f_two
  · intro w'; simp only [giveW, upd_apply]; split
    · simp [hw]
    · exact h.w_excl w'
  · exact h.f_excl
  · intro t'; simp only [giveW, upd_apply]; split
    · rw [List.nodup_append]
      refine ⟨h.w_nodup t, by simp, ?_⟩
      intro a ha b hb; simp at hb; subst hb; rintro rfl; exact hnot t ha
    · exact h.w_nodup t'
  · exact h.f_nodup
  · exact h.fac_only
  · intro t'; simp only [giveW, upd_apply]
    by_cases ht : t' = t
    · subst ht; intro _; exact hs
    · simp only [ht, if_false]; exact h.holder t'

theorem giveF_AllocInv {m : Model} {l : Live} {t f : Nat} (h : AllocInv m l)
    (hf : l.fasg f = []) (hs : l.tstate t = .ready ∨ l.tstate t = .working)
    (hn : (m.task t).needFac = true) :
    AllocInv m (giveF l t f) := by
  have hnot : ∀ t', f ∉ l.allocF t' := by
    intro t' hm; have := (h.f_two t' f).mp hm; simp [hf] at this
  constructor
  · exact h.w_two
  · intro t' w'
    simp only [giveF, upd_apply]
    by_cases ht : t' = t <;> by_cases hw' : w' = f
    · simp [ht, hw']
    · subst ht; simp [hw', h.f_two]
    · subst hw'; simp [ht, hf, hnot t']
    · simp [ht, hw', h.f_two]
  · exact h.w_excl
  · intro w'; simp only [giveF, upd_apply]; split
    · simp [hf]
    · exact h.f_excl w'
  · exact h.w_nodup
  · intro t'; simp only [giveF, upd_apply]; split
    · rw [List.nodup_append]
      refine ⟨h.f_nodup t, by simp, ?_⟩
      intro a ha b hb; simp at hb; subst hb; rintro rfl; exact hnot t ha
    · exact h.f_nodup t'
  · intro t'; simp only [giveF, upd_apply]
    by_cases ht : t' = t
    · subst ht; intro _; exact hn
    · simp only [ht, if_false]; exact h.fac_only t'
  · intro t'; simp only [giveF, upd_apply]
    by_cases ht : t' = t
    · subst ht; intro _; exact hs
    · simp only [ht, if_false]; exact h.holder t'

/-- Invariant of the accumulator (live state `l`, free-worker list `free`) of the allocation
loop, relative to the state `l0` on which `allocate` was entered. -/
structure AccInv (m : Model) (l0 : Live) (l : Live) (free : List Nat) : Prop where
  inv : AllocInv m l
  ts : l.tstate = l0.tstate
  ws : l.wstate = l0.wstate
  fs : l.fstate = l0.fstate
  free_asg : ∀ w ∈ free, l.wasg w = []
  free_nodup : free.Nodup
  free_src : ∀ w ∈ free, w < m.nW ∧ l0.wstate w = .free
  wch : ∀ w, l.wasg w = l0.wasg w ∨
    (l0.wstate w = .free ∧ w < m.nW ∧ ∃ t, t < m.nT ∧ l.wasg w = [t])
  fch : ∀ f, l.fasg f = l0.fasg f ∨
    (l0.fstate f = .free ∧ ∃ t, t < m.nT ∧ l.fasg f = [t] ∧ l.allocW t ≠ [])
  fsrc : ∀ f, l.fasg f = l0.fasg f ∨ ∃ p, f ∈ (m.wp p).facs

theorem AccInv.frame {m : Model} {l0 l : Live} {free : List Nat} (h : AccInv m l0 l free) (l' : Live)
    (hW : l'.allocW = l.allocW) (hF : l'.allocF = l.allocF)
    (hwa : l'.wasg = l.wasg) (hfa : l'.fasg = l.fasg)
    (hts : l'.tstate = l.tstate) (hws : l'.wstate = l.wstate) (hfs : l'.fstate = l.fstate) :
    AccInv m l0 l' free := by
  constructor
  · exact h.inv.frame hW hF hwa hfa (by rw [hts]; exact fun _ h => h)
  · simp only [hts, h.ts]
  · simp only [hws, h.ws]
  · simp only [hfs, h.fs]
  · simp only [hwa]; exact h.free_asg
  · exact h.free_nodup
  · exact h.free_src
  · simp only [hwa]; exact h.wch
  · simp only [hfa, hW]; exact h.fch
  · simp only [hfa]; exact h.fsrc


/-- one worker handed to task `t` -/
theorem AccInv.step_giveW {m : Model} {l0 l : Live} {free : List Nat} (h : AccInv m l0 l free) {t w : Nat}
    (hw : w ∈ free) (ht : t < m.nT) (hs : l.tstate t = .ready ∨ l.tstate t = .working) :
    AccInv m l0 (giveW l t w) (free.filter (· != w)) := by
  have hw0 := h.free_asg w hw
  constructor
  · exact giveW_AllocInv h.inv hw0 hs
  · exact h.ts
  · exact h.ws
  · exact h.fs
  · intro w' hw'
    simp only [List.mem_filter, bne_iff_ne, ne_eq] at hw'
    simp only [giveW, upd_apply, hw'.2, if_false]
    exact h.free_asg w' hw'.1
  · exact Alloc.nodup_filter _ h.free_nodup
  · intro w' hw'
    simp only [List.mem_filter] at hw'
    exact h.free_src w' hw'.1
  · intro w'
    simp only [giveW, upd_apply]
    by_cases e : w' = w
    · subst e
      right
      exact ⟨(h.free_src _ hw).2, (h.free_src _ hw).1, t, ht, by simp [hw0]⟩
    · simp only [e, if_false]; exact h.wch w'
  · intro f
    rcases h.fch f with h1 | ⟨h1, t', h2, h3, h4⟩
    · left; exact h1
    · right
      refine ⟨h1, t', h2, h3, ?_⟩
      simp only [giveW, upd_apply]
      split
      · simp
      · exact h4
  · exact h.fsrc

theorem AccInv.step_giveF {m : Model} {l0 l : Live} {free : List Nat} (h : AccInv m l0 l free) {t f : Nat}
    (hf : l.fasg f = []) (hf0 : l0.fstate f = .free) (hfp : ∃ p, f ∈ (m.wp p).facs) (ht : t < m.nT)
    (hs : l.tstate t = .ready ∨ l.tstate t = .working)
    (hn : (m.task t).needFac = true) (hne : l.allocW t ≠ []) :
    AccInv m l0 (giveF l t f) free := by
  constructor
  · exact giveF_AllocInv h.inv hf hs hn
  · exact h.ts
  · exact h.ws
  · exact h.fs
  · exact h.free_asg
  · exact h.free_nodup
  · exact h.free_src
  · exact h.wch
  · intro f'
    simp only [giveF, upd_apply]
    by_cases e : f' = f
    · subst e
      right
      exact ⟨hf0, t, ht, by simp [hf], hne⟩
    · simp only [e, if_false]; exact h.fch f'
  · intro f'
    simp only [giveF, upd_apply]
    by_cases e : f' = f
    · subst e; right; exact hfp
    · simp only [e, if_false]; exact h.fsrc f'


theorem Alloc.moveComp_frame (l : Live) (c p : Nat) :
    (moveComp l c p).allocW = l.allocW ∧ (moveComp l c p).allocF = l.allocF ∧
    (moveComp l c p).wasg = l.wasg ∧ (moveComp l c p).fasg = l.fasg ∧
    (moveComp l c p).tstate = l.tstate ∧ (moveComp l c p).wstate = l.wstate ∧
    (moveComp l c p).fstate = l.fstate := by
  unfold moveComp
  cases l.placed c <;> simp only <;> split <;> simp

theorem Alloc.placeStep_cases (m : Model) (t : Nat) (l : Live) :
    placeStep m t l = l ∨ ∃ c p, placeStep m t l = moveComp l c p := by
  unfold placeStep
  dsimp only
  repeat' split
  all_goals first | exact Or.inl rfl | exact Or.inr ⟨_, _, rfl⟩

theorem Alloc.placeStep_frame (m : Model) (t : Nat) (l : Live) :
    (placeStep m t l).allocW = l.allocW ∧ (placeStep m t l).allocF = l.allocF ∧
    (placeStep m t l).wasg = l.wasg ∧ (placeStep m t l).fasg = l.fasg ∧
    (placeStep m t l).tstate = l.tstate ∧ (placeStep m t l).wstate = l.wstate ∧
    (placeStep m t l).fstate = l.fstate := by
  rcases Alloc.placeStep_cases m t l with h | ⟨c, p, h⟩
  · rw [h]; simp
  · rw [h]; exact Alloc.moveComp_frame _ _ _

theorem AccInv.step_allocWorkers {m : Model} {l0 : Live} {a : Alloc} (h : AccInv m l0 a.l a.free) {t : Nat}
    (ht : t < m.nT) : AccInv m l0 (allocWorkers m t a).l (allocWorkers m t a).free := by
  unfold allocWorkers
  extract_lets name free cands
  have h0 : AccInv m l0 a.l free := by
    constructor
    · exact h.inv
    · exact h.ts
    · exact h.ws
    · exact h.fs
    · intro w hw; exact h.free_asg w ((Alloc.mem_sortBy _ _ _).mp hw)
    · exact (Alloc.nodup_sortBy _ _).mpr h.free_nodup
    · intro w hw; exact h.free_src w ((Alloc.mem_sortBy _ _ _).mp hw)
    · exact h.wch
    · exact h.fch
    · exact h.fsrc
  have hc : cands.Nodup := Alloc.nodup_filter _ h0.free_nodup
  have hsub : ∀ w ∈ cands, w ∈ free := fun w hw => (List.mem_filter.mp hw).1
  suffices hgen : ∀ (cs : List Nat) (acc : Alloc), AccInv m l0 acc.l acc.free → cs.Nodup →
      (∀ w ∈ cs, w ∈ acc.free) →
      AccInv m l0
        (cs.foldl (fun acc w =>
          if canAdd m acc.l t (some w) Option.none then
            { acc with l := giveW acc.l t w, free := acc.free.filter (· != w) }
          else acc) acc).l
        (cs.foldl (fun acc w =>
          if canAdd m acc.l t (some w) Option.none then
            { acc with l := giveW acc.l t w, free := acc.free.filter (· != w) }
          else acc) acc).free from hgen cands _ h0 hc hsub
  intro cs
  induction cs with
  | nil => intro acc h0 _ _; exact h0
  | cons w ws ih =>
    intro acc h0 hc hsub
    simp only [List.foldl_cons]
    have hnd := List.nodup_cons.mp hc
    split
    · rename_i hcan
      apply ih _ _ hnd.2
      · intro w' hw'
        simp only [List.mem_filter, bne_iff_ne, ne_eq]
        refine ⟨hsub w' (by simp [hw']), ?_⟩
        rintro rfl; exact hnd.1 hw'
      · exact h0.step_giveW (hsub w (by simp)) ht (Alloc.canAdd_state hcan)
    · exact ih _ h0 hnd.2 (fun w' hw' => hsub w' (by simp [hw']))

theorem AccInv.step_allocPairs {m : Model} {l0 : Live} {a : Alloc} (h : AccInv m l0 a.l a.free) {t : Nat}
    (ht : t < m.nT) (hn : (m.task t).needFac = true) :
    AccInv m l0 (allocPairs m t a).l (allocPairs m t a).free := by
  unfold allocPairs
  split
  · exact h
  · split
    · exact h
    · rename_i c _ p _
      extract_lets name freeF sortedF candsF
      have hF : ∀ f ∈ candsF, l0.fstate f = .free ∧ ∃ p, f ∈ (m.wp p).facs := by
        intro f hf
        have h1 := (List.mem_filter.mp hf).1
        have h2 := (Alloc.mem_sortBy _ _ _).mp h1
        have h3 := (List.mem_filter.mp h2).2
        rw [h.fs] at h3
        exact ⟨by simpa using h3, p, (List.mem_filter.mp h2).1⟩
      suffices hgen : ∀ (fs : List Nat) (a : Alloc), AccInv m l0 a.l a.free →
          (∀ f ∈ fs, l0.fstate f = .free ∧ ∃ p, f ∈ (m.wp p).facs) →
          AccInv m l0
            (fs.foldl (fun acc f =>
              let ws := acc.free.filter fun w =>
                hasSkill (m.worker w).skills name && teamTargets m w t && canAdd m acc.l t (some w) (some f)
              match sortWorkers m (m.task t).wRule name (some p) ws with
              | [] => acc
              | w :: _ => { acc with l := giveF (giveW acc.l t w) t f, free := acc.free.filter (· != w) }) a).l
            (fs.foldl (fun acc f =>
              let ws := acc.free.filter fun w =>
                hasSkill (m.worker w).skills name && teamTargets m w t && canAdd m acc.l t (some w) (some f)
              match sortWorkers m (m.task t).wRule name (some p) ws with
              | [] => acc
              | w :: _ => { acc with l := giveF (giveW acc.l t w) t f, free := acc.free.filter (· != w) }) a).free
          from hgen candsF a h hF
      intro fs
      induction fs with
      | nil => intro a h _; exact h
      | cons f fs ih =>
        intro a h hF
        simp only [List.foldl_cons]
        apply ih _ _ (fun f' hf' => hF f' (by simp [hf']))
        split
        · exact h
        · rename_i w rest hsort
          have hw : w ∈ sortWorkers m (m.task t).wRule name (some p)
              (a.free.filter fun w => hasSkill (m.worker w).skills name && teamTargets m w t &&
                canAdd m a.l t (some w) (some f)) := by
            rw [hsort]; simp
          have hw2 := List.mem_filter.mp ((Alloc.mem_sortBy _ _ _).mp hw)
          have hcan : canAdd m a.l t (some w) (some f) = true := by
            have := hw2.2; simp only [Bool.and_eq_true] at this; exact this.2
          have hs := Alloc.canAdd_state hcan
          have h1 := h.step_giveW hw2.1 ht hs
          exact h1.step_giveF (t := t) (f := f) (by simpa [giveW] using Alloc.canAdd_fac hcan)
            (hF f (by simp)).1 (hF f (by simp)).2 ht (by simpa [giveW] using hs) hn
            (by simp [giveW])

theorem AccInv.step_allocTask {m : Model} {l0 : Live} {a : Alloc} (h : AccInv m l0 a.l a.free) {t : Nat}
    (ht : t < m.nT) : AccInv m l0 (allocTask m a t).l (allocTask m a t).free := by
  have hp := Alloc.placeStep_frame m t a.l
  have h1 : AccInv m l0 (placeStep m t a.l) a.free :=
    h.frame _ hp.1 hp.2.1 hp.2.2.1 hp.2.2.2.1 hp.2.2.2.2.1 hp.2.2.2.2.2.1 hp.2.2.2.2.2.2
  unfold allocTask
  extract_lets skip a1
  have h2 : AccInv m l0 a1.l a1.free := by
    simp only [a1]; split
    · exact h
    · exact h1
  split
  · exact h2
  · split
    · rename_i hn; exact h2.step_allocPairs ht hn
    · exact h2.step_allocWorkers ht

/-- FREE workers hold nothing (a consequence of `ResInv … true`); needed by `allocate`, whose
free list is read off `wstate` while `can_add_resources` never looks at a worker's assignments -/
def FreeIdle (m : Model) (l : Live) : Prop := ∀ w, w < m.nW → l.wstate w = .free → l.wasg w = []

theorem allocate_AccInv {m : Model} (lg : Logs) (rule : TaskRule) {l : Live}
    (h : AllocInv m l) (hfree : FreeIdle m l) :
    ∃ fr, AccInv m l (allocate m lg rule l) fr := by
  unfold allocate
  extract_lets cands sorted free r
  have h0 : AccInv m l l free := by
    constructor
    · exact h
    · rfl
    · rfl
    · rfl
    · intro w hw
      have := List.mem_filter.mp hw
      exact hfree w (List.mem_range.mp this.1) (by simpa using this.2)
    · exact Alloc.nodup_filter _ List.nodup_range
    · intro w hw
      have := List.mem_filter.mp hw
      exact ⟨List.mem_range.mp this.1, by simpa using this.2⟩
    · intro w; left; rfl
    · intro f; left; rfl
    · intro f; left; rfl
  have hs : ∀ t ∈ sorted, t < m.nT := by
    intro t ht
    have := (Alloc.mem_sortBy _ _ _).mp ht
    exact List.mem_range.mp (List.mem_filter.mp this).1
  have hgen : ∀ (ts : List Nat) (acc : Alloc), AccInv m l acc.l acc.free → (∀ t ∈ ts, t < m.nT) →
      AccInv m l (ts.foldl (allocTask m) acc).l (ts.foldl (allocTask m) acc).free := by
    intro ts
    induction ts with
    | nil => intro acc h0 _; exact h0
    | cons t ts ih =>
      intro acc h0 hs
      simp only [List.foldl_cons]
      exact ih _ (h0.step_allocTask (hs t (by simp))) (fun t' ht' => hs t' (by simp [ht']))
  have hr := hgen sorted { l := l, free := free } h0 hs
  refine ⟨(sorted.foldl (allocTask m) { l := l, free := free }).free, ?_⟩
  simp only [tabN_eq]
  exact hr

/-! ### check_state(WORKING) -/

theorem Alloc.foldl_setW (ws : List Nat) (a : Live) :
    ws.foldl (fun a w => { a with wstate := upd a.wstate w .working }) a =
      { a with wstate := fun w => if w ∈ ws then .working else a.wstate w } := by
  induction ws generalizing a with
  | nil => simp
  | cons w ws ih =>
    rw [List.foldl_cons, ih]
    simp only [Live.mk.injEq, true_and, and_true]
    funext w'; by_cases h1 : w' = w <;> by_cases h2 : w' ∈ ws <;> simp [h1, h2]

theorem Alloc.foldl_setF (fs : List Nat) (a : Live) :
    fs.foldl (fun a f => { a with fstate := upd a.fstate f .working }) a =
      { a with fstate := fun f => if f ∈ fs then .working else a.fstate f } := by
  induction fs generalizing a with
  | nil => simp
  | cons w ws ih =>
    rw [List.foldl_cons, ih]
    simp only [Live.mk.injEq, true_and, and_true]
    funext w'; by_cases h1 : w' = w <;> by_cases h2 : w' ∈ ws <;> simp [h1, h2]

theorem Alloc.foldl_freeF (fs : List Nat) (b : Live) :
    fs.foldl (fun b f => if b.fstate f == .free then { b with fstate := upd b.fstate f .working } else b) b =
      { b with fstate := fun f => if f ∈ fs ∧ b.fstate f = .free then .working else b.fstate f } := by
  induction fs generalizing b with
  | nil => simp
  | cons w ws ih =>
    rw [List.foldl_cons, ih]
    by_cases hb : b.fstate w = .free
    · simp only [hb, beq_self_eq_true, if_true, Live.mk.injEq, true_and, and_true]
      funext w'; by_cases h1 : w' = w <;> by_cases h2 : w' ∈ ws <;> simp [h1, h2, hb]
    · have : (b.fstate w == RS.free) = false := by simpa using hb
      simp only [this, Bool.false_eq_true, if_false, Live.mk.injEq, true_and, and_true]
      funext w'; by_cases h1 : w' = w <;> by_cases h2 : w' ∈ ws <;> simp [h1, h2, hb]

/-- one iteration of the WORKING branch of `startOne` -/
def Alloc.workStep (m : Model) (t : Nat) (a : Live) (w : Nat) : Live :=
  let a1 := if a.wstate w == .free then { a with wstate := upd a.wstate w .working } else a
  if (m.task t).needFac then
    (a1.allocF t).foldl (fun b f =>
      if b.fstate f == .free then { b with fstate := upd b.fstate f .working } else b) a1
  else a1

theorem Alloc.workStep_eq (m : Model) (t : Nat) (a : Live) (w : Nat) :
    Alloc.workStep m t a w =
    { a with
      wstate := fun w' => if w' = w ∧ a.wstate w = .free then .working else a.wstate w'
      fstate := fun f => if (m.task t).needFac = true ∧ f ∈ a.allocF t ∧ a.fstate f = .free
        then .working else a.fstate f } := by
  unfold Alloc.workStep
  simp only [Alloc.foldl_freeF]
  by_cases hb : a.wstate w = .free
  · have hb' : (a.wstate w == RS.free) = true := by simpa using hb
    by_cases hn : (m.task t).needFac = true
    · simp only [hb', hn, if_true, Live.mk.injEq, true_and, and_true]
      funext w'; by_cases h1 : w' = w <;> simp [h1, hb]
    · simp only [hb', hn, if_true, Bool.false_eq_true, if_false, false_and, Live.mk.injEq, true_and, and_true]
      funext w'; by_cases h1 : w' = w <;> simp [h1, hb]
  · have hb' : (a.wstate w == RS.free) = false := by simpa using hb
    by_cases hn : (m.task t).needFac = true
    · simp [hb', hn, hb]
    · simp [hb', hn, hb]

/-- the WORKING branch of `startOne`, in closed form -/
theorem Alloc.foldl_workStep (m : Model) (t : Nat) (ws : List Nat) (a : Live) :
    ws.foldl (Alloc.workStep m t) a =
    { a with
      wstate := fun w => if w ∈ ws ∧ a.wstate w = .free then .working else a.wstate w
      fstate := fun f => if (m.task t).needFac = true ∧ ws ≠ [] ∧ f ∈ a.allocF t ∧ a.fstate f = .free
        then .working else a.fstate f } := by
  induction ws generalizing a with
  | nil => simp
  | cons w ws ih =>
    rw [List.foldl_cons, ih, Alloc.workStep_eq]
    simp only [Live.mk.injEq, true_and, and_true]
    constructor
    · funext w'
      by_cases h1 : w' = w <;> by_cases h2 : w' ∈ ws <;> by_cases h3 : a.wstate w' = .free <;>
        simp [h1, h2, h3] <;> simp_all
    · funext f
      by_cases hn : (m.task t).needFac = true <;> by_cases h1 : f ∈ a.allocF t <;>
        by_cases h2 : a.fstate f = .free <;> simp [hn, h1, h2]

theorem Alloc.startOne_eq (m : Model) (l : Live) (t : Nat) :
    startOne m l t =
      if l.tstate t = .ready then
        { l with tstate := upd l.tstate t .working
                 wstate := fun w => if w ∈ l.allocW t then .working else l.wstate w
                 fstate := fun f => if (m.task t).needFac = true ∧ f ∈ l.allocF t then .working
                   else l.fstate f }
      else if l.tstate t = .working then
        { l with
          wstate := fun w => if w ∈ l.allocW t ∧ l.wstate w = .free then .working else l.wstate w
          fstate := fun f => if (m.task t).needFac = true ∧ l.allocW t ≠ [] ∧ f ∈ l.allocF t ∧
            l.fstate f = .free then .working else l.fstate f }
      else l := by
  unfold startOne
  by_cases h1 : l.tstate t = .ready
  · simp only [h1, beq_self_eq_true, if_true, Alloc.foldl_setW, Alloc.foldl_setF]
    by_cases hn : (m.task t).needFac = true <;> simp [hn]
  · have h1' : (l.tstate t == TS.ready) = false := by simpa using h1
    simp only [h1', Bool.false_eq_true, if_false, h1]
    by_cases h2 : l.tstate t = .working
    · simp only [h2, beq_self_eq_true, if_true]
      exact Alloc.foldl_workStep m t _ l
    · have h2' : (l.tstate t == TS.working) = false := by simpa using h2
      simp [h2', h2]

theorem Alloc.startOne_frame (m : Model) (l : Live) (t : Nat) :
    (startOne m l t).allocW = l.allocW ∧ (startOne m l t).allocF = l.allocF ∧
    (startOne m l t).wasg = l.wasg ∧ (startOne m l t).fasg = l.fasg := by
  rw [Alloc.startOne_eq]; split
  · simp
  · split <;> simp

theorem Alloc.startOne_tstate (m : Model) (l : Live) (t : Nat) :
    (startOne m l t).tstate =
      if l.tstate t = .ready then upd l.tstate t .working else l.tstate := by
  rw [Alloc.startOne_eq]; split
  · simp
  · split <;> simp

theorem Alloc.startOne_wstate (m : Model) (l : Live) (t w : Nat) :
    (startOne m l t).wstate w =
      if (l.tstate t = .ready ∧ w ∈ l.allocW t) ∨
         (l.tstate t = .working ∧ w ∈ l.allocW t ∧ l.wstate w = .free)
      then .working else l.wstate w := by
  rw [Alloc.startOne_eq]
  by_cases h1 : l.tstate t = .ready
  · simp [h1]
  · by_cases h2 : l.tstate t = .working
    · simp [h2]
    · simp [h1, h2]

theorem Alloc.startOne_fstate (m : Model) (l : Live) (t f : Nat) :
    (startOne m l t).fstate f =
      if (m.task t).needFac = true ∧ f ∈ l.allocF t ∧
         (l.tstate t = .ready ∨ (l.tstate t = .working ∧ l.allocW t ≠ [] ∧ l.fstate f = .free))
      then .working else l.fstate f := by
  rw [Alloc.startOne_eq]
  by_cases h1 : l.tstate t = .ready
  · simp [h1]
  · by_cases h2 : l.tstate t = .working
    · simp only [h2, reduceCtorEq, if_false, if_true, false_or, true_and]
      congr 1
      apply propext
      constructor
      · rintro ⟨a, b, c, d⟩; exact ⟨a, c, b, d⟩
      · rintro ⟨a, b, c, d⟩; exact ⟨a, c, b, d⟩
    · simp [h1, h2]

/-- the effect of `startOne` on a task state: unchanged, or READY → WORKING -/
theorem Alloc.startOne_tstate_cases (m : Model) (l : Live) (t t' : Nat) :
    (startOne m l t).tstate t' = l.tstate t' ∨
    (l.tstate t' = .ready ∧ (startOne m l t).tstate t' = .working) := by
  rw [Alloc.startOne_tstate]
  split
  · rename_i h
    by_cases e : t' = t
    · subst e; right; simp [h]
    · left; simp [e]
  · left; rfl

theorem startOne_AllocInv {m : Model} {l : Live} (h : AllocInv m l) (t : Nat) :
    AllocInv m (startOne m l t) := by
  have hf := Alloc.startOne_frame m l t
  refine h.frame hf.1 hf.2.1 hf.2.2.1 hf.2.2.2 ?_
  intro t' ht'
  rcases Alloc.startOne_tstate_cases m l t t' with e | ⟨_, e⟩
  · rw [e]; exact ht'
  · right; exact e


theorem Alloc.foldl_startOne_frame (m : Model) (ts : List Nat) (l : Live) :
    (ts.foldl (startOne m) l).allocW = l.allocW ∧ (ts.foldl (startOne m) l).allocF = l.allocF ∧
    (ts.foldl (startOne m) l).wasg = l.wasg ∧ (ts.foldl (startOne m) l).fasg = l.fasg := by
  induction ts generalizing l with
  | nil => simp
  | cons t ts ih =>
    simp only [List.foldl_cons]
    have h1 := ih (startOne m l t)
    have h2 := Alloc.startOne_frame m l t
    refine ⟨h1.1.trans h2.1, h1.2.1.trans h2.2.1, h1.2.2.1.trans h2.2.2.1, h1.2.2.2.trans h2.2.2.2⟩

theorem Alloc.foldl_startOne_tstate (m : Model) (ts : List Nat) (l : Live) :
    (∀ t', (ts.foldl (startOne m) l).tstate t' = l.tstate t' ∨
      (l.tstate t' = .ready ∧ (ts.foldl (startOne m) l).tstate t' = .working)) ∧
    (∀ t ∈ ts, (l.tstate t = .ready ∨ l.tstate t = .working) →
      (ts.foldl (startOne m) l).tstate t = .working) := by
  induction ts generalizing l with
  | nil => simp
  | cons t ts ih =>
    simp only [List.foldl_cons]
    have ⟨h1, h2⟩ := ih (startOne m l t)
    have hc := Alloc.startOne_tstate_cases m l t
    constructor
    · intro t'
      rcases h1 t' with e | ⟨e1, e2⟩ <;> rcases hc t' with e' | ⟨e1', e2'⟩
      · left; rw [e, e']
      · right; exact ⟨e1', by rw [e, e2']⟩
      · right; exact ⟨by rw [← e']; exact e1, e2⟩
      · right; exact ⟨e1', e2⟩
    · intro t' ht' hs
      -- after processing `t`, `t'` is WORKING or still READY/WORKING and in the tail
      have hw : ∀ x, (startOne m l t).tstate x = .working →
          (ts.foldl (startOne m) (startOne m l t)).tstate x = .working := by
        intro x hx
        rcases h1 x with e | ⟨e1, _⟩
        · rw [e, hx]
        · rw [hx] at e1; cases e1
      rcases List.mem_cons.mp ht' with e | hin
      · subst e
        apply hw
        rw [Alloc.startOne_tstate]
        rcases hs with hs | hs
        · simp [hs]
        · simp [hs]
      · apply h2 t' hin
        rcases hc t' with e | ⟨_, e⟩
        · rw [e]; exact hs
        · right; exact e

/-- Worker states after the `check_state(WORKING)` fold: every worker whose state was either
already the expected one (`ew`) or FREE-but-pending on a task still to be processed ends in the
expected state. -/
theorem Alloc.foldl_startOne_wstate (m : Model) (ew : Nat → RS) (n : Nat) :
    ∀ (ts : List Nat) (a : Live), AllocInv m a →
      (∀ t ∈ ts, a.tstate t = .ready ∨ a.tstate t = .working) →
      (∀ t w, a.tstate t = .ready → w ∈ a.allocW t → w < n → ew w = .working) →
      (∀ t w, w ∈ a.allocW t → w < n → ew w ≠ .free) →
      (∀ w, w < n → a.wstate w = ew w ∨
        (a.wstate w = .free ∧ ew w = .working ∧ ∃ t ∈ ts, a.wasg w = [t])) →
      ∀ w, w < n → (ts.foldl (startOne m) a).wstate w = ew w := by
  intro ts
  induction ts with
  | nil =>
    intro a _ _ _ _ hP w hw
    rcases hP w hw with h | ⟨_, _, t, ht, _⟩
    · exact h
    · cases ht
  | cons t ts ih =>
    intro a hinv hts h3 h4 hP w hw
    simp only [List.foldl_cons]
    have hf := Alloc.startOne_frame m a t
    have hc := Alloc.startOne_tstate_cases m a t
    refine ih (startOne m a t) (startOne_AllocInv hinv t) ?_ ?_ ?_ ?_ w hw
    · intro t' ht'
      rcases hc t' with e | ⟨_, e⟩
      · rw [e]; exact hts t' (by simp [ht'])
      · right; exact e
    · intro t' w' hr hm hn
      rw [hf.1] at hm
      rcases hc t' with e | ⟨_, e⟩
      · exact h3 t' w' (by rw [← e]; exact hr) hm hn
      · rw [e] at hr; cases hr
    · intro t' w' hm hn
      rw [hf.1] at hm
      exact h4 t' w' hm hn
    · intro w' hw'
      rw [Alloc.startOne_wstate, hf.2.2.1]
      by_cases hm : w' ∈ a.allocW t
      · have hasg := hinv.wasg_eq hm
        rcases hts t (by simp) with hs | hs
        · left; simp [hs, hm, h3 t w' hs hm hw']
        · by_cases hfree : a.wstate w' = .free
          · left
            simp only [hs, hm, hfree, and_self, or_true, if_true]
            rcases hP w' hw' with h | ⟨_, h, _⟩
            · exact absurd (h.symm.trans hfree) (h4 t w' hm hw')
            · exact h.symm
          · rcases hP w' hw' with h | ⟨h, _⟩
            · left; rw [if_neg (by simp [hs, hfree])]; exact h
            · exact absurd h hfree
      · simp only [hm, and_false, false_and, or_self, if_false]
        rcases hP w' hw' with h | ⟨h1, h2, t', ht', h5⟩
        · left; exact h
        · right
          refine ⟨h1, h2, t', ?_, h5⟩
          rcases List.mem_cons.mp ht' with e | e
          · subst e
            exact absurd ((hinv.w_two t' w').mpr (by simp [h5])) hm
          · exact e

theorem Alloc.foldl_startOne_fstate (m : Model) (ef : Nat → RS) (n : Nat) :
    ∀ (ts : List Nat) (a : Live), AllocInv m a →
      (∀ t ∈ ts, a.tstate t = .ready ∨ a.tstate t = .working) →
      (∀ t f, a.tstate t = .ready → f ∈ a.allocF t → f < n → ef f = .working) →
      (∀ t f, f ∈ a.allocF t → f < n → ef f ≠ .free) →
      (∀ f, f < n → a.fstate f = ef f ∨
        (a.fstate f = .free ∧ ef f = .working ∧ ∃ t ∈ ts, a.fasg f = [t] ∧ a.allocW t ≠ [])) →
      ∀ f, f < n → (ts.foldl (startOne m) a).fstate f = ef f := by
  intro ts
  induction ts with
  | nil =>
    intro a _ _ _ _ hP w hw
    rcases hP w hw with h | ⟨_, _, t, ht, _⟩
    · exact h
    · cases ht
  | cons t ts ih =>
    intro a hinv hts h3 h4 hP w hw
    simp only [List.foldl_cons]
    have hf := Alloc.startOne_frame m a t
    have hc := Alloc.startOne_tstate_cases m a t
    refine ih (startOne m a t) (startOne_AllocInv hinv t) ?_ ?_ ?_ ?_ w hw
    · intro t' ht'
      rcases hc t' with e | ⟨_, e⟩
      · rw [e]; exact hts t' (by simp [ht'])
      · right; exact e
    · intro t' w' hr hm hn
      rw [hf.2.1] at hm
      rcases hc t' with e | ⟨_, e⟩
      · exact h3 t' w' (by rw [← e]; exact hr) hm hn
      · rw [e] at hr; cases hr
    · intro t' w' hm hn
      rw [hf.2.1] at hm
      exact h4 t' w' hm hn
    · intro f hf'
      rw [Alloc.startOne_fstate, hf.2.2.2, hf.1]
      by_cases hm : f ∈ a.allocF t
      · have hasg := hinv.fasg_eq hm
        have hn : (m.task t).needFac = true := hinv.fac_only t (by intro e; rw [e] at hm; cases hm)
        rcases hts t (by simp) with hs | hs
        · left; simp [hs, hm, hn, h3 t f hs hm hf']
        · by_cases hfree : a.fstate f = .free
          · rcases hP f hf' with h | ⟨_, h, t', _, h5, h6⟩
            · exact absurd (h.symm.trans hfree) (h4 t f hm hf')
            · left
              have : t' = t := by rw [hasg] at h5; simpa using h5.symm
              subst this
              simp [hs, hm, hn, hfree, h6, h]
          · rcases hP f hf' with h | ⟨h, _⟩
            · left; rw [if_neg (by simp [hs, hfree])]; exact h
            · exact absurd h hfree
      · simp only [hm, false_and, and_false, if_false]
        rcases hP f hf' with h | ⟨h1, h2, t', ht', h5, h6⟩
        · left; exact h
        · right
          refine ⟨h1, h2, t', ?_, h5, h6⟩
          rcases List.mem_cons.mp ht' with e | e
          · subst e
            exact absurd ((hinv.f_two t' f).mpr (by simp [h5])) hm
          · exact e

theorem Alloc.chkWorking_eq (m : Model) (l : Live) :
    chkWorking m l = ((List.range m.nT).filter (workingTarget m l)).foldl (startOne m) l := by
  simp [chkWorking, chkWorkingOrd]

theorem Alloc.workingTarget_state {m : Model} {l : Live} {t : Nat} (h : workingTarget m l t = true) :
    l.tstate t = .ready ∨ l.tstate t = .working := by
  unfold workingTarget at h
  simp only [Bool.or_eq_true, Bool.and_eq_true, beq_iff_eq] at h
  rcases h with ((h | h) | h) | h
  · exact Or.inl h.1
  · exact Or.inl h.1.1
  · exact Or.inl h.1.1
  · exact Or.inr h.1

theorem Alloc.workingTarget_of_alloc {m : Model} {l : Live} {t : Nat}
    (hs : l.tstate t = .ready ∨ l.tstate t = .working) (hne : l.allocW t ≠ []) :
    workingTarget m l t = true := by
  have : (l.allocW t).length > 0 := List.length_pos_iff.mpr hne
  unfold workingTarget
  rcases hs with hs | hs <;> simp [hs, this]

theorem Alloc.chkWorking_frame (m : Model) (l : Live) :
    (chkWorking m l).allocW = l.allocW ∧ (chkWorking m l).allocF = l.allocF ∧
    (chkWorking m l).wasg = l.wasg ∧ (chkWorking m l).fasg = l.fasg := by
  rw [Alloc.chkWorking_eq]; exact Alloc.foldl_startOne_frame m _ l

theorem Alloc.chkWorking_tstate_cases (m : Model) (l : Live) (t : Nat) :
    (chkWorking m l).tstate t = l.tstate t ∨
    (l.tstate t = .ready ∧ (chkWorking m l).tstate t = .working) := by
  rw [Alloc.chkWorking_eq]; exact (Alloc.foldl_startOne_tstate m _ l).1 t

theorem chkWorking_AllocInv {m : Model} {l : Live} (h : AllocInv m l) :
    AllocInv m (chkWorking m l) := by
  have hf := Alloc.chkWorking_frame m l
  refine h.frame hf.1 hf.2.1 hf.2.2.1 hf.2.2.2 ?_
  intro t ht
  rcases Alloc.chkWorking_tstate_cases m l t with e | ⟨_, e⟩
  · rw [e]; exact ht
  · right; exact e

/-- `check_state(WORKING)` keeps WORKING tasks WORKING, so `HoldWorking` survives it -/
theorem chkWorking_HoldWorking {m : Model} {l : Live} (h : HoldWorking l) :
    HoldWorking (chkWorking m l) := by
  have hf := Alloc.chkWorking_frame m l
  refine h.frame hf.1 hf.2.1 ?_
  intro t ht
  rcases Alloc.chkWorking_tstate_cases m l t with e | ⟨e, _⟩
  · rw [e]; exact ht
  · rw [ht] at e; cases e

/- Requested statement, FALSE as it stands:
     `chkWorking_HoldWorking' : AllocInv m l → HoldWorking (chkWorking m l)`
   `check_state(WORKING)` only looks at the tasks below `m.nT`, and starts a READY task only if it
   holds a *worker* (or is an auto task): a READY task holding just a facility stays READY
   (`chkWorking_HoldWorking_counterexample` in `PDesy/Props/C03.lean`).  Inside the loop the extra
   hypothesis is supplied by `AccInv.hold`: `allocate` gives facilities only together with a
   worker, and only to tasks below `m.nT`. -/
/-- `HoldWorking` is established by `check_state(WORKING)` as soon as every holder that is not
yet WORKING is a listed task holding at least one worker. -/
theorem chkWorking_HoldWorking_partial {m : Model} {l : Live} (h : AllocInv m l)
    (hh : ∀ t, (l.allocW t ≠ [] ∨ l.allocF t ≠ []) →
      l.tstate t = .working ∨ (t < m.nT ∧ l.allocW t ≠ [])) :
    HoldWorking (chkWorking m l) := by
  have hf := Alloc.chkWorking_frame m l
  intro t ht
  rw [hf.1, hf.2.1] at ht
  rcases hh t ht with hw | ⟨hlt, hne⟩
  · rcases Alloc.chkWorking_tstate_cases m l t with e | ⟨e, _⟩
    · rw [e]; exact hw
    · rw [hw] at e; cases e
  · rw [Alloc.chkWorking_eq]
    have hs := h.holder t ht
    apply (Alloc.foldl_startOne_tstate m _ l).2 t _ hs
    exact List.mem_filter.mpr ⟨List.mem_range.mpr hlt, Alloc.workingTarget_of_alloc hs hne⟩

theorem Alloc.resState_eq_free {a : Bool} {asg : List Nat} (h : resState a asg = .free) :
    a = false ∧ asg = [] := by
  unfold resState at h
  cases a <;> cases asg <;> simp at h ⊢

theorem Alloc.resState_cons_ne_free (a : Bool) (t : Nat) (ts : List Nat) :
    resState a (t :: ts) ≠ .free := by
  unfold resState; cases a <;> simp

theorem ResInv.freeIdle {m : Model} {time : Nat} {l : Live} (h : ResInv m time true l) :
    FreeIdle m l := by
  intro w hw hf
  have := h.1 w hw
  rw [hf] at this
  exact (Alloc.resState_eq_free this.symm).2

/-- what an `AccInv` accumulator says about holders, given that before `allocate` every holder
was WORKING -/
theorem AccInv.hold {m : Model} {l0 l : Live} {fr : List Nat} (h : AccInv m l0 l fr)
    (h0 : AllocInv m l0) (hw0 : HoldWorking l0) :
    ∀ t, (l.allocW t ≠ [] ∨ l.allocF t ≠ []) →
      l.tstate t = .working ∨ (t < m.nT ∧ l.allocW t ≠ []) := by
  intro t ht
  rw [h.ts]
  rcases ht with ht | ht
  · obtain ⟨w, hw⟩ := List.exists_mem_of_ne_nil _ ht
    have hm := (h.inv.w_two t w).mp hw
    rcases h.wch w with e | ⟨_, _, t', ht', e⟩
    · rw [e] at hm
      have := (h0.w_two t w).mpr hm
      left; exact hw0 t (Or.inl (by intro e; rw [e] at this; cases this))
    · rw [e] at hm
      have : t = t' := by simpa using hm
      subst this
      right; exact ⟨ht', ht⟩
  · obtain ⟨f, hf⟩ := List.exists_mem_of_ne_nil _ ht
    have hm := (h.inv.f_two t f).mp hf
    rcases h.fch f with e | ⟨_, t', ht', e, hne⟩
    · rw [e] at hm
      have := (h0.f_two t f).mpr hm
      left; exact hw0 t (Or.inr (by intro e; rw [e] at this; cases this))
    · rw [e] at hm
      have : t = t' := by simpa using hm
      subst this
      right; exact ⟨ht', hne⟩

/-- `check_state(WORKING)` after the allocation pass re-establishes `ResInv`. -/
theorem AccInv.chkWorking_ResInv {m : Model} {time : Nat} {wk : Bool} {l0 l : Live} {fr : List Nat}
    (h : AccInv m l0 l fr) (h0 : AllocInv m l0) (hw0 : HoldWorking l0)
    (hr : ResInv m time wk l0) : ResInv m time wk (chkWorking m l) := by
  have hf := Alloc.chkWorking_frame m l
  have htgt : ∀ t ∈ (List.range m.nT).filter (workingTarget m l),
      l.tstate t = .ready ∨ l.tstate t = .working :=
    fun t ht => Alloc.workingTarget_state (List.mem_filter.mp ht).2
  constructor
  · intro w hw
    rw [hf.2.2.1, Alloc.chkWorking_eq]
    refine Alloc.foldl_startOne_wstate m
      (fun w => if wk then resState ((m.worker w).absence.contains time) (l.wasg w) else .absence)
      m.nW _ l h.inv htgt ?_ ?_ ?_ w hw
    · intro t w hready hm hlt
      have hm' := (h.inv.w_two t w).mp hm
      rcases h.wch w with e | ⟨e1, _, t', _, e⟩
      · rw [e] at hm'
        have := (h0.w_two t w).mpr hm'
        have := hw0 t (Or.inl (by intro e; rw [e] at this; cases this))
        rw [h.ts, this] at hready; cases hready
      · have := hr.1 w hlt
        rw [e1] at this
        cases wk
        · simp at this
        · simp only [if_true] at this ⊢
          have := (Alloc.resState_eq_free this.symm).1
          rw [this, e]; rfl
    · intro t w hm hlt
      have hm' := (h.inv.w_two t w).mp hm
      cases wk
      · simp
      · simp only [if_true]
        cases hl : l.wasg w with
        | nil => rw [hl] at hm'; cases hm'
        | cons a as => exact Alloc.resState_cons_ne_free _ _ _
    · intro w hlt
      rcases h.wch w with e | ⟨e1, _, t, ht, e⟩
      · left; rw [h.ws, e]; exact hr.1 w hlt
      · right
        have := hr.1 w hlt
        rw [e1] at this
        cases wk
        · simp at this
        · simp only [if_true] at this ⊢
          have habs := (Alloc.resState_eq_free this.symm).1
          refine ⟨by rw [h.ws]; exact e1, by rw [habs, e]; rfl, t, ?_, e⟩
          have hm : w ∈ l.allocW t := (h.inv.w_two t w).mpr (by simp [e])
          have hne : l.allocW t ≠ [] := by intro e; rw [e] at hm; cases hm
          exact List.mem_filter.mpr ⟨List.mem_range.mpr ht,
            Alloc.workingTarget_of_alloc (h.inv.holder t (Or.inl hne)) hne⟩
  · intro f hf'
    rw [hf.2.2.2, Alloc.chkWorking_eq]
    refine Alloc.foldl_startOne_fstate m
      (fun f => if wk then resState ((m.fac f).absence.contains time) (l.fasg f) else .absence)
      m.nF _ l h.inv htgt ?_ ?_ ?_ f hf'
    · intro t f hready hm hlt
      have hm' := (h.inv.f_two t f).mp hm
      rcases h.fch f with e | ⟨e1, t', _, e, _⟩
      · rw [e] at hm'
        have := (h0.f_two t f).mpr hm'
        have := hw0 t (Or.inr (by intro e; rw [e] at this; cases this))
        rw [h.ts, this] at hready; cases hready
      · have := hr.2 f hlt
        rw [e1] at this
        cases wk
        · simp at this
        · simp only [if_true] at this ⊢
          have := (Alloc.resState_eq_free this.symm).1
          rw [this, e]; rfl
    · intro t f hm hlt
      have hm' := (h.inv.f_two t f).mp hm
      cases wk
      · simp
      · simp only [if_true]
        cases hl : l.fasg f with
        | nil => rw [hl] at hm'; cases hm'
        | cons a as => exact Alloc.resState_cons_ne_free _ _ _
    · intro f hlt
      rcases h.fch f with e | ⟨e1, t, ht, e, hne⟩
      · left; rw [h.fs, e]; exact hr.2 f hlt
      · right
        have := hr.2 f hlt
        rw [e1] at this
        cases wk
        · simp at this
        · simp only [if_true] at this ⊢
          have habs := (Alloc.resState_eq_free this.symm).1
          refine ⟨by rw [h.fs]; exact e1, by rw [habs, e]; rfl, t, ?_, e, hne⟩
          exact List.mem_filter.mpr ⟨List.mem_range.mpr ht,
            Alloc.workingTarget_of_alloc (h.inv.holder t (Or.inl hne)) hne⟩


theorem AccInv.refl {m : Model} {l : Live} (h : AllocInv m l) : AccInv m l l [] := by
  constructor
  · exact h
  · rfl
  · rfl
  · rfl
  · intro w hw; cases hw
  · exact List.nodup_nil
  · intro w hw; cases hw
  · intro w; left; rfl
  · intro f; left; rfl
  · intro f; left; rfl

/- Requested statement, FALSE as it stands:
     `allocate_AllocInv : AllocInv m l → AllocInv m (allocate m lg rule l)`
   `allocate` reads its free-worker list off `wstate` and `can_add_resources` never looks at a
   worker's own assignments, so a worker that is FREE although it holds a task is handed out a
   second time (`allocate_AllocInv_counterexample` in `PDesy/Props/C03.lean`).  Inside the loop
   the extra hypothesis is supplied by `ResInv … true` (`ResInv.freeIdle`). -/
/-- `allocate` preserves `AllocInv` provided FREE workers hold nothing. -/
theorem allocate_AllocInv_partial {m : Model} (lg : Logs) (rule : TaskRule) {l : Live}
    (h : AllocInv m l) (hfree : FreeIdle m l) : AllocInv m (allocate m lg rule l) := by
  obtain ⟨fr, hacc⟩ := allocate_AccInv lg rule h hfree
  exact hacc.inv

theorem Alloc.allocate_states {m : Model} (lg : Logs) (rule : TaskRule) {l : Live}
    (h : AllocInv m l) (hfree : FreeIdle m l) :
    (allocate m lg rule l).tstate = l.tstate ∧ (allocate m lg rule l).wstate = l.wstate ∧
    (allocate m lg rule l).fstate = l.fstate := by
  obtain ⟨fr, hacc⟩ := allocate_AccInv lg rule h hfree
  exact ⟨hacc.ts, hacc.ws, hacc.fs⟩

/-- `allocate` only hands out workers that were FREE in range (and facilities that were FREE),
and only to tasks in range -/
theorem Alloc.allocate_gives_free {m : Model} (lg : Logs) (rule : TaskRule) {l : Live}
    (h : AllocInv m l) (hfree : FreeIdle m l) :
    (∀ t w, w ∈ (allocate m lg rule l).allocW t →
      w ∈ l.allocW t ∨ (t < m.nT ∧ w < m.nW ∧ l.wstate w = .free)) ∧
    (∀ t f, f ∈ (allocate m lg rule l).allocF t →
      f ∈ l.allocF t ∨ (t < m.nT ∧ l.fstate f = .free ∧ (allocate m lg rule l).allocW t ≠ [])) := by
  obtain ⟨fr, hacc⟩ := allocate_AccInv lg rule h hfree
  constructor
  · intro t w hw
    have hm := (hacc.inv.w_two t w).mp hw
    rcases hacc.wch w with e | ⟨e1, e2, t', ht', e⟩
    · left; rw [e] at hm; exact (h.w_two t w).mpr hm
    · right
      rw [e] at hm
      have : t = t' := by simpa using hm
      subst this
      exact ⟨ht', e2, e1⟩
  · intro t f hf
    have hm := (hacc.inv.f_two t f).mp hf
    rcases hacc.fch f with e | ⟨e1, t', ht', e, hne⟩
    · left; rw [e] at hm; exact (h.f_two t f).mpr hm
    · right
      rw [e] at hm
      have : t = t' := by simpa using hm
      subst this
      exact ⟨ht', e1, hne⟩

/-- steps 1'–2 of an iteration (absence states, then `allocate` on a working step) leave an
`AccInv` accumulator relative to the state after `absenceSet` -/
theorem Alloc.alloc_or_skip {m : Model} (lg : Logs) (rule : TaskRule) {time : Nat} {wk : Bool} {l1 : Live}
    (h : AllocInv m l1) (hr : ResInv m time wk l1) :
    ∃ fr, AccInv m l1 (if wk then allocate m lg rule l1 else l1) fr := by
  cases wk
  · exact ⟨[], AccInv.refl h⟩
  · exact allocate_AccInv lg rule h hr.freeIdle

/-- steps 1'–3 of an iteration: all three invariants hold after `check_state(WORKING)` -/
theorem Alloc.step_core {m : Model} (lg : Logs) (rule : TaskRule) (time : Nat) (wk : Bool) {l : Live}
    (h : AllocInv m l) (hw : HoldWorking l) :
    let l1 := absenceSet m time wk l
    let l3 := chkWorking m (if wk then allocate m lg rule l1 else l1)
    AllocInv m l3 ∧ HoldWorking l3 ∧ ResInv m time wk l3 := by
  intro l1 l3
  have h1 : AllocInv m l1 := absenceSet_AllocInv h
  have hw1 : HoldWorking l1 := absenceSet_HoldWorking hw
  have hr1 : ResInv m time wk l1 := absenceSet_ResInv m time wk l
  obtain ⟨fr, hacc⟩ := Alloc.alloc_or_skip lg rule h1 hr1
  exact ⟨chkWorking_AllocInv hacc.inv,
    chkWorking_HoldWorking_partial hacc.inv (hacc.hold h1 hw1),
    hacc.chkWorking_ResInv h1 hw1 hr1⟩

/-- steps 1'–3 with the guard of `check_state(WORKING)` (`g = wk || autoFlag`): when the guard is
off the step is an absence step, nothing was allocated and nothing starts -/
theorem Alloc.step_core_guard {m : Model} (lg : Logs) (rule : TaskRule) (time : Nat) (wk g : Bool)
    {l : Live} (hg : wk = true → g = true) (h : AllocInv m l) (hw : HoldWorking l) :
    let l1 := absenceSet m time wk l
    let l2 := if wk then allocate m lg rule l1 else l1
    let l3 := if g then chkWorking m l2 else l2
    AllocInv m l3 ∧ HoldWorking l3 ∧ ResInv m time wk l3 := by
  cases g
  · cases wk
    · exact ⟨absenceSet_AllocInv h, absenceSet_HoldWorking hw, absenceSet_ResInv m time false l⟩
    · exact absurd (hg rfl) (by decide)
  · exact Alloc.step_core lg rule time wk h hw

theorem Alloc.stepBody_live (m : Model) (p : Params) (s : St) :
    (stepBody m p s).live =
      perform m (!(p.absence.contains s.time)) p.autoFlag (compCheck m
        (if (!(p.absence.contains s.time) || p.autoFlag) then chkWorking m
          (if !(p.absence.contains s.time) then
            allocate m s.logs p.rule (absenceSet m s.time (!(p.absence.contains s.time)) s.live)
           else absenceSet m s.time (!(p.absence.contains s.time)) s.live)
         else
          (if !(p.absence.contains s.time) then
            allocate m s.logs p.rule (absenceSet m s.time (!(p.absence.contains s.time)) s.live)
           else absenceSet m s.time (!(p.absence.contains s.time)) s.live))) := rfl

theorem Alloc.stepBody_time (m : Model) (p : Params) (s : St) : (stepBody m p s).time = s.time + 1 := rfl

/-- one whole loop body -/
theorem stepBody_C03 {m : Model} (p : Params) {s : St}
    (h : AllocInv m s.live) (hw : HoldWorking s.live) :
    AllocInv m (stepBody m p s).live ∧ HoldWorking (stepBody m p s).live ∧
    ResInv m s.time (workingAt p s.time) (stepBody m p s).live := by
  rw [Alloc.stepBody_live]
  have := Alloc.step_core_guard s.logs p.rule s.time (!(p.absence.contains s.time))
    (!(p.absence.contains s.time) || p.autoFlag) (by intro e; rw [e]; rfl) h hw
  simp only at this
  obtain ⟨a, b, c⟩ := this
  exact ⟨perform_AllocInv (compCheck_AllocInv a), perform_HoldWorking (compCheck_HoldWorking b),
    perform_ResInv (compCheck_ResInv c)⟩

/-- the `__update` block -/
theorem update_C03 {m : Model} (time : Nat) {l : Live} (h : AllocInv m l) (hw : HoldWorking l) :
    AllocInv m (update m time l) ∧ HoldWorking (update m time l) := by
  unfold update
  have a1 := chkFinished_AllocInv h
  have b1 := chkFinished_HoldWorking h hw
  exact ⟨pert_AllocInv (compCheck_AllocInv (chkReady_AllocInv (chkRemove_AllocInv (compCheck_AllocInv a1)))),
    pert_HoldWorking (compCheck_HoldWorking (chkReady_HoldWorking (chkRemove_HoldWorking
      (compCheck_HoldWorking b1))))⟩

/-! ### initialize -/

/-- nothing is allocated outside the index ranges of the model -/
def OutClean (m : Model) (l : Live) : Prop :=
  (∀ t, m.nT ≤ t → l.allocW t = [] ∧ l.allocF t = []) ∧
  (∀ w, m.nW ≤ w → l.wasg w = []) ∧ (∀ f, m.nF ≤ f → l.fasg f = [])

theorem OutClean_empty (m : Model) : OutClean m Live.empty := by
  simp [OutClean, Live.empty]

/-- `initialize(state_info=True)` empties every allocation list, at every index and whatever
the state before (no hypothesis on `s`: `initLive` resets all indices). -/
theorem Alloc.enter_live_empty {m : Model} {p : Params} {s : St} (hp : p.initState = true) :
    (∀ t, (enter m p s).live.allocW t = []) ∧ (∀ t, (enter m p s).live.allocF t = []) ∧
    (∀ w, (enter m p s).live.wasg w = []) ∧ (∀ f, (enter m p s).live.fasg f = []) := by
  have e : (enter m p s).live = initComps m (chkReady m (pert m 0
      { initLive m p.initLog s.live with cpl := 0 })) := by
    simp only [enter, initProject, hp, if_true]
    cases p.initLog <;> rfl
  rw [e]
  simp [initComps, compCheck, chkReady, pert, initLive]

theorem AllocInv_of_empty {m : Model} {l : Live}
    (h1 : ∀ t, l.allocW t = []) (h2 : ∀ t, l.allocF t = [])
    (h3 : ∀ w, l.wasg w = []) (h4 : ∀ f, l.fasg f = []) : AllocInv m l ∧ HoldWorking l := by
  refine ⟨⟨?_, ?_, ?_, ?_, ?_, ?_, ?_, ?_⟩, ?_⟩
  · intro t w; simp [h1, h3]
  · intro t w; simp [h2, h4]
  · intro w; simp [h3]
  · intro w; simp [h4]
  · intro w; simp [h1]
  · intro w; simp [h2]
  · intro w; simp [h2]
  · intro w; simp [h1, h2]
  · intro w; simp [h1, h2]

/-! ### nothing is ever allocated out of range (needed to re-`initialize` a used project) -/

/-- every facility listed by a workplace is a facility of the model -/
def FacsInRange (m : Model) : Prop := ∀ p f, f ∈ (m.wp p).facs → f < m.nF

theorem OutClean.frame {m : Model} {l l' : Live} (h : OutClean m l)
    (hW : l'.allocW = l.allocW) (hF : l'.allocF = l.allocF)
    (hwa : l'.wasg = l.wasg) (hfa : l'.fasg = l.fasg) : OutClean m l' := by
  unfold OutClean; rw [hW, hF, hwa, hfa]; exact h

theorem finishOne_OutClean {m : Model} {l : Live} (h : AllocInv m l) (hc : OutClean m l) (t : Nat) :
    OutClean m (finishOne m l t) := by
  rw [Alloc.finishOne_eq h]
  obtain ⟨h1, h2, h3⟩ := hc
  refine ⟨?_, ?_, ?_⟩
  · intro t' ht'
    simp only [upd_apply]
    constructor <;> split <;> simp [h1 t' ht']
  · intro w hw; simp only; split
    · rfl
    · exact h2 w hw
  · intro w hw; simp only; split
    · rfl
    · exact h3 w hw

theorem chkFinished_OutClean {m : Model} {l : Live} (h : AllocInv m l) (hc : OutClean m l) :
    OutClean m (chkFinished m l) :=
  (Alloc.chkFinished_ind (fun l => AllocInv m l ∧ OutClean m l)
    (fun _ t hl => ⟨finishOne_AllocInv hl.1 t, finishOne_OutClean hl.1 hl.2 t⟩) l ⟨h, hc⟩).2

theorem AccInv.outClean {m : Model} {l0 l : Live} {fr : List Nat} (h : AccInv m l0 l fr)
    (hwf : FacsInRange m) (h0 : AllocInv m l0) (hc : OutClean m l0) : OutClean m l := by
  obtain ⟨h1, h2, h3⟩ := hc
  refine ⟨?_, ?_, ?_⟩
  · intro t ht
    constructor
    · apply List.eq_nil_iff_forall_not_mem.mpr
      intro w hw
      have hm := (h.inv.w_two t w).mp hw
      rcases h.wch w with e | ⟨_, _, t', ht', e⟩
      · rw [e] at hm
        have := (h0.w_two t w).mpr hm
        rw [(h1 t ht).1] at this; cases this
      · rw [e] at hm
        have : t = t' := by simpa using hm
        omega
    · apply List.eq_nil_iff_forall_not_mem.mpr
      intro f hf
      have hm := (h.inv.f_two t f).mp hf
      rcases h.fch f with e | ⟨_, t', ht', e, _⟩
      · rw [e] at hm
        have := (h0.f_two t f).mpr hm
        rw [(h1 t ht).2] at this; cases this
      · rw [e] at hm
        have : t = t' := by simpa using hm
        omega
  · intro w hw
    rcases h.wch w with e | ⟨_, hlt, _⟩
    · rw [e]; exact h2 w hw
    · omega
  · intro f hf
    rcases h.fsrc f with e | ⟨p, hp⟩
    · rw [e]; exact h3 f hf
    · have := hwf p f hp; omega

theorem chkRemove_OutClean {m : Model} {l : Live} (h : OutClean m l) : OutClean m (chkRemove m l) := by
  have := Alloc.foldl_removeOne_frame ((List.range m.nC).filter (removeCand m l)) l
  simp only at this
  apply h.frame <;> simp [chkRemove, chkRemoveOrd, this]

theorem update_OutClean {m : Model} (time : Nat) {l : Live} (h : AllocInv m l) (hc : OutClean m l) :
    OutClean m (update m time l) := by
  have c1 := chkFinished_OutClean h hc
  have c2 : OutClean m (compCheck m (chkFinished m l)) := c1.frame rfl rfl rfl rfl
  have c3 := chkRemove_OutClean c2
  have c4 : OutClean m (chkReady m (chkRemove m (compCheck m (chkFinished m l)))) :=
    c3.frame rfl rfl rfl rfl
  have c5 : OutClean m (compCheck m (chkReady m (chkRemove m (compCheck m (chkFinished m l))))) :=
    c4.frame rfl rfl rfl rfl
  exact c5.frame (l' := update m time l) rfl rfl rfl rfl

theorem stepBody_OutClean {m : Model} (p : Params) {s : St} (hwf : FacsInRange m)
    (h : AllocInv m s.live) (hc : OutClean m s.live) : OutClean m (stepBody m p s).live := by
  rw [Alloc.stepBody_live]
  have h1 : AllocInv m (absenceSet m s.time (!(p.absence.contains s.time)) s.live) :=
    absenceSet_AllocInv h
  have c1 : OutClean m (absenceSet m s.time (!(p.absence.contains s.time)) s.live) :=
    hc.frame rfl rfl rfl rfl
  obtain ⟨fr, hacc⟩ := Alloc.alloc_or_skip s.logs p.rule h1 (absenceSet_ResInv m s.time _ s.live)
  have c2 := hacc.outClean hwf h1 c1
  have hf := Alloc.chkWorking_frame m (if (!(p.absence.contains s.time)) = true then
      allocate m s.logs p.rule (absenceSet m s.time (!(p.absence.contains s.time)) s.live)
    else absenceSet m s.time (!(p.absence.contains s.time)) s.live)
  cases (!(p.absence.contains s.time) || p.autoFlag)
  · exact c2.frame rfl rfl rfl rfl
  · exact c2.frame hf.1 hf.2.1 hf.2.2.1 hf.2.2.2

end PDesy
