/-
  PDesy.Lemmas.LiveGate — liveness (C05) with finish gates: all four dependency kinds.

  `Lemmas/Live.lean` proves liveness for fragment L (FS/SS links only) with the measure
  `mu = project absence steps to come + absence steps to come of the relied-upon workers
        + Σ_t (stages ahead of t + ⌈rem t / δ_t⌉)`.
  With FF/SF links a task that has done its work can wait at its finish gate, WORKING, holding its
  workers, without any "progress".  The same measure still works, under one extra premise on the
  worker `w` relied upon for a task `t`:

      every OTHER task `w` is eligible for has no FF/SF input                       (`served`)

  (so `w` is never held by a task that waits at a closed finish gate, except possibly by `t`
  itself).  The argument: while something is unfinished, take a rank-minimal unfinished task `t0`
  after `__update` (`exists_open_g`).  ALL its inputs are FINISHED, so it is READY or WORKING *and
  its finish gate is open*.  If it is automatic it progresses.  Otherwise its worker `w` is absent
  (its absence count drops), or FREE at the end of the step (contradicting C06 unless a solo worker
  shuts it out, and then `t0` holds somebody and progresses), or held by some task `t'`: `t' = t0`
  has an open finish gate, `t' ≠ t0` has no finish gate at all — either way a WORKING task with an
  open finish gate has `rem > 0` after `__update` (C06 (d)), so the holder loses `≥ δ` of it
  (`worker_progress_g`).  Tasks waiting at a closed gate never increase the measure
  (`phi_iter_le_g`: their `rem` goes further negative, `⌈rem/δ⌉` stays 0).

  Fragments:
  * `FragLG m rk R`      the general one (all link kinds, premise `served` above);
  * `DedG m rk d`        every non-automatic task has a never-absent worker of its own;
  * `GatesOwn m rk R d`  every non-automatic task WITH an FF/SF input has a worker of its own, every
                         other non-automatic task has an eligible worker that is eligible for no
                         task with an FF/SF input.
  `FragL.toLG`, `DedG.toLG`, `GatesOwn.toLG` embed L, `DedG`, `GatesOwn` into `FragLG`.
-/
import PDesy.Lemmas.Live

namespace PDesy
namespace LiveG
open Elig Live_

instance (m : Model) (t : Nat) : Decidable (Auto.NoFinDeps m t) := by
  unfold Auto.NoFinDeps; infer_instance

/-! ### the fragment -/

/-- Fragment LG ("finish gates"): as fragment L (`Live_.FragL`) but with all four dependency kinds
(FS, SS, FF, SF).  No facilities, automatic tasks without component and with positive rate, an
acyclic in-range graph over ALL links (rank function `rk`), solo workers only when every worker is
relied upon, and for every non-automatic task `t` an eligible worker `w` of the organisation among
those relied upon (`R w = true`) such that every OTHER task `w` is eligible for has no FF/SF
input.  (A worker of `t`'s own satisfies this trivially; so does any eligible worker when no task
has an FF/SF input — fragment L.) -/
structure FragLG (m : Model) (rk : Nat → Nat) (R : Nat → Bool) : Prop where
  noFac : ∀ t, t < m.nT → (m.task t).needFac = false
  autoNoComp : ∀ t, t < m.nT → (m.task t).isAuto = true → (m.task t).comp = Option.none
  graph : ∀ t, t < m.nT → ∀ e ∈ (m.task t).inputs, e.1 < m.nT ∧ rk e.1 < rk t
  autoRate : ∀ t, t < m.nT → (m.task t).isAuto = true → 0 < (m.task t).autoRate
  solo : ∀ w, w < m.nW → (m.worker w).solo = true → ∀ w', w' < m.nW → R w' = true
  served : ∀ t, t < m.nT → (m.task t).isAuto = false →
    ∃ w, w < m.nW ∧ R w = true ∧ WorkerElig m t w ∧
      ∀ t', t' < m.nT → t' ≠ t → WorkerElig m t' w → Auto.NoFinDeps m t'

/-- fragment L is the special case "no FF/SF link at all" -/
theorem _root_.PDesy.Live_.FragL.toLG {m : Model} {rk : Nat → Nat} {R : Nat → Bool}
    (h : FragL m rk R) : FragLG m rk R where
  noFac := h.noFac
  autoNoComp := h.autoNoComp
  graph := h.graph
  autoRate := h.autoRate
  solo := h.solo
  served := by
    intro t ht ha
    obtain ⟨w, hw, hR, hel⟩ := h.served t ht ha
    exact ⟨w, hw, hR, hel, fun t' ht' _ _ => h.noFin t' ht'⟩

variable {m : Model} {rk : Nat → Nat} {R : Nat → Bool} {p : Params}

theorem delta_pos_g (hF : FragLG m rk R) {t : Nat} (ht : t < m.nT) : 0 < delta m t := by
  unfold delta
  split
  · rename_i ha; exact hF.autoRate t ht ha
  · apply lowest_pos
    intro x hx
    obtain ⟨w, hw, rfl⟩ := List.mem_map.mp hx
    have := (List.mem_filter.mp hw).2
    exact hasSkill_pos ((workerEligB_iff m t w).mp this).1

/-! ### one iteration: nothing gets worse -/

theorem plainContrib_nonneg_g (hF : FragLG m rk R) (l : Live) {t : Nat}
    (ht : t < m.nT) : 0 ≤ Perform.plainContrib m l t := by
  unfold Perform.plainContrib
  dsimp only
  split
  · rename_i ha; exact Rat.le_of_lt (hF.autoRate t ht ha)
  · rw [hF.noFac t ht]
    simp only [Bool.false_eq_true, if_false]
    apply sumList_nonneg
    intro x hx
    obtain ⟨w, _, rfl⟩ := List.mem_map.mp hx
    exact plainW_nonneg m l _ w

theorem rem_iter_le_g (hF : FragLG m rk R) {s : St} (hI : Inv m s.live) {t : Nat} (ht : t < m.nT) :
    (iter m p s).live.rem t ≤ s.live.rem t ∨ (iter m p s).live.rem t ≤ 0 := by
  have hI' := Inv_iter p hI
  rw [Auto.iter_eq] at hI' ⊢
  rw [C02_iteration]
  have hc : 0 ≤ (if t < m.nT ∧ (stepBody m p (updated m s)).live.tstate t = .working ∧
          (workingAt p s.time = true ∨ (p.autoFlag = true ∧ (m.task t).isAuto = true))
       then contrib m (stepBody m p (updated m s)).live t else 0) := by
    split
    · rename_i h
      rw [C02_contrib hI'.alloc h.2.1]
      exact plainContrib_nonneg_g hF _ ht
    · exact Rat.le_refl
  generalize (if t < m.nT ∧ (stepBody m p (updated m s)).live.tstate t = .working ∧
          (workingAt p s.time = true ∨ (p.autoFlag = true ∧ (m.task t).isAuto = true))
       then contrib m (stepBody m p (updated m s)).live t else 0) = c at hc ⊢
  split
  · right; grind
  · left; grind

/-- no iteration increases the potential of any task — also not of a task that waits at a closed
finish gate (its remaining work goes further below 0, the count `⌈rem/δ⌉` stays 0) -/
theorem phi_iter_le_g (hF : FragLG m rk R) {s : St} (hI : Inv m s.live) {t : Nat} (ht : t < m.nT) :
    phi m (iter m p s).live t ≤ phi m s.live t := by
  unfold phi
  have h1 := stage_mono (iter_mono (m := m) (p := p) s t)
  have h2 := cnt_mono (delta_pos_g hF ht) (rem_iter_le_g (p := p) hF hI ht)
  omega

/-! ### one iteration: a task that is worked on, with an open finish gate, gets strictly better -/

theorem phi_drop_g (hF : FragLG m rk R) (s : St) {t : Nat} (ht : t < m.nT)
    (hg : finishGate m (updated m s).live.tstate t = true)
    (hu : (updated m s).live.tstate t = .ready ∨ (updated m s).live.tstate t = .working)
    (hw : (iter m p s).live.tstate t = .working)
    (hr : (iter m p s).live.rem t ≤ (updated m s).live.rem t - delta m t) :
    phi m (iter m p s).live t + 1 ≤ phi m s.live t := by
  have hδ := delta_pos_g hF ht
  unfold phi
  rw [hw]
  rcases hu with hu | hu
  · -- READY after `__update`: NONE or READY before, same remaining work
    have hm := Lifecycle.updated_mono m s t
    rw [hu] at hm
    have hrem : (updated m s).live.rem t = s.live.rem t := by
      show (update m s.time s.live).rem t = _
      rw [Perform.update_rem_eq, if_neg]
      intro h
      have : (updated m s).live.tstate t = .finished := h.1
      rw [hu] at this; cases this
    rw [hrem] at hr
    have h2 : cnt (delta m t) ((iter m p s).live.rem t) ≤ cnt (delta m t) (s.live.rem t) :=
      cnt_mono hδ (Or.inl (by grind))
    have h1 : 2 ≤ stage (s.live.tstate t) := by
      revert hm; cases s.live.tstate t <;> simp [TS.rank, stage]
    have h3 : stage TS.working = 1 := rfl
    omega
  · -- WORKING after `__update` with an open finish gate: WORKING before with work left
    have hcf : (chkFinished m s.live).tstate t = .working := NoWait.update_working m s.time s.live t hu
    have hpos : 0 < (updated m s).live.rem t := by
      apply Rat.not_le.mp
      intro hle
      exact C06_finish m s.time s.live t ht ⟨hu, hle, hg⟩
    rcases Perform.chkFinished_closes (m := m) s.live t with ⟨h1, h2⟩ | ⟨_, _, h3, _⟩
    · have hst : s.live.tstate t = .working := by rw [← h1]; exact hcf
      have hrem : (updated m s).live.rem t = s.live.rem t := by
        show (update m s.time s.live).rem t = _
        rw [Perform.update_rem]; exact h2
      rw [hrem] at hr hpos
      rw [hst]
      have := cnt_drop hδ hpos hr
      omega
    · rw [h3] at hcf; cases hcf

/-! ### who makes progress on a working step -/

/-- an automatic task that is READY or WORKING after `__update`, finish gate open -/
theorem auto_progress_g (hF : FragLG m rk R) (s : St) (hwork : p.absence.contains s.time = false)
    {t : Nat} (ht : t < m.nT) (ha : (m.task t).isAuto = true)
    (hg : finishGate m (updated m s).live.tstate t = true)
    (hu : (updated m s).live.tstate t = .ready ∨ (updated m s).live.tstate t = .working) :
    phi m (iter m p s).live t + 1 ≤ phi m s.live t := by
  have h := Auto.stepBody_auto (m := m) (t := t) p (updated m s) ht ha (hF.autoNoComp t ht ha) hu
  have hact : activeAt p (updated m s).time = true := by
    show activeAt p s.time = true
    unfold activeAt; rw [hwork]; rfl
  rw [if_pos hact, if_pos hact] at h
  apply phi_drop_g hF s ht hg hu
  · rw [Auto.iter_eq]; exact h.1
  · rw [Auto.iter_eq, h.2]
    have : delta m t = (m.task t).autoRate := by simp [delta, ha]
    rw [this]; exact Rat.le_refl

/-- a task with an open finish gate that holds a present worker at the end of a working step -/
theorem worker_progress_g (hF : FragLG m rk R) {s : St} (hI : Inv m s.live)
    (hwork : p.absence.contains s.time = false) {w t : Nat}
    (hmem : w ∈ (iter m p s).live.allocW t)
    (hg : finishGate m (updated m s).live.tstate t = true)
    (hpres : (m.worker w).absence.contains s.time = false) :
    phi m (iter m p s).live t + 1 ≤ phi m s.live t := by
  have hIu := Inv_updated hI
  have hI' := Inv_iter p hI
  have hres : ResInv m s.time (workingAt p s.time) (iter m p s).live :=
    (stepBody_C03 p (s := updated m s) hIu.alloc hIu.hold).2.2
  have hwa : workingAt p s.time = true := by unfold workingAt; rw [hwork]; rfl
  rw [hwa] at hres
  obtain ⟨ht, hw⟩ := hI'.rng t w hmem
  have hne : (iter m p s).live.allocW t ≠ [] := by
    intro e; rw [e] at hmem; cases hmem
  have hwk : (iter m p s).live.tstate t = .working := hI'.hold t (Or.inl hne)
  have hel : WorkerElig m t w := (hI'.elig t ht).worker w hmem
  have hna : (m.task t).isAuto = false := by
    cases h : (m.task t).isAuto
    · rfl
    · exact absurd ((hI'.elig t ht).auto h).1 hne
  have hws : (iter m p s).live.wstate w ≠ .absence := by
    have := hres.1 w hw
    simp only [if_true] at this
    rw [this, hpres]
    unfold resState
    simp only [Bool.false_eq_true, if_false]
    split <;> simp
  -- the remaining work after the step
  have hw' : (Perform.preCost m p (updated m s)).tstate t = .working := hwk
  have hrem := (C02_step (m := m) (p := p) (updated m s) t).1
  rw [if_pos ⟨ht, hw', Or.inl hwa⟩] at hrem
  have hcon : contrib m (Perform.preCost m p (updated m s)) t =
      Perform.plainContrib m (iter m p s).live t := by
    rw [← (C02_step (m := m) (p := p) (updated m s) t).2.2]
    exact C02_contrib hI'.alloc hwk
  have hge : delta m t ≤ Perform.plainContrib m (iter m p s).live t := by
    unfold Perform.plainContrib
    dsimp only
    rw [hna, hF.noFac t ht]
    simp only [Bool.false_eq_true, if_false]
    refine Rat.le_trans ?_ (le_sumList (x := Perform.plainW m (iter m p s).live (m.task t).name w) ?_ ?_)
    · unfold Perform.plainW
      rw [if_pos ⟨hel.1, hws⟩]
      exact delta_le hna hw hel
    · intro x hx
      obtain ⟨w', _, rfl⟩ := List.mem_map.mp hx
      exact plainW_nonneg m _ _ w'
    · exact List.mem_map.mpr ⟨w, hmem, rfl⟩
  have hu : (updated m s).live.tstate t = .ready ∨ (updated m s).live.tstate t = .working := by
    rcases Perform.preCost_start (m := m) p (updated m s) t with e | ⟨e, _⟩
    · right; rw [← e]; exact hw'
    · left; exact e
  apply phi_drop_g hF s ht hg hu hwk
  rw [Auto.iter_eq, hrem, hcon]
  grind

/-! ### a rank-minimal unfinished task: open, with an open finish gate -/

/-- after `__update`, if some task is unfinished, some task below `nT` is READY or WORKING and
its finish gate is open (all inputs of a rank-minimal unfinished task are FINISHED) -/
theorem exists_open_g (hF : FragLG m rk R) (s : St) (h : allFinished m (updated m s).live = false) :
    ∃ t, t < m.nT ∧
      ((updated m s).live.tstate t = .ready ∨ (updated m s).live.tstate t = .working) ∧
      finishGate m (updated m s).live.tstate t = true := by
  obtain ⟨t1, ht1, hu1⟩ := not_allFinished h
  obtain ⟨t, ht, hu, hmin⟩ := exists_min_unfinished (updated m s).live.tstate m.nT rk _ t1 rfl ht1 hu1
  have hfin : ∀ e ∈ (m.task t).inputs, (updated m s).live.tstate e.1 = .finished := fun e he =>
    hmin e.1 (hF.graph t ht e he).1 (hF.graph t ht e he).2
  refine ⟨t, ht, ?_, ?_⟩
  · have hne : (updated m s).live.tstate t ≠ .none := by
      apply C06_ready_deps m s.time s.live t ht
      intro e he
      have hf : (update m s.time s.live).tstate e.1 = .finished := hfin e he
      exact ⟨fun _ => hf, fun _ => by rw [hf]; rfl⟩
    revert hne hu
    cases (updated m s).live.tstate t <;> simp
  · rw [Lifecycle.finishGate_iff]
    intro e he
    have hf := hfin e he
    exact ⟨fun _ => hf, fun _ => by rw [hf]; rfl⟩

/-! ### the measure decreases -/

theorem allocF_nil_g (hF : FragLG m rk R) {l : Live} (hI : Inv m l) {t : Nat} (ht : t < m.nT) :
    l.allocF t = [] := by
  apply Classical.byContradiction
  intro hne
  have := hI.alloc.fac_only t hne
  rw [hF.noFac t ht] at this; cases this

/-- an eligible worker is refused by a READY or WORKING task only because of a solo worker, and
then the task holds somebody -/
theorem canAdd_refused_g (hF : FragLG m rk R) {l : Live} (hI : Inv m l) {t w : Nat} (ht : t < m.nT)
    (hw : w < m.nW) (hs : l.tstate t = .ready ∨ l.tstate t = .working) (hel : WorkerElig m t w)
    (hc : canAdd m l t (some w) Option.none = false) :
    l.allocW t ≠ [] ∧ ∃ ws, ws < m.nW ∧ (m.worker ws).solo = true := by
  by_cases h2 : ∃ w', w' ∈ l.allocW t ∧ (m.worker w').solo = true
  · obtain ⟨w', hw', hsolo⟩ := h2
    exact ⟨fun e => (by rw [e] at hw'; cases hw'), w', (hI.rng t w' hw').2, hsolo⟩
  · by_cases h4 : (m.worker w).solo = true ∧ l.allocW t ≠ []
    · exact ⟨h4.2, w, hw, h4.1⟩
    · exfalso
      have : canAdd m l t (some w) Option.none = true := by
        rw [NoWait.canAdd_W_iff]
        refine ⟨?_, ?_, ?_, ?_, hel.2.2, hel.1⟩
        · rcases hs with e | e <;> rw [e] <;> simp
        · intro w' hw'
          cases hsolo : (m.worker w').solo
          · rfl
          · exact absurd ⟨w', hw', hsolo⟩ h2
        · intro f' hf'
          rw [allocF_nil_g hF hI ht] at hf'; cases hf'
        · intro hsolo
          apply Classical.byContradiction
          intro hne
          exact h4 ⟨hsolo, hne⟩
      rw [this] at hc; cases hc

/-- **The measure decreases** with every iteration that does not end the loop. -/
theorem mu_iter_lt_g (hF : FragLG m rk R) {s : St} (hI : Inv m s.live)
    (hnf : allFinished m (updated m s).live = false) :
    mu m p R (iter m p s) + 1 ≤ mu m p R s := by
  unfold mu
  rw [Live_.iter_time]
  have hA := absLeft_succ_le p.absence s.time
  have hW1 : ∀ w, w < m.nW → (if R w then absLeft (m.worker w).absence (s.time + 1) else 0) ≤
      (if R w then absLeft (m.worker w).absence s.time else 0) := by
    intro w _; split
    · exact absLeft_succ_le _ _
    · exact Nat.le_refl _
  have hW : sumTo m.nW (fun w => if R w then absLeft (m.worker w).absence (s.time + 1) else 0) ≤
      sumTo m.nW (fun w => if R w then absLeft (m.worker w).absence s.time else 0) :=
    sumTo_le hW1
  have hP : sumTo m.nT (phi m (iter m p s).live) ≤ sumTo m.nT (phi m s.live) :=
    sumTo_le (fun t ht => phi_iter_le_g hF hI ht)
  cases hwork : p.absence.contains s.time
  · -- a working step
    obtain ⟨t, ht, hu, hg⟩ := exists_open_g hF s hnf
    have hI' := Inv_iter p hI
    have hIu := Inv_updated hI
    -- a relied-upon worker held at the end of the step by a task with an open finish gate: it is
    -- absent now, or the task progresses
    have key : ∀ w2 t2, w2 ∈ (iter m p s).live.allocW t2 → R w2 = true →
        finishGate m (updated m s).live.tstate t2 = true →
        absLeft p.absence (s.time + 1) +
          sumTo m.nW (fun w => if R w then absLeft (m.worker w).absence (s.time + 1) else 0) +
          sumTo m.nT (phi m (iter m p s).live) + 1 ≤
        absLeft p.absence s.time +
          sumTo m.nW (fun w => if R w then absLeft (m.worker w).absence s.time else 0) +
          sumTo m.nT (phi m s.live) := by
      intro w2 t2 hm2 hR2 hg2
      obtain ⟨ht2, hw2⟩ := hI'.rng t2 w2 hm2
      cases hpres : (m.worker w2).absence.contains s.time
      · have := worker_progress_g hF hI hwork hm2 hg2 hpres
        have := sumTo_lt (f := phi m (iter m p s).live) (g := phi m s.live)
          (fun t ht => phi_iter_le_g (p := p) hF hI ht) t2 ht2 this
        omega
      · have hmem : s.time ∈ (m.worker w2).absence := by simpa using hpres
        have := sumTo_lt (f := fun w => if R w then absLeft (m.worker w).absence (s.time + 1) else 0)
          (g := fun w => if R w then absLeft (m.worker w).absence s.time else 0)
          hW1 w2 hw2 (by simp only [hR2, if_true]; exact absLeft_succ_lt _ _ hmem)
        omega
    cases ha : (m.task t).isAuto
    · obtain ⟨w, hw, hR, hel, hother⟩ := hF.served t ht ha
      cases hpres : (m.worker w).absence.contains s.time
      · -- the eligible worker is present: it is busy at the end of the step
        have hres : ResInv m s.time (workingAt p s.time) (iter m p s).live :=
          (stepBody_C03 p (s := updated m s) hIu.alloc hIu.hold).2.2
        have hwa : workingAt p s.time = true := by unfold workingAt; rw [hwork]; rfl
        rw [hwa] at hres
        have hws := hres.1 w hw
        simp only [if_true] at hws
        rw [hpres] at hws
        have hs' : (iter m p s).live.tstate t = .ready ∨ (iter m p s).live.tstate t = .working := by
          have hst := Perform.preCost_start (m := m) p (updated m s) t
          have e : (iter m p s).live.tstate t = (Perform.preCost m p (updated m s)).tstate t := rfl
          rw [e]
          rcases hst with e1 | ⟨_, e1⟩
          · rw [e1]; exact hu
          · right; exact e1
        cases hasg : (iter m p s).live.wasg w with
        | nil =>
          -- FREE at the end of the step: refused because of a solo worker; the task holds somebody
          have hfree : (iter m p s).live.wstate w = .free := by
            rw [hws, hasg]; rfl
          have h1 := NoWait.stepBody_idle m p (updated m s) hwork hIu.alloc hIu.hold w t hw hfree ht
            hs' ha (hF.noFac t ht) hel.1 hel.2.1
          rw [← Auto.iter_eq] at h1
          obtain ⟨hne, ws, hws1, hws2⟩ := canAdd_refused_g hF hI' ht hw hs' hel h1
          cases hal : (iter m p s).live.allocW t with
          | nil => exact absurd hal hne
          | cons w2 rest =>
            have hm2 : w2 ∈ (iter m p s).live.allocW t := by rw [hal]; simp
            exact key w2 t hm2 (hF.solo ws hws1 hws2 w2 (hI'.rng t w2 hm2).2) hg
        | cons t' rest =>
          have hmem : w ∈ (iter m p s).live.allocW t' :=
            (hI'.alloc.w_two t' w).mpr (by rw [hasg]; simp)
          -- the holder is `t` itself (finish gate open) or another task, which has no finish gate
          by_cases e : t' = t
          · subst e; exact key w t' hmem hR hg
          · have ht' := (hI'.rng t' w hmem).1
            have hel' : WorkerElig m t' w := (hI'.elig t' ht').worker w hmem
            exact key w t' hmem hR (Auto.finishGate_true (hother t' ht' e hel') _)
      · -- the eligible worker is absent now: one of its absence steps is used up
        have hmem : s.time ∈ (m.worker w).absence := by simpa using hpres
        have := sumTo_lt (f := fun w => if R w then absLeft (m.worker w).absence (s.time + 1) else 0)
          (g := fun w => if R w then absLeft (m.worker w).absence s.time else 0)
          hW1 w hw (by simp only [hR, if_true]; exact absLeft_succ_lt _ _ hmem)
        omega
    · have := auto_progress_g hF s hwork ht ha hg hu
      have := sumTo_lt (f := phi m (iter m p s).live) (g := phi m s.live)
        (fun t ht => phi_iter_le_g (p := p) hF hI ht) t ht this
      omega
  · -- a project absence step
    have hmem : s.time ∈ p.absence := by simpa using hwork
    have := absLeft_succ_lt p.absence s.time hmem
    omega

/-! ### the loop -/

/-- **Liveness of the loop, fragment LG.**  From a state satisfying the invariants, with a budget
`n` of at least the measure and `time + n ≤ max_time`, the loop leaves through its SUCCESS exit, at
a time `≤ time + n`. -/
theorem loop_success_g (hF : FragLG m rk R) :
    ∀ n fuel s, Inv m s.live → mu m p R s ≤ n → s.time + n ≤ p.maxTime → n + 1 ≤ fuel →
      (loop m p fuel s).status = .success ∧ (loop m p fuel s).time ≤ s.time + n ∧
      allFinished m (loop m p fuel s).live = true := by
  intro n
  induction n with
  | zero =>
    intro fuel s hI hmu _ hfuel
    cases fuel with
    | zero => omega
    | succ f =>
      simp only [loop]
      split
      · rename_i hall; exact ⟨rfl, Nat.le_refl _, hall⟩
      · rename_i hall
        have := mu_pos (p := p) (R := R) s (by simpa [updated] using hall)
        omega
  | succ k ih =>
    intro fuel s hI hmu htime hfuel
    cases fuel with
    | zero => omega
    | succ f =>
      simp only [loop]
      split
      · rename_i hall; exact ⟨rfl, by show s.time ≤ _; omega, hall⟩
      · rename_i hall
        have hnf : allFinished m (updated m s).live = false := by simpa [updated] using hall
        split
        · rename_i ht
          have ht' : s.time ≥ p.maxTime := ht
          omega
        · have hdec := mu_iter_lt_g (p := p) hF hI hnf
          have h := ih f (iter m p s) (Inv_iter p hI) (by omega)
            (by rw [Live_.iter_time]; omega) (by omega)
          rw [Live_.iter_time] at h
          refine ⟨h.1, ?_, h.2.2⟩
          have := h.2.1
          show (loop m p f (iter m p s)).time ≤ _
          omega

/-- **Liveness of `simulate`, fragment LG.** -/
theorem simulate_success_g (hF : FragLG m rk R) (s : St) (hs : p.initState = true)
    (hb : (enter m p s).time + bound m p R ≤ p.maxTime) :
    (simulate m p s).status = .success ∧
    (simulate m p s).time ≤ (enter m p s).time + bound m p R ∧
    allFinished m (simulate m p s).live = true := by
  rw [simulate_eq]
  apply loop_success_g hF (bound m p R) _ _ (Inv_enter hs) (mu_enter_le hs) hb
  unfold fuelOf; omega

/-! ### workers of one's own -/

/-- Fragment "dedicated workers, all link kinds": no facilities, automatic tasks without component
and with positive rate, an acyclic in-range graph over all four kinds of links, no solo worker, and
every non-automatic task `t` has its own worker `d t` of the organisation: eligible for `t`, never
individually absent, and eligible for no other task. -/
structure DedG (m : Model) (rk : Nat → Nat) (d : Nat → Nat) : Prop where
  noFac : ∀ t, t < m.nT → (m.task t).needFac = false
  autoNoComp : ∀ t, t < m.nT → (m.task t).isAuto = true → (m.task t).comp = Option.none
  graph : ∀ t, t < m.nT → ∀ e ∈ (m.task t).inputs, e.1 < m.nT ∧ rk e.1 < rk t
  autoRate : ∀ t, t < m.nT → (m.task t).isAuto = true → 0 < (m.task t).autoRate
  noSolo : ∀ w, w < m.nW → (m.worker w).solo = false
  ded : ∀ t, t < m.nT → (m.task t).isAuto = false →
    d t < m.nW ∧ WorkerElig m t (d t) ∧ (m.worker (d t)).absence = []
  excl : ∀ t, t < m.nT → (m.task t).isAuto = false → ∀ t', t' < m.nT → t' ≠ t →
    ¬ WorkerElig m t' (d t)

theorem DedG.toLG {m : Model} {rk d : Nat → Nat} (h : DedG m rk d) :
    FragLG m rk (neverAbsent m) where
  noFac := h.noFac
  autoNoComp := h.autoNoComp
  graph := h.graph
  autoRate := h.autoRate
  solo := by
    intro w hw hs; rw [h.noSolo w hw] at hs; cases hs
  served := by
    intro t ht ha
    obtain ⟨h1, h2, h3⟩ := h.ded t ht ha
    exact ⟨d t, h1, by simp [neverAbsent, h3], h2,
      fun t' ht' hne hel => absurd hel (h.excl t ht ha t' ht' hne)⟩

/-- Mixed fragment: all four link kinds; every non-automatic task WITH an FF or SF input has a
relied-upon worker `d t` of its own (eligible for `t` and for no other task); every non-automatic
task WITHOUT FF/SF input has, as in fragment L, an eligible relied-upon worker — one that is
eligible for no task with an FF/SF input (such a task could hold it forever at its finish gate,
see `C05_live_gates_counterexample_shared`).  Workers may be individually absent (the absence
steps of the relied-upon ones enter the bound) and, between tasks without FF/SF input, shared. -/
structure GatesOwn (m : Model) (rk : Nat → Nat) (R : Nat → Bool) (d : Nat → Nat) : Prop where
  noFac : ∀ t, t < m.nT → (m.task t).needFac = false
  autoNoComp : ∀ t, t < m.nT → (m.task t).isAuto = true → (m.task t).comp = Option.none
  graph : ∀ t, t < m.nT → ∀ e ∈ (m.task t).inputs, e.1 < m.nT ∧ rk e.1 < rk t
  autoRate : ∀ t, t < m.nT → (m.task t).isAuto = true → 0 < (m.task t).autoRate
  solo : ∀ w, w < m.nW → (m.worker w).solo = true → ∀ w', w' < m.nW → R w' = true
  own : ∀ t, t < m.nT → (m.task t).isAuto = false → ¬ Auto.NoFinDeps m t →
    d t < m.nW ∧ R (d t) = true ∧ WorkerElig m t (d t) ∧
      ∀ t', t' < m.nT → t' ≠ t → ¬ WorkerElig m t' (d t)
  served : ∀ t, t < m.nT → (m.task t).isAuto = false → Auto.NoFinDeps m t →
    ∃ w, w < m.nW ∧ R w = true ∧ WorkerElig m t w ∧
      ∀ t', t' < m.nT → WorkerElig m t' w → Auto.NoFinDeps m t'

theorem GatesOwn.toLG {m : Model} {rk : Nat → Nat} {R : Nat → Bool} {d : Nat → Nat}
    (h : GatesOwn m rk R d) : FragLG m rk R where
  noFac := h.noFac
  autoNoComp := h.autoNoComp
  graph := h.graph
  autoRate := h.autoRate
  solo := h.solo
  served := by
    intro t ht ha
    by_cases hg : Auto.NoFinDeps m t
    · obtain ⟨w, hw, hR, hel, ho⟩ := h.served t ht ha hg
      exact ⟨w, hw, hR, hel, fun t' ht' _ hel' => ho t' ht' hel'⟩
    · obtain ⟨hw, hR, hel, ho⟩ := h.own t ht ha hg
      exact ⟨d t, hw, hR, hel, fun t' ht' hne hel' => absurd hel' (ho t' ht' hne)⟩

end LiveG
end PDesy
